#!/bin/sh
# runs every claimed check (quick tier unless VERIF_TIER is set) and summarises
cd "$(dirname "$0")"
for p in $(python3 -c "import json;print(' '.join(c['property_id'] for c in json.load(open('MANIFEST.json'))['checks']))"); do
  ./check $p "$@" | tail -3
done
