package harness

import (
	"encoding/hex"
	"fmt"
	"reflect"
	"strings"
	"time"

	"github.com/jcmturner/gofork/encoding/asn1"
)

// ---- canonical text of a Go value, driven by its asn1 struct tags (same grammar as kmodel's showVal) ----

var (
	tTime      = reflect.TypeOf(time.Time{})
	tBitString = reflect.TypeOf(asn1.BitString{})
	tOID       = reflect.TypeOf(asn1.ObjectIdentifier{})
	tEnum      = reflect.TypeOf(asn1.Enumerated(0))
	tRaw       = reflect.TypeOf(asn1.RawValue{})
)

func hasTagNumber(tag string) bool { return strings.Contains(tag, "tag:") }
func isOptional(tag string) bool   { return strings.Contains(tag, "optional") }

func isZero(v reflect.Value) bool {
	return reflect.DeepEqual(v.Interface(), reflect.Zero(v.Type()).Interface())
}

func oidBytes(oid asn1.ObjectIdentifier) []byte {
	b, _ := asn1.Marshal(oid)
	if len(b) < 2 {
		return nil
	}
	return b[2:]
}

func renderVal(v reflect.Value) string {
	t := v.Type()
	switch {
	case t == tTime:
		return "x" + hex.EncodeToString([]byte(v.Interface().(time.Time).UTC().Format("20060102150405Z")))
	case t == tBitString:
		bs := v.Interface().(asn1.BitString)
		return fmt.Sprintf("b%d:%s", len(bs.Bytes)*8-bs.BitLength, hex.EncodeToString(bs.Bytes))
	case t == tOID:
		return "x" + hex.EncodeToString(oidBytes(v.Interface().(asn1.ObjectIdentifier)))
	case t == tEnum:
		return fmt.Sprintf("i%d", v.Int())
	case t == tRaw:
		return "r" + hex.EncodeToString(v.Interface().(asn1.RawValue).FullBytes)
	}
	switch t.Kind() {
	case reflect.Int, reflect.Int8, reflect.Int16, reflect.Int32, reflect.Int64:
		return fmt.Sprintf("i%d", v.Int())
	case reflect.String:
		return "x" + hex.EncodeToString([]byte(v.String()))
	case reflect.Bool:
		if v.Bool() {
			return "T"
		}
		return "F"
	case reflect.Slice:
		if t.Elem().Kind() == reflect.Uint8 {
			return "x" + hex.EncodeToString(v.Bytes())
		}
		parts := make([]string, v.Len())
		for i := 0; i < v.Len(); i++ {
			parts[i] = renderVal(v.Index(i))
		}
		return "[" + strings.Join(parts, " ") + "]"
	case reflect.Struct:
		var parts []string
		for i := 0; i < t.NumField(); i++ {
			f := t.Field(i)
			tag := f.Tag.Get("asn1")
			if !hasTagNumber(tag) {
				continue // a Go-only field (decrypted part etc.), not a component of the ASN.1 type
			}
			fv := v.Field(i)
			if isOptional(tag) && isZero(fv) {
				parts = append(parts, "-")
				continue
			}
			if strings.Contains(tag, "omitempty") && fv.Kind() == reflect.Slice && fv.Len() == 0 {
				parts = append(parts, "-")
				continue
			}
			parts = append(parts, renderVal(fv))
		}
		return "(" + strings.Join(parts, " ") + ")"
	}
	return "?" + t.String()
}

// ---- PRNG filler for tagged structs ----

func fillString(r *RNG) string {
	n := r.Pick(0, 1, 3, 11, 11, 11, 126, 127, 128, 255, 256, 300)
	if r.Intn(60) == 0 {
		n = 65536 + r.Intn(10)
	}
	// upper and lower case, digits and the punctuation principal and realm names carry: strings are octet
	// strings to the codec, nothing in them is folded or trimmed
	const alphabet = "ABCDEFGHIJKLMNOPQRSTUVWXYZabcdefghijklmnopqrstuvwxyz0123456789.-/@_ "
	b := make([]byte, n)
	upper := r.Intn(3) == 0
	for i := range b {
		if upper {
			b[i] = byte('A' + r.Intn(26))
		} else {
			b[i] = alphabet[r.Intn(len(alphabet))]
		}
	}
	return string(b)
}

func fillInt(r *RNG, bits int) int64 {
	switch r.Intn(8) {
	case 0:
		return int64(r.Pick(0, 1, -1, 127, 128, -128, -129, 255, 256, 32767, 32768, -32768, -32769, 65535, 65536))
	case 1:
		if bits >= 64 {
			return int64(r.Pick(1<<31-1, 1<<31, -1<<31, -1<<31-1, 1<<32-1, 1<<32))
		}
		return int64(r.Pick(1<<31-1, -1<<31, 1<<24, -(1 << 24)))
	case 2:
		v := int64(r.U64())
		if bits == 32 {
			return int64(int32(v))
		}
		return v >> uint(r.Intn(40))
	}
	return int64(r.Intn(40))
}

// fillValue fills v (settable) with PRNG data. depthBudget limits nested optional presence.
func fillValue(r *RNG, v reflect.Value, tag string, required bool) {
	t := v.Type()
	present := required || !isOptional(tag) || r.Intn(3) != 0
	if !present {
		return
	}
	switch {
	case t == tTime:
		sec := int64(r.Pick(1, 946684800, 1500000000, 4102444799, 86400*365*10+r.Intn(1000000)))
		v.Set(reflect.ValueOf(time.Unix(sec, 0).UTC()))
		return
	case t == tBitString:
		b := r.Bytes(4)
		if r.Intn(4) == 0 {
			b = make([]byte, 4)
			b[r.Intn(4)] = 1 << uint(r.Intn(8))
		}
		// (an all-zero optional bit string counts as absent for Go; keep required ones arbitrary)
		if isOptional(tag) && b[0]|b[1]|b[2]|b[3] == 0 {
			b[1] = 0x40
		}
		// KerberosFlags ::= BIT STRING (SIZE (32..MAX)): now and then more than 32 bits
		bitLen := 0
		switch r.Intn(6) {
		case 0:
			b = append(b, r.Bytes(1+r.Intn(2))...)
			if b[len(b)-1] == 0 {
				b[len(b)-1] = 0x80
			}
		case 1:
			// ... that do not fill their last octet (33..39, 41..47 bits): the unused bits are zero and counted
			b = append(b, r.Bytes(1+r.Intn(2))...)
			u := 1 + r.Intn(7)
			b[len(b)-1] = (b[len(b)-1] | 0x80) &^ byte(1<<uint(u)-1)
			bitLen = 8*len(b) - u
		}
		if bitLen == 0 {
			bitLen = 8 * len(b)
		}
		v.Set(reflect.ValueOf(asn1.BitString{Bytes: b, BitLength: bitLen}))
		return
	case t == tOID:
		oids := []asn1.ObjectIdentifier{{1, 2, 840, 113554, 1, 2, 2}, {1, 2, 840, 48018, 1, 2, 2}, {1, 3, 6, 1, 5, 5, 2}, {1, 3, 6, 1, 4, 1, 311, 2, 2, 10}}
		v.Set(reflect.ValueOf(oids[r.Intn(len(oids))]))
		return
	case t == tEnum:
		v.SetInt(int64(r.Intn(4)))
		return
	}
	switch t.Kind() {
	case reflect.Int, reflect.Int64:
		x := fillInt(r, 64)
		if isOptional(tag) && x == 0 {
			x = 7
		}
		v.SetInt(x)
	case reflect.Int32:
		x := fillInt(r, 32)
		if isOptional(tag) && x == 0 {
			x = 7
		}
		v.SetInt(int64(int32(x)))
	case reflect.String:
		s := fillString(r)
		if isOptional(tag) && s == "" {
			s = "x"
		}
		v.SetString(s)
	case reflect.Slice:
		if t.Elem().Kind() == reflect.Uint8 {
			n := r.Pick(0, 1, 16, 127, 128, 300)
			if (isOptional(tag) || strings.Contains(tag, "omitempty")) && n == 0 {
				n = 2
			}
			v.SetBytes(r.Bytes(n))
			return
		}
		n := r.Intn(4)
		if isOptional(tag) && n == 0 {
			n = 1
		}
		s := reflect.MakeSlice(t, n, n)
		for i := 0; i < n; i++ {
			fillValue(r, s.Index(i), strings.Replace(tag, "optional", "", -1), true)
		}
		v.Set(s)
	case reflect.Struct:
		for i := 0; i < t.NumField(); i++ {
			f := t.Field(i)
			ft := f.Tag.Get("asn1")
			if !hasTagNumber(ft) || !v.Field(i).CanSet() {
				continue
			}
			fillValue(r, v.Field(i), ft, false)
		}
		if isOptional(tag) && isZero(v) {
			// make sure a "present" optional struct is not the zero value
			fillValue(r, v, "", true)
		}
	}
}
