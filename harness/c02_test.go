package harness

import (
	"fmt"
	"strings"
	"sync"
	"sync/atomic"
	"testing"
	"testing/synctest"
	"time"

	"github.com/jcmturner/gokrb5/v8/messages"
	"github.com/jcmturner/gokrb5/v8/service"
	"github.com/jcmturner/gokrb5/v8/types"
)

type rcPres struct {
	client int // index into rcClients
	ts     int // index into the timestamp alphabet
	svc    int
}

var rcClients = []struct {
	name  []string
	realm string
}{
	{[]string{"alice"}, "TEST.GOKRB5"},
	{[]string{"bob"}, "TEST.GOKRB5"},
	{[]string{"a/b"}, "TEST.GOKRB5"}, // joins to the same string as the next one
	{[]string{"a", "b"}, "TEST.GOKRB5"},
	{[]string{"alice"}, "OTHER.REALM"}, // same name, other realm
	// names are octet strings (GeneralString passes Latin-1 and anything else): two names that differ in
	// octets that are not valid UTF-8 are two names
	{[]string{"m\xfcller"}, "TEST.GOKRB5"},
	{[]string{"m\xf6ller"}, "TEST.GOKRB5"},
	{[]string{"alice"}, "TEST.GOKRB5\xff"},
	{[]string{"alice"}, "TEST.GOKRB5\xfe"},
}

var rcServices = [][]string{{"HTTP", "host.test.gokrb5"}, {"host", "host.test.gokrb5"}}

// the same instant arrives as a time.Time in whatever location the decoder gave it: a timestamp that was
// encoded with a numeric zone offset decodes with a new *time.Location at every decode. What the cache
// remembers is the instant.
var rcAuthCalls int64

func rcAuth(client int, ct time.Time) types.Authenticator {
	sec := ct.Truncate(time.Second)
	switch atomic.AddInt64(&rcAuthCalls, 1) % 4 {
	case 1:
		sec = sec.In(time.FixedZone("", 5400))
	case 2:
		sec = sec.In(time.FixedZone("", -12600))
	case 3:
		sec = sec.UTC()
	}
	return types.Authenticator{
		AVNO:   5,
		CRealm: rcClients[client].realm,
		CName:  types.PrincipalName{NameType: 1, NameString: rcClients[client].name},
		CTime:  sec,
		Cusec:  int(ct.Sub(ct.Truncate(time.Second)) / time.Microsecond),
	}
}

// the name type is a hint, not part of a principal's identity (RFC 4120 6.2; it travels in the unprotected
// part of the AP-REQ): the same service is named with changing name types from call to call
var rcSvcCalls int64

func rcSvc(i int) types.PrincipalName {
	nt := []int32{2, 1, 2, 3, 0, 2, 2, 1}[atomic.AddInt64(&rcSvcCalls, 1)%8]
	return types.PrincipalName{NameType: nt, NameString: rcServices[i]}
}

func us(t time.Time) int64 { return t.UnixNano() / 1000 }

// C02: an authenticator is accepted at most once while it remains acceptable.
func TestC02(t *testing.T) {
	m := StartModel(t)
	defer m.Close()
	v := NewVerdict("C02", "sequential histories of presentations and clean-ups under the fake clock (bounded-exhaustive over 2 clients x 3 timestamps {now-d, now, now+d} x 2 services x clean-ups x clock advances, length <= 4; long PRNG histories over 5 clients incl. name-join and realm near-misses, late-in-window presentations) compared with the Lean model and with the at-most-once / no-false-replay oracle; every schedule of 2-3 concurrent IsReplay calls (+ a clean-up) at the lock-acquisition yield points; free-running parallel presentations of one authenticator. distinct = canonical history / schedule")
	service.VerifYield = SchedYield
	rng := NewRNG(Seed())
	c02Sequential(t, m, v, rng)
	c02Schedules(m, v, rng)
	c02Stress(v, rng)
	c02StressAPREQ(m, v, rng)
	c02Cleaner(t, v)
	v.ModelAsks = m.N
	v.Write(t)
}

type rcOp struct {
	kind    byte // 'p' present, 'c' cleanup, 's' sleep
	p       rcPres
	dt      time.Duration
	cleanD  time.Duration
	comment string
}

// runHistory executes a history on a fresh cache inside a synctest bubble; returns the op tokens for
// the model (with the clock readings observed) and the Go results.
func runHistory(t *testing.T, ops []rcOp, d time.Duration) (toks []string, results []string) {
	synctest.Test(t, func(t *testing.T) {
		// the retention period set as GetReplayCache(d) sets it for the process-wide cache
		c := service.NewCacheForVerifMaxAge(d)
		t0 := time.Now()
		// (the fourth: as old as the skew allows less the microseconds it carries: cusec = 999999)
		stamps := []time.Time{t0.Add(-d), t0.Add(1234 * time.Microsecond), t0.Add(d), t0.Add(-d + 999999*time.Microsecond)}
		for _, op := range ops {
			switch op.kind {
			case 's':
				time.Sleep(op.dt)
			case 'c':
				c.ClearOldEntries(op.cleanD)
				toks = append(toks, fmt.Sprintf("c:%d:%d", us(time.Now()), int64(op.cleanD/time.Microsecond)))
				results = append(results, "-")
			case 'p':
				var ct time.Time
				if op.p.ts < len(stamps) {
					ct = stamps[op.p.ts]
				} else {
					ct = t0.Add(time.Duration(op.p.ts) * time.Microsecond) // one of many distinct instants inside the window
				}
				r := c.IsReplay(rcSvc(op.p.svc), rcAuth(op.p.client, ct))
				toks = append(toks, fmt.Sprintf("p:%d:%d:%d", op.p.client, us(ct), op.p.svc))
				results = append(results, B(r))
			}
		}
	})
	return
}

// oracle: independent of the model. Walks the history and reports the index of a presentation that
// violates at-most-once (should have been flagged) or no-false-replay (flagged without cause).
func rcOracle(toks, results []string, d int64) (int, string) {
	type key struct {
		cl, svc int
		ct      int64
	}
	seen := map[key]bool{} // presented before and never possibly purged since
	ever := map[key]bool{} // presented before at all
	for i, tk := range toks {
		f := strings.Split(tk, ":")
		if f[0] == "c" {
			var now, cd int64
			fmt.Sscan(f[1], &now)
			fmt.Sscan(f[2], &cd)
			for k := range seen {
				if now-k.ct > cd { // the clean-up ran when this timestamp was outside ITS window: may purge
					delete(seen, k)
				}
			}
			continue
		}
		var k key
		fmt.Sscan(f[1], &k.cl)
		fmt.Sscan(f[2], &k.ct)
		fmt.Sscan(f[3], &k.svc)
		if seen[k] && results[i] != "1" {
			return i, "an authenticator that was presented before and is still inside its window is accepted again"
		}
		if !ever[k] && results[i] == "1" {
			return i, "an authenticator that was never presented (other client, timestamp or service) is flagged as a replay"
		}
		seen[k] = true
		ever[k] = true
	}
	return -1, ""
}

func c02Check(t *testing.T, m *Model, v *Verdict, ops []rcOp, d time.Duration, family string) {
	toks, res := runHistory(t, ops, d)
	hist := strings.Join(toks, " ")
	v.Case(family+"|"+hist, family)
	if i, what := rcOracle(toks, res, int64(d/time.Microsecond)); i >= 0 {
		// shrink: drop operations while the oracle still fails, then report the minimal history
		cur := append([]rcOp{}, ops...)
		for changed := true; changed; {
			changed = false
			for k := 0; k < len(cur); k++ {
				cand := append(append([]rcOp{}, cur[:k]...), cur[k+1:]...)
				tk, rs := runHistory(t, cand, d)
				if j, _ := rcOracle(tk, rs, int64(d/time.Microsecond)); j >= 0 {
					cur, changed = cand, true
					break
				}
			}
		}
		toks, res = runHistory(t, cur, d)
		i, what = rcOracle(toks, res, int64(d/time.Microsecond))
		hist = strings.Join(toks, " ")
		// signature: the shape of the failing history with times made relative
		v.Violate("failing-input", "c02:history:"+rcShape(toks, res, i), what, map[string]string{"history": hist, "results": strings.Join(res, ","), "at": itoa(i)})
		return
	}
	mo := m.Ask("rc.run " + hist)
	if mo != "ok "+List(res) {
		v.Violate("correspondence", "c02:model:"+family, "replay cache and its Lean model disagree on a history", map[string]string{"history": hist, "go": List(res), "model": mo})
	}
}

// rcShape renders the history up to index i with clients/services kept and times replaced by ranks.
func rcShape(toks, res []string, i int) string {
	rank := map[string]int{}
	var out []string
	for j := 0; j <= i && j < len(toks); j++ {
		f := strings.Split(toks[j], ":")
		if f[0] == "c" {
			out = append(out, "c")
			continue
		}
		if _, ok := rank[f[2]]; !ok {
			rank[f[2]] = len(rank)
		}
		out = append(out, fmt.Sprintf("p%s.t%d.s%s=%s", f[1], rank[f[2]], f[3], res[j]))
	}
	return strings.Join(out, ",")
}

func c02Sequential(t *testing.T, m *Model, v *Verdict, rng *RNG) {
	d := 5 * time.Minute
	// bounded-exhaustive: alphabet of 12 presentations + clean-up + three clock advances
	var alpha []rcOp
	for cl := 0; cl < 2; cl++ {
		for ts := 0; ts < 3; ts++ {
			for svc := 0; svc < 2; svc++ {
				alpha = append(alpha, rcOp{kind: 'p', p: rcPres{cl, ts, svc}})
			}
		}
	}
	alpha = append(alpha, rcOp{kind: 'c', cleanD: d})
	alpha = append(alpha, rcOp{kind: 's', dt: d / 2}, rcOp{kind: 's', dt: d + time.Microsecond})
	maxLen := 3
	if Thorough() {
		maxLen = 4
	}
	var rec func(prefix []rcOp)
	rec = func(prefix []rcOp) {
		if len(prefix) > 0 && prefix[len(prefix)-1].kind == 'p' {
			c02Check(t, m, v, prefix, d, "exhaustive")
		}
		if len(prefix) == maxLen {
			return
		}
		for _, a := range alpha {
			// symmetry reduction: first presentation uses client 0, service 0
			if len(prefix) == 0 && !(a.kind == 'p' && a.p.client == 0 && a.p.svc == 0) {
				continue
			}
			rec(append(append([]rcOp{}, prefix...), a))
		}
	}
	rec(nil)
	// directed: the late-in-window history (ctime = now + d, clean-up after d, re-present)
	c02Check(t, m, v, []rcOp{{kind: 'p', p: rcPres{0, 2, 0}}, {kind: 's', dt: d + time.Second}, {kind: 'c', cleanD: d}, {kind: 'p', p: rcPres{0, 2, 0}}}, d, "late-window")
	// directed: an authenticator whose last moment in the window is given by its microseconds: clean-ups half a
	// second and 999 ms after it was accepted must keep it, it is refused when presented again
	for _, dt := range []time.Duration{500 * time.Millisecond, 999 * time.Millisecond, 999999 * time.Microsecond} {
		c02Check(t, m, v, []rcOp{{kind: 'p', p: rcPres{0, 3, 0}}, {kind: 's', dt: dt}, {kind: 'c', cleanD: d}, {kind: 'p', p: rcPres{0, 3, 0}}}, d, "sub-second-window")
	}
	// directed: one client presents 300 different authenticators inside the window and then the first one again
	// (what is remembered per client has no room limit that is smaller than what the window can hold)
	{
		ops := []rcOp{{kind: 'p', p: rcPres{0, 1000, 0}}}
		for i := 1; i <= 300; i++ {
			ops = append(ops, rcOp{kind: 'p', p: rcPres{0, 1000 + i*7, 0}})
		}
		ops = append(ops, rcOp{kind: 'p', p: rcPres{0, 1000, 0}}, rcOp{kind: 'c', cleanD: d}, rcOp{kind: 'p', p: rcPres{0, 1007, 0}})
		c02Check(t, m, v, ops, d, "many-authenticators")
	}
	// directed: service A, then B, then A
	c02Check(t, m, v, []rcOp{{kind: 'p', p: rcPres{0, 1, 0}}, {kind: 'p', p: rcPres{0, 1, 1}}, {kind: 'p', p: rcPres{0, 1, 0}}}, d, "two-services")
	// directed: near-miss clients
	c02Check(t, m, v, []rcOp{{kind: 'p', p: rcPres{2, 1, 0}}, {kind: 'p', p: rcPres{3, 1, 0}}}, d, "name-join")
	c02Check(t, m, v, []rcOp{{kind: 'p', p: rcPres{0, 1, 0}}, {kind: 'p', p: rcPres{4, 1, 0}}}, d, "other-realm")
	// long random histories
	n := 60
	if Thorough() {
		n = 1500
	}
	for i := 0; i < n; i++ {
		var ops []rcOp
		l := 20 + rng.Intn(200)
		for j := 0; j < l; j++ {
			switch rng.Intn(10) {
			case 0:
				ops = append(ops, rcOp{kind: 'c', cleanD: d})
			case 1:
				ops = append(ops, rcOp{kind: 's', dt: []time.Duration{time.Second, d / 3, d, d + time.Microsecond, 400 * time.Millisecond}[rng.Intn(5)]})
			default:
				ops = append(ops, rcOp{kind: 'p', p: rcPres{rng.Intn(len(rcClients)), rng.Intn(4), rng.Intn(2)}})
			}
		}
		c02Check(t, m, v, ops, d, "random")
	}
}

// c02Schedules: every schedule of 2-3 concurrent IsReplay calls (identical and distinct
// authenticators) plus optionally one clean-up, at the lock acquisition yield points.
func c02Schedules(m *Model, v *Verdict, rng *RNG) {
	now := time.Now()
	type thr struct {
		clean bool
		p     rcPres
	}
	configs := [][]thr{
		{{p: rcPres{0, 0, 0}}, {p: rcPres{0, 0, 0}}},
		{{p: rcPres{0, 0, 0}}, {p: rcPres{0, 0, 0}}, {p: rcPres{0, 0, 0}}},
		{{p: rcPres{0, 0, 0}}, {p: rcPres{0, 0, 1}}, {p: rcPres{0, 0, 0}}},
		{{p: rcPres{0, 0, 0}}, {p: rcPres{1, 0, 0}}, {p: rcPres{0, 0, 0}}},
		{{p: rcPres{0, 0, 0}}, {p: rcPres{0, 0, 0}}, {clean: true}},
		{{p: rcPres{0, 0, 0}}, {p: rcPres{0, 1, 0}}, {clean: true}},
	}
	limit := 400
	if Thorough() {
		limit = 40000
	}
	for ci, cfg := range configs {
		for _, seeded := range []bool{false, true} {
			total := EnumerateSchedules(limit, func(choices []int) []int {
				c := service.NewCacheForVerifMaxAge(5 * time.Minute)
				if seeded {
					// an older entry of the same client exists (exercises the existing-client path, and
					// lets a clean-up with a zero window delete it concurrently)
					c.IsReplay(rcSvc(0), rcAuth(0, now.Add(-time.Hour)))
				}
				res := make([]bool, len(cfg))
				var bodies []func()
				for i, th := range cfg {
					i, th := i, th
					if th.clean {
						bodies = append(bodies, func() { c.ClearOldEntries(30 * time.Minute) })
					} else {
						bodies = append(bodies, func() {
							res[i] = c.IsReplay(rcSvc(th.p.svc), rcAuth(th.p.client, now.Add(time.Duration(th.p.ts)*time.Second)))
						})
					}
				}
				fan, trace, stuck := RunSchedule(bodies, choices)
				key := fmt.Sprintf("sched/%d/%v/%v", ci, seeded, trace)
				v.Case(key, fmt.Sprintf("schedule cfg%d", ci))
				if stuck {
					v.Note(fmt.Sprintf("schedule %v of config %d got stuck (a thread blocked on a real lock while another was parked)", trace, ci))
					return fan
				}
				// oracle: among threads presenting the same triple exactly one is accepted
				groups := map[rcPres][]int{}
				for i, th := range cfg {
					if !th.clean {
						groups[th.p] = append(groups[th.p], i)
					}
				}
				for p, idx := range groups {
					acc := 0
					for _, i := range idx {
						if !res[i] {
							acc++
						}
					}
					if acc != 1 {
						v.Violate("failing-input", fmt.Sprintf("c02:schedule:accepted=%d-of-%d", acc, len(idx)), "concurrent presentations of one authenticator: not exactly one accepted", map[string]string{"config": fmt.Sprint(cfg), "seeded": fmt.Sprint(seeded), "schedule": fmt.Sprint(trace), "results": fmt.Sprint(res), "triple": fmt.Sprint(p)})
					}
				}
				return fan
			})
			_ = total
		}
	}
}

// c02Stress: free-running goroutines presenting one authenticator; exactly one must be accepted.
func c02Stress(v *Verdict, rng *RNG) {
	save := service.VerifYield
	service.VerifYield = nil
	defer func() { service.VerifYield = save }()
	rounds := 1500
	if Thorough() {
		rounds = 20000
	}
	c := service.NewCacheForVerifMaxAge(5 * time.Minute)
	now := time.Now()
	for r := 0; r < rounds; r++ {
		// a fresh client per round that already has one old entry; a clean-up that purges exactly that
		// old entry runs concurrently with the presentations of a new authenticator
		mk := func(ct time.Time) types.Authenticator {
			a := rcAuth(0, ct)
			a.CName = types.PrincipalName{NameType: 1, NameString: []string{fmt.Sprintf("stress-%d", r)}}
			return a
		}
		c.IsReplay(rcSvc(0), mk(now.Add(-2*time.Hour)))
		a := mk(now.Add(time.Duration(r) * time.Microsecond))
		var wg sync.WaitGroup
		var mu sync.Mutex
		acc := 0
		start := make(chan struct{})
		wg.Add(1)
		go func() {
			defer wg.Done()
			<-start
			c.ClearOldEntries(time.Hour)
		}()
		for g := 0; g < 8; g++ {
			wg.Add(1)
			go func() {
				defer wg.Done()
				<-start
				if !c.IsReplay(rcSvc(0), a) {
					mu.Lock()
					acc++
					mu.Unlock()
				}
			}()
		}
		close(start)
		wg.Wait()
		v.Case("", "stress round")
		if acc != 1 {
			v.Violate("failing-input", "c02:stress:double-accept", "free-running concurrent presentations of one authenticator: not exactly one accepted", map[string]string{"round": itoa(r), "accepted": itoa(acc)})
		}
	}
	v.Case("stress", "")
}

// c02StressAPREQ: the same AP-REQ presented to service.VerifyAPREQ by several goroutines at once (each with its own
// decoded copy, as concurrent connections have): exactly one presentation is accepted. This goes through the
// whole verification, not only the cache: checking and recording have to be one step there too.
func c02StressAPREQ(m *Model, v *Verdict, rng *RNG) {
	rounds := 150
	if Thorough() {
		rounds = 2000
	}
	for r := 0; r < rounds; r++ {
		c := baseCase([]int32{18, 17, 23}[r%3])
		c.cname = []string{fmt.Sprintf("stress-%d-%d", Seed(), r)}
		c.decodePAC = r%2 == 0
		if c.decodePAC {
			c.pac = "valid"
		}
		_, b, err := mintAPReq(m, rng, c, time.Now())
		if err != nil {
			continue
		}
		s, _ := settingsFor(c)
		const workers = 8
		var acc int64
		var wg sync.WaitGroup
		start := make(chan struct{})
		for g := 0; g < workers; g++ {
			wg.Add(1)
			go func() {
				defer wg.Done()
				var a messages.APReq
				if a.Unmarshal(b) != nil {
					return
				}
				<-start
				Protect(func() {
					if ok, _, _ := service.VerifyAPREQ(&a, s); ok {
						atomic.AddInt64(&acc, 1)
					}
				})
			}()
		}
		close(start)
		wg.Wait()
		if acc != 1 {
			v.Violate("failing-input", "c02:stress-verify:accepted-"+fmt.Sprint(min(acc, 2)), "the same AP-REQ presented to VerifyAPREQ by eight goroutines at once: not exactly one presentation accepted", map[string]string{"round": itoa(r), "accepted": fmt.Sprint(acc), "etype": itoa(c.et), "request": X(b)})
			break
		}
	}
	v.Case("stress-verify", "concurrent VerifyAPREQ of one request")
}

func init() {
	// runs in a sandbox child because the process-wide cache and its cleaner can be created only once
	sandboxHandlers["rc.cleaner"] = func(a []string) string {
		first := service.GetReplayCache(40 * time.Millisecond) // the first service has a tiny skew
		_ = first
		rc := service.GetReplayCache(3 * time.Second) // a second service with a larger skew
		au := rcAuth(0, time.Now())
		r1 := rc.IsReplay(rcSvc(0), au)
		time.Sleep(200 * time.Millisecond) // several cleaner periods of the first service
		r2 := service.GetReplayCache(3*time.Second).IsReplay(rcSvc(0), au)
		return fmt.Sprintf("%s %s", B(r1), B(r2))
	}
}

func init() {
	// the retention period grows while the cleaner sleeps: it must clear with the period in force when it
	// wakes up, not with the one it went to sleep with
	sandboxHandlers["rc.cleaner2"] = func(a []string) string {
		service.GetReplayCache(300 * time.Millisecond)
		time.Sleep(100 * time.Millisecond) // the cleaner is asleep for 300 ms now
		rc := service.GetReplayCache(5 * time.Second)
		au := rcAuth(1, time.Now().Add(-time.Second)) // 1 s old: inside the 5 s skew, outside 300 ms
		r1 := rc.IsReplay(rcSvc(0), au)
		time.Sleep(350 * time.Millisecond) // the cleaner has woken up once
		r2 := rc.IsReplay(rcSvc(0), au)
		return fmt.Sprintf("%s %s", B(r1), B(r2))
	}
}

// c02Cleaner: the background cleaner must not purge an authenticator that the service which accepted
// it would still accept (history: a service with a small skew creates the cache first).
func c02Cleaner(t *testing.T, v *Verdict) {
	sb := StartSandbox(t)
	defer sb.Close()
	ans := sb.Call("rc.cleaner", 20*time.Second)
	v.Case("cleaner/first-caller-small-skew", "cleaner")
	sb2 := StartSandbox(t)
	defer sb2.Close()
	ans2 := sb2.Call("rc.cleaner2", 20*time.Second)
	v.Case("cleaner/skew-raised-during-sleep", "cleaner")
	if ans2 != "0 1" {
		v.Violate("failing-input", "c02:cleaner:raised-during-sleep", "a service with a 5 s skew registered while the cleaner (started for a 300 ms skew) was asleep; an authenticator 1 s old that it accepted is accepted again after the cleaner's next wake-up", map[string]string{"results": ans2})
	}
	if ans != "0 1" {
		v.Violate("failing-input", "c02:cleaner:first-caller-skew", "an authenticator accepted by a service with a 3 s skew is accepted again 200 ms later because the cleaner was started by a service with a 40 ms skew", map[string]string{"results": ans})
	}
}
