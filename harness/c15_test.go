package harness

import (
	"bytes"
	"encoding/binary"
	"encoding/json"
	"fmt"
	"reflect"
	"sort"
	"strconv"
	"strings"
	"testing"
	"time"

	"github.com/jcmturner/gokrb5/v8/client"
	"github.com/jcmturner/gokrb5/v8/config"
	"github.com/jcmturner/gokrb5/v8/credentials"
	"github.com/jcmturner/gokrb5/v8/messages"
	"github.com/jcmturner/gokrb5/v8/types"
)

type ccPrinc struct {
	nt    uint32
	realm []byte
	comps [][]byte
}

func (p ccPrinc) tok(ver int) string {
	cs := make([]string, len(p.comps))
	for i, c := range p.comps {
		cs[i] = X(c)
	}
	nt := p.nt
	if ver == 1 {
		nt = 0 // version 1 files carry no name type
	}
	return fmt.Sprintf("%d;%s;%s", nt, X(p.realm), List(cs))
}

type ccTyped struct {
	t uint16
	d []byte
}

type ccCred struct {
	client, server ccPrinc
	kt             uint16
	key            []byte
	t              [4]uint32
	skey           uint8
	flags          uint32
	addrs, ad      []ccTyped
	ticket, second []byte
}

func typedToks(l []ccTyped) string {
	x := make([]string, len(l))
	for i, a := range l {
		x[i] = fmt.Sprintf("%d~%s", a.t, X(a.d))
	}
	return List(x)
}

func (c ccCred) tok(ver int, canonSkey bool) string {
	sk := int(c.skey)
	if canonSkey && sk != 0 {
		sk = 1
	}
	return strings.Join([]string{c.client.tok(ver), c.server.tok(ver), fmt.Sprint(c.kt), X(c.key), fmt.Sprint(c.t[0]), fmt.Sprint(c.t[1]), fmt.Sprint(c.t[2]), fmt.Sprint(c.t[3]), fmt.Sprint(sk), fmt.Sprint(c.flags), typedToks(c.addrs), typedToks(c.ad), X(c.ticket), X(c.second)}, "|")
}

type ccModel struct {
	ver   int
	hdr   []ccTyped
	princ ccPrinc
	creds []ccCred
}

func genCCPrinc(r *RNG, realm string) ccPrinc {
	p := ccPrinc{nt: uint32(r.Pick(0, 1, 2, 3, 10)), realm: []byte(realm)}
	n := r.Intn(4)
	for i := 0; i < n; i++ {
		p.comps = append(p.comps, ktName(r))
	}
	return p
}

func genCCModel(r *RNG) ccModel {
	m := ccModel{ver: 1 + r.Intn(4)}
	if m.ver == 4 {
		switch r.Intn(4) {
		case 0:
		case 1:
			m.hdr = []ccTyped{{1, r.Bytes(8)}}
		case 2:
			m.hdr = []ccTyped{{1, r.Bytes(8)}, {uint16(2 + r.Intn(5)), r.Bytes(r.Intn(12))}}
		case 3:
			m.hdr = []ccTyped{{uint16(2 + r.Intn(300)), r.Bytes(r.Intn(20))}, {1, r.Bytes(8)}}
		}
	}
	realm := []string{"TEST.GOKRB5", "EXAMPLE.COM", ""}[r.Intn(3)]
	m.princ = genCCPrinc(r, realm)
	n := r.Intn(7)
	for i := 0; i < n; i++ {
		var c ccCred
		c.client = m.princ
		c.server = genCCPrinc(r, realm)
		switch r.Intn(5) {
		case 0:
			c.server = ccPrinc{nt: 0, realm: []byte("X-CACHECONF:"), comps: [][]byte{[]byte("krb5_ccache_conf_data"), []byte("fast_avail"), []byte("krbtgt/" + realm + "@" + realm)}}
			// (the realm marks a configuration entry, whatever the name in it: other writers keep entries of their own there)
			switch r.Intn(4) {
			case 0:
				c.server.comps = [][]byte{[]byte("app_ccache_conf_data"), []byte("refresh_time")}
			case 1:
				c.server.comps = nil
			}
		case 1:
			c.server = ccPrinc{nt: 2, realm: []byte(realm), comps: [][]byte{[]byte("krbtgt"), []byte(realm)}}
		}
		c.kt = ktEtypes[r.Intn(len(ktEtypes))]
		c.key = r.Bytes(r.Pick(0, 16, 32, r.Intn(65)))
		for j := range c.t {
			c.t[j] = uint32(r.Pick(0, 1, 1<<31-1, -1<<31, -1, int(r.U64()&0x7fffffff)))
		}
		c.skey = uint8(r.Pick(0, 1, 0, 0, 255))
		c.flags = uint32(r.Pick(0, 0x40e10000, 0x50a00000, 1, 0x80000000, int(r.U64())))
		for j := r.Intn(4); j > 0; j-- {
			c.addrs = append(c.addrs, ccTyped{uint16(r.Pick(2, 24, 0xffff)), r.Bytes(r.Pick(4, 16, 0, 7))})
		}
		for j := r.Intn(4); j > 0; j-- {
			c.ad = append(c.ad, ccTyped{uint16(r.Pick(1, 128, 0x8000)), r.Bytes(r.Intn(30))})
		}
		c.ticket = r.Bytes(r.Intn(120))
		c.second = r.Bytes(r.Pick(0, 0, 10))
		m.creds = append(m.creds, c)
	}
	return m
}

func (m ccModel) renderOp() string {
	cs := make([]string, len(m.creds))
	for i, c := range m.creds {
		cs[i] = c.tok(2, false) // the writer gets the model as it is (name types included)
	}
	p := m.princ.tok(2)
	return strings.TrimRight(fmt.Sprintf("cc.render 1 %d %s %s %s", m.ver, typedToks(m.hdr), p, strings.Join(cs, " ")), " ")
}

// what a reader must report (version 1 has no name types; the is-skey octet is a boolean)
func (m ccModel) expect() string {
	cs := make([]string, len(m.creds))
	for i, c := range m.creds {
		cs[i] = c.tok(m.ver, true)
	}
	return strings.TrimRight(fmt.Sprintf("v=%d hdr=%s princ=%s creds=%s", m.ver, typedToks(m.hdr), m.princ.tok(m.ver), strings.Join(cs, " ")), " ")
}

func goPrincTok(v reflect.Value) ccPrinc {
	pn := v.FieldByName("PrincipalName").Interface().(types.PrincipalName)
	p := ccPrinc{nt: uint32(pn.NameType), realm: []byte(v.FieldByName("Realm").String())}
	for _, c := range pn.NameString {
		p.comps = append(p.comps, []byte(c))
	}
	return p
}

func goCCString(c *credentials.CCache) string {
	var hdr []ccTyped
	h := reflect.ValueOf(c).Elem().FieldByName("Header").FieldByName("fields")
	for i := 0; i < h.Len(); i++ {
		f := h.Index(i)
		hdr = append(hdr, ccTyped{uint16(f.FieldByName("tag").Uint()), f.FieldByName("value").Bytes()})
	}
	ver := int(c.Version)
	var cs []string
	// the file's 16-bit key / address / authorization-data types are signed (MIT reads them as int16:
	// -133 is rc4-hmac-old, negative authorization data types are in use): the 32-bit value handed to
	// the application must be the sign extension of what the file holds
	notSigned := ""
	sx16 := func(what string, v int32) uint16 {
		if int32(int16(uint16(v))) != v {
			notSigned += fmt.Sprintf(" not-sign-extended:%s=%d", what, v)
		}
		return uint16(v)
	}
	for _, cr := range c.Credentials {
		var x ccCred
		x.client = goPrincTok(reflect.ValueOf(cr).Elem().FieldByName("Client"))
		x.server = goPrincTok(reflect.ValueOf(cr).Elem().FieldByName("Server"))
		x.kt = sx16("keytype", cr.Key.KeyType)
		x.key = cr.Key.KeyValue
		x.t = [4]uint32{uint32(cr.AuthTime.Unix()), uint32(cr.StartTime.Unix()), uint32(cr.EndTime.Unix()), uint32(cr.RenewTill.Unix())}
		// the four times are signed 32-bit counts of seconds (a time before 1970, the -1 some writers use for "never"):
		// what the application gets is the sign extension of what the file holds, not a date after 2038
		for j, tm := range []time.Time{cr.AuthTime, cr.StartTime, cr.EndTime, cr.RenewTill} {
			if u := tm.Unix(); int64(int32(uint32(u))) != u {
				notSigned += fmt.Sprintf(" not-sign-extended:time%d=%d", j, u)
			}
		}
		if cr.IsSKey {
			x.skey = 1
		}
		if len(cr.TicketFlags.Bytes) == 4 {
			x.flags = binary.BigEndian.Uint32(cr.TicketFlags.Bytes)
		}
		for _, a := range cr.Addresses {
			x.addrs = append(x.addrs, ccTyped{sx16("addrtype", a.AddrType), a.Address})
		}
		for _, a := range cr.AuthData {
			x.ad = append(x.ad, ccTyped{sx16("adtype", a.ADType), a.ADData})
		}
		x.ticket, x.second = cr.Ticket, cr.SecondTicket
		cs = append(cs, x.tok(2, true))
	}
	dp := goPrincTok(reflect.ValueOf(c).Elem().FieldByName("DefaultPrincipal"))
	// the credentials object built from the cache names the default principal as the file does: same name
	// type, same components (a component may hold a '/'), same realm
	Protect(func() {
		cr := c.GetClientCredentials()
		pn := c.GetClientPrincipalName()
		if cr != nil {
			cn := cr.CName()
			if cn.NameType != pn.NameType || strings.Join(cn.NameString, "\x00") != strings.Join(pn.NameString, "\x00") || cr.Domain() != c.GetClientRealm() {
				notSigned += fmt.Sprintf(" client-credentials-name-differs:%d:%q@%q", cn.NameType, cn.NameString, cr.Domain())
			}
		}
	})
	return strings.TrimRight(fmt.Sprintf("v=%d hdr=%s princ=%s creds=%s", ver, typedToks(hdr), dp.tok(2), strings.Join(cs, " ")), " ") + notSigned
}

func goCCParse(b []byte) (string, *credentials.CCache) {
	c := new(credentials.CCache)
	var err error
	if p := Protect(func() { err = c.Unmarshal(b) }); p != "" {
		return "panic " + p, c
	}
	if err != nil {
		return "err", c
	}
	return "ok " + goCCString(c), c
}

func init() {
	sandboxHandlers["cc.parse"] = func(a []string) string {
		if len(a) != 1 {
			return "bad-args"
		}
		g, _ := goCCParse(UnX(a[0]))
		return g
	}
}

var c15Sandbox *Sandbox

func TestC15(t *testing.T) {
	m := StartModel(t)
	defer m.Close()
	c15Sandbox = StartSandbox(t)
	defer c15Sandbox.Close()
	v := NewVerdict("C15", "credential cache models (versions 1-4; v4 header with 0..2 fields incl. unknown tags; 0..6 credentials with 0..3 name components, 0..3 addresses and authorization-data entries, X-CACHECONF entries, key lengths 0..64, times and flags over the 32-bit range) rendered by the Lean independent writer (MIT format) and parsed by Go and by the Lean model of Unmarshal; truncated / substituted / count-corrupted files for the error paths; GetEntry / Contains / GetEntries; a client built from caches that hold real tickets. distinct = (version, header shape, #creds, mutation kind)")
	rng := NewRNG(Seed())
	n := 1200
	if Thorough() {
		n = 40000
	}
	for i := 0; i < n; i++ {
		c15Case(m, v, rng, i)
	}
	c15Client(m, v, rng)
	v.ModelAsks = m.N
	v.Write(t)
}

func c15Case(m *Model, v *Verdict, rng *RNG, idx int) {
	mdl := genCCModel(rng)
	op := mdl.renderOp()
	rend := m.Ask(op)
	if !strings.HasPrefix(rend, "ok ") {
		v.Violate("correspondence", "c15:model-bad-op", "kmodel refused a render request", map[string]string{"op": op, "answer": rend})
		return
	}
	file := UnX(rend[3:])
	shape := fmt.Sprintf("v%d/h%d/c%d", mdl.ver, len(mdl.hdr), len(mdl.creds))
	v.Case(shape, fmt.Sprintf("render+parse v%d", mdl.ver))
	if idx < 2 {
		v.Sample(op + " -> " + X(file))
	}
	got, cc := goCCParse(file)
	want := "ok " + mdl.expect()
	det := map[string]string{"file": X(file), "go": got, "want": want, "op": op}
	if strings.HasPrefix(got, "panic") {
		v.Violate("failing-input", "c15:panic:"+shape, "CCache.Unmarshal panicked on a well-formed file", det)
		return
	}
	if got != want {
		kind := "fields"
		if got == "err" {
			kind = "rejected"
			for _, h := range mdl.hdr {
				if h.t != 1 {
					kind = "rejected-unknown-header-tag"
				}
			}
		} else if mdl.ver <= 2 {
			kind = "fields-v1v2"
		}
		v.Violate("failing-input", fmt.Sprintf("c15:reads-spec:%s:v%d", kind, mdl.ver), "a well-formed credential cache written by the independent writer is not parsed to what was written", det)
		return
	}
	mp := m.Ask("cc.parse 1 " + X(file))
	if mp != got {
		det["model"] = mp
		v.Violate("correspondence", "c15:parse-model:"+shape, "CCache.Unmarshal and its Lean model disagree on a rendered file", det)
	}
	lookups := func(when string) {
		for _, c := range mdl.creds {
			var pn types.PrincipalName
			for _, x := range c.server.comps {
				pn.NameString = append(pn.NameString, string(x))
			}
			e, ok := cc.GetEntry(pn)
			v.Case("", "GetEntry")
			// first credential with that server name
			var first *ccCred
			for i := range mdl.creds {
				if fmt.Sprint(mdl.creds[i].server.comps) == fmt.Sprint(c.server.comps) {
					first = &mdl.creds[i]
					break
				}
			}
			if !ok || !cc.Contains(pn) || string(e.Ticket) != string(first.ticket) || string(e.Key.KeyValue) != string(first.key) {
				v.Violate("failing-input", "c15:getentry"+when, "GetEntry/Contains do not return the first credential for the server principal", det)
			}
		}
		var absent types.PrincipalName
		absent.NameString = []string{"no", "such", "service", "anywhere"}
		if _, ok := cc.GetEntry(absent); ok || cc.Contains(absent) {
			v.Violate("failing-input", "c15:getentry-absent"+when, "GetEntry finds a principal that is not in the cache", det)
		}
	}
	lookups("")
	nconf := 0
	var wantTickets []string
	for _, c := range mdl.creds {
		if strings.HasPrefix(string(c.server.realm), "X-CACHECONF") {
			nconf++
		} else {
			wantTickets = append(wantTickets, X(c.ticket))
		}
	}
	// GetEntries: exactly the non-configuration credentials, in file order; asking twice gives the same and
	// leaves the cache as it was (the lookups still answer as before)
	for pass := 1; pass <= 2; pass++ {
		var gotTickets []string
		for _, e := range cc.GetEntries() {
			gotTickets = append(gotTickets, X(e.Ticket))
		}
		v.Case("", "GetEntries")
		if fmt.Sprint(gotTickets) != fmt.Sprint(wantTickets) {
			det["pass"] = fmt.Sprint(pass)
			v.Violate("failing-input", fmt.Sprintf("c15:getentries:pass%d", pass), "GetEntries does not return exactly the non-configuration credentials in file order (second pass: the first call changed the cache)", det)
			break
		}
	}
	lookups(":after-getentries")
	// malformed variants: no panic, and the Lean model agrees
	for j := 0; j < 5; j++ {
		mf := append([]byte{}, file...)
		kind := ""
		switch rng.Intn(5) {
		case 0:
			mf = mf[:rng.Intn(len(mf)+1)]
			kind = "truncated"
		case 1:
			if len(mf) > 0 {
				mf[rng.Intn(len(mf))] = byte(rng.U64())
			}
			kind = "byte-substituted"
		case 2:
			if len(mf) > 6 {
				p := 2 + rng.Intn(len(mf)-6)
				binary.BigEndian.PutUint32(mf[p:], uint32(rng.Pick(0, 1, -1, 1<<31-1, 1<<31, len(mf), len(mf)+1, 1<<20, 1<<28)))
			}
			kind = "length-or-count-corrupted"
		case 3:
			mf = append(mf, rng.Bytes(1+rng.Intn(8))...)
			kind = "extended"
		case 4:
			mf = rng.Bytes(rng.Intn(12))
			if len(mf) > 0 {
				mf[0] = 5
			}
			if len(mf) > 1 {
				mf[1] = byte(1 + rng.Intn(4))
			}
			kind = "short-random"
		}
		// malformed input goes through the memory-limited child: a count that drives an allocation can
		// kill the process, which recover() cannot catch
		g := c15Sandbox.Call("cc.parse "+X(mf), 20*time.Second)
		v.Case("", "malformed "+kind)
		d2 := map[string]string{"file": X(mf), "go": g}
		if strings.HasPrefix(g, "crash") || g == "timeout" {
			v.Violate("failing-input", "c15:malformed-crash:"+kind, "CCache.Unmarshal exhausts memory or hangs on a malformed file ("+g+")", d2)
			continue
		}
		if strings.HasPrefix(g, "panic") {
			v.Violate("failing-input", "c15:malformed-panic:"+kind, "CCache.Unmarshal panicked", d2)
			continue
		}
		mo := m.Ask("cc.parse 1 " + X(mf))
		if mo != g {
			d2["model"] = mo
			v.Violate("correspondence", "c15:malformed-model:"+kind, "CCache.Unmarshal and its Lean model disagree on a malformed file", d2)
		}
	}
}

func last0(creds []ccCred) map[string]ccCred {
	last := map[string]ccCred{}
	for _, c := range creds {
		if strings.HasPrefix(string(c.server.realm), "X-CACHECONF") {
			continue
		}
		var parts []string
		for _, x := range c.server.comps {
			parts = append(parts, string(x))
		}
		last[strings.Join(parts, "/")] = c
	}
	return last
}

// c15Client: a client built from a cache holds exactly the non-configuration tickets and their keys.
func c15Client(m *Model, v *Verdict, rng *RNG) {
	realm := "TEST.GOKRB5"
	cfg, _ := config.NewFromString("[libdefaults]\n default_realm = " + realm + "\n[realms]\n " + realm + " = {\n kdc = 127.0.0.1:1\n }\n")
	now := time.Now()
	for it := 0; it < 25; it++ {
		ver := 1 + rng.Intn(4)
		mk := func(sname []string, conf bool) ccCred {
			tkt := messages.Ticket{TktVNO: 5, Realm: realm, SName: types.PrincipalName{NameType: 2, NameString: sname}, EncPart: types.EncryptedData{EType: int32(rng.Pick(18, 18, 17, 23)), KVNO: rng.Pick(0, 0, 1, 2, 300), Cipher: rng.Bytes(30 + rng.Intn(20))}}
			// (key version 0: the OPTIONAL kvno is absent, as in tickets of a KDC that does not send it)
			tb, _ := tkt.Marshal()
			c := ccCred{client: ccPrinc{nt: 1, realm: []byte(realm), comps: [][]byte{[]byte("testuser1")}}, kt: 18, key: rng.Bytes(32), flags: 0x40e10000, ticket: tb}
			c.server = ccPrinc{nt: 2, realm: []byte(realm)}
			for _, s := range sname {
				c.server.comps = append(c.server.comps, []byte(s))
			}
			// every credential has times of its own (a renew-till of 0: not renewable)
			k := time.Duration(rng.Intn(50))
			c.t = [4]uint32{uint32(now.Add(-time.Hour - k*time.Minute).Unix()), uint32(now.Add(-time.Hour - k*time.Second).Unix()), uint32(now.Add(time.Hour + k*time.Minute).Unix()), uint32(now.Add(24*time.Hour + k*time.Hour).Unix())}
			if rng.Intn(3) == 0 {
				c.t[3] = 0
			}
			// a service ticket whose end time has passed and which cannot be renewed is still a credential of the
			// cache: the client holds it (and serves nothing for it) - never the TGT, which the client needs
			if !conf && len(sname) > 0 && sname[0] != "krbtgt" && rng.Intn(4) == 0 {
				c.t[2] = uint32(now.Add(-time.Minute - k*time.Minute).Unix())
				c.t[3] = uint32(rng.Pick(0, int(now.Add(-time.Minute-k*time.Second).Unix())))
			}
			if conf {
				c.server = ccPrinc{realm: []byte("X-CACHECONF:"), comps: [][]byte{[]byte("krb5_ccache_conf_data"), []byte("pa_type")}}
				switch rng.Intn(3) {
				case 0:
					c.server.comps = [][]byte{[]byte("app_ccache_conf_data"), []byte("refresh_time")}
				case 1:
					c.server.comps = nil
				}
				c.ticket = []byte("2")
			}
			return c
		}
		mdl := ccModel{ver: ver, princ: ccPrinc{nt: 1, realm: []byte(realm), comps: [][]byte{[]byte("testuser1")}}}
		if ver == 4 {
			mdl.hdr = []ccTyped{{1, make([]byte, 8)}}
		}
		mdl.creds = append(mdl.creds, mk([]string{"krbtgt", realm}, false))
		spns := [][]string{{"HTTP", "host.test.gokrb5"}, {"host", "a.test.gokrb5"}, {"ldap", "b.test.gokrb5"}}
		for _, s := range spns {
			if rng.Bool() {
				mdl.creds = append(mdl.creds, mk(s, false))
			}
			// the same principal more than once (a ticket acquired again is appended): a second TGT, a second
			// ticket for a service
			if rng.Intn(3) == 0 {
				mdl.creds = append(mdl.creds, mk([]string{"krbtgt", realm}, false))
			}
			if rng.Intn(4) == 0 {
				mdl.creds = append(mdl.creds, mk(s, false))
			}
			if rng.Intn(3) == 0 {
				mdl.creds = append(mdl.creds, mk(nil, true))
			}
		}
		rend := m.Ask(mdl.renderOp())
		file := UnX(strings.TrimPrefix(rend, "ok "))
		cc := new(credentials.CCache)
		v.Case(fmt.Sprintf("client/v%d/%d", ver, len(mdl.creds)), "client from cache")
		if err := cc.Unmarshal(file); err != nil {
			v.Violate("failing-input", "c15:client-load", "a cache with real tickets does not load: "+err.Error(), map[string]string{"file": X(file)})
			continue
		}
		cl, err := client.NewFromCCache(cc, cfg)
		if err != nil {
			v.Violate("failing-input", "c15:client-new", "NewFromCCache failed: "+err.Error(), map[string]string{"file": X(file)})
			continue
		}
		// the same cache under a configuration whose default realm is another one (the cache says whose it is)
		if it%5 == 0 {
			cfgO, _ := config.NewFromString("[libdefaults]\n default_realm = CORP.EXAMPLE\n[realms]\n CORP.EXAMPLE = {\n kdc = 127.0.0.1:1\n }\n " + realm + " = {\n kdc = 127.0.0.1:1\n }\n")
			clO, errO := client.NewFromCCache(cc, cfgO)
			if errO != nil {
				v.Violate("failing-input", "c15:client-new-other-default-realm", "NewFromCCache fails when the configuration's default realm is not the realm of the cache's principal: "+errO.Error(), map[string]string{"file": X(file)})
			} else {
				for spn, c := range last0(mdl.creds) {
					if int64(c.t[2]) < now.Unix() {
						continue // ended: held, not served (checked below through the client's own report)
					}
					tkt, key, ok := clO.GetCachedTicket(spn)
					tb, _ := tkt.Marshal()
					if !ok || string(tb) != string(c.ticket) || string(key.KeyValue) != string(c.key) {
						v.Violate("failing-input", "c15:client-holds-other-default-realm", "under a configuration with another default realm the client does not hold the ticket and key written for an SPN", map[string]string{"spn": spn, "file": X(file)})
						break
					}
				}
				clO.Destroy()
			}
		}
		// the last credential per SPN wins; every non-config credential must be served with its key
		last := map[string]ccCred{}
		for _, c := range mdl.creds {
			if strings.HasPrefix(string(c.server.realm), "X-CACHECONF") {
				continue
			}
			var parts []string
			for _, x := range c.server.comps {
				parts = append(parts, string(x))
			}
			last[strings.Join(parts, "/")] = c
		}
		for spn, c := range last {
			if int64(c.t[2]) < now.Unix() {
				if _, _, ok := cl.GetCachedTicket(spn); ok {
					v.Violate("failing-input", "c15:client-serves-ended", "the client serves a ticket whose end time has passed and which is not renewable", map[string]string{"spn": spn, "file": X(file)})
				}
				continue
			}
			tkt, key, ok := cl.GetCachedTicket(spn)
			tb, _ := tkt.Marshal()
			if !ok || string(tb) != string(c.ticket) || string(key.KeyValue) != string(c.key) || key.KeyType != int32(c.kt) {
				v.Violate("failing-input", "c15:client-holds", "the client built from the cache does not serve the ticket and key written for an SPN", map[string]string{"spn": spn, "file": X(file)})
			}
		}
		// the times the client holds for each ticket are the ones written for it (the client's own report of its cache)
		{
			var w bytes.Buffer
			cl.Print(&w)
			out := w.String()
			i, j := strings.Index(out, "Service ticket cache:\n"), strings.Index(out, "\nSettings:")
			var held []struct {
				SPN                                     string
				AuthTime, StartTime, EndTime, RenewTill time.Time
			}
			if i >= 0 && j > i && json.Unmarshal([]byte(out[i+len("Service ticket cache:\n"):j]), &held) == nil {
				// the whole of what the client holds, against the model of NewFromCCache (theorem `client_holds_last`)
				var items []string
				for _, h := range held {
					if h.EndTime.Unix() < now.Unix() {
						// ended (and not renewable, as generated): GetCachedTicket serves nothing, so the entry is
						// compared by its presence and its times; the model's item is reduced the same way below
						items = append(items, fmt.Sprintf("%s:::%d:%d:%d:%d:", XS(h.SPN), h.AuthTime.Unix(), h.StartTime.Unix(), h.EndTime.Unix(), h.RenewTill.Unix()))
						continue
					}
					tkt, key, _ := cl.GetCachedTicket(h.SPN)
					tb, _ := tkt.Marshal()
					items = append(items, fmt.Sprintf("%s:%d:%s:%d:%d:%d:%d:%s", XS(h.SPN), key.KeyType, X(key.KeyValue), h.AuthTime.Unix(), h.StartTime.Unix(), h.EndTime.Unix(), h.RenewTill.Unix(), X(tb)))
				}
				sort.Strings(items)
				goLine := strings.TrimRight("ok "+strings.Join(items, " "), " ")
				mo := strings.TrimRight(m.Ask("cc.client 1 "+X(file)), " ")
				if strings.HasPrefix(mo, "ok ") {
					mi := strings.Fields(mo[3:])
					for k, it := range mi {
						f := strings.Split(it, ":")
						if len(f) == 8 {
							if end, err := strconv.ParseInt(f[5], 10, 64); err == nil && end < now.Unix() {
								f[1], f[2], f[7] = "", "", ""
								mi[k] = strings.Join(f, ":")
							}
						}
					}
					sort.Strings(mi)
					mo = strings.TrimRight("ok "+strings.Join(mi, " "), " ")
				}
				if mo != goLine {
					v.Violate("correspondence", "c15:client-model", "what a client built from the cache holds differs from the model of NewFromCCache", map[string]string{"file": X(file), "go": cut(goLine, 2000), "model": cut(mo, 2000)})
				}
				// every credential written (the last one per SPN) is held, whether or not its end time has passed
				heldSPN := map[string]bool{}
				for _, h := range held {
					heldSPN[h.SPN] = true
				}
				for spn := range last {
					if !heldSPN[spn] {
						v.Violate("failing-input", "c15:client-holds-all", "a client built from the cache does not hold a credential the cache file contains", map[string]string{"spn": spn, "file": X(file)})
						break
					}
				}
				for _, h := range held {
					c, ok := last[h.SPN]
					if !ok {
						continue
					}
					got := [4]int64{h.AuthTime.Unix(), h.StartTime.Unix(), h.EndTime.Unix(), h.RenewTill.Unix()}
					want := [4]int64{int64(c.t[0]), int64(c.t[1]), int64(c.t[2]), int64(c.t[3])}
					if got != want {
						v.Violate("failing-input", "c15:client-times", "the client built from the cache holds other times (auth, start, end, renew-till) for a ticket than the cache file gives it", map[string]string{"spn": h.SPN, "held": fmt.Sprint(got), "written": fmt.Sprint(want), "file": X(file)})
						break
					}
				}
			}
		}
		if _, _, ok := cl.GetCachedTicket("nfs/not.in.cache"); ok {
			v.Violate("failing-input", "c15:client-extra", "the client serves a ticket that is not in the cache", map[string]string{"file": X(file)})
		}
	}
}
