package harness

import (
	"bytes"
	"fmt"
	"io"
	"os"
	"os/exec"
	"reflect"
	"runtime"
	"sort"
	"strings"
	"sync"
	"sync/atomic"
	"testing"
	"time"

	"github.com/jcmturner/gokrb5/v8/client"
	"github.com/jcmturner/gokrb5/v8/config"
	"github.com/jcmturner/gokrb5/v8/types"
)

// ---- the part that runs under the race detector (a separate binary built with -race) ----

func c11Watchdog(name string, d time.Duration, f func()) {
	done := make(chan struct{})
	go func() {
		defer close(done)
		f()
	}()
	select {
	case <-done:
		fmt.Printf("C11-DONE %s\n", name)
	case <-time.After(d):
		buf := make([]byte, 1<<20)
		n := runtime.Stack(buf, true)
		if c11LockDep != nil {
			for _, l := range c11LockDep.report() {
				fmt.Println(l)
			}
		}
		fmt.Printf("C11-DEADLOCK %s\n%s\n", name, buf[:n])
		os.Exit(3)
	}
}

var c11LockDep *lockDep

// TestC11Race is the workload; it only runs in the child process started by TestC11.
func TestC11Race(t *testing.T) {
	if os.Getenv("VERIF_C11_CHILD") == "" {
		t.Skip("runs as a child of TestC11")
	}
	rng := NewRNG(Seed())
	dur := 3 * time.Second
	if Thorough() {
		dur = 12 * time.Second
	}
	// every lock operation of the client's structures is reported to the lock-order checker
	ld := newLockDep()
	c11LockDep = ld
	client.VerifLockEvent = ld.event
	defer func() {
		// the hook stays installed: renewal goroutines of destroyed clients may still be on their way out and
		// read it (resetting it here would be a data race of the harness's own making)
		for _, l := range ld.report() {
			fmt.Println(l)
		}
	}()
	spns := []string{"HTTP/a.test.gokrb5", "HTTP/b.test.gokrb5", "host/c.test.gokrb5", "HTTP/svc.other.realm", "HTTP/svc.third.realm", "ldap/d.test.gokrb5"}
	// S1: one logged-in client shared by goroutines; tickets live 4 s, so renewals and re-logins happen in
	// the background while service tickets are requested, served from the cache and re-requested
	c11Watchdog("shared-client", dur+40*time.Second, func() {
		sim := newKDCSim(simPolicy{maxLife: 4 * time.Second, maxRenew: 8 * time.Second, requirePA: true, sessionEt: 18}, 24*time.Hour, rng)
		defer sim.close()
		cfg, err := config.NewFromString(sim.conf(" ticket_lifetime = 24h\n renew_lifetime = 72h\n"))
		if err != nil {
			t.Fatal(err)
		}
		cl := client.NewWithPassword(c09User, "TEST.GOKRB5", clientPassword, cfg, client.DisablePAFXFAST(true))
		if err := cl.Login(); err != nil {
			fmt.Printf("C11-NOTE login failed: %v\n", err)
		}
		var wg sync.WaitGroup
		stop := time.Now().Add(dur)
		var mu sync.Mutex
		got, bad := 0, 0
		// pairs the callers keep: they stay the pairs the KDC issued whatever the client does later (Destroy
		// in another goroutine in particular)
		type heldPair struct {
			id  int
			key types.EncryptionKey
			spn string
		}
		var held []heldPair
		recheck := func(when string) {
			mu.Lock()
			defer mu.Unlock()
			sim.mu.Lock()
			defer sim.mu.Unlock()
			for _, h := range held {
				if X(sim.tickets[h.id-1].key.KeyValue) != X(h.key.KeyValue) {
					bad++
					fmt.Printf("C11-PAIR-MISMATCH spn=%s ticket=%d the key a caller holds changed %s\n", h.spn, h.id, when)
					break
				}
			}
		}
		for g := 0; g < 8; g++ {
			wg.Add(1)
			go func(g int) {
				defer wg.Done()
				r := NewRNG(uint64(g) + 77)
				for time.Now().Before(stop) {
					switch k := r.Intn(20); {
					case k == 0:
						cl.Login()
					case k == 1:
						cl.AffirmLogin()
					case k == 2:
						cl.GetCachedTicket(spns[r.Intn(len(spns))])
					case k == 3:
						cl.Print(io.Discard)
					default:
						spn := spns[r.Intn(len(spns))]
						tkt, key, err := cl.GetServiceTicket(spn)
						if err != nil {
							continue
						}
						var id int
						fmt.Sscanf(string(tkt.EncPart.Cipher), "TKT:%d", &id)
						sim.mu.Lock()
						ok := id >= 1 && id <= len(sim.tickets) && X(sim.tickets[id-1].key.KeyValue) == X(key.KeyValue) && strings.Join(sim.tickets[id-1].sname, "/") == spn
						sim.mu.Unlock()
						mu.Lock()
						got++
						if !ok {
							bad++
							fmt.Printf("C11-PAIR-MISMATCH spn=%s ticket=%d\n", spn, id)
						} else if len(held) < 300 {
							held = append(held, heldPair{id, key, spn}) // the key as the caller holds it (not a copy)
						}
						mu.Unlock()
					}
					if r.Intn(4) == 0 {
						time.Sleep(time.Duration(r.Intn(20)) * time.Millisecond)
					}
				}
			}(g)
		}
		wg.Wait()
		// destroy while others still use the client, many times over with fresh clients
		for round := 0; round < 30; round++ {
			c2 := client.NewWithPassword(c09User, "TEST.GOKRB5", clientPassword, cfg, client.DisablePAFXFAST(true))
			c2.Login()
			var wg3 sync.WaitGroup
			for g := 0; g < 4; g++ {
				wg3.Add(1)
				go func(g int) {
					defer wg3.Done()
					for i := 0; i < 6; i++ {
						switch (g + i) % 4 {
						case 0:
							spn := spns[(g+i)%len(spns)]
							if tkt, key, err := c2.GetServiceTicket(spn); err == nil {
								var id int
								fmt.Sscanf(string(tkt.EncPart.Cipher), "TKT:%d", &id)
								sim.mu.Lock()
								ok := id >= 1 && id <= len(sim.tickets) && X(sim.tickets[id-1].key.KeyValue) == X(key.KeyValue)
								sim.mu.Unlock()
								mu.Lock()
								if ok && len(held) < 600 {
									held = append(held, heldPair{id, key, spn})
								}
								mu.Unlock()
							}
						case 1:
							c2.IsConfigured()
						case 2:
							c2.Print(io.Discard)
						case 3:
							c2.AffirmLogin()
						}
					}
				}(g)
			}
			wg3.Add(1)
			go func() {
				defer wg3.Done()
				time.Sleep(time.Duration(round*97%3000) * time.Microsecond)
				c2.Destroy()
			}()
			wg3.Wait()
			c2.Destroy()
			recheck("after Destroy of the client it came from")
		}
		// the same without any timing: a client hands out pairs, another goroutine destroys it, the pairs the
		// callers hold are still the pairs the KDC issued
		{
			c3 := client.NewWithPassword(c09User, "TEST.GOKRB5", clientPassword, cfg, client.DisablePAFXFAST(true))
			if err := c3.Login(); err == nil {
				n0 := len(held)
				for _, spn := range spns[:4] {
					for _, cached := range []bool{false, true} {
						tkt, key, err := c3.GetServiceTicket(spn)
						if cached {
							var ok bool
							tkt, key, ok = c3.GetCachedTicket(spn)
							if !ok {
								continue
							}
						} else if err != nil {
							continue
						}
						var id int
						fmt.Sscanf(string(tkt.EncPart.Cipher), "TKT:%d", &id)
						if id >= 1 && id <= len(sim.tickets) {
							held = append(held, heldPair{id, key, spn})
						}
					}
				}
				recheck("before Destroy (as returned)")
				done := make(chan struct{})
				go func() { c3.Destroy(); close(done) }()
				<-done
				recheck("after Destroy of the client it came from (no other activity)")
				fmt.Printf("C11-STATS held-pairs checked=%d\n", len(held)-n0)
			}
		}
		var wg2 sync.WaitGroup
		for g := 0; g < 4; g++ {
			wg2.Add(1)
			go func(g int) {
				defer wg2.Done()
				for i := 0; i < 20; i++ {
					cl.GetServiceTicket(spns[(g+i)%len(spns)])
				}
			}(g)
		}
		wg2.Add(1)
		go func() {
			defer wg2.Done()
			time.Sleep(5 * time.Millisecond)
			cl.Destroy()
		}()
		wg2.Wait()
		cl.Destroy()
		recheck("after Destroy of the shared client")
		fmt.Printf("C11-STATS shared-client pairs=%d mismatched=%d requests=%d\n", got, bad, len(sim.log))
		c11KDCIssues("shared-client", sim)
	})
	// S3: a TGT that is nearly used up when it is issued (authenticated 4 minutes ago, 30 s left): the first
	// service-ticket requests, from two goroutines, have to refresh the session themselves (by renewal, and
	// with a non-renewable TGT by a new login) before the background goroutine does
	for _, renewable := range []bool{true, false} {
		name := fmt.Sprintf("used-up-tgt/renewable=%v", renewable)
		c11Watchdog(name, 30*time.Second, func() {
			pol := simPolicy{maxLife: 30 * time.Second, backdate: 4 * time.Minute, sessionEt: 18}
			extra := " ticket_lifetime = 24h\n"
			if renewable {
				pol.maxRenew = time.Hour
				extra += " renew_lifetime = 72h\n"
			}
			sim := newKDCSim(pol, 24*time.Hour, NewRNG(5))
			defer sim.close()
			cfg, err := config.NewFromString(sim.conf(extra))
			if err != nil {
				t.Fatal(err)
			}
			cl := client.NewWithPassword(c09User, "TEST.GOKRB5", clientPassword, cfg, client.DisablePAFXFAST(true))
			if err := cl.Login(); err != nil {
				fmt.Printf("C11-NOTE login failed: %v\n", err)
			}
			var wg sync.WaitGroup
			for g := 0; g < 2; g++ {
				wg.Add(1)
				go func(g int) {
					defer wg.Done()
					for i := 0; i < 3; i++ {
						if _, _, err := cl.GetServiceTicket(spns[(g+i)%3]); err != nil {
							fmt.Printf("C11-NOTE %s: %v\n", name, err)
						}
					}
				}(g)
			}
			wg.Wait()
			cl.Destroy()
		})
	}
	// S4: a goroutine logs in again and again while others request tickets with a TGT that needs renewing at
	// every request: renewals finish on sessions that a new login has replaced in the meantime
	c11Watchdog("relogin-during-renewal", 45*time.Second, func() {
		pol := simPolicy{maxLife: 30 * time.Second, backdate: 4 * time.Minute, maxRenew: time.Hour, sessionEt: 18}
		sim := newKDCSim(pol, 24*time.Hour, NewRNG(6))
		defer sim.close()
		cfg, err := config.NewFromString(sim.conf(" ticket_lifetime = 24h\n renew_lifetime = 72h\n"))
		if err != nil {
			t.Fatal(err)
		}
		cl := client.NewWithPassword(c09User, "TEST.GOKRB5", clientPassword, cfg, client.DisablePAFXFAST(true))
		if err := cl.Login(); err != nil {
			fmt.Printf("C11-NOTE login failed: %v\n", err)
		}
		stop := time.Now().Add(dur)
		var wg sync.WaitGroup
		var reqs, logins int64
		wg.Add(1)
		go func() {
			defer wg.Done()
			for time.Now().Before(stop) {
				cl.Login()
				atomic.AddInt64(&logins, 1)
				time.Sleep(3 * time.Millisecond)
			}
		}()
		// ... and others read the client's state (Print takes the sessions lock, then each session's)
		for g := 0; g < 2; g++ {
			wg.Add(1)
			go func() {
				defer wg.Done()
				for time.Now().Before(stop) {
					cl.Print(io.Discard)
					cl.IsConfigured()
				}
			}()
		}
		for g := 0; g < 6; g++ {
			wg.Add(1)
			go func(g int) {
				defer wg.Done()
				for i := 0; time.Now().Before(stop); i++ {
					// a name that is not in the ticket cache: every request needs the TGT
					cl.GetServiceTicket(fmt.Sprintf("HTTP/h%d-%d.test.gokrb5", g, i))
					atomic.AddInt64(&reqs, 1)
				}
			}(g)
		}
		wg.Wait()
		cl.Destroy()
		fmt.Printf("C11-STATS relogin-during-renewal requests=%d logins=%d\n", reqs, logins)
		c11KDCIssues("relogin-during-renewal", sim)
	})
	// S5: the TGT runs out during a KDC outage (every renewal attempt fails); when the KDCs are back, requests
	// from several goroutines find an expired session and have to log in again
	c11Watchdog("expired-session-after-outage", 45*time.Second, func() {
		sim := newKDCSim(simPolicy{maxLife: 2 * time.Second, maxRenew: time.Hour, sessionEt: 18}, 24*time.Hour, NewRNG(7))
		defer sim.close()
		cfg, err := config.NewFromString(sim.conf(" ticket_lifetime = 24h\n renew_lifetime = 72h\n"))
		if err != nil {
			t.Fatal(err)
		}
		cl := client.NewWithPassword(c09User, "TEST.GOKRB5", clientPassword, cfg, client.DisablePAFXFAST(true))
		if err := cl.Login(); err != nil {
			fmt.Printf("C11-NOTE login failed: %v\n", err)
		}
		atomic.StoreInt32(&sim.down, 1)
		time.Sleep(2600 * time.Millisecond) // the TGT (2 s) has ended, its renewals have failed
		atomic.StoreInt32(&sim.down, 0)
		var wg sync.WaitGroup
		var okN, failN int64
		for g := 0; g < 4; g++ {
			wg.Add(1)
			go func(g int) {
				defer wg.Done()
				for i := 0; i < 3; i++ {
					if _, _, err := cl.GetServiceTicket(spns[(g+i)%3]); err != nil {
						atomic.AddInt64(&failN, 1)
					} else {
						atomic.AddInt64(&okN, 1)
					}
				}
			}(g)
		}
		wg.Wait()
		cl.Print(io.Discard)
		cl.Destroy()
		fmt.Printf("C11-STATS expired-session-after-outage ok=%d failed=%d\n", okN, failN)
	})
	// S7: cached service tickets have ended but are renewable (the KDC honours them within its clock skew):
	// several goroutines ask for them at once, each call that renews returns the renewed ticket with ITS key
	for _, renewable := range []bool{true, false} {
		// (not renewable: the ended tickets are dead entries of the cache that several goroutines come across at once)
		renewable := renewable
		c11Watchdog(fmt.Sprintf("ended-service-tickets/renewable=%v", renewable), 30*time.Second, func() {
			pol := simPolicy{maxLife: 1500 * time.Millisecond, maxRenew: time.Hour, sessionEt: 18, grace: 5 * time.Minute}
			if !renewable {
				pol.maxRenew = 0
			}
			sim := newKDCSim(pol, 24*time.Hour, NewRNG(9))
			defer sim.close()
			cfg, err := config.NewFromString(sim.conf(" ticket_lifetime = 24h\n renew_lifetime = 72h\n"))
			if err != nil {
				t.Fatal(err)
			}
			cl := client.NewWithPassword(c09User, "TEST.GOKRB5", clientPassword, cfg, client.DisablePAFXFAST(true))
			if err := cl.Login(); err != nil {
				fmt.Printf("C11-NOTE login failed: %v\n", err)
			}
			for round := 0; round < 2; round++ {
				for _, spn := range spns[:3] {
					cl.GetServiceTicket(spn)
				}
				time.Sleep(1600 * time.Millisecond)
				var wg sync.WaitGroup
				var okN, badN int64
				for g := 0; g < 6; g++ {
					wg.Add(1)
					go func(g int) {
						defer wg.Done()
						for i := 0; i < 4; i++ {
							spn := spns[(g+i)%3]
							tkt, key, err := cl.GetServiceTicket(spn)
							if err != nil {
								continue
							}
							var id int
							fmt.Sscanf(string(tkt.EncPart.Cipher), "TKT:%d", &id)
							sim.mu.Lock()
							ok := id >= 1 && id <= len(sim.tickets) && X(sim.tickets[id-1].key.KeyValue) == X(key.KeyValue) && strings.Join(sim.tickets[id-1].sname, "/") == spn
							sim.mu.Unlock()
							if ok {
								atomic.AddInt64(&okN, 1)
							} else {
								atomic.AddInt64(&badN, 1)
								fmt.Printf("C11-PAIR-MISMATCH spn=%s ticket=%d (a ticket renewed after its end)\n", spn, id)
							}
						}
					}(g)
				}
				wg.Wait()
				fmt.Printf("C11-STATS ended-service-tickets renewable=%v round=%d ok=%d mismatched=%d\n", renewable, round, okN, badN)
			}
			cl.Destroy()
		})
	}
	// S6: Destroy is called while the auto-renewal goroutine of the TGT session is in the middle of a renewal (its
	// request is with a slow KDC): Destroy returns, and so does everything else, whatever the renewal does next
	for _, at := range []time.Duration{5 * time.Millisecond, 300 * time.Millisecond} {
		name := fmt.Sprintf("destroy-during-auto-renewal/after=%v", at)
		c11Watchdog(name, 20*time.Second, func() {
			sim := newKDCSim(simPolicy{maxLife: 2 * time.Second, maxRenew: time.Hour, sessionEt: 18}, 24*time.Hour, NewRNG(8))
			defer sim.close()
			cfg, err := config.NewFromString(sim.conf(" ticket_lifetime = 24h\n renew_lifetime = 72h\n"))
			if err != nil {
				t.Fatal(err)
			}
			cl := client.NewWithPassword(c09User, "TEST.GOKRB5", clientPassword, cfg, client.DisablePAFXFAST(true))
			if err := cl.Login(); err != nil {
				fmt.Printf("C11-NOTE login failed: %v\n", err)
			}
			atomic.StoreInt64(&sim.slowNs, int64(700*time.Millisecond))
			// wait for the auto-renewal's request (the timer fires at 5/6 of what is left of 1..2 s) to reach the KDC,
			// which sits on its answer for 700 ms
			seen := atomic.LoadInt64(&sim.arrived)
			for i := 0; i < 1000 && atomic.LoadInt64(&sim.arrived) == seen; i++ {
				time.Sleep(3 * time.Millisecond)
			}
			if atomic.LoadInt64(&sim.arrived) == seen {
				fmt.Printf("C11-NOTE %s: no renewal request seen\n", name)
			}
			time.Sleep(at)
			var wg sync.WaitGroup
			wg.Add(2)
			go func() { defer wg.Done(); cl.Destroy() }()
			go func() { defer wg.Done(); time.Sleep(50 * time.Millisecond); cl.Print(io.Discard); cl.IsConfigured() }()
			wg.Wait()
			atomic.StoreInt64(&sim.slowNs, 0)
			time.Sleep(900 * time.Millisecond) // the renewal's answer arrives at a destroyed client
			cl.Print(io.Discard)
			cl.Destroy()
		})
	}
	// S8: a new login while the auto-renewal of the session it replaces is in flight; the renewal's answer arrives
	// afterwards; further logins and Destroy go on working
	c11Watchdog("login-during-auto-renewal", 30*time.Second, func() {
		sim := newKDCSim(simPolicy{maxLife: 2 * time.Second, maxRenew: time.Hour, sessionEt: 18}, 24*time.Hour, NewRNG(10))
		defer sim.close()
		cfg, err := config.NewFromString(sim.conf(" ticket_lifetime = 24h\n renew_lifetime = 72h\n"))
		if err != nil {
			t.Fatal(err)
		}
		cl := client.NewWithPassword(c09User, "TEST.GOKRB5", clientPassword, cfg, client.DisablePAFXFAST(true))
		if err := cl.Login(); err != nil {
			fmt.Printf("C11-NOTE login failed: %v\n", err)
		}
		atomic.StoreInt32(&sim.slowTGS, 1)
		atomic.StoreInt64(&sim.slowNs, int64(600*time.Millisecond))
		seen := atomic.LoadInt64(&sim.arrived)
		for i := 0; i < 1000 && atomic.LoadInt64(&sim.arrived) == seen; i++ {
			time.Sleep(3 * time.Millisecond)
		}
		cl.Login()                         // replaces the session whose renewal is waiting for its answer
		time.Sleep(800 * time.Millisecond) // the renewal's answer has arrived
		atomic.StoreInt64(&sim.slowNs, 0)
		cl.Login()
		cl.GetServiceTicket(spns[0])
		cl.Print(io.Discard)
		cl.Destroy()
		cl.Destroy()
	})
	// S2: one configuration shared by goroutines resolving servers and realms, and by two clients
	c11Watchdog("shared-config", 60*time.Second, func() {
		sim := newKDCSim(simPolicy{maxLife: time.Hour, sessionEt: 18}, 24*time.Hour, rng)
		defer sim.close()
		conf := sim.conf(" ticket_lifetime = 24h\n")
		conf = strings.Replace(conf, "[domain_realm]", " TWICE.KDCS = {\n  kdc = k1.twice:88\n  kdc = k2.twice:88\n  kdc = k1.twice:88\n  kpasswd_server = p1.twice:464\n  kpasswd_server = p1.twice:464\n }\n[domain_realm]", 1)
		conf = strings.Replace(conf, "[domain_realm]", " MANY.KDCS = {\n  kdc = k1.many:88\n  kdc = k2.many:88\n  kdc = k3.many:88\n  kdc = k4.many:88\n  kpasswd_server = p1.many:464\n  kpasswd_server = p2.many:464\n }\n[domain_realm]", 1)
		// a realm with two stanzas: three servers in the first (a list the parser grew by appending has room for a
		// fourth), one in the second
		conf = strings.Replace(conf, "[domain_realm]", " STANZA.TWICE = {\n  kdc = k1a.st:88\n  kdc = k2a.st:88\n  kdc = k3a.st:88\n }\n STANZA.TWICE = {\n  kdc = k1b.st:88\n }\n[domain_realm]", 1)
		stanzaAll := map[string]bool{"k1a.st:88": true, "k2a.st:88": true, "k3a.st:88": true, "k1b.st:88": true}
		cfg, err := config.NewFromString(conf)
		if err != nil {
			t.Fatal(err)
		}
		stanzaFirst := ""
		var wg sync.WaitGroup
		{
			_, m, _ := cfg.GetKDCs("STANZA.TWICE", true)
			stanzaFirst = sortedVals(m)
		}
		for g := 0; g < 8; g++ {
			wg.Add(1)
			go func(g int) {
				defer wg.Done()
				for i := 0; i < 400; i++ {
					n, m, err := cfg.GetKDCs("MANY.KDCS", i%2 == 0)
					if err != nil || n != 4 || !isPerm(m, []string{"k1.many:88", "k2.many:88", "k3.many:88", "k4.many:88"}) {
						fmt.Printf("C11-KDCS-NOT-A-PERMUTATION %v %v %v\n", n, m, err)
					}
					n, m, err = cfg.GetKpasswdServers("MANY.KDCS", true)
					if err != nil || n != 2 || !isPerm(m, []string{"p1.many:464", "p2.many:464"}) {
						fmt.Printf("C11-KPASSWD-NOT-A-PERMUTATION %v %v %v\n", n, m, err)
					}
					// an address configured twice is returned twice (what is returned is a permutation of the list)
					n, m, err = cfg.GetKDCs("TWICE.KDCS", i%2 == 0)
					if err != nil || n != 3 || !isPerm(m, []string{"k1.twice:88", "k2.twice:88", "k1.twice:88"}) {
						fmt.Printf("C11-KDCS-NOT-A-PERMUTATION %v %v %v\n", n, m, err)
					}
					n, m, err = cfg.GetKpasswdServers("TWICE.KDCS", true)
					if err != nil || n != 2 || !isPerm(m, []string{"p1.twice:464", "p1.twice:464"}) {
						fmt.Printf("C11-KPASSWD-NOT-A-PERMUTATION %v %v %v\n", n, m, err)
					}
					cfg.ResolveRealm("x.other.realm")
					// the realm with two stanzas: servers that are configured for it, the same ones at every call
					n, m, err = cfg.GetKDCs("STANZA.TWICE", i%2 == 0)
					okS := err == nil && n == len(m) && n > 0 && sortedVals(m) == stanzaFirst
					for _, s := range m {
						okS = okS && stanzaAll[s]
					}
					if !okS {
						fmt.Printf("C11-KDCS-NOT-A-PERMUTATION (realm with two stanzas) %v %v %v first-call=%s\n", n, m, err, stanzaFirst)
					}
				}
			}(g)
		}
		for g := 0; g < 2; g++ {
			wg.Add(1)
			go func(g int) {
				defer wg.Done()
				cl := client.NewWithPassword(c09User, "TEST.GOKRB5", clientPassword, cfg, client.DisablePAFXFAST(true))
				for i := 0; i < 10; i++ {
					cl.Login()
					cl.GetServiceTicket("HTTP/a.test.gokrb5")
				}
				cl.Destroy()
			}(g)
		}
		wg.Wait()
	})
	fmt.Println("C11-ALL-DONE")
}

// c11KDCIssues: requests the simulated KDC had to refuse because the authenticator was not made with the session key
// of the ticket it came with: the client put together a ticket and a key that were not issued together
func c11KDCIssues(name string, sim *kdcSim) {
	sim.mu.Lock()
	defer sim.mu.Unlock()
	n := 0
	for _, r := range sim.log {
		for _, is := range r.issues {
			if strings.Contains(is, "does not decrypt under the session key") {
				n++
				if n <= 2 {
					fmt.Printf("C11-PAIR-MISMATCH in a request of scenario %s: %s\n", name, is)
				}
			}
		}
	}
	fmt.Printf("C11-STATS %s requests-with-ticket-and-key-not-issued-together=%d of %d\n", name, n, len(sim.log))
}

func sortedVals(m map[int]string) string {
	var l []string
	for _, s := range m {
		l = append(l, s)
	}
	sort.Strings(l)
	return strings.Join(l, ",")
}

func isPerm(m map[int]string, want []string) bool {
	if len(m) != len(want) {
		return false
	}
	var got []string
	for i := 1; i <= len(m); i++ {
		v, ok := m[i]
		if !ok {
			return false
		}
		got = append(got, v)
	}
	sort.Strings(got)
	w := append([]string{}, want...)
	sort.Strings(w)
	return reflect.DeepEqual(got, w)
}

// ---- the check ----

// C11: a client and its configuration can be shared by goroutines safely.
func TestC11(t *testing.T) {
	m := StartModel(t)
	defer m.Close()
	v := NewVerdict("C11", "(1) Config.GetKDCs / GetKpasswdServers called repeatedly and concurrently on one configuration with 1..5 servers: every result is a permutation of the configured list, the count is right, the configuration is deeply equal before and after, every order of 3 servers is eventually returned; (2) under the race detector (separate -race build): 8 goroutines on one logged-in client for several seconds (GetServiceTicket over 6 SPNs incl. cross-realm and two-hop referrals, Login, AffirmLogin, GetCachedTicket, JSON) while 4 s tickets force background renewals and re-logins, then Destroy while requests are in flight; 8 goroutines resolving servers and realms on one configuration shared with two clients; every (ticket, key) pair returned is checked against the KDC simulator's issue log; a watchdog dumps all goroutines on a stall; (3) regenerated lock-shape facts for sessions / session / Cache / Settings")
	rng := NewRNG(Seed())
	// (1) server resolution
	for k := 1; k <= 5; k++ {
		var want []string
		conf := "[libdefaults]\n default_realm = R.TEST\n dns_lookup_kdc = false\n[realms]\n R.TEST = {\n"
		for i := 0; i < k; i++ {
			want = append(want, fmt.Sprintf("kdc%d.r.test:88", i))
			conf += fmt.Sprintf("  kdc = kdc%d.r.test:88\n", i)
		}
		conf += "  kpasswd_server = kp0.r.test:464\n  kpasswd_server = kp1.r.test:464\n }\n"
		cfg, err := config.NewFromString(conf)
		if err != nil {
			t.Fatal(err)
		}
		before, _ := cfg.JSON()
		beforeKDC := append([]string{}, cfg.Realms[0].KDC...)
		orders := map[string]int{}
		calls := 600
		for i := 0; i < calls; i++ {
			n, mres, err := cfg.GetKDCs("R.TEST", rng.Intn(2) == 0)
			v.Case(fmt.Sprintf("getkdcs/%d/%d", k, i%40), fmt.Sprintf("GetKDCs with %d servers", k))
			if err != nil || n != k || !isPerm(mres, want) {
				v.Violate("failing-input", fmt.Sprintf("c11:getkdcs:not-a-permutation:%d", k), "GetKDCs does not return a permutation of the configured servers", map[string]string{"configured": fmt.Sprint(want), "call": fmt.Sprint(i), "returned": fmt.Sprint(mres), "count": fmt.Sprint(n), "err": fmt.Sprint(err)})
				break
			}
			var o []string
			for j := 1; j <= k; j++ {
				o = append(o, mres[j])
			}
			orders[strings.Join(o, ",")]++
			if !reflect.DeepEqual(cfg.Realms[0].KDC, beforeKDC) {
				v.Violate("failing-input", fmt.Sprintf("c11:getkdcs:config-modified:%d", k), "resolving KDCs modified the configuration", map[string]string{"before": fmt.Sprint(beforeKDC), "after": fmt.Sprint(cfg.Realms[0].KDC), "call": fmt.Sprint(i)})
				break
			}
			cfg.GetKpasswdServers("R.TEST", true)
		}
		after, _ := cfg.JSON()
		if before != after {
			v.Violate("failing-input", fmt.Sprintf("c11:config-modified:%d", k), "resolving servers modified the configuration", map[string]string{"before": before, "after": after})
		}
		if k == 3 && len(orders) != 6 {
			v.Violate("failing-input", "c11:getkdcs:orders", "not every order of three servers is ever returned", map[string]string{"orders": fmt.Sprint(orders)})
		}
		// the model's shuffle on the same list with PRNG choices: a permutation as well (executable spec)
		var ch []string
		for i := 0; i < k; i++ {
			ch = append(ch, fmt.Sprint(rng.Intn(1000)))
		}
		ans := m.Ask(fmt.Sprintf("sh.rand %d %s", k, List(ch)))
		if !strings.HasPrefix(ans, "perm ") {
			v.Violate("correspondence", "c11:model-shuffle", "the model of randServOrder did not return a permutation", map[string]string{"k": fmt.Sprint(k), "choices": fmt.Sprint(ch), "model": ans})
		}
	}
	// (2) the workload under the race detector
	bin := os.Getenv("VERIF_RACE_BIN")
	if bin == "" {
		bin = "/verif/.build/harness-race.test"
	}
	if _, err := os.Stat(bin); err != nil {
		t.Fatalf("race build missing (%s): build it with go1.26 test -race -c -tags verif -o %s .", bin, bin)
	}
	cmd := exec.Command(bin, "-test.run", "^TestC11Race$", "-test.v", "-test.count=1")
	cmd.Env = append(os.Environ(), "VERIF_C11_CHILD=1", "GORACE=halt_on_error=0 history_size=3")
	var out bytes.Buffer
	cmd.Stdout, cmd.Stderr = &out, &out
	start := time.Now()
	err := cmd.Run()
	text := out.String()
	v.Case("race/workload", fmt.Sprintf("race-detector workload (%.0fs)", time.Since(start).Seconds()))
	for _, l := range strings.Split(text, "\n") {
		if strings.HasPrefix(l, "C11-STATS") || strings.HasPrefix(l, "C11-DONE") {
			v.Note(l)
			v.Sample(l)
		}
	}
	races := strings.Count(text, "WARNING: DATA RACE")
	if races > 0 {
		// one violation per distinct pair of top frames
		seen := map[string]bool{}
		for _, blk := range strings.Split(text, "WARNING: DATA RACE")[1:] {
			var frames []string
			for _, l := range strings.Split(blk, "\n") {
				l = strings.TrimSpace(l)
				if strings.HasPrefix(l, "github.com/jcmturner/gokrb5/v8/") && len(frames) < 2 {
					f := strings.TrimPrefix(l, "github.com/jcmturner/gokrb5/v8/")
					if i := strings.Index(f, "("); i > 0 && !strings.HasPrefix(f[i:], "(*") {
						f = f[:i]
					}
					frames = append(frames, strings.Fields(f)[0])
				}
			}
			sig := strings.Join(frames, " vs ")
			// Client.Destroy replaces the exported Credentials field (and credentials.New fills the new value)
			// while other calls read it: one defect, many pairs of frames
			if destroyBuildsCredentials(writeStack(blk)) {
				sig = "Destroy-replaces-Credentials"
			}
			if seen[sig] {
				continue
			}
			seen[sig] = true
			v.Violate("failing-input", "c11:data-race:"+sig, "the race detector reports a data race between goroutines sharing a client or a configuration", map[string]string{"report": cut(blk, 3000)})
		}
	}
	if strings.Contains(text, "C11-DEADLOCK") {
		i := strings.Index(text, "C11-DEADLOCK")
		v.Violate("failing-input", "c11:deadlock", "the workload stalled: goroutines sharing a client did not finish (deadlock or livelock)", map[string]string{"dump": cut(text[i:], 6000)})
	}
	for _, l := range strings.Split(text, "\n") {
		if strings.HasPrefix(l, "C11-LOCK-ORDER ") || strings.HasPrefix(l, "C11-LOCK-RECURSIVE ") {
			f := strings.Fields(l)
			sig := "c11:lock-order:" + strings.Join(f[1:], " ")
			if i := strings.Index(sig, " ["); i > 0 {
				sig = sig[:i]
			}
			what := "locks of the client are acquired in an order that has a cycle: goroutines taking them in opposite orders can block each other for ever"
			if f[0] == "C11-LOCK-RECURSIVE" {
				what = "a goroutine acquires a lock it already holds (with sync.RWMutex a second read lock behind a waiting writer never returns)"
			}
			v.Violate("failing-input", sig, what, map[string]string{"finding": l})
		}
	}
	for _, key := range []string{"C11-PAIR-MISMATCH", "C11-KDCS-NOT-A-PERMUTATION", "C11-KPASSWD-NOT-A-PERMUTATION"} {
		if i := strings.Index(text, key); i >= 0 {
			v.Violate("failing-input", "c11:"+strings.ToLower(key), "under concurrency: "+strings.ToLower(strings.TrimPrefix(key, "C11-")), map[string]string{"line": cut(text[i:], 400)})
		}
	}
	// the workload ran to its end: a panic in any goroutine of the child ends it early (the exit status alone does not
	// say so: the race detector makes it non-zero whenever it has reported something)
	if !strings.Contains(text, "C11-ALL-DONE") && !strings.Contains(text, "C11-DEADLOCK") {
		i := strings.Index(text, "panic: ")
		if j := strings.Index(text, "fatal error: "); i < 0 || (j >= 0 && j < i) {
			i = j
		}
		if i < 0 {
			i = max(0, len(text)-3000)
		}
		v.Violate("failing-input", "c11:workload-crashed", "the concurrent workload did not run to its end: a goroutine sharing a client or a configuration panicked or the process died", map[string]string{"output": cut(text[i:], 4000), "exit": fmt.Sprint(err)})
	}
	if err != nil && races == 0 && !strings.Contains(text, "C11-DEADLOCK") {
		v.Violate("failing-input", "c11:workload-failed", "the concurrent workload failed: "+err.Error(), map[string]string{"output": cut(text, 4000)})
	}
	v.ModelAsks = m.N
	v.Write(t)
}

// writeStack returns the stack of the (first) write access of a race report block.
func writeStack(blk string) string {
	for _, part := range strings.Split(blk, "\n\n") {
		t := strings.TrimSpace(part)
		if strings.HasPrefix(t, "Write at") || strings.HasPrefix(t, "Previous write at") {
			return t
		}
	}
	return ""
}

// destroyBuildsCredentials: the write happens in Client.Destroy itself or in the constructors it calls to
// build the replacement value (credentials.New, keytab.New) and nowhere else.
func destroyBuildsCredentials(stack string) bool {
	for _, l := range strings.Split(stack, "\n") {
		l = strings.TrimSpace(l)
		if !strings.HasPrefix(l, "github.com/jcmturner/gokrb5/v8/") {
			continue
		}
		f := strings.TrimPrefix(l, "github.com/jcmturner/gokrb5/v8/")
		switch {
		case strings.HasPrefix(f, "client.(*Client).Destroy()"):
			return true
		case strings.HasPrefix(f, "credentials.New()"), strings.HasPrefix(f, "keytab.New()"):
			continue
		default:
			return false
		}
	}
	return false
}
