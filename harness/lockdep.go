package harness

import (
	"fmt"
	"runtime"
	"sort"
	"strings"
	"sync"
)

// A lock-order checker (in the manner of the Linux kernel's lockdep) fed by the build-tag hook
// client.VerifLockEvent: it records, per goroutine, which locks are held when another one is acquired.
// An edge A -> B means "some goroutine acquired a lock of class B while holding one of class A". A cycle in
// this relation is a possible deadlock whether or not the run happened to interleave that way; acquiring a
// lock instance that the goroutine already holds is one too (sync.RWMutex: a second RLock behind a waiting
// writer never returns).
type lockDep struct {
	mu        sync.Mutex
	held      map[int64][]heldLock
	edges     map[[2]string]string // first stack seen for the edge
	recursive map[string]string
	events    int
}

type heldLock struct {
	class string
	lock  interface{}
	write bool
}

func newLockDep() *lockDep {
	return &lockDep{held: map[int64][]heldLock{}, edges: map[[2]string]string{}, recursive: map[string]string{}}
}

func shortStack() string {
	buf := make([]byte, 4096)
	n := runtime.Stack(buf, false)
	var out []string
	for _, l := range strings.Split(string(buf[:n]), "\n") {
		if strings.Contains(l, "gokrb5/v8/") && !strings.Contains(l, "mutex_verif") && !strings.HasPrefix(l, "\t") {
			l = l[strings.Index(l, "gokrb5/v8/")+len("gokrb5/v8/"):]
			if i := strings.LastIndex(l, "("); i > 0 {
				l = l[:i]
			}
			out = append(out, l)
		}
	}
	if len(out) > 6 {
		out = out[:6]
	}
	return strings.Join(out, " < ")
}

func (d *lockDep) event(class string, lock interface{}, op string) {
	g := goid()
	d.mu.Lock()
	defer d.mu.Unlock()
	d.events++
	switch op {
	case "Lock", "RLock":
		for _, h := range d.held[g] {
			if h.lock == lock {
				k := fmt.Sprintf("%s: %s while holding it (%s)", class, op, map[bool]string{true: "Lock", false: "RLock"}[h.write])
				if _, ok := d.recursive[k]; !ok {
					d.recursive[k] = shortStack()
				}
				continue
			}
			e := [2]string{h.class, class}
			if _, ok := d.edges[e]; !ok {
				d.edges[e] = shortStack()
			}
		}
		d.held[g] = append(d.held[g], heldLock{class, lock, op == "Lock"})
	case "Unlock", "RUnlock":
		hs := d.held[g]
		for i := len(hs) - 1; i >= 0; i-- {
			if hs[i].lock == lock && hs[i].write == (op == "Unlock") {
				hs = append(hs[:i], hs[i+1:]...)
				break
			}
		}
		if len(hs) == 0 {
			delete(d.held, g)
		} else {
			d.held[g] = hs
		}
	}
}

// report returns one line per finding: cycles of the class order (self edges included) and recursive
// acquisitions.
func (d *lockDep) report() []string {
	d.mu.Lock()
	defer d.mu.Unlock()
	var out []string
	adj := map[string][]string{}
	for e := range d.edges {
		adj[e[0]] = append(adj[e[0]], e[1])
	}
	seenCycle := map[string]bool{}
	var path []string
	var dfs func(n string)
	onPath := map[string]bool{}
	dfs = func(n string) {
		onPath[n] = true
		path = append(path, n)
		next := append([]string{}, adj[n]...)
		sort.Strings(next)
		for _, m := range next {
			if onPath[m] {
				// the cycle from m to n and back
				i := 0
				for path[i] != m {
					i++
				}
				cyc := append(append([]string{}, path[i:]...), m)
				// canonical rotation
				rot := append([]string{}, cyc[:len(cyc)-1]...)
				min := 0
				for j := range rot {
					if rot[j] < rot[min] {
						min = j
					}
				}
				canon := strings.Join(append(append([]string{}, rot[min:]...), rot[:min]...), " -> ")
				if !seenCycle[canon] {
					seenCycle[canon] = true
					var where []string
					for j := 0; j+1 < len(cyc); j++ {
						where = append(where, fmt.Sprintf("[%s then %s: %s]", cyc[j], cyc[j+1], d.edges[[2]string{cyc[j], cyc[j+1]}]))
					}
					out = append(out, "C11-LOCK-ORDER cycle "+canon+" -> "+rot[min]+" "+strings.Join(where, " "))
				}
				continue
			}
			if len(path) < 8 {
				dfs(m)
			}
		}
		path = path[:len(path)-1]
		onPath[n] = false
	}
	var nodes []string
	for n := range adj {
		nodes = append(nodes, n)
	}
	sort.Strings(nodes)
	for _, n := range nodes {
		dfs(n)
	}
	var rk []string
	for k := range d.recursive {
		rk = append(rk, k)
	}
	sort.Strings(rk)
	for _, k := range rk {
		out = append(out, "C11-LOCK-RECURSIVE "+k+" ["+d.recursive[k]+"]")
	}
	var es []string
	for e := range d.edges {
		es = append(es, e[0]+"->"+e[1])
	}
	sort.Strings(es)
	out = append(out, fmt.Sprintf("C11-STATS lock-order events=%d edges=%v", d.events, es))
	return out
}
