package harness

import (
	"encoding/binary"
	"fmt"
	"strings"
	"testing"
	"time"

	"github.com/jcmturner/gokrb5/v8/keytab"
	"github.com/jcmturner/gokrb5/v8/types"
)

// ---- C14: keytab files ----

type ktEntry struct {
	realm []byte
	comps [][]byte
	nt    uint32
	ts    uint32
	k8    uint8
	et    uint16
	key   []byte
	kvno  uint32
}

func (e ktEntry) tok() string {
	cs := make([]string, len(e.comps))
	for i, c := range e.comps {
		cs[i] = X(c)
	}
	return fmt.Sprintf("%s:%s:%d:%d:%d:%d:%s:%d", X(e.realm), List(cs), e.nt, e.ts, e.k8, e.et, X(e.key), e.kvno)
}

type ktItem struct {
	hole   int
	e      ktEntry
	has32  bool
	kvno32 uint32
}

func (it ktItem) tok() string {
	if it.hole > 0 {
		return fmt.Sprintf("H%d", it.hole)
	}
	k := "-"
	if it.has32 {
		k = fmt.Sprint(it.kvno32)
	}
	return "E" + it.e.tok() + "/" + k
}

func ktName(r *RNG) []byte {
	switch r.Intn(10) {
	case 0:
		return []byte{}
	case 1:
		return r.Bytes(255 + r.Intn(80))
	case 2:
		return []byte("krbtgt")
	case 3:
		return []byte("HTTP")
	case 4:
		return []byte("host.test.gokrb5")
	default:
		b := make([]byte, 1+r.Intn(6))
		for i := range b {
			b[i] = byte('a' + r.Intn(3))
		}
		return b
	}
}

var ktEtypes = []uint16{1, 3, 16, 17, 18, 19, 20, 23, 24, 0, 0x7fff, 0xffff, 0xff75}

func genKtEntry(r *RNG) ktEntry {
	var e ktEntry
	e.realm = ktName(r)
	nc := r.Intn(5)
	for i := 0; i < nc; i++ {
		e.comps = append(e.comps, ktName(r))
	}
	e.nt = uint32(r.Pick(0, 1, 2, 3, 10, -1, 1<<31-1))
	switch r.Intn(5) {
	case 0:
		e.ts = uint32(r.Pick(0, 1, 1<<31-1, -1<<31, -1, 100))
	default:
		e.ts = uint32(r.U64())
	}
	e.k8 = uint8(r.Pick(0, 1, 2, 3, 255, r.Intn(256)))
	e.et = ktEtypes[r.Intn(len(ktEtypes))]
	e.key = r.Bytes(r.Pick(0, 1, 8, 16, 24, 32, r.Intn(65)))
	return e
}

func genKtItems(r *RNG) []ktItem {
	n := r.Intn(9)
	var items []ktItem
	for i := 0; i < n; i++ {
		if r.Intn(5) == 0 {
			items = append(items, ktItem{hole: r.Pick(1, 2, 3, 4, 5, 17, 100, 1+r.Intn(300))})
			continue
		}
		it := ktItem{e: genKtEntry(r)}
		switch r.Intn(6) {
		case 0: // no 32-bit field
		case 1:
			it.has32, it.kvno32 = true, 0
		case 2:
			it.has32, it.kvno32 = true, uint32(it.e.k8)
		case 3:
			it.has32, it.kvno32 = true, uint32(r.Pick(256, 257, 65536, 1<<31, -1, 1<<31-1))
		default:
			it.has32, it.kvno32 = true, uint32(r.U64())
		}
		items = append(items, it)
	}
	return items
}

func goKtEntries(kt *keytab.Keytab) []ktEntry {
	var out []ktEntry
	for _, e := range kt.Entries {
		var x ktEntry
		x.realm = []byte(e.Principal.Realm)
		for _, c := range e.Principal.Components {
			x.comps = append(x.comps, []byte(c))
		}
		x.nt = uint32(e.Principal.NameType)
		x.ts = uint32(e.Timestamp.Unix())
		x.k8 = e.KVNO8
		x.et = uint16(e.Key.KeyType)
		x.key = e.Key.KeyValue
		x.kvno = e.KVNO
		out = append(out, x)
	}
	return out
}

func ktToks(es []ktEntry) string {
	s := make([]string, len(es))
	for i, e := range es {
		s[i] = e.tok()
	}
	return strings.Join(s, " ")
}

func goKtParse(b []byte) (kt *keytab.Keytab, res string, pan string) {
	kt = new(keytab.Keytab)
	var err error
	pan = Protect(func() { err = kt.Unmarshal(b) })
	if pan != "" {
		return kt, "panic", pan
	}
	if err != nil {
		return kt, "err", ""
	}
	return kt, "ok", ""
}

func TestC14(t *testing.T) {
	m := StartModel(t)
	defer m.Close()
	v := NewVerdict("C14", "keytab models (0..8 items: entries with 0..4 components, empty/255+ byte names, supported and unsupported key types, kvno8/kvno32 combinations, 32-bit timestamps, holes; versions 1 and 2) rendered by the Lean independent writer, parsed/marshalled/looked-up by Go and by the Lean model; mutated files for the error paths. distinct = distinct (version, item-shape, lookup-kind) descriptors; non-trivial = at least one entry")
	rng := NewRNG(Seed())
	n := 1200
	if Thorough() {
		n = 40000
	}
	if rp := ReplayInput(); rp != nil {
		c14Replay(t, m, v, rp)
		v.Write(t)
		return
	}
	for i := 0; i < n; i++ {
		c14Case(m, v, rng, i)
	}
	c14Newest(v)
	v.ModelAsks = m.N
	v.Write(t)
}

// c14Newest: a keytab built in memory (AddEntry takes a time.Time): of two matching entries the one with the
// later time is the newest, also when both fall into the same second, whichever was added first.
func c14Newest(v *Verdict) {
	base := time.Unix(1700000000, 0)
	// entries of another principal (same realm, etype and number of components) that are newer and stand before and
	// between the wanted ones play no part
	for _, kvno := range []int{0, 2} {
		kt := keytab.New()
		kt.AddEntry("HOST/www", "R", "h1", base.Add(2000*time.Second), 2, 18)
		kt.AddEntry("HTTP/www", "R", "p1", base.Add(500*time.Second), 1, 18)
		kt.AddEntry("HTTP/www", "R", "p2", base.Add(1000*time.Second), 2, 18)
		kt.AddEntry("HOST/www", "R", "h2", base.Add(3000*time.Second), 2, 18)
		kt.AddEntry("HTTP/www", "R", "p3", base.Add(2500*time.Second), 2, 18)
		key, kv, err := kt.GetEncryptionKey(types.PrincipalName{NameType: 1, NameString: []string{"HTTP", "www"}}, "R", kvno, 18)
		v.Case(fmt.Sprintf("newest-among-others/%d", kvno), "newest entry of one principal among newer entries of another")
		if err != nil || len(kt.Entries) != 5 || string(key.KeyValue) != string(kt.Entries[4].Key.KeyValue) || kv != 2 {
			v.Violate("failing-input", "c14:newest-among-others", "newer entries of another principal change which entry a lookup returns", map[string]string{"requested-kvno": fmt.Sprint(kvno), "returned-kvno": fmt.Sprint(kv), "error": fmt.Sprint(err)})
		}
	}
	// three matching entries in every order (the newest so far is what a later one is compared with)
	for _, ord := range [][3]int{{300, 400, 500}, {300, 500, 400}, {400, 300, 500}, {400, 500, 300}, {500, 300, 400}, {500, 400, 300}} {
		for _, sameKvno := range []bool{false, true} {
			kt := keytab.New()
			for i, s := range ord {
				kv := uint8(i + 1)
				if sameKvno {
					kv = 7
				}
				kt.AddEntry("u", "R", fmt.Sprintf("password-%d", i), base.Add(time.Duration(s)*time.Second), kv, 17)
			}
			want := 0
			for i := range ord {
				if ord[i] == 500 {
					want = i
				}
			}
			kvno := 0
			if sameKvno {
				kvno = 7
			}
			key, kv, err := kt.GetEncryptionKey(types.PrincipalName{NameType: 1, NameString: []string{"u"}}, "R", kvno, 17)
			v.Case(fmt.Sprintf("newest3/%v/%v", ord, sameKvno), "newest of three entries added in memory")
			if err != nil || len(kt.Entries) != 3 || string(key.KeyValue) != string(kt.Entries[want].Key.KeyValue) || kv != int(kt.Entries[want].KVNO) {
				v.Violate("failing-input", "c14:newest-of-three", "of three matching entries the lookup does not return the one with the latest timestamp", map[string]string{"timestamps-in-table-order": fmt.Sprint(ord), "same-kvno": fmt.Sprint(sameKvno), "returned-kvno": fmt.Sprint(kv), "error": fmt.Sprint(err)})
			}
		}
	}
	for _, d := range [][2]time.Duration{{100 * time.Millisecond, 900 * time.Millisecond}, {900 * time.Millisecond, 100 * time.Millisecond}, {0, time.Nanosecond}, {time.Second, 1500 * time.Millisecond}, {2 * time.Second, time.Second}} {
		for _, sameKvno := range []bool{false, true} {
			kt := keytab.New()
			k2 := uint8(2)
			if sameKvno {
				k2 = 1
			}
			if kt.AddEntry("u", "R", "first-password", base.Add(d[0]), 1, 18) != nil || kt.AddEntry("u", "R", "second-password", base.Add(d[1]), k2, 18) != nil {
				continue
			}
			want := 0
			if d[1] > d[0] {
				want = 1
			}
			for _, kvno := range []int{0, 1} {
				if kvno == 1 && !sameKvno {
					continue
				}
				key, kv, err := kt.GetEncryptionKey(types.PrincipalName{NameType: 1, NameString: []string{"u"}}, "R", kvno, 18)
				v.Case(fmt.Sprintf("newest/%v/%v/%d", d, sameKvno, kvno), "newest of two entries added in memory")
				if err != nil || string(key.KeyValue) != string(kt.Entries[want].Key.KeyValue) || kv != int(kt.Entries[want].KVNO) {
					v.Violate("failing-input", "c14:newest-in-memory", "of two matching entries added with AddEntry the lookup does not return the one with the later timestamp", map[string]string{"timestamps": fmt.Sprint(d), "same-kvno": fmt.Sprint(sameKvno), "requested-kvno": fmt.Sprint(kvno), "returned-kvno": fmt.Sprint(kv), "error": fmt.Sprint(err)})
				}
			}
		}
	}
}

func c14Replay(t *testing.T, m *Model, v *Verdict, rp map[string]string) {
	if f, ok := rp["file"]; ok {
		c14File(m, v, UnX(f), rp["expect"], "replay", "replay")
	}
}

// c14File checks one file: Go parse vs expected entries (when known) vs the Lean model of Unmarshal,
// then Marshal / re-parse / lookups on the result.
func c14File(m *Model, v *Verdict, file []byte, expect string, shape string, origin string) (ok bool, entries []ktEntry) {
	kt, res, pan := goKtParse(file)
	if res == "panic" {
		v.Violate("failing-input", "c14:panic:"+shape, "Keytab.Unmarshal panicked: "+pan, map[string]string{"file": X(file)})
		return false, nil
	}
	got := goKtEntries(kt)
	mp := m.Ask("kt.parse 1 " + X(file))
	// correspondence with the Impl model
	var goLine string
	if res == "ok" {
		ver := 0
		if len(file) > 1 {
			ver = int(file[1])
		}
		goLine = strings.TrimRight(fmt.Sprintf("ok %d %s", ver, ktToks(got)), " ")
	} else {
		goLine = "err"
	}
	mpc := strings.TrimRight(mp, " ")
	if strings.HasPrefix(mpc, "err") {
		mpc = "err"
	}
	if goLine != mpc {
		kind := "correspondence"
		if expect != "" {
			kind = "failing-input"
		}
		v.Violate(kind, "c14:parse-differs:"+shape, "Keytab.Unmarshal and its Lean model disagree on a "+origin+" file", map[string]string{"file": X(file), "go": goLine, "model": mp, "expect": expect})
		return false, got
	}
	if expect != "" {
		// property oracle: independent writer's expectation
		exp := strings.TrimRight(expect, " ")
		g := strings.TrimRight("ok "+ktToks(got), " ")
		if res != "ok" || g != exp {
			v.Violate("failing-input", "c14:reads-spec:"+shape, "a well-formed keytab file written by the independent writer is not parsed to the entries written", map[string]string{"file": X(file), "go": res + " " + g, "expect": exp})
			return false, got
		}
	}
	return res == "ok", got
}

// c14EndMarker puts a zero record length in front of one of the records of the file (not the first one when there
// are several): the records from there on are stale data behind the end of the keytab.
func c14EndMarker(file []byte, ver int, items []ktItem, rng *RNG) []byte {
	var bo binary.ByteOrder = binary.BigEndian
	if ver == 1 {
		bo = binary.LittleEndian
	}
	var starts []int
	p := 2
	for range items {
		if p+4 > len(file) {
			return nil
		}
		starts = append(starts, p)
		l := int32(bo.Uint32(file[p:]))
		n := int(l)
		if l < 0 {
			n = -n
		}
		p += 4 + n
	}
	if p != len(file) || len(starts) == 0 {
		return nil
	}
	at := starts[rng.Intn(len(starts))]
	if len(starts) > 1 && at == starts[0] {
		at = starts[1]
	}
	out := append([]byte{}, file[:at]...)
	out = append(out, 0, 0, 0, 0)
	return append(out, file[at:]...)
}

// c14AddTails appends 1..8 octets (4 in half of the cases) to every record of the file that has a 32-bit key
// version field, and adjusts the record's length. nil when there is no such record or the walk does not fit.
func c14AddTails(file []byte, ver int, items []ktItem, rng *RNG) []byte {
	var bo binary.ByteOrder = binary.BigEndian
	if ver == 1 {
		bo = binary.LittleEndian
	}
	out := append([]byte{}, file[:2]...)
	p, changed := 2, false
	for _, it := range items {
		if p+4 > len(file) {
			return nil
		}
		l := int32(bo.Uint32(file[p:]))
		n := int(l)
		if l < 0 {
			n = -n
		}
		if p+4+n > len(file) || (l < 0) != (it.hole > 0) {
			return nil
		}
		body := file[p+4 : p+4+n]
		if l > 0 && it.has32 {
			tl := 4
			if rng.Intn(2) == 0 {
				tl = 1 + rng.Intn(8)
			}
			var lb [4]byte
			bo.PutUint32(lb[:], uint32(n+tl))
			out = append(out, lb[:]...)
			out = append(out, body...)
			out = append(out, rng.Bytes(tl)...)
			changed = true
		} else {
			out = append(out, file[p:p+4+n]...)
		}
		p += 4 + n
	}
	if p != len(file) || !changed {
		return nil
	}
	return out
}

func c14Case(m *Model, v *Verdict, rng *RNG, idx int) {
	ver := 1 + rng.Intn(2)
	items := genKtItems(rng)
	toks := make([]string, len(items))
	nEntries, nHoles, no32 := 0, 0, 0
	for i, it := range items {
		toks[i] = it.tok()
		if it.hole > 0 {
			nHoles++
		} else {
			nEntries++
			if !it.has32 {
				no32++
			}
		}
	}
	args := strings.Join(toks, " ")
	shape := fmt.Sprintf("v%d/e%d/h%d/n%d", ver, nEntries, nHoles, no32)
	rend := m.Ask(fmt.Sprintf("kt.render 1 %d %s", ver, args))
	exp := m.Ask(fmt.Sprintf("kt.expect %d %s", ver, args))
	if !strings.HasPrefix(rend, "ok ") || !strings.HasPrefix(exp, "ok") {
		v.Violate("correspondence", "c14:model-bad-op", "kmodel refused a render request", map[string]string{"op": args, "answer": rend + " / " + exp})
		return
	}
	file := UnX(strings.TrimPrefix(rend, "ok "))
	key := ""
	if nEntries > 0 {
		key = shape
	}
	v.Case(key, "render+parse "+fmt.Sprintf("v%d", ver))
	if idx < 3 {
		v.Sample(fmt.Sprintf("kt.render 1 %d %s -> %s", ver, args, X(file)))
	}
	ok, entries := c14File(m, v, file, exp, shape, "rendered")
	if !ok {
		return
	}
	// ---- the same file with further fields after the 32-bit key version of its records (the record length
	// delimits a record; Heimdal writes a 32-bit flags word there): the entries read are the same ones
	// ---- a record length of zero marks the end of the keytab: what follows it (old contents of a file that was
	// shortened in place) is not read
	if marked := c14EndMarker(file, ver, items, rng); marked != nil {
		v.Case(key+"/endmark", "render+parse with an end marker before stale records "+fmt.Sprintf("v%d", ver))
		c14File(m, v, marked, "", shape+"/endmark", "rendered (end marker, then stale records)")
	}
	if tailed := c14AddTails(file, ver, items, rng); tailed != nil {
		v.Case(key+"/tail", "render+parse with record tails "+fmt.Sprintf("v%d", ver))
		c14File(m, v, tailed, exp, shape+"/tail", "rendered (fields after the 32-bit key version)")
	}
	// ---- Marshal: bytes equal the model's, and re-parse returns the same entries (round trip)
	kt := new(keytab.Keytab)
	kt.Unmarshal(file)
	var mb []byte
	var merr error
	if p := Protect(func() { mb, merr = kt.Marshal() }); p != "" || merr != nil {
		v.Violate("failing-input", "c14:marshal-fails:"+shape, fmt.Sprintf("Keytab.Marshal failed: %v %v", p, merr), map[string]string{"file": X(file)})
		return
	}
	v.Case("", "marshal+reparse "+fmt.Sprintf("v%d", ver))
	mm := m.Ask(fmt.Sprintf("kt.marshal 1 %d %s", ver, ktToks(entries)))
	if mm != "ok "+X(mb) {
		v.Violate("correspondence", fmt.Sprintf("c14:marshal-differs:v%d", ver), "Keytab.Marshal and its Lean model produce different bytes", map[string]string{"file": X(file), "go": X(mb), "model": mm})
	}
	kt2, res2, _ := goKtParse(mb)
	again := goKtEntries(kt2)
	if res2 != "ok" || ktToks(again) != ktToks(entries) {
		v.Violate("failing-input", fmt.Sprintf("c14:roundtrip:v%d", ver), "parse(marshal(keytab)) differs from the keytab", map[string]string{"file": X(file), "marshalled": X(mb), "before": ktToks(entries), "after": res2 + " " + ktToks(again)})
	}
	// ---- lookups: present and near-miss values
	if len(entries) > 0 {
		for j := 0; j < 6; j++ {
			e := entries[rng.Intn(len(entries))]
			realm, comps, kvno, et := e.realm, e.comps, uint64(e.kvno), e.et
			kind := "hit"
			switch rng.Intn(12) {
			case 0:
				realm = append([]byte{}, realm...)
				realm = append(realm, 'x')
				kind = "realm+"
			case 1:
				if len(comps) > 0 {
					comps = comps[:len(comps)-1]
					kind = "comps-prefix"
				}
			case 2:
				comps = append(append([][]byte{}, comps...), []byte("a"))
				kind = "comps+"
			case 3:
				et = ktEtypes[rng.Intn(len(ktEtypes))]
				kind = "etype?"
			case 4:
				kvno = 0
				kind = "kvno0"
			case 5:
				kvno = kvno + 1
				if kvno >= 1<<32 {
					kvno = 1
				}
				kind = "kvno+1"
			case 7:
				// another key version with the same low octet(s)
				kvno = (kvno + uint64(rng.Pick(256, 512, 65536, 1<<24))) % (1 << 32)
				kind = "kvno+256k"
			case 8:
				if kvno > 255 {
					kvno &= 0xff
					kind = "kvno-low-octet"
				}
			case 6:
				if len(comps) > 0 {
					cs := append([][]byte{}, comps...)
					cs[rng.Intn(len(cs))] = []byte("zz")
					comps = cs
					kind = "comp-changed"
				}
			}
			c14Lookup(m, v, entries, kt, realm, comps, kvno, et, kind, file)
		}
	}
	// ---- malformed variants: the Lean model of Unmarshal must agree with Go on ok/err and entries
	if len(file) > 2 {
		for j := 0; j < 4; j++ {
			mf := append([]byte{}, file...)
			kind := ""
			switch rng.Intn(4) {
			case 0:
				mf = mf[:rng.Intn(len(mf))]
				kind = "truncated"
			case 1:
				mf[rng.Intn(len(mf))] = byte(rng.U64())
				kind = "byte-substituted"
			case 2:
				p := 2 + rng.Intn(len(mf)-2)
				mf[p] = byte(rng.Pick(0, 0x7f, 0x80, 0xff))
				kind = "byte-extreme"
			case 3:
				mf = append(mf, rng.Bytes(1+rng.Intn(6))...)
				kind = "extended"
			}
			v.Case("", "malformed "+kind)
			c14File(m, v, mf, "", "malformed", kind)
		}
	}
}

func c14Lookup(m *Model, v *Verdict, entries []ktEntry, kt *keytab.Keytab, realm []byte, comps [][]byte, kvno uint64, et uint16, kind string, file []byte) {
	var pn types.PrincipalName
	cs := make([]string, len(comps))
	for i, c := range comps {
		pn.NameString = append(pn.NameString, string(c))
		cs[i] = X(c)
	}
	var key types.EncryptionKey
	var kv int
	var err error
	if p := Protect(func() { key, kv, err = kt.GetEncryptionKey(pn, string(realm), int(kvno), int32(int16(et))) }); p != "" {
		v.Violate("failing-input", "c14:lookup-panic", "GetEncryptionKey panicked: "+p, map[string]string{"file": X(file)})
		return
	}
	goRes := "none"
	if err == nil {
		goRes = fmt.Sprintf("ok %s %d", X(key.KeyValue), kv)
	}
	op := fmt.Sprintf("kt.lookup %s %s %d %d %s", X(realm), List(cs), kvno, et, ktToks(entries))
	mr := m.Ask(op)
	v.Case("", "lookup "+kind+" -> "+strings.SplitN(goRes, " ", 2)[0])
	// property oracle, independent of the model: sound and complete
	matches := func(e ktEntry) bool {
		if string(e.realm) != string(realm) || len(e.comps) != len(comps) || e.et != et {
			return false
		}
		for i := range comps {
			if string(comps[i]) != string(e.comps[i]) {
				return false
			}
		}
		return kvno == 0 || uint64(e.kvno) == kvno
	}
	if err == nil {
		found := false
		for _, e := range entries {
			if matches(e) && string(e.key) == string(key.KeyValue) && int(e.kvno) == kv {
				found = true
			}
		}
		if !found {
			v.Violate("failing-input", "c14:lookup-unsound:"+kind, "GetEncryptionKey returned a key that no matching entry holds", map[string]string{"op": op, "go": goRes, "file": X(file)})
			return
		}
	} else {
		for _, e := range entries {
			if matches(e) && len(e.key) > 0 {
				// a usable matching entry exists: the lookup may fail only if the newest match has an empty key
				if mr == "none" {
					break
				}
				v.Violate("failing-input", "c14:lookup-incomplete:"+kind, "GetEncryptionKey failed although a matching entry exists", map[string]string{"op": op, "file": X(file)})
				return
			}
		}
	}
	if mr != goRes {
		v.Violate("correspondence", "c14:lookup-differs:"+kind, "GetEncryptionKey and its Lean model disagree", map[string]string{"op": op, "go": goRes, "model": mr, "file": X(file)})
	}
}
