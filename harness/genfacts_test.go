package harness

import (
	"os"
	"path/filepath"
	"testing"
)

// TestGenFacts is the translator: it is compiled against /repo's current tree and writes Lean *data*
// files (never proofs) under lean/Krb/Gen. Theorems in Krb/Props/* are stated about these definitions,
// so a change of a fact in the Go source makes the corresponding theorem fail to re-check.
func TestGenFacts(t *testing.T) {
	dir := os.Getenv("VERIF_GEN_DIR")
	if dir == "" {
		t.Skip("VERIF_GEN_DIR not set")
	}
	os.MkdirAll(dir, 0o755)
	for name, gen := range factGenerators {
		src := gen(t)
		p := filepath.Join(dir, name+".lean")
		old, _ := os.ReadFile(p)
		if string(old) != src {
			if err := os.WriteFile(p, []byte(src), 0o644); err != nil {
				t.Fatal(err)
			}
		}
	}
}

var factGenerators = map[string]func(t *testing.T) string{}
