package harness

import (
	"fmt"
	"sort"
	"strings"
	"testing"
	"time"

	"github.com/jcmturner/gokrb5/v8/config"
)

// ---------- configuration model (the AST a krb5.conf denotes, per the MIT documentation) ----------

type confRealm struct {
	name    string
	kdc     []string // as written (may lack a port, may end in *)
	admin   []string
	kpasswd []string
	master  []string
	dd      string
	nested  bool // put a nested block of unknown relations inside
	v4      bool // put a v4_instance_convert block inside
}

type confModel struct {
	bools    map[string]bool
	durs     map[string]time.Duration
	ints     map[string]int
	strs     map[string]string
	tktEnc   []string
	realms   []confRealm
	mappings [][2]string
}

var boolKeys = []string{"allow_weak_crypto", "canonicalize", "dns_canonicalize_hostname", "dns_lookup_kdc", "dns_lookup_realm", "forwardable", "ignore_acceptor_hostname", "k5login_authoritative", "noaddresses", "proxiable", "rdns", "verify_ap_req_nofail"}
var trueSpellings = []string{"true", "yes", "y", "1", "TRUE", "Yes", "YES", "t", "T", "True"}
var falseSpellings = []string{"false", "no", "n", "0", "FALSE", "No", "NO", "f", "F", "False"}

// renderDur renders d (whole seconds) in one of the four formats the MIT documentation lists:
// seconds, h:m[:s], NdNhNmNs, NhNmNs (with optional spaces).
func renderDur(d time.Duration, f int) string {
	s := int(d / time.Second)
	dd, h, m, sec := s/86400, s%86400/3600, s%3600/60, s%60
	switch f {
	case 0:
		return fmt.Sprint(s)
	case 1:
		hh := s / 3600
		if sec == 0 {
			return fmt.Sprintf("%d:%02d", hh, m)
		}
		return fmt.Sprintf("%d:%02d:%02d", hh, m, sec)
	case 2:
		out := fmt.Sprintf("%dd", dd)
		if h > 0 {
			out += fmt.Sprintf("%dh", h)
		}
		if m > 0 {
			out += fmt.Sprintf("%dm", m)
		}
		if sec > 0 {
			out += fmt.Sprintf("%ds", sec)
		}
		return out
	default:
		hh := s / 3600
		out := ""
		if hh > 0 {
			out += fmt.Sprintf("%dh", hh)
		}
		if m > 0 {
			out += fmt.Sprintf("%dm", m)
		}
		if sec > 0 || out == "" {
			out += fmt.Sprintf("%ds", sec)
		}
		return out
	}
}

var enctypeNames = map[string]int32{
	"aes256-cts-hmac-sha1-96": 18, "aes256-cts": 18, "aes256-sha1": 18,
	"aes128-cts-hmac-sha1-96": 17, "aes128-cts": 17, "aes128-sha1": 17,
	"aes256-cts-hmac-sha384-192": 20, "aes256-sha2": 20,
	"aes128-cts-hmac-sha256-128": 19, "aes128-sha2": 19,
	"arcfour-hmac": 23, "rc4-hmac": 23, "arcfour-hmac-md5": 23,
	"des3-cbc-sha1-kd":     16,
	"camellia256-cts-cmac": 0, "camellia128-cts-cmac": 0, "des-cbc-crc": 0, "des-cbc-md5": 0,
}

type layout struct{ r *RNG }

func (l layout) ws() string {
	return []string{"", " ", "  ", "\t", " \t", "    "}[l.r.Intn(6)]
}
func (l layout) eq() string { return []string{"=", " = ", " =", "= ", "\t=\t", "  =  "}[l.r.Intn(6)] }
func (l layout) noise() string {
	switch l.r.Intn(8) {
	case 0:
		return "\n"
	case 1:
		return l.ws() + "# a comment = with { braces }\n"
	case 2:
		return l.ws() + "; another comment\n"
	case 3:
		return "   \n"
	}
	return ""
}
func (l layout) key(k string) string {
	if l.r.Intn(4) == 0 {
		return strings.ToUpper(k)
	}
	return k
}

func (m *confModel) render(l layout) string {
	var sb strings.Builder
	rel := func(k, v string) {
		sb.WriteString(l.noise())
		sb.WriteString(l.ws() + l.key(k) + l.eq() + v + []string{"", " ", "\t"}[l.r.Intn(3)] + "\n")
	}
	sections := []func(){
		func() {
			sb.WriteString(l.ws() + "[libdefaults]" + l.ws() + "\n")
			var keys []string
			for k := range m.bools {
				keys = append(keys, "b:"+k)
			}
			for k := range m.durs {
				keys = append(keys, "d:"+k)
			}
			for k := range m.ints {
				keys = append(keys, "i:"+k)
			}
			for k := range m.strs {
				keys = append(keys, "s:"+k)
			}
			sort.Strings(keys)
			for i := len(keys) - 1; i > 0; i-- {
				j := l.r.Intn(i + 1)
				keys[i], keys[j] = keys[j], keys[i]
			}
			for _, kk := range keys {
				k := kk[2:]
				switch kk[0] {
				case 'b':
					sp := falseSpellings
					if m.bools[k] {
						sp = trueSpellings
					}
					rel(k, sp[l.r.Intn(len(sp))])
				case 'd':
					rel(k, renderDur(m.durs[k], l.r.Intn(4)))
				case 'i':
					rel(k, fmt.Sprint(m.ints[k]))
				case 's':
					rel(k, m.strs[k])
				}
				if l.r.Intn(6) == 0 {
					rel("some_unknown_key", "whatever value")
				}
			}
			if m.tktEnc != nil {
				// the names of a list are separated by white space of any kind
				seps := []string{" ", "\t", "  ", " \t ", "\t\t"}
				rel("default_tkt_enctypes", strings.Join(m.tktEnc, seps[l.r.Intn(len(seps))]))
				rel("default_tgs_enctypes", strings.Join(m.tktEnc, seps[l.r.Intn(len(seps))]))
				rel("permitted_enctypes", strings.Join(m.tktEnc, seps[l.r.Intn(len(seps))]))
			}
		},
		func() {
			sb.WriteString(l.ws() + "[realms]\n")
			for _, r := range m.realms {
				sb.WriteString(l.noise())
				sb.WriteString(l.ws() + r.name + l.eq() + "{\n")
				type kv struct{ k, v string }
				var kvs []kv
				for _, x := range r.kdc {
					kvs = append(kvs, kv{"kdc", x})
				}
				for _, x := range r.admin {
					kvs = append(kvs, kv{"admin_server", x})
				}
				for _, x := range r.kpasswd {
					kvs = append(kvs, kv{"kpasswd_server", x})
				}
				for _, x := range r.master {
					kvs = append(kvs, kv{"master_kdc", x})
				}
				if r.dd != "" {
					kvs = append(kvs, kv{"default_domain", r.dd})
				}
				// interleave kinds but keep the order within a kind (the lists are ordered)
				pos := 0
				if r.nested {
					pos = l.r.Intn(len(kvs) + 1)
				}
				for i, x := range kvs {
					if r.nested && i == pos {
						sb.WriteString(l.ws() + "auth_to_local_names" + l.eq() + "{\n" + l.ws() + "  someuser = localuser\n" + l.ws() + "  kdc = must.not.be.used.example.com\n" + l.ws() + "  admin_server = nested.admin.example.com\n" + l.ws() + "}\n")
					}
					rel(x.k, x.v)
					if l.r.Intn(5) == 0 {
						rel("unknown_relation", "x")
					}
				}
				if r.nested && pos == len(kvs) {
					sb.WriteString(l.ws() + "auth_to_local_names" + l.eq() + "{\n" + l.ws() + "  someuser = localuser\n" + l.ws() + "}\n")
				}
				if r.v4 {
					sb.WriteString(l.ws() + "v4_instance_convert = {\n" + l.ws() + "   mail = mailhost\n" + l.ws() + "   kdc = v4.must.not.be.used\n" + l.ws() + "}\n")
				}
				sb.WriteString(l.ws() + "}\n")
			}
		},
		func() {
			sb.WriteString(l.ws() + "[domain_realm]\n")
			for _, mp := range m.mappings {
				rel(mp[0], mp[1])
			}
		},
		func() {
			// sections this library does not interpret, under names of every shape (whatever stands between the
			// brackets names a section): their relations and blocks belong to them, not to the section before
			names := []string{"appdefaults", "app-defaults", "kdc.defaults", " logging ", "plugins", "", "db modules", "otp/2fa"}
			sb.WriteString("[" + names[l.r.Intn(len(names))] + "]\n pam = {\n   debug = false\n   kdc = should.be.ignored\n }\n[" + names[l.r.Intn(len(names))] + "]\n default = FILE:/var/log/krb5libs.log\n")
		},
	}
	order := []int{0, 1, 2, 3}
	for i := 3; i > 0; i-- {
		j := l.r.Intn(i + 1)
		order[i], order[j] = order[j], order[i]
	}
	for _, i := range order {
		// a section with nothing in it, or only comments, in front of the next one (a distributor's template
		// with everything commented out): what follows belongs to the section whose header comes last
		if l.r.Intn(3) == 0 {
			sb.WriteString("[" + []string{"logging", "appdefaults", "plugins", "dbmodules"}[l.r.Intn(4)] + "]\n" + []string{"", "# default = FILE:/var/log/krb5libs.log\n", "\n", " ; nothing here\n\n"}[l.r.Intn(4)])
		}
		sections[i]()
		sb.WriteString(l.noise())
	}
	return sb.String()
}

func genConfModel(r *RNG) *confModel {
	m := &confModel{bools: map[string]bool{}, durs: map[string]time.Duration{}, ints: map[string]int{}, strs: map[string]string{}}
	for _, k := range boolKeys {
		if r.Intn(3) != 0 {
			m.bools[k] = r.Bool()
		}
	}
	for _, k := range []string{"clockskew", "renew_lifetime", "ticket_lifetime"} {
		if r.Intn(3) != 0 {
			m.durs[k] = time.Duration(r.Pick(1, 59, 60, 300, 3599, 3600, 86399, 86400, 90061, 604800, 1+r.Intn(2000000))) * time.Second
		}
	}
	if r.Bool() {
		m.ints["udp_preference_limit"] = r.Pick(1, 0, 1465, 32700, r.Intn(32701))
	}
	if r.Bool() {
		m.ints["ccache_type"] = r.Intn(5)
	}
	if r.Bool() {
		m.ints["kdc_timesync"] = r.Intn(3)
	}
	m.strs["default_realm"] = []string{"TEST.GOKRB5", "EXAMPLE.COM", "a.b"}[r.Intn(3)]
	if r.Bool() {
		m.strs["default_keytab_name"] = "FILE:/etc/krb5.keytab"
	}
	if r.Bool() {
		names := []string{}
		for n := range enctypeNames {
			names = append(names, n)
		}
		sort.Strings(names)
		k := 1 + r.Intn(5)
		for i := 0; i < k; i++ {
			m.tktEnc = append(m.tktEnc, names[r.Intn(len(names))])
		}
	}
	nr := r.Intn(5)
	for i := 0; i < nr; i++ {
		// realm names are case sensitive: a name may carry lower case, and two realms may differ in case only
		name := fmt.Sprintf("REALM%d.EXAMPLE.COM", i)
		switch r.Intn(4) {
		case 0:
			name = fmt.Sprintf("Realm%d.Example.Com", i)
		case 1:
			if i > 0 {
				name = strings.ToLower(m.realms[r.Intn(i)].name)
				for _, o := range m.realms {
					if o.name == name {
						name = fmt.Sprintf("realm%d.example.com", i)
					}
				}
			}
		}
		cr := confRealm{name: name, nested: r.Intn(3) == 0, v4: r.Intn(5) == 0}
		srv := func(n int, port string) []string {
			var out []string
			k := r.Intn(n + 1)
			final := -1
			if k > 1 && r.Intn(3) == 0 {
				final = r.Intn(k)
			}
			for j := 0; j < k; j++ {
				h := fmt.Sprintf("srv%d.realm%d.example.com", j, i)
				switch r.Intn(3) {
				case 0:
					h += ":" + port
				case 1:
					h += ":" + fmt.Sprint(1000+r.Intn(9000))
				}
				if j == final {
					h += "*"
				}
				out = append(out, h)
			}
			return out
		}
		cr.kdc = srv(4, "88")
		cr.admin = srv(4, "749")
		cr.kpasswd = srv(2, "464")
		cr.master = srv(2, "88")
		// admin/kpasswd/master values are stored as written: give them a port always
		for _, l := range []*[]string{&cr.admin, &cr.kpasswd, &cr.master} {
			for j, x := range *l {
				if !strings.Contains(x, ":") {
					star := strings.HasSuffix(x, "*")
					x = strings.TrimSuffix(x, "*") + ":7777"
					if star {
						x += "*"
					}
					(*l)[j] = x
				}
			}
		}
		if r.Bool() {
			cr.dd = fmt.Sprintf("realm%d.example.com", i)
		}
		m.realms = append(m.realms, cr)
	}
	nm := r.Intn(9)
	for i := 0; i < nm; i++ {
		d := []string{".example.com", "example.com", ".b.example.com", "host.example.com", ".c", "a.b.c", ".test.gokrb5", ".x.y.z.example.com"}[r.Intn(8)]
		dup := false
		for _, e := range m.mappings {
			if e[0] == d {
				dup = true
			}
		}
		if !dup {
			m.mappings = append(m.mappings, [2]string{d, fmt.Sprintf("MAPPED%d.REALM", i)})
		}
	}
	return m
}

// expected server list after applying the final-value marker and the kdc port default
func expectServers(vals []string, kdc bool) []string {
	var out []string
	for _, v := range vals {
		final := strings.HasSuffix(v, "*")
		v = strings.TrimSuffix(v, "*")
		if kdc && !strings.Contains(v, ":") {
			v += ":88"
		}
		out = append(out, v)
		if final {
			break
		}
	}
	return out
}

func TestC16(t *testing.T) {
	m := StartModel(t)
	defer m.Close()
	v := NewVerdict("C16", "configuration models (every libdefaults boolean with every accepted spelling, durations in the four MIT formats, integers, enctype lists, 0..4 realms with 0..4 servers of each kind, port defaults, final-value markers, nested blocks and v4 blocks, unknown relations and sections, 0..8 domain mappings) rendered with randomised layout (indentation, spacing around '=', blank lines, # and ; comment lines, key case, section order) and loaded by config.NewFromString; structurally invalid files; realm blocks as line-feature sequences vs the Lean model of Realm.parseLines; every hostname over labels {a,b,c} up to depth 3 (5 in thorough) against mapping subsets vs the Lean model of ResolveRealm; GetKDCs multiset. distinct = per family descriptor")
	rng := NewRNG(Seed())
	n := 400
	if Thorough() {
		n = 15000
	}
	for i := 0; i < n; i++ {
		c16File(v, rng, i)
	}
	c16Invalid(v)
	c16Booleans(v)
	c16Durations(v, rng)
	c16DurationsHMS(m, v, rng)
	c16Enctypes(v)
	c16RealmLines(m, v, rng)
	c16RealmsSection(m, v, rng)
	c16Resolve(m, v, rng)
	v.ModelAsks = m.N
	v.Write(t)
}

func eqStrs(a, b []string) bool {
	if len(a) != len(b) {
		return false
	}
	for i := range a {
		if a[i] != b[i] {
			return false
		}
	}
	return true
}

func c16File(v *Verdict, rng *RNG, idx int) {
	mdl := genConfModel(rng)
	text := mdl.render(layout{rng})
	var cfg *config.Config
	var err error
	pan := Protect(func() { cfg, err = config.NewFromString(text) })
	shape := fmt.Sprintf("file/r%d/m%d/b%d/d%d", len(mdl.realms), len(mdl.mappings), len(mdl.bools), len(mdl.durs))
	v.Case(shape+fmt.Sprint(idx%50), "file")
	if idx == 0 {
		v.Sample(text)
	}
	fail := func(sig, what, detail string) {
		v.Violate("failing-input", "c16:"+sig, what, map[string]string{"file": text, "detail": detail})
	}
	if pan != "" {
		fail("load-panic", "config.NewFromString panicked on a file using documented syntax", pan)
		return
	}
	if _, unsupported := err.(config.UnsupportedDirective); err != nil && !unsupported {
		fail("load-error", "a file using documented syntax is rejected", err.Error())
		return
	}
	ld := cfg.LibDefaults
	gotB := map[string]bool{"allow_weak_crypto": ld.AllowWeakCrypto, "canonicalize": ld.Canonicalize, "dns_canonicalize_hostname": ld.DNSCanonicalizeHostname, "dns_lookup_kdc": ld.DNSLookupKDC, "dns_lookup_realm": ld.DNSLookupRealm, "forwardable": ld.Forwardable, "ignore_acceptor_hostname": ld.IgnoreAcceptorHostname, "k5login_authoritative": ld.K5LoginAuthoritative, "noaddresses": ld.NoAddresses, "proxiable": ld.Proxiable, "rdns": ld.RDNS, "verify_ap_req_nofail": ld.VerifyAPReqNofail}
	for k, want := range mdl.bools {
		if gotB[k] != want {
			fail("bool:"+k, "a libdefaults boolean does not hold the documented value", fmt.Sprintf("%s: got %v want %v", k, gotB[k], want))
			return
		}
	}
	gotD := map[string]time.Duration{"clockskew": ld.Clockskew, "renew_lifetime": ld.RenewLifetime, "ticket_lifetime": ld.TicketLifetime}
	for k, want := range mdl.durs {
		if gotD[k] != want {
			fail("duration:"+k, "a libdefaults duration does not hold the documented value", fmt.Sprintf("%s: got %v want %v", k, gotD[k], want))
			return
		}
	}
	gotI := map[string]int{"udp_preference_limit": ld.UDPPreferenceLimit, "ccache_type": ld.CCacheType, "kdc_timesync": ld.KDCTimeSync}
	for k, want := range mdl.ints {
		if gotI[k] != want {
			fail("int:"+k, "a libdefaults integer does not hold the documented value", fmt.Sprintf("%s: got %v want %v", k, gotI[k], want))
			return
		}
	}
	if ld.DefaultRealm != mdl.strs["default_realm"] {
		fail("default_realm", "default_realm not loaded", ld.DefaultRealm)
		return
	}
	if mdl.tktEnc != nil {
		weak := map[string]bool{}
		for _, w := range strings.Fields(config.WeakETypeList) {
			weak[w] = true
		}
		var want []int32
		for _, n := range mdl.tktEnc {
			if id := enctypeNames[n]; id != 0 && (mdl.bools["allow_weak_crypto"] || !weak[n]) {
				want = append(want, id)
			}
		}
		for which, got := range map[string][]int32{"default_tkt_enctypes": ld.DefaultTktEnctypeIDs, "default_tgs_enctypes": ld.DefaultTGSEnctypeIDs, "permitted_enctypes": ld.PermittedEnctypeIDs} {
			if fmt.Sprint(got) != fmt.Sprint(want) && !(len(want) == 0 && len(got) == 0) {
				fail("enctypes", which+" does not hold the documented enctypes", fmt.Sprintf("%v: got %v want %v", mdl.tktEnc, got, want))
				return
			}
		}
	}
	if len(cfg.Realms) != len(mdl.realms) {
		fail("realm-count", "number of realms differs", fmt.Sprintf("got %d want %d", len(cfg.Realms), len(mdl.realms)))
		return
	}
	for i, r := range mdl.realms {
		g := cfg.Realms[i]
		wantK := expectServers(r.kdc, true)
		wantA := expectServers(r.admin, false)
		wantP := expectServers(r.kpasswd, false)
		if len(r.kpasswd) == 0 {
			wantP = nil
			for _, a := range wantA {
				wantP = append(wantP, strings.Split(a, ":")[0]+":464")
			}
		}
		wantM := expectServers(r.master, false)
		if g.Realm != r.name || !eqStrs(g.KDC, wantK) || !eqStrs(g.AdminServer, wantA) || !eqStrs(g.KPasswdServer, wantP) || !eqStrs(g.MasterKDC, wantM) || g.DefaultDomain != r.dd {
			kind := "servers"
			if r.nested {
				kind = "servers-with-nested-block"
			}
			if r.v4 {
				kind = "servers-with-v4-block"
			}
			fail("realm:"+kind, "a realm's server lists do not hold the documented values", fmt.Sprintf("realm %s: got kdc=%v admin=%v kpasswd=%v master=%v dd=%q; want kdc=%v admin=%v kpasswd=%v master=%v dd=%q", r.name, g.KDC, g.AdminServer, g.KPasswdServer, g.MasterKDC, g.DefaultDomain, wantK, wantA, wantP, wantM, r.dd))
			return
		}
		// KDC lookup: each configured server exactly once
		if len(wantK) > 0 {
			// ... on every call, not only the first one, and the configuration stays as loaded
			for call := 1; call <= 4; call++ {
				cnt, kdcs, err := cfg.GetKDCs(r.name, false)
				var got []string
				for i := 1; i <= len(kdcs); i++ {
					got = append(got, kdcs[i])
				}
				sort.Strings(got)
				w := append([]string{}, wantK...)
				sort.Strings(w)
				if err != nil || cnt != len(wantK) || !eqStrs(got, w) {
					fail("getkdcs", "GetKDCs does not return each configured server exactly once", fmt.Sprintf("call %d: got %v want %v err %v", call, got, w, err))
					return
				}
				if g2 := cfg.Realms[i]; !eqStrs(g2.KDC, wantK) {
					fail("getkdcs-config", "GetKDCs changed the configured server list", fmt.Sprintf("call %d: configuration now holds %v, loaded %v", call, g2.KDC, wantK))
					return
				}
			}
		}
	}
	if len(cfg.DomainRealm) != len(mdl.mappings) {
		fail("mapping-count", "number of domain mappings differs", "")
		return
	}
	for _, mp := range mdl.mappings {
		if cfg.DomainRealm[mp[0]] != mp[1] {
			fail("mapping", "a domain mapping does not hold the documented value", mp[0])
			return
		}
	}
}

func c16Invalid(v *Verdict) {
	bad := map[string]string{
		"unbalanced-close":  "[realms]\n A.B = {\n kdc = k\n }\n }\n",
		"unbalanced-open":   "[libdefaults]\n default_realm = A\n[realms]\n A.B = {\n kdc = k\n",
		"realm-line-no-eq":  "[realms]\n A.B = {\n kdc\n }\n",
		"libdefaults-no-eq": "[libdefaults]\n default_realm\n",
		"domain-no-eq":      "[domain_realm]\n .example.com EXAMPLE.COM\n",
		"bad-boolean":       "[libdefaults]\n forwardable = maybe\n",
		"bad-duration":      "[libdefaults]\n ticket_lifetime = tomorrow\n",
		"realm-open-no-eq":  "[realms]\n A.B {\n kdc = k\n }\n",
		"nested-unbalanced": "[realms]\n A.B = {\n x = {\n kdc = k\n }\n",
	}
	for name, text := range bad {
		var err error
		pan := Protect(func() { _, err = config.NewFromString(text) })
		v.Case("invalid/"+name, "invalid file")
		if pan != "" {
			v.Violate("failing-input", "c16:invalid-panic:"+name, "a structurally invalid file makes the loader panic", map[string]string{"file": text, "panic": pan})
		} else if err == nil {
			v.Violate("failing-input", "c16:invalid-accepted:"+name, "a structurally invalid file is accepted without error", map[string]string{"file": text})
		}
	}
}

func c16Booleans(v *Verdict) {
	for _, k := range boolKeys {
		for _, sp := range append(append([]string{}, trueSpellings...), falseSpellings...) {
			want := false
			for _, t := range trueSpellings {
				if t == sp {
					want = true
				}
			}
			// start from the opposite default where possible by loading twice is not needed: compare with the model
			cfg, err := config.NewFromString("[libdefaults]\n " + k + " = " + sp + "\n")
			v.Case("bool/"+k+"/"+sp, "boolean spelling")
			if err != nil {
				v.Violate("failing-input", "c16:bool-spelling:"+sp, "an accepted boolean spelling is rejected", map[string]string{"key": k, "spelling": sp})
				continue
			}
			ld := cfg.LibDefaults
			got := map[string]bool{"allow_weak_crypto": ld.AllowWeakCrypto, "canonicalize": ld.Canonicalize, "dns_canonicalize_hostname": ld.DNSCanonicalizeHostname, "dns_lookup_kdc": ld.DNSLookupKDC, "dns_lookup_realm": ld.DNSLookupRealm, "forwardable": ld.Forwardable, "ignore_acceptor_hostname": ld.IgnoreAcceptorHostname, "k5login_authoritative": ld.K5LoginAuthoritative, "noaddresses": ld.NoAddresses, "proxiable": ld.Proxiable, "rdns": ld.RDNS, "verify_ap_req_nofail": ld.VerifyAPReqNofail}[k]
			if got != want {
				v.Violate("failing-input", "c16:bool-value:"+k, "a boolean relation does not hold the value spelled", map[string]string{"key": k, "spelling": sp})
			}
		}
	}
}

func c16Durations(v *Verdict, rng *RNG) {
	vals := []int{1, 59, 60, 61, 3599, 3600, 3661, 86399, 86400, 90061, 604800, 2592000}
	for i := 0; i < 200; i++ {
		vals = append(vals, 1+rng.Intn(3000000))
	}
	for _, s := range vals {
		for f := 0; f < 4; f++ {
			d := time.Duration(s) * time.Second
			txt := renderDur(d, f)
			if f == 1 && s/3600 > 32767 {
				continue
			}
			cfg, err := config.NewFromString("[libdefaults]\n ticket_lifetime = " + txt + "\n")
			v.Case(fmt.Sprintf("dur/%d/%d", f, s), fmt.Sprintf("duration format %d", f))
			if err != nil || cfg.LibDefaults.TicketLifetime != d {
				got := "error"
				if err == nil {
					got = cfg.LibDefaults.TicketLifetime.String()
				}
				v.Violate("failing-input", fmt.Sprintf("c16:duration-format-%d", f), "a duration in a documented format does not load with the documented value", map[string]string{"text": txt, "want": d.String(), "got": got})
			}
		}
	}
}

// the h:m[:s] form against the Lean model hmsSeconds (theorems hms_canonical, hms_two_parts, hms_arity,
// hms_range): 2..4 parts, each from the edges of the 16-bit range and of the sexagesimal digits, or random
func c16DurationsHMS(m *Model, v *Verdict, rng *RNG) {
	n := 300
	if Thorough() {
		n = 6000
	}
	edges := []int{0, 1, 9, 10, 59, 60, 61, 99, 100, 3600, -1, -59, 32766, 32767, 32768, -32767, -32768, -32769, 65535, 65536, 100000}
	for i := 0; i < n; i++ {
		np := 2 + rng.Intn(3)
		if i%10 == 0 {
			np = 3
		}
		var parts []string
		for j := 0; j < np; j++ {
			x := edges[rng.Intn(len(edges))]
			switch rng.Intn(4) {
			case 0:
				x = rng.Intn(60)
			case 1:
				x = rng.Intn(40000) - 2000
			}
			parts = append(parts, itoa(x))
		}
		txt := strings.Join(parts, ":")
		v.Case("hms/"+txt, fmt.Sprintf("h:m:s form with %d parts", np))
		cfg, err := config.NewFromString("[libdefaults]\n ticket_lifetime = " + txt + "\n")
		g := "err"
		if err == nil {
			d := cfg.LibDefaults.TicketLifetime
			if d%time.Second != 0 {
				g = "ok " + d.String()
			} else {
				g = "ok " + fmt.Sprint(int64(d/time.Second))
			}
		}
		mo := m.Ask("conf.hms " + strings.Join(parts, " "))
		if mo != g {
			v.Violate("correspondence", "c16:duration-hms-model", "parseDuration and its Lean model disagree on an h:m[:s] value", map[string]string{"text": txt, "go": g, "model": mo})
		}
	}
}

func c16Enctypes(v *Verdict) {
	// the MIT documentation lists these names; des3-cbc-sha1 and des3-hmac-sha1 are names of enctype 16
	mit := map[string]int32{"des3-cbc-sha1": 16, "des3-hmac-sha1": 16, "des3-cbc-sha1-kd": 16}
	for n, id := range enctypeNames {
		mit[n] = id
	}
	for name, id := range mit {
		cfg, err := config.NewFromString("[libdefaults]\n allow_weak_crypto = true\n default_tkt_enctypes = " + name + "\n")
		v.Case("enctype/"+name, "enctype name")
		var got []int32
		if err == nil {
			got = cfg.LibDefaults.DefaultTktEnctypeIDs
		}
		want := []int32{}
		if id != 0 {
			want = []int32{id}
		}
		if err != nil || fmt.Sprint(got) != fmt.Sprint(want) && !(len(got) == 0 && len(want) == 0) {
			v.Violate("failing-input", "c16:enctype-name:"+name, "an enctype name the MIT documentation lists does not select the enctype it names", map[string]string{"name": name, "got": fmt.Sprint(got), "want": fmt.Sprint(want)})
		}
	}
}

// ---- realm block line sequences vs the Lean model ----

func lineFeatures(raw string) string {
	line := raw
	if idx := strings.IndexAny(line, "#;"); idx != -1 {
		line = line[:idx]
	}
	line = strings.TrimSpace(line)
	if line == "" {
		return "b"
	}
	f := func(b bool) string {
		if b {
			return "1"
		}
		return "0"
	}
	key, val := "other", ""
	if strings.Contains(line, "=") {
		p := strings.Split(line, "=")
		k := strings.TrimSpace(strings.ToLower(p[0]))
		val = strings.TrimSpace(p[1])
		switch k {
		case "admin_server":
			key = "admin"
		case "default_domain":
			key = "dd"
		case "kdc":
			key = "kdc"
		case "kpasswd_server":
			key = "kpasswd"
		case "master_kdc":
			key = "master"
		}
	}
	return f(strings.Contains(line, "=")) + f(strings.Contains(line, "{")) + f(strings.Contains(line, "}")) + f(strings.Contains(line, "v4_")) + ":" + key + ":" + XS(val)
}

func c16RealmLines(m *Model, v *Verdict, rng *RNG) {
	alphabet := []string{
		"kdc = k1.example.com", "kdc = k2.example.com:750", "kdc = k3.example.com*", "kdc = k4 *", "KDC = k5.example.com",
		"admin_server = adm1.example.com:749", "admin_server = adm2.example.com", "admin_server = adm3.example.com:749*",
		"kpasswd_server = kp.example.com:464", "master_kdc = m.example.com:88", "default_domain = example.com",
		"auth_to_local_names = {", "other = {", "}", "someuser = localuser", "v4_instance_convert = {", "v4_realm = OLD",
		"", "   ", "# comment", "unknown = value", "kdc =", "nonsense",
		// single-line relations whose value holds both brackets: they open and close nothing
		"auth_to_local = RULE:[2:$1](^.*{3}$)s/@.*//", "pkinit_identities = FILE:/etc/pki/%{username}.pem", "kdc = k{6}.example.com",
		"admin_server = }adm{.example.com",
	}
	n := 1500
	if Thorough() {
		n = 40000
	}
	for i := 0; i < n; i++ {
		l := 1 + rng.Intn(9)
		var lines []string
		depth := 0
		for j := 0; j < l; j++ {
			a := alphabet[rng.Intn(len(alphabet))]
			// keep most sequences balanced so that the interesting paths are reached
			if a == "}" && depth == 0 && rng.Intn(4) != 0 {
				continue
			}
			if strings.Contains(a, "{") {
				depth++
			}
			if a == "}" && depth > 0 {
				depth--
			}
			lines = append(lines, a)
		}
		for ; depth > 0 && rng.Intn(5) != 0; depth-- {
			lines = append(lines, "}")
		}
		text := "[realms]\n R.X = {\n" + strings.Join(lines, "\n") + "\n}\n"
		var cfg *config.Config
		var err error
		pan := Protect(func() { cfg, err = config.NewFromString(text) })
		var toks []string
		for _, ln := range lines {
			toks = append(toks, lineFeatures(ln))
		}
		mo := m.Ask("conf.realm " + strings.Join(toks, " "))
		v.Case("lines/"+strings.Join(toks, " "), "realm lines")
		goRes := ""
		_, unsupported := err.(config.UnsupportedDirective)
		switch {
		case pan != "":
			goRes = "panic"
		case err != nil && !unsupported:
			goRes = "err"
		case len(cfg.Realms) != 1:
			goRes = "err" // the outer block did not close where the model's lines end (unbalanced): file-level matter
		default:
			r := cfg.Realms[0]
			h := func(l []string) string {
				x := make([]string, len(l))
				for i, s := range l {
					x[i] = XS(s)
				}
				return List(x)
			}
			goRes = fmt.Sprintf("ok admin=%s kdc=%s kpasswd=%s master=%s dd=%s", h(r.AdminServer), h(r.KDC), h(r.KPasswdServer), h(r.MasterKDC), XS(r.DefaultDomain))
		}
		mc := mo
		if strings.HasPrefix(mc, "err") {
			mc = "err"
		}
		if goRes == "panic" {
			v.Violate("failing-input", "c16:realm-lines-panic", "the realm block parser panicked", map[string]string{"file": text, "panic": pan})
			continue
		}
		// unbalanced inner sequences change where the outer block ends: only compare balanced ones
		bal := 0
		okBal := true
		for _, ln := range lines {
			s := ln
			if idx := strings.IndexAny(s, "#;"); idx != -1 {
				s = s[:idx]
			}
			if strings.Contains(s, "{") {
				bal++
			}
			if strings.Contains(s, "}") {
				bal--
			}
			if bal < 0 {
				okBal = false
			}
		}
		if bal != 0 {
			okBal = false
		}
		if okBal && goRes != mc {
			v.Violate("correspondence", "c16:realm-lines-model", "Realm.parseLines and its Lean model disagree", map[string]string{"file": text, "go": goRes, "model": mo})
		}
	}
}

// ---- the [realms] section as a whole: splitting into realm blocks, then each block ----

func outerFeatures(raw string) string {
	l := raw
	if idx := strings.IndexAny(l, "#;"); idx != -1 {
		l = l[:idx]
	}
	l = strings.TrimSpace(l)
	f := func(b bool) string {
		if b {
			return "1"
		}
		return "0"
	}
	name := strings.TrimSpace(strings.Split(l, "=")[0])
	return f(l == "") + f(strings.Contains(l, "{")) + f(strings.Contains(l, "=")) + f(strings.Contains(l, "}")) + "/" + XS(name) + "/" + lineFeatures(raw)
}

func c16RealmsSection(m *Model, v *Verdict, rng *RNG) {
	alphabet := []string{
		"A.REALM = {", "B.REALM={", " C.REALM = {   ", "EMPTY.REALM = { }", "ONE.LINE = { kdc = inline.example.com }", "}", "}", "}", " } ",
		"kdc = k1.example.com", "kdc = k2.example.com:750*", "admin_server = adm.example.com", "default_domain = example.com",
		"auth_to_local_names = {", "v4_instance_convert = {", "v4_realm = OLD", "someuser = localuser", "", "  ", "nonsense", "{", "= {",
		"pkinit_identities = FILE:/etc/pki/%{username}.pem", "admin_server = }adm{.example.com", "kdc = k3.example.com ; trailing comment",
	}
	n := 1500
	if Thorough() {
		n = 40000
	}
	for i := 0; i < n; i++ {
		var lines []string
		depth := 0
		for j, l := 0, 1+rng.Intn(12); j < l; j++ {
			a := alphabet[rng.Intn(len(alphabet))]
			// steer most sequences towards well-formed sections so that the deep paths are reached
			opens, closes := strings.Contains(a, "{"), strings.Contains(a, "}")
			if rng.Intn(5) != 0 {
				if depth == 0 && !opens {
					continue
				}
				if closes && !opens && depth == 0 {
					continue
				}
			}
			if opens {
				depth++
			}
			if closes && depth > 0 {
				depth--
			}
			lines = append(lines, a)
		}
		for ; depth > 0 && rng.Intn(6) != 0; depth-- {
			lines = append(lines, "}")
		}
		text := "[realms]\n" + strings.Join(lines, "\n") + "\n"
		var cfg *config.Config
		var err error
		pan := Protect(func() { cfg, err = config.NewFromString(text) })
		var toks []string
		for _, ln := range lines {
			toks = append(toks, outerFeatures(ln))
		}
		mo := m.Ask("conf.realms 1 " + strings.Join(toks, " "))
		v.Case("section/"+strings.Join(toks, " "), "realms section -> "+strings.Fields(mo + " -")[0])
		if pan != "" {
			v.Violate("failing-input", "c16:realms-section-panic", "the [realms] section parser panicked", map[string]string{"file": text, "panic": pan})
			continue
		}
		_, unsupported := err.(config.UnsupportedDirective)
		goRes := ""
		switch {
		case err != nil && !unsupported:
			goRes = "err"
		default:
			h := func(l []string) string {
				x := make([]string, len(l))
				for i, s := range l {
					x[i] = XS(s)
				}
				return List(x)
			}
			var rs []string
			for _, r := range cfg.Realms {
				rs = append(rs, fmt.Sprintf("%s admin=%s kdc=%s kpasswd=%s master=%s dd=%s", XS(r.Realm), h(r.AdminServer), h(r.KDC), h(r.KPasswdServer), h(r.MasterKDC), XS(r.DefaultDomain)))
			}
			goRes = "ok "
			if unsupported {
				goRes += "unsupported "
			}
			goRes += strings.Join(rs, " | ")
		}
		mc := mo
		if strings.HasPrefix(mc, "err") {
			mc = "err"
		}
		if i == 0 {
			v.Sample("conf.realms " + strings.Join(toks, " ") + " -> " + cut(mo, 200))
		}
		if strings.TrimSpace(goRes) != strings.TrimSpace(mc) {
			v.Violate("correspondence", "c16:realms-section-model", "parseRealms and its Lean model disagree", map[string]string{"file": text, "go": goRes, "model": mo})
		}
	}
}

// ---- host-to-realm resolution ----

func c16Resolve(m *Model, v *Verdict, rng *RNG) {
	depth := 3
	if Thorough() {
		depth = 5
	}
	var hosts []string
	var rec func(prefix string, d int)
	rec = func(prefix string, d int) {
		if prefix != "" {
			hosts = append(hosts, prefix)
		}
		if d == depth {
			return
		}
		for _, l := range []string{"a", "b", "c"} {
			if prefix == "" {
				rec(l, d+1)
			} else {
				rec(l+"."+prefix, d+1)
			}
		}
	}
	rec("", 0)
	cands := [][2]string{{".c", "R1"}, {".b.c", "R2"}, {".a.b.c", "R3"}, {"a.b.c", "R4"}, {"b.c", "R5"}, {".a", "R6"}, {".c.b.c", "R7"}, {"c", "R8"}}
	subsets := 24
	if Thorough() {
		subsets = 256
	}
	for si := 0; si < subsets; si++ {
		mask := si
		if !Thorough() {
			mask = rng.Intn(256)
		}
		cfg := config.New()
		var toks []string
		for i, c := range cands {
			if mask&(1<<uint(i)) != 0 {
				cfg.DomainRealm[c[0]] = c[1]
				if strings.HasPrefix(c[0], ".") {
					toks = append(toks, "d"+X([]byte(c[0][1:]))[1:]+"="+X([]byte(c[1]))[1:])
				} else {
					toks = append(toks, "x"+X([]byte(c[0]))[1:]+"="+X([]byte(c[1]))[1:])
				}
			}
		}
		for _, h := range hosts {
			got := cfg.ResolveRealm(h)
			// property oracle: exact host mapping first, else the longest domain suffix with a mapping
			want := ""
			if r, ok := cfg.DomainRealm[h]; ok {
				want = r
			} else {
				parts := strings.Split(h, ".")
				for i := 1; i < len(parts); i++ {
					if r, ok := cfg.DomainRealm["."+strings.Join(parts[i:], ".")]; ok {
						want = r
						break
					}
				}
			}
			v.Case(fmt.Sprintf("resolve/%d/%s", mask, h), "resolve")
			// the same name written with the root dot at its end is the same host
			if gotDot := cfg.ResolveRealm(h + "."); gotDot != want {
				v.Violate("failing-input", "c16:resolve-root-dot", "a host name written with the trailing root dot does not resolve like the same name without it", map[string]string{"host": h + ".", "mask": itoa(mask), "got": gotDot, "want": want})
				continue
			}
			if got != want {
				v.Violate("failing-input", "c16:resolve", "host-to-realm resolution does not return the most specific matching mapping", map[string]string{"host": h, "mask": itoa(mask), "got": got, "want": want})
				continue
			}
			if (si+len(h))%3 == 0 || Thorough() {
				mo := m.Ask("conf.resolve " + XS(h) + " " + strings.Join(toks, " "))
				if mo != "ok "+XS(got) {
					v.Violate("correspondence", "c16:resolve-model", "ResolveRealm and its Lean model disagree", map[string]string{"host": h, "mappings": strings.Join(toks, " "), "go": got, "model": mo})
				}
			}
			// trailing dot form
			if cfg.ResolveRealm(h+".") != want {
				v.Violate("failing-input", "c16:resolve-trailing-dot", "a fully qualified name with a trailing dot resolves differently", map[string]string{"host": h})
			}
		}
	}
}
