package harness

import (
	"bytes"
	"encoding/binary"
	"fmt"
	"github.com/jcmturner/gokrb5/v8/pac"
	"strings"
	"sync"
	"time"

	"github.com/jcmturner/gofork/encoding/asn1"
	"github.com/jcmturner/gokrb5/v8/asn1tools"
	"github.com/jcmturner/gokrb5/v8/crypto"
	"github.com/jcmturner/gokrb5/v8/keytab"
	"github.com/jcmturner/gokrb5/v8/messages"
	"github.com/jcmturner/gokrb5/v8/types"
)

// ---- a keytab with several principals x realms x etypes x key versions, pairwise distinct keys ----

var (
	svcKeytabOnce sync.Once
	svcKeytab     *keytab.Keytab
	svcKeytabToks string
)

var svcPrincipals = []string{"HTTP/host.test.gokrb5", "HTTP/other.test.gokrb5", "host/host.test.gokrb5", "krbtgt/TEST.GOKRB5", "HTTP"}
var svcRealms = []string{"TEST.GOKRB5", "OTHER.REALM"}

func serviceKeytab() (*keytab.Keytab, string) {
	svcKeytabOnce.Do(func() {
		kt := keytab.New()
		r := NewRNG(4242)
		for _, p := range svcPrincipals {
			for _, realm := range svcRealms {
				for _, et := range allEtypes {
					for kvno := 1; kvno <= 2; kvno++ {
						pw := fmt.Sprintf("pw-%s-%s-%d-%d", p, realm, et, kvno)
						ts := time.Unix(int64(1500000000+r.Intn(1000000)), 0)
						if err := kt.AddEntry(p, realm, pw, ts, uint8(kvno), et); err != nil {
							panic(err)
						}
					}
				}
			}
		}
		svcKeytab = kt
		svcKeytabToks = ktToks(goKtEntries(kt))
	})
	return svcKeytab, svcKeytabToks
}

// apCase describes one AP-REQ to mint: a valid request plus any number of defects.
type apCase struct {
	et     int32
	realm  string
	sname  []string
	kvno   int
	cname  []string
	cnt    int32 // cname name type
	crealm string

	// ticket defects
	wrongKey      bool   // encrypt the ticket under a key that is not in the keytab
	otherKvnoKey  bool   // encrypt under the key of the other key version but label it with kvno
	tktEtype      int32  // etype field of the ticket's EncryptedData (0 = as it should be)
	tktRealm      string // realm field of the ticket ("" = realm)
	tktSName      []string
	tktKvno       int // -1 = as it should be; 0 = absent
	invalid       bool
	clearCaddr    []types.HostAddress // ... with this address list instead of the sealed one
	clearAppended bool                // the EncTicketPart appended in the clear to the ticket (see mintAPReq)
	renewable     bool                // RENEWABLE flag set (renew-till is a day ahead in every case)
	startOff      time.Duration       // starttime = now + startOff (noStart: absent)
	noStart       bool
	endOff        time.Duration
	startYears    int // starttime / endtime moved by whole years (beyond what a Duration can express)
	endYears      int
	caddr         []types.HostAddress
	pac           string // "", "valid", "badsig", "malformed"
	flipTkt       int    // flip this bit of the ticket ciphertext (-1 none)
	truncTkt      int    // drop this many bytes from the end of the ticket ciphertext

	// authenticator defects
	aCname     []string
	aCnt       int32
	frac       time.Duration // the service's clock stands this far into a second when the request arrives
	aCrealm    string
	ctimeOff   time.Duration // ctime+cusec = now + ctimeOff
	ctimeYears int           // ... plus this many years (beyond what a Duration can express)
	authUsage  uint32        // 0 = the right one
	flipAuth   int
	truncAuth  int
	authKey    []byte // encrypt the authenticator under this key instead of the session key

	// service settings
	skew       time.Duration
	reqHost    bool
	clientAddr *types.HostAddress
	override   string
	decodePAC  bool

	// a replay that differs from the first presentation in the unprotected part of the request: the service
	// name written in the ticket (nil = byte-identical replay)
	replayAs []string
}

func baseCase(et int32) apCase {
	return apCase{et: et, realm: "TEST.GOKRB5", sname: []string{"HTTP", "host.test.gokrb5"}, kvno: 1,
		cname: []string{"testuser1"}, cnt: 1, crealm: "TEST.GOKRB5", tktKvno: -1, endOff: 8 * time.Hour, startOff: -time.Minute,
		flipTkt: -1, flipAuth: -1, aCnt: 1, skew: 5 * time.Minute, decodePAC: true}
}

func (c apCase) describe() string {
	d := baseCase(c.et)
	var parts []string
	add := func(cond bool, s string) {
		if cond {
			parts = append(parts, s)
		}
	}
	add(c.wrongKey, "wrongkey")
	add(c.otherKvnoKey, "otherkvnokey")
	add(c.tktEtype != 0, fmt.Sprintf("tktetype=%d", c.tktEtype))
	add(c.tktRealm != "", "tktrealm="+c.tktRealm)
	add(c.crealm != d.crealm && len(c.cname) > 0, "crealm="+c.crealm)
	add(c.tktSName != nil, "tktsname="+strings.Join(c.tktSName, "/"))
	add(c.tktKvno != -1, fmt.Sprintf("tktkvno=%d", c.tktKvno))
	add(c.invalid, "invalid")
	add(c.clearAppended, "cleartext-encticketpart-appended")
	add(c.clearCaddr != nil, "cleartext-caddr")
	add(c.renewable, "renewable")
	add(c.noStart, "nostart")
	add(c.startOff != d.startOff, fmt.Sprintf("start=%v", c.startOff))
	add(c.endOff != d.endOff, fmt.Sprintf("end=%v", c.endOff))
	add(len(c.caddr) > 0, fmt.Sprintf("caddr=%d", len(c.caddr)))
	add(c.pac != "", "pac="+c.pac)
	add(c.flipTkt >= 0, "fliptkt")
	add(c.truncTkt > 0, "trunctkt")
	add(c.aCname != nil, "acname="+strings.Join(c.aCname, "/"))
	add(c.aCnt != c.cnt, "acnametype")
	add(c.frac != 0, fmt.Sprintf("clock+%v", c.frac))
	add(c.aCrealm != "", "acrealm="+c.aCrealm)
	add(c.ctimeOff != 0, fmt.Sprintf("ctime=%v", c.ctimeOff))
	add(c.ctimeYears != 0, fmt.Sprintf("ctime=%+dy", c.ctimeYears))
	add(c.startYears != 0, fmt.Sprintf("start=%+dy", c.startYears))
	add(c.endYears != 0, fmt.Sprintf("end=%+dy", c.endYears))
	add(c.authUsage != 0, fmt.Sprintf("authusage=%d", c.authUsage))
	add(c.flipAuth >= 0, "flipauth")
	add(c.truncAuth > 0, "truncauth")
	add(c.authKey != nil, "authkey")
	add(c.replayAs != nil, "replay-as="+strings.Join(c.replayAs, "/"))
	add(strings.Join(c.sname, "/") != strings.Join(d.sname, "/"), "sname="+strings.Join(c.sname, "/"))
	add(strings.Join(c.cname, "/") != strings.Join(d.cname, "/"), "cname="+strings.Join(c.cname, "/"))
	add(c.kvno != 1, fmt.Sprintf("kvno=%d", c.kvno))
	add(c.skew != d.skew, fmt.Sprintf("skew=%v", c.skew))
	add(c.reqHost, "reqhost")
	add(c.clientAddr != nil, "clientaddr")
	add(c.override != "", "override="+c.override)
	add(!c.decodePAC, "nopac")
	if len(parts) == 0 {
		return "valid"
	}
	return strings.Join(parts, ",")
}

func pacSigTypeFor(et int32) uint32 {
	switch et {
	case 17:
		return 15
	case 18:
		return 16
	case 19:
		return 19
	case 20:
		return 20
	case 23:
		return 4294967158
	}
	return 0
}

// mintAPReq builds the request with the real library's types and crypto. now is the clock the request
// is minted against. m is used to sign the PAC (independent signer).
func mintAPReq(m *Model, rng *RNG, c apCase, now time.Time) (messages.APReq, []byte, error) {
	return mintAPReqKey(m, rng, c, now)
}

func mintAPReqKey(m *Model, rng *RNG, c apCase, now time.Time) (messages.APReq, []byte, error) {
	kt, _ := serviceKeytab()
	var ap messages.APReq
	sessionKey, err := types.GenerateEncryptionKey(mustEtype(c.et))
	if err != nil {
		return ap, nil, err
	}
	sessionKey.KeyValue = randKey(rng, c.et)
	lastMintedSessionKey = append([]byte{}, sessionKey.KeyValue...)
	fl := types.NewKrbFlags()
	types.SetFlag(&fl, 1) // forwardable
	if c.invalid {
		types.SetFlag(&fl, 7)
	}
	if c.renewable {
		types.SetFlag(&fl, 8)
	}
	etp := messages.EncTicketPart{Flags: fl, Key: sessionKey, CRealm: c.crealm,
		CName:    types.PrincipalName{NameType: c.cnt, NameString: c.cname},
		AuthTime: now.Add(-time.Hour).Truncate(time.Second), EndTime: now.Add(c.endOff).AddDate(c.endYears, 0, 0).Truncate(time.Second),
		RenewTill: now.Add(24 * time.Hour).Truncate(time.Second), CAddr: c.caddr}
	if !c.noStart {
		etp.StartTime = now.Add(c.startOff).AddDate(c.startYears, 0, 0).Truncate(time.Second)
	}
	// the long-term key the ticket is encrypted under
	keyName := types.PrincipalName{NameString: c.sname}
	skey, _, err := kt.GetEncryptionKey(keyName, c.realm, c.kvno, c.et)
	if err != nil {
		return ap, nil, fmt.Errorf("no keytab key for the case: %v", err)
	}
	encKey := skey
	if c.otherKvnoKey {
		encKey, _, _ = kt.GetEncryptionKey(keyName, c.realm, 3-c.kvno, c.et)
	}
	if c.wrongKey {
		encKey = types.EncryptionKey{KeyType: c.et, KeyValue: randKey(rng, c.et)}
	}
	if c.pac != "" && pacSigTypeFor(c.et) != 0 {
		sty := pacSigTypeFor(c.et)
		var bufs []pacBuf
		for _, bf := range splitPAC(samplePACs()["win2k"]) {
			switch bf.ty {
			case 6:
				bufs = append(bufs, pacBuf{6, sigBuf(sty, false, rng)})
			case 7:
				bufs = append(bufs, pacBuf{7, sigBuf(sty, false, rng)})
			case 1:
				// the six times of the logon information are made pairwise different (the samples give several of them
				// the same "never" value): each one is reported as what its own field holds
				d := append([]byte{}, bf.data...)
				var k pac.KerbValidationInfo
				if k.Unmarshal(bf.data) == nil {
					lt := make([]byte, 8)
					binary.LittleEndian.PutUint32(lt, k.LogOnTime.LowDateTime)
					binary.LittleEndian.PutUint32(lt[4:], k.LogOnTime.HighDateTime)
					if at := bytes.Index(d, lt); at >= 0 && at+48 <= len(d) && bytes.Index(d[at+1:], lt) < 0 {
						base := binary.LittleEndian.Uint64(lt)
						for j := 1; j <= 5; j++ {
							binary.LittleEndian.PutUint64(d[at+8*j:], base+uint64(j)*36000000000) // + j hours
						}
					}
				}
				bufs = append(bufs, pacBuf{1, d})
			case 10:
				// PAC_CLIENT_INFO names the client in another letter case than the logon information does: what is
				// reported to the application comes from the logon information (KERB_VALIDATION_INFO)
				d := append([]byte{}, bf.data...)
				if len(d) >= 12 && d[10] >= 'a' && d[10] <= 'z' {
					d[10] -= 32
				}
				bufs = append(bufs, pacBuf{10, d})
			default:
				bufs = append(bufs, bf)
			}
		}
		pb, offs, bad := signPAC(m, bufs, skey)
		if bad != "" {
			return ap, nil, fmt.Errorf("pac signing: %s", bad)
		}
		switch strings.TrimSuffix(c.pac, "-second") {
		case "badsig":
			for i, bf := range bufs {
				if bf.ty == 6 {
					pb[offs[i]+5] ^= 0x10
				}
			}
		case "malformed":
			pb[0], pb[1], pb[2], pb[3] = 0xff, 0xff, 0xff, 0x7f
		}
		lastMintedPAC = append([]byte{}, pb...)
		inner, _ := asn1.Marshal(types.AuthorizationData{{ADType: 128, ADData: pb}})
		etp.AuthorizationData = types.AuthorizationData{{ADType: 1, ADData: inner}}
		if strings.HasSuffix(c.pac, "-second") {
			// another AD-IF-RELEVANT element (of a type the service does not know) in front of the one with the PAC
			other, _ := asn1.Marshal(types.AuthorizationData{{ADType: 141, ADData: []byte{1, 2, 3}}})
			etp.AuthorizationData = types.AuthorizationData{{ADType: 1, ADData: other}, {ADType: 1, ADData: inner}}
		}
	}
	eb, err := asn1.Marshal(etp)
	if err != nil {
		return ap, nil, err
	}
	eb = asn1tools.AddASNAppTag(eb, 3)
	kv := c.kvno
	ed, err := crypto.GetEncryptedData(eb, encKey, 2, kv)
	if err != nil {
		return ap, nil, err
	}
	if c.tktKvno >= 0 {
		ed.KVNO = c.tktKvno
	}
	if c.tktEtype != 0 {
		ed.EType = c.tktEtype
	}
	if c.flipTkt >= 0 && len(ed.Cipher) > 0 {
		i := c.flipTkt % (len(ed.Cipher) * 8)
		ed.Cipher = append([]byte{}, ed.Cipher...)
		ed.Cipher[i/8] ^= 1 << uint(i%8)
	}
	if c.truncTkt > 0 && c.truncTkt <= len(ed.Cipher) {
		ed.Cipher = ed.Cipher[:len(ed.Cipher)-c.truncTkt]
	}
	tkt := messages.Ticket{TktVNO: 5, Realm: c.realm, SName: types.PrincipalName{NameType: 2, NameString: c.sname}, EncPart: ed}
	if c.tktRealm != "" {
		tkt.Realm = c.tktRealm
	}
	if c.tktSName != nil {
		tkt.SName.NameString = c.tktSName
	}
	// authenticator
	ct := now.Add(c.ctimeOff).AddDate(c.ctimeYears, 0, 0)
	au := types.Authenticator{AVNO: 5, CRealm: c.crealm, CName: types.PrincipalName{NameType: c.aCnt, NameString: c.cname},
		CTime: ct.Truncate(time.Second), Cusec: int(ct.Sub(ct.Truncate(time.Second)) / time.Microsecond), SeqNumber: int64(1 + rng.Intn(1000000))}
	if c.aCname != nil {
		au.CName.NameString = c.aCname
	}
	if c.aCrealm != "" {
		au.CRealm = c.aCrealm
	}
	ab, err := au.Marshal()
	if err != nil {
		return ap, nil, err
	}
	usage := uint32(11)
	if len(tkt.SName.NameString) > 0 && tkt.SName.NameString[0] == "krbtgt" {
		usage = 7
	}
	if c.authUsage != 0 {
		usage = c.authUsage
	}
	akey := sessionKey
	if c.authKey != nil {
		akey = types.EncryptionKey{KeyType: c.et, KeyValue: c.authKey}
	}
	ea, err := crypto.GetEncryptedData(ab, akey, usage, 0)
	if err != nil {
		return ap, nil, err
	}
	if c.flipAuth >= 0 && len(ea.Cipher) > 0 {
		i := c.flipAuth % (len(ea.Cipher) * 8)
		ea.Cipher = append([]byte{}, ea.Cipher...)
		ea.Cipher[i/8] ^= 1 << uint(i%8)
	}
	if c.truncAuth > 0 && c.truncAuth <= len(ea.Cipher) {
		ea.Cipher = ea.Cipher[:len(ea.Cipher)-c.truncAuth]
	}
	ap = messages.APReq{PVNO: 5, MsgType: 14, APOptions: types.NewKrbFlags(), Ticket: tkt, EncryptedAuthenticator: ea}
	b, err := ap.Marshal()
	lastMintedPlain = b
	if err == nil && c.clearAppended {
		// the EncTicketPart once more, in the clear, as a fifth element of the Ticket SEQUENCE (the decoder fills
		// Ticket.DecryptedEncPart from it: nothing the service may ever rely on)
		etpClear := etp
		if c.clearCaddr != nil {
			etpClear.CAddr = c.clearCaddr
		}
		clear, e1 := asn1.Marshal(etpClear)
		tb, e2 := tkt.Marshal()
		eb2, e3 := ea.Marshal()
		if e1 == nil && e2 == nil && e3 == nil {
			_, app := derSplit(tb)
			_, seq := derSplit(app)
			newTkt := tlv(0x61, tlv(0x30, seq, clear))
			b = tlv(0x6e, tlv(0x30, tlv(0xa0, []byte{2, 1, 5}), tlv(0xa1, []byte{2, 1, 14}), tlv(0xa2, []byte{3, 5, 0, 0, 0, 0, 0}), tlv(0xa3, newTkt), tlv(0xa4, eb2)))
		}
	}
	return ap, b, err
}

// the AP-REQ minted last as it is without anything appended in the clear (what the appended cleartext must not
// change the verdict on: the independent acceptor judges these octets)
var lastMintedPlain []byte

// the session key inside the ticket of the AP-REQ minted last
var lastMintedSessionKey []byte

// the PAC of the AP-REQ minted last (for comparing what the service reports with what the PAC holds)
var lastMintedPAC []byte

// derSplit returns the tag and the contents of the TLV at the start of b (definite lengths)
func derSplit(b []byte) (byte, []byte) {
	if len(b) < 2 {
		return 0, nil
	}
	n, p := int(b[1]), 2
	if b[1] >= 0x80 {
		k := int(b[1] & 0x7f)
		n = 0
		for i := 0; i < k && p < len(b); i++ {
			n = n<<8 | int(b[p])
			p++
		}
	}
	if p+n > len(b) {
		n = len(b) - p
	}
	return b[0], b[p : p+n]
}
