// Package harness is the correspondence side of the verification machinery: it runs the real
// gokrb5 code (built from /repo's current working tree through the `replace` in go.mod) and the
// compiled Lean model `kmodel` on the same inputs and reports where they differ.
package harness

import (
	"bufio"
	"encoding/hex"
	"encoding/json"
	"fmt"
	"io"
	"os"
	"os/exec"
	"sort"
	"strconv"
	"strings"
	"sync"
	"testing"
	"time"
)

// ---------- PRNG: every random choice derives from VERIF_SEED ----------

type RNG struct{ s uint64 }

func NewRNG(seed uint64) *RNG { return &RNG{s: seed*0x9E3779B97F4A7C15 + 0x1234567} }

func (r *RNG) U64() uint64 {
	r.s += 0x9E3779B97F4A7C15
	z := r.s
	z = (z ^ (z >> 30)) * 0xBF58476D1CE4E5B9
	z = (z ^ (z >> 27)) * 0x94D049BB133111EB
	return z ^ (z >> 31)
}
func (r *RNG) Intn(n int) int {
	if n <= 0 {
		return 0
	}
	return int(r.U64() % uint64(n))
}
func (r *RNG) Bool() bool { return r.U64()&1 == 1 }
func (r *RNG) Bytes(n int) []byte {
	b := make([]byte, n)
	for i := range b {
		b[i] = byte(r.U64())
	}
	return b
}
func (r *RNG) Pick(xs ...int) int { return xs[r.Intn(len(xs))] }

// Fork derives an independent stream (for parallel workers) deterministically.
func (r *RNG) Fork() *RNG { return &RNG{s: r.U64()} }

func Seed() uint64 {
	if s := os.Getenv("VERIF_SEED"); s != "" {
		if v, err := strconv.ParseUint(s, 10, 64); err == nil {
			return v
		}
	}
	return 1
}

func Tier() string {
	if t := os.Getenv("VERIF_TIER"); t == "thorough" {
		return "thorough"
	}
	return "quick"
}

func Thorough() bool { return Tier() == "thorough" }

// ---------- the Lean model as a line-oriented co-process ----------

type Model struct {
	mu  sync.Mutex
	cmd *exec.Cmd
	in  io.WriteCloser
	out *bufio.Reader
	N   int
}

func kmodelPath() string {
	if p := os.Getenv("KMODEL"); p != "" {
		return p
	}
	return "/verif/lean/.lake/build/bin/kmodel"
}

func StartModel(t testing.TB) *Model {
	cmd := exec.Command(kmodelPath())
	in, err := cmd.StdinPipe()
	if err != nil {
		t.Fatalf("kmodel stdin: %v", err)
	}
	out, err := cmd.StdoutPipe()
	if err != nil {
		t.Fatalf("kmodel stdout: %v", err)
	}
	cmd.Stderr = os.Stderr
	if err := cmd.Start(); err != nil {
		t.Fatalf("kmodel start: %v", err)
	}
	return &Model{cmd: cmd, in: in, out: bufio.NewReaderSize(out, 1<<20)}
}

// StartModelNoT starts the model outside a test (sandbox children).
func StartModelNoT() (*Model, error) {
	cmd := exec.Command(kmodelPath())
	in, err := cmd.StdinPipe()
	if err != nil {
		return nil, err
	}
	out, err := cmd.StdoutPipe()
	if err != nil {
		return nil, err
	}
	if err := cmd.Start(); err != nil {
		return nil, err
	}
	return &Model{cmd: cmd, in: in, out: bufio.NewReaderSize(out, 1<<20)}, nil
}

// Ask sends one request line and returns the model's one-line answer.
func (m *Model) Ask(line string) string {
	m.mu.Lock()
	defer m.mu.Unlock()
	m.N++
	if _, err := io.WriteString(m.in, line+"\n"); err != nil {
		return "model-dead " + err.Error()
	}
	s, err := m.out.ReadString('\n')
	if err != nil {
		return "model-dead " + err.Error()
	}
	return strings.TrimRight(s, "\n")
}

func (m *Model) Close() {
	m.in.Close()
	m.cmd.Wait()
}

// ModelPool runs several kmodel processes for parallel workers.
type ModelPool struct {
	ms  []*Model
	sbs map[*Model]*Sandbox
	t   testing.TB
	smu sync.Mutex
}

// Sandbox returns the sandbox child that belongs to a model worker (created on first use).
func (p *ModelPool) Sandbox(m *Model) *Sandbox {
	p.smu.Lock()
	defer p.smu.Unlock()
	if p.sbs == nil {
		p.sbs = map[*Model]*Sandbox{}
	}
	if s, ok := p.sbs[m]; ok {
		return s
	}
	s := StartSandbox(p.t)
	p.sbs[m] = s
	return s
}

func StartPool(t testing.TB, n int) *ModelPool {
	p := &ModelPool{t: t}
	for i := 0; i < n; i++ {
		p.ms = append(p.ms, StartModel(t))
	}
	return p
}
func (p *ModelPool) Get(i int) *Model { return p.ms[i%len(p.ms)] }
func (p *ModelPool) Close() {
	for _, m := range p.ms {
		m.Close()
	}
	for _, s := range p.sbs {
		s.Close()
	}
}
func (p *ModelPool) Asked() int {
	n := 0
	for _, m := range p.ms {
		n += m.N
	}
	return n
}

// ---------- line protocol helpers ----------

func X(b []byte) string  { return "x" + hex.EncodeToString(b) }
func XS(s string) string { return X([]byte(s)) }
func UnX(s string) []byte {
	if !strings.HasPrefix(s, "x") {
		return nil
	}
	b, err := hex.DecodeString(s[1:])
	if err != nil {
		return nil
	}
	return b
}
func B(b bool) string {
	if b {
		return "1"
	}
	return "0"
}
func List(xs []string) string {
	if len(xs) == 0 {
		return "-"
	}
	return strings.Join(xs, ",")
}

// ---------- verdict ----------

type Violation struct {
	// Signature identifies the failing input / call site / history (matched against known findings).
	Signature string `json:"signature"`
	What      string `json:"what"`
	// Kind: "failing-input" (the property itself fails on the real code for this input) or
	// "correspondence" (model and code differ; the property's own oracle did not fail here).
	Kind   string            `json:"kind"`
	Detail map[string]string `json:"detail,omitempty"`
}

type Verdict struct {
	mu          sync.Mutex
	Property    string         `json:"property"`
	Evaluations int            `json:"evaluations"`
	Distinct    map[string]int `json:"-"`
	DistinctN   int            `json:"distinct_nontrivial"`
	Rule        string         `json:"rule"`
	Samples     []string       `json:"samples"`
	Histogram   map[string]int `json:"histogram"`
	Violations  []Violation    `json:"violations"`
	ModelAsks   int            `json:"model_requests"`
	Exhaustive  bool           `json:"exhaustive,omitempty"`
	Notes       []string       `json:"notes,omitempty"`
	seenSig     map[string]bool
}

func NewVerdict(prop, rule string) *Verdict {
	return &Verdict{Property: prop, Rule: rule, Distinct: map[string]int{}, Histogram: map[string]int{}, seenSig: map[string]bool{}}
}

// Case records one evaluated case. key identifies the case for the distinct count ("" = trivial,
// not counted); bucket feeds the histogram.
func (v *Verdict) Case(key, bucket string) {
	v.mu.Lock()
	defer v.mu.Unlock()
	v.Evaluations++
	if key != "" {
		v.Distinct[key]++
	}
	if bucket != "" {
		v.Histogram[bucket]++
	}
}

func (v *Verdict) Sample(s string) {
	v.mu.Lock()
	defer v.mu.Unlock()
	if len(v.Samples) < 12 {
		if len(s) > 600 {
			s = s[:600] + "…"
		}
		v.Samples = append(v.Samples, s)
	}
}

func (v *Verdict) Note(s string) {
	v.mu.Lock()
	defer v.mu.Unlock()
	v.Notes = append(v.Notes, s)
}

func (v *Verdict) Violate(kind, sig, what string, detail map[string]string) {
	v.mu.Lock()
	defer v.mu.Unlock()
	if v.seenSig[sig] {
		return
	}
	v.seenSig[sig] = true
	if len(v.Violations) < 40 {
		v.Violations = append(v.Violations, Violation{Signature: sig, What: what, Kind: kind, Detail: detail})
	}
}

func (v *Verdict) Write(t testing.TB) {
	v.mu.Lock()
	defer v.mu.Unlock()
	v.DistinctN = len(v.Distinct)
	if v.Violations == nil {
		v.Violations = []Violation{}
	}
	if v.Samples == nil {
		v.Samples = []string{}
	}
	out := os.Getenv("VERIF_OUT")
	b, _ := json.MarshalIndent(v, "", " ")
	if out == "" {
		keys := make([]string, 0, len(v.Histogram))
		for k := range v.Histogram {
			keys = append(keys, k)
		}
		sort.Strings(keys)
		fmt.Printf("%s: evaluations=%d distinct=%d violations=%d\n", v.Property, v.Evaluations, v.DistinctN, len(v.Violations))
		for _, k := range keys {
			fmt.Printf("   %-40s %d\n", k, v.Histogram[k])
		}
		for _, x := range v.Violations {
			fmt.Printf("   VIOLATION[%s] %s :: %s %v\n", x.Kind, x.Signature, x.What, x.Detail)
		}
		return
	}
	if err := os.WriteFile(out, b, 0o644); err != nil {
		t.Fatalf("write verdict: %v", err)
	}
}

// Protect runs f and reports a panic as a string ("" = no panic).
func Protect(f func()) (p string) {
	defer func() {
		if r := recover(); r != nil {
			p = fmt.Sprint(r)
		}
	}()
	f()
	return ""
}

// ReplayInput returns the op/input recorded in a replay file when VERIF_REPLAY is set.
func ReplayInput() map[string]string {
	p := os.Getenv("VERIF_REPLAY")
	if p == "" {
		return nil
	}
	b, err := os.ReadFile(p)
	if err != nil {
		return nil
	}
	var r struct {
		Detail map[string]string `json:"detail"`
	}
	if json.Unmarshal(b, &r) != nil {
		return nil
	}
	return r.Detail
}

// Micros is the time in microseconds since the Unix epoch, for every time a GeneralizedTime can carry
// (UnixNano overflows after the year 2262).
func Micros(t time.Time) int64 { return t.Unix()*1000000 + int64(t.Nanosecond()/1000) }
