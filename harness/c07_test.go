package harness

import (
	"fmt"
	"strings"
	"sync"
	"testing"

	"github.com/jcmturner/gokrb5/v8/crypto"
)

var cksumTypes = []int32{12, 15, 16, 19, 20, -138}

func cksumEtypeSpec(ct int32) int32 {
	switch ct {
	case 12:
		return 16
	case 15:
		return 17
	case 16:
		return 18
	case 19:
		return 19
	case 20:
		return 20
	case -138:
		return 23
	}
	return 0
}

// C07: keyed checksums equal the RFC definitions and verify only exact matches.
func TestC07(t *testing.T) {
	m := StartModel(t)
	defer m.Close()
	v := NewVerdict("C07", "checksum type in {12,15,16,19,20,-138} x data length 0..200 x usage set x PRNG keys: GetChecksumHash bytes = Lean Spec.checksum bytes; VerifyChecksum true for the exact value and false for every truncation, one-byte extension, single-bit flip, other data/key/usage; GetChksumEtype over ids -400..400 vs the IANA table. distinct = (cksumtype, length, usage) and (cksumtype, mutation kind)")
	rng := NewRNG(Seed())
	// checksum-type -> etype table over a wide id range
	for id := int32(-400); id <= 400; id++ {
		e, err := crypto.GetChksumEtype(id)
		goR := "none"
		if err == nil {
			goR = fmt.Sprintf("ok %d", e.GetETypeID())
		}
		mr := m.Ask(fmt.Sprintf("cr.cksumtype %d", id))
		key := ""
		if goR != "none" || mr != "none" {
			key = fmt.Sprintf("table/%d", id)
		}
		v.Case(key, "table")
		if goR != mr {
			v.Violate("failing-input", fmt.Sprintf("c07:table:%d", id), "checksum type identifier does not select the encryption family the IANA registry assigns", map[string]string{"id": itoa(id), "go": goR, "iana": mr})
		}
		if err == nil && e.GetHashID() != id {
			v.Violate("failing-input", fmt.Sprintf("c07:hashid:%d", id), "etype selected by a checksum type reports a different checksum type", map[string]string{"id": itoa(id), "hashid": itoa(e.GetHashID())})
		}
	}
	per := 2
	if Thorough() {
		per = 12
	}
	off := int(Seed())
	for _, ct := range cksumTypes {
		et := cksumEtypeSpec(ct)
		e, err := crypto.GetChksumEtype(ct)
		if err != nil {
			continue
		}
		for l := 0; l <= 200; l++ {
			for j := 0; j < per; j++ {
				usage := sel(off+l*per+j+int(et), usageSet)
				key := randKey(rng, et)
				data := rng.Bytes(l)
				var sum []byte
				var cerr error
				pan := Protect(func() { sum, cerr = e.GetChecksumHash(key, data, usage) })
				v.Case(fmt.Sprintf("value/%d/%d/%d", ct, l, usage), fmt.Sprintf("value cksumtype=%d", ct))
				op := fmt.Sprintf("cr.cksum %d %s %d %s", et, X(key), usage, X(data))
				mr := m.Ask(op)
				if pan != "" || cerr != nil || mr != "ok "+X(sum) {
					u := "lib"
					if usage >= 128 {
						u = ">=128"
					}
					v.Violate("failing-input", fmt.Sprintf("c07:value:%d:usage%s", ct, u), "checksum differs from the value the RFC defines (independent implementation)", map[string]string{"op": op, "go": X(sum) + " " + pan, "model": mr})
					continue
				}
				if l == 7 && j == 0 {
					v.Sample(op + " -> " + mr)
				}
				if j == 0 && (l%10 == 0 || Thorough()) {
					c07Verify(m, v, rng, ct, et, key, usage, data, sum)
				}
			}
		}
	}
	// key usage numbers across the range of the derivation constant (the derived checksum key depends on
	// the n-fold of the usage number): every one up to 450 (4200 in thorough), the powers of 256, PRNG ones
	top := uint32(450)
	if Thorough() {
		top = 4200
	}
	for _, ct := range []int32{15, 16, 12, 20, 19} {
		et := cksumEtypeSpec(ct)
		e, err := crypto.GetChksumEtype(ct)
		if err != nil {
			continue
		}
		var us []uint32
		for u := uint32(1); u <= top; u++ {
			if ct == 12 && !Thorough() && u > 64 {
				break
			}
			if (ct == 19 || ct == 20) && !Thorough() && u > 260 {
				break
			}
			us = append(us, u)
		}
		us = append(us, 4087, 4088, 4095, 4096, 426, 0xAA00, 0x9900, 0x55AA, 0xAA0000, 0xAA000000, 0x99000001, 65535, 65536, 65791, 1<<24-1, 1<<24, 1<<32-1)
		for i := 0; i < 40; i++ {
			us = append(us, uint32(rng.U64())|1)
		}
		for _, usage := range us {
			key := randKey(rng, et)
			data := rng.Bytes(3 + int(usage%20))
			var sum []byte
			var cerr error
			pan := Protect(func() { sum, cerr = e.GetChecksumHash(key, data, usage) })
			v.Case(fmt.Sprintf("usage-sweep/%d/%d", ct, usage), fmt.Sprintf("usage sweep cksumtype=%d", ct))
			op := fmt.Sprintf("cr.cksum %d %s %d %s", et, X(key), usage, X(data))
			if mr := m.Ask(op); pan != "" || cerr != nil || mr != "ok "+X(sum) {
				v.Violate("failing-input", fmt.Sprintf("c07:value:%d:usage-sweep", ct), "checksum differs from the value the RFC defines (independent implementation)", map[string]string{"op": op, "go": X(sum) + " " + pan, "model": mr})
				break
			}
		}
	}
	// key usage 0 is not a key usage (RFC 3961 section 4): the library may refuse it, but if it answers, the
	// answer is the one the derivation formula gives for the number 0, not an underived one
	for _, ct := range cksumTypes {
		et := cksumEtypeSpec(ct)
		e, err := crypto.GetChksumEtype(ct)
		if err != nil {
			continue
		}
		key := randKey(rng, et)
		data := rng.Bytes(17)
		var sum []byte
		var cerr error
		pan := Protect(func() { sum, cerr = e.GetChecksumHash(key, data, 0) })
		v.Case(fmt.Sprintf("usage-zero/%d", ct), fmt.Sprintf("usage 0 cksumtype=%d", ct))
		if pan != "" || cerr != nil {
			continue
		}
		op := fmt.Sprintf("cr.cksum %d %s 0 %s", et, X(key), X(data))
		if mr := m.Ask(op); mr != "ok "+X(sum) {
			v.Violate("failing-input", fmt.Sprintf("c07:value:%d:usage-zero", ct), "the checksum for the usage number 0 is not the one the derivation formula gives (the key was not derived)", map[string]string{"op": op, "go": X(sum), "model": mr})
		}
	}
	// a key of the wrong size verifies nothing: not the checksum made with the right key, not an empty or
	// zero checksum (an error inside the computation must not read as a match)
	for _, ct := range cksumTypes {
		et := cksumEtypeSpec(ct)
		e, err := crypto.GetChksumEtype(ct)
		if err != nil {
			continue
		}
		good := randKey(rng, et)
		data := rng.Bytes(20)
		sum, _ := e.GetChecksumHash(good, data, 17)
		for _, n := range []int{0, 1, 7, 8, 15, 16, 17, 23, 24, 25, 31, 32, 33, 64} {
			if n == len(good) || ct == -138 { // rc4-hmac takes keys of any size
				continue
			}
			bad := rng.Bytes(n)
			if n > 0 && n < len(good) {
				bad = append([]byte{}, good[:n]...)
			}
			for ci, c := range [][]byte{nil, {}, make([]byte, len(sum)), sum, sum[:0]} {
				var got bool
				pan := Protect(func() { got = e.VerifyChecksum(bad, data, c, 17) })
				v.Case(fmt.Sprintf("wrong-size-key/%d/%d/%d", ct, n, ci), "verify wrong-size-key")
				if got {
					v.Violate("failing-input", fmt.Sprintf("c07:verify:wrong-size-key:%d", ct), "VerifyChecksum returned true under a key of the wrong size "+pan, map[string]string{"cksumtype": itoa(ct), "key": X(bad), "data": X(data), "cksum": X(c)})
				}
			}
		}
	}
	// goroutines computing and verifying checksums at the same time, each with a usage number of its own (a service
	// checks MICs of many contexts at once): every value is the one computed alone (and given by the model)
	for _, ct := range cksumTypes {
		e, err := crypto.GetChksumEtype(ct)
		if err != nil {
			continue
		}
		et := cksumEtypeSpec(ct)
		key, data := randKey(rng, et), rng.Bytes(24)
		const workers = 16
		want := make([][]byte, workers)
		okRef := true
		for g := 0; g < workers; g++ {
			u := uint32(20 + g)
			want[g], err = e.GetChecksumHash(key, data, u)
			if err != nil || m.Ask(fmt.Sprintf("cr.cksum %d %s %d %s", et, X(key), u, X(data))) != "ok "+X(want[g]) {
				okRef = false
			}
		}
		if !okRef {
			continue // (value differences are reported by the sequential cases above)
		}
		rounds := 400
		if Thorough() {
			rounds = 4000
		}
		bad := make([]string, workers)
		var wg sync.WaitGroup
		for g := 0; g < workers; g++ {
			wg.Add(1)
			go func(g int) {
				defer wg.Done()
				u := uint32(20 + g)
				for i := 0; i < rounds && bad[g] == ""; i++ {
					var sum []byte
					var cerr error
					var ok bool
					if p := Protect(func() {
						sum, cerr = e.GetChecksumHash(key, data, u)
						ok = e.VerifyChecksum(key, data, want[g], u)
					}); p != "" || cerr != nil || string(sum) != string(want[g]) || !ok {
						bad[g] = fmt.Sprintf("usage %d round %d: computed %s, alone %s, verify(alone)=%v err=%v %s", u, i, X(sum), X(want[g]), ok, cerr, p)
					}
				}
			}(g)
		}
		wg.Wait()
		v.Case(fmt.Sprintf("concurrent/%d", ct), "checksums computed by 16 goroutines at once")
		for _, b := range bad {
			if b != "" {
				v.Violate("failing-input", fmt.Sprintf("c07:concurrent:%d", ct), "a checksum computed while other goroutines compute checksums with other usage numbers is not the value computed alone", map[string]string{"cksumtype": itoa(ct), "key": X(key), "data": X(data), "first": b})
				break
			}
		}
	}
	// the HMAC-MD5 checksum (-138) is defined for a key of any length (RFC 4757 section 4: it is also used with keys
	// of other enctypes, as in PAC signatures): value and verification for keys of 1..64 octets
	if e, err := crypto.GetChksumEtype(-138); err == nil {
		for _, n := range []int{1, 8, 15, 17, 20, 24, 32, 64} {
			for _, usage := range []uint32{17, 6, 3} {
				key, data := rng.Bytes(n), rng.Bytes(1+rng.Intn(40))
				var sum []byte
				var cerr error
				pan := Protect(func() { sum, cerr = e.GetChecksumHash(key, data, usage) })
				op := fmt.Sprintf("cr.cksum 23 %s %d %s", X(key), usage, X(data))
				mr := m.Ask(op)
				v.Case(fmt.Sprintf("hmac-md5-keylen/%d/%d", n, usage), "hmac-md5 checksum with a key of another length")
				if pan != "" || cerr != nil || mr != "ok "+X(sum) {
					v.Violate("failing-input", "c07:value:-138:key-length", "the HMAC-MD5 checksum under a key that is not 16 octets long is not the RFC 4757 value", map[string]string{"op": op, "go": fmt.Sprintf("%s err=%v %s", X(sum), cerr, pan), "model": mr})
					continue
				}
				var ok bool
				Protect(func() { ok = e.VerifyChecksum(key, data, sum, usage) })
				if !ok {
					v.Violate("failing-input", "c07:verify:-138:key-length", "VerifyChecksum refuses the HMAC-MD5 checksum it computed under a key that is not 16 octets long", map[string]string{"op": op})
				}
			}
		}
	}
	// what GetChecksumHash computes, VerifyChecksum accepts: for every usage of the library's set, each checksum
	// type (the rc4 usages 3, 9 and 23 are translated on both paths)
	for _, ct := range cksumTypes {
		et := cksumEtypeSpec(ct)
		e, err := crypto.GetChksumEtype(ct)
		if err != nil {
			continue
		}
		for _, usage := range usageSet {
			key := randKey(rng, et)
			data := rng.Bytes(11)
			sum, cerr := e.GetChecksumHash(key, data, usage)
			ok := false
			pan := Protect(func() { ok = e.VerifyChecksum(key, data, sum, usage) })
			v.Case(fmt.Sprintf("compute-then-verify/%d/%d", ct, usage), "verify exact")
			if cerr != nil || pan != "" || !ok {
				v.Violate("failing-input", fmt.Sprintf("c07:verify:exact:%d", ct), "VerifyChecksum rejects the checksum GetChecksumHash computes for the same key, data and usage", map[string]string{"cksumtype": itoa(ct), "usage": itoa(usage), "key": X(key), "data": X(data), "cksum": X(sum)})
				break
			}
		}
	}
	c07CrossFamily(m, v, rng)
	v.ModelAsks = m.N
	v.Write(t)
}

func c07Verify(m *Model, v *Verdict, rng *RNG, ct, et int32, key []byte, usage uint32, data, sum []byte) {
	e, _ := crypto.GetChksumEtype(ct)
	check := func(kind string, k, d, c []byte, u uint32, want bool) {
		var got bool
		pan := Protect(func() { got = e.VerifyChecksum(k, d, c, u) })
		v.Case(fmt.Sprintf("verify/%d/%s", ct, kind), "verify "+kind)
		if pan != "" || got != want {
			v.Violate("failing-input", fmt.Sprintf("c07:verify:%s:%d", kind, ct), fmt.Sprintf("VerifyChecksum returned %v (want %v) %s", got, want, pan), map[string]string{"cksumtype": itoa(ct), "key": X(k), "usage": itoa(u), "data": X(d), "cksum": X(c)})
			return
		}
		if rng.Intn(8) == 0 || kind == "exact" {
			op := fmt.Sprintf("cr.verify %d %s %d %s %s", et, X(k), u, X(d), X(c))
			if mr := m.Ask(op); mr != B(got) {
				v.Violate("correspondence", fmt.Sprintf("c07:verify-model:%s:%d", kind, ct), "Spec.verifyChecksum and VerifyChecksum disagree", map[string]string{"op": op, "go": B(got), "model": mr})
			}
		}
	}
	check("exact", key, data, sum, usage, true)
	for n := 0; n < len(sum); n++ {
		check("truncated", key, data, sum[:n], usage, false)
	}
	check("extended", key, data, append(append([]byte{}, sum...), 0), usage, false)
	check("extended", key, data, append(append([]byte{}, sum...), byte(rng.U64())), usage, false)
	for i := 0; i < len(sum)*8; i++ {
		c := append([]byte{}, sum...)
		c[i/8] ^= 1 << uint(i%8)
		check("bitflip", key, data, c, usage, false)
	}
	if len(sum) >= 2 {
		for k := 0; k < 6; k++ {
			i, j := rng.Intn(len(sum)), rng.Intn(len(sum))
			if i == j {
				j = (i + 1) % len(sum)
			}
			d := byte(1 << uint(rng.Intn(8)))
			if k >= 3 {
				d = byte(1 + rng.Intn(255))
			}
			c := append([]byte{}, sum...)
			c[i] ^= d
			c[j] ^= d
			check("two-octets-same-delta", key, data, c, usage, false)
		}
		// a value whose octets fold to the same value as the checksum's
		x := byte(0)
		for _, b := range sum {
			x ^= b
		}
		c := make([]byte, len(sum))
		c[0] = x
		if string(c) != string(sum) {
			check("same-xor-fold", key, data, c, usage, false)
		}
	}
	d2 := append(append([]byte{}, data...), 0)
	check("other-data", key, d2, sum, usage, false)
	if len(data) > 0 {
		d3 := append([]byte{}, data...)
		d3[rng.Intn(len(d3))] ^= 0x01
		check("other-data", key, d3, sum, usage, false)
		check("other-data", key, data[:len(data)-1], sum, usage, false)
	}
	check("other-key", randKey(rng, et), data, sum, usage, false)
	for _, u := range usageSet {
		if u == usage {
			continue
		}
		if et == 23 && rc4Alias(u) == rc4Alias(usage) {
			check("aliased-usage", key, data, sum, u, true)
			continue
		}
		check("other-usage", key, data, sum, u, false)
	}
	_ = strings.Join
}

// c07CrossFamily: the same key bytes and the same usage under two checksum types that share a key length
// (15/19, 16/20), in both orders and interleaved: each value must still be the RFC's (nothing derived for
// one family may leak into the other), and the same for message encryption keys.
func c07CrossFamily(m *Model, v *Verdict, rng *RNG) {
	pairs := [][2]int32{{17, 19}, {18, 20}}
	for _, p := range pairs {
		for round := 0; round < 4; round++ {
			key := randKey(rng, p[0])
			usage := usageSet[rng.Intn(len(usageSet))]
			data := rng.Bytes(1 + rng.Intn(40))
			order := []int32{p[0], p[1], p[0], p[1]}
			if round%2 == 1 {
				order = []int32{p[1], p[0], p[1], p[0]}
			}
			for i, et := range order {
				e := mustEtype(et)
				var sum []byte
				var cerr error
				pan := Protect(func() { sum, cerr = e.GetChecksumHash(key, data, usage) })
				op := fmt.Sprintf("cr.cksum %d %s %d %s", et, X(key), usage, X(data))
				mr := m.Ask(op)
				v.Case(fmt.Sprintf("cross/%d/%d/%d", p[0], round, i), "value after the other family used the same key and usage")
				if cerr != nil || pan != "" || mr != "ok "+X(sum) {
					v.Violate("failing-input", fmt.Sprintf("c07:cross-family:%d", et), "a checksum computed after another checksum type was used with the same key bytes and usage is not the RFC value", map[string]string{"op": op, "go": X(sum) + " " + pan, "model": mr, "order": fmt.Sprint(order), "step": fmt.Sprint(i)})
					return
				}
				ok := false
				Protect(func() { ok = e.VerifyChecksum(key, data, sum, usage) })
				if !ok {
					v.Violate("failing-input", fmt.Sprintf("c07:cross-family-verify:%d", et), "VerifyChecksum rejects the RFC value after another checksum type was used with the same key bytes and usage", map[string]string{"op": op, "order": fmt.Sprint(order), "step": fmt.Sprint(i)})
					return
				}
				// and encryption under the same key bytes
				ct, err, pan2 := goEncrypt(et, key, data, usage)
				got := m.Ask(fmt.Sprintf("cr.dec %d %s %d %s", et, X(key), usage, X(ct)))
				if err != nil || pan2 != "" || got != "ok "+X(data) {
					v.Violate("failing-input", fmt.Sprintf("c07:cross-family-encrypt:%d", et), "a message encrypted after another etype was used with the same key bytes and usage is not decrypted by the RFC implementation", map[string]string{"et": itoa(et), "key": X(key), "usage": itoa(usage), "model": got, "order": fmt.Sprint(order), "step": fmt.Sprint(i)})
					return
				}
			}
		}
	}
}
