package harness

import (
	"fmt"
	"sync"
	"testing"
)

// C06: decryption returns plaintext only for authentic ciphertexts.
// Oracle (the property itself): every modified ciphertext / other key / other non-aliased usage must
// yield an error from the real code. Correspondence: the Lean Spec.decrypt must agree with Go on a
// sample of the same inputs (accept/reject and plaintext).
func TestC06(t *testing.T) {
	workers := 8
	pool := StartPool(t, workers)
	defer pool.Close()
	v := NewVerdict("C06", "etype x plaintext length 0..64: every single-bit flip of the whole ciphertext (exhaustive), every truncation, 1-3 appended bytes, swapped blocks, every other usage of the usage set (modulo the RFC 4757 aliases), unrelated keys; Go must reject all of them; the Lean spec is asked on the original, on a 1/16 sample of the flips (all of them in thorough) and on every truncation. distinct = (etype, length, mutation kind)")
	seed := Seed()
	type job struct {
		et int32
		l  int
	}
	jobs := make(chan job, 1000)
	var wg sync.WaitGroup
	for w := 0; w < workers; w++ {
		wg.Add(1)
		go func(w int) {
			defer wg.Done()
			m := pool.Get(w)
			for j := range jobs {
				c06Case(m, v, NewRNG(seed*1000003+uint64(j.et)*1000+uint64(j.l)), j.et, j.l)
			}
		}(w)
	}
	for _, et := range allEtypes {
		for l := 0; l <= 64; l++ {
			jobs <- job{et, l}
		}
	}
	close(jobs)
	wg.Wait()
	// long messages: the integrity check covers every octet of them too
	for _, et := range allEtypes {
		for _, l := range []int{16400, 40000} {
			c06Large(pool.Get(0), v, NewRNG(seed*7+uint64(et)+uint64(l)), et, l)
		}
	}
	v.ModelAsks = pool.Asked()
	v.Write(t)
}

// c06Large: a message of l octets: the original decrypts (model asked once), and a bit flipped in every 1 KiB
// stretch, in each of the last 64 octets before the tag, a 4 KiB or 16-octet piece cut out or doubled anywhere
// is refused.
func c06Large(m *Model, v *Verdict, rng *RNG, et int32, l int) {
	key := randKey(rng, et)
	pt := rng.Bytes(l)
	usage := uint32(3)
	ct, err, pan := goEncrypt(et, key, pt, usage)
	if err != nil || pan != "" {
		v.Violate("failing-input", fmt.Sprintf("c06:encrypt-fails:et=%d", et), "EncryptMessage failed on a long message", map[string]string{"et": itoa(et), "key": X(key), "length": itoa(l)})
		return
	}
	want := "ok " + X(des3Padded(et, pt))
	check := func(kind string, c []byte, mustReject bool) bool {
		got := decRes(goDecrypt(et, key, c, usage))
		v.Case(fmt.Sprintf("%d/long-%d/%s", et, l, kind), "long message: "+kind)
		if mustReject == (got == "none") && (mustReject || got == want) {
			return true
		}
		what := "a long ciphertext that was changed is accepted"
		if !mustReject {
			what = "a genuine long ciphertext is not decrypted to its plaintext"
		}
		v.Violate("failing-input", fmt.Sprintf("c06:long-%s:et=%d", kind, et), what, map[string]string{"et": itoa(et), "key": X(key), "usage": itoa(usage), "length": itoa(l), "go": cut(got, 80), "orig_ct": X(ct), "ct": X(c)})
		return false
	}
	if !check("original", ct, false) {
		return
	}
	if mr := m.Ask(fmt.Sprintf("cr.dec %d %s %d %s", et, X(key), usage, X(ct))); mr != want {
		v.Violate("correspondence", fmt.Sprintf("c06:model-differs:long:et=%d", et), "Spec.decrypt and DecryptMessage disagree on a long message", map[string]string{"et": itoa(et), "key": X(key), "length": itoa(l), "ct": X(ct), "model": cut(mr, 80)})
		return
	}
	flip := func(i int) bool {
		c := append([]byte{}, ct...)
		c[i] ^= 1 << uint(rng.Intn(8))
		return check("bitflip", c, true)
	}
	for base := 0; base < len(ct); base += 1024 {
		if !flip(base + rng.Intn(min(1024, len(ct)-base))) {
			return
		}
	}
	tag := specMacLen(et)
	for i := len(ct) - tag - 64; i < len(ct)-tag; i++ {
		if i >= 0 && !flip(i) {
			return
		}
	}
	for _, n := range []int{16, 4096} {
		for k := 0; k < 6; k++ {
			at := rng.Intn(len(ct) - tag - n)
			if k == 0 {
				at = len(ct) - tag - n // the last piece before the tag
			}
			at -= at % 8
			cutOut := append(append([]byte{}, ct[:at]...), ct[at+n:]...)
			if !check(fmt.Sprintf("piece-of-%d-removed", n), cutOut, true) {
				return
			}
			doubled := append(append(append([]byte{}, ct[:at+n]...), ct[at:at+n]...), ct[at+n:]...)
			if !check(fmt.Sprintf("piece-of-%d-doubled", n), doubled, true) {
				return
			}
		}
	}
}

func c06Case(m *Model, v *Verdict, rng *RNG, et int32, l int) {
	key := randKey(rng, et)
	pt := rng.Bytes(l)
	usage := usageSet[rng.Intn(25)]
	ct, err, pan := goEncrypt(et, key, pt, usage)
	if err != nil || pan != "" {
		v.Violate("failing-input", fmt.Sprintf("c06:encrypt-fails:et=%d", et), "EncryptMessage failed", map[string]string{"et": itoa(et), "key": X(key), "usage": itoa(usage), "pt": X(pt)})
		return
	}
	want := "ok " + X(des3Padded(et, pt))
	check := func(kind string, k []byte, u uint32, c []byte, askModel bool, mustReject bool) {
		got := decRes(goDecrypt(et, k, c, u))
		v.Case(fmt.Sprintf("%d/%d/%s", et, l, kind), kind)
		detail := map[string]string{"et": itoa(et), "key": X(k), "usage": itoa(u), "ct": X(c), "go": got, "orig_ct": X(ct), "orig_key": X(key), "orig_usage": itoa(usage)}
		if mustReject && got != "none" {
			what := "a ciphertext that was not produced under this key and usage is accepted"
			if got == "panic" {
				what = "decryption panics instead of returning an error"
			}
			v.Violate("failing-input", fmt.Sprintf("c06:%s:et=%d:%s", kind, et, got[:2]), what, detail)
			return
		}
		if !mustReject && got != want {
			v.Violate("failing-input", fmt.Sprintf("c06:%s:et=%d", kind, et), "a genuine ciphertext is not decrypted to its plaintext", detail)
			return
		}
		if askModel {
			op := fmt.Sprintf("cr.dec %d %s %d %s", et, X(k), u, X(c))
			mr := m.Ask(op)
			if mr != got {
				detail["op"] = op
				detail["model"] = mr
				v.Violate("correspondence", fmt.Sprintf("c06:model-differs:%s:et=%d", kind, et), "Spec.decrypt and DecryptMessage disagree", detail)
			}
		}
	}
	check("original", key, usage, ct, true, false)
	// every single-bit flip
	for i := 0; i < len(ct)*8; i++ {
		c := append([]byte{}, ct...)
		c[i/8] ^= 1 << uint(i%8)
		check("bitflip", key, usage, c, Thorough() || rng.Intn(16) == 0, true)
	}
	// every truncation
	for n := 0; n < len(ct); n++ {
		check("truncated", key, usage, ct[:n], true, true)
	}
	// truncation from the front
	for n := 1; n <= 3 && n < len(ct); n++ {
		check("front-truncated", key, usage, ct[n:], true, true)
	}
	// appended bytes
	for n := 1; n <= 3; n++ {
		c := append(append([]byte{}, ct...), rng.Bytes(n)...)
		check("extended", key, usage, c, true, true)
	}
	// bytes inserted or removed at the structural boundaries (front, after the first block, middle, in
	// front of the trailing tag region, end)
	for _, pos := range []int{0, 8, 16, len(ct) / 2, len(ct) - 24, len(ct) - 20, len(ct) - 16, len(ct) - 12, len(ct)} {
		if pos < 0 || pos > len(ct) {
			continue
		}
		for _, n := range []int{1, 3, 7, 8, 16} {
			c := append(append(append([]byte{}, ct[:pos]...), rng.Bytes(n)...), ct[pos:]...)
			check("inserted", key, usage, c, n == 1 || n == 7, true)
			if pos+n <= len(ct) {
				c2 := append(append([]byte{}, ct[:pos]...), ct[pos+n:]...)
				check("removed", key, usage, c2, n == 1, true)
			}
		}
	}
	// swapped blocks (first two blocks of the ciphertext body)
	bs := 16
	if et == 16 {
		bs = 8
	}
	// the last two cipher blocks before the tag exchanged (ciphertext stealing puts them in an order of its own:
	// there is exactly one), every pair of neighbouring blocks exchanged
	{
		tagL := specMacLen(et)
		end := len(ct) - tagL
		start := 0
		if et == 23 {
			start, end = tagL, len(ct)
		}
		for p := start; p+2*bs <= end; p += bs {
			c := append([]byte{}, ct...)
			copy(c[p:p+bs], ct[p+bs:p+2*bs])
			copy(c[p+bs:p+2*bs], ct[p:p+bs])
			if string(c) != string(ct) {
				check("neighbouring-blocks-swapped", key, usage, c, false, true)
			}
		}
		if end-start >= 2*bs {
			c := append([]byte{}, ct...)
			copy(c[end-2*bs:end-bs], ct[end-bs:end])
			copy(c[end-bs:end], ct[end-2*bs:end-bs])
			if string(c) != string(ct) {
				check("last-two-blocks-swapped", key, usage, c, true, true)
			}
		}
	}
	// octets put in front of the message (zeros are what a cipher state or an initial vector would be)
	for _, n := range []int{1, 8, 16, 32} {
		check("zeros-in-front", key, usage, append(make([]byte, n), ct...), n == 16, true)
		check("octets-in-front", key, usage, append(rng.Bytes(n), ct...), false, true)
	}
	if len(ct) >= 3*bs {
		c := append([]byte{}, ct...)
		o := 0
		if et == 23 {
			o = 16
		}
		if len(c) >= o+2*bs {
			copy(c[o:o+bs], ct[o+bs:o+2*bs])
			copy(c[o+bs:o+2*bs], ct[o:o+bs])
			check("swapped-blocks", key, usage, c, true, true)
		}
	}
	// every other usage of the set, modulo aliases for rc4
	for _, u := range usageSet {
		if u == usage {
			continue
		}
		if et == 23 && rc4Alias(u) == rc4Alias(usage) {
			check("aliased-usage", key, u, ct, true, false)
			continue
		}
		check("other-usage", key, u, ct, rng.Intn(4) == 0, true)
	}
	// usages that differ only in their high octets (the usage is a 32-bit number in every derivation)
	for _, u := range []uint32{usage + 1<<16, usage + 3<<16, usage ^ 1<<24, usage ^ 1<<31, usage + 1<<8, usage<<8 | usage} {
		if u == usage {
			continue
		}
		check("other-usage-high", key, u, ct, true, true)
	}
	// unrelated keys, and one-bit-different keys (des3: parity bits are not key material)
	for n := 0; n < 3; n++ {
		check("other-key", randKey(rng, et), usage, ct, n == 0, true)
	}
	k2 := append([]byte{}, key...)
	bit := uint(rng.Intn(7) + 1)
	k2[rng.Intn(len(k2))] ^= 1 << bit
	check("key-bitflip", k2, usage, ct, true, true)
	// des3: a body that ends in zero octets with those octets removed (what padding would restore must not
	// be accepted in its place); needs a ciphertext whose body happens to end in 0x00
	if et == 16 && (l%4 == 0 || Thorough()) {
		for try := 0; try < 4000; try++ {
			c2, e2, p2 := goEncrypt(et, key, pt, usage)
			if e2 != nil || p2 != "" || len(c2) < 21 {
				break
			}
			body := len(c2) - 20
			if c2[body-1] != 0 {
				continue
			}
			z := 1
			for z < 7 && c2[body-1-z] == 0 {
				z++
			}
			for k := 1; k <= z; k++ {
				short := append(append([]byte{}, c2[:body-k]...), c2[body:]...)
				check("des3-trailing-zero-removed", key, usage, short, true, true)
			}
			break
		}
	}
	// the same difference in two octets of the integrity tag (a comparison that folds the differences
	// together instead of collecting them lets these through)
	{
		tagLen := specMacLen(et)
		tagStart := len(ct) - tagLen
		if et == 23 {
			tagStart = 0
		}
		for k := 0; k < 6 && tagLen >= 2; k++ {
			i, j := rng.Intn(tagLen), rng.Intn(tagLen)
			if i == j {
				j = (i + 1) % tagLen
			}
			d := byte(1 << uint(rng.Intn(8)))
			if k >= 3 {
				d = byte(1 + rng.Intn(255))
			}
			c := append([]byte{}, ct...)
			c[tagStart+i] ^= d
			c[tagStart+j] ^= d
			check("tag-two-octets-same-delta", key, usage, c, false, true)
		}
	}
	// keys of another length that begin with, or are the beginning of, the right key (a zero octet appended
	// does not change what HMAC computes: the length itself has to be checked)
	check("key-other-length", append(append([]byte{}, key...), 0), usage, ct, false, true)
	check("key-other-length", append(append([]byte{}, key...), 0, 0, 0, 0, 0, 0, 0, 0), usage, ct, false, true)
	check("key-other-length", append(append([]byte{}, key...), byte(1+rng.Intn(255))), usage, ct, false, true)
	check("key-other-length", key[:len(key)-1], usage, ct, false, true)
	check("key-other-length", append(append([]byte{}, key...), key...), usage, ct, false, true)
	check("key-other-length", nil, usage, ct, false, true)
	// the same key buffer used and then changed in place: what is decided depends on the key bytes at the
	// time of the call, not on what the buffer held at an earlier call
	kb := append([]byte{}, key...)
	check("original", kb, usage, ct, false, false)
	kb[rng.Intn(len(kb))] ^= 1 << bit
	check("key-changed-in-place", kb, usage, ct, false, true)
	copy(kb, randKey(rng, et))
	check("key-changed-in-place", kb, usage, ct, false, true)
	copy(kb, key)
	check("original", kb, usage, ct, false, false)
	for i := range kb {
		kb[i] = 0
	}
	check("key-changed-in-place", kb, usage, ct, false, true)
}
