package harness

import (
	"crypto/rand"
	"fmt"
	"strings"
	"sync"
	"testing"
	"testing/iotest"
)

// C05: message encryption interoperates with the RFC definitions (Lean Spec.encrypt/decrypt with
// independently written primitives) in both directions, for all six etypes.
func TestC05(t *testing.T) {
	m := StartModel(t)
	defer m.Close()
	v := NewVerdict("C05", "etype in {16,17,18,19,20,23} x plaintext length 0..130 x key usages (library set + 127,128,255,256,1024,2^31) x PRNG keys/contents, both directions (Go encrypts -> Lean RFC spec decrypts; Lean spec encrypts with PRNG confounder -> Go decrypts); confounder freshness over 64 encryptions; profile table. distinct = (etype, length, usage, direction); all are non-trivial")
	rng := NewRNG(Seed())
	if st := m.Ask("cr.selftest"); !strings.HasPrefix(st, "ok") {
		t.Fatalf("Lean primitive self-test failed: %s", st)
	} else {
		v.Note("Lean primitives validated against FIPS/RFC vectors at start-up: " + st)
	}
	// profile parameters read from the Go etypes vs the RFC profile table of the spec
	for _, et := range allEtypes {
		e := mustEtype(et)
		goP := fmt.Sprintf("conf=%d mac=%d", e.GetConfounderByteSize(), e.GetHMACBitLength()/8)
		sp := m.Ask(fmt.Sprintf("cr.profile %d", et))
		v.Case(fmt.Sprintf("profile/%d", et), "profile")
		if !strings.Contains(sp, " "+strings.Split(goP, " ")[0]+" ") || !strings.Contains(sp, " "+strings.Split(goP, " ")[1]+" ") {
			v.Violate("correspondence", fmt.Sprintf("c05:profile:%d", et), "etype parameters differ from the RFC profile", map[string]string{"go": goP, "spec": sp})
		}
	}
	perLen := 3
	if Thorough() {
		perLen = len(usageSet)
	}
	off := int(Seed())
	for _, et := range allEtypes {
		for l := 0; l <= 130; l++ {
			for j := 0; j < perLen; j++ {
				usage := sel(off+l*perLen+j+int(et), usageSet)
				if j == 0 && l%4 == 0 {
					usage = []uint32{127, 128, 255, 256, 1024, 1 << 31, 3, 9, 8, 23, 13}[(l/4+off)%11]
				}
				c05Case(m, v, rng, et, l, usage)
			}
		}
		c05Fresh(m, v, rng, et)
	}
	// key usage numbers across the range the derivation constant can carry: every one up to 450 (4200 in
	// thorough) for the etypes whose keys are derived by n-fold, around 2^8, 2^16, 2^24, and PRNG ones
	top := uint32(450)
	if Thorough() {
		top = 4200
	}
	for _, et := range []int32{17, 18, 16, 20, 19} {
		for u := uint32(1); u <= top; u++ { // zero is not a key usage (RFC 3961 section 4); the library refuses it
			if et == 16 && !Thorough() && u > 64 {
				break
			}
			if (et == 19 || et == 20) && !Thorough() && u > 260 {
				break // (the RFC 8009 labels are the usage number and one octet: 170 = 0xAA and 153 = 0x99 are inside)
			}
			c05Case(m, v, rng, et, 5+int(u%28), u)
		}
		for _, u := range []uint32{4087, 4088, 4095, 4096, 0xAA00, 0x9900, 0x55AA, 0xAA0000, 0x12AA3456, 0xAA000001, 0x99000001, 65535, 65536, 65791, 1<<24 - 1, 1 << 24, 1<<32 - 1} {
			c05Case(m, v, rng, et, 9, u)
		}
		for i := 0; i < 40; i++ {
			c05Case(m, v, rng, et, 1+rng.Intn(40), uint32(rng.U64())|1)
		}
	}
	// plaintexts that end in zero octets (des3 pads with zeros: what is padding and what is plaintext must not
	// be confused), that are all zeros, all 0xff
	for _, et := range allEtypes {
		for _, l := range []int{1, 3, 5, 7, 8, 9, 13, 16, 24} {
			for z := 1; z <= 8 && z <= l; z++ {
				pt := rng.Bytes(l)
				for i := l - z; i < l; i++ {
					pt[i] = 0
				}
				if l > z && pt[l-z-1] == 0 {
					pt[l-z-1] = 1
				}
				c05CasePT(m, v, rng, et, pt, 3)
			}
			ff := make([]byte, l)
			for i := range ff {
				ff[i] = 0xff
			}
			c05CasePT(m, v, rng, et, ff, 11)
		}
	}
	// long messages (tickets with large PACs, wrapped application data): lengths around and beyond 16 KiB and 64 KiB
	for _, et := range allEtypes {
		for _, l := range []int{16368, 16384, 16385, 20000, 40000, 65536 + 7} {
			c05Case(m, v, rng, et, l, 3)
		}
	}
	// des3 protocol keys that hold a weak or semi-weak DES key in one of their three positions (RFC 3961 corrects
	// such keys only in random-to-key: E, D and DR use the key they are given), keys without odd parity, and
	// keys of the other etypes made of one repeated octet
	{
		weak := []string{"0101010101010101", "fefefefefefefefe", "1f1f1f1f0e0e0e0e", "e0e0e0e0f1f1f1f1",
			"011f011f010e010e", "1f011f010e010e01", "01e001e001f101f1", "e001e001f101f101", "01fe01fe01fe01fe", "fe01fe01fe01fe01",
			"1fe01fe00ef10ef1", "e01fe01ff10ef10e", "1ffe1ffe0efe0efe", "fe1ffe1ffe0efe0e", "e0fee0fef1fef1fe", "fee0fee0fef1fef1"}
		for i, w := range weak {
			for pos := 0; pos < 3; pos++ {
				key := randKey(rng, 16)
				copy(key[8*pos:], UnX("x"+w))
				c05CaseKey(m, v, rng, 16, key, rng.Bytes(1+(i+pos)%20), uint32(1+(i*3+pos)%24))
			}
		}
		for i := 0; i < 12; i++ {
			key := rng.Bytes(24) // any parity
			c05CaseKey(m, v, rng, 16, key, rng.Bytes(1+i), 3)
		}
		for _, et := range []int32{17, 18, 19, 20, 23} {
			for _, b := range []byte{0, 1, 0xff} {
				key := make([]byte, specKeyLen(et))
				for i := range key {
					key[i] = b
				}
				c05CaseKey(m, v, rng, et, key, rng.Bytes(9), 3)
			}
		}
	}
	// the empty message has a confounder of its own each time too (nil and empty, non-nil)
	for _, et := range allEtypes {
		for _, pt := range [][]byte{nil, {}} {
			key := randKey(rng, et)
			seen := map[string]bool{}
			for i := 0; i < 48; i++ {
				ct, err, pan := goEncrypt(et, key, pt, 3)
				if err != nil || pan != "" {
					break
				}
				if seen[string(ct)] {
					v.Violate("failing-input", fmt.Sprintf("c05:confounder-repeats-empty-plaintext:et=%d", et), "two encryptions of the empty plaintext produced the same ciphertext (no fresh confounder)", map[string]string{"et": itoa(et), "key": X(key), "nil-plaintext": fmt.Sprint(pt == nil), "ct": X(ct)})
					break
				}
				seen[string(ct)] = true
			}
			v.Case(fmt.Sprintf("fresh-empty/%d/%v", et, pt == nil), "fresh confounder for the empty plaintext")
		}
	}
	c05FreshMixed(v, rng)
	c05FreshShortReads(v, rng)
	c05FreshConcurrent(v, rng)
	v.ModelAsks = m.N
	v.Write(t)
}

func c05Case(m *Model, v *Verdict, rng *RNG, et int32, l int, usage uint32) {
	c05CasePT(m, v, rng, et, rng.Bytes(l), usage)
}

func c05CasePT(m *Model, v *Verdict, rng *RNG, et int32, pt []byte, usage uint32) {
	c05CaseKey(m, v, rng, et, randKey(rng, et), pt, usage)
}

func c05CaseKey(m *Model, v *Verdict, rng *RNG, et int32, key []byte, pt []byte, usage uint32) {
	l := len(pt)
	want := "ok " + X(des3Padded(et, pt))
	// direction 1: Go encrypts, the RFC spec decrypts
	ct, err, pan := goEncrypt(et, key, pt, usage)
	v.Case(fmt.Sprintf("go->spec/%d/%d/%d", et, l, usage), fmt.Sprintf("go->spec et=%d", et))
	op := fmt.Sprintf("cr.dec %d %s %d %s", et, X(key), usage, X(ct))
	if pan != "" || err != nil {
		v.Violate("failing-input", fmt.Sprintf("c05:encrypt-fails:et=%d:usage=%d", et, usage), fmt.Sprintf("EncryptMessage failed: %v %v", err, pan), map[string]string{"et": itoa(et), "key": X(key), "usage": itoa(usage), "pt": X(pt)})
	} else {
		got := m.Ask(op)
		if got != want {
			u := "lib"
			if usage >= 128 {
				u = ">=128"
			}
			v.Violate("failing-input", fmt.Sprintf("c05:go->spec:et=%d:usage%s", et, u), "the independent RFC implementation does not decrypt what the library encrypted to the same plaintext", map[string]string{"op": op, "model": got, "want": want})
		}
		if l == 5 {
			v.Sample(op + " -> " + got)
		}
	}
	// direction 2: the RFC spec encrypts with a PRNG confounder, Go decrypts
	conf := rng.Bytes(specConfLen(et))
	op2 := fmt.Sprintf("cr.enc %d %s %d %s %s", et, X(key), usage, X(conf), X(pt))
	mc := m.Ask(op2)
	v.Case(fmt.Sprintf("spec->go/%d/%d/%d", et, l, usage), fmt.Sprintf("spec->go et=%d", et))
	if !strings.HasPrefix(mc, "ok ") {
		v.Violate("correspondence", "c05:model-bad-op", "kmodel refused an encrypt request", map[string]string{"op": op2, "answer": mc})
		return
	}
	ctb, keyb := UnX(mc[3:]), append([]byte{}, key...)
	got2 := decRes(goDecrypt(et, keyb, ctb, usage))
	// decrypting leaves the caller's message and key as they were, and gives the same answer again
	if X(ctb) != mc[3:] || X(keyb) != X(key) {
		v.Violate("failing-input", fmt.Sprintf("c05:decrypt-mutates-input:et=%d", et), "DecryptMessage changed the ciphertext or the key it was given (a second reader of the same message no longer decrypts it)", map[string]string{"op": op2, "ct-before": mc[3:], "ct-after": X(ctb), "key-after": X(keyb)})
	} else if again := decRes(goDecrypt(et, keyb, ctb, usage)); again != got2 {
		v.Violate("failing-input", fmt.Sprintf("c05:decrypt-not-repeatable:et=%d", et), "decrypting the same message twice gives different results", map[string]string{"op": op2, "first": got2, "second": again})
	}
	if got2 != want {
		u := "lib"
		if usage >= 128 {
			u = ">=128"
		}
		v.Violate("failing-input", fmt.Sprintf("c05:spec->go:et=%d:usage%s", et, u), "the library does not decrypt what the independent RFC implementation encrypted to the same plaintext", map[string]string{"op": op2, "ct": mc, "go": got2, "want": want})
	}
}

// c05FreshMixed: the confounder of every message is fresh whatever was encrypted before it: runs of
// encryptions of one plaintext under one key, started after 0..3 encryptions under etypes with another
// confounder size, and interleaved with them, never repeat a ciphertext.
// c05FreshShortReads: the process's random source may return fewer octets than asked for in one Read (an
// io.Reader is allowed to): the confounder is still wholly random, never partly zero.
func c05FreshShortReads(v *Verdict, rng *RNG) {
	saved := rand.Reader
	rand.Reader = iotest.OneByteReader(saved)
	defer func() { rand.Reader = saved }()
	for _, et := range allEtypes {
		key := randKey(rng, et)
		pt := rng.Bytes(20)
		seen := map[string]bool{}
		n := 400
		for i := 0; i < n; i++ {
			ct, err, pan := goEncrypt(et, key, pt, 3)
			if err != nil || pan != "" {
				v.Violate("failing-input", fmt.Sprintf("c05:short-reads:encrypt-fails:et=%d", et), "EncryptMessage fails when the random source delivers one octet per Read", map[string]string{"et": itoa(et), "error": fmt.Sprint(err, pan)})
				break
			}
			if seen[string(ct)] {
				v.Violate("failing-input", fmt.Sprintf("c05:confounder-repeats-short-reads:et=%d", et), "with a random source that delivers one octet per Read, two encryptions of the same plaintext produced the same ciphertext (the confounder is only partly random)", map[string]string{"et": itoa(et), "key": X(key), "pt": X(pt), "ct": X(ct), "after": fmt.Sprint(i)})
				break
			}
			seen[string(ct)] = true
		}
		v.Case(fmt.Sprintf("fresh-short-reads/%d", et), fmt.Sprintf("fresh with one-octet reads et=%d (%d msgs)", et, n))
	}
}

// c05FreshConcurrent: callers on several goroutines encrypt the same plaintext under the same key at the same
// time (a service answers its clients in parallel): every ciphertext is still different from every other, and
// none of the calls fails.
func c05FreshConcurrent(v *Verdict, rng *RNG) {
	workers, per := 8, 1500
	if Thorough() {
		per = 12000
	}
	for _, et := range allEtypes {
		key := randKey(rng, et)
		pt := rng.Bytes(16)
		out := make([][]string, workers)
		fails := make([]string, workers)
		var wg sync.WaitGroup
		start := make(chan struct{})
		for w := 0; w < workers; w++ {
			wg.Add(1)
			go func(w int) {
				defer wg.Done()
				<-start
				for i := 0; i < per; i++ {
					ct, err, pan := goEncrypt(et, key, pt, 3)
					if err != nil || pan != "" {
						fails[w] = fmt.Sprint(err, " ", pan)
						return
					}
					out[w] = append(out[w], string(ct))
				}
			}(w)
		}
		close(start)
		wg.Wait()
		seen := map[string]int{}
		bad := false
		for w := 0; w < workers && !bad; w++ {
			if fails[w] != "" {
				v.Violate("failing-input", fmt.Sprintf("c05:concurrent-encrypt-fails:et=%d", et), "EncryptMessage fails when several goroutines encrypt at the same time", map[string]string{"et": itoa(et), "workers": fmt.Sprint(workers), "error": cut(fails[w], 300)})
				bad = true
				break
			}
			for _, ct := range out[w] {
				if w0, dup := seen[ct]; dup {
					v.Violate("failing-input", fmt.Sprintf("c05:confounder-repeats-concurrent:et=%d", et), "two encryptions of the same plaintext under the same key, made at the same time on different goroutines, produced the same ciphertext (the confounder was shared)",
						map[string]string{"et": itoa(et), "workers": fmt.Sprint(workers), "goroutines": fmt.Sprint(w0, ",", w), "key": X(key), "pt": X(pt), "ct": X([]byte(ct))})
					bad = true
					break
				}
				seen[ct] = w
			}
		}
		v.Case(fmt.Sprintf("fresh-concurrent/%d", et), fmt.Sprintf("fresh with %d goroutines encrypting at once et=%d (%d msgs)", workers, et, workers*per))
	}
}

func c05FreshMixed(v *Verdict, rng *RNG) {
	runs := 700
	if Thorough() {
		runs = 5000
	}
	for _, et := range allEtypes {
		for pre := 0; pre <= 3; pre++ {
			key := randKey(rng, et)
			pt := rng.Bytes(24)
			others := []int32{23, 16, 18, 19}
			for i := 0; i < pre; i++ {
				o := others[(i+int(et))%len(others)]
				goEncrypt(o, randKey(rng, o), rng.Bytes(5), 3)
			}
			seen := map[string]int{}
			for i := 0; i < runs; i++ {
				if pre == 3 && i%97 == 96 {
					o := others[(i/97)%len(others)]
					goEncrypt(o, randKey(rng, o), rng.Bytes(5), 3)
				}
				ct, err, pan := goEncrypt(et, key, pt, 3)
				if err != nil || pan != "" {
					return
				}
				if j, dup := seen[string(ct)]; dup {
					v.Violate("failing-input", fmt.Sprintf("c05:confounder-repeats-mixed:et=%d", et), "two encryptions of the same plaintext under the same key produced the same ciphertext (the confounder was reused)",
						map[string]string{"et": itoa(et), "after_other_etype_encryptions": itoa(int32(pre)), "first": itoa(int32(j)), "second": itoa(int32(i)), "key": X(key), "pt": X(pt), "ct": X(ct)})
					return
				}
				seen[string(ct)] = i
			}
			v.Case(fmt.Sprintf("fresh-mixed/%d/%d", et, pre), fmt.Sprintf("fresh after %d other-etype encryptions et=%d (%d msgs)", pre, et, runs))
		}
	}
}

// c05Fresh: 64 encryptions of one plaintext under one key are pairwise different, and each decrypts
// (by the spec) to the plaintext.
func c05Fresh(m *Model, v *Verdict, rng *RNG, et int32) {
	key := randKey(rng, et)
	pt := rng.Bytes(24)
	seen := map[string]bool{}
	for i := 0; i < 64; i++ {
		ct, err, pan := goEncrypt(et, key, pt, 3)
		v.Case("", fmt.Sprintf("fresh et=%d", et))
		if err != nil || pan != "" {
			return
		}
		if seen[string(ct)] {
			v.Violate("failing-input", fmt.Sprintf("c05:confounder-repeats:et=%d", et), "two encryptions of the same plaintext produced the same ciphertext", map[string]string{"et": itoa(et), "key": X(key), "pt": X(pt), "ct": X(ct)})
			return
		}
		seen[string(ct)] = true
		// the confounder region must differ as well (first block of the decrypted stream is random)
	}
	v.Case(fmt.Sprintf("fresh/%d", et), "")
}
