package harness

import (
	"bytes"
	"encoding/base64"
	"encoding/binary"
	"encoding/hex"
	"encoding/json"
	"fmt"
	"github.com/jcmturner/gofork/encoding/asn1"
	goidentity "github.com/jcmturner/goidentity/v6"
	"io"
	"log"
	"net/http"
	"net/http/httptest"
	"strings"
	"testing"
	"time"

	"github.com/jcmturner/gokrb5/v8/client"
	"github.com/jcmturner/gokrb5/v8/config"
	"github.com/jcmturner/gokrb5/v8/credentials"
	"github.com/jcmturner/gokrb5/v8/crypto"
	"github.com/jcmturner/gokrb5/v8/keytab"
	"github.com/jcmturner/gokrb5/v8/messages"
	"github.com/jcmturner/gokrb5/v8/service"
	"github.com/jcmturner/gokrb5/v8/spnego"
	"github.com/jcmturner/gokrb5/v8/types"
)

// a planted secret and every form in which it would be recognisable in an output
type secret struct {
	name  string
	value []byte
	forms [][]byte
}

func newSecret(name string, v []byte) secret {
	s := secret{name: name, value: v}
	add := func(b []byte) {
		if len(b) >= 6 {
			s.forms = append(s.forms, b)
		}
	}
	add(v)
	add([]byte(hex.EncodeToString(v)))
	add([]byte(strings.ToUpper(hex.EncodeToString(v))))
	// hex with separators
	var sp, co []string
	for _, b := range v {
		sp = append(sp, fmt.Sprintf("%02x", b))
		co = append(co, fmt.Sprintf("%d", b))
	}
	add([]byte(strings.Join(sp, " ")))
	add([]byte(strings.Join(sp, ":")))
	add([]byte(strings.Join(co, " "))) // %v of a byte slice
	add([]byte(strings.Join(co, ",")))
	// base64 of any byte string that contains the secret: for each alignment, the characters that depend on
	// the secret alone
	for _, enc := range []*base64.Encoding{base64.StdEncoding, base64.URLEncoding} {
		for off := 0; off < 3; off++ {
			pad := make([]byte, off)
			e := enc.EncodeToString(append(pad, v...))
			// drop the characters influenced by the padding in front and by what follows
			startChars := (off*8 + 5) / 6
			endBits := (off + len(v)) * 8
			endChars := endBits / 6
			if startChars < endChars {
				add([]byte(e[startChars:endChars]))
			}
		}
	}
	// the forms the Lean theorems are about (Krb.C20.window, hex_window): base64 of the secret's aligned core
	// for each residue of its offset, both alphabets, and hex in both cases, as computed by the model itself
	if c20Model != nil {
		ans := c20Model.Ask("b64.cores " + X(v))
		f := strings.Fields(ans)
		if len(f) == 9 && f[0] == "ok" {
			for i, t := range f[1:] {
				if t == "-" {
					continue
				}
				form := UnX(t)
				add(form)
				// tie: the model's rendering is the one Go's encoders give (for the cores: contained in the
				// window form computed above; for hex: equal)
				if i < 6 && len(form) >= 6 {
					found := false
					for _, g := range s.forms {
						if bytes.Contains(g, form) && len(g) >= len(form) {
							found = true
						}
					}
					if !found {
						c20TieBroken = "the model's base64 core form " + string(form) + " is not part of any form Go's base64 gives for " + X(v)
					}
				}
				if i == 6 && string(form) != hex.EncodeToString(v) {
					c20TieBroken = "the model's hex rendering differs from encoding/hex for " + X(v)
				}
			}
		} else {
			c20TieBroken = "b64.cores: " + ans
		}
	}
	return s
}

var c20Model *Model
var c20TieBroken string

type leakScan struct {
	v       *Verdict
	secrets []secret
	outputs int
	bytes   int
}

// check searches one output of a surface for every planted secret.
func (ls *leakScan) check(surface string, out []byte) {
	ls.outputs++
	ls.bytes += len(out)
	ls.v.Case("surface/"+surface, "surface "+strings.SplitN(surface, ":", 2)[0])
	for _, s := range ls.secrets {
		for fi, f := range s.forms {
			if i := bytes.Index(out, f); i >= 0 {
				lo, hi := i-40, i+len(f)+40
				if lo < 0 {
					lo = 0
				}
				if hi > len(out) {
					hi = len(out)
				}
				ls.v.Violate("failing-input", "c20:leak:"+strings.SplitN(surface, ":", 2)[0]+":"+s.name, "a secret held by the library appears in an output that must not carry it", map[string]string{"surface": surface, "secret": s.name, "form": fmt.Sprint(fi), "context": fmt.Sprintf("%q", out[lo:hi])})
				return
			}
		}
	}
}

func (ls *leakScan) err(surface string, err error) {
	if err != nil {
		ls.check(surface, []byte(err.Error()))
		ls.check(surface+":%+v", []byte(fmt.Sprintf("%+v", err)))
	}
}

// C20: keys and passwords never leak into diagnostics, errors, logs or encodings.
func TestC20(t *testing.T) {
	m := StartModel(t)
	defer m.Close()
	v := NewVerdict("C20", "secrets planted per run (password, long-term keys of six etypes in a keytab, session keys, a subkey); every string or byte slice produced by the listed surfaces is searched for every secret raw, in hex (lower, upper, separated), as a decimal byte list and in base64 (standard and URL alphabet, all three alignments): keytab parse errors for every truncation and for corrupted length fields, Keytab.JSON; Credentials.JSON / Marshal; Client.Print and Diagnostics with keytab and with password, client log lines and errors of Login / GetServiceTicket against a KDC simulator incl. failures (wrong password, unknown principal, KDC errors); service.VerifyAPREQ errors and the SPNEGO handler's log lines and response for the whole C01 defect catalogue; JSON of EncryptionKey, cache and session dumps; wire encodings re-marshalled after decryption (Ticket, AP-REQ, AS-REP, TGS-REP, KRB-PRIV, KRB-CRED, ticket sequences in a KDC-REQ-BODY); ccache parse errors. distinct = surface")
	rng := NewRNG(Seed())
	ls := &leakScan{v: v}
	c20Model = m
	defer func() { c20Model = nil }()
	// the model's base64 encoder against encoding/base64 on PRNG inputs of every length 0..40 (the theorems are
	// about the model's encoder)
	for n := 0; n <= 40; n++ {
		for _, url := range []bool{false, true} {
			b := rng.Bytes(n)
			enc, u := base64.StdEncoding, "0"
			if url {
				enc, u = base64.URLEncoding, "1"
			}
			want := "ok x" + hex.EncodeToString([]byte(enc.EncodeToString(b)))
			if n == 0 {
				want = "ok x"
			}
			v.Case(fmt.Sprintf("b64-model/%d/%v", n, url), "base64 model = encoding/base64")
			if got := m.Ask("b64.enc " + u + " " + X(b)); got != want {
				v.Violate("correspondence", "c20:b64-model", "the Lean base64 encoder and encoding/base64 disagree", map[string]string{"input": X(b), "model": got, "go": want})
				break
			}
		}
	}
	password := fmt.Sprintf("Pw-%x-secret", rng.Bytes(6))
	ls.secrets = append(ls.secrets, newSecret("password", []byte(password)))
	// a keytab with fresh random keys
	kt := keytab.New()
	realm := "TEST.GOKRB5"
	for _, et := range allEtypes {
		for _, pr := range []string{"HTTP/host.test.gokrb5", "client1", "krbtgt/TEST.GOKRB5"} {
			if err := kt.AddEntry(pr, realm, fmt.Sprintf("%s-%d-%x", pr, et, rng.Bytes(8)), time.Unix(1600000000, 0), 1, et); err != nil {
				t.Fatal(err)
			}
		}
	}
	for i, e := range kt.Entries {
		ls.secrets = append(ls.secrets, newSecret(fmt.Sprintf("keytab-key-%d-et%d", i, e.Key.KeyType), append([]byte{}, e.Key.KeyValue...)))
	}
	ktBytes, _ := kt.Marshal()

	// --- keytab: parse errors, JSON ---
	for n := 0; n < len(ktBytes); n++ {
		var k2 keytab.Keytab
		ls.err("keytab.Unmarshal(truncated)", k2.Unmarshal(ktBytes[:n]))
	}
	for i := 0; i < 400; i++ {
		c := append([]byte{}, ktBytes...)
		p := 2 + rng.Intn(len(c)-2)
		c[p] ^= byte(1 + rng.Intn(255))
		var k2 keytab.Keytab
		err := k2.Unmarshal(c)
		ls.err("keytab.Unmarshal(corrupted)", err)
		if err == nil {
			if _, _, e := k2.GetEncryptionKey(types.PrincipalName{NameString: []string{"nobody"}}, realm, 1, 18); e != nil {
				ls.err("keytab.GetEncryptionKey(miss)", e)
			}
		}
	}
	j, _ := kt.JSON()
	ls.check("Keytab.JSON", []byte(j))
	for _, pr := range [][]string{{"HTTP", "host.test.gokrb5"}, {"client1"}, {"nobody"}} {
		for _, kv := range []int{1, 2, 0} {
			for _, et := range []int32{18, 17, 3, 99} {
				_, _, e := kt.GetEncryptionKey(types.PrincipalName{NameString: pr}, realm, kv, et)
				ls.err("keytab.GetEncryptionKey(miss)", e)
			}
		}
	}
	// --- EncryptionKey and friends as JSON ---
	sess := types.EncryptionKey{KeyType: 18, KeyValue: rng.Bytes(32)}
	sub := types.EncryptionKey{KeyType: 17, KeyValue: rng.Bytes(16)}
	ls.secrets = append(ls.secrets, newSecret("session-key", sess.KeyValue), newSecret("subkey", sub.KeyValue))
	if b, err := json.Marshal(sess); err == nil {
		ls.check("json(EncryptionKey)", b)
	}
	if b, err := json.Marshal(kt.Entries); err == nil {
		ls.check("json(Keytab.Entries)", b)
	}
	// --- credentials ---
	cr := credentials.New("client1", realm).WithPassword(password).WithKeytab(kt)
	cj, _ := cr.JSON()
	ls.check("Credentials.JSON", []byte(cj))
	if b, err := cr.Marshal(); err == nil {
		ls.check("Credentials.Marshal", b)
	}
	// --- client: dumps, logs, errors against a KDC simulator ---
	var logbuf bytes.Buffer
	lg := log.New(&logbuf, "", 0)
	sim := newKDCSim(simPolicy{maxLife: time.Hour, maxRenew: 2 * time.Hour, requirePA: true, sessionEt: 18}, 24*time.Hour, rng)
	sim.clientPw = password
	cfg, err := config.NewFromString(sim.conf(" ticket_lifetime = 24h\n renew_lifetime = 72h\n"))
	if err != nil {
		t.Fatal(err)
	}
	dump := func(tag string, cl *client.Client) {
		var w bytes.Buffer
		cl.Print(&w)
		ls.check("Client.Print:"+tag, w.Bytes())
		w.Reset()
		ls.err("Client.Diagnostics:"+tag, cl.Diagnostics(&w))
		ls.check("Client.Diagnostics:"+tag, w.Bytes())
	}
	cl := client.NewWithPassword(c09User, realm, password, cfg, client.DisablePAFXFAST(true), client.Logger(lg))
	dump("password,before-login", cl)
	ls.err("Client.Login", cl.Login())
	for _, spn := range []string{"HTTP/host.test.gokrb5", "HTTP/svc.other.realm", "HTTP/svc.third.realm"} {
		tkt, key, err := cl.GetServiceTicket(spn)
		ls.err("Client.GetServiceTicket", err)
		if err == nil {
			ls.secrets = append(ls.secrets, newSecret("issued-session-key:"+spn, append([]byte{}, key.KeyValue...)))
			if b, e := tkt.Marshal(); e == nil {
				ls.check("Ticket.Marshal(from client)", b)
			}
		}
	}
	sim.mu.Lock()
	for _, tk := range sim.tickets {
		ls.secrets = append(ls.secrets, newSecret(fmt.Sprintf("kdc-session-key-%d", tk.id), append([]byte{}, tk.key.KeyValue...)))
	}
	sim.mu.Unlock()
	dump("password,logged-in", cl)
	cl.Destroy()
	ls.check("client log(password client)", logbuf.Bytes())
	logbuf.Reset()
	// wrong password, unknown principal
	cl2 := client.NewWithPassword(c09User, realm, password+"x", cfg, client.DisablePAFXFAST(true), client.Logger(lg))
	ls.secrets = append(ls.secrets, newSecret("wrong-password", []byte(password+"x")))
	ls.err("Client.Login(wrong password)", cl2.Login())
	dump("wrong-password", cl2)
	cl2.Destroy()
	cl3 := client.NewWithPassword("nobody", realm, password, cfg, client.DisablePAFXFAST(true), client.Logger(lg))
	ls.err("Client.Login(unknown principal)", cl3.Login())
	cl3.Destroy()
	sim.close()
	// no KDC at all
	cfg0, _ := config.NewFromString("[libdefaults]\n default_realm = TEST.GOKRB5\n dns_lookup_kdc = false\n udp_preference_limit = 1\n[realms]\n TEST.GOKRB5 = {\n  kdc = 127.0.0.1:1\n }\n")
	cl4 := client.NewWithKeytab("client1", realm, kt, cfg0, client.DisablePAFXFAST(true), client.Logger(lg))
	ls.err("Client.Login(no KDC, keytab)", cl4.Login())
	dump("keytab", cl4)
	cl4.Destroy()
	ls.check("client log(failures)", logbuf.Bytes())
	logbuf.Reset()

	// --- what the HTTP wrapper hands to the session manager for an accepted request (a session store keeps it, a
	// cookie store sends it to the client): the identity, not the ticket's session key ---
	for _, et := range []int32{18, 23, 17} {
		for _, pacKind := range []string{"", "valid"} {
			c := baseCase(et)
			c.pac = pacKind
			c = uniquify(c, uniqueID())
			_, b, err := mintAPReq(m, rng, c, time.Now())
			if err != nil {
				continue
			}
			ls.secrets = append(ls.secrets, newSecret(fmt.Sprintf("session-store-ticket-session-key-%d-%s", et, pacKind), append([]byte{}, lastMintedSessionKey...)))
			kt0, _ := serviceKeytab()
			fs := &fakeSessions{mode: "getfails"}
			var hl bytes.Buffer
			sp := baseSp(et)
			sp.ap = c
			tok, _ := sp.token(b, rng)
			var seenID []byte
			h := spnego.SPNEGOKRB5Authenticate(http.HandlerFunc(func(w http.ResponseWriter, r *http.Request) {
				if id := goidentity.FromHTTPRequestContext(r); id != nil {
					seenID, _ = id.Marshal()
				}
			}), kt0, append(settingsOpts(c), service.SessionManager(fs), service.Logger(log.New(&hl, "", 0)))...)
			req := httptest.NewRequest("GET", "http://host.test.gokrb5/", nil)
			req.RemoteAddr = "10.0.0.1:4321"
			req.Header.Set("Authorization", sp.header(tok))
			w := httptest.NewRecorder()
			Protect(func() { h.ServeHTTP(w, req) })
			if fs.newCalls == 0 {
				v.Note("session-store surface: the request was not accepted (" + fmt.Sprint(w.Code) + ")")
			}
			ls.check("SessionMgr.New value (session store / cookie)", fs.newVal)
			ls.check("identity.Marshal() of a served request", seenID)
			ls.check("spnego handler log (accepted request)", hl.Bytes())
		}
	}
	// --- service side: errors and log lines for the defect catalogue ---
	svcKt, _ := serviceKeytab()
	for i, e := range svcKt.Entries {
		if i%7 == 0 {
			ls.secrets = append(ls.secrets, newSecret(fmt.Sprintf("service-key-%d", i), append([]byte{}, e.Key.KeyValue...)))
		}
	}
	var slog bytes.Buffer
	slg := log.New(&slog, "", 0)
	for _, et := range []int32{18, 23, 16} {
		for _, d := range c01Defects() {
			c := baseCase(et)
			d.f(&c, rng)
			c = uniquify(c, uniqueID())
			ap, b, err := mintAPReq(m, rng, c, time.Now())
			if err != nil {
				continue
			}
			opts := append(settingsOpts(c), service.Logger(slg))
			s := service.NewSettings(svcKt, opts...)
			Protect(func() {
				_, _, e := service.VerifyAPREQ(&ap, s)
				ls.err("service.VerifyAPREQ:"+d.name, e)
			})
			// the same through the HTTP wrapper
			sp := baseSp(et)
			sp.ap = c
			tok, _ := sp.token(b, rng)
			h := spnego.SPNEGOKRB5Authenticate(http.HandlerFunc(func(w http.ResponseWriter, r *http.Request) {}), svcKt, opts...)
			req := httptest.NewRequest("GET", "http://host.test.gokrb5/", nil)
			req.Header.Set("Authorization", sp.header(tok))
			w := httptest.NewRecorder()
			Protect(func() { h.ServeHTTP(w, req) })
			res := w.Result()
			body, _ := io.ReadAll(res.Body)
			ls.check("spnego http response:"+d.name, append([]byte(fmt.Sprint(res.Header)), body...))
			// after verification the request object holds decrypted parts: its encoding must not
			if b2, e := ap.Marshal(); e == nil {
				ls.secrets = append(ls.secrets, newSecret("ticket-session-key", append([]byte{}, ap.Ticket.DecryptedEncPart.Key.KeyValue...)))
				ls.check("APReq.Marshal(after verify)", b2)
				if tb, e := ap.Ticket.Marshal(); e == nil {
					ls.check("Ticket.Marshal(after decrypt)", tb)
				}
				// a decrypted ticket as an additional ticket of a TGS-REQ body
				body := messages.KDCReqBody{KDCOptions: types.NewKrbFlags(), Realm: realm, SName: ap.Ticket.SName, Till: time.Now().Add(time.Hour), Nonce: 7, EType: []int32{18}, AdditionalTickets: []messages.Ticket{ap.Ticket}}
				if bb, e := body.Marshal(); e == nil {
					ls.check("KDCReqBody.Marshal(additional ticket decrypted)", bb)
				}
				if rv, e := messages.MarshalTicketSequence([]messages.Ticket{ap.Ticket}); e == nil {
					ls.check("MarshalTicketSequence(decrypted)", rv.FullBytes)
					ls.check("MarshalTicketSequence(decrypted)", rv.Bytes)
				}
			}
			if len(ls.secrets) > 400 {
				ls.secrets = ls.secrets[:400]
			}
		}
	}
	ls.check("service/spnego log", slog.Bytes())

	// --- KDC replies re-encoded after decryption ---
	for _, et := range allEtypes {
		cname := types.PrincipalName{NameType: 1, NameString: []string{c09User}}
		for _, tgs := range []bool{false, true} {
			rc := baseRep(tgs, et, "password")
			key := types.EncryptionKey{KeyType: et, KeyValue: randKey(rng, et)}
			ls.secrets = append(ls.secrets, newSecret("reply-key", key.KeyValue))
			var sk types.EncryptionKey
			rq := kdcReqInfo{cname: cname, realm: realm, nonce: 5, sname: types.PrincipalName{NameType: 2, NameString: []string{"HTTP", "host.test.gokrb5"}}}
			b, err := mintKDCRepKey(rng, rc, rq, key, nil, time.Now(), &sk)
			if err != nil {
				continue
			}
			ls.secrets = append(ls.secrets, newSecret("reply-session-key", sk.KeyValue))
			if tgs {
				var rep messages.TGSRep
				if rep.Unmarshal(b) == nil && rep.DecryptEncPart(key) == nil {
					if b2, e := rep.Marshal(); e == nil {
						ls.check("TGSRep.Marshal(after decrypt)", b2)
					}
					if jb, e := json.Marshal(rep); e == nil {
						ls.check("json(TGSRep after decrypt)", jb)
					}
				}
			} else {
				var rep messages.ASRep
				if rep.Unmarshal(b) == nil {
					ed, _ := crypto.DecryptEncPart(rep.EncPart, key, 3)
					var denc messages.EncKDCRepPart
					if denc.Unmarshal(ed) == nil {
						rep.DecryptedEncPart = denc
						if b2, e := rep.Marshal(); e == nil {
							ls.check("ASRep.Marshal(after decrypt)", b2)
						}
					}
				}
			}
		}
		// KRB-PRIV and KRB-CRED
		key := types.EncryptionKey{KeyType: et, KeyValue: randKey(rng, et)}
		ls.secrets = append(ls.secrets, newSecret("priv-key", key.KeyValue))
		user := rng.Bytes(24)
		ls.secrets = append(ls.secrets, newSecret("priv-user-data", user))
		pp := messages.EncKrbPrivPart{UserData: user, SAddress: types.HostAddress{AddrType: 2, Address: []byte{10, 0, 0, 1}}}
		kp := messages.NewKRBPriv(pp)
		if kp.EncryptEncPart(key) == nil {
			if b, e := kp.Marshal(); e == nil {
				ls.check("KRBPriv.Marshal", b)
				var back messages.KRBPriv
				if back.Unmarshal(b) == nil && back.DecryptEncPart(key) == nil {
					if b2, e := back.Marshal(); e == nil {
						ls.check("KRBPriv.Marshal(after decrypt)", b2)
					}
				}
			}
		}
		if len(ls.secrets) > 460 {
			ls.secrets = ls.secrets[:460]
		}
	}
	// --- KDC replies that the client refuses (each defect of the C09 catalogue, AS and TGS): the error and the
	// log lines of Login / GetServiceTicket ---
	ls.secrets = append(ls.secrets, newSecret("client-password-2", []byte(clientPassword)))
	for _, tgs := range []bool{false, true} {
		for _, d := range c09Defects() {
			if d.asOnly && tgs {
				continue
			}
			rc := baseRep(tgs, 18, "password")
			d.f(&rc, rng)
			var lb bytes.Buffer
			var sk types.EncryptionKey
			cn := types.PrincipalName{NameType: 1, NameString: []string{c09User}}
			kdc := startFuncKDC(func(req []byte) []byte {
				now := time.Now()
				var a messages.ASReq
				if a.Unmarshal(req) == nil {
					rq := kdcReqInfo{cname: a.ReqBody.CName, realm: a.ReqBody.Realm, nonce: a.ReqBody.Nonce, sname: a.ReqBody.SName, addrs: a.ReqBody.Addresses, padata: a.PAData}
					pas := hintsFor(rc.hints, rc.et, c09Realm, cn)
					cc := rc
					if tgs {
						cc = baseRep(false, rc.et, "password")
					}
					key, err := kdcClientKey(cc, cn, pas)
					if err != nil {
						return nil
					}
					reply, err := mintKDCRepKey(rng, cc, rq, key, pas, now, &sk)
					if err != nil {
						return nil
					}
					return reply
				}
				var tg messages.TGSReq
				if tg.Unmarshal(req) == nil {
					rq := kdcReqInfo{cname: tg.ReqBody.CName, realm: tg.ReqBody.Realm, nonce: tg.ReqBody.Nonce, sname: tg.ReqBody.SName, addrs: tg.ReqBody.Addresses}
					reply, err := mintKDCRep(rng, rc, rq, sk, nil, now)
					if err != nil {
						return nil
					}
					return reply
				}
				return nil
			})
			cl2 := client.NewWithPassword(c09User, c09Realm, clientPassword, c09Config(rc.skew, kdc.port), client.DisablePAFXFAST(true), client.Logger(log.New(&lb, "", 0)))
			Protect(func() {
				err := cl2.Login()
				ls.err("Client.Login(refused reply:"+d.name+")", err)
				if err == nil && tgs {
					_, _, e := cl2.GetServiceTicket("HTTP/host.test.gokrb5")
					ls.err("Client.GetServiceTicket(refused reply:"+d.name+")", e)
				}
				var w bytes.Buffer
				ls.err("Client.Diagnostics(after refused reply)", cl2.Diagnostics(&w))
				ls.check("Client.Diagnostics(after refused reply)", w.Bytes())
			})
			cl2.Destroy()
			kdc.close()
			ls.check("client log (refused reply:"+d.name+")", lb.Bytes())
		}
	}
	// --- pre-authentication hints that cannot be honoured (an unauthenticated KDC_ERR_PREAUTH_REQUIRED may say
	// anything): string-to-key fails, and what the failure says goes to the caller and the log ---
	{
		type badHint struct {
			name   string
			et     int32
			params []byte
		}
		for _, bh := range []badHint{{"iterations-above-the-limit", 18, []byte{2, 0, 0, 0}}, {"iterations-2^32-1", 17, []byte{0xff, 0xff, 0xff, 0xff}}, {"three-octet-params", 18, []byte{0, 0, 0x10}},
			{"des3-with-params", 16, []byte{0, 0, 0, 0}}, {"rc4-with-params", 23, []byte{0, 0, 0, 1}}, {"sha2-five-octet-params", 20, []byte{0, 0, 0, 0x80, 0}}, {"sha2-iterations-above-the-limit", 19, []byte{0x7f, 0, 0, 0}}} {
			ei, _ := asn1.Marshal(types.ETypeInfo2{{EType: bh.et, Salt: "SALT." + c09Realm + c09User, S2KParams: bh.params}})
			pas := types.PADataSequence{{PADataType: 19, PADataValue: ei}}
			cn := types.PrincipalName{NameType: 1, NameString: []string{c09User}}
			surface := "(hint that cannot be honoured: " + bh.name + ")"
			Protect(func() {
				_, _, kerr := crypto.GetKeyFromPassword(clientPassword, cn, c09Realm, bh.et, pas)
				ls.err("crypto.GetKeyFromPassword"+surface, kerr)
			})
			kdc := startFuncKDC(func(req []byte) []byte {
				var a messages.ASReq
				if a.Unmarshal(req) != nil {
					return nil
				}
				e := messages.NewKRBError(a.ReqBody.SName, c09Realm, 25, "Additional pre-authentication required")
				e.CName, e.CRealm = a.ReqBody.CName, a.ReqBody.Realm
				e.EData, _ = asn1.Marshal(pas)
				b, _ := e.Marshal()
				return b
			})
			var lb bytes.Buffer
			cfgH := c09Config(5*time.Minute, kdc.port)
			cfgH.LibDefaults.DefaultTktEnctypeIDs = []int32{bh.et, 18}
			cfgH.LibDefaults.PermittedEnctypeIDs = append(cfgH.LibDefaults.PermittedEnctypeIDs, bh.et)
			cl6 := client.NewWithPassword(c09User, c09Realm, clientPassword, cfgH, client.DisablePAFXFAST(true), client.Logger(log.New(&lb, "", 0)))
			Protect(func() {
				ls.err("Client.Login"+surface, cl6.Login())
				ls.err("Client.AffirmLogin"+surface, cl6.AffirmLogin())
				var w bytes.Buffer
				ls.err("Client.Diagnostics"+surface, cl6.Diagnostics(&w))
				ls.check("Client.Diagnostics output"+surface, w.Bytes())
			})
			cl6.Destroy()
			kdc.close()
			ls.check("client log"+surface, lb.Bytes())
		}
	}
	// --- Diagnostics of a keytab client whose keytab holds two different keys for one principal, key version
	// and enctype (two exports merged) ---
	{
		kt2 := keytab.New()
		kt2.AddEntry(c09User, c09Realm, "first-"+password, time.Unix(1600000000, 0), 3, 18)
		kt2.AddEntry(c09User, c09Realm, "second-"+password, time.Unix(1600000100, 0), 3, 18)
		kt2.AddEntry(c09User, c09Realm, "third-"+password, time.Unix(1600000100, 0), 3, 17)
		for i, e := range kt2.Entries {
			ls.secrets = append(ls.secrets, newSecret(fmt.Sprintf("conflicting-keytab-key-%d", i), append([]byte{}, e.Key.KeyValue...)))
		}
		cl3 := client.NewWithKeytab(c09User, c09Realm, kt2, c09Config(5*time.Minute, 0), client.DisablePAFXFAST(true))
		var w bytes.Buffer
		Protect(func() {
			ls.err("Client.Diagnostics(conflicting keytab entries)", cl3.Diagnostics(&w))
			ls.check("Client.Diagnostics(conflicting keytab entries)", w.Bytes())
			w.Reset()
			cl3.Print(&w)
			ls.check("Client.Print(conflicting keytab entries)", w.Bytes())
		})
	}
	// --- keytab clients whose keytab does not fit the login: made for another realm, for another spelling of the
	// realm, for another principal, for another etype only, or empty: what Diagnostics, Print, a Login attempt
	// and its log say
	{
		type oddKt struct {
			name, princ, realm string
			et                 int32
		}
		for _, o := range []oddKt{{"other-realm", c09User, "OTHER.REALM", 18}, {"lower-case-realm", c09User, strings.ToLower(c09Realm), 18},
			{"other-principal", "someoneelse", c09Realm, 18}, {"two-component-principal", c09User + "/admin", c09Realm, 17}, {"rc4-only", c09User, c09Realm, 23}, {"empty", "", "", 0}} {
			kt3 := keytab.New()
			if o.et != 0 {
				kt3.AddEntry(o.princ, o.realm, "odd-"+o.name+"-"+password, time.Unix(1600000000, 0), 2, o.et)
				kt3.AddEntry(o.princ, o.realm, "odd2-"+o.name+"-"+password, time.Unix(1600000200, 0), 3, o.et)
			}
			for i, e := range kt3.Entries {
				ls.secrets = append(ls.secrets, newSecret(fmt.Sprintf("odd-keytab-%s-key-%d", o.name, i), append([]byte{}, e.Key.KeyValue...)))
			}
			var lb bytes.Buffer
			cl5 := client.NewWithKeytab(c09User, c09Realm, kt3, c09Config(5*time.Minute, 0), client.DisablePAFXFAST(true), client.Logger(log.New(&lb, "", 0)))
			var w bytes.Buffer
			surface := "keytab client (keytab: " + o.name + ")"
			Protect(func() {
				ls.err("Client.Diagnostics, "+surface, cl5.Diagnostics(&w))
				ls.check("Client.Diagnostics output, "+surface, w.Bytes())
				w.Reset()
				cl5.Print(&w)
				ls.check("Client.Print, "+surface, w.Bytes())
				ls.err("Client.Login, "+surface, cl5.Login())
				ls.err("Client.AffirmLogin, "+surface, cl5.AffirmLogin())
				_, _, kerr := cl5.Key(mustEtype(18), 0, nil)
				ls.err("Client.Key, "+surface, kerr)
				_, _, kerr = cl5.Key(mustEtype(18), 7, nil)
				ls.err("Client.Key(kvno 7), "+surface, kerr)
				ls.check("client log, "+surface, lb.Bytes())
				cl5.Destroy()
			})
		}
	}
	// --- password change: a peer that sends the client's own KRB-PRIV back as the "reply" (the request holds
	// the new password; the reply is decrypted with the same subkey) ---
	{
		newPw := fmt.Sprintf("New-%x-secret", rng.Bytes(6))
		ls.secrets = append(ls.secrets, newSecret("new-password", []byte(newPw)))
		cn := types.PrincipalName{NameType: 1, NameString: []string{c09User}}
		kdc := startFuncKDC(func(req []byte) []byte {
			var a messages.ASReq
			if a.Unmarshal(req) != nil {
				return nil
			}
			rq := kdcReqInfo{cname: a.ReqBody.CName, realm: a.ReqBody.Realm, nonce: a.ReqBody.Nonce, sname: a.ReqBody.SName, addrs: a.ReqBody.Addresses, padata: a.PAData}
			rc := baseRep(false, 18, "password")
			pas := hintsFor(rc.hints, rc.et, c09Realm, cn)
			key, err := kdcClientKey(rc, cn, pas)
			if err != nil {
				return nil
			}
			var sk types.EncryptionKey
			reply, err := mintKDCRepKey(rng, rc, rq, key, pas, time.Now(), &sk)
			if err != nil {
				return nil
			}
			return reply
		})
		// the password service: reflects the KRB-PRIV of the request behind a syntactically valid AP-REP
		kp := startFuncKDC(func(req []byte) []byte {
			if len(req) < 6 {
				return nil
			}
			al := int(binary.BigEndian.Uint16(req[4:6]))
			if 6+al > len(req) {
				return nil
			}
			priv := req[6+al:]
			ar, _ := marshalAPRep(messages.APRep{EncPart: types.EncryptedData{EType: 18, Cipher: []byte("12345678")}})
			out := []byte{0, 0, 0, 1, byte(len(ar) >> 8), byte(len(ar))}
			out = append(append(out, ar...), priv...)
			binary.BigEndian.PutUint16(out, uint16(len(out)))
			return out
		})
		conf := fmt.Sprintf("[libdefaults]\n default_realm = %s\n dns_lookup_kdc = false\n udp_preference_limit = 1\n noaddresses = true\n[realms]\n %s = {\n  kdc = 127.0.0.1:%d\n  kpasswd_server = 127.0.0.1:%d\n }\n", c09Realm, c09Realm, kdc.port, kp.port)
		cfgP, _ := config.NewFromString(conf)
		var lb bytes.Buffer
		cl4 := client.NewWithPassword(c09User, c09Realm, clientPassword, cfgP, client.DisablePAFXFAST(true), client.Logger(log.New(&lb, "", 0)))
		Protect(func() {
			ok, err := cl4.ChangePasswd(newPw)
			ls.err("Client.ChangePasswd(reflected request)", err)
			v.Note(fmt.Sprintf("password change against a reflecting peer: ok=%v err=%v", ok, cut(fmt.Sprint(err), 160)))
		})
		ls.check("client log (password change)", lb.Bytes())
		cl4.Destroy()
		// ... and password services that fail in other ways: nobody listens, the answer is not a reply at all, the
		// answer is cut short, none is configured
		kpGarbage := startFuncKDC(func(req []byte) []byte { return []byte("this is not a kpasswd reply") })
		kpShort := startFuncKDC(func(req []byte) []byte { return []byte{0, 9, 0, 1, 0, 4} })
		closedPort, cl0, cu0 := reservePort()
		cl0.Close()
		cu0.Close()
		for _, f := range []struct {
			name string
			line string
		}{{"nobody listens", fmt.Sprintf("  kpasswd_server = 127.0.0.1:%d\n", closedPort)}, {"garbage answer", fmt.Sprintf("  kpasswd_server = 127.0.0.1:%d\n", kpGarbage.port)},
			{"short answer", fmt.Sprintf("  kpasswd_server = 127.0.0.1:%d\n", kpShort.port)}, {"none configured", ""}} {
			confF := fmt.Sprintf("[libdefaults]\n default_realm = %s\n dns_lookup_kdc = false\n udp_preference_limit = 1\n noaddresses = true\n[realms]\n %s = {\n  kdc = 127.0.0.1:%d\n%s }\n", c09Realm, c09Realm, kdc.port, f.line)
			cfgF, cerr := config.NewFromString(confF)
			if cerr != nil {
				continue
			}
			var lbF bytes.Buffer
			clF := client.NewWithPassword(c09User, c09Realm, clientPassword, cfgF, client.DisablePAFXFAST(true), client.Logger(log.New(&lbF, "", 0)))
			Protect(func() {
				_, err := clF.ChangePasswd(newPw)
				ls.err("Client.ChangePasswd(password service: "+f.name+")", err)
			})
			ls.check("client log (password change, password service: "+f.name+")", lbF.Bytes())
			clF.Destroy()
		}
		kpGarbage.close()
		kpShort.close()
		kdc.close()
		kp.close()
	}
	// --- HTTP Basic authenticator: the header value holds the password; it may arrive in any of the encodings
	// clients produce (padding left out, URL-safe alphabet, white space, junk after it) ---
	{
		cfgB, _ := config.NewFromString("[libdefaults]\n default_realm = R\n dns_lookup_kdc = false\n[realms]\n R = {\n }\n")
		for _, user := range []string{"user", "DOM\\user", "user@DOM.EXAMPLE", "", "u:"} {
			plain := []byte(user + ":" + password)
			std := base64.StdEncoding.EncodeToString(plain)
			for _, hv := range []string{std, strings.TrimRight(std, "="), base64.URLEncoding.EncodeToString(plain), base64.RawURLEncoding.EncodeToString(plain),
				std + "!", " " + std, std[:len(std)-1], std + std, "=" + std, base64.StdEncoding.EncodeToString([]byte(password))} {
				a := service.NewKRB5BasicAuthenticator(hv, cfgB, service.NewSettings(keytab.New()), nil)
				_, _, err := a.Authenticate()
				ls.err("KRB5BasicAuthenticator.Authenticate", err)
			}
		}
	}
	// --- ccache parse errors (a cache holds session keys) ---
	for _, hdr := range []bool{false, true} {
		ccb := ccacheWithKey(sess, hdr)
		for n := 0; n < len(ccb); n += 1 {
			var cc credentials.CCache
			Protect(func() { ls.err("CCache.Unmarshal(truncated)", cc.Unmarshal(ccb[:n])) })
		}
		// corrupted files: every byte of the header area and of the length fields set to boundary values (a
		// length that reaches over the keys makes whatever is dumped of the "field" hold them), random flips
		for p := 2; p < len(ccb); p++ {
			vals := []byte{0x00, 0x01, 0x08, 0x7f, 0xff}
			if p >= 48 {
				vals = []byte{byte(rng.Intn(256))}
			}
			for _, x := range vals {
				if ccb[p] == x {
					continue
				}
				c := append([]byte{}, ccb...)
				c[p] = x
				var cc credentials.CCache
				Protect(func() { ls.err("CCache.Unmarshal(corrupted)", cc.Unmarshal(c)) })
			}
		}
		// the same with the file grown by a tail (so that over-long announced lengths still fit in the file)
		for p := 2; p < 48 && p < len(ccb); p++ {
			for _, x := range []byte{0x01, 0x08, 0x10, 0x7f, 0xff} {
				c := append(append([]byte{}, ccb...), make([]byte, 70000)...)
				c[p] = x
				var cc credentials.CCache
				Protect(func() { ls.err("CCache.Unmarshal(corrupted, padded)", cc.Unmarshal(c)) })
			}
		}
	}
	if c20TieBroken != "" {
		v.Violate("correspondence", "c20:forms-tie", "the forms searched for are not the ones the theorems speak of: "+c20TieBroken, nil)
	}
	v.Note(fmt.Sprintf("outputs searched: %d (%d bytes) for %d secrets in %d forms", ls.outputs, ls.bytes, len(ls.secrets), len(ls.secrets[0].forms)))
	v.Sample(fmt.Sprintf("outputs=%d bytes=%d secrets=%d", ls.outputs, ls.bytes, len(ls.secrets)))
	v.ModelAsks = m.N
	v.Write(t)
}

// ccacheWithKey renders a version 4 cache with one credential holding the key (by the independent writer's layout).
func ccacheWithKey(k types.EncryptionKey, header bool) []byte {
	var b bytes.Buffer
	b.Write([]byte{5, 4, 0, 0})
	if header {
		// the usual header: one field, tag 1 (KDC time offset), 8 bytes
		b.Reset()
		b.Write([]byte{5, 4, 0, 12, 0, 1, 0, 8, 0, 0, 0, 0, 0, 0, 0, 0})
	}
	pr := func(comps ...string) {
		b.Write([]byte{0, 0, 0, 1, 0, 0, 0, byte(len(comps))})
		r := "TEST.GOKRB5"
		b.Write([]byte{0, 0, 0, byte(len(r))})
		b.WriteString(r)
		for _, c := range comps {
			b.Write([]byte{0, 0, 0, byte(len(c))})
			b.WriteString(c)
		}
	}
	pr("client1")
	pr("client1")
	pr("HTTP", "host.test.gokrb5")
	b.Write([]byte{0, byte(k.KeyType), 0, 0, 0, byte(len(k.KeyValue))})
	b.Write(k.KeyValue)
	for i := 0; i < 4; i++ {
		b.Write([]byte{0x5f, 0, 0, byte(i)})
	}
	b.Write([]byte{0, 0x40, 0xe1, 0, 0})
	b.Write([]byte{0, 0, 0, 0, 0, 0, 0, 0})
	b.Write([]byte{0, 0, 0, 4, 1, 2, 3, 4})
	b.Write([]byte{0, 0, 0, 0})
	return b.Bytes()
}
