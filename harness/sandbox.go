package harness

import (
	"bufio"
	"io"
	"os"
	"os/exec"
	"strings"
	"sync"
	"testing"
	"time"
)

// A Sandbox is a child copy of the harness binary that runs calls into the code under test which may
// exhaust memory or never return (things `recover` cannot catch). The child runs with an address
// space limit; when it dies or exceeds the per-call timeout the parent reports "crash:<why>" /
// "timeout" for that call, restarts the child and goes on.
type Sandbox struct {
	mu    sync.Mutex
	cmd   *exec.Cmd
	in    io.WriteCloser
	out   *bufio.Reader
	Calls int
	Died  int
	used  bool // the current child has served a call before
	// what the child said while working on the last call, before its answer (or its death): the last
	// progress marker ("SBXQ <n>": about to start item n) and the partial results ("SBXP <text>")
	Last    string
	Partial []string
}

var sandboxHandlers = map[string]func(args []string) string{}

const sandboxMemBytes = 3 << 30

func (s *Sandbox) start() error {
	cmd := exec.Command(os.Args[0], "-test.run", "^TestSandboxWorker$", "-test.count=1")
	cmd.Env = append(os.Environ(), "VERIF_SANDBOX=1")
	in, err := cmd.StdinPipe()
	if err != nil {
		return err
	}
	out, err := cmd.StdoutPipe()
	if err != nil {
		return err
	}
	cmd.Stderr = io.Discard
	if err := cmd.Start(); err != nil {
		return err
	}
	s.cmd, s.in, s.out = cmd, in, bufio.NewReaderSize(out, 1<<20)
	return nil
}

func StartSandbox(t testing.TB) *Sandbox {
	s := &Sandbox{}
	if err := s.start(); err != nil {
		t.Fatalf("sandbox: %v", err)
	}
	return s
}

func (s *Sandbox) kill() {
	if s.cmd != nil && s.cmd.Process != nil {
		s.cmd.Process.Kill()
		s.cmd.Wait()
	}
	s.cmd = nil
}

// Call sends one request line "<handler> <args…>" and waits for the one-line answer. When a child that
// has served earlier calls dies or stalls, the death may be the late effect of an earlier input (a
// goroutine it left behind), so the call is repeated once on a fresh child and that answer counts: a
// crash or timeout is only ever attributed to an input that causes it on its own.
func (s *Sandbox) Call(line string, timeout time.Duration) string {
	s.mu.Lock()
	defer s.mu.Unlock()
	s.Calls++
	used := s.used && s.cmd != nil
	ans := s.callOnce(line, timeout)
	if used && (strings.HasPrefix(ans, "crash:") || ans == "timeout") {
		ans = s.callOnce(line, timeout)
	}
	return ans
}

func (s *Sandbox) callOnce(line string, timeout time.Duration) string {
	if s.cmd == nil {
		s.used = false
		if err := s.start(); err != nil {
			return "crash:restart-failed"
		}
	}
	s.used = true
	if _, err := io.WriteString(s.in, line+"\n"); err != nil {
		s.kill()
		s.Died++
		return "crash:write"
	}
	type res struct {
		s   string
		err error
	}
	ch := make(chan res, 1)
	out := s.out
	var pm sync.Mutex
	last, partial := new(string), new([]string)
	defer func() {
		pm.Lock()
		s.Last, s.Partial = *last, append([]string{}, *partial...)
		pm.Unlock()
	}()
	go func() {
		for {
			l, err := out.ReadString('\n')
			if err != nil {
				ch <- res{"", err}
				return
			}
			if strings.HasPrefix(l, "SBX ") {
				ch <- res{strings.TrimRight(l[4:], "\n"), nil}
				return
			}
			if strings.HasPrefix(l, "SBXQ ") {
				pm.Lock()
				*last = strings.TrimSpace(l[5:])
				pm.Unlock()
			} else if strings.HasPrefix(l, "SBXP ") {
				pm.Lock()
				*partial = append(*partial, strings.TrimSpace(l[5:]))
				pm.Unlock()
			}
		}
	}()
	select {
	case r := <-ch:
		if r.err != nil {
			s.kill()
			s.Died++
			return "crash:died"
		}
		return r.s
	case <-time.After(timeout):
		s.kill()
		s.Died++
		return "timeout"
	}
}

func (s *Sandbox) Close() {
	s.mu.Lock()
	defer s.mu.Unlock()
	if s.in != nil {
		s.in.Close()
	}
	s.kill()
}
