package harness

import (
	"bufio"
	"io"
	"os"
	"os/exec"
	"strings"
	"sync"
	"testing"
	"time"
)

// A Sandbox is a child copy of the harness binary that runs calls into the code under test which may
// exhaust memory or never return (things `recover` cannot catch). The child runs with an address
// space limit; when it dies or exceeds the per-call timeout the parent reports "crash:<why>" /
// "timeout" for that call, restarts the child and goes on.
type Sandbox struct {
	mu    sync.Mutex
	cmd   *exec.Cmd
	in    io.WriteCloser
	out   *bufio.Reader
	Calls int
	Died  int
}

var sandboxHandlers = map[string]func(args []string) string{}

const sandboxMemBytes = 3 << 30

func (s *Sandbox) start() error {
	cmd := exec.Command(os.Args[0], "-test.run", "^TestSandboxWorker$", "-test.count=1")
	cmd.Env = append(os.Environ(), "VERIF_SANDBOX=1")
	in, err := cmd.StdinPipe()
	if err != nil {
		return err
	}
	out, err := cmd.StdoutPipe()
	if err != nil {
		return err
	}
	cmd.Stderr = io.Discard
	if err := cmd.Start(); err != nil {
		return err
	}
	s.cmd, s.in, s.out = cmd, in, bufio.NewReaderSize(out, 1<<20)
	return nil
}

func StartSandbox(t testing.TB) *Sandbox {
	s := &Sandbox{}
	if err := s.start(); err != nil {
		t.Fatalf("sandbox: %v", err)
	}
	return s
}

func (s *Sandbox) kill() {
	if s.cmd != nil && s.cmd.Process != nil {
		s.cmd.Process.Kill()
		s.cmd.Wait()
	}
	s.cmd = nil
}

// Call sends one request line "<handler> <args…>" and waits for the one-line answer.
func (s *Sandbox) Call(line string, timeout time.Duration) string {
	s.mu.Lock()
	defer s.mu.Unlock()
	s.Calls++
	if s.cmd == nil {
		if err := s.start(); err != nil {
			return "crash:restart-failed"
		}
	}
	if _, err := io.WriteString(s.in, line+"\n"); err != nil {
		s.kill()
		s.Died++
		return "crash:write"
	}
	type res struct {
		s   string
		err error
	}
	ch := make(chan res, 1)
	out := s.out
	go func() {
		for {
			l, err := out.ReadString('\n')
			if err != nil {
				ch <- res{"", err}
				return
			}
			if strings.HasPrefix(l, "SBX ") {
				ch <- res{strings.TrimRight(l[4:], "\n"), nil}
				return
			}
		}
	}()
	select {
	case r := <-ch:
		if r.err != nil {
			s.kill()
			s.Died++
			return "crash:died"
		}
		return r.s
	case <-time.After(timeout):
		s.kill()
		s.Died++
		return "timeout"
	}
}

func (s *Sandbox) Close() {
	s.mu.Lock()
	defer s.mu.Unlock()
	if s.in != nil {
		s.in.Close()
	}
	s.kill()
}
