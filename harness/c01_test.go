package harness

import (
	"fmt"
	"strings"
	"sync/atomic"
	"testing"
	"testing/synctest"
	"time"

	"github.com/jcmturner/gokrb5/v8/credentials"
	"github.com/jcmturner/gokrb5/v8/keytab"
	"github.com/jcmturner/gokrb5/v8/messages"
	"github.com/jcmturner/gokrb5/v8/pac"
	"github.com/jcmturner/gokrb5/v8/service"
	"github.com/jcmturner/gokrb5/v8/types"
)

var uniqueClient int64

// settingsFor builds the service settings and the model's settings tokens.
func settingsFor(c apCase) (*service.Settings, string) {
	kt, _ := serviceKeytab()
	_, toks := settingsOptsToks(c)
	return service.NewSettings(kt, settingsOpts(c)...), toks
}

func serviceKeytabOnly() *keytab.Keytab { kt, _ := serviceKeytab(); return kt }

func atomicAdd(p *int64) int64 { return atomic.AddInt64(p, 1) }

func settingsOpts(c apCase) []func(*service.Settings) { o, _ := settingsOptsToks(c); return o }

func settingsOptsToks(c apCase) ([]func(*service.Settings), string) {
	opts := []func(*service.Settings){service.MaxClockSkew(c.skew), service.RequireHostAddr(c.reqHost), service.DecodePAC(c.decodePAC), service.Logger(discard)}
	caddr := "-"
	if c.clientAddr != nil {
		opts = append(opts, service.ClientAddress(*c.clientAddr))
		caddr = fmt.Sprintf("%d~%s", c.clientAddr.AddrType, X(c.clientAddr.Address))
	}
	ovr := "-"
	if c.override != "" {
		opts = append(opts, service.KeytabPrincipal(c.override))
		var cs []string
		for _, p := range strings.Split(c.override, "/") {
			cs = append(cs, XS(p))
		}
		ovr = "o" + List(cs)
	}
	return opts, fmt.Sprintf("%d %s %s %s %s", c.skew/time.Microsecond, caddr, B(c.reqHost), B(c.decodePAC), ovr)
}

// runAPCase mints the request and has the real service verify it under the fake clock; returns the Go
// verdict and the model op line.
func runAPCase(t *testing.T, m *Model, rng *RNG, c apCase, replay bool) (goRes string, op string, mintErr error) {
	_, ktToks := serviceKeytab()
	// a unique client name per case keeps the process-wide replay cache from coupling cases
	id := atomic.AddInt64(&uniqueClient, 1)
	if len(c.cname) > 0 {
		c.cname = append([]string{}, c.cname...)
		c.cname[0] = fmt.Sprintf("%s-%d", c.cname[0], id)
		if c.aCname != nil && len(c.aCname) > 0 && strings.HasPrefix(c.aCname[0], "=") {
			c.aCname = append([]string{}, c.aCname...)
			c.aCname[0] = c.cname[0] + c.aCname[0][1:]
		}
	} else {
		c.crealm = fmt.Sprintf("R%d.%s", id, c.crealm) // same reason, for the empty client name
	}
	synctest.Test(t, func(t *testing.T) {
		if c.frac > 0 {
			time.Sleep(c.frac) // (the fake clock starts on a whole second)
		}
		now := time.Now()
		ap, b, err := mintAPReq(m, rng, c, now)
		if err != nil {
			mintErr = err
			return
		}
		plain := lastMintedPlain
		s, stoks := settingsFor(c)
		verify := func() string {
			var ok bool
			var err error
			var res string
			p := Protect(func() {
				a2 := ap // VerifyAPREQ mutates the request (decrypted parts)
				if c.clearAppended {
					// what arrives is bytes: the request as the decoder delivers it
					a2 = messages.APReq{}
					if e := a2.Unmarshal(b); e != nil {
						err = e
						return
					}
				}
				var cr interface {
					CName() types.PrincipalName
					Domain() string
					ValidUntil() time.Time
				}
				okk, creds, e := service.VerifyAPREQ(&a2, s)
				ok, err = okk, e
				if okk && creds != nil {
					cr = creds
					cs := make([]string, len(cr.CName().NameString))
					for i, x := range cr.CName().NameString {
						cs[i] = XS(x)
					}
					res = fmt.Sprintf("ok %s %s %d", List(cs), XS(cr.Domain()), Micros(cr.ValidUntil()))
					if cr.CName().NameType != c.cnt {
						// the whole name is the sealed one, its type included (the authenticator's is the client's own claim)
						res = fmt.Sprintf("ok-but-name-type-differs reported=%d sealed=%d authenticator=%d", cr.CName().NameType, c.cnt, c.aCnt)
					}
					if strings.HasPrefix(c.pac, "valid") && c.decodePAC && len(lastMintedPAC) > 0 {
						if d := adCredentialsDiffer(creds.GetADCredentials(), lastMintedPAC); d != "" {
							res = "ok-but-ad-credentials-differ " + d
						}
					}
				}
			})
			if p != "" {
				return "panic " + p
			}
			if !ok || err != nil {
				return "err"
			}
			return res
		}
		goRes = verify()
		if replay {
			if c.replayAs != nil {
				// the same ticket and authenticator under another service name in the clear part of the ticket
				ap.Ticket.SName.NameString = c.replayAs
				if b2, e := ap.Marshal(); e == nil {
					b = b2
				}
			}
			// (a clean-up of the replay cache may run at any moment between two presentations: it changes nothing for an
			// authenticator that is still acceptable)
			service.GetReplayCache(c.skew).ClearOldEntries(c.skew)
			goRes = verify() // the same request presented again
		}
		ob := b
		if c.clearAppended && c.replayAs == nil {
			// what is appended in the clear must change nothing: the independent acceptor judges the request without
			// it (Go's decoder takes the extra element, a strict DER decoder refuses the whole ticket: either way the
			// verdict on what the key opens is the one that counts)
			ob = plain
		}
		op = fmt.Sprintf("ap.verify %d %s %s %s - %s", now.UnixNano()/1000, stoks, B(replay), X(ob), ktToks)
	})
	return
}

func c01Compare(t *testing.T, m *Model, v *Verdict, rng *RNG, c apCase, replay bool) {
	desc := c.describe()
	if replay {
		desc += ",replayed"
	}
	goRes, op, mintErr := runAPCase(t, m, rng, c, replay)
	if mintErr != nil {
		v.Note("case not minted: " + desc + ": " + mintErr.Error())
		return
	}
	mo := m.Ask(op)
	mc := mo
	if strings.HasPrefix(mc, "err") {
		mc = "err"
	}
	v.Case(fmt.Sprintf("%d/%s", c.et, desc), fmt.Sprintf("et=%d -> %s", c.et, strings.Fields(goRes)[0]))
	if desc == "valid" && c.et == 18 {
		short := op
		if i := strings.Index(op, " - "); i > 0 {
			short = op[:i] + " - <keytab: 120 entries>"
		}
		v.Sample(short + " -> " + mo)
	}
	if goRes != mc {
		kind := "accepts-invalid"
		what := "the service accepts an AP-REQ that RFC 4120 3.2.3 (independent acceptor) says is invalid"
		switch {
		case strings.HasPrefix(goRes, "panic"):
			kind, what = "panic", "AP-REQ verification panicked"
		case strings.HasPrefix(goRes, "ok") && strings.HasPrefix(mc, "ok"):
			kind, what = "identity", "the identity or expiry reported to the application is not the one sealed in the ticket"
		case goRes == "err":
			kind, what = "rejects-valid", "the service rejects an AP-REQ that RFC 4120 3.2.3 (independent acceptor) says is valid"
		}
		// the op line carries the whole keytab; keep the replay small
		v.Violate("failing-input", "c01:"+kind+":"+desc, what, map[string]string{"case": desc, "etype": itoa(c.et), "go": goRes, "model": mo, "op": op})
	}
}

// the defect catalogue: functions that turn a valid case into a defective one
type defect struct {
	name string
	f    func(c *apCase, rng *RNG)
}

func c01Defects() []defect {
	v4 := types.HostAddress{AddrType: 2, Address: []byte{10, 0, 0, 1}}
	v4b := types.HostAddress{AddrType: 2, Address: []byte{10, 0, 0, 2}}
	nb := types.HostAddress{AddrType: 20, Address: []byte("WORKSTATION     ")}
	v6 := types.HostAddress{AddrType: 24, Address: []byte{0x20, 1, 0xd, 0xb8, 0, 0, 0, 0, 0, 0, 0, 0, 0, 0, 0, 1}}
	return []defect{
		{"wrongkey", func(c *apCase, r *RNG) { c.wrongKey = true }},
		{"otherkvnokey", func(c *apCase, r *RNG) { c.otherKvnoKey = true }},
		{"kvno2", func(c *apCase, r *RNG) { c.kvno = 2 }},
		{"tktkvno-absent", func(c *apCase, r *RNG) { c.tktKvno = 0 }},
		{"tktkvno-unknown", func(c *apCase, r *RNG) { c.tktKvno = 9 }},
		// key versions are 32-bit numbers: 258 is not 2
		{"tktkvno=kvno+256", func(c *apCase, r *RNG) { c.kvno = 2; c.tktKvno = 258 }},
		{"tktkvno=kvno+65536", func(c *apCase, r *RNG) { c.kvno = 1; c.tktKvno = 65537 }},
		// names are octet strings: white space at their ends is part of them
		{"cname-trailing-space", func(c *apCase, r *RNG) { c.cname = []string{"testuser1", "root "} }},
		{"cname-leading-tab", func(c *apCase, r *RNG) { c.cname = []string{"\ttestuser1"} }},
		{"cname-nbsp", func(c *apCase, r *RNG) { c.cname = []string{"testuser1", "root\u00a0"} }},
		{"crealm-trailing-space", func(c *apCase, r *RNG) { c.crealm = "TEST.GOKRB5 " }},
		{"tktetype", func(c *apCase, r *RNG) {
			c.tktEtype = []int32{17, 18, 23, 16, 19, 20}[r.Intn(6)]
			if c.tktEtype == c.et {
				c.tktEtype = 99
			}
		}},
		{"tktrealm", func(c *apCase, r *RNG) { c.tktRealm = "OTHER.REALM" }},
		{"realm-other", func(c *apCase, r *RNG) { c.realm = "OTHER.REALM" }},
		{"tktsname", func(c *apCase, r *RNG) { c.tktSName = []string{"HTTP", "other.test.gokrb5"} }},
		{"tktsname-joined", func(c *apCase, r *RNG) { c.tktSName = []string{"HTTP/host.test.gokrb5"} }},
		{"tktsname-prefix", func(c *apCase, r *RNG) { c.tktSName = []string{"HTTP"} }},
		{"tktsname-empty", func(c *apCase, r *RNG) { c.tktSName = []string{} }},
		{"sname-host", func(c *apCase, r *RNG) { c.sname = []string{"host", "host.test.gokrb5"} }},
		{"sname-krbtgt", func(c *apCase, r *RNG) { c.sname = []string{"krbtgt", "TEST.GOKRB5"} }},
		{"invalid", func(c *apCase, r *RNG) { c.invalid = true }},
		{"invalid+nostart", func(c *apCase, r *RNG) { c.invalid = true; c.noStart = true }},
		{"nostart", func(c *apCase, r *RNG) { c.noStart = true }},
		// the ticket's encrypted part under a key the service does not have, and the same EncTicketPart (session
		// key included) appended in the clear: nothing in the clear may stand in for what the key must open
		{"wrongkey+cleartext-appended", func(c *apCase, r *RNG) { c.wrongKey = true; c.clearAppended = true }},
		{"fliptkt+cleartext-appended", func(c *apCase, r *RNG) { c.flipTkt = r.Intn(4000); c.clearAppended = true }},
		// a cleartext copy that adds what the sealed part does not hold (an address list), where the service
		// requires one: absent fields of the sealed part stay absent
		{"cleartext-appended-with-caddr+reqhost", func(c *apCase, r *RNG) {
			c.clearAppended, c.clearCaddr = true, []types.HostAddress{v4}
			c.reqHost, c.clientAddr = true, &v4
		}},
		// a renewable ticket is valid until its end time like any other (renew-till only limits what the KDC renews)
		{"renewable", func(c *apCase, r *RNG) { c.renewable = true }},
		{"renewable+end=now-d-1s", func(c *apCase, r *RNG) { c.renewable = true; c.endOff = -c.skew - time.Second }},
		{"renewable+end=now-1h", func(c *apCase, r *RNG) { c.renewable = true; c.endOff = -time.Hour }},
		// a client of another realm: the identity reported is the client's realm, not the service's
		{"crealm-partner", func(c *apCase, r *RNG) { c.crealm = "PARTNER.EXAMPLE" }},
		{"start=now+d", func(c *apCase, r *RNG) { c.startOff = c.skew }},
		{"start=now+d+1s", func(c *apCase, r *RNG) { c.startOff = c.skew + time.Second }},
		{"end=now-d", func(c *apCase, r *RNG) { c.endOff = -c.skew }},
		// the clock is not on a whole second (ticket times are): a ticket that ended d + 0.3 s ago has ended
		{"clock+.3s,end=now-d", func(c *apCase, r *RNG) { c.frac = 300 * time.Millisecond; c.endOff = -c.skew }},
		{"clock+.999999s,end=now-d", func(c *apCase, r *RNG) { c.frac = 999999 * time.Microsecond; c.endOff = -c.skew }},
		{"clock+.3s,end=now-d+1s", func(c *apCase, r *RNG) { c.frac = 300 * time.Millisecond; c.endOff = -c.skew + time.Second }},
		{"clock+.3s,start=now+d+1s", func(c *apCase, r *RNG) { c.frac = 300 * time.Millisecond; c.startOff = c.skew + time.Second }},
		{"clock+.7s,start=now+d", func(c *apCase, r *RNG) { c.frac = 700 * time.Millisecond; c.startOff = c.skew }},
		{"clock+.5s", func(c *apCase, r *RNG) { c.frac = 500 * time.Millisecond }},
		{"end=now-d-1s", func(c *apCase, r *RNG) { c.endOff = -c.skew - time.Second }},
		{"ctime=now-d", func(c *apCase, r *RNG) { c.ctimeOff = -c.skew }},
		{"ctime=now-d-1us", func(c *apCase, r *RNG) { c.ctimeOff = -c.skew - time.Microsecond }},
		{"ctime=now+d", func(c *apCase, r *RNG) { c.ctimeOff = c.skew }},
		{"ctime=now+d+1us", func(c *apCase, r *RNG) { c.ctimeOff = c.skew + time.Microsecond }},
		// beyond the range of a time.Duration (292 years): Sub saturates, a hand-made absolute value overflows
		{"ctime=+400y", func(c *apCase, r *RNG) { c.ctimeYears = 400 }},
		{"ctime=+7900y", func(c *apCase, r *RNG) { c.ctimeYears = 7900 }},
		{"ctime=-400y", func(c *apCase, r *RNG) { c.ctimeYears = -400 }},
		{"start=+400y", func(c *apCase, r *RNG) { c.startYears = 400; c.endYears = 401 }},
		{"end=+400y", func(c *apCase, r *RNG) { c.endYears = 400 }},
		{"end=-400y", func(c *apCase, r *RNG) { c.endYears = -400; c.startYears = -401 }},
		{"fliptkt", func(c *apCase, r *RNG) { c.flipTkt = r.Intn(4000) }},
		{"trunctkt", func(c *apCase, r *RNG) { c.truncTkt = 1 + r.Intn(3) }},
		{"trunctkt-all", func(c *apCase, r *RNG) { c.truncTkt = 100000 }},
		{"flipauth", func(c *apCase, r *RNG) { c.flipAuth = r.Intn(2000) }},
		{"truncauth", func(c *apCase, r *RNG) { c.truncAuth = 1 + r.Intn(3) }},
		{"acname", func(c *apCase, r *RNG) { c.aCname = []string{"someoneelse"} }},
		{"acname-extra-component", func(c *apCase, r *RNG) { c.aCname = []string{"=", "admin"} }},
		{"acnametype", func(c *apCase, r *RNG) { c.aCnt = 10 }},
		{"cnametype-wellknown-acnametype-principal", func(c *apCase, r *RNG) { c.cnt, c.aCnt = 11, 1 }},
		{"acrealm", func(c *apCase, r *RNG) { c.aCrealm = "EVIL.REALM" }},
		// the client realm is compared octet by octet: a case variant is another realm
		{"acrealm-case", func(c *apCase, r *RNG) { c.aCrealm = strings.ToLower(c.crealm) }},
		{"acrealm-case-mixed", func(c *apCase, r *RNG) { c.aCrealm = "Test.GoKrb5" }},
		{"acrealm-kelvin", func(c *apCase, r *RNG) { c.aCrealm = strings.Replace(c.crealm, "K", "\u212a", 1) }},
		{"crealm-lower-acrealm-upper", func(c *apCase, r *RNG) { c.crealm = "test.gokrb5"; c.aCrealm = "TEST.GOKRB5" }},
		{"authusage", func(c *apCase, r *RNG) { c.authUsage = []uint32{7, 11, 2, 12}[r.Intn(4)] }},
		{"authkey", func(c *apCase, r *RNG) { c.authKey = randKey(r, c.et) }},
		{"caddr-v4", func(c *apCase, r *RNG) { c.caddr = []types.HostAddress{v4} }},
		{"caddr-v4v6", func(c *apCase, r *RNG) { c.caddr = []types.HostAddress{v4b, v6} }},
		// the client's address anywhere in a list that mixes address families
		{"caddr-v6v4+clientaddr-v4", func(c *apCase, r *RNG) { c.caddr = []types.HostAddress{v6, v4}; c.clientAddr = &v4 }},
		{"caddr-v6v6v4+clientaddr-v4", func(c *apCase, r *RNG) { c.caddr = []types.HostAddress{v6, v6, v4}; c.clientAddr = &v4 }},
		{"caddr-v4v6+clientaddr-v6", func(c *apCase, r *RNG) { c.caddr = []types.HostAddress{v4, v6}; c.clientAddr = &v6 }},
		{"caddr-v4bv6+clientaddr-v4", func(c *apCase, r *RNG) { c.caddr = []types.HostAddress{v4b, v6}; c.clientAddr = &v4 }},
		// NetBIOS entries (address type 20) are entries like any other: they match only themselves
		{"caddr-v4b+netbios", func(c *apCase, r *RNG) { c.caddr = []types.HostAddress{v4b, nb}; c.clientAddr = &v4 }},
		{"caddr-netbios+v4b", func(c *apCase, r *RNG) { c.caddr = []types.HostAddress{nb, v4b}; c.clientAddr = &v4 }},
		{"caddr-netbios-only", func(c *apCase, r *RNG) { c.caddr = []types.HostAddress{nb}; c.clientAddr = &v4 }},
		{"caddr-netbios+v4", func(c *apCase, r *RNG) { c.caddr = []types.HostAddress{nb, v4}; c.clientAddr = &v4 }},
		{"cname-empty", func(c *apCase, r *RNG) { c.cname = []string{}; c.aCname = nil }},
		{"pac-valid", func(c *apCase, r *RNG) { c.pac = "valid" }},
		{"pac-badsig", func(c *apCase, r *RNG) { c.pac = "badsig" }},
		{"pac-malformed", func(c *apCase, r *RNG) { c.pac = "malformed" }},
		{"pac-valid-second", func(c *apCase, r *RNG) { c.pac = "valid-second" }},
		{"pac-badsig-second", func(c *apCase, r *RNG) { c.pac = "badsig-second" }},
		{"pac-malformed-second", func(c *apCase, r *RNG) { c.pac = "malformed-second" }},
		// settings
		{"skew=1s", func(c *apCase, r *RNG) { c.skew = time.Second }},
		{"skew=1h", func(c *apCase, r *RNG) { c.skew = time.Hour }},
		{"reqhost", func(c *apCase, r *RNG) { c.reqHost = true }},
		{"clientaddr-v4", func(c *apCase, r *RNG) { c.clientAddr = &v4 }},
		{"clientaddr-v6", func(c *apCase, r *RNG) { c.clientAddr = &v6 }},
		{"override-same", func(c *apCase, r *RNG) { c.override = strings.Join(c.sname, "/") }},
		{"override-other", func(c *apCase, r *RNG) { c.override = "HTTP/other.test.gokrb5" }},
		{"nopac", func(c *apCase, r *RNG) { c.decodePAC = false }},
	}
}

// C01: the service accepts an AP-REQ exactly when RFC 4120 3.2.3 says it is valid.
func TestC01(t *testing.T) {
	service.GetReplayCache(1000 * time.Hour) // start the process-wide cache (and its cleaner) outside any bubble
	m := StartModel(t)
	defer m.Close()
	v := NewVerdict("C01", "AP-REQs minted with the real library and crypto under a fake clock: for each of the six etypes the valid request, every single defect of the catalogue (wrong key / kvno / etype / realm / sname, each time bound exactly on and one unit beyond its limit, flipped or truncated ticket / authenticator ciphertext, cname / crealm / name-type / component-count mismatch, wrong key usage, addresses absent/present/mismatching, INVALID flag, empty names, PAC valid / bad signature / malformed) and service setting (skew, required host address, client address, keytab principal override, PAC decoding), a PRNG sample of pairs (all pairs in thorough), and replays; verdict and reported identity compared with the independent Lean acceptor (RFC codec + RFC crypto + keytab rule + PAC rule + the proven decision logic). distinct = (etype, defect set)")
	rng := NewRNG(Seed())
	defs := c01Defects()
	apply := func(c *apCase, ds ...defect) {
		// settings first so that time offsets relative to the skew use the case's skew
		for _, d := range ds {
			if strings.HasPrefix(d.name, "skew=") {
				d.f(c, rng)
			}
		}
		for _, d := range ds {
			if !strings.HasPrefix(d.name, "skew=") {
				d.f(c, rng)
			}
		}
	}
	for _, et := range allEtypes {
		c := baseCase(et)
		c01Compare(t, m, v, rng, c, false)
		c01Compare(t, m, v, rng, c, true)
		// replays that differ in the unprotected service name of the ticket, with and without a keytab principal
		// override (with it, the name in the ticket plays no part in finding the key)
		for _, ovr := range []string{"", "HTTP/host.test.gokrb5"} {
			for _, as := range [][]string{{"HTTP", "other.test.gokrb5"}, {"host", "host.test.gokrb5"}, {"HTTP"}, {"HTTP/host.test.gokrb5"}, {}} {
				c := baseCase(et)
				c.override = ovr
				c.replayAs = as
				c01Compare(t, m, v, rng, c, true)
			}
		}
		for _, d := range defs {
			c := baseCase(et)
			apply(&c, d)
			c01Compare(t, m, v, rng, c, false)
			// requests on the edge of what is acceptable, presented twice
			switch d.name {
			case "end=now-d", "ctime=now-d", "ctime=now+d", "start=now+d", "renewable", "nostart", "clock+.5s", "clock+.3s,end=now-d+1s":
				c2 := baseCase(et)
				apply(&c2, d)
				c01Compare(t, m, v, rng, c2, true)
			}
		}
		pairs := 90
		if Thorough() {
			pairs = len(defs) * len(defs)
		}
		for k := 0; k < pairs; k++ {
			var d1, d2 defect
			if Thorough() {
				d1, d2 = defs[k/len(defs)], defs[k%len(defs)]
				if k/len(defs) >= k%len(defs) {
					continue
				}
			} else {
				d1, d2 = defs[rng.Intn(len(defs))], defs[rng.Intn(len(defs))]
			}
			c := baseCase(et)
			apply(&c, d1, d2)
			c01Compare(t, m, v, rng, c, false)
		}
	}
	v.ModelAsks = m.N
	v.Write(t)
}

// adCredentialsDiffer compares what the service reports from a verified PAC with the logon information
// (KERB_VALIDATION_INFO, buffer type 1) the PAC holds.
func adCredentialsDiffer(got credentials.ADCredentials, pacBytes []byte) string {
	var k pac.KerbValidationInfo
	found := false
	for _, bf := range splitPAC(pacBytes) {
		if bf.ty == 1 {
			if err := k.Unmarshal(bf.data); err != nil {
				return ""
			}
			found = true
		}
	}
	if !found {
		return ""
	}
	var d []string
	chk := func(what, g, w string) {
		if g != w {
			d = append(d, fmt.Sprintf("%s=%q(logon-info:%q)", what, g, w))
		}
	}
	chk("EffectiveName", got.EffectiveName, k.EffectiveName.Value)
	chk("FullName", got.FullName, k.FullName.Value)
	chk("UserID", fmt.Sprint(got.UserID), fmt.Sprint(k.UserID))
	chk("PrimaryGroupID", fmt.Sprint(got.PrimaryGroupID), fmt.Sprint(k.PrimaryGroupID))
	chk("LogOnTime", fmt.Sprint(got.LogOnTime.UTC()), fmt.Sprint(k.LogOnTime.Time().UTC()))
	chk("LogOffTime", fmt.Sprint(got.LogOffTime.UTC()), fmt.Sprint(k.LogOffTime.Time().UTC()))
	chk("PasswordLastSet", fmt.Sprint(got.PasswordLastSet.UTC()), fmt.Sprint(k.PasswordLastSet.Time().UTC()))
	if k.LogOffTime == k.KickOffTime || k.LogOffTime == k.LogOnTime || k.PasswordLastSet == k.PasswordCanChange {
		d = append(d, "(harness) the times of the minted logon information are not pairwise different")
	}
	chk("LogonServer", got.LogonServer, k.LogonServer.Value)
	chk("LogonDomainName", got.LogonDomainName, k.LogonDomainName.Value)
	chk("LogonDomainID", got.LogonDomainID, k.LogonDomainID.String())
	chk("GroupMembershipSIDs", fmt.Sprint(got.GroupMembershipSIDs), fmt.Sprint(k.GetGroupMembershipSIDs()))
	return strings.Join(d, ",")
}
