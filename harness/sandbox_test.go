package harness

import (
	"bufio"
	"fmt"
	"os"
	"runtime/debug"
	"strings"
	"syscall"
	"testing"
)

// TestSandboxWorker is the child side.
func TestSandboxWorker(t *testing.T) {
	if os.Getenv("VERIF_SANDBOX") != "1" {
		t.Skip("sandbox worker only")
	}
	lim := syscall.Rlimit{Cur: sandboxMemBytes, Max: sandboxMemBytes}
	syscall.Setrlimit(syscall.RLIMIT_AS, &lim)
	debug.SetMemoryLimit(sandboxMemBytes / 2)
	debug.SetGCPercent(50)
	rd := bufio.NewReaderSize(os.Stdin, 1<<22)
	w := bufio.NewWriter(os.Stdout)
	for {
		line, err := rd.ReadString('\n')
		if err != nil {
			return
		}
		f := strings.Fields(line)
		if len(f) == 0 {
			continue
		}
		h, ok := sandboxHandlers[f[0]]
		ans := "bad-handler"
		if ok {
			if p := Protect(func() { ans = h(f[1:]) }); p != "" {
				ans = "panic " + strings.ReplaceAll(p, "\n", " ")
			}
		}
		fmt.Fprintf(w, "SBX %s\n", ans)
		w.Flush()
	}
}
