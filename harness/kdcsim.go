package harness

import (
	"fmt"
	"strings"
	"sync"
	"sync/atomic"
	"time"

	"github.com/jcmturner/gofork/encoding/asn1"
	"github.com/jcmturner/gokrb5/v8/crypto"
	"github.com/jcmturner/gokrb5/v8/iana/flags"
	"github.com/jcmturner/gokrb5/v8/messages"
	"github.com/jcmturner/gokrb5/v8/types"
)

// A conformant (RFC 4120) KDC simulator for several realms, deterministic given the requests and the
// client's clock (which it reads from the requests: AS till - ticket_lifetime, TGS authenticator ctime).

type simTicket struct {
	id        int
	issuer    string // realm of the issuing KDC (= Ticket.Realm)
	sname     []string
	cname     []string
	crealm    string
	key       types.EncryptionKey
	auth      time.Time
	start     time.Time
	end       time.Time
	renewTill time.Time // zero: not renewable
}

type simPolicy struct {
	maxLife     time.Duration
	maxRenew    time.Duration // 0: never renewable
	requirePA   bool
	sessionEt   int32
	alwaysRefer bool          // adversarial: every TGS request is answered with a referral to the next realm (cycle)
	defaultSalt bool          // the client's key uses the default salt and parameters: no hints needed
	grace       time.Duration // a ticket is still honoured this long after its end time (the clock skew a KDC allows)
	backdate    time.Duration // AS: the authentication time lies this far in the past (a TGT that is nearly used up when it is issued)
	fast        bool          // the client keeps the library's default: FAST negotiation (PA-REQ-ENC-PA-REP) is on
}

type simReq struct {
	kind    string // AS | TGS
	realm   string // the KDC contacted
	sname   string
	renew   bool
	pa      bool  // AS: PA-ENC-TIMESTAMP present
	tktID   int   // TGS: the ticket presented
	nowUs   int64 // the client's clock as read from the request
	raw     []byte
	outcome string              // issued <id> | referral <id> | error <code>
	issued  int                 // id of the ticket in the reply (0: error)
	key     types.EncryptionKey // AS: the client's long-term key
	errCode int32
	issues  []string
}

type kdcSim struct {
	mu       sync.Mutex
	pol      simPolicy
	lifetime time.Duration // the client's configured ticket_lifetime (to read the clock from AS requests)
	tickets  []*simTicket
	log      []*simReq
	rng      *RNG
	kdcs     map[string]*funcKDC
	realmOf  func(host string) string
	next     map[string]string // referral routing: from realm -> toward target: next hop
	clientPw string
	cliEt    int32
	down     int32                // != 0: the KDCs accept connections and close them without an answer (an outage)
	slowNs   int64                // > 0: every answer is delayed by this long (real time; not used under a fake clock)
	arrived  int64                // requests that have reached the simulator (counted before any delay)
	slowTGS  int32                // != 0: only TGS requests are delayed
	encPA    types.PADataSequence // the encrypted-pa-data of the AS reply being built (under mu)
}

var simRealms = []string{"TEST.GOKRB5", "OTHER.REALM", "THIRD.REALM"}

func newKDCSim(pol simPolicy, lifetime time.Duration, rng *RNG) *kdcSim {
	s := &kdcSim{pol: pol, lifetime: lifetime, rng: rng, kdcs: map[string]*funcKDC{}, clientPw: clientPassword, cliEt: 18}
	s.realmOf = func(host string) string {
		switch {
		case strings.HasSuffix(host, ".other.realm"):
			return "OTHER.REALM"
		case strings.HasSuffix(host, ".third.realm"):
			return "THIRD.REALM"
		}
		return "TEST.GOKRB5"
	}
	for _, r := range simRealms {
		realm := r
		s.kdcs[realm] = startFuncKDC(func(req []byte) []byte { return s.handle(realm, req) })
	}
	return s
}

func (s *kdcSim) close() {
	for _, k := range s.kdcs {
		k.close()
	}
}

func (s *kdcSim) conf(extra string) string {
	c := "[libdefaults]\n default_realm = TEST.GOKRB5\n dns_lookup_kdc = false\n udp_preference_limit = 1\n noaddresses = true\n" + extra + "[realms]\n"
	for _, r := range simRealms {
		c += fmt.Sprintf(" %s = {\n  kdc = 127.0.0.1:%d\n }\n", r, s.kdcs[r].port)
	}
	c += "[domain_realm]\n .other.realm = OTHER.REALM\n"
	return c
}

// path from realm r toward target t: TEST -> OTHER -> THIRD (a chain)
func nextHop(r, t string) string {
	idx := func(x string) int {
		for i, y := range simRealms {
			if x == y {
				return i
			}
		}
		return 0
	}
	a, b := idx(r), idx(t)
	if a < b {
		return simRealms[a+1]
	}
	return simRealms[a-1]
}

func (s *kdcSim) issue(issuer string, sname []string, cname []string, crealm string, auth, now time.Time, till, rtime time.Time, wantRenewable bool, renewCap time.Time) *simTicket {
	end := now.Add(s.pol.maxLife)
	if !till.IsZero() && till.Before(end) {
		end = till
	}
	t := &simTicket{id: len(s.tickets) + 1, issuer: issuer, sname: sname, cname: cname, crealm: crealm,
		key: types.EncryptionKey{KeyType: s.pol.sessionEt, KeyValue: randKey(s.rng, s.pol.sessionEt)}, auth: auth, start: now, end: end}
	if wantRenewable && s.pol.maxRenew > 0 {
		rt := now.Add(s.pol.maxRenew)
		if !rtime.IsZero() && rtime.Before(rt) {
			rt = rtime
		}
		if !renewCap.IsZero() && renewCap.Before(rt) {
			rt = renewCap
		}
		t.renewTill = rt
	}
	if !renewCap.IsZero() && !t.renewTill.IsZero() && t.end.After(t.renewTill) {
		t.end = t.renewTill
	}
	s.tickets = append(s.tickets, t)
	return t
}

func (s *kdcSim) ticketMsg(t *simTicket) messages.Ticket {
	return messages.Ticket{TktVNO: 5, Realm: t.issuer, SName: types.PrincipalName{NameType: 2, NameString: t.sname},
		EncPart: types.EncryptedData{EType: 18, KVNO: 1, Cipher: []byte(fmt.Sprintf("TKT:%d", t.id))}}
}

func (s *kdcSim) reply(tgs bool, t *simTicket, cname types.PrincipalName, nonce int, key types.EncryptionKey, padata types.PADataSequence) []byte {
	fl := types.NewKrbFlags()
	if !t.renewTill.IsZero() {
		types.SetFlag(&fl, flags.Renewable)
	}
	if !tgs && s.encPA != nil {
		types.SetFlag(&fl, flags.EncPARep)
	}
	enc := messages.EncKDCRepPart{Key: t.key, LastReqs: []messages.LastReq{{LRType: 0, LRValue: t.auth}}, Nonce: nonce, Flags: fl,
		AuthTime: t.auth, StartTime: t.start, EndTime: t.end, RenewTill: t.renewTill, SRealm: t.issuer, SName: types.PrincipalName{NameType: 2, NameString: t.sname}}
	if !tgs && s.encPA != nil {
		enc.EncPAData = s.encPA
	}
	eb, _ := enc.Marshal()
	usage := uint32(3)
	if tgs {
		eb[0] = 0x7a
		usage = 8
	}
	ed, _ := crypto.GetEncryptedData(eb, key, usage, 1)
	f := messages.KDCRepFields{PVNO: 5, MsgType: 11, PAData: padata, CRealm: t.crealm, CName: cname, Ticket: s.ticketMsg(t), EncPart: ed}
	var b []byte
	if tgs {
		f.MsgType = 13
		f.PAData = nil
		b, _ = (&messages.TGSRep{KDCRepFields: f}).Marshal()
	} else {
		b, _ = (&messages.ASRep{KDCRepFields: f}).Marshal()
	}
	return b
}

func (s *kdcSim) krbError(r *simReq, realm string, sname types.PrincipalName, code int32, edata []byte) []byte {
	e := messages.NewKRBError(sname, realm, code, "kdcsim")
	e.EData = edata
	b, _ := e.Marshal()
	r.outcome = fmt.Sprintf("error %d", code)
	r.errCode = code
	return b
}

func (s *kdcSim) handle(realm string, req []byte) []byte {
	if atomic.LoadInt32(&s.down) != 0 {
		return nil
	}
	atomic.AddInt64(&s.arrived, 1)
	if d := atomic.LoadInt64(&s.slowNs); d > 0 && (atomic.LoadInt32(&s.slowTGS) == 0 || (len(req) > 0 && req[0] == 0x6c)) {
		time.Sleep(time.Duration(d))
	}
	s.mu.Lock()
	defer s.mu.Unlock()
	var a messages.ASReq
	if a.Unmarshal(req) == nil {
		return s.handleAS(realm, a, req)
	}
	var tg messages.TGSReq
	if tg.Unmarshal(req) == nil {
		return s.handleTGS(realm, tg, req)
	}
	s.log = append(s.log, &simReq{kind: "?", realm: realm, raw: req, outcome: "undecodable"})
	return nil
}

func (s *kdcSim) handleAS(realm string, a messages.ASReq, raw []byte) []byte {
	now := a.ReqBody.Till.Add(-s.lifetime)
	r := &simReq{kind: "AS", realm: realm, sname: a.ReqBody.SName.PrincipalNameString(), raw: raw, nowUs: now.UnixNano() / 1000, pa: a.PAData.Contains(2)}
	s.log = append(s.log, r)
	cname := a.ReqBody.CName
	hints := hintsFor("info2-iter", s.cliEt, realm, cname)
	if s.pol.defaultSalt {
		hints = nil
	}
	key, _, err := crypto.GetKeyFromPassword(s.clientPw, cname, realm, s.cliEt, hints)
	r.key = key
	if err != nil {
		return s.krbError(r, realm, a.ReqBody.SName, 60, nil)
	}
	if a.ReqBody.Realm != realm || cname.PrincipalNameString() != c09User {
		return s.krbError(r, realm, a.ReqBody.SName, 6, nil)
	}
	if s.pol.requirePA {
		if !r.pa {
			ed, _ := asn1.Marshal(s.errHints(hints))
			return s.krbError(r, realm, a.ReqBody.SName, 25, ed)
		}
		// PA-ENC-TIMESTAMP must decrypt under the client's key (usage 1) and be recent
		// (a KDC looks at the first element of that type; one that is left over from an earlier attempt, computed
		// with another key, makes the request one it has to refuse or at best one that is not well-formed)
		ok := false
		nTS, nGood := 0, 0
		for _, pa := range a.PAData {
			if pa.PADataType != 2 {
				continue
			}
			nTS++
			var ed types.EncryptedData
			if ed.Unmarshal(pa.PADataValue) != nil {
				continue
			}
			pt, err := crypto.DecryptEncPart(ed, key, 1)
			if err != nil {
				continue
			}
			var ts types.PAEncTSEnc
			if ts.Unmarshal(pt) != nil {
				continue
			}
			d := ts.PATimestamp.Sub(now)
			if d < 5*time.Minute && d > -5*time.Minute {
				nGood++
				if nTS == 1 {
					ok = true
				}
			}
		}
		if nTS > 1 {
			r.issues = append(r.issues, fmt.Sprintf("the AS-REQ carries %d PA-ENC-TIMESTAMP elements, %d of them computed with the client's key (an element of an earlier attempt was left in the request)", nTS, nGood))
		}
		if !ok {
			ed, _ := asn1.Marshal(s.errHints(hints))
			return s.krbError(r, realm, a.ReqBody.SName, 24, ed)
		}
	}
	wantRenew := types.IsFlagSet(&a.ReqBody.KDCOptions, flags.Renewable)
	nowS := now.Truncate(time.Second)
	t := s.issue(realm, a.ReqBody.SName.NameString, cname.NameString, realm, nowS.Add(-s.pol.backdate), nowS, a.ReqBody.Till, a.ReqBody.RTime, wantRenew, time.Time{})
	r.outcome = fmt.Sprintf("issued %d", t.id)
	r.issued = t.id
	// RFC 6806 section 11: a request that carries PA-REQ-ENC-PA-REP is answered with the enc-pa-rep flag and, in the
	// sealed part, a checksum of the request as it arrived (reply key, key usage 56) and an empty PA-FX-FAST
	s.encPA = nil
	if a.PAData.Contains(149) {
		if et, err := crypto.GetEtype(key.KeyType); err == nil {
			if ck, err := et.GetChecksumHash(key.KeyValue, raw, 56); err == nil {
				if pv, err := asn1.Marshal(types.PAReqEncPARep{ChksumType: et.GetHashID(), Chksum: ck}); err == nil {
					s.encPA = types.PADataSequence{{PADataType: 149, PADataValue: pv}, {PADataType: 136, PADataValue: []byte{}}}
				}
			}
		}
	}
	defer func() { s.encPA = nil }()
	return s.reply(false, t, cname, a.ReqBody.Nonce, key, hints)
}

// the METHOD-DATA of a pre-authentication error always names the etype (RFC 4120 7.5.1)
func (s *kdcSim) errHints(h types.PADataSequence) types.PADataSequence {
	if h != nil {
		return h
	}
	b, _ := asn1.Marshal(types.ETypeInfo2{{EType: s.cliEt}})
	return types.PADataSequence{{PADataType: 19, PADataValue: b}}
}

func (s *kdcSim) handleTGS(realm string, tg messages.TGSReq, raw []byte) []byte {
	r := &simReq{kind: "TGS", realm: realm, sname: tg.ReqBody.SName.PrincipalNameString(), raw: raw, renew: types.IsFlagSet(&tg.ReqBody.KDCOptions, flags.Renew)}
	s.log = append(s.log, r)
	// PA-TGS-REQ
	var ap messages.APReq
	found := false
	for _, pa := range tg.PAData {
		if pa.PADataType == 1 && ap.Unmarshal(pa.PADataValue) == nil {
			found = true
		}
	}
	if !found {
		return s.krbError(r, realm, tg.ReqBody.SName, 25, nil)
	}
	var id int
	fmt.Sscanf(string(ap.Ticket.EncPart.Cipher), "TKT:%d", &id)
	if id < 1 || id > len(s.tickets) {
		return s.krbError(r, realm, tg.ReqBody.SName, 31, nil)
	}
	tk := s.tickets[id-1]
	r.tktID = id
	// the authenticator: key usage 7 (RFC 4120 7.5.1), under the session key of the ticket
	pt, err := crypto.DecryptEncPart(ap.EncryptedAuthenticator, tk.key, 7)
	if err != nil {
		r.issues = append(r.issues, fmt.Sprintf("the authenticator does not decrypt under the session key of ticket %d with key usage 7: %v", id, err))
		return s.krbError(r, realm, tg.ReqBody.SName, 31, nil)
	}
	var au types.Authenticator
	if au.Unmarshal(pt) != nil {
		return s.krbError(r, realm, tg.ReqBody.SName, 31, nil)
	}
	now := au.CTime.Add(time.Duration(au.Cusec) * time.Microsecond)
	r.nowUs = now.UnixNano() / 1000
	if strings.Join(au.CName.NameString, "/") != strings.Join(tk.cname, "/") || au.CRealm != tk.crealm {
		r.issues = append(r.issues, fmt.Sprintf("authenticator names %s@%s, the ticket %s@%s", au.CName.PrincipalNameString(), au.CRealm, strings.Join(tk.cname, "/"), tk.crealm))
		return s.krbError(r, realm, tg.ReqBody.SName, 36, nil)
	}
	// checksum over the request body, key usage 6
	body, _ := tg.ReqBody.Marshal()
	et, _ := crypto.GetEtype(tk.key.KeyType)
	if !et.VerifyChecksum(tk.key.KeyValue, body, au.Cksum.Checksum, 6) {
		r.issues = append(r.issues, "authenticator checksum does not cover the request body")
		return s.krbError(r, realm, tg.ReqBody.SName, 41, nil)
	}
	if !now.Before(tk.end.Add(s.pol.grace)) {
		return s.krbError(r, realm, tg.ReqBody.SName, 32, nil)
	}
	cname := types.PrincipalName{NameType: 1, NameString: tk.cname}
	nowS := now.Truncate(time.Second)
	if r.renew {
		if tk.issuer != realm || tk.renewTill.IsZero() || !now.Before(tk.renewTill) {
			return s.krbError(r, realm, tg.ReqBody.SName, 13, nil) // KDC_ERR_BADOPTION
		}
		life := tk.end.Sub(tk.start)
		t := s.issue(realm, tk.sname, tk.cname, tk.crealm, tk.auth, nowS, nowS.Add(life), time.Time{}, true, tk.renewTill)
		r.outcome = fmt.Sprintf("issued %d", t.id)
		r.issued = t.id
		return s.reply(true, t, cname, tg.ReqBody.Nonce, tk.key, nil)
	}
	// the presented ticket must be a TGT for this realm
	if len(tk.sname) != 2 || tk.sname[0] != "krbtgt" || tk.sname[1] != realm {
		return s.krbError(r, realm, tg.ReqBody.SName, 35, nil) // KRB_AP_ERR_NOT_US
	}
	wantRenew := types.IsFlagSet(&tg.ReqBody.KDCOptions, flags.Renewable)
	sn := tg.ReqBody.SName.NameString
	target := realm
	if len(sn) == 2 && sn[0] == "krbtgt" {
		target = sn[1]
	} else if len(sn) >= 2 {
		target = s.realmOf(sn[len(sn)-1])
	}
	if s.pol.alwaysRefer {
		target = simRealms[(indexOf(simRealms, realm)+1)%len(simRealms)]
	}
	if target != realm {
		hop := nextHop(realm, target)
		if s.pol.alwaysRefer {
			hop = target
		}
		t := s.issue(realm, []string{"krbtgt", hop}, tk.cname, tk.crealm, tk.auth, nowS, tg.ReqBody.Till, tg.ReqBody.RTime, wantRenew, tk.renewTill)
		// a derived ticket ends a second before the ticket it derives from (so that no two auto-renewal
		// timers of the client fall on the same instant: the client's bookkeeping is sequential only then)
		if t.end.After(tk.end.Add(-time.Second)) {
			t.end = tk.end.Add(-time.Second)
		}
		if !t.end.After(now) {
			s.tickets = s.tickets[:len(s.tickets)-1]
			return s.krbError(r, realm, tg.ReqBody.SName, 11, nil) // KDC_ERR_NEVER_VALID
		}
		r.outcome = fmt.Sprintf("referral %d", t.id)
		if len(sn) == 2 && sn[0] == "krbtgt" && sn[1] == hop {
			r.outcome = fmt.Sprintf("issued %d", t.id)
		}
		r.issued = t.id
		return s.reply(true, t, cname, tg.ReqBody.Nonce, tk.key, nil)
	}
	t := s.issue(realm, sn, tk.cname, tk.crealm, tk.auth, nowS, tg.ReqBody.Till, tg.ReqBody.RTime, wantRenew, tk.renewTill)
	if t.end.After(tk.end.Add(-time.Second)) {
		t.end = tk.end.Add(-time.Second)
	}
	if !t.end.After(now) {
		s.tickets = s.tickets[:len(s.tickets)-1]
		return s.krbError(r, realm, tg.ReqBody.SName, 11, nil) // KDC_ERR_NEVER_VALID
	}
	r.outcome = fmt.Sprintf("issued %d", t.id)
	r.issued = t.id
	return s.reply(true, t, cname, tg.ReqBody.Nonce, tk.key, nil)
}

func indexOf(l []string, x string) int {
	for i, y := range l {
		if x == y {
			return i
		}
	}
	return 0
}
