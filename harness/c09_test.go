package harness

import (
	"fmt"
	"strings"
	"sync/atomic"
	"testing"
	"testing/synctest"
	"time"

	"github.com/jcmturner/gofork/encoding/asn1"
	"github.com/jcmturner/gokrb5/v8/client"
	"github.com/jcmturner/gokrb5/v8/config"
	"github.com/jcmturner/gokrb5/v8/credentials"
	"github.com/jcmturner/gokrb5/v8/crypto"
	"github.com/jcmturner/gokrb5/v8/keytab"
	"github.com/jcmturner/gokrb5/v8/messages"
	"github.com/jcmturner/gokrb5/v8/types"
)

const c09Realm = "TEST.GOKRB5"
const c09User = "client1"

func clientKeytab() (*keytab.Keytab, string) {
	cliKeytabOnce.Do(func() {
		kt := keytab.New()
		for _, et := range allEtypes {
			for kvno := 1; kvno <= 2; kvno++ {
				if err := kt.AddEntry(c09User, c09Realm, fmt.Sprintf("keytab-pw-%d-%d", et, kvno), time.Unix(1600000000+int64(kvno), 0), uint8(kvno), et); err != nil {
					panic(err)
				}
			}
		}
		// a second principal, so that selection by name matters
		kt.AddEntry("someoneelse", c09Realm, "x", time.Unix(1600000000, 0), 1, 18)
		cliKeytabV = kt
		cliKeytabToks = ktToks(goKtEntries(kt))
	})
	return cliKeytabV, cliKeytabToks
}

// every second configuration asks for name canonicalization (the request then carries the canonicalize option: what
// a reply has to say to be the answer to it stays the same)
var c09Configs, c09Clients int64

func c09Config(skew time.Duration, port int) *config.Config {
	s := fmt.Sprintf("[libdefaults]\n default_realm = %s\n dns_lookup_kdc = false\n udp_preference_limit = 1\n clockskew = %d\n noaddresses = true\n", c09Realm, int(skew/time.Second))
	if atomic.AddInt64(&c09Configs, 1)%2 == 0 {
		s += " canonicalize = true\n"
	}
	if port != 0 {
		s += fmt.Sprintf("[realms]\n %s = {\n  kdc = 127.0.0.1:%d\n }\n OTHER.REALM = {\n  kdc = 127.0.0.1:%d\n }\n", c09Realm, port, port)
	}
	cfg, err := config.NewFromString(s)
	if err != nil {
		panic(err)
	}
	return cfg
}

func nameToks(p types.PrincipalName) string {
	cs := make([]string, len(p.NameString))
	for i, x := range p.NameString {
		cs[i] = XS(x)
	}
	return List(cs)
}

func addrToks(as []types.HostAddress) string {
	var l []string
	for _, a := range as {
		l = append(l, fmt.Sprintf("%d~%s", a.AddrType, X(a.Address)))
	}
	return List(l)
}

func secretTok(secret string) string {
	if secret == "keytab" {
		return "k"
	}
	var rs []string
	for _, r := range clientPassword {
		rs = append(rs, fmt.Sprint(int(r)))
	}
	return "p:" + XS(clientPassword) + ":" + List(rs)
}

// the key the KDC holds for the client
func kdcClientKey(c repCase, cname types.PrincipalName, padata types.PADataSequence) (types.EncryptionKey, error) {
	if c.secret == "keytab" {
		kt, _ := clientKeytab()
		kv := c.kvno
		if kv == 0 {
			kv = 1
		}
		k, _, err := kt.GetEncryptionKey(cname, c09Realm, kv, c.et)
		return k, err
	}
	var k types.EncryptionKey
	err := fmt.Errorf("hints the client cannot use")
	if !strings.HasSuffix(c.hints, "-empty") {
		k, _, err = crypto.GetKeyFromPassword(clientPassword, cname, c09Realm, c.et, padata)
	}
	if err != nil {
		// hints the client cannot use: the KDC's key is the default-salt one
		k, _, err = crypto.GetKeyFromPassword(clientPassword, cname, c09Realm, c.et, nil)
	}
	return k, err
}

func normKR(s string) string {
	if strings.HasPrefix(s, "err") {
		return "err"
	}
	return s
}

func c09Report(v *Verdict, c repCase, mode, goRes, mo, op string) {
	kind := "AS"
	if c.tgs {
		kind = "TGS"
	}
	desc := fmt.Sprintf("%s/%s/%s/%d/%s", mode, kind, c.secret, c.et, c.describe())
	v.Case(desc, fmt.Sprintf("%s %s -> %s", mode, kind, strings.Fields(goRes + " -")[0]))
	if c.describe() == "valid" && c.et == 18 && c.secret != "keytab" {
		v.Sample(op + " -> " + mo)
	}
	if goRes == normKR(mo) {
		return
	}
	what, k := "the client's verdict on the KDC reply differs from the model's", "correspondence"
	switch {
	case strings.HasPrefix(goRes, "ok") && !strings.HasPrefix(mo, "ok"):
		what, k = "the client accepts a KDC reply that does not answer its request (independent verifier: "+mo+")", "failing-input"
	case strings.HasPrefix(goRes, "panic"):
		what, k = "the client panicked on a KDC reply", "failing-input"
	case strings.HasPrefix(mo, "krberror") && !strings.HasPrefix(goRes, "krberror"):
		what, k = "a KRB-ERROR reply did not reach the caller as an error carrying the KDC's code", "failing-input"
	case strings.HasPrefix(mo, "ok") && strings.HasPrefix(goRes, "ok"):
		what, k = "the session key or end time the client took from the reply is not the one in the reply", "failing-input"
	case strings.HasPrefix(mo, "ok"):
		what, k = "the client rejects a valid KDC reply", "failing-input"
	}
	v.Violate(k, "c09:"+desc, what, map[string]string{"case": desc, "go": goRes, "model": mo, "op": op})
}

// direct calls of ASRep.Verify / TGSRep.Verify under the fake clock
func c09Direct(t *testing.T, m *Model, v *Verdict, rng *RNG, c repCase) {
	_, ktToks := clientKeytab()
	var goRes, op string
	synctest.Test(t, func(t *testing.T) {
		now := time.Now()
		cfg := c09Config(c.skew, 0)
		cname := types.PrincipalName{NameType: 1, NameString: []string{c09User}}
		if !c.tgs {
			asReq, err := messages.NewASReqForTGT(c09Realm, cfg, cname)
			if err != nil {
				t.Fatal(err)
			}
			asReq.ReqBody.Addresses = c.reqAddrs
			var padata types.PADataSequence
			if c.secret == "password" {
				padata = hintsFor(c.hints, c.et, c09Realm, cname)
			}
			key, err := kdcClientKey(c, cname, padata)
			if err != nil {
				t.Fatal(err)
			}
			rq := kdcReqInfo{cname: cname, realm: c09Realm, nonce: asReq.ReqBody.Nonce, sname: asReq.ReqBody.SName, addrs: c.reqAddrs}
			reply, err := mintKDCRep(rng, c, rq, key, padata, now)
			if err != nil {
				t.Fatal(err)
			}
			creds := credentials.New(c09User, c09Realm)
			if c.secret == "keytab" {
				kt, _ := clientKeytab()
				creds = creds.WithKeytab(kt)
			} else {
				creds = creds.WithPassword(clientPassword)
			}
			if p := Protect(func() {
				var rep messages.ASRep
				if err := rep.Unmarshal(reply); err != nil {
					goRes = "unmarshal-error"
					return
				}
				ok, err := rep.Verify(cfg, creds, asReq)
				if ok && err == nil {
					goRes = fmt.Sprintf("ok %d %s %d", rep.DecryptedEncPart.Key.KeyType, X(rep.DecryptedEncPart.Key.KeyValue), rep.DecryptedEncPart.EndTime.UnixNano()/1000)
				} else {
					goRes = "err"
				}
			}); p != "" {
				goRes = "panic " + p
			}
			kts := ""
			if c.secret == "keytab" {
				kts = " " + ktToks
			}
			op = fmt.Sprintf("kr.as verify %d %d %s %s %d %s %s %s %s%s", now.UnixNano()/1000, c.skew/time.Microsecond, nameToks(cname), XS(c09Realm),
				asReq.ReqBody.Nonce, nameToks(asReq.ReqBody.SName), addrToks(c.reqAddrs), secretTok(c.secret), X(reply), kts)
			return
		}
		// TGS
		sessKey := types.EncryptionKey{KeyType: c.et, KeyValue: randKey(rng, c.et)}
		tgt := messages.Ticket{TktVNO: 5, Realm: c09Realm, SName: types.PrincipalName{NameType: 2, NameString: []string{"krbtgt", c09Realm}}, EncPart: types.EncryptedData{EType: 18, KVNO: 1, Cipher: []byte("tgt")}}
		spn := types.PrincipalName{NameType: 1, NameString: []string{"HTTP", "host.test.gokrb5"}}
		tgsReq, err := messages.NewTGSReq(cname, c09Realm, cfg, tgt, sessKey, spn, false)
		if err != nil {
			t.Fatal(err)
		}
		tgsReq.ReqBody.Addresses = c.reqAddrs
		rq := kdcReqInfo{cname: cname, realm: c09Realm, nonce: tgsReq.ReqBody.Nonce, sname: spn, addrs: c.reqAddrs}
		reply, err := mintKDCRep(rng, c, rq, sessKey, nil, now)
		if err != nil {
			t.Fatal(err)
		}
		if p := Protect(func() {
			var rep messages.TGSRep
			if err := rep.Unmarshal(reply); err != nil {
				goRes = "unmarshal-error"
				return
			}
			if err := rep.DecryptEncPart(sessKey); err != nil {
				goRes = "err"
				return
			}
			ok, err := rep.Verify(cfg, tgsReq)
			if ok && err == nil {
				goRes = fmt.Sprintf("ok %d %s %d", rep.DecryptedEncPart.Key.KeyType, X(rep.DecryptedEncPart.Key.KeyValue), rep.DecryptedEncPart.EndTime.UnixNano()/1000)
			} else {
				goRes = "err"
			}
		}); p != "" {
			goRes = "panic " + p
		}
		op = fmt.Sprintf("kr.tgs verify %d %d - %s %s %d %s %s %d %s %s", now.UnixNano()/1000, c.skew/time.Microsecond, nameToks(cname), XS(c09Realm),
			tgsReq.ReqBody.Nonce, nameToks(spn), addrToks(c.reqAddrs), c.et, X(sessKey.KeyValue), X(reply))
	})
	mo := m.Ask(op)
	c09Report(v, c, "verify", goRes, mo, op)
}

func classifyExchangeErr(err error) string {
	if err == nil {
		return "ok"
	}
	if mm := reKRBErr.FindStringSubmatch(err.Error()); mm != nil {
		return "krberror " + mm[1]
	}
	return "err"
}

// the whole exchange against a loopback KDC (real clock: only offsets well away from the limits)
func c09Exchange(t *testing.T, m *Model, v *Verdict, rng *RNG, c repCase, preauth bool) {
	_, ktToks := clientKeytab()
	cname := types.PrincipalName{NameType: 1, NameString: []string{c09User}}
	var op string
	var tgtKey types.EncryptionKey
	asCount := 0
	kdc := startFuncKDC(func(req []byte) []byte {
		now := time.Now()
		var a messages.ASReq
		if a.Unmarshal(req) == nil {
			asCount++
			rq := kdcReqInfo{cname: a.ReqBody.CName, realm: a.ReqBody.Realm, nonce: a.ReqBody.Nonce, sname: a.ReqBody.SName, addrs: a.ReqBody.Addresses, padata: a.PAData, raw: req}
			var padata types.PADataSequence
			if c.secret == "password" {
				padata = hintsFor(c.hints, c.et, c09Realm, cname)
			}
			if preauth && !a.PAData.Contains(2) {
				e := messages.NewKRBError(rq.sname, rq.realm, 25, "preauth required")
				pas := hintsFor("info2-iter", c.et, c09Realm, cname)
				e.EData, _ = asn1.Marshal(pas)
				b, _ := e.Marshal()
				return b
			}
			cc := c
			if c.tgs {
				cc = baseRep(false, c.et, c.secret) // a valid AS reply first
				cc.hints = c.hints
			}
			key, err := kdcClientKey(cc, cname, padata)
			if err != nil {
				return nil
			}
			sk := types.EncryptionKey{}
			reply, err := mintKDCRepKey(rng, cc, rq, key, padata, now, &sk)
			if err != nil {
				return nil
			}
			tgtKey = sk
			if !c.tgs {
				kts := ""
				if c.secret == "keytab" {
					kts = " " + ktToks
				}
				op = fmt.Sprintf("kr.as exchange %d %d %s %s %d %s %s %s %s%s", now.UnixNano()/1000, c.skew/time.Microsecond, nameToks(rq.cname), XS(rq.realm),
					rq.nonce, nameToks(rq.sname), addrToks(rq.addrs), secretTok(c.secret), X(reply), kts)
			}
			return reply
		}
		var tg messages.TGSReq
		if tg.Unmarshal(req) == nil {
			rq := kdcReqInfo{cname: tg.ReqBody.CName, realm: tg.ReqBody.Realm, nonce: tg.ReqBody.Nonce, sname: tg.ReqBody.SName, addrs: tg.ReqBody.Addresses}
			reply, err := mintKDCRep(rng, c, rq, tgtKey, nil, now)
			if err != nil {
				return nil
			}
			op = fmt.Sprintf("kr.tgs exchange %d %d %s %s %s %d %s %s %d %s %s", now.UnixNano()/1000, c.skew/time.Microsecond, XS(c09Realm), nameToks(rq.cname), XS(rq.realm),
				rq.nonce, nameToks(rq.sname), addrToks(rq.addrs), tgtKey.KeyType, X(tgtKey.KeyValue), X(reply))
			return reply
		}
		return nil
	})
	defer kdc.close()
	cfg := c09Config(c.skew, kdc.port)
	var cl *client.Client
	// every third client keeps the library's default: FAST negotiation on (the request carries PA-REQ-ENC-PA-REP, the
	// KDC answers it as RFC 6806 section 11 says; every other check of the reply is made all the same)
	var fastOpt []func(*client.Settings)
	if atomic.AddInt64(&c09Clients, 1)%3 != 0 {
		fastOpt = append(fastOpt, client.DisablePAFXFAST(true))
	}
	if c.secret == "keytab" {
		kt, _ := clientKeytab()
		cl = client.NewWithKeytab(c09User, c09Realm, kt, cfg, fastOpt...)
	} else {
		cl = client.NewWithPassword(c09User, c09Realm, clientPassword, cfg, fastOpt...)
	}
	defer cl.Destroy()
	var goRes string
	if p := Protect(func() {
		err := cl.Login()
		if !c.tgs {
			goRes = classifyExchangeErr(err)
			if err != nil {
				if _, _, held := cl.GetCachedTicket("krbtgt/" + c09Realm); held {
					goRes = "refused-but-cached " + goRes
				}
			}
			return
		}
		if err != nil {
			goRes = "login-failed " + err.Error()
			return
		}
		_, key, err := cl.GetServiceTicket("HTTP/host.test.gokrb5")
		goRes = classifyExchangeErr(err)
		if err == nil {
			goRes = fmt.Sprintf("ok %d %s", key.KeyType, X(key.KeyValue))
		} else if _, _, held := cl.GetCachedTicket("HTTP/host.test.gokrb5"); held {
			// a reply that was refused leaves nothing behind: the next request must not be served from it
			goRes = "refused-but-cached " + goRes
		}
	}); p != "" {
		goRes = "panic " + p
	}
	if op == "" {
		v.Note("exchange case did not reach the KDC: " + c.describe() + " -> " + goRes)
		return
	}
	mo := m.Ask(op)
	mcmp := mo
	if f := strings.Fields(mo); len(f) > 0 && f[0] == "ok" {
		if c.tgs && len(f) >= 3 {
			mcmp = strings.Join(f[:3], " ")
		} else {
			mcmp = "ok"
		}
	}
	if mcmp == "unmarshal-error" {
		mcmp = "err"
	}
	mode := "exchange"
	if preauth {
		mode = "exchange+preauth"
	}
	if goRes == normKR(mcmp) {
		c09Report(v, c, mode, goRes, goRes, op)
	} else {
		c09Report(v, c, mode, goRes, mo, op)
	}
}

type repDefect struct {
	name   string
	asOnly bool
	f      func(c *repCase, r *RNG)
}

func c09Defects() []repDefect {
	v4 := types.HostAddress{AddrType: 2, Address: []byte{10, 0, 0, 1}}
	v4b := types.HostAddress{AddrType: 2, Address: []byte{10, 0, 0, 2}}
	v6 := types.HostAddress{AddrType: 24, Address: []byte{0x20, 1, 0xd, 0xb8, 0, 0, 0, 0, 0, 0, 0, 0, 0, 0, 0, 1}}
	return []repDefect{
		{"cname", false, func(c *repCase, r *RNG) { c.outerCName = []string{"someoneelse"} }},
		{"cname-extra", false, func(c *repCase, r *RNG) { c.outerCName = []string{c09User, "admin"} }},
		{"cname-empty", false, func(c *repCase, r *RNG) { c.outerCName = []string{} }},
		{"crealm", false, func(c *repCase, r *RNG) { c.outerCRealm = "OTHER.REALM" }},
		{"nonce+1", false, func(c *repCase, r *RNG) { c.encNonceOff = 1 }},
		{"nonce-earlier", false, func(c *repCase, r *RNG) { c.encNonceOff = -(1 + r.Intn(100000)) }},
		{"encsname", false, func(c *repCase, r *RNG) { c.encSName = []string{"krbtgt", "OTHER.REALM"} }},
		{"encsname-joined", false, func(c *repCase, r *RNG) { c.encSName = []string{"="} }},
		{"encsname-short", false, func(c *repCase, r *RNG) { c.encSName = []string{"krbtgt"} }},
		{"encsname-empty", false, func(c *repCase, r *RNG) { c.encSName = []string{} }},
		{"encsrealm", false, func(c *repCase, r *RNG) { c.encSRealm = "OTHER.REALM" }},
		{"reqaddrs+same", false, func(c *repCase, r *RNG) {
			c.reqAddrs = []types.HostAddress{v4, v6}
			c.encCAddr = []types.HostAddress{v6, v4}
		}},
		{"reqaddrs+none", false, func(c *repCase, r *RNG) { c.reqAddrs = []types.HostAddress{v4} }},
		{"reqaddrs+other", false, func(c *repCase, r *RNG) { c.reqAddrs = []types.HostAddress{v4}; c.encCAddr = []types.HostAddress{v4b} }},
		{"reqaddrs+subset", false, func(c *repCase, r *RNG) {
			c.reqAddrs = []types.HostAddress{v4, v6}
			c.encCAddr = []types.HostAddress{v4}
		}},
		{"reqaddrs+superset", false, func(c *repCase, r *RNG) {
			c.reqAddrs = []types.HostAddress{v4}
			c.encCAddr = []types.HostAddress{v4, v6}
		}},
		{"reqaddrs+second-replaced", false, func(c *repCase, r *RNG) {
			c.reqAddrs = []types.HostAddress{v4, v6}
			c.encCAddr = []types.HostAddress{v4, v4b}
		}},
		{"reqaddrs+second-repeats-first", false, func(c *repCase, r *RNG) {
			c.reqAddrs = []types.HostAddress{v4, v6}
			c.encCAddr = []types.HostAddress{v4, v4}
		}},
		{"reqaddrs+last-of-three-replaced", false, func(c *repCase, r *RNG) {
			c.reqAddrs = []types.HostAddress{v6, v4, v4b}
			c.encCAddr = []types.HostAddress{v4, v6, {AddrType: 2, Address: []byte{10, 9, 8, 7}}}
		}},
		{"reqaddrs+first-replaced", false, func(c *repCase, r *RNG) {
			c.reqAddrs = []types.HostAddress{v4, v6}
			c.encCAddr = []types.HostAddress{v4b, v6}
		}},
		{"nonce+2^32", false, func(c *repCase, r *RNG) { c.encNonceOff = 1 << 32 }},
		{"nonce-2^32", false, func(c *repCase, r *RNG) { c.encNonceOff = -(1 << 32) }},
		{"nonce+3*2^32", false, func(c *repCase, r *RNG) { c.encNonceOff = 3 << 32 }},
		{"caddr-unasked", false, func(c *repCase, r *RNG) { c.encCAddr = []types.HostAddress{v4} }},
		{"auth=+skew", false, func(c *repCase, r *RNG) { c.authOff = c.skew; c.startOff = c.skew }},
		{"auth=+skew+1s", false, func(c *repCase, r *RNG) { c.authOff = c.skew + time.Second; c.startOff = c.skew + time.Second }},
		{"auth=-skew", false, func(c *repCase, r *RNG) { c.authOff = -c.skew; c.startOff = -c.skew }},
		{"auth=-skew-1s", false, func(c *repCase, r *RNG) { c.authOff = -c.skew - time.Second; c.startOff = -c.skew - time.Second }},
		// beyond the range of a time.Duration (292 years): Sub saturates, a hand-made absolute value overflows
		{"auth=+400y", false, func(c *repCase, r *RNG) { c.authYears = 400; c.startYears = 400 }},
		{"auth=+7900y", false, func(c *repCase, r *RNG) { c.authYears = 7900; c.startYears = 7900 }},
		{"auth=-400y", false, func(c *repCase, r *RNG) { c.authYears = -400; c.startYears = -400 }},
		{"auth=+400y-nostart", false, func(c *repCase, r *RNG) { c.authYears = 400; c.noStart = true }},
		{"start=+400y-auth-now", false, func(c *repCase, r *RNG) { c.startYears = 400 }},
		{"auth-old-start-now", false, func(c *repCase, r *RNG) { c.authOff = -3 * time.Hour }},
		{"auth-old-nostart", false, func(c *repCase, r *RNG) { c.authOff = -3 * time.Hour; c.noStart = true }},
		{"start-late-auth-now", false, func(c *repCase, r *RNG) { c.startOff = 2 * time.Hour }},
		{"nostart", false, func(c *repCase, r *RNG) { c.noStart = true }},
		{"wrongkey", false, func(c *repCase, r *RNG) { c.wrongKey = true }},
		{"usage", false, func(c *repCase, r *RNG) { c.usage = []uint32{3, 8, 9, 2}[r.Intn(4)] }},
		{"flip", false, func(c *repCase, r *RNG) { c.flip = r.Intn(1 << 16) }},
		{"trunc", false, func(c *repCase, r *RNG) { c.trunc = 1 + r.Intn(20) }},
		{"trunc-all", false, func(c *repCase, r *RNG) { c.trunc = 100000 }},
		{"othertag", false, func(c *repCase, r *RNG) { c.appTag26 = !c.appTag26 }},
		{"msgtype-other", false, func(c *repCase, r *RNG) {
			if c.tgs {
				c.msgType = 11
			} else {
				c.msgType = 13
			}
		}},
		{"msgtype-30", false, func(c *repCase, r *RNG) { c.msgType = 30 }},
		{"tktrealm", false, func(c *repCase, r *RNG) { c.tktRealm = "OTHER.REALM" }},
		{"tktsname-empty", false, func(c *repCase, r *RNG) { c.tktSName = []string{} }},
		{"tktsname-other", false, func(c *repCase, r *RNG) { c.tktSName = []string{"HTTP", "elsewhere"} }},
		{"trailing", false, func(c *repCase, r *RNG) { c.trailing = true }},
		{"encetype", false, func(c *repCase, r *RNG) {
			c.encEtype = []int32{17, 18, 23, 19}[r.Intn(4)]
			if c.encEtype == c.et {
				c.encEtype = 20
			}
		}},
		{"krberror-6", false, func(c *repCase, r *RNG) { c.krbError = 6 }},
		{"krberror-18", false, func(c *repCase, r *RNG) { c.krbError = 18 }},
		{"krberror-37", false, func(c *repCase, r *RNG) { c.krbError = 37 }},
		{"krberror-25", false, func(c *repCase, r *RNG) { c.krbError = 25 }},
		{"krberror-52", false, func(c *repCase, r *RNG) { c.krbError = 52 }},
		{"skew=1s", false, func(c *repCase, r *RNG) { c.skew = time.Second }},
		{"skew=1h", false, func(c *repCase, r *RNG) { c.skew = time.Hour }},
		// AS only
		{"hints-none", true, func(c *repCase, r *RNG) { c.hints = "none" }},
		{"hints-info2", true, func(c *repCase, r *RNG) { c.hints = "info2" }},
		{"hints-info2+pwsalt", true, func(c *repCase, r *RNG) { c.hints = "info2+pwsalt" }},
		{"hints-pwsalt+info2", true, func(c *repCase, r *RNG) { c.hints = "pwsalt+info2" }},
		{"hints-pwsalt", true, func(c *repCase, r *RNG) { c.hints = "pwsalt" }},
		{"hints-info", true, func(c *repCase, r *RNG) { c.hints = "info" }},
		{"hints-info2-empty", true, func(c *repCase, r *RNG) { c.hints = "info2-empty" }},
		{"hints-info-empty", true, func(c *repCase, r *RNG) { c.hints = "info-empty" }},
		{"kvno2", true, func(c *repCase, r *RNG) { c.kvno = 2 }},
		{"kvnolie", true, func(c *repCase, r *RNG) { c.kvnoLie = true }},
	}
}

func applyRep(c *repCase, rng *RNG, ds ...repDefect) {
	for _, d := range ds {
		if strings.HasPrefix(d.name, "skew=") {
			d.f(c, rng)
		}
	}
	for _, d := range ds {
		if !strings.HasPrefix(d.name, "skew=") {
			d.f(c, rng)
		}
	}
}

// only offsets well away from the limits are meaningful under the real clock
func exchangeSafe(d repDefect) bool {
	n := d.name
	return !strings.HasPrefix(n, "auth=") && !strings.HasPrefix(n, "skew=1s") && !strings.HasPrefix(n, "reqaddrs")
}

// C09: the client accepts a KDC reply only if it answers the request it sent.
func TestC09(t *testing.T) {
	m := StartModel(t)
	defer m.Close()
	v := NewVerdict("C09", "KDC replies minted with the real library's types and crypto (six etypes; password client with every hint variant, keytab client with two key versions; TGS replies under the TGT session key): the valid reply and every defect of the catalogue (cname / crealm / nonce / sname / srealm / addresses altered, KDC time exactly on and one second beyond each limit, another key, another key usage, flipped or truncated ciphertext, the other application tag, wrong message type, ticket realm / sname altered, trailing bytes, KRB-ERROR replies), singly and in pairs; (1) ASRep.Verify / TGSRep.DecryptEncPart+Verify called directly under a fake clock, (2) the whole exchange (Client.Login, Client.GetServiceTicket, with and without a pre-authentication round) against a loopback KDC; verdict, session key and end time compared with the independent Lean verifier (RFC codec, string-to-key, crypto, proven decision logic). distinct = (mode, kind, secret, etype, defect set)")
	rng := NewRNG(Seed())
	defs := c09Defects()
	for _, et := range allEtypes {
		for _, kind := range []string{"as-password", "as-keytab", "tgs"} {
			mk := func() repCase {
				switch kind {
				case "as-password":
					return baseRep(false, et, "password")
				case "as-keytab":
					return baseRep(false, et, "keytab")
				}
				return baseRep(true, et, "session")
			}
			c09Direct(t, m, v, rng, mk())
			for _, d := range defs {
				if d.asOnly && kind == "tgs" {
					continue
				}
				if strings.HasPrefix(d.name, "hints") && kind != "as-password" {
					continue
				}
				if strings.HasPrefix(d.name, "kvno") && kind != "as-keytab" {
					continue
				}
				c := mk()
				applyRep(&c, rng, d)
				c09Direct(t, m, v, rng, c)
			}
			pairs := 40
			if Thorough() {
				pairs = 600
			}
			for k := 0; k < pairs; k++ {
				d1, d2 := defs[rng.Intn(len(defs))], defs[rng.Intn(len(defs))]
				if (d1.asOnly || d2.asOnly) && kind != "as-password" {
					continue
				}
				if strings.HasPrefix(d1.name, "kvno") || strings.HasPrefix(d2.name, "kvno") {
					continue
				}
				c := mk()
				applyRep(&c, rng, d1, d2)
				c09Direct(t, m, v, rng, c)
			}
		}
	}
	// whole exchanges
	exEts := []int32{18, 23}
	if Thorough() {
		exEts = allEtypes
	}
	for _, et := range exEts {
		for _, kind := range []string{"as-password", "as-keytab", "tgs"} {
			mk := func() repCase {
				switch kind {
				case "as-password":
					return baseRep(false, et, "password")
				case "as-keytab":
					return baseRep(false, et, "keytab")
				}
				return baseRep(true, et, "password")
			}
			c09Exchange(t, m, v, rng, mk(), false)
			if kind != "tgs" {
				c09Exchange(t, m, v, rng, mk(), true)
			}
			for _, d := range defs {
				if !exchangeSafe(d) || (d.asOnly && kind == "tgs") || (strings.HasPrefix(d.name, "hints") && kind != "as-password") || (strings.HasPrefix(d.name, "kvno") && kind != "as-keytab") {
					continue
				}
				c := mk()
				applyRep(&c, rng, d)
				c09Exchange(t, m, v, rng, c, false)
				if kind == "as-password" && et == 18 {
					c09Exchange(t, m, v, rng, c, true)
				}
			}
		}
	}
	for _, et := range exEts {
		c09Referral(t, m, v, rng, baseRep(true, et, "password"))
		for _, r2 := range []string{"OTHER.REALM", "THIRD.REALM", "other.realm"} {
			c := baseRep(true, et, "password")
			c.secondCRealm = r2
			c09Referral(t, m, v, rng, c)
		}
		for _, d := range defs {
			if !exchangeSafe(d) || d.asOnly || d.name == "tktsname-other" || d.name == "tktsname-empty" || d.name == "encsname" || d.name == "encsname-short" || d.name == "encsname-empty" {
				continue
			}
			c := baseRep(true, et, "password")
			applyRep(&c, rng, d)
			c09Referral(t, m, v, rng, c)
		}
	}
	// request nonces are fresh: among the requests of this run (random 31-bit values: a chance repeat among a few
	// thousand is rare, three of them are not chance)
	if rep, total := nonceRepeats(); rep >= 3 {
		v.Violate("failing-input", "c09:nonce-repeats", "request nonces repeat: a reply recorded for one request answers a later one", map[string]string{"requests": fmt.Sprint(total), "requests-with-an-earlier-nonce": fmt.Sprint(rep)})
	} else {
		v.Note(fmt.Sprintf("request nonces: %d requests, %d repeats", total, rep))
	}
	v.ModelAsks = m.N
	v.Write(t)
}

// c09Referral: the defect is applied to a referral reply (a TGT for the next realm); the client may follow
// the referral only if that reply passes every check of a TGS reply.
func c09Referral(t *testing.T, m *Model, v *Verdict, rng *RNG, c repCase) {
	cname := types.PrincipalName{NameType: 1, NameString: []string{c09User}}
	var op string
	var tgtKey, refKey types.EncryptionKey
	tgsSeen := 0
	kdc := startFuncKDC(func(req []byte) []byte {
		now := time.Now()
		var a messages.ASReq
		if a.Unmarshal(req) == nil {
			rq := kdcReqInfo{cname: a.ReqBody.CName, realm: a.ReqBody.Realm, nonce: a.ReqBody.Nonce, sname: a.ReqBody.SName}
			cc := baseRep(false, c.et, "password")
			padata := hintsFor(cc.hints, c.et, c09Realm, cname)
			key, err := kdcClientKey(cc, cname, padata)
			if err != nil {
				return nil
			}
			reply, _ := mintKDCRepKey(rng, cc, rq, key, padata, now, &tgtKey)
			return reply
		}
		var tg messages.TGSReq
		if tg.Unmarshal(req) == nil {
			tgsSeen++
			rq := kdcReqInfo{cname: tg.ReqBody.CName, realm: tg.ReqBody.Realm, nonce: tg.ReqBody.Nonce, sname: tg.ReqBody.SName}
			if tgsSeen == 1 {
				// the referral: a TGT for OTHER.REALM, with the defect
				rq.sname = types.PrincipalName{NameType: 2, NameString: []string{"krbtgt", "OTHER.REALM"}}
				reply, err := mintKDCRepKey(rng, c, rq, tgtKey, nil, now, &refKey)
				if err != nil {
					return nil
				}
				op = fmt.Sprintf("kr.tgs exchange %d %d %s %s %s %d %s %s %d %s %s", now.UnixNano()/1000, c.skew/time.Microsecond, XS(c09Realm), nameToks(rq.cname), XS(rq.realm),
					rq.nonce, nameToks(tg.ReqBody.SName), addrToks(nil), tgtKey.KeyType, X(tgtKey.KeyValue), X(reply))
				return reply
			}
			rq.crealm = c09Realm
			if c.secondCRealm != "" {
				// the realm referred to answers with another client realm (its own, say): that reply is judged
				rq.crealm = c.secondCRealm
			}
			reply, _ := mintKDCRep(rng, baseRep(true, c.et, "password"), rq, refKey, nil, now)
			if c.secondCRealm != "" && tgsSeen == 2 {
				op = fmt.Sprintf("kr.tgs exchange %d %d %s %s %s %d %s %s %d %s %s", now.UnixNano()/1000, c.skew/time.Microsecond, XS(c09Realm), nameToks(rq.cname), XS(rq.realm),
					rq.nonce, nameToks(tg.ReqBody.SName), addrToks(nil), refKey.KeyType, X(refKey.KeyValue), X(reply))
			}
			return reply
		}
		return nil
	})
	defer kdc.close()
	cfg := c09Config(c.skew, kdc.port)
	cl := client.NewWithPassword(c09User, c09Realm, clientPassword, cfg, client.DisablePAFXFAST(true))
	defer cl.Destroy()
	var goRes string
	if p := Protect(func() {
		if err := cl.Login(); err != nil {
			goRes = "login-failed " + err.Error()
			return
		}
		_, _, err := cl.GetServiceTicket("HTTP/svc.elsewhere")
		goRes = classifyExchangeErr(err)
	}); p != "" {
		goRes = "panic " + p
	}
	if op == "" {
		return
	}
	mo := m.Ask(op)
	want := "err 1"
	switch f := strings.Fields(mo); {
	case len(f) > 0 && f[0] == "ok":
		want = "ok 2"
	case len(f) > 1 && f[0] == "krberror":
		want = "krberror " + f[1] + " 1"
	}
	if c.secondCRealm != "" && want == "err 1" {
		want = "err 2" // the referral itself is in order and followed; the second reply is the one refused
	}
	got := fmt.Sprintf("%s %d", goRes, tgsSeen)
	desc := fmt.Sprintf("referral/TGS/%d/%s", c.et, c.describe())
	v.Case(desc, "exchange referral -> "+strings.Fields(goRes + " -")[0])
	if got != want {
		what, k := "the client's handling of a referral reply differs from the model's", "correspondence"
		if strings.HasPrefix(goRes, "ok") || (tgsSeen > 1 && c.secondCRealm == "") {
			what, k = "the client follows a referral whose reply does not answer its request (independent verifier: "+mo+")", "failing-input"
		} else if strings.HasPrefix(goRes, "panic") {
			what, k = "the client panicked on a referral reply", "failing-input"
		}
		v.Violate(k, "c09:"+desc, what, map[string]string{"case": desc, "go": got, "want": want, "model": mo, "op": op})
	}
}
