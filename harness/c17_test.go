package harness

import (
	"bytes"
	"fmt"
	"strings"
	"testing"

	"github.com/jcmturner/gokrb5/v8/gssapi"
	"github.com/jcmturner/gokrb5/v8/types"
)

// C17: GSS-API MIC and Wrap tokens follow RFC 4121 and bind header and payload.
func TestC17(t *testing.T) {
	m := StartModel(t)
	defer m.Close()
	v := NewVerdict("C17", "etype x payload length 0..300 x flags 0..7 x sequence numbers {0,1,2^32,2^64-1,PRNG} x both directions x the four GSS key usages: token bytes built by Go = bytes built by the Lean RFC 4121 implementation; Unmarshal/Verify of every single-bit flip and every truncation of marshalled tokens on both sides; every mismatch of expected direction; every field changed between checksum computation and verification. distinct = (kind, etype, length/flags/usage descriptor or mutation kind)")
	rng := NewRNG(Seed())
	seqs := []uint64{0, 1, 1 << 32, 1<<64 - 1}
	usages := []uint32{22, 23, 24, 25}
	step := 7
	if Thorough() {
		step = 1
	}
	for _, et := range allEtypes {
		for l := 0; l <= 300; l += step {
			ll := l
			if !Thorough() {
				ll = l + rng.Intn(step)
				if ll > 300 {
					ll = 300
				}
			}
			flags := byte(rng.Intn(8))
			seq := seqs[rng.Intn(len(seqs))]
			if rng.Intn(3) == 0 {
				seq = rng.U64()
			}
			usage := usages[rng.Intn(4)]
			key := randKey(rng, et)
			payload := rng.Bytes(ll)
			c17Wrap(m, v, rng, et, key, usage, flags, seq, payload, (l/step)%5 == 0 || Thorough())
			c17Mic(m, v, rng, et, key, usage, flags, seq, payload, (l/step)%5 == 0 || Thorough())
		}
		// the empty message (a Wrap token that is header and checksum only; a MIC over nothing)
		for _, fl := range []byte{0, 1, 5} {
			key := randKey(rng, et)
			c17Wrap(m, v, rng, et, key, usages[int(fl)%4], fl, 7, []byte{}, true)
			c17Mic(m, v, rng, et, key, usages[int(fl)%4], fl, 7, []byte{}, true)
		}
		// all flags x all seqs x both token kinds x all usages on a short payload
		for flags := 0; flags < 8; flags++ {
			for _, seq := range seqs {
				for _, usage := range usages {
					key := randKey(rng, et)
					c17Wrap(m, v, rng, et, key, usage, byte(flags), seq, []byte("hello"), false)
					if flags == 0 && seq == 0 && usage == usages[0] {
						// payloads around and beyond 64 KiB (lengths are not 16-bit quantities)
						for _, n := range []int{65519, 65535, 65536, 65537, 70000, 131072} {
							c17Wrap(m, v, rng, et, key, usage, 0, 1, rng.Bytes(n), false)
							c17Mic(m, v, rng, et, key, usage, 0, 1, rng.Bytes(n), false)
						}
					}
					c17Mic(m, v, rng, et, key, usage, byte(flags), seq, []byte("hello"), false)
				}
			}
		}
	}
	// constructors
	for _, et := range allEtypes {
		key := types.EncryptionKey{KeyType: et, KeyValue: randKey(rng, et)}
		p := rng.Bytes(33)
		wt, err := gssapi.NewInitiatorWrapToken(p, key)
		v.Case(fmt.Sprintf("ctor/wrap/%d", et), "constructor")
		if err == nil {
			b, _ := wt.Marshal()
			want := m.Ask(fmt.Sprintf("gss.wrap %d %s 24 0 0 %s", et, X(key.KeyValue), X(p)))
			if want != "ok "+X(b) {
				v.Violate("failing-input", fmt.Sprintf("c17:ctor-wrap:%d", et), "NewInitiatorWrapToken differs from the RFC 4121 token", map[string]string{"go": X(b), "model": want})
			}
		}
		mt, err := gssapi.NewInitiatorMICToken(p, key)
		v.Case(fmt.Sprintf("ctor/mic/%d", et), "constructor")
		if err == nil {
			b, _ := mt.Marshal()
			want := m.Ask(fmt.Sprintf("gss.mic %d %s 25 0 0 %s", et, X(key.KeyValue), X(p)))
			if want != "ok "+X(b) {
				v.Violate("failing-input", fmt.Sprintf("c17:ctor-mic:%d", et), "NewInitiatorMICToken differs from the RFC 4121 token", map[string]string{"go": X(b), "model": want})
			}
		}
	}
	v.ModelAsks = m.N
	v.Write(t)
}

func goUnwrap(b []byte, expect bool, key types.EncryptionKey, usage uint32) string {
	var wt gssapi.WrapToken
	return goUnwrapInto(&wt, b, expect, key, usage)
}

// goUnwrapInto decodes into a value the caller may have used for earlier tokens (a receiver that keeps one
// WrapToken per connection): what was decoded before has no influence on the result.
func goUnwrapInto(wtp *gssapi.WrapToken, b []byte, expect bool, key types.EncryptionKey, usage uint32) string {
	var err error
	wt := wtp
	if p := Protect(func() { err = wt.Unmarshal(b, expect) }); p != "" {
		return "panic " + p
	}
	if err != nil {
		return "err"
	}
	ok := false
	if p := Protect(func() { ok, _ = wt.Verify(key, usage) }); p != "" {
		return "panic " + p
	}
	return fmt.Sprintf("ok flags=%d ec=%d rrc=%d seq=%d payload=%s cksum=%s verify=%s", wt.Flags, wt.EC, wt.RRC, wt.SndSeqNum, X(wt.Payload), X(wt.CheckSum), B(ok))
}

func goUnmicInto(mtp *gssapi.MICToken, b []byte, expect bool, key types.EncryptionKey, usage uint32, payload []byte) string {
	var err error
	mt := mtp
	if p := Protect(func() { err = mt.Unmarshal(b, expect) }); p != "" {
		return "panic " + p
	}
	if err != nil {
		return "err"
	}
	mt.Payload = payload
	ok := false
	if p := Protect(func() { ok, _ = mt.Verify(key, usage) }); p != "" {
		return "panic " + p
	}
	return fmt.Sprintf("ok flags=%d seq=%d cksum=%s verify=%s", mt.Flags, mt.SndSeqNum, X(mt.Checksum), B(ok))
}

func goUnmic(b []byte, expect bool, key types.EncryptionKey, usage uint32, payload []byte) string {
	var mt gssapi.MICToken
	var err error
	if p := Protect(func() { err = mt.Unmarshal(b, expect) }); p != "" {
		return "panic " + p
	}
	if err != nil {
		return "err"
	}
	mt.Payload = payload
	ok := false
	if p := Protect(func() { ok, _ = mt.Verify(key, usage) }); p != "" {
		return "panic " + p
	}
	return fmt.Sprintf("ok flags=%d seq=%d cksum=%s verify=%s", mt.Flags, mt.SndSeqNum, X(mt.Checksum), B(ok))
}

func canonErr(s string) string {
	if strings.HasPrefix(s, "err") {
		return "err"
	}
	return s
}

func c17Wrap(m *Model, v *Verdict, rng *RNG, et int32, keyb []byte, usage uint32, flags byte, seq uint64, payload []byte, mutate bool) {
	key := types.EncryptionKey{KeyType: et, KeyValue: keyb}
	wt := gssapi.WrapToken{Flags: flags, EC: uint16(specMacLen(et)), RRC: 0, SndSeqNum: seq, Payload: payload}
	if payload == nil {
		wt.Payload = []byte{}
	}
	if err := wt.SetCheckSum(key, usage); err != nil {
		v.Violate("failing-input", fmt.Sprintf("c17:setchecksum:%d", et), "SetCheckSum failed: "+err.Error(), nil)
		return
	}
	b, err := wt.Marshal()
	op := fmt.Sprintf("gss.wrap %d %s %d %d %d %s", et, X(keyb), usage, flags, seq, X(payload))
	want := m.Ask(op)
	v.Case(fmt.Sprintf("wrap/%d/%d/%d/%d", et, len(payload), flags, usage), fmt.Sprintf("wrap build et=%d", et))
	if err != nil || want != "ok "+X(b) {
		v.Violate("failing-input", fmt.Sprintf("c17:wrap-bytes:%d", et), "Wrap token bytes differ from the RFC 4121 4.2.6.2 layout/checksum an independent implementation produces", map[string]string{"op": op, "go": X(b), "model": want})
		return
	}
	if len(payload) == 5 && flags == 1 {
		v.Sample(op + " -> " + want)
	}
	// the RRC field (octets 6..7, big endian) is marshalled as it is set: it is outside the checksum
	for _, rrc := range []uint16{12, 28, 0xABCD, uint16(rng.Intn(65536))} {
		w2 := wt
		w2.RRC = rrc
		b2, err := w2.Marshal()
		exp := append([]byte{}, b...)
		exp[6], exp[7] = byte(rrc>>8), byte(rrc)
		v.Case(fmt.Sprintf("wrap/%d/rrc", et), "wrap build with RRC set")
		if err != nil || X(b2) != X(exp) {
			v.Violate("failing-input", fmt.Sprintf("c17:wrap-rrc:%d", et), "a Wrap token with RRC set is not marshalled in the RFC 4121 4.2.6.2 layout (RRC in octets 6..7)", map[string]string{"rrc": fmt.Sprint(rrc), "go": X(b2), "rfc": X(exp)})
			break
		}
		var back gssapi.WrapToken
		if e := back.Unmarshal(b2, flags&1 == 1); e != nil || back.RRC != rrc {
			v.Violate("failing-input", fmt.Sprintf("c17:wrap-rrc-roundtrip:%d", et), "Marshal followed by Unmarshal does not return the RRC that was set", map[string]string{"rrc": fmt.Sprint(rrc), "got": fmt.Sprint(back.RRC)})
			break
		}
	}
	expect := flags&1 == 1
	var reused gssapi.WrapToken
	cmp := func(kind string, tok []byte, exp bool, mustVerify int) {
		g := goUnwrap(tok, exp, key, usage)
		if kind == "roundtrip" || kind == "no-checksum" || kind == "short-checksum" {
			// what decodes encodes again, to the octets it was decoded from (also a token without checksum or payload)
			var back gssapi.WrapToken
			if back.Unmarshal(tok, exp) == nil {
				rb, rerr := back.Marshal()
				if rerr != nil || !bytes.Equal(rb, tok) {
					v.Violate("failing-input", "c17:wrap-reencode:"+kind, "a Wrap token that decodes is not encoded again to the same octets", map[string]string{"token": X(tok), "reencoded": X(rb), "error": fmt.Sprint(rerr), "et": itoa(et)})
				}
			}
		}
		if gr := goUnwrapInto(&reused, tok, exp, key, usage); gr != g {
			v.Violate("failing-input", "c17:wrap-reused-value:"+kind, "decoding a token into a WrapToken value that held an earlier token gives another result than decoding it into a fresh one", map[string]string{"token": X(tok), "earlier": X(b), "expect": B(exp), "et": itoa(et), "key": X(keyb), "usage": itoa(usage), "fresh": g, "reused": gr})
		}
		mo := canonErr(m.Ask(fmt.Sprintf("gss.unwrap %s %s %d %s %d", X(tok), B(exp), et, X(keyb), usage)))
		v.Case(fmt.Sprintf("wrap/%d/%s", et, kind), "wrap "+kind)
		d := map[string]string{"token": X(tok), "expect": B(exp), "et": itoa(et), "key": X(keyb), "usage": itoa(usage), "go": g, "model": mo, "orig": X(b)}
		if strings.HasPrefix(g, "panic") {
			v.Violate("failing-input", "c17:wrap-panic:"+kind, "WrapToken.Unmarshal/Verify panicked", d)
			return
		}
		if mustVerify == 1 && !strings.HasSuffix(g, "verify=1") {
			v.Violate("failing-input", "c17:wrap-roundtrip:"+kind, "a token the library built is not decoded and verified", d)
			return
		}
		if mustVerify == 0 && strings.HasSuffix(g, "verify=1") {
			v.Violate("failing-input", "c17:wrap-accepts:"+kind, "a modified token / mismatching parameter is decoded and verified", d)
			return
		}
		if g != mo {
			v.Violate("correspondence", "c17:wrap-model:"+kind, "WrapToken.Unmarshal/Verify and the Lean model disagree", d)
		}
	}
	cmp("roundtrip", b, expect, 1)
	// the same header and payload with no checksum at all (EC = 0): anybody can build that
	if len(b) >= 16+len(payload) {
		nc := append([]byte{}, b[:16+len(payload)]...)
		nc[4], nc[5] = 0, 0
		cmp("no-checksum", nc, expect, 0)
		cmp("roundtrip", b, expect, 1)
		// ... or with the checksum cut short
		if ml := specMacLen(et); len(b) == 16+len(payload)+ml && ml > 4 {
			sc := append([]byte{}, b[:len(b)-4]...)
			sc[4], sc[5] = byte((ml-4)>>8), byte(ml-4)
			cmp("short-checksum", sc, expect, 0)
			cmp("roundtrip", b, expect, 1)
		}
	}
	cmp("wrong-direction", b, !expect, 0)
	if !mutate {
		return
	}
	for i := 0; i < len(b)*8; i++ {
		c := append([]byte{}, b...)
		c[i/8] ^= 1 << uint(i%8)
		// flips in RRC (bytes 6,7) are not covered by the checksum by RFC design (EC/RRC zeroed): skip oracle there
		must := 0
		if i/8 == 6 || i/8 == 7 {
			must = -1
		}
		e := expect
		if i/8 == 2 && i%8 == 0 {
			e = !expect // so that the direction check passes and the checksum must catch it
		}
		cmp("bitflip", c, e, must)
	}
	for n := 0; n < len(b); n++ {
		cmp("truncated", b[:n], expect, 0)
	}
	// fields changed between SetCheckSum and Verify
	for k := 0; k < 6; k++ {
		w2 := wt
		w2.Payload = append([]byte{}, wt.Payload...)
		kind := ""
		u2, key2 := usage, key
		switch k {
		case 0:
			w2.Payload = append(w2.Payload, 0)
			kind = "payload+"
		case 1:
			if len(w2.Payload) == 0 {
				continue
			}
			w2.Payload[rng.Intn(len(w2.Payload))] ^= 0x80
			kind = "payload-bit"
		case 2:
			w2.Flags ^= byte(1 << uint(rng.Intn(3)))
			kind = "flags"
		case 3:
			w2.SndSeqNum ^= 1 << uint(rng.Intn(64))
			kind = "seq"
		case 4:
			u2 = usage ^ 1
			if et == 23 && rc4Alias(u2) == rc4Alias(usage) {
				continue
			}
			kind = "usage"
		case 5:
			key2 = types.EncryptionKey{KeyType: et, KeyValue: randKey(rng, et)}
			kind = "key"
		}
		ok, _ := w2.Verify(key2, u2)
		v.Case(fmt.Sprintf("wrap/%d/changed-%s", et, kind), "wrap changed "+kind)
		if ok {
			v.Violate("failing-input", "c17:wrap-changed:"+kind, "verification succeeds although a field changed after the checksum was computed", map[string]string{"token": X(b), "kind": kind, "et": itoa(et)})
		}
	}
}

func c17Mic(m *Model, v *Verdict, rng *RNG, et int32, keyb []byte, usage uint32, flags byte, seq uint64, payload []byte, mutate bool) {
	key := types.EncryptionKey{KeyType: et, KeyValue: keyb}
	mt := gssapi.MICToken{Flags: flags, SndSeqNum: seq, Payload: payload}
	if payload == nil {
		mt.Payload = []byte{}
	}
	if err := mt.SetChecksum(key, usage); err != nil {
		v.Violate("failing-input", fmt.Sprintf("c17:mic-setchecksum:%d", et), "SetChecksum failed: "+err.Error(), nil)
		return
	}
	b, err := mt.Marshal()
	op := fmt.Sprintf("gss.mic %d %s %d %d %d %s", et, X(keyb), usage, flags, seq, X(payload))
	want := m.Ask(op)
	v.Case(fmt.Sprintf("mic/%d/%d/%d/%d", et, len(payload), flags, usage), fmt.Sprintf("mic build et=%d", et))
	if err != nil || want != "ok "+X(b) {
		v.Violate("failing-input", fmt.Sprintf("c17:mic-bytes:%d", et), "MIC token bytes differ from the RFC 4121 4.2.6.1 layout/checksum an independent implementation produces", map[string]string{"op": op, "go": X(b), "model": want})
		return
	}
	expect := flags&1 == 1
	var reused gssapi.MICToken
	cmp := func(kind string, tok []byte, exp bool, pl []byte, mustVerify int) {
		g := goUnmic(tok, exp, key, usage, pl)
		if kind == "roundtrip" || kind == "no-checksum" {
			var back gssapi.MICToken
			if back.Unmarshal(tok, exp) == nil {
				rb, rerr := back.Marshal()
				if rerr != nil || !bytes.Equal(rb, tok) {
					v.Violate("failing-input", "c17:mic-reencode:"+kind, "a MIC token that decodes is not encoded again to the same octets", map[string]string{"token": X(tok), "reencoded": X(rb), "error": fmt.Sprint(rerr), "et": itoa(et)})
				}
			}
		}
		if gr := goUnmicInto(&reused, tok, exp, key, usage, pl); gr != g {
			v.Violate("failing-input", "c17:mic-reused-value:"+kind, "decoding a token into a MICToken value that held an earlier token gives another result than decoding it into a fresh one", map[string]string{"token": X(tok), "earlier": X(b), "expect": B(exp), "et": itoa(et), "key": X(keyb), "usage": itoa(usage), "fresh": g, "reused": gr})
		}
		mo := canonErr(m.Ask(fmt.Sprintf("gss.unmic %s %s %d %s %d %s", X(tok), B(exp), et, X(keyb), usage, X(pl))))
		v.Case(fmt.Sprintf("mic/%d/%s", et, kind), "mic "+kind)
		d := map[string]string{"token": X(tok), "expect": B(exp), "et": itoa(et), "key": X(keyb), "usage": itoa(usage), "payload": X(pl), "go": g, "model": mo, "orig": X(b)}
		if strings.HasPrefix(g, "panic") {
			v.Violate("failing-input", "c17:mic-panic:"+kind, "MICToken.Unmarshal/Verify panicked", d)
			return
		}
		if mustVerify == 1 && !strings.HasSuffix(g, "verify=1") {
			v.Violate("failing-input", "c17:mic-roundtrip:"+kind, "a token the library built is not decoded and verified", d)
			return
		}
		if mustVerify == 0 && strings.HasSuffix(g, "verify=1") {
			v.Violate("failing-input", "c17:mic-accepts:"+kind, "a modified token / mismatching parameter is decoded and verified", d)
			return
		}
		if g != mo {
			v.Violate("correspondence", "c17:mic-model:"+kind, "MICToken.Unmarshal/Verify and the Lean model disagree", d)
		}
	}
	cmp("roundtrip", b, expect, payload, 1)
	if len(b) >= 16 {
		cmp("no-checksum", b[:16], expect, payload, 0)
		cmp("roundtrip", b, expect, payload, 1)
	}
	cmp("wrong-direction", b, !expect, payload, 0)
	cmp("other-payload", b, expect, append(append([]byte{}, payload...), 1), 0)
	if !mutate {
		return
	}
	for i := 0; i < len(b)*8; i++ {
		c := append([]byte{}, b...)
		c[i/8] ^= 1 << uint(i%8)
		e := expect
		if i/8 == 2 && i%8 == 0 {
			e = !expect
		}
		cmp("bitflip", c, e, payload, 0)
	}
	for n := 0; n < len(b); n++ {
		cmp("truncated", b[:n], expect, payload, 0)
	}
}
