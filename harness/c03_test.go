package harness

import (
	"encoding/base64"
	"errors"
	"fmt"
	"net/http"
	"net/http/httptest"
	"strings"
	"sync/atomic"
	"testing"
	"testing/synctest"
	"time"

	goidentity "github.com/jcmturner/goidentity/v6"
	"github.com/jcmturner/gokrb5/v8/credentials"
	"github.com/jcmturner/gokrb5/v8/gssapi"
	"github.com/jcmturner/gokrb5/v8/messages"
	"github.com/jcmturner/gokrb5/v8/service"
	"github.com/jcmturner/gokrb5/v8/spnego"
	"github.com/jcmturner/gokrb5/v8/types"
)

// ---- a small DER builder, independent of the library's marshalling ----

var c03Methods = []string{"GET", "POST", "OPTIONS", "HEAD", "PUT", "DELETE", "PATCH", "TRACE", "PROPFIND", "OPTIONS", "GET"}
var c03Requests int

func derLen(n int) []byte {
	if n < 128 {
		return []byte{byte(n)}
	}
	var d []byte
	for x := n; x > 0; x >>= 8 {
		d = append([]byte{byte(x)}, d...)
	}
	return append([]byte{byte(0x80 + len(d))}, d...)
}

func tlv(tag byte, content ...[]byte) []byte {
	var c []byte
	for _, x := range content {
		c = append(c, x...)
	}
	return append(append([]byte{tag}, derLen(len(c))...), c...)
}

func oidDER(arcs ...int) []byte {
	b := []byte{byte(arcs[0]*40 + arcs[1])}
	for _, a := range arcs[2:] {
		var s []byte
		s = append(s, byte(a&0x7f))
		for a >>= 7; a > 0; a >>= 7 {
			s = append([]byte{byte(a&0x7f) | 0x80}, s...)
		}
		b = append(b, s...)
	}
	return tlv(6, b)
}

var (
	oidKrb5   = []int{1, 2, 840, 113554, 1, 2, 2}
	oidMSKrb5 = []int{1, 2, 840, 48018, 1, 2, 2}
	oidSpnego = []int{1, 3, 6, 1, 5, 5, 2}
	oidNTLM   = []int{1, 3, 6, 1, 4, 1, 311, 2, 2, 10}
)

// spCase: how the AP-REQ (or something else) is wrapped and presented.
type spCase struct {
	ap apCase // the AP-REQ inside (when body == "apreq")

	// KRB5 mechanism token
	k5oid   []int  // default krb5
	tokID   []byte // default 01 00
	body    string // apreq | aprep | krberror | garbage | empty | apreq-trailing | apreq-truncated
	k5outer byte   // default 0x60
	k5lax   bool   // the [APPLICATION 0] wrapper declares a wrong length

	// negotiation token
	wrap      string  // init | resp | raw | none (header carries something else)
	mechs     [][]int // init: mechTypes
	noMechTok bool    // mechToken / responseToken absent
	emptyTok  bool    // present but zero length
	reqFlags  bool
	mic       bool
	negState  int // resp: -1 absent
	suppMech  []int
	choiceTag byte  // default a0 / a1
	spOID     []int // default spnego
	spOuter   byte  // default 0x60
	trailing  bool  // bytes after the whole token
	flip      int   // flip this bit of the wrapper part of the token (-1 none)

	// header
	scheme   string // default "Negotiate "
	b64      string // std | url | nopad | badchar | afterpad | crlf
	noHeader bool

	// session manager
	session  string // none | getfails | empty | malformed | valid | unauth
	newFails bool

	remote string // RemoteAddr
}

func baseSp(et int32) spCase {
	return spCase{ap: baseCase(et), body: "apreq", wrap: "init", mechs: [][]int{oidKrb5}, negState: 0, suppMech: oidKrb5,
		flip: -1, scheme: "Negotiate ", b64: "std", session: "none", remote: "10.0.0.1:4321"}
}

func (c spCase) describe() string {
	d := baseSp(c.ap.et)
	var p []string
	add := func(cond bool, s string) {
		if cond {
			p = append(p, s)
		}
	}
	if a := c.ap.describe(); a != "valid" {
		p = append(p, "ap["+a+"]")
	}
	add(c.k5oid != nil, fmt.Sprintf("k5oid=%v", c.k5oid))
	add(c.tokID != nil, fmt.Sprintf("tokid=%x", c.tokID))
	add(c.body != d.body, "body="+c.body)
	add(c.k5outer != 0, fmt.Sprintf("k5outer=%02x", c.k5outer))
	add(c.k5lax, "k5laxlen")
	add(c.wrap != d.wrap, "wrap="+c.wrap)
	add(fmt.Sprint(c.mechs) != fmt.Sprint(d.mechs), fmt.Sprintf("mechs=%d:%v", len(c.mechs), mechNames(c.mechs)))
	add(c.noMechTok, "nomechtok")
	add(c.emptyTok, "emptytok")
	add(c.reqFlags, "reqflags")
	add(c.mic, "mic")
	add(c.negState != 0, fmt.Sprintf("negstate=%d", c.negState))
	add(fmt.Sprint(c.suppMech) != fmt.Sprint(d.suppMech), "suppmech="+mechNames([][]int{c.suppMech}))
	add(c.choiceTag != 0, fmt.Sprintf("choice=%02x", c.choiceTag))
	add(c.spOID != nil, "spoid")
	add(c.spOuter != 0, fmt.Sprintf("spouter=%02x", c.spOuter))
	add(c.trailing, "trailing")
	add(c.flip >= 0, "flip")
	add(c.scheme != d.scheme, fmt.Sprintf("scheme=%q", c.scheme))
	add(c.b64 != "std", "b64="+c.b64)
	add(c.noHeader, "noheader")
	add(c.session != "none", "session="+c.session)
	add(c.newFails, "newfails")
	add(c.remote != d.remote, "remote="+c.remote)
	if len(p) == 0 {
		return "valid"
	}
	return strings.Join(p, ",")
}

func mechNames(ms [][]int) string {
	var n []string
	for _, m := range ms {
		switch fmt.Sprint(m) {
		case fmt.Sprint(oidKrb5):
			n = append(n, "krb5")
		case fmt.Sprint(oidMSKrb5):
			n = append(n, "mskrb5")
		case fmt.Sprint(oidNTLM):
			n = append(n, "ntlm")
		case fmt.Sprint(oidSpnego):
			n = append(n, "spnego")
		default:
			n = append(n, "none")
		}
	}
	return strings.Join(n, "+")
}

// token builds the bytes that are base64-encoded into the header; wrapperLen is the number of leading
// bytes that belong to the wrappers (everything before the Kerberos message).
func (c spCase) token(apreq []byte, rng *RNG) (tok []byte, wrapperLen int) {
	var msg []byte
	switch c.body {
	case "apreq":
		msg = apreq
	case "apreq-trailing":
		msg = append(append([]byte{}, apreq...), 0xde, 0xad, 0xbe, 0xef)
	case "apreq-truncated":
		msg = apreq[:len(apreq)-7]
	case "aprep":
		r := messages.APRep{PVNO: 5, MsgType: 15, EncPart: types.EncryptedData{EType: 18, Cipher: []byte{1, 2, 3, 4, 5, 6, 7, 8}}}
		b, _ := marshalAPRep(r)
		msg = b
	case "krberror":
		e := messages.NewKRBError(types.PrincipalName{NameType: 2, NameString: []string{"HTTP", "host.test.gokrb5"}}, "TEST.GOKRB5", 41, "modified")
		msg, _ = e.Marshal()
	case "garbage":
		msg = []byte{0x6e, 0x03, 0x02, 0x01, 0x05}
	case "empty":
		msg = nil
	}
	koid := c.k5oid
	if koid == nil {
		koid = oidKrb5
	}
	tid := c.tokID
	if tid == nil {
		tid = []byte{1, 0}
	}
	kouter := c.k5outer
	if kouter == 0 {
		kouter = 0x60
	}
	k5hdr := append(oidDER(koid...), tid...)
	k5 := tlv(kouter, k5hdr, msg)
	k5wrap := len(k5) - len(msg)
	if c.k5lax {
		// declare one byte less than there is (short form only, to keep the header size)
		inner := append(append([]byte{}, k5hdr...), msg...)
		hl := len(k5) - len(inner)
		k5 = append(append([]byte{}, k5[:hl]...), inner...)
		k5[hl-1]--
	}
	if c.wrap == "raw" {
		tok = k5
		wrapperLen = k5wrap
	} else {
		var mechTok []byte
		switch {
		case c.noMechTok:
		case c.emptyTok:
			mechTok = tlv(0xa2, tlv(4))
		default:
			mechTok = tlv(0xa2, tlv(4, k5))
		}
		var neg []byte
		if c.wrap == "init" {
			var ml []byte
			for _, m := range c.mechs {
				ml = append(ml, oidDER(m...)...)
			}
			fields := tlv(0xa0, tlv(0x30, ml))
			if c.reqFlags {
				fields = append(fields, tlv(0xa1, tlv(3, []byte{1, 0x0c}))...)
			}
			pre := len(fields)
			fields = append(fields, mechTok...)
			if c.mic {
				fields = append(fields, tlv(0xa3, tlv(4, []byte{9, 9, 9, 9}))...)
			}
			ct := c.choiceTag
			if ct == 0 {
				ct = 0xa0
			}
			seq := tlv(0x30, fields)
			neg = tlv(ct, seq)
			wrapperLen = len(neg) - len(seq) + (len(seq) - len(fields)) + pre
		} else {
			var fields []byte
			if c.negState >= 0 {
				fields = append(fields, tlv(0xa0, tlv(10, []byte{byte(c.negState)}))...)
			}
			if c.suppMech != nil {
				fields = append(fields, tlv(0xa1, oidDER(c.suppMech...))...)
			}
			pre := len(fields)
			fields = append(fields, mechTok...)
			if c.mic {
				fields = append(fields, tlv(0xa3, tlv(4, []byte{9, 9, 9, 9}))...)
			}
			ct := c.choiceTag
			if ct == 0 {
				ct = 0xa1
			}
			seq := tlv(0x30, fields)
			neg = tlv(ct, seq)
			wrapperLen = len(neg) - len(seq) + (len(seq) - len(fields)) + pre
		}
		if len(mechTok) > 0 && !c.emptyTok {
			wrapperLen += len(mechTok) - len(k5) + k5wrap
		}
		if c.wrap == "init" {
			so := c.spOID
			if so == nil {
				so = oidSpnego
			}
			outer := c.spOuter
			if outer == 0 {
				outer = 0x60
			}
			o := oidDER(so...)
			tok = tlv(outer, o, neg)
			wrapperLen += len(tok) - len(neg)
		} else {
			tok = neg // a NegTokenResp travels without the GSS framing
		}
	}
	if wrapperLen > len(tok) {
		wrapperLen = len(tok)
	}
	if c.flip >= 0 && wrapperLen > 0 {
		i := c.flip % (wrapperLen * 8)
		tok = append([]byte{}, tok...)
		tok[i/8] ^= 1 << uint(i%8)
	}
	if c.trailing {
		tok = append(append([]byte{}, tok...), 0, 1, 2, 3)
	}
	return
}

func marshalAPRep(r messages.APRep) ([]byte, error) {
	// messages.APRep has no Marshal; build it with the independent DER builder
	enc := tlv(0x30, tlv(0xa0, tlv(2, []byte{byte(r.EncPart.EType)})), tlv(0xa2, tlv(4, r.EncPart.Cipher)))
	return tlv(0x6f, tlv(0x30, tlv(0xa0, tlv(2, []byte{5})), tlv(0xa1, tlv(2, []byte{15})), tlv(0xa2, enc))), nil
}

func (c spCase) header(tok []byte) string {
	var v string
	switch c.b64 {
	case "std":
		v = base64.StdEncoding.EncodeToString(tok)
	case "url":
		v = base64.URLEncoding.EncodeToString(append([]byte{0xfb, 0xff}, tok...))
	case "nopad":
		v = base64.RawStdEncoding.EncodeToString(append(tok, make([]byte, (3-len(tok)%3)%3+1)...))
	case "badchar":
		v = base64.StdEncoding.EncodeToString(tok)
		v = v[:len(v)/2] + "*" + v[len(v)/2+1:]
	case "afterpad":
		v = base64.StdEncoding.EncodeToString(append(tok, make([]byte, (3-len(tok)%3)%3+1)...)) + "QUJD"
	case "crlf":
		v = base64.StdEncoding.EncodeToString(tok)
		v = v[:len(v)/3] + "\r\n" + v[len(v)/3:]
	}
	return c.scheme + v
}

// fake session manager
type fakeSessions struct {
	mode     string
	stored   []byte
	newFails bool
	newCalls int
	newKey   string
	newVal   []byte
}

func (f *fakeSessions) New(w http.ResponseWriter, r *http.Request, k string, v []byte) error {
	f.newCalls++
	f.newKey, f.newVal = k, v
	if f.newFails {
		return errors.New("session store unavailable")
	}
	return nil
}

func (f *fakeSessions) Get(r *http.Request, k string) ([]byte, error) {
	switch f.mode {
	case "getfails":
		return nil, errors.New("no session")
	case "empty":
		return []byte{}, nil
	case "malformed":
		return []byte("this is not a gob stream"), nil
	}
	return f.stored, nil
}

func identityString(id goidentity.Identity) string {
	c, ok := id.(*credentials.Credentials)
	if !ok {
		return fmt.Sprintf("identity-of-type-%T", id)
	}
	cs := make([]string, len(c.CName().NameString))
	for i, x := range c.CName().NameString {
		cs[i] = XS(x)
	}
	return fmt.Sprintf("%s %s %d", List(cs), XS(c.Domain()), Micros(c.ValidUntil()))
}

// identityExtra: what an application reads from the identity besides the principal: the user name (the PAC's account
// name when there is one), display name, whether it counts as authenticated, the number of authorization attributes
func identityExtra(id goidentity.Identity) string {
	c, ok := id.(*credentials.Credentials)
	if !ok {
		return fmt.Sprintf("identity-of-type-%T", id)
	}
	return fmt.Sprintf("user=%s display=%s authenticated=%s attributes=%d", XS(c.UserName()), XS(c.DisplayName()), B(c.Authenticated()), len(c.Attributes()))
}

const (
	hdrAcceptCompleted = "Negotiate oRQwEqADCgEAoQsGCSqGSIb3EgECAg=="
	hdrReject          = "Negotiate oQcwBaADCgEC"
	hdrIncomplete      = "Negotiate oRQwEqADCgEBoQsGCSqGSIb3EgECAg=="
)

// runSpCase drives the real wrapped handler once (twice when replay) and returns its observable behaviour and the model op.
func runSpCase(t *testing.T, m *Model, rng *RNG, c spCase, replay bool, shared http.Handler) (goRes, op, extra string, mintErr error) {
	_, ktToks := serviceKeytab()
	id := uniqueID()
	c.ap = uniquify(c.ap, id)
	synctest.Test(t, func(t *testing.T) {
		now := time.Now()
		_, apb, err := mintAPReq(m, rng, c.ap, now)
		if err != nil {
			mintErr = err
			return
		}
		tok, _ := c.token(apb, rng)
		hdr := c.header(tok)
		if c.noHeader {
			hdr = ""
		}
		// settings: the wrapper adds ClientAddress from RemoteAddr unless the application configured one
		ac := c.ap
		kt, _ := serviceKeytab()
		opts := []func(*service.Settings){service.MaxClockSkew(ac.skew), service.RequireHostAddr(ac.reqHost), service.DecodePAC(ac.decodePAC), service.Logger(discard)}
		caddr := "-"
		if h, e := remoteHostAddr(c.remote); e == nil {
			caddr = fmt.Sprintf("%d~%s", h.AddrType, X(h.Address))
		}
		if ac.clientAddr != nil {
			opts = append(opts, service.ClientAddress(*ac.clientAddr))
			caddr = fmt.Sprintf("%d~%s", ac.clientAddr.AddrType, X(ac.clientAddr.Address))
		}
		ovr := "-"
		if ac.override != "" {
			opts = append(opts, service.KeytabPrincipal(ac.override))
			var cs []string
			for _, p := range strings.Split(ac.override, "/") {
				cs = append(cs, XS(p))
			}
			ovr = "o" + List(cs)
		}
		sessTok := "n"
		var fs *fakeSessions
		if c.session != "none" {
			fs = &fakeSessions{mode: c.session, newFails: c.newFails}
			opts = append(opts, service.SessionManager(fs))
			switch c.session {
			case "getfails", "empty":
				sessTok = "f"
			case "malformed":
				sessTok = "m"
			case "valid", "unauth":
				cr := credentials.New("sessionuser", "SESSION.REALM")
				cr.SetAuthenticated(c.session == "valid")
				vu := now.Add(3 * time.Hour).Truncate(time.Second)
				cr.SetValidUntil(vu)
				fs.stored, _ = cr.Marshal()
				sessTok = fmt.Sprintf("c:%s:%s:%s:%d", B(c.session == "valid"), XS("sessionuser"), XS("SESSION.REALM"), Micros(vu))
			}
		}
		once := func() string {
			ran := 0
			var seen, seenX string
			inner := http.HandlerFunc(func(w http.ResponseWriter, r *http.Request) {
				ran++
				if idn := goidentity.FromHTTPRequestContext(r); idn != nil {
					seen = identityString(idn)
					seenX = identityExtra(idn)
				} else {
					seen = "no-identity"
				}
				w.WriteHeader(200)
			})
			h := spnego.SPNEGOKRB5Authenticate(inner, kt, opts...)
			if shared != nil {
				// one wrapped handler serving many requests: the inner handler reports through the request
				h = shared
				sharedInner.Store(inner)
			}
			// the method is the application's matter: the wrapper authenticates every request alike
			c03Requests++
			method := c03Methods[c03Requests%len(c03Methods)]
			req := httptest.NewRequest(method, "http://host.test.gokrb5/resource", nil)
			if method == "OPTIONS" {
				req.Header.Set("Origin", "http://elsewhere.example")
				req.Header.Set("Access-Control-Request-Method", "POST")
			}
			req.RemoteAddr = c.remote
			if !c.noHeader {
				req.Header["Authorization"] = []string{hdr}
			}
			w := httptest.NewRecorder()
			if fs != nil {
				fs.newCalls = 0
			}
			if p := Protect(func() { h.ServeHTTP(w, req) }); p != "" {
				return "crashed"
			}
			// what the client receives: the header map as it was when the status line was written
			res := w.Result()
			wa := res.Header.Get("WWW-Authenticate")
			switch {
			case ran > 1:
				return "served-more-than-once"
			case ran == 1:
				fresh := wa == hdrAcceptCompleted
				if w.Code != 200 {
					return fmt.Sprintf("served-with-status-%d", w.Code)
				}
				if fs != nil && fresh && (fs.newCalls != 1 || fs.newKey != "github.com/jcmturner/gokrb5/v8/sessionCredentials") {
					extra = fmt.Sprintf("authenticated by this request but SessionMgr.New was called %d times (key %q)", fs.newCalls, fs.newKey)
				}
				if fs != nil && fresh && fs.newCalls == 1 {
					var back credentials.Credentials
					if e := back.Unmarshal(fs.newVal); e != nil || identityString(&back) != seen {
						extra = "the credentials stored in the new session are not the identity that was served"
					} else if bx := identityExtra(&back); bx != seenX {
						// (what the requests of the session will be served as: user name, display name, groups included)
						extra = "the identity restored from the new session differs from the one that was served: served " + seenX + ", session " + bx
					}
				}
				if !fresh && wa != "" {
					return "served-with-challenge-" + wa
				}
				return fmt.Sprintf("served %s fresh=%s", seen, B(fresh))
			case w.Code == 401:
				switch wa {
				case "Negotiate":
					return "401 bare"
				case hdrIncomplete:
					return "401 incomplete"
				case hdrReject:
					return "401 reject"
				}
				return "401 with WWW-Authenticate " + wa
			case w.Code == 500:
				return "500"
			}
			return fmt.Sprintf("status-%d", w.Code)
		}
		goRes = once()
		if replay {
			goRes = once()
		}
		op = fmt.Sprintf("sp.http %d %d %s %s %s %s %s %s %s %s - %s", now.UnixNano()/1000, ac.skew/time.Microsecond, caddr, B(ac.reqHost), B(ac.decodePAC), ovr,
			B(replay), sessTok, B(c.newFails), X([]byte(hdr)), ktToks)
	})
	return
}

func remoteHostAddr(s string) (types.HostAddress, error) {
	// what the wrapper is documented to derive from RemoteAddr: the IP in "ip:port"
	switch s {
	case "10.0.0.1:4321":
		return types.HostAddress{AddrType: 2, Address: []byte{10, 0, 0, 1}}, nil
	case "10.0.0.2:80":
		return types.HostAddress{AddrType: 2, Address: []byte{10, 0, 0, 2}}, nil
	case "[2001:db8::1]:443":
		return types.HostAddress{AddrType: 24, Address: []byte{0x20, 1, 0xd, 0xb8, 0, 0, 0, 0, 0, 0, 0, 0, 0, 0, 0, 1}}, nil
	}
	return types.HostAddress{}, errors.New("no address")
}

func uniqueID() int64 { return atomicAdd(&uniqueClient) }

func uniquify(c apCase, id int64) apCase {
	if len(c.cname) > 0 {
		c.cname = append([]string{}, c.cname...)
		c.cname[0] = fmt.Sprintf("%s-%d", c.cname[0], id)
		if len(c.aCname) > 0 && strings.HasPrefix(c.aCname[0], "=") {
			c.aCname = append([]string{}, c.aCname...)
			c.aCname[0] = c.cname[0] + c.aCname[0][1:]
		}
	} else {
		c.crealm = fmt.Sprintf("R%d.%s", id, c.crealm)
	}
	return c
}

type spDefect struct {
	name string
	f    func(c *spCase, r *RNG)
}

func c03Defects() []spDefect {
	v4 := types.HostAddress{AddrType: 2, Address: []byte{10, 0, 0, 1}}
	v4b := types.HostAddress{AddrType: 2, Address: []byte{10, 0, 0, 2}}
	return []spDefect{
		// the AP-REQ inside
		{"ap-wrongkey", func(c *spCase, r *RNG) { c.ap.wrongKey = true }},
		{"ap-expired", func(c *spCase, r *RNG) { c.ap.endOff = -c.ap.skew - time.Second }},
		{"ap-end-on-limit", func(c *spCase, r *RNG) { c.ap.endOff = -c.ap.skew }},
		{"ap-flipauth", func(c *spCase, r *RNG) { c.ap.flipAuth = r.Intn(2000) }},
		{"ap-fliptkt", func(c *spCase, r *RNG) { c.ap.flipTkt = r.Intn(4000) }},
		{"ap-acrealm", func(c *spCase, r *RNG) { c.ap.aCrealm = "EVIL.REALM" }},
		{"ap-acrealm-case", func(c *spCase, r *RNG) { c.ap.aCrealm = strings.ToLower(c.ap.crealm) }},
		{"ap-acrealm-kelvin", func(c *spCase, r *RNG) { c.ap.aCrealm = strings.Replace(c.ap.crealm, "K", "\u212a", 1) }},
		{"ap-acname", func(c *spCase, r *RNG) { c.ap.aCname = []string{"someoneelse"} }},
		{"ap-ctime-late", func(c *spCase, r *RNG) { c.ap.ctimeOff = c.ap.skew + time.Microsecond }},
		{"ap-caddr-match", func(c *spCase, r *RNG) { c.ap.caddr = []types.HostAddress{v4} }},
		{"ap-caddr-mismatch", func(c *spCase, r *RNG) { c.ap.caddr = []types.HostAddress{v4b} }},
		{"ap-caddr-mismatch+netbios", func(c *spCase, r *RNG) {
			c.ap.caddr = []types.HostAddress{v4b, {AddrType: 20, Address: []byte("WORKSTATION     ")}}
		}},
		{"ap-caddr-netbios-only", func(c *spCase, r *RNG) {
			c.ap.caddr = []types.HostAddress{{AddrType: 20, Address: []byte("WORKSTATION     ")}}
		}},
		{"ap-crealm-partner", func(c *spCase, r *RNG) { c.ap.crealm = "PARTNER.EXAMPLE" }},
		{"ap-cname-trailing-space", func(c *spCase, r *RNG) { c.ap.cname = []string{"testuser1", "root "} }},
		{"ap-cname-leading-tab", func(c *spCase, r *RNG) { c.ap.cname = []string{"\ttestuser1"} }},
		{"ap-crealm-trailing-space", func(c *spCase, r *RNG) { c.ap.crealm = "TEST.GOKRB5 " }},
		{"ap-renewable-expired", func(c *spCase, r *RNG) { c.ap.renewable = true; c.ap.endOff = -time.Hour }},
		{"ap-reqhost", func(c *spCase, r *RNG) { c.ap.reqHost = true }},
		{"ap-clientaddr-configured", func(c *spCase, r *RNG) { c.ap.clientAddr = &v4b }},
		{"ap-invalid+nostart", func(c *spCase, r *RNG) { c.ap.invalid = true; c.ap.noStart = true }},
		{"ap-pac-valid", func(c *spCase, r *RNG) { c.ap.pac = "valid" }},
		// ... with a session manager: what is stored for the requests of the session is the identity that was served
		// (the PAC's account name is not the ticket's client name string)
		{"session+ap-pac-valid", func(c *spCase, r *RNG) { c.ap.pac = "valid"; c.session = "getfails" }},
		{"session+ap-pac-valid-second", func(c *spCase, r *RNG) { c.ap.pac = "valid-second"; c.session = "empty" }},
		{"ap-pac-badsig", func(c *spCase, r *RNG) { c.ap.pac = "badsig" }},
		{"ap-tktrealm", func(c *spCase, r *RNG) { c.ap.tktRealm = "OTHER.REALM" }},
		{"ap-krbtgt", func(c *spCase, r *RNG) { c.ap.sname = []string{"krbtgt", "TEST.GOKRB5"} }},
		// KRB5 mechanism token
		{"k5oid-mskrb5", func(c *spCase, r *RNG) { c.k5oid = oidMSKrb5 }},
		{"k5oid-spnego", func(c *spCase, r *RNG) { c.k5oid = oidSpnego }},
		{"tokid-aprep", func(c *spCase, r *RNG) { c.tokID = []byte{2, 0} }},
		{"tokid-error", func(c *spCase, r *RNG) { c.tokID = []byte{3, 0} }},
		{"tokid-unknown", func(c *spCase, r *RNG) { c.tokID = []byte{0xff, 0xff} }},
		{"tokid-0001", func(c *spCase, r *RNG) { c.tokID = []byte{0, 1} }},
		{"tokid-short", func(c *spCase, r *RNG) { c.tokID = []byte{1}; c.body = "empty" }},
		{"body-aprep", func(c *spCase, r *RNG) { c.body = "aprep"; c.tokID = []byte{2, 0} }},
		{"body-krberror", func(c *spCase, r *RNG) { c.body = "krberror"; c.tokID = []byte{3, 0} }},
		{"body-krberror-as-apreq", func(c *spCase, r *RNG) { c.body = "krberror" }},
		{"body-garbage", func(c *spCase, r *RNG) { c.body = "garbage" }},
		{"body-empty", func(c *spCase, r *RNG) { c.body = "empty" }},
		{"body-apreq-trailing", func(c *spCase, r *RNG) { c.body = "apreq-trailing" }},
		{"body-apreq-truncated", func(c *spCase, r *RNG) { c.body = "apreq-truncated" }},
		{"k5outer-seq", func(c *spCase, r *RNG) { c.k5outer = 0x30 }},
		{"k5outer-app1", func(c *spCase, r *RNG) { c.k5outer = 0x61 }},
		{"k5-lax-length", func(c *spCase, r *RNG) { c.k5lax = true }},
		// negotiation token
		{"wrap-resp", func(c *spCase, r *RNG) { c.wrap = "resp" }},
		{"wrap-raw", func(c *spCase, r *RNG) { c.wrap = "raw" }},
		{"mechs-mskrb5", func(c *spCase, r *RNG) { c.mechs = [][]int{oidMSKrb5} }},
		{"mechs-krb5+ntlm", func(c *spCase, r *RNG) { c.mechs = [][]int{oidKrb5, oidNTLM} }},
		{"mechs-ntlm+krb5", func(c *spCase, r *RNG) { c.mechs = [][]int{oidNTLM, oidKrb5} }},
		{"mechs-ntlm", func(c *spCase, r *RNG) { c.mechs = [][]int{oidNTLM} }},
		{"mechs-empty", func(c *spCase, r *RNG) { c.mechs = nil }},
		{"nomechtok", func(c *spCase, r *RNG) { c.noMechTok = true }},
		{"emptytok", func(c *spCase, r *RNG) { c.emptyTok = true }},
		{"reqflags", func(c *spCase, r *RNG) { c.reqFlags = true }},
		{"mic", func(c *spCase, r *RNG) { c.mic = true }},
		{"negstate-reject", func(c *spCase, r *RNG) { c.negState = 2 }},
		{"negstate-absent", func(c *spCase, r *RNG) { c.negState = -1 }},
		{"suppmech-mskrb5", func(c *spCase, r *RNG) { c.suppMech = oidMSKrb5 }},
		{"suppmech-ntlm", func(c *spCase, r *RNG) { c.suppMech = oidNTLM }},
		{"suppmech-absent", func(c *spCase, r *RNG) { c.suppMech = nil }},
		{"choice-a2", func(c *spCase, r *RNG) { c.choiceTag = 0xa2 }},
		{"choice-universal0", func(c *spCase, r *RNG) { c.choiceTag = 0x20 }},
		{"choice-swapped", func(c *spCase, r *RNG) {
			if c.wrap == "resp" {
				c.choiceTag = 0xa0
			} else {
				c.choiceTag = 0xa1
			}
		}},
		{"spoid-krb5", func(c *spCase, r *RNG) { c.spOID = oidKrb5 }},
		{"spouter-seq", func(c *spCase, r *RNG) { c.spOuter = 0x30 }},
		{"trailing", func(c *spCase, r *RNG) { c.trailing = true }},
		{"flip", func(c *spCase, r *RNG) { c.flip = r.Intn(1 << 20) }},
		// header
		{"scheme-lower", func(c *spCase, r *RNG) { c.scheme = "negotiate " }},
		{"scheme-basic", func(c *spCase, r *RNG) { c.scheme = "Basic " }},
		{"scheme-nospace", func(c *spCase, r *RNG) { c.scheme = "Negotiate" }},
		{"scheme-twospaces", func(c *spCase, r *RNG) { c.scheme = "Negotiate  " }},
		{"scheme-tab", func(c *spCase, r *RNG) { c.scheme = "Negotiate\t" }},
		{"b64-url", func(c *spCase, r *RNG) { c.b64 = "url" }},
		{"b64-nopad", func(c *spCase, r *RNG) { c.b64 = "nopad" }},
		{"b64-badchar", func(c *spCase, r *RNG) { c.b64 = "badchar" }},
		{"b64-afterpad", func(c *spCase, r *RNG) { c.b64 = "afterpad" }},
		{"b64-crlf", func(c *spCase, r *RNG) { c.b64 = "crlf" }},
		{"noheader", func(c *spCase, r *RNG) { c.noHeader = true }},
		// session manager
		{"session-getfails", func(c *spCase, r *RNG) { c.session = "getfails" }},
		{"session-empty", func(c *spCase, r *RNG) { c.session = "empty" }},
		{"session-malformed", func(c *spCase, r *RNG) { c.session = "malformed" }},
		{"session-valid", func(c *spCase, r *RNG) { c.session = "valid" }},
		{"session-unauth", func(c *spCase, r *RNG) { c.session = "unauth" }},
		{"newfails", func(c *spCase, r *RNG) {
			c.newFails = true
			if c.session == "none" {
				c.session = "getfails"
			}
		}},
		// remote address
		{"remote-other", func(c *spCase, r *RNG) { c.remote = "10.0.0.2:80" }},
		{"remote-v6", func(c *spCase, r *RNG) { c.remote = "[2001:db8::1]:443" }},
		{"remote-unparsable", func(c *spCase, r *RNG) { c.remote = "@" }},
	}
}

func statusName(c int) string {
	switch c {
	case gssapi.StatusComplete:
		return "complete"
	case gssapi.StatusContinueNeeded:
		return "continue"
	case gssapi.StatusDefectiveToken:
		return "defective-token"
	case gssapi.StatusDefectiveCredential:
		return "defective-credential"
	case gssapi.StatusBadMech:
		return "bad-mech"
	case gssapi.StatusFailure:
		return "failure"
	case gssapi.StatusUnavailable:
		return "unavailable"
	}
	return fmt.Sprintf("status-%d", c)
}

func c03Compare(t *testing.T, m *Model, v *Verdict, rng *RNG, c spCase, replay bool) {
	c03CompareOn(t, m, v, rng, c, replay, nil)
}

var sharedInner atomic.Value // the inner handler of the request being served by a shared wrapped handler

func c03CompareOn(t *testing.T, m *Model, v *Verdict, rng *RNG, c spCase, replay bool, shared http.Handler) {
	desc := c.describe()
	if replay {
		desc += ",replayed"
	}
	if shared != nil {
		desc = "shared-handler:" + desc
	}
	goRes, op, extra, mintErr := runSpCase(t, m, rng, c, replay, shared)
	if mintErr != nil {
		v.Note("case not minted: " + desc + ": " + mintErr.Error())
		return
	}
	mo := m.Ask(op)
	cls := strings.Fields(goRes)[0]
	if cls == "401" {
		cls = goRes
	}
	lab := "http"
	if c.flip >= 0 {
		lab = "http(wrapper bit flip)"
	}
	v.Case(fmt.Sprintf("%d/%s", c.ap.et, desc), lab+" -> "+cls)
	short := op
	if i := strings.Index(op, " - "); i > 0 {
		short = op[:i] + " - <keytab>"
	}
	if desc == "valid" && c.ap.et == 18 {
		v.Sample(short + " -> " + mo)
	}
	if extra != "" {
		v.Violate("failing-input", "c03:session:"+desc, extra, map[string]string{"case": desc, "go": goRes, "op": op})
	}
	if goRes != mo {
		kind, what := "differs", "the wrapper's response differs from the model's"
		switch {
		case strings.HasPrefix(goRes, "served") && !strings.HasPrefix(mo, "served"):
			kind, what = "served-unauthenticated", "the wrapped handler ran for a request that carries no accepted AP-REQ and belongs to no authenticated session"
		case strings.HasPrefix(goRes, "served") && strings.HasPrefix(mo, "served"):
			kind, what = "identity", "the identity placed in the request context is not the accepted one"
		case goRes == "crashed":
			kind, what = "panic", "the wrapper panicked instead of answering 401"
		case strings.HasPrefix(mo, "served"):
			kind, what = "refused-authenticated", "a request carrying an accepted AP-REQ (or an authenticated session) was refused"
		case !strings.HasPrefix(goRes, "401 ") && goRes != "500":
			kind, what = "no-challenge", "a refused request was not answered with 401 and a Negotiate challenge"
		}
		k := "failing-input"
		if kind == "differs" {
			k = "correspondence"
		}
		v.Violate(k, "c03:"+kind+":"+desc, what, map[string]string{"case": desc, "etype": itoa(c.ap.et), "go": goRes, "model": mo, "op": op})
	}
}

// c03Interleaved: two requests in flight on one wrapped handler, the first one held inside the construction
// of its settings while the second one is served from start to end. What a request is answered must be
// what it is answered when it is served alone: nothing of one request (its peer address in particular) may
// reach the verification of another.
func c03Interleaved(t *testing.T, m *Model, v *Verdict, rng *RNG, et int32) {
	type leg struct{ bound, from, other string }
	legs := []leg{
		{"10.0.0.1", "10.0.0.2:4000", "10.0.0.1:5000"}, // ticket bound to .1 presented from .2 while .1 talks to the service
		{"10.0.0.1", "10.0.0.1:4000", "10.0.0.2:5000"}, // the rightful holder while someone else talks to the service
	}
	for _, lg := range legs {
		synctest.Test(t, func(t *testing.T) {
			now := time.Now()
			kt, _ := serviceKeytab()
			var armed atomic.Bool
			inA, resume := make(chan struct{}), make(chan struct{})
			gate := func(s *service.Settings) {
				if armed.CompareAndSwap(true, false) {
					close(inA)
					<-resume
				}
			}
			// an options slice with room to spare, as an application gets it from a few appends
			opts := make([]func(*service.Settings), 0, 16)
			opts = append(opts, service.MaxClockSkew(5*time.Minute), service.DecodePAC(false), service.Logger(discard), gate)
			h := spnego.SPNEGOKRB5Authenticate(http.HandlerFunc(func(w http.ResponseWriter, r *http.Request) { w.WriteHeader(200) }), kt, opts...)
			serve := func(remote, hdr string) int {
				c03Requests++
				req := httptest.NewRequest(c03Methods[c03Requests%len(c03Methods)], "http://host.test.gokrb5/resource", nil)
				req.RemoteAddr = remote
				if hdr != "" {
					req.Header["Authorization"] = []string{hdr}
				}
				w := httptest.NewRecorder()
				if p := Protect(func() { h.ServeHTTP(w, req) }); p != "" {
					return -1
				}
				return w.Code
			}
			mint := func() string {
				c := baseSp(et)
				c.ap.caddr = []types.HostAddress{{AddrType: 2, Address: []byte{10, 0, 0, 1}}}
				c.ap = uniquify(c.ap, uniqueID())
				_, apb, err := mintAPReq(m, rng, c.ap, now)
				if err != nil {
					return ""
				}
				tok, _ := c.token(apb, rng)
				return c.header(tok)
			}
			h1, h2 := mint(), mint()
			if h1 == "" || h2 == "" {
				v.Note("interleaved: case not minted")
				return
			}
			alone := serve(lg.from, h1)
			armed.Store(true)
			done := make(chan int, 1)
			go func() { done <- serve(lg.from, h2) }()
			<-inA
			serve(lg.other, "") // a whole other request while the first one is being set up
			close(resume)
			inter := <-done
			v.Case(fmt.Sprintf("interleaved/%d/%s-from-%s", et, lg.bound, lg.from), fmt.Sprintf("interleaved -> alone %d, in flight %d", alone, inter))
			if alone != inter {
				what := "a request is answered differently when another request is in flight on the same handler"
				if inter == 200 {
					what = "a request that is refused when served alone reaches the wrapped handler when another peer's request is in flight (the other peer's address was used to verify it)"
				}
				v.Violate("failing-input", "c03:interleaved-requests", what, map[string]string{"etype": itoa(et), "ticket-bound-to": lg.bound, "presented-from": lg.from, "other-request-from": lg.other, "alone": fmt.Sprint(alone), "in-flight": fmt.Sprint(inter)})
			}
		})
	}
}

// the token verification APIs: SPNEGOToken.Unmarshal + SPNEGO.AcceptSecContext, and the Verify methods
func c03API(t *testing.T, m *Model, v *Verdict, rng *RNG, c spCase) {
	desc := "api:" + c.describe()
	_, ktToks := serviceKeytab()
	c.ap = uniquify(c.ap, uniqueID())
	var goRes, op string
	var tokBytes []byte
	var mintErr error
	synctest.Test(t, func(t *testing.T) {
		now := time.Now()
		_, apb, err := mintAPReq(m, rng, c.ap, now)
		if err != nil {
			mintErr = err
			return
		}
		tok, _ := c.token(apb, rng)
		tokBytes = tok
		s, stoks := settingsFor(c.ap)
		svc := spnego.SPNEGOService(serviceKeytabOnly(), settingsOpts(c.ap)...)
		_ = s
		var st spnego.SPNEGOToken
		if p := Protect(func() {
			if err := st.Unmarshal(tok); err != nil {
				goRes = "unmarshal-error"
				return
			}
			ok, ctx, status := svc.AcceptSecContext(&st)
			goRes = fmt.Sprintf("%s %s", B(ok), statusName(status.Code))
			if ok {
				if ctx == nil {
					goRes += " nil-context"
				} else if cr, _ := ctx.Value("github.com/jcmturner/gokrb5/v8/ctxCredentials").(*credentials.Credentials); cr != nil {
					goRes += " " + identityString(cr)
				} else {
					goRes += " no-credentials-in-context"
				}
			}
		}); p != "" {
			goRes = "crashed"
		}
		op = fmt.Sprintf("sp.accept %d %s 0 %s - %s", now.UnixNano()/1000, stoks, X(tok), ktToks)
	})
	if mintErr != nil {
		return
	}
	mo := m.Ask(op)
	v.Case(fmt.Sprintf("%d/%s", c.ap.et, desc), "AcceptSecContext -> "+strings.Join(strings.Fields(goRes + " -")[:2], " "))
	if goRes != mo {
		kind, what, k := "differs", "AcceptSecContext differs from the model", "correspondence"
		if strings.HasPrefix(goRes, "1 ") && !strings.HasPrefix(mo, "1 ") {
			kind, what, k = "api-true", "AcceptSecContext reports success for a token that does not contain an accepted AP-REQ", "failing-input"
		} else if goRes == "crashed" {
			kind, what, k = "panic", "AcceptSecContext panicked", "failing-input"
		} else if strings.HasPrefix(goRes, "1 ") {
			kind, what, k = "identity", "the identity in the established context is not the accepted one", "failing-input"
		}
		v.Violate(k, "c03:"+kind+":"+desc, what, map[string]string{"case": desc, "go": goRes, "model": mo, "op": op})
	}
	// Verify methods that need no service settings: only for tokens whose mechanism token is not an AP-REQ
	isAP := (c.tokID == nil || (c.tokID[0] == 1 && len(c.tokID) == 2 && c.tokID[1] == 0))
	if isAP || c.flip >= 0 {
		return
	}
	var g2 string
	kind := "sp"
	if p := Protect(func() {
		if c.wrap == "raw" {
			kind = "k5"
			var k spnego.KRB5Token
			if err := k.Unmarshal(tokBytes); err != nil {
				g2 = "unmarshal-error"
				return
			}
			ok, st := k.Verify()
			g2 = fmt.Sprintf("%s %s", B(ok), statusName(st.Code))
			return
		}
		var st spnego.SPNEGOToken
		if err := st.Unmarshal(tokBytes); err != nil {
			g2 = "unmarshal-error"
			return
		}
		var ok bool
		var s gssapi.Status
		if st.Init {
			ok, s = st.NegTokenInit.Verify()
		} else {
			ok, s = st.NegTokenResp.Verify()
		}
		ok2, s2 := st.Verify()
		g2 = fmt.Sprintf("%s %s", B(ok), statusName(s.Code))
		if ok2 != ok || s2.Code != s.Code {
			g2 += fmt.Sprintf(" but SPNEGOToken.Verify says %s %s", B(ok2), statusName(s2.Code))
		}
	}); p != "" {
		g2 = "crashed"
	}
	m2 := m.Ask(fmt.Sprintf("sp.verify %s %s", kind, X(tokBytes)))
	v.Case(fmt.Sprintf("%d/verify:%s", c.ap.et, desc), "Verify -> "+g2)
	if g2 != m2 {
		k, what := "correspondence", "a token Verify method differs from the model"
		if strings.HasPrefix(g2, "1 ") {
			k, what = "failing-input", "a token Verify method reports success for a token that does not contain an accepted AP-REQ"
		}
		v.Violate(k, "c03:verify:"+desc, what, map[string]string{"case": desc, "go": g2, "model": m2, "token": X(tokBytes), "kind": kind})
	}
}

// C03: the SPNEGO HTTP wrapper serves the inner handler only to authenticated requests.
func TestC03(t *testing.T) {
	service.GetReplayCache(1000 * time.Hour)
	m := StartModel(t)
	defer m.Close()
	v := NewVerdict("C03", "requests to the real handler returned by SPNEGOKRB5Authenticate (httptest, fake clock, scripted session manager): AP-REQs minted with the real library, wrapped by an independent DER builder as NegTokenInit / NegTokenResp / bare KRB5 token with every defect of the catalogue (AP-REQ defects, mechanism OIDs and order, TOK_ID, AP-REP / KRB-ERROR / garbage bodies, tags, lax lengths, trailing bytes, bit flips in the wrapper bytes, header scheme and base64 variants, session states, New failing, RemoteAddr variants), singly and in pairs, and replays; observed: whether the wrapped handler ran, with which identity, status, WWW-Authenticate, SessionMgr.New calls; compared with the Lean model of the wrapper over the Go-faithful decoder model and the independent acceptor. The token APIs (AcceptSecContext, the Verify methods) are compared on the same tokens. distinct = (etype, defect set)")
	rng := NewRNG(Seed())
	defs := c03Defects()
	ets := []int32{18, 17, 23, 20}
	for ei, et := range ets {
		c := baseSp(et)
		c03Compare(t, m, v, rng, c, false)
		c03Compare(t, m, v, rng, c, true)
		c03API(t, m, v, rng, c)
		for _, d := range defs {
			c := baseSp(et)
			d.f(&c, rng)
			c03Compare(t, m, v, rng, c, false)
			c03API(t, m, v, rng, c)
		}
		// bit flips over the wrapper bytes of the three framings
		flips := 150
		if Thorough() {
			flips = 1500
		}
		for k := 0; k < flips; k++ {
			c := baseSp(et)
			c.wrap = []string{"init", "resp", "raw"}[k%3]
			c.flip = rng.Intn(1 << 20)
			c03Compare(t, m, v, rng, c, false)
		}
		pairs := 250
		if Thorough() {
			pairs = len(defs) * len(defs)
		}
		if ei > 0 && !Thorough() {
			pairs = 80
		}
		for k := 0; k < pairs; k++ {
			var d1, d2 spDefect
			if Thorough() {
				d1, d2 = defs[k/len(defs)], defs[k%len(defs)]
				if k/len(defs) >= k%len(defs) {
					continue
				}
			} else {
				d1, d2 = defs[rng.Intn(len(defs))], defs[rng.Intn(len(defs))]
			}
			c := baseSp(et)
			d1.f(&c, rng)
			d2.f(&c, rng)
			c03Compare(t, m, v, rng, c, false)
			if k%3 == 0 {
				c03API(t, m, v, rng, c)
			}
		}
	}
	// one wrapped handler (as an application builds it: once) serving a sequence of requests from
	// different peers: nothing of one request may leak into the verification of the next
	var seqDefs []spDefect
	for _, d := range defs {
		n := d.name
		if strings.HasPrefix(n, "session") || n == "newfails" || n == "ap-reqhost" || n == "ap-clientaddr-configured" || n == "flip" {
			continue
		}
		seqDefs = append(seqDefs, d)
	}
	nseq := 25
	if Thorough() {
		nseq = 300
	}
	for k := 0; k < nseq; k++ {
		et := ets[k%len(ets)]
		kt, _ := serviceKeytab()
		bc := baseCase(et)
		h := spnego.SPNEGOKRB5Authenticate(http.HandlerFunc(func(w http.ResponseWriter, r *http.Request) {
			sharedInner.Load().(http.Handler).ServeHTTP(w, r)
		}), kt, settingsOpts(bc)...)
		for i := 0; i < 6; i++ {
			c := baseSp(et)
			switch rng.Intn(4) {
			case 0:
				c.ap.caddr = []types.HostAddress{{AddrType: 2, Address: []byte{10, 0, 0, byte(1 + rng.Intn(2))}}}
				c.remote = []string{"10.0.0.1:4321", "10.0.0.2:80", "@", "[2001:db8::1]:443"}[rng.Intn(4)]
			case 1:
				seqDefs[rng.Intn(len(seqDefs))].f(&c, rng)
			case 2:
				c.remote = []string{"10.0.0.1:4321", "10.0.0.2:80", "@"}[rng.Intn(3)]
				c.noHeader = rng.Intn(2) == 0
			}
			c03CompareOn(t, m, v, rng, c, false, h)
		}
	}
	for _, et := range ets {
		c03Interleaved(t, m, v, rng, et)
	}
	v.ModelAsks = m.N
	v.Write(t)
}
