package harness

import (
	"encoding/base64"
	"encoding/binary"
	"fmt"
	"github.com/jcmturner/goidentity/v6"
	"net"
	"net/http"
	"net/http/httptest"
	"os"
	"runtime"
	"sort"
	"strings"
	"sync"
	"testing"
	"time"

	"github.com/jcmturner/gofork/encoding/asn1"
	"github.com/jcmturner/gokrb5/v8/asn1tools"
	"github.com/jcmturner/gokrb5/v8/client"
	"github.com/jcmturner/gokrb5/v8/config"
	"github.com/jcmturner/gokrb5/v8/credentials"
	"github.com/jcmturner/gokrb5/v8/crypto"
	"github.com/jcmturner/gokrb5/v8/gssapi"
	"github.com/jcmturner/gokrb5/v8/kadmin"
	"github.com/jcmturner/gokrb5/v8/keytab"
	"github.com/jcmturner/gokrb5/v8/messages"
	"github.com/jcmturner/gokrb5/v8/pac"
	"github.com/jcmturner/gokrb5/v8/service"
	"github.com/jcmturner/gokrb5/v8/spnego"
	"github.com/jcmturner/gokrb5/v8/types"
)

// an entry point that consumes outside bytes, with seed inputs
type c04Entry struct {
	name  string
	run   func(b []byte)
	seeds func(rng *RNG) [][]byte
	// the external NDR decoder (jcmturner/rpc) allocates from unchecked counts: known finding
	ndr bool
	// inputs that are run as they are, before the mutations of the seeds (boundary values that a mutation
	// is unlikely to produce)
	corpus func() [][]byte
}

// c04Inputs: every input of an entry's batch, in the order the child runs them
func c04Inputs(e c04Entry, rng *RNG, n int) [][]byte {
	var out [][]byte
	if e.corpus != nil {
		out = append(out, e.corpus()...)
	}
	for _, sd := range e.seeds(rng) {
		out = append(out, c04Mutate(rng, sd, n)...)
	}
	return out
}

var c04Key18 = types.EncryptionKey{KeyType: 18, KeyValue: []byte("0123456789abcdef0123456789abcdef")}

func c04Entries(m *Model) []c04Entry {
	kt, _ := serviceKeytab()
	svcSettings := service.NewSettings(kt, service.Logger(discard))
	mintAP := func(rng *RNG, et int32, pacKind string) []byte {
		c := baseCase(et)
		c.pac = pacKind
		c = uniquify(c, uniqueID())
		_, b, err := mintAPReq(m, rng, c, time.Now())
		if err != nil {
			return nil
		}
		return b
	}
	apSeeds := func(rng *RNG) [][]byte {
		var out [][]byte
		for _, et := range []int32{18, 23, 16, 20} {
			if b := mintAP(rng, et, ""); b != nil {
				out = append(out, b)
			}
		}
		if b := mintAP(rng, 18, "valid"); b != nil {
			out = append(out, b)
		}
		return out
	}
	tokSeeds := func(rng *RNG) [][]byte {
		var out [][]byte
		for _, ap := range apSeeds(rng)[:2] {
			for i, w := range []string{"init", "resp", "raw"} {
				sp := baseSp(18)
				sp.wrap = w
				// (a request of its own in every wrapping: each one is genuine and accepted once, as it is)
				if own := mintAP(rng, []int32{18, 23, 17}[i], ""); own != nil {
					ap = own
				}
				t, _ := sp.token(ap, rng)
				out = append(out, t)
			}
			sp := baseSp(18)
			sp.body, sp.tokID = "krberror", []byte{3, 0}
			t, _ := sp.token(ap, rng)
			out = append(out, t)
		}
		return out
	}
	repSeeds := func(tgs bool) func(rng *RNG) [][]byte {
		return func(rng *RNG) [][]byte {
			var out [][]byte
			cname := types.PrincipalName{NameType: 1, NameString: []string{c09User}}
			for _, et := range []int32{18, 23} {
				rc := baseRep(tgs, et, "password")
				rq := kdcReqInfo{cname: cname, realm: c09Realm, nonce: 5, sname: types.PrincipalName{NameType: 2, NameString: []string{"krbtgt", c09Realm}}}
				if b, err := mintKDCRep(rng, rc, rq, types.EncryptionKey{KeyType: et, KeyValue: randKey(rng, et)}, hintsFor("info2+pwsalt", et, c09Realm, cname), time.Now()); err == nil {
					out = append(out, b)
				}
			}
			e := messages.NewKRBError(types.PrincipalName{NameType: 2, NameString: []string{"krbtgt", c09Realm}}, c09Realm, 25, "x")
			e.EData, _ = asn1.Marshal(hintsFor("info2+pwsalt", 18, c09Realm, cname))
			eb, _ := e.Marshal()
			out = append(out, eb)
			return out
		}
	}
	encSeeds := func(et int32) func(rng *RNG) [][]byte {
		return func(rng *RNG) [][]byte {
			var out [][]byte
			for _, l := range []int{0, 1, 15, 16, 17, 40} {
				ct, _, _ := goEncrypt(et, keyFor(et), rng.Bytes(l), 3)
				out = append(out, ct)
			}
			return out
		}
	}
	return []c04Entry{
		{name: "messages.APReq.Unmarshal+service.VerifyAPREQ", seeds: apSeeds, ndr: true, run: func(b []byte) {
			var a messages.APReq
			if a.Unmarshal(b) == nil {
				service.VerifyAPREQ(&a, svcSettings)
			}
		}},
		{name: "messages.Ticket.Unmarshal", seeds: func(rng *RNG) [][]byte {
			var out [][]byte
			for _, ap := range apSeeds(rng)[:2] {
				var a messages.APReq
				if a.Unmarshal(ap) == nil {
					tb, _ := a.Ticket.Marshal()
					out = append(out, tb)
				}
			}
			return out
		}, run: func(b []byte) {
			var t messages.Ticket
			if t.Unmarshal(b) == nil {
				t.DecryptEncPart(kt, nil)
			}
		}},
		{name: "messages.ASRep.Unmarshal+DecryptEncPart", seeds: repSeeds(false), run: func(b []byte) {
			var r messages.ASRep
			if r.Unmarshal(b) == nil && !slowButBounded(r.PAData) {
				cr := credentials.New(c09User, c09Realm).WithPassword("x")
				r.DecryptEncPart(cr)
			}
		}},
		{name: "messages.TGSRep.Unmarshal+DecryptEncPart", seeds: repSeeds(true), run: func(b []byte) {
			var r messages.TGSRep
			if r.Unmarshal(b) == nil {
				r.DecryptEncPart(c04Key18)
			}
		}},
		{name: "messages.KRBError.Unmarshal+PA-DATA", seeds: repSeeds(false), run: func(b []byte) {
			var e messages.KRBError
			if e.Unmarshal(b) == nil {
				var pas types.PADataSequence
				if pas.Unmarshal(e.EData) == nil {
					for _, pa := range pas {
						pa.GetETypeInfo()
						pa.GetETypeInfo2()
					}
					if !slowButBounded(pas) {
						crypto.GetKeyFromPassword("pw", types.PrincipalName{NameString: []string{"u"}}, "R", 18, pas)
					}
				}
			}
		}},
		{name: "types.PADataSequence.Unmarshal+GetKeyFromPassword", seeds: func(rng *RNG) [][]byte {
			var out [][]byte
			for _, h := range []string{"info2", "info2+pwsalt", "info", "info2-empty", "info-empty", "pwsalt"} {
				b, _ := asn1.Marshal(hintsFor(h, 18, "R", types.PrincipalName{NameString: []string{"u"}}))
				out = append(out, b)
			}
			return out
		}, corpus: func() [][]byte {
			// iteration counts on and around the limits, for each etype that takes one ("00000000" stands for
			// 2^32 in RFC 3962); the largest count the library accepts (2^24, some 20 s of work) is left out
			var out [][]byte
			for _, et := range []int32{18, 17, 19, 20} {
				for _, p := range [][]byte{{0, 0, 0, 0}, {0, 0, 0, 1}, {0, 1, 0, 0}, {1, 0, 0, 1}, {0x7f, 0xff, 0xff, 0xff}, {0x80, 0, 0, 0}, {0xff, 0xff, 0xff, 0xff}} {
					i2, _ := asn1.Marshal(types.ETypeInfo2{types.ETypeInfo2Entry{EType: et, Salt: "s", S2KParams: p}})
					b, _ := asn1.Marshal(types.PADataSequence{{PADataType: 19, PADataValue: i2}})
					out = append(out, b)
				}
			}
			return out
		}, run: func(b []byte) {
			var pas types.PADataSequence
			if pas.Unmarshal(b) == nil && !slowButBounded(pas) {
				crypto.GetKeyFromPassword("pw", types.PrincipalName{NameString: []string{"u"}}, "R", 18, pas)
			}
		}},
		{name: "messages.ASReq/TGSReq/KDCReqBody.Unmarshal", seeds: func(rng *RNG) [][]byte {
			cfg, _ := config.NewFromString("[libdefaults]\n default_realm = R\n")
			a, _ := messages.NewASReqForTGT("R", cfg, types.PrincipalName{NameType: 1, NameString: []string{"u"}})
			ab, _ := a.Marshal()
			tkt := messages.Ticket{TktVNO: 5, Realm: "R", SName: types.PrincipalName{NameType: 2, NameString: []string{"krbtgt", "R"}}, EncPart: types.EncryptedData{EType: 18, KVNO: 1, Cipher: []byte("0123456789")}}
			tg, _ := messages.NewUser2UserTGSReq(types.PrincipalName{NameType: 1, NameString: []string{"u"}}, "R", cfg, tkt, c04Key18, types.PrincipalName{NameType: 2, NameString: []string{"HTTP", "h"}}, false, tkt)
			tb, _ := tg.Marshal()
			bb, _ := tg.ReqBody.Marshal()
			return [][]byte{ab, tb, bb}
		}, run: func(b []byte) {
			var a messages.ASReq
			a.Unmarshal(b)
			var t messages.TGSReq
			t.Unmarshal(b)
			var k messages.KDCReqBody
			k.Unmarshal(b)
		}},
		{name: "messages.KRBPriv/KRBCred/KRBSafe/APRep.Unmarshal", seeds: func(rng *RNG) [][]byte {
			kp := messages.NewKRBPriv(messages.EncKrbPrivPart{UserData: []byte("hello"), SAddress: types.HostAddress{AddrType: 2, Address: []byte{1, 2, 3, 4}}})
			kp.EncryptEncPart(c04Key18)
			pb, _ := kp.Marshal()
			ar, _ := marshalAPRep(messages.APRep{EncPart: types.EncryptedData{EType: 18, Cipher: []byte("12345678")}})
			return [][]byte{pb, ar}
		}, run: func(b []byte) {
			var p messages.KRBPriv
			if p.Unmarshal(b) == nil {
				p.DecryptEncPart(c04Key18)
			}
			var c messages.KRBCred
			if c.Unmarshal(b) == nil {
				c.DecryptEncPart(c04Key18)
			}
			var s messages.KRBSafe
			s.Unmarshal(b)
			var r messages.APRep
			r.Unmarshal(b)
		}},
		{name: "spnego.SPNEGOToken.Unmarshal+AcceptSecContext", seeds: tokSeeds, ndr: true, run: func(b []byte) {
			// the octets as an Authorization header to the HTTP wrapper first (a genuine token is accepted once: what follows
			// its acceptance runs too), then to the token API
			h := spnego.SPNEGOKRB5Authenticate(http.HandlerFunc(func(w http.ResponseWriter, r *http.Request) {
				if id := goidentity.FromHTTPRequestContext(r); id != nil {
					_ = id.UserName()
				}
			}), kt, service.Logger(discard))
			req := httptest.NewRequest("GET", "http://host.test.gokrb5/resource", nil)
			req.RemoteAddr = "10.0.0.1:4321"
			req.Header.Set("Authorization", "Negotiate "+base64.StdEncoding.EncodeToString(b))
			h.ServeHTTP(httptest.NewRecorder(), req)
			var st spnego.SPNEGOToken
			if st.Unmarshal(b) == nil {
				spnego.SPNEGOService(kt, service.Logger(discard)).AcceptSecContext(&st)
			}
			var k spnego.KRB5Token
			k.Unmarshal(b)
			spnego.UnmarshalNegToken(b)
		}},
		{name: "gssapi.WrapToken/MICToken.Unmarshal+Verify", seeds: func(rng *RNG) [][]byte {
			w, _ := gssapi.NewInitiatorWrapToken([]byte("payload"), c04Key18)
			wb, _ := w.Marshal()
			mt := gssapi.MICToken{Flags: 0, SndSeqNum: 1, Payload: []byte("p")}
			mt.SetChecksum(c04Key18, 23)
			mb, _ := mt.Marshal()
			return [][]byte{wb, mb}
		}, corpus: func() [][]byte {
			// tokens of 16 octets (header only) and a few more, with EC and RRC on their boundaries
			var out [][]byte
			for _, id := range [][]byte{{5, 4}, {4, 4}} {
				for _, fl := range []byte{0, 1, 2, 4, 7} {
					for _, ec := range []uint16{0, 1, 12, 0xffff} {
						for _, rrc := range []uint16{0, 1, 12, 28, 0xffff} {
							for _, extra := range []int{0, 1, 12, 13} {
								b := make([]byte, 16+extra)
								copy(b, id)
								b[2], b[3] = fl, 0xff
								binary.BigEndian.PutUint16(b[4:], ec)
								binary.BigEndian.PutUint16(b[6:], rrc)
								b[15] = 1
								out = append(out, b)
							}
						}
					}
				}
			}
			return out
		}, run: func(b []byte) {
			for _, acc := range []bool{true, false} {
				var w gssapi.WrapToken
				if w.Unmarshal(b, acc) == nil {
					w.Verify(c04Key18, 24)
				}
				var mt gssapi.MICToken
				if mt.Unmarshal(b, acc) == nil {
					mt.Payload = []byte("p")
					mt.Verify(c04Key18, 23)
				}
			}
		}},
		{name: "pac.PACType.Unmarshal+ProcessPACInfoBuffers", ndr: true, seeds: func(rng *RNG) [][]byte {
			var out [][]byte
			sp := samplePACs()
			var names []string
			for n := range sp {
				names = append(names, n)
			}
			sort.Strings(names) // (map order would make the input indices differ from run to run)
			// minimal tables whose offset / size fields sit on the 64-bit and 32-bit limits (corpus, first)
			mk := func(ty, size uint32, off uint64, data int) []byte {
				b := make([]byte, 24+data)
				binary.LittleEndian.PutUint32(b[0:], 1)
				binary.LittleEndian.PutUint32(b[8:], ty)
				binary.LittleEndian.PutUint32(b[12:], size)
				binary.LittleEndian.PutUint64(b[16:], off)
				return b
			}
			for _, ty := range []uint32{1, 6, 10, 12} {
				out = append(out, mk(ty, 16, 24, 16), mk(ty, 16, 0xFFFFFFFFFFFFFFF8, 0), mk(ty, 1, 0xFFFFFFFFFFFFFFFF, 0), mk(ty, 0xFFFFFFFF, 24, 8), mk(ty, 16, 1<<63, 0), mk(ty, 0x80000000, 0x7FFFFFFFFFFFFFF0, 16))
			}
			for _, n := range names {
				out = append(out, sp[n])
			}
			return out
		}, corpus: func() [][]byte {
			// one-buffer PACs whose buffer (of each type, 0..5 octets) sits at and around the end of the data
			var out [][]byte
			for _, ty := range []uint32{1, 6, 7, 10, 12, 13, 14} {
				for data := 0; data <= 8; data += 4 {
					for size := uint32(0); size <= 5; size++ {
						for off := 16; off <= 24+data+1; off++ {
							b := make([]byte, 24+data)
							binary.LittleEndian.PutUint32(b[0:], 1)
							binary.LittleEndian.PutUint32(b[8:], ty)
							binary.LittleEndian.PutUint32(b[12:], size)
							binary.LittleEndian.PutUint64(b[16:], uint64(off))
							out = append(out, b)
						}
					}
				}
			}
			return out
		}, run: func(b []byte) {
			var p pac.PACType
			if p.Unmarshal(b) == nil {
				p.ProcessPACInfoBuffers(c04Key18, discard)
			}
		}},
		{name: "crypto.DecryptMessage et=18", seeds: encSeeds(18), run: func(b []byte) { goDecrypt(18, keyFor(18), b, 3) }},
		{name: "crypto.DecryptMessage et=17", seeds: encSeeds(17), run: func(b []byte) { goDecrypt(17, keyFor(17), b, 3) }},
		{name: "crypto.DecryptMessage et=19", seeds: encSeeds(19), run: func(b []byte) { goDecrypt(19, keyFor(19), b, 3) }},
		{name: "crypto.DecryptMessage et=20", seeds: encSeeds(20), run: func(b []byte) { goDecrypt(20, keyFor(20), b, 3) }},
		{name: "crypto.DecryptMessage et=23", seeds: encSeeds(23), run: func(b []byte) { goDecrypt(23, keyFor(23), b, 3) }},
		{name: "crypto.DecryptMessage et=16", seeds: encSeeds(16), run: func(b []byte) { goDecrypt(16, keyFor(16), b, 3) }},
		{name: "keytab.Unmarshal", seeds: func(rng *RNG) [][]byte {
			k := keytab.New()
			k.AddEntry("HTTP/h", "R", "pw", time.Unix(1600000000, 0), 1, 18)
			k.AddEntry("u", "R", "pw", time.Unix(1600000000, 0), 2, 23)
			b, _ := k.Marshal()
			v1 := append([]byte{}, b...)
			v1[1] = 1
			return [][]byte{b, v1}
		}, run: func(b []byte) {
			var k keytab.Keytab
			if k.Unmarshal(b) == nil {
				k.GetEncryptionKey(types.PrincipalName{NameString: []string{"u"}}, "R", 0, 18)
				// names with as many components as an entry's count field may claim, whatever was actually read
				for _, ns := range [][]string{{}, {"HTTP", "h"}, {"a", "b", "c"}, {"a", "b", "c", "d"}, {"", "", "", "", "", "", "", ""}} {
					k.GetEncryptionKey(types.PrincipalName{NameString: ns}, "R", 0, 18)
					k.GetEncryptionKey(types.PrincipalName{NameString: ns}, "", 1, 23)
					for i, e := range k.Entries {
						if i < 8 {
							k.GetEncryptionKey(types.PrincipalName{NameString: ns}, e.Principal.Realm, 0, e.Key.KeyType)
						}
					}
				}
				k.Marshal()
			}
		}},
		{name: "credentials.CCache.Unmarshal", seeds: func(rng *RNG) [][]byte {
			b := ccacheWithKey(c04Key18, true)
			v3 := append([]byte{}, b...)
			return [][]byte{b, v3}
		}, run: func(b []byte) {
			var c credentials.CCache
			if c.Unmarshal(b) == nil {
				c.GetEntries()
				c.GetClientPrincipalName()
			}
		}},
		{name: "config.NewFromString", seeds: func(rng *RNG) [][]byte {
			return [][]byte{[]byte("[libdefaults]\n default_realm = TEST.GOKRB5\n default_tkt_enctypes = aes256-cts-hmac-sha1-96 rc4-hmac\n ticket_lifetime = 10h\n[realms]\n TEST.GOKRB5 = {\n  kdc = 127.0.0.1:88\n  kdc = k2:88\n  admin_server = a:749\n  auth_to_local = {\n   x = y\n  }\n }\n[domain_realm]\n .test.gokrb5 = TEST.GOKRB5\n test.gokrb5 = TEST.GOKRB5\n")}
		}, corpus: func() [][]byte {
			// lines whose only '=', '{' or '}' sits in a trailing comment, relations without a value, brackets in odd
			// places, in each of the three sections
			var out [][]byte
			lines := []string{"forwardable # forwardable = true", "noaddresses ; noaddresses=false", "kdc_timesync #=", "= # x", "x = # y = z", "#=", ";", "a = b = c",
				"kdc # = {", "R = { # }", "} # {", "R = {} # = {", ".dom # = R", "= R", " = ", "x=", "[", "]", "[]", "[ realms ]", "{", "}", "{}"}
			for _, sec := range []string{"[libdefaults]", "[realms]", "[domain_realm]", "[realms]\n R = {", "[appdefaults]"} {
				for _, l := range lines {
					out = append(out, []byte(sec+"\n "+l+"\n"))
					out = append(out, []byte(sec+"\n "+l+"\n }\n"))
				}
			}
			return out
		}, run: func(b []byte) {
			c, err := config.NewFromString(string(b))
			if err == nil && c != nil {
				c.GetKDCs("TEST.GOKRB5", true)
				c.ResolveRealm("h.test.gokrb5")
			}
		}},
		{name: "kadmin.Reply.Unmarshal", seeds: func(rng *RNG) [][]byte {
			e := messages.NewKRBError(types.PrincipalName{NameType: 2, NameString: []string{"kadmin", "changepw"}}, "R", 41, "x")
			e.EData = []byte{0, 4, 'b', 'a', 'd'}
			eb, _ := e.Marshal()
			r1 := append([]byte{0, byte(6 + len(eb)), 0, 1, 0, 0}, eb...)
			ar, _ := marshalAPRep(messages.APRep{EncPart: types.EncryptedData{EType: 18, Cipher: []byte("12345678")}})
			kp := messages.NewKRBPriv(messages.EncKrbPrivPart{UserData: []byte{0, 0, 'o', 'k'}, SAddress: types.HostAddress{AddrType: 2, Address: []byte{1, 2, 3, 4}}})
			kp.EncryptEncPart(c04Key18)
			pb, _ := kp.Marshal()
			r2 := []byte{0, 0, 0, 1, 0, byte(len(ar))}
			r2 = append(append(r2, ar...), pb...)
			binary.BigEndian.PutUint16(r2, uint16(len(r2)))
			return [][]byte{r1, r2}
		}, run: func(b []byte) {
			var r kadmin.Reply
			if r.Unmarshal(b) == nil {
				r.Decrypt(c04Key18)
			}
		}},
		{name: "service.KRB5BasicAuthenticator.Authenticate (Basic header value)", seeds: func(rng *RNG) [][]byte {
			var out [][]byte
			for _, v := range []string{"user:password", `DOM\user:pw`, "user@DOM.EXAMPLE:p:w", ":", "u:", "nocolon", "", `\@:`, "user@:x"} {
				out = append(out, []byte(base64.StdEncoding.EncodeToString([]byte(v))))
			}
			return out
		}, run: func(b []byte) {
			// no KDC is configured: a value that parses ends in a failed login, nothing goes out
			cfg, _ := config.NewFromString("[libdefaults]\n default_realm = R\n dns_lookup_kdc = false\n[realms]\n R = {\n }\n")
			kt := keytab.New()
			a := service.NewKRB5BasicAuthenticator(string(b), cfg, service.NewSettings(kt), nil)
			a.Authenticate()
		}},
		{name: "asn1tools length helpers", seeds: func(rng *RNG) [][]byte {
			return [][]byte{{0x30, 0x03, 1, 2, 3}, {0x30, 0x82, 0x01, 0x00}, {0x30, 0x81, 0x80}}
		}, run: func(b []byte) {
			asn1tools.GetLengthFromASN(b)
			asn1tools.GetNumberBytesInLengthHeader(b)
		}},
	}
}

// slowButBounded: the hints carry an iteration count the library accepts (at most 2^24, proved in
// Krb.C04.iterations_bounded) but that takes seconds to work through; such inputs are within the bound the
// property asks for and are left out of the run to keep it short.
func slowButBounded(pas types.PADataSequence) bool {
	for _, pa := range pas {
		if pa.PADataType != 19 {
			continue
		}
		var e2 types.ETypeInfo2
		if e2.Unmarshal(pa.PADataValue) != nil {
			continue
		}
		for _, e := range e2 {
			if len(e.S2KParams) == 4 {
				if n := binary.BigEndian.Uint32(e.S2KParams); n > 1<<17 && n <= 1<<24 {
					return true
				}
			}
		}
	}
	return false
}

func keyFor(et int32) []byte {
	return randKey(NewRNG(uint64(et)), et)
}

// mutations of a seed
func c04Mutate(rng *RNG, seed []byte, n int) [][]byte {
	var out [][]byte
	out = append(out, nil, []byte{}, append([]byte{}, seed...))
	// every truncation of short seeds, a sample of long ones
	step := 1
	if len(seed) > 400 {
		step = len(seed) / 400
	}
	for i := 0; i < len(seed); i += step {
		out = append(out, append([]byte{}, seed[:i]...))
	}
	// systematically over the head of the seed (where the counts and lengths of the first record sit) and its
	// tail: each byte, 2-byte and 4-byte field set to its boundary values
	pos := []int{}
	for p := 0; p < len(seed) && p < 80; p++ {
		pos = append(pos, p)
	}
	for p := len(seed) - 12; p < len(seed); p++ {
		if p >= 80 {
			pos = append(pos, p)
		}
	}
	for _, p := range pos {
		for _, pat := range [][]byte{{0}, {0xff}, {0x80}, {0x7f}, {0xff, 0xff}, {0x80, 0}, {0x7f, 0xff}, {0xff, 0xff, 0xff, 0xff}, {0x7f, 0xff, 0xff, 0xff}, {0x80, 0, 0, 0}, {0, 0, 0, 0}} {
			c := append([]byte{}, seed...)
			same := true
			for k, x := range pat {
				if p+k < len(c) {
					if c[p+k] != x {
						same = false
					}
					c[p+k] = x
				}
			}
			if !same {
				out = append(out, c)
			}
		}
	}
	n += len(out)
	for len(out) < n {
		c := append([]byte{}, seed...)
		if len(c) == 0 {
			break
		}
		switch rng.Intn(9) {
		case 0:
			c[rng.Intn(len(c))] ^= 1 << uint(rng.Intn(8))
		case 1:
			c[rng.Intn(len(c))] = []byte{0, 0xff, 0x80, 0x7f, 0x30, 0xa0}[rng.Intn(6)]
		case 2: // a length-like field blown up
			p := rng.Intn(len(c))
			for k, x := range [][]byte{{0xff, 0xff, 0xff, 0xff}, {0x7f, 0xff, 0xff, 0xff}, {0x80, 0, 0, 0}, {0, 0, 0x40, 0}, {0x84, 0x7f, 0xff, 0xff}}[rng.Intn(5)] {
				if p+k < len(c) {
					c[p+k] = x
				}
			}
		case 3:
			p := rng.Intn(len(c) + 1)
			c = append(append(append([]byte{}, c[:p]...), rng.Bytes(1+rng.Intn(8))...), c[p:]...)
		case 4:
			p := rng.Intn(len(c))
			q := p + 1 + rng.Intn(8)
			if q > len(c) {
				q = len(c)
			}
			c = append(append([]byte{}, c[:p]...), c[q:]...)
		case 5:
			c = c[:rng.Intn(len(c)+1)]
		case 6:
			for k := 0; k < 3; k++ {
				c[rng.Intn(len(c))] = byte(rng.U64())
			}
		case 7: // two-byte length fields (keytab, gss, kadmin)
			p := rng.Intn(len(c))
			for k, x := range [][]byte{{0xff, 0xff}, {0x80, 0x00}, {0x7f, 0xff}, {0, 0}}[rng.Intn(4)] {
				if p+k < len(c) {
					c[p+k] = x
				}
			}
		case 8:
			if rng.Intn(2) == 0 {
				c = rng.Bytes(1 + rng.Intn(40))
			} else { // an 8-byte field (PAC offsets) near 2^64 or 2^63, little endian
				p := rng.Intn(len(c))
				for k, x := range [][]byte{{0xf8, 0xff, 0xff, 0xff, 0xff, 0xff, 0xff, 0xff}, {0xff, 0xff, 0xff, 0xff, 0xff, 0xff, 0xff, 0xff}, {0, 0, 0, 0, 0, 0, 0, 0x80}, {0xf0, 0xff, 0xff, 0xff, 0xff, 0xff, 0xff, 0x7f}}[rng.Intn(4)] {
					if p+k < len(c) {
						c[p+k] = x
					}
				}
			}
		}
		out = append(out, c)
	}
	return out
}

func init() {
	// c04.batch <entry index> <seed> <n>: runs the mutations of every seed of the entry in this (memory
	// limited) child and reports the first input that panics or allocates out of proportion
	sandboxHandlers["c04.batch"] = func(a []string) string {
		var idx, n int
		var seed uint64
		fmt.Sscan(a[0], &idx)
		fmt.Sscan(a[1], &seed)
		fmt.Sscan(a[2], &n)
		from, to := 0, 1<<30
		if len(a) > 4 {
			fmt.Sscan(a[3], &from)
			fmt.Sscan(a[4], &to)
		}
		m, err := StartModelNoT()
		if err != nil {
			return "no-model"
		}
		defer m.Close()
		es := c04Entries(m)
		if idx >= len(es) {
			return "bad-entry"
		}
		e := es[idx]
		rng := NewRNG(seed)
		count := 0
		maxRatio := 0.0
		var fails []string
		seenKinds := map[string]int{}
		{
			for _, in := range c04Inputs(e, rng, n) {
				count++
				if count-1 < from || count-1 >= to {
					continue
				}
				fmt.Printf("SBXQ %d\n", count-1) // should this input kill the process, the parent knows which one it was
				var ms0, ms1 runtime.MemStats
				runtime.ReadMemStats(&ms0)
				p := Protect(func() { e.run(in) })
				runtime.ReadMemStats(&ms1)
				if p != "" {
					k := "panic:" + cut(p, 60)
					if seenKinds[k] < 2 && len(fails) < 12 {
						seenKinds[k]++
						fails = append(fails, fmt.Sprintf("panic~%d~%s~%s", count-1, X(in), strings.ReplaceAll(cut(p, 160), " ", "_")))
						fmt.Printf("SBXP %s\n", fails[len(fails)-1]) // reported at once: a later input may kill the process
					}
					continue
				}
				alloc := float64(ms1.TotalAlloc - ms0.TotalAlloc)
				bound := 4e6 + 3000*float64(len(in))
				if r := alloc / bound; r > maxRatio {
					maxRatio = r
				}
				if alloc > bound {
					if seenKinds["alloc"] < 2 && len(fails) < 12 {
						seenKinds["alloc"]++
						fails = append(fails, fmt.Sprintf("alloc~%d~%s~%d", count-1, X(in), int64(alloc)))
						fmt.Printf("SBXP %s\n", fails[len(fails)-1])
					}
				}
			}
		}
		if len(fails) > 0 {
			return fmt.Sprintf("fail %d %s", count, strings.Join(fails, " "))
		}
		return fmt.Sprintf("ok %d %.3f", count, maxRatio)
	}
}

// C04: no input makes a decoder or verifier panic, hang or allocate without bound.
func TestC04(t *testing.T) {
	m := StartModel(t)
	defer m.Close()
	v := NewVerdict("C04", "every entry point that consumes outside bytes (message decoders with follow-up decryption / verification, SPNEGO / KRB5 / GSS tokens, PAC processing, DecryptMessage for six etypes, keytab, credential cache and krb5.conf parsers, kpasswd reply, PA-DATA hints, asn1 length helpers) run in a memory-limited child process on structured mutations of valid inputs (every truncation, bit flips, boundary bytes, blown-up 2- and 4-byte length fields, insertions, deletions, random bytes, empty): a panic, a stall (timeout) or an allocation above 4 MB + 3000 x input length is a violation; a crashed or stalled batch is re-run input by input to name the culprit. distinct = (entry point, batch)")
	n := 700
	rounds := 1
	if Thorough() {
		n = 4000
		rounds = 4
	}
	entries := c04Entries(m)
	var names []string
	for _, e := range entries {
		names = append(names, e.name)
	}
	sort.Strings(names)
	onlyE := -1
	if x := os.Getenv("VERIF_C04_ONLY"); x != "" {
		fmt.Sscan(x, &onlyE)
	}
	// entries run side by side (each batch is its own memory-limited child process)
	var ewg sync.WaitGroup
	esem := make(chan struct{}, 6)
	for idx, e := range entries {
		if onlyE >= 0 && idx != onlyE {
			continue
		}
		ewg.Add(1)
		esem <- struct{}{}
		go func(idx int, e c04Entry) {
			defer func() { <-esem; ewg.Done() }()
			for r := 0; r < rounds; r++ {
				sb := StartSandbox(t)
				seed := Seed()*131 + uint64(r)
				t0 := time.Now()
				ans := sb.Call(fmt.Sprintf("c04.batch %d %d %d", idx, seed, n), 120*time.Second)
				if os.Getenv("VERIF_C04_ONLY") != "" || os.Getenv("VERIF_C04_TRACE") != "" {
					fmt.Printf("c04 %2d %-55s %6.1fs %s\n", idx, e.name, time.Since(t0).Seconds(), cut(ans, 200))
				}
				sb.Close()
				v.Case(fmt.Sprintf("%s/%d", e.name, r), "entry "+e.name+" -> "+strings.Fields(ans + " -")[0])
				f := strings.Fields(ans)
				switch {
				case len(f) > 0 && f[0] == "ok":
					if idx == 0 && r == 0 {
						v.Sample(e.name + " " + ans)
					}
					continue
				case len(f) >= 3 && f[0] == "fail":
					c04Report(v, e, seed, f[2:])
				default:
					// the child died (out of memory) or stalled: the input it had started last is the culprit; it is
					// confirmed on its own in a fresh child and reported, what the child had found before it died is
					// reported too, and the batch goes on with the inputs after it (up to 8 culprits per batch)
					probe := func(a, b int) (string, string, []string) {
						sb2 := StartSandbox(t)
						defer sb2.Close()
						r := sb2.Call(fmt.Sprintf("c04.batch %d %d %d %d %d", idx, seed, n, a, b), 120*time.Second)
						return r, sb2.Last, sb2.Partial
					}
					inputs := c04Inputs(e, NewRNG(seed), n)
					total := len(inputs)
					rest, last, partial := ans, sb.Last, sb.Partial
					start := 0
					for round := 0; round < 8 && start < total; round++ {
						if round > 0 {
							rest, last, partial = probe(start, total)
						}
						if rf := strings.Fields(rest); len(rf) > 0 && rf[0] == "ok" {
							break
						} else if len(rf) >= 3 && rf[0] == "fail" {
							c04Report(v, e, seed, rf[2:])
							break
						}
						c04Report(v, e, seed, partial)
						lo := -1
						fmt.Sscan(last, &lo)
						if lo < start || lo >= total {
							v.Violate("failing-input", fmt.Sprintf("c04:%s:%s", strings.Fields(rest + " -")[0], e.name), "the batch died without saying which input it was working on", map[string]string{"entry": e.name, "batch": rest, "seed": fmt.Sprint(seed)})
							break
						}
						start = lo + 1
						a1, _, _ := probe(lo, lo+1)
						if kf := strings.Fields(a1); len(kf) >= 3 && kf[0] == "fail" {
							c04Report(v, e, seed, kf[2:])
							continue
						} else if strings.HasPrefix(a1, "ok") {
							continue // harmless on its own: the death was the accumulated effect of earlier inputs
						}
						sig := fmt.Sprintf("c04:%s:%s", strings.Fields(a1 + " -")[0], e.name)
						if e.ndr {
							sig = "c04:ndr:" + e.name
						}
						v.Violate("failing-input", sig, "an input makes the entry point exhaust memory or stall", map[string]string{"entry": e.name, "batch": rest, "input-index": fmt.Sprint(lo), "input": X(inputs[lo]), "single": a1, "seed": fmt.Sprint(seed)})
					}
				}
			}
		}(idx, e)
	}
	ewg.Wait()
	// KDC reply handling: a peer that accepts the connection and then stalls in various ways must not hold
	// the caller for longer than the library's own deadlines (5 s per attempt)
	{
		type stall struct {
			name string
			send []byte
		}
		stalls := []stall{{"accepts-then-silent", nil}, {"announces-100-sends-10", append([]byte{0, 0, 0, 100}, make([]byte, 10)...)},
			{"announces-2GB-sends-nothing", []byte{0x7f, 0xff, 0xff, 0xff}}, {"sends-half-a-length", []byte{0, 0}}}
		results := make([]string, len(stalls))
		var wg sync.WaitGroup
		for i, st := range stalls {
			wg.Add(1)
			go func(i int, st stall) {
				defer wg.Done()
				port, l, u := reservePort()
				u.Close()
				stop := make(chan struct{})
				go func() {
					for {
						c, err := l.Accept()
						if err != nil {
							return
						}
						go func(c net.Conn) {
							defer c.Close()
							buf := make([]byte, 4096)
							c.Read(buf)
							if st.send != nil {
								c.Write(st.send)
							}
							<-stop // hold the connection open
						}(c)
					}
				}()
				cfg, _ := config.NewFromString(fmt.Sprintf("[libdefaults]\n default_realm = R.TEST\n dns_lookup_kdc = false\n udp_preference_limit = 1\n[realms]\n R.TEST = {\n  kdc = 127.0.0.1:%d\n }\n", port))
				cl := client.NewWithPassword("u", "R.TEST", "pw", cfg, client.DisablePAFXFAST(true))
				done := make(chan error, 1)
				t0 := time.Now()
				go func() { done <- cl.Login() }()
				select {
				case err := <-done:
					if err == nil {
						results[i] = "login succeeded against a stalling peer"
					} else if time.Since(t0) > 12*time.Second {
						results[i] = fmt.Sprintf("returned only after %.1fs", time.Since(t0).Seconds())
					}
				case <-time.After(20 * time.Second):
					results[i] = "Client.Login has not returned after 20 s (the library's deadline is 5 s per attempt)"
				}
				close(stop)
				l.Close()
			}(i, st)
		}
		wg.Wait()
		for i, st := range stalls {
			v.Case("stall/"+st.name, "KDC peer stalls -> "+map[bool]string{true: "returns in time", false: "late"}[results[i] == ""])
			if results[i] != "" {
				v.Violate("failing-input", "c04:stall:"+st.name, "a KDC peer that "+st.name+" keeps the caller waiting: "+results[i], map[string]string{"scenario": st.name})
			}
		}
	}
	// the crash-aware Lean models of the hand-written slicing, on the same inputs as Go
	r0 := NewRNG(Seed())
	for i := 0; i < 600; i++ {
		var b []byte
		switch i % 4 {
		case 0:
			b = r0.Bytes(r0.Intn(6))
		case 1:
			b = append([]byte{0x30, byte(0x80 + r0.Intn(6))}, r0.Bytes(r0.Intn(6))...)
		case 2:
			b = append([]byte{0x30, byte(r0.Intn(256))}, r0.Bytes(r0.Intn(4))...)
		case 3:
			b = r0.Bytes(1 + r0.Intn(12))
		}
		var n1, n2 int
		p := Protect(func() { n1 = asn1tools.GetNumberBytesInLengthHeader(b); n2 = asn1tools.GetLengthFromASN(b) })
		g := fmt.Sprintf("ok %d | ok %d", n1, n2)
		if p != "" {
			g = "crash"
		}
		mo := m.Ask("tt.len " + X(b))
		v.Case("", "asn1tools helpers vs model")
		if g != mo {
			v.Violate("failing-input", "c04:asn1tools-model", "the ASN.1 length helpers and their crash-aware model differ (or the helpers panic)", map[string]string{"input": X(b), "go": g, "model": mo})
			break
		}
	}
	for i := 0; i < 600; i++ {
		// kpasswd replies: header fields over their whole range around the buffer size
		n := r0.Intn(40)
		b := r0.Bytes(n)
		if n >= 6 && i%3 != 0 {
			binary.BigEndian.PutUint16(b[0:], uint16(n-2+r0.Intn(5)))
			binary.BigEndian.PutUint16(b[2:], uint16(1+r0.Intn(8)/7))
			binary.BigEndian.PutUint16(b[4:], uint16(r0.Intn(n)))
		}
		var err error
		var rep kadmin.Reply
		p := Protect(func() { err = rep.Unmarshal(b) })
		mo := m.Ask("tt.reply " + X(b))
		v.Case("", "kadmin reply slicing vs model")
		bad := ""
		switch {
		case p != "":
			bad = "Reply.Unmarshal panics: " + p
		case strings.HasPrefix(mo, "crash"):
			bad = "the model of the slicing crashes where Go does not"
		case strings.HasPrefix(mo, "err") && err == nil:
			bad = "Go accepts a reply whose lengths the model rejects"
		}
		if bad != "" {
			v.Violate("failing-input", "c04:kadmin-model", bad, map[string]string{"input": X(b), "go-error": fmt.Sprint(err), "model": mo})
			break
		}
	}
	// keytab record walk: record lengths of every sign and size, holes, files that end inside a length
	{
		r0 := NewRNG(Seed() + 7)
		k0 := keytab.New()
		k0.AddEntry("HTTP/h", "R", "pw", time.Unix(1600000000, 0), 1, 18)
		k0.AddEntry("u", "R", "pw", time.Unix(1600000000, 0), 2, 23)
		k0.AddEntry("host/x", "R", "pw", time.Unix(1600000000, 0), 200, 17)
		good, _ := k0.Marshal()
		lens := [][]byte{{0, 0, 0, 0}, {0, 0, 0, 1}, {0xff, 0xff, 0xff, 0xff}, {0x80, 0, 0, 0}, {0x7f, 0xff, 0xff, 0xff}, {0xff, 0xff, 0xff, 0xf0}, {0, 0, 0, 60}, {0x80, 0, 0, 1}, {0xff, 0xff, 0xff, 0xc4}}
		for i := 0; i < 1500; i++ {
			b := append([]byte{}, good...)
			switch r0.Intn(5) {
			case 0: // a length field of the file replaced
				p := 2
				for k := r0.Intn(3); k > 0 && p+4 <= len(b); k-- {
					p += 4 + int(int32(binary.BigEndian.Uint32(b[p:])))
				}
				if p+4 <= len(b) && p >= 2 {
					copy(b[p:], lens[r0.Intn(len(lens))])
				}
			case 1:
				b = b[:r0.Intn(len(b)+1)]
			case 2:
				b = append(b, lens[r0.Intn(len(lens))]...)
				b = append(b, r0.Bytes(r0.Intn(12))...)
			case 3:
				b = append([]byte{5, byte(1 + r0.Intn(2))}, lens[r0.Intn(len(lens))]...)
				b = append(b, r0.Bytes(r0.Intn(70))...)
			case 4:
				b[1] = byte(r0.Intn(4))
				p := r0.Intn(len(b))
				b[p] = byte(r0.U64())
			}
			var kt keytab.Keytab
			var err error
			pan := Protect(func() { err = kt.Unmarshal(b) })
			mo := m.Ask("tt.ktwalk 1 " + X(b))
			v.Case(fmt.Sprintf("ktwalk/%d", i), "keytab record walk vs model -> "+strings.Fields(mo + " -")[0])
			bad := ""
			switch {
			case pan != "":
				bad = "Keytab.Unmarshal panics: " + pan
			case strings.HasPrefix(mo, "crash"):
				bad = "the model of the record walk crashes where Go does not"
			case strings.HasPrefix(mo, "err") && err == nil:
				bad = "Go accepts a file whose record structure the model rejects"
			case err == nil && strings.HasPrefix(mo, "ok"):
				var n int
				fmt.Sscanf(mo, "ok %d", &n)
				if n != len(kt.Entries) {
					bad = fmt.Sprintf("Go reads %d entries, the model's walk finds %d records", len(kt.Entries), n)
				}
			}
			if bad != "" {
				kind := "correspondence"
				if pan != "" {
					kind = "failing-input"
				}
				v.Violate(kind, "c04:ktwalk-model", bad, map[string]string{"input": X(b), "go-error": fmt.Sprint(err), "model": mo})
				break
			}
		}
	}
	// UPN_DNS_INFO: 16-bit offsets and lengths against buffers on both sides of 64 KiB
	{
		sizes := []int{12, 13, 100, 65535, 65536, 65537, 70000, 131072}
		vals := []int{0, 1, 2, 11, 12, 13, 99, 100, 0x7fff, 0x8000, 0xfffe, 0xffff}
		r0 := NewRNG(Seed() + 99)
		for i := 0; i < 1500; i++ {
			n := sizes[r0.Intn(len(sizes))]
			f := [4]int{}
			for j := range f {
				f[j] = vals[r0.Intn(len(vals))]
				if r0.Intn(4) == 0 {
					f[j] = r0.Intn(65536)
				}
			}
			if i < len(sizes) {
				n, f = sizes[i], [4]int{1, 0xffff, 0, 0} // a one-byte field at the last 16-bit offset
			}
			b := make([]byte, n)
			switch i % 3 {
			case 1: // every code unit a high surrogate (so the last one of any field is an unpaired one)
				for j := 12; j+1 < n; j += 2 {
					b[j], b[j+1] = 0x41, 0xd8
				}
			case 2: // pairs, so that fields of odd length in units end inside a pair
				for j := 12; j+3 < n; j += 4 {
					b[j], b[j+1], b[j+2], b[j+3] = 0x3d, 0xd8, 0x00, 0xde
				}
			}
			for j, x := range f {
				binary.LittleEndian.PutUint16(b[2*j:], uint16(x))
			}
			var err error
			var k pac.UPNDNSInfo
			p := Protect(func() { err = k.Unmarshal(b) })
			mo := m.Ask(fmt.Sprintf("tt.upn %d %d %d %d %d", n, f[0], f[1], f[2], f[3]))
			v.Case(fmt.Sprintf("upn/%d/%v", n, f), "UPN_DNS_INFO slicing vs model -> "+strings.Fields(mo + " -")[0])
			bad := ""
			switch {
			case p != "":
				bad = "UPNDNSInfo.Unmarshal panics: " + p
			case strings.HasPrefix(mo, "crash"):
				bad = "the model of the slicing crashes where Go does not"
			case strings.HasPrefix(mo, "err") != (err != nil):
				bad = "Go and the model disagree on whether the fields lie inside the buffer"
			}
			if bad != "" {
				kind := "failing-input"
				if p == "" {
					kind = "correspondence"
				}
				v.Violate(kind, "c04:upn-model", bad, map[string]string{"size": fmt.Sprint(n), "upnlen,upnoff,dnslen,dnsoff": fmt.Sprint(f), "go-error": fmt.Sprint(err), "model": mo})
				break
			}
		}
	}
	v.Note("entry points: " + strings.Join(names, "; "))
	v.ModelAsks = m.N
	v.Write(t)
}

func c04Report(v *Verdict, e c04Entry, seed uint64, items []string) {
	for _, item := range items {
		q := strings.SplitN(item, "~", 4)
		if len(q) < 4 {
			continue
		}
		what := "an input makes the entry point panic"
		sig := fmt.Sprintf("c04:panic:%s:%s", e.name, cut(q[3], 40))
		if q[0] == "alloc" {
			what = "an input makes the entry point allocate out of proportion to its size"
			sig = fmt.Sprintf("c04:alloc:%s", e.name)
		}
		if e.ndr && (q[0] == "alloc" || strings.Contains(q[3], "rpc") || strings.Contains(q[3], "ndr")) {
			sig = "c04:ndr:" + e.name
		}
		v.Violate("failing-input", sig, what, map[string]string{"entry": e.name, "input": q[2], "detail": q[3], "seed": fmt.Sprint(seed), "index": q[1]})
	}
}
