package harness

import (
	"fmt"
	"os"
	"sort"
	"strings"
	"testing"
	"testing/synctest"
	"time"

	"github.com/jcmturner/gokrb5/v8/client"
	"github.com/jcmturner/gokrb5/v8/config"
)

type cliOp struct {
	kind string // login | get | sleep
	spn  string
	d    time.Duration
}

type cliObs struct {
	op     cliOp
	now    time.Time
	result string    // ok | ok <tktid> | fail | panic …
	detail string    // error text
	reqs   []*simReq // requests the KDC saw during the op
}

func (o cliOp) String() string {
	switch o.kind {
	case "get":
		return "get " + o.spn
	case "sleep":
		return fmt.Sprintf("sleep %v", o.d)
	case "assume-pa":
		return "assume-pa"
	}
	return o.kind
}

// runClientHistory runs the op sequence on a fresh real client under a fake clock against the simulator
// (whose goroutines live outside the bubble: sockets work across, and the fake clock stands still
// while the client waits for the network).
func runClientHistory(t *testing.T, sim *kdcSim, confExtra string, ops []cliOp) (obs []cliObs, hung bool, cfgChanged string) {
	var settings []func(*client.Settings)
	if !sim.pol.fast {
		settings = append(settings, client.DisablePAFXFAST(true))
	}
	if len(ops) > 0 && ops[0].kind == "assume-pa" {
		// the application says up front that the KDC wants pre-authentication: the first request already carries
		// an encrypted timestamp, computed without any hint from the KDC
		settings = append(settings, client.AssumePreAuthentication(true))
	}
	cfg, err := config.NewFromString(sim.conf(confExtra))
	if err != nil {
		t.Fatal(err)
	}
	cfgBefore, _ := cfg.JSON()
	defer func() {
		if cfgAfter, _ := cfg.JSON(); cfgAfter != cfgBefore && !hung {
			cfgChanged = "before: " + cfgBefore + " after: " + cfgAfter
		}
	}()
	done := make(chan struct{})
	go func() {
		defer close(done)
		synctest.Test(t, func(t *testing.T) {
			cl := client.NewWithPassword(c09User, "TEST.GOKRB5", clientPassword, cfg, settings...)
			mark := 0
			for _, op := range ops {
				o := cliObs{op: op, now: time.Now()}
				p := Protect(func() {
					switch op.kind {
					case "login":
						if err := cl.Login(); err != nil {
							o.result, o.detail = "fail", err.Error()
						} else {
							o.result = "ok"
						}
					case "get":
						tkt, key, err := cl.GetServiceTicket(op.spn)
						if err != nil {
							o.result, o.detail = "fail", err.Error()
						} else {
							var id int
							fmt.Sscanf(string(tkt.EncPart.Cipher), "TKT:%d", &id)
							o.result = fmt.Sprintf("ok %d", id)
							sim.mu.Lock()
							if id < 1 || id > len(sim.tickets) {
								o.detail = "unknown-ticket"
							} else if X(sim.tickets[id-1].key.KeyValue) != X(key.KeyValue) {
								o.detail = "wrong-key"
							}
							sim.mu.Unlock()
						}
					case "sleep":
						time.Sleep(op.d)
						o.result = "ok"
					case "assume-pa":
						o.result = "ok"
					}
				})
				if p != "" {
					o.result, o.detail = "panic", p
				}
				sim.mu.Lock()
				o.reqs = append(o.reqs, sim.log[mark:]...)
				mark = len(sim.log)
				sim.mu.Unlock()
				obs = append(obs, o)
			}
			cl.Destroy()
		})
	}()
	select {
	case <-done:
	case <-time.After(8 * time.Second):
		hung = true
	}
	return
}

func (s *kdcSim) replyTok(r *simReq) string {
	if r.issued == 0 {
		return fmt.Sprintf("e:%d", r.errCode)
	}
	t := s.tickets[r.issued-1]
	var sn []string
	for _, c := range t.sname {
		sn = append(sn, XS(c))
	}
	rt := "-"
	if !t.renewTill.IsZero() {
		rt = fmt.Sprint(t.renewTill.UnixNano())
	}
	return fmt.Sprintf("i:%d:%s:%s:%d:%d:%d:%s", t.id, XS(t.issuer), List(sn), t.auth.UnixNano(), t.start.UnixNano(), t.end.UnixNano(), rt)
}

func snameToks(spn string) string {
	var sn []string
	for _, c := range strings.Split(spn, "/") {
		sn = append(sn, XS(c))
	}
	return List(sn)
}

// the request as the model prints it (space separated) and as a reply key (colon separated)
func reqTok(r *simReq, sep string) string {
	if r.kind == "AS" {
		return strings.Join([]string{"A", XS(r.realm), B(r.pa)}, sep)
	}
	return strings.Join([]string{"T", XS(r.realm), snameToks(r.sname), B(r.renew), fmt.Sprint(r.tktID)}, sep)
}

type c10Scenario struct {
	fwd, prox, canon bool
	renewCf          time.Duration
	name             string
	pol              simPolicy
	conf             string
	lifeCf           time.Duration
	ops              []cliOp
}

// principal names are case sensitive: "http/host…" is another service than "HTTP/host…"
var c10SPNs = []string{"HTTP/host.test.gokrb5", "HTTP/other.test.gokrb5", "HTTP/svc.other.realm", "HTTP/svc.third.realm", "host/a.other.realm", "http/host.test.gokrb5"}

func resolvedRealm(spn string) string {
	if strings.HasSuffix(spn, ".other.realm") {
		return "OTHER.REALM"
	}
	return ""
}

func genHistory(rng *RNG, life time.Duration, n int) []cliOp {
	// half a second off the grid of whole seconds: no auto-renewal timer then falls on the same instant as
	// the end of a clock step (which of the two would run first is not defined)
	ops := []cliOp{{kind: "sleep", d: 500 * time.Millisecond}}
	if rng.Intn(4) > 0 {
		ops = append(ops, cliOp{kind: "login"})
	}
	durs := []time.Duration{time.Second, 10 * time.Minute, life / 6, life / 2, life * 5 / 6, life - time.Second, life, life + time.Second, 3 * life, 7 * life}
	for len(ops) < n {
		switch k := rng.Intn(10); {
		case k < 5:
			ops = append(ops, cliOp{kind: "get", spn: c10SPNs[rng.Intn(len(c10SPNs))]})
		case k < 9:
			ops = append(ops, cliOp{kind: "sleep", d: durs[rng.Intn(len(durs))]})
		default:
			ops = append(ops, cliOp{kind: "login"})
		}
	}
	return ops
}

func c10Run(t *testing.T, m *Model, v *Verdict, sc c10Scenario, rng *RNG) {
	sim := newKDCSim(sc.pol, sc.lifeCf, rng)
	defer sim.close()
	obs, hung, cfgChanged := runClientHistory(t, sim, sc.conf, sc.ops)
	if cfgChanged != "" {
		v.Violate("failing-input", "c10:config-changed", "using the client changed the configuration it was given (later requests no longer follow what the application configured)", map[string]string{"scenario": sc.name, "detail": cut(cfgChanged, 3000)})
	}
	var hist []string
	for _, o := range sc.ops {
		hist = append(hist, o.String())
	}
	histS := strings.Join(hist, "; ")
	sig := fmt.Sprintf("c10:%s:%x", sc.name, hashStr(histS))
	if hung {
		sim.mu.Lock()
		var tail []string
		for i := len(sim.log) - 12; i < len(sim.log); i++ {
			if i >= 0 {
				r := sim.log[i]
				tail = append(tail, fmt.Sprintf("%s %s@%s renew=%v tkt=%d t=%dus -> %s", r.kind, r.sname, r.realm, r.renew, r.tktID, r.nowUs, r.outcome))
			}
		}
		n := len(sim.log)
		sim.mu.Unlock()
		v.Violate("failing-input", sig+":hang", "the client did not finish the history (busy loop or deadlock)", map[string]string{"scenario": sc.name, "history": histS, "requests": fmt.Sprint(n), "last": strings.Join(tail, " | ")})
		return
	}
	// the model line
	sim.mu.Lock()
	line := "cl.run " + XS("TEST.GOKRB5")
	var goOut []string
	for _, o := range obs {
		var reps, reqs []string
		for _, r := range o.reqs {
			reps = append(reps, reqTok(r, ":")+">"+sim.replyTok(r))
			reqs = append(reqs, reqTok(r, " "))
		}
		rs := "-"
		if len(reps) > 0 {
			rs = strings.Join(reps, "/")
		}
		res := o.result
		switch o.op.kind {
		case "login":
			line += fmt.Sprintf(" L|%d|%s", o.now.UnixNano(), rs)
		case "get":
			line += fmt.Sprintf(" G|%d|%s|%s|%s", o.now.UnixNano(), snameToks(o.op.spn), XS(resolvedRealm(o.op.spn)), rs)
		case "assume-pa":
			line += " P"
		case "sleep":
			line += fmt.Sprintf(" S|%d|%s", o.now.Add(o.op.d).UnixNano(), rs)
			sort.Strings(reqs) // timers that fire at the same instant wake up in no particular order
		}
		q := "-"
		if len(reqs) > 0 {
			q = strings.Join(reqs, ", ")
		}
		goOut = append(goOut, fmt.Sprintf("%s => %s left=0", q, res))
	}
	sim.mu.Unlock()
	mo := m.Ask(line)
	moOps := strings.Split(mo, " ## ")
	if os.Getenv("VERIF_C10_ONLY") != "" {
		for i, o := range obs {
			mm := "?"
			if i < len(moOps) {
				mm = moOps[i]
			}
			fmt.Printf("%2d %-28s t=%v\n     go:    %s\n     model: %s\n", i, o.op, o.now.Sub(obs[0].now), goOut[i], mm)
			for _, r := range o.reqs {
				fmt.Printf("        kdc: %s %s@%s renew=%v tkt=%d t=%v -> %s\n", r.kind, r.sname, r.realm, r.renew, r.tktID, time.Duration(r.nowUs*1000-obs[0].now.UnixNano()), r.outcome)
			}
		}
	}
	nreq := 0
	for _, o := range obs {
		nreq += len(o.reqs)
	}
	v.Case(sig, fmt.Sprintf("history %s: ops=%d", strings.SplitN(sc.name, "/", 2)[0], len(sc.ops)))
	if strings.HasPrefix(sc.name, "standard") && len(v.Samples) < 2 {
		v.Sample(cut(line, 600) + " … -> " + cut(mo, 300))
	}
	// direct checks against the issue log and the clock (independent of the model)
	sim.mu.Lock()
	for i, o := range obs {
		if o.result == "panic" {
			v.Violate("failing-input", sig+":panic", "the client panicked", map[string]string{"scenario": sc.name, "history": histS, "op": o.op.String(), "panic": o.detail})
		}
		if o.op.kind == "get" && strings.HasPrefix(o.result, "ok") {
			var id int
			fmt.Sscanf(o.result, "ok %d", &id)
			bad := ""
			switch {
			case o.detail != "":
				bad = "the (ticket, key) pair returned was not issued together by the KDC: " + o.detail
			case strings.Join(sim.tickets[id-1].sname, "/") != o.op.spn:
				bad = "the ticket returned was issued for " + strings.Join(sim.tickets[id-1].sname, "/")
			case len(o.reqs) == 0 && !(sim.tickets[id-1].start.Before(o.now) && o.now.Before(sim.tickets[id-1].end)):
				bad = "a ticket was served from the cache outside its validity period"
			case !o.now.Before(sim.tickets[id-1].end):
				bad = "an expired ticket was returned"
			}
			if bad != "" {
				v.Violate("failing-input", sig+":ticket", bad, map[string]string{"scenario": sc.name, "history": histS, "op#": fmt.Sprint(i), "op": o.op.String(), "result": o.result})
			}
		}
		for _, r := range o.reqs {
			if len(r.issues) > 0 {
				v.Violate("failing-input", sig+":request", "a request the conformant KDC had to refuse: "+strings.Join(r.issues, "; "), map[string]string{"scenario": sc.name, "history": histS, "op": o.op.String(), "request": reqTok(r, " ")})
			}
		}
		if len(o.reqs) > 0 && o.op.kind == "get" {
			tgs := 0
			for _, r := range o.reqs {
				if r.kind == "TGS" && !r.renew {
					tgs++
				}
			}
			if tgs > 12 {
				v.Violate("failing-input", sig+":referrals", fmt.Sprintf("one service-ticket request sent %d TGS requests", tgs), map[string]string{"scenario": sc.name, "history": histS})
			}
		}
	}
	sim.mu.Unlock()
	// every request, field by field, against the Lean request checker
	sim.mu.Lock()
	checked := 0
	hinted := false // the KDC has told the client which key to pre-authenticate with
	for _, o := range obs {
		for _, r := range o.reqs {
			guess := !hinted
			if r.kind == "AS" && (r.errCode == 24 || r.errCode == 25) {
				hinted = true
			}
			if checked >= 60 || r.kind == "?" {
				continue
			}
			checked++
			var opts uint32
			if r.kind == "AS" {
				opts = 0x00000010
			}
			if sc.fwd {
				opts |= 0x40000000
			}
			if sc.prox {
				opts |= 0x10000000
			}
			if sc.canon {
				opts |= 0x00010000
			}
			if sc.renewCf > 0 {
				opts |= 0x00800000
			}
			if r.renew {
				opts |= 0x00800002
			}
			optHex := fmt.Sprintf("x%08x", opts)
			var line string
			if r.kind == "AS" {
				line = fmt.Sprintf("cl.checkas %s %s %s %s %s %d %d %d 18,17 18 %s %s %s", optHex, snameToks(c09User), XS("TEST.GOKRB5"), XS(r.realm), snameToks(r.sname), r.nowUs,
					int(sc.lifeCf/time.Second), int(sc.renewCf/time.Second), X(r.key.KeyValue), B(r.pa), X(r.raw))
			} else {
				if r.tktID < 1 || r.tktID > len(sim.tickets) {
					continue
				}
				tk := sim.tickets[r.tktID-1]
				line = fmt.Sprintf("cl.checktgs %s %s %s %s %s %d %d %d 17,18,23 %d %s %s %s", optHex, snameToks(c09User), XS("TEST.GOKRB5"), XS(r.realm), snameToks(r.sname), r.nowUs,
					int(sc.lifeCf/time.Second), int(sc.renewCf/time.Second), tk.key.KeyType, X(tk.key.KeyValue), XS(fmt.Sprintf("TKT:%d", tk.id)), X(r.raw))
			}
			ans := m.Ask(line)
			v.Case(sig+fmt.Sprintf(":req%d", checked), "request "+r.kind+" -> "+cut(ans, 40))
			if ans == "ok" {
				continue
			}
			what := "a request is not well-formed or does not carry the configured values: " + ans
			ssig := sig + ":request"
			if r.kind == "AS" && r.pa && guess && sc.ops[0].kind == "assume-pa" {
				// a request of a client told to assume pre-authentication, before any KDC answer has said which key to
				// use: the etype, salt and parameters of the timestamp's key are a guess (a KDC's hints correct it)
				var rest []string
				for _, is := range strings.Split(ans, "; ") {
					if !strings.HasPrefix(is, "PA-ENC-TIMESTAMP") {
						rest = append(rest, is)
					}
				}
				if len(rest) == 0 {
					continue
				}
				ans = strings.Join(rest, "; ")
			}
			if r.kind == "AS" && r.pa && r.errCode == 24 && !sc.pol.defaultSalt && strings.Contains(ans, "does not decrypt under the client's key") {
				ssig = "c10:request:preemptive-pa-default-salt"
				what = "a pre-emptive PA-ENC-TIMESTAMP (sent because an earlier exchange needed pre-authentication) is keyed with the default salt and parameters instead of the KDC's hints; the KDC_ERR_PREAUTH_FAILED retry repairs it"
			}
			v.Violate("failing-input", ssig, what, map[string]string{"scenario": sc.name, "history": histS, "request": reqTok(r, " "), "checker": ans, "line": cut(line, 3000)})
		}
	}
	sim.mu.Unlock()
	// correspondence with the model, op by op
	if len(moOps) != len(goOut) {
		v.Violate("correspondence", sig+":shape", "the model did not answer the history", map[string]string{"scenario": sc.name, "history": histS, "model": cut(mo, 400), "line": line})
		return
	}
	for i := range goOut {
		g, mm := goOut[i], moOps[i]
		if obs[i].op.kind == "sleep" {
			// sort the model's requests too
			parts := strings.SplitN(mm, " => ", 2)
			if len(parts) == 2 && parts[0] != "-" {
				qs := strings.Split(parts[0], ", ")
				sort.Strings(qs)
				mm = strings.Join(qs, ", ") + " => " + parts[1]
			}
		}
		if g != mm {
			v.Violate("correspondence", sig+":op", "the client's requests or result differ from the model's at one step of the history",
				map[string]string{"scenario": sc.name, "history": histS, "op#": fmt.Sprint(i), "op": obs[i].op.String(), "go": g, "model": mm, "detail": cut(obs[i].detail, 300), "line": line})
			return
		}
	}
}

func c10ConfFlags(sc c10Scenario) string {
	return fmt.Sprintf(" forwardable = %v\n proxiable = %v\n canonicalize = %v\n default_tkt_enctypes = aes256-cts-hmac-sha1-96 aes128-cts-hmac-sha1-96\n default_tgs_enctypes = aes128-cts-hmac-sha1-96 aes256-cts-hmac-sha1-96 rc4-hmac\n", sc.fwd, sc.prox, sc.canon)
}

func hashStr(s string) uint32 {
	var h uint32 = 2166136261
	for i := 0; i < len(s); i++ {
		h = (h ^ uint32(s[i])) * 16777619
	}
	return h
}

func cut(s string, n int) string {
	if len(s) > n {
		return s[:n]
	}
	return s
}

// C10: tickets obtained and cached by the client are the right ones and still valid.
func TestC10(t *testing.T) {
	m := StartModel(t)
	defer m.Close()
	v := NewVerdict("C10", "histories of Login / GetServiceTicket(spn) / clock advances on the real client under a fake clock against a conformant KDC simulator for three realms (direct, configured cross-realm, one- and two-hop referrals; pre-authentication required or not; ticket lifetimes 10 m .. 10 h, renewable or not; clock steps onto and around every validity and renewal boundary; auto-renewal goroutines running), plus an adversarial always-refer KDC: (1) every (ticket, key) returned is checked against the simulator's issue log, the requested SPN and the clock, every request is checked by the simulator (authenticator, checksum, names) and (2) the requests sent and the result of every step are compared with the Lean model of the client's bookkeeping replaying the recorded KDC answers; (3) AS-REQ / TGS-REQ bytes are checked field by field by the Lean request checker. distinct = (scenario, history)")
	n := 40
	if Thorough() {
		n = 400
	}
	lifes := []time.Duration{10 * time.Hour, time.Hour, 10 * time.Minute}
	only := -1
	if e := os.Getenv("VERIF_C10_ONLY"); e != "" {
		fmt.Sscan(e, &only)
	}
	for i := 0; i < n; i++ {
		if only >= 0 && i != only {
			continue
		}
		rng := NewRNG(Seed()*1000003 + uint64(i))
		life := lifes[rng.Intn(len(lifes))]
		pol := simPolicy{maxLife: life, requirePA: rng.Intn(2) == 0, sessionEt: []int32{18, 17, 23, 20}[rng.Intn(4)]}
		pol.fast = i%3 == 1
		assume := i%4 == 2
		conf := " ticket_lifetime = 24h\n"
		name := "standard"
		renewCf := 72 * time.Hour
		switch rng.Intn(4) {
		case 0:
			pol.maxRenew = 7 * 24 * time.Hour
			conf += " renew_lifetime = 72h\n"
			name = "renewable"
		case 1:
			pol.maxRenew = 2 * life
			conf += " renew_lifetime = 72h\n"
			name = "renewable-short"
		case 2:
			// a renewable lifetime below the requested ticket lifetime (the KDC caps the ticket's life lower still)
			pol.maxRenew = 7 * 24 * time.Hour
			conf += " renew_lifetime = 12h\n"
			renewCf = 12 * time.Hour
			name = "renewable-below-lifetime"
		}
		pol.defaultSalt = rng.Intn(2) == 0
		if rng.Intn(2) == 0 {
			pol.grace = 5 * time.Minute // a KDC honours tickets within its clock skew after their end
			name += "+grace"
		}
		if pol.fast {
			name += "+fast"
		}
		sc := c10Scenario{name: fmt.Sprintf("%s/life=%v/pa=%v/#%d", name, life, pol.requirePA, i), pol: pol, lifeCf: 24 * time.Hour, ops: genHistory(rng, life, 6+rng.Intn(10))}
		if assume {
			sc.ops = append([]cliOp{{kind: "assume-pa"}}, sc.ops...)
		}
		if strings.Contains(conf, "renew_lifetime") {
			sc.renewCf = renewCf
		}
		sc.fwd, sc.prox, sc.canon = rng.Intn(2) == 0, rng.Intn(3) == 0, rng.Intn(3) == 0
		sc.conf = conf + c10ConfFlags(sc)
		c10Run(t, m, v, sc, rng)
	}
	rng := NewRNG(Seed())
	// fixed histories
	fixed := []c10Scenario{
		// a service ticket renewed just after its end, by a KDC that honours it within its clock skew and issues
		// a fresh session key with the renewed ticket
		{name: "renew-within-skew", pol: simPolicy{maxLife: 10 * time.Minute, maxRenew: time.Hour, sessionEt: 18, grace: 5 * time.Minute}, conf: " ticket_lifetime = 24h\n renew_lifetime = 72h\n", lifeCf: 24 * time.Hour, renewCf: 72 * time.Hour,
			ops: []cliOp{{kind: "sleep", d: 500 * time.Millisecond}, {kind: "login"}, {kind: "get", spn: "HTTP/host.test.gokrb5"}, {kind: "sleep", d: 10*time.Minute + time.Second}, {kind: "get", spn: "HTTP/host.test.gokrb5"}, {kind: "get", spn: "HTTP/host.test.gokrb5"},
				{kind: "sleep", d: 10*time.Minute + 2*time.Second}, {kind: "get", spn: "HTTP/host.test.gokrb5"}, {kind: "get", spn: "HTTP/host.test.gokrb5"}}},
		{name: "always-refer", pol: simPolicy{maxLife: 10 * time.Hour, sessionEt: 18, alwaysRefer: true}, conf: " ticket_lifetime = 24h\n", lifeCf: 24 * time.Hour,
			ops: []cliOp{{kind: "login"}, {kind: "get", spn: "HTTP/host.test.gokrb5"}, {kind: "get", spn: "HTTP/svc.other.realm"}}},
		{name: "two-hop", pol: simPolicy{maxLife: 10 * time.Hour, maxRenew: 7 * 24 * time.Hour, requirePA: true, sessionEt: 18}, conf: " ticket_lifetime = 24h\n renew_lifetime = 72h\n", lifeCf: 24 * time.Hour,
			ops: []cliOp{{kind: "get", spn: "HTTP/svc.third.realm"}, {kind: "sleep", d: time.Second}, {kind: "get", spn: "HTTP/svc.third.realm"}, {kind: "sleep", d: 9 * time.Hour}, {kind: "get", spn: "HTTP/svc.third.realm"},
				{kind: "sleep", d: 2 * time.Hour}, {kind: "get", spn: "HTTP/svc.third.realm"}, {kind: "get", spn: "HTTP/svc.other.realm"}}},
	}
	// the validity window of a cached ticket, exactly on its limits (service ticket: 1h - 1s)
	for _, pa := range []bool{false, true} {
		fixed = append(fixed, c10Scenario{name: fmt.Sprintf("window/pa=%v", pa), pol: simPolicy{maxLife: time.Hour, requirePA: pa, sessionEt: 17}, conf: " ticket_lifetime = 24h\n", lifeCf: 24 * time.Hour,
			ops: []cliOp{{kind: "login"}, {kind: "get", spn: "HTTP/host.test.gokrb5"}, {kind: "get", spn: "HTTP/host.test.gokrb5"}, {kind: "sleep", d: time.Nanosecond}, {kind: "get", spn: "HTTP/host.test.gokrb5"},
				{kind: "sleep", d: time.Hour - 2*time.Second}, {kind: "get", spn: "HTTP/host.test.gokrb5"}, {kind: "sleep", d: time.Second - 2*time.Nanosecond}, {kind: "get", spn: "HTTP/host.test.gokrb5"},
				{kind: "sleep", d: time.Nanosecond}, {kind: "get", spn: "HTTP/host.test.gokrb5"}, {kind: "get", spn: "HTTP/host.test.gokrb5"}}})
	}
	// a client told to assume pre-authentication, with the library's default FAST negotiation on and off: the
	// first request carries a timestamp computed without hints, the retry after the KDC's hints a correct one only
	for _, fast := range []bool{false, true} {
		for _, ds := range []bool{false, true} {
			fixed = append(fixed, c10Scenario{name: fmt.Sprintf("assume-pa/fast=%v/defaultsalt=%v", fast, ds), pol: simPolicy{maxLife: time.Hour, requirePA: true, sessionEt: 18, fast: fast, defaultSalt: ds}, conf: " ticket_lifetime = 24h\n", lifeCf: 24 * time.Hour,
				ops: []cliOp{{kind: "assume-pa"}, {kind: "login"}, {kind: "get", spn: "HTTP/host.test.gokrb5"}, {kind: "sleep", d: 2 * time.Hour}, {kind: "get", spn: "HTTP/host.test.gokrb5"}, {kind: "login"}}})
		}
	}
	for _, sc := range fixed {
		if strings.Contains(sc.conf, "renew_lifetime") {
			sc.renewCf = 72 * time.Hour
		}
		sc.conf += c10ConfFlags(sc)
		c10Run(t, m, v, sc, rng)
	}
	v.ModelAsks = m.N
	v.Write(t)
}
