package harness

import (
	"bytes"
	"runtime"
	"strconv"
	"sync"
	"time"
)

// goid returns the current goroutine's id (parsed from the stack header; test harness only).
func goid() int64 {
	var buf [64]byte
	n := runtime.Stack(buf[:], false)
	f := bytes.Fields(buf[:n])
	if len(f) < 2 {
		return -1
	}
	id, _ := strconv.ParseInt(string(f[1]), 10, 64)
	return id
}

// CoopSched runs a fixed set of threads one at a time; a thread hands control back at every yield
// point (lock acquisition hook). A schedule is the sequence of choices among the runnable threads; the
// scheduler enumerates all of them depth first (stateless search, re-executing from scratch).
type CoopSched struct {
	mu      sync.Mutex
	byGoid  map[int64]*sthread
	threads []*sthread
	events  chan schedEvent
}

type sthread struct {
	id     int
	resume chan struct{}
	state  int // 0 = parked (runnable), 1 = running, 2 = done
	yields int
}

type schedEvent struct {
	id   int
	done bool
}

var activeSched *CoopSched
var activeSchedMu sync.Mutex

// SchedYield is installed as the code-under-test's yield hook.
func SchedYield(kind string) {
	activeSchedMu.Lock()
	s := activeSched
	activeSchedMu.Unlock()
	if s == nil {
		return
	}
	s.mu.Lock()
	t := s.byGoid[goid()]
	s.mu.Unlock()
	if t == nil {
		return
	}
	t.yields++
	s.events <- schedEvent{t.id, false}
	<-t.resume
}

// RunSchedule executes the thread bodies under the given choice vector. It returns, per decision
// point, the number of runnable threads (so that the caller can enumerate), the order in which threads
// were released from each yield, and whether the run got stuck (a released thread neither yielded nor
// finished within the timeout, e.g. blocked on a real lock).
func RunSchedule(bodies []func(), choices []int) (fanout []int, trace []int, stuck bool) {
	s := &CoopSched{byGoid: map[int64]*sthread{}, events: make(chan schedEvent, len(bodies)*4)}
	activeSchedMu.Lock()
	activeSched = s
	activeSchedMu.Unlock()
	defer func() {
		activeSchedMu.Lock()
		activeSched = nil
		activeSchedMu.Unlock()
	}()
	var wg sync.WaitGroup
	for i, body := range bodies {
		t := &sthread{id: i, resume: make(chan struct{}, 1)}
		s.threads = append(s.threads, t)
		wg.Add(1)
		reg := make(chan struct{})
		go func(t *sthread, body func()) {
			defer wg.Done()
			s.mu.Lock()
			s.byGoid[goid()] = t
			s.mu.Unlock()
			close(reg)
			<-t.resume // start parked
			body()
			s.events <- schedEvent{t.id, true}
		}(t, body)
		<-reg
	}
	step := 0
	for {
		var runnable []*sthread
		for _, t := range s.threads {
			if t.state == 0 {
				runnable = append(runnable, t)
			}
		}
		if len(runnable) == 0 {
			break
		}
		c := 0
		if step < len(choices) {
			c = choices[step]
		}
		if c >= len(runnable) {
			c = len(runnable) - 1
		}
		fanout = append(fanout, len(runnable))
		t := runnable[c]
		trace = append(trace, t.id)
		t.state = 1
		t.resume <- struct{}{}
		select {
		case ev := <-s.events:
			th := s.threads[ev.id]
			if ev.done {
				th.state = 2
			} else {
				th.state = 0
			}
		case <-time.After(2 * time.Second):
			stuck = true
			// release everybody so that the goroutines can finish
			activeSchedMu.Lock()
			activeSched = nil
			activeSchedMu.Unlock()
			for _, o := range s.threads {
				if o.state == 0 {
					o.resume <- struct{}{}
				}
			}
			go func() {
				for range s.events {
				}
			}()
			wg.Wait()
			return
		}
		step++
	}
	wg.Wait()
	return
}

// EnumerateSchedules calls run for every schedule (depth-first over the choice vectors) up to limit.
func EnumerateSchedules(limit int, run func(choices []int) (fanout []int)) int {
	choices := []int{}
	n := 0
	for n < limit {
		fan := run(choices)
		n++
		// pad choices to the length of this run
		for len(choices) < len(fan) {
			choices = append(choices, 0)
		}
		choices = choices[:len(fan)]
		// next: increment the last position that can be incremented
		i := len(choices) - 1
		for i >= 0 && choices[i]+1 >= fan[i] {
			i--
		}
		if i < 0 {
			break
		}
		choices[i]++
		choices = choices[:i+1]
	}
	return n
}
