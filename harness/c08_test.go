package harness

import (
	"encoding/hex"
	"fmt"
	"strings"
	"testing"
	"unicode/utf8"

	"github.com/jcmturner/gofork/encoding/asn1"
	"github.com/jcmturner/gokrb5/v8/crypto"
	"github.com/jcmturner/gokrb5/v8/crypto/rfc3961"
	"github.com/jcmturner/gokrb5/v8/crypto/rfc8009"
	"github.com/jcmturner/gokrb5/v8/iana/patype"
	"github.com/jcmturner/gokrb5/v8/types"
)

var c08Passwords = []string{
	"", "password", "foo", "a", "Pass w0rd!", "pässword", "ß", "naïve café", "ÿþ",
	"你好", "Жук", "€100", "￮", "\U0001D11E", "a\U0001F600b", "\U0010FFFF", "x\U00010000",
	"long-" + strings.Repeat("0123456789", 7),
}

func charsTok(s string) string {
	var cs []string
	for _, r := range s {
		cs = append(cs, fmt.Sprint(int(r)))
	}
	return List(cs)
}

func pwClass(s string) string {
	c := "ascii"
	if s == "" {
		return "empty"
	}
	for _, r := range s {
		switch {
		case r >= 0x10000:
			return "supplementary"
		case r >= 0x100:
			c = "bmp"
		case r >= 0x80 && c == "ascii":
			c = "latin1"
		}
	}
	return c
}

func s2kParams(et int32, iter uint32) string {
	switch et {
	case 17, 18, 19, 20:
		return fmt.Sprintf("%08x", iter)
	}
	return ""
}

func defaultIter(et int32) uint32 {
	switch et {
	case 17, 18:
		return 4096
	case 19, 20:
		return 32768
	}
	return 0
}

func TestC08(t *testing.T) {
	m := StartModel(t)
	defer m.Close()
	v := NewVerdict("C08", "string-to-key: etype x passwords (empty, ASCII, Latin-1, BMP, supplementary plane) x salts x iterations {1,2,3,10,100,1000,4096,5000,PRNG in 1..5000, defaults} and malformed s2kparams; n-fold: every input length 1..64 x {56,64,128,168,192,256} bits; DR/DK with constants of length 1..16; KDF-HMAC-SHA2 labels/contexts/sizes and the RFC 8009 Kc/Ke/Ki sizes; des3 random-to-key incl. all 16 weak/semi-weak keys in each third; every permutation and subset of the PA-ETYPE-INFO2 / PA-ETYPE-INFO / PA-PW-SALT hints with differing salts; generated keys of every etype. Go value vs Lean RFC spec value. distinct = per-family descriptor")
	rng := NewRNG(Seed())
	c08S2K(m, v, rng)
	c08Nfold(m, v, rng)
	c08Derive(m, v, rng)
	c08R2K(m, v, rng)
	c08PAData(m, v, rng)
	c08GenKeys(m, v, rng)
	v.ModelAsks = m.N
	v.Write(t)
}

func c08S2K(m *Model, v *Verdict, rng *RNG) {
	iters := []uint32{1, 2, 3, 10, 100, 1000, 4096, 5000}
	for _, et := range allEtypes {
		e := mustEtype(et)
		for pi, pw := range c08Passwords {
			salts := []string{"", "ATHENA.MIT.EDUraeburn", "TEST.GOKRB5testuser1", "sält\U0001F600", string(rng.Bytes(3 + rng.Intn(20)))}
			for si, salt := range salts {
				if !Thorough() && (pi+si+int(et))%2 == 1 {
					continue
				}
				if et == 16 && pw == "" && salt == "" {
					// RFC 3961 n-fold is undefined on the empty string: no key is defined, nothing to compare
					continue
				}
				var its []uint32
				if defaultIter(et) == 0 {
					its = []uint32{0}
				} else {
					its = []uint32{iters[(pi+si)%len(iters)], uint32(1 + rng.Intn(5000))}
					if si == 0 && pi%6 == 0 {
						its = append(its, defaultIter(et))
					}
					if Thorough() {
						its = append(its, iters...)
					}
				}
				for _, it := range its {
					var key []byte
					var err error
					params := s2kParams(et, it)
					pan := Protect(func() { key, err = e.StringToKey(pw, salt, params) })
					op := fmt.Sprintf("cr.s2k %d %s %s %s %d", et, XS(pw), XS(salt), charsTok(pw), it)
					mr := m.Ask(op)
					v.Case(fmt.Sprintf("s2k/%d/%s/%d/%d", et, pwClass(pw), si, it), fmt.Sprintf("s2k et=%d pw=%s", et, pwClass(pw)))
					if pan != "" || err != nil || mr != "ok "+X(key) {
						v.Violate("failing-input", fmt.Sprintf("c08:s2k:et=%d:pw=%s", et, pwClass(pw)), "string-to-key differs from the RFC-defined key (independent implementation)", map[string]string{"op": op, "go": fmt.Sprintf("%s err=%v %s", X(key), err, pan), "model": mr, "password": pw})
					}
					if pi == 1 && si == 1 {
						v.Sample(op + " -> " + mr)
					}
				}
			}
		}
		// which parameter values are run and which are refused (zero stands for 2^32 iterations: RFC 3962 section 4),
		// against the model (`iterationsOfParam`, `iterationsAccepted`; theorems `zero_param_refused`, `param_accepted`)
		if defaultIter(et) != 0 {
			for _, p := range []uint32{0, 1, 2, 4096, 1<<24 + 1, 1 << 31, 1<<32 - 1} {
				mo := m.Ask(fmt.Sprintf("tt.iter %d", p))
				var err error
				var key []byte
				pan := Protect(func() { key, err = e.StringToKey("pw", "salt", s2kParams(et, p)) })
				v.Case(fmt.Sprintf("s2k-count/%d/%d", et, p), "s2k parameter value accepted or refused")
				if pan != "" || (mo == "refused") != (err != nil) || (err != nil && len(key) > 0) {
					v.Violate("failing-input", fmt.Sprintf("c08:s2k-count:et=%d:%d", et, p), "an s2kparams value is run although the RFC reading of it is beyond the bound (or refused although it is not)", map[string]string{"params": s2kParams(et, p), "go": fmt.Sprintf("%s err=%v %s", X(key), err, pan), "model": mo})
				}
			}
		}
		// malformed parameters must be rejected, well-formed ones parsed as 8 hex digits big endian
		if defaultIter(et) != 0 {
			for _, p := range []string{"", "0", "1000", "000010", "0000100", "000010000", "0000100g", "zzzzzzzz", "00 01000", "0x001000", "0000100\x00"} {
				var err error
				pan := Protect(func() { _, err = e.StringToKey("pw", "salt", p) })
				v.Case(fmt.Sprintf("s2k-malformed/%d/%q", et, p), "s2k malformed params")
				if pan != "" || err == nil {
					v.Violate("failing-input", fmt.Sprintf("c08:s2k-malformed:et=%d:%q", et, p), "malformed s2kparams accepted", map[string]string{"params": p, "panic": pan})
				}
			}
		} else {
			// des3: non-empty params are an error (RFC 3961 6.3.1); rc4 ignores them
		}
	}
	// parameter decoding: 4 octets big endian
	for i := 0; i < 40; i++ {
		b := rng.Bytes(4)
		if i < 4 {
			b = [][]byte{{0, 0, 0, 1}, {0, 0, 0x10, 0}, {0, 1, 0, 0}, {0, 0, 0x13, 0x88}}[i]
		}
		mr := m.Ask("cr.params " + X(b))
		var got int64
		got, _ = rfc3962Iter(hex.EncodeToString(b))
		got2, _ := rfc8009.S2KparamsToItertions(hex.EncodeToString(b))
		v.Case(fmt.Sprintf("params/%x", b), "s2k params decode")
		if mr != fmt.Sprintf("ok %d", got) || int64(got2) != got {
			v.Violate("failing-input", "c08:params-decode", "s2kparams not decoded as a 4-octet big-endian integer", map[string]string{"params": X(b), "go": fmt.Sprint(got, got2), "model": mr})
		}
	}
}

func c08Nfold(m *Model, v *Verdict, rng *RNG) {
	per := 2
	if Thorough() {
		per = 8
	}
	for l := 1; l <= 64; l++ {
		for _, n := range []int{56, 64, 128, 168, 192, 256} {
			for j := 0; j < per; j++ {
				in := rng.Bytes(l)
				if j == 1 {
					in = make([]byte, l)
					for i := range in {
						in[i] = byte(rng.Pick(0, 0xff, 0x80, 1))
					}
				}
				var out []byte
				pan := Protect(func() { out = rfc3961.Nfold(in, n) })
				op := fmt.Sprintf("cr.nfold %s %d", X(in), n)
				mr := m.Ask(op)
				v.Case(fmt.Sprintf("nfold/%d/%d", l, n), "nfold")
				if pan != "" || mr != "ok "+X(out) {
					v.Violate("failing-input", fmt.Sprintf("c08:nfold:%d", n), "n-fold differs from RFC 3961 5.1", map[string]string{"op": op, "go": X(out) + pan, "model": mr})
				}
			}
		}
	}
	v.Sample("cr.nfold x303132333435 64 -> " + m.Ask("cr.nfold x303132333435 64"))
}

func c08Derive(m *Model, v *Verdict, rng *RNG) {
	// RFC 3961 DR / DK with constants of every length 1..40 (shorter than, equal to and longer than a cipher block:
	// every one of them is n-folded to the block size)
	for _, et := range []int32{16, 17, 18} {
		e := mustEtype(et)
		for cl := 1; cl <= 40; cl++ {
			for j := 0; j < 3; j++ {
				key := randKey(rng, et)
				c := rng.Bytes(cl)
				if j == 0 && cl == 5 {
					c = []byte{0, 0, 0, 2, 0x99}
				}
				if j == 0 && cl == 8 {
					c = []byte("kerberos")
				}
				var dr, dk []byte
				pan := Protect(func() { dr, _ = e.DeriveRandom(key, c); dk, _ = e.DeriveKey(key, c) })
				op1 := fmt.Sprintf("cr.dr %d %s %s", et, X(key), X(c))
				op2 := fmt.Sprintf("cr.dk %d %s %s", et, X(key), X(c))
				m1, m2 := m.Ask(op1), m.Ask(op2)
				v.Case(fmt.Sprintf("dk/%d/%d", et, cl), fmt.Sprintf("DR/DK et=%d", et))
				if pan != "" || m1 != "ok "+X(dr) || m2 != "ok "+X(dk) {
					v.Violate("failing-input", fmt.Sprintf("c08:dk:et=%d", et), "DR/DK differ from RFC 3961 5.1", map[string]string{"op": op2, "go": X(dr) + " " + X(dk) + pan, "model": m1 + " " + m2})
				}
			}
		}
	}
	// RFC 8009 KDF-HMAC-SHA2: generic label/context/size, and the key sizes of Kc/Ke/Ki
	for _, et := range []int32{19, 20} {
		e := mustEtype(et)
		for ll := 1; ll <= 16; ll++ {
			for _, kbits := range []int{128, 192, 256} {
				key := randKey(rng, et)
				label := rng.Bytes(ll)
				ctx := rng.Bytes(rng.Intn(9))
				var out []byte
				pan := Protect(func() { out = rfc8009.KDF_HMAC_SHA2(key, label, ctx, kbits, e) })
				op := fmt.Sprintf("cr.kdf %d %s %s %s %d", et, X(key), X(label), X(ctx), kbits)
				mr := m.Ask(op)
				v.Case(fmt.Sprintf("kdf/%d/%d/%d", et, ll, kbits), fmt.Sprintf("KDF-HMAC-SHA2 et=%d", et))
				if pan != "" || mr != "ok "+X(out) {
					v.Violate("failing-input", fmt.Sprintf("c08:kdf:et=%d", et), "KDF-HMAC-SHA2 differs from RFC 8009 3", map[string]string{"op": op, "go": X(out) + pan, "model": mr})
				}
			}
		}
		for _, u := range usageSet {
			for _, o := range []byte{0x99, 0xAA, 0x55} {
				key := randKey(rng, et)
				label := []byte{byte(u >> 24), byte(u >> 16), byte(u >> 8), byte(u), o}
				kbits := 128
				if et == 20 {
					kbits = 192
					if o == 0xAA {
						kbits = 256
					}
				}
				var out []byte
				pan := Protect(func() { out, _ = e.DeriveKey(key, label) })
				op := fmt.Sprintf("cr.kdf %d %s %s x %d", et, X(key), X(label), kbits)
				mr := m.Ask(op)
				v.Case(fmt.Sprintf("kdf-usage/%d/%x", et, o), fmt.Sprintf("RFC8009 usage keys et=%d", et))
				if pan != "" || mr != "ok "+X(out) {
					v.Violate("failing-input", fmt.Sprintf("c08:kdf-usage:et=%d:%x", et, o), "usage key differs from RFC 8009 5 (size or value)", map[string]string{"op": op, "go": X(out) + pan, "model": mr})
				}
			}
		}
	}
}

func c08R2K(m *Model, v *Verdict, rng *RNG) {
	weak := []string{"0101010101010101", "fefefefefefefefe", "e0e0e0e0f1f1f1f1", "1f1f1f1f0e0e0e0e",
		"011f011f010e010e", "1f011f010e010e01", "01e001e001f101f1", "e001e001f101f101", "01fe01fe01fe01fe", "fe01fe01fe01fe01",
		"1fe01fe00ef10ef1", "e01fe01ff10ef10e", "1ffe1ffe0efe0efe", "fe1ffe1ffe0efe0e", "e0fee0fef1fef1fe", "fee0fee0fef1fef1"}
	inv := func(k []byte) []byte { // 7 input bytes whose stretched form is k
		in := make([]byte, 7)
		for i := 0; i < 7; i++ {
			in[i] = (k[i] & 0xFE) | ((k[7] >> uint(i+1)) & 1)
		}
		return in
	}
	try := func(r []byte, kind string) {
		var out []byte
		in := append([]byte{}, r...)
		pan := Protect(func() { out = rfc3961.DES3RandomToKey(in) })
		op := fmt.Sprintf("cr.r2k 16 %s", X(r))
		mr := m.Ask(op)
		v.Case("r2k/"+kind+"/"+X(r[:2]), "des3 random-to-key "+kind)
		if pan != "" || mr != "ok "+X(out) {
			v.Violate("failing-input", "c08:r2k:"+kind, "des3 random-to-key differs from RFC 3961 6.3.1 (parity / weak-key correction)", map[string]string{"op": op, "go": X(out) + pan, "model": mr})
		}
		for i, b := range out {
			ones := 0
			for j := 0; j < 8; j++ {
				if b&(1<<uint(j)) != 0 {
					ones++
				}
			}
			if ones%2 != 1 {
				v.Violate("failing-input", "c08:r2k-parity", "a des3 key byte does not have odd parity", map[string]string{"op": op, "go": X(out), "byte": itoa(i)})
			}
		}
	}
	for i := 0; i < 200; i++ {
		try(rng.Bytes(21), "random")
	}
	for _, w := range weak {
		k, _ := hex.DecodeString(w)
		for pos := 0; pos < 3; pos++ {
			r := rng.Bytes(21)
			copy(r[pos*7:], inv(k))
			try(r, "weak")
		}
	}
}

func rfc3962Iter(s string) (int64, error) {
	b, err := hex.DecodeString(s)
	if err != nil || len(b) != 4 {
		return 0, fmt.Errorf("bad")
	}
	return int64(uint32(b[0])<<24 | uint32(b[1])<<16 | uint32(b[2])<<8 | uint32(b[3])), nil
}

// ---- PA-data precedence (RFC 4120 5.2.7.5: ETYPE-INFO2, then ETYPE-INFO, then PW-SALT) ----

func permutations(n int) [][]int {
	if n == 0 {
		return [][]int{{}}
	}
	var out [][]int
	for _, p := range permutations(n - 1) {
		for i := 0; i <= len(p); i++ {
			q := append(append(append([]int{}, p[:i]...), n-1), p[i:]...)
			out = append(out, q)
		}
	}
	return out
}

func c08PAData(m *Model, v *Verdict, rng *RNG) {
	cname := types.PrincipalName{NameType: 1, NameString: []string{"testuser1"}}
	realm := "TEST.GOKRB5"
	type hint struct {
		kind   int // 0 ETYPE-INFO2, 1 ETYPE-INFO, 2 PW-SALT
		et     int32
		salt   string // "" = the entry carries no salt
		params []byte
	}
	other := types.PAData{PADataType: patype.PA_ENC_TIMESTAMP, PADataValue: []byte{1, 2, 3}}
	pw := "pässw0rd"
	memo := map[string]string{}
	for _, et := range allEtypes {
		otherEt := int32(18)
		if et == 18 {
			otherEt = 17
		}
		iter := uint32(3 + rng.Intn(40))
		// the variants of each hint: absent, or present naming the asked-for or another etype, with or
		// without a salt, (ETYPE-INFO2) with or without s2kparams
		i2s := []*hint{nil}
		for _, e := range []int32{et, otherEt} {
			for _, salt := range []string{"salt-from-info2", ""} {
				i2s = append(i2s, &hint{kind: 0, et: e, salt: salt})
				if defaultIter(e) != 0 {
					i2s = append(i2s, &hint{kind: 0, et: e, salt: salt, params: []byte{byte(iter >> 24), byte(iter >> 16), byte(iter >> 8), byte(iter)}})
				}
			}
		}
		i1s := []*hint{nil}
		for _, e := range []int32{et, otherEt} {
			for _, salt := range []string{"salt-from-info", ""} {
				i1s = append(i1s, &hint{kind: 1, et: e, salt: salt})
			}
		}
		pss := []*hint{nil, {kind: 2, salt: "salt-from-pw-salt"}}
		for _, h2 := range i2s {
			for _, h1 := range i1s {
				for _, hs := range pss {
					var present []*hint
					for _, h := range []*hint{h2, h1, hs} {
						if h != nil {
							present = append(present, h)
						}
					}
					// expected by the RFC 4120 5.2.7.5 precedence: everything comes from the hint that wins
					useEt, salt, it := et, "", uint32(0)
					var win *hint
					if len(present) > 0 {
						win = present[0] // present is in precedence order
						salt = win.salt
						if win.kind != 2 {
							useEt = win.et
						}
					}
					it = defaultIter(useEt)
					if win != nil && win.params != nil {
						it = iter
					}
					if salt == "" {
						salt = realm + "testuser1"
					}
					op := fmt.Sprintf("cr.s2k %d %s %s %s %d", useEt, XS(pw), XS(salt), charsTok(pw), it)
					want, seen := memo[op]
					if !seen {
						want = m.Ask(op)
						memo[op] = want
					}
					desc := ""
					for _, h := range present {
						desc += fmt.Sprintf("%s(et=%v,salt=%v,params=%v)", []string{"I2", "I", "S"}[h.kind], h.et == et || h.kind == 2, h.salt != "", h.params != nil)
					}
					for _, perm := range permutations(len(present)) {
						var pas types.PADataSequence
						order := ""
						for k, p := range perm {
							if k == 1 {
								pas = append(pas, other)
							}
							h := present[p]
							var pa types.PAData
							switch h.kind {
							case 0:
								b, _ := asn1.Marshal(types.ETypeInfo2{types.ETypeInfo2Entry{EType: h.et, Salt: h.salt, S2KParams: h.params}})
								pa = types.PAData{PADataType: patype.PA_ETYPE_INFO2, PADataValue: b}
							case 1:
								b, _ := asn1.Marshal(types.ETypeInfo{types.ETypeInfoEntry{EType: h.et, Salt: []byte(h.salt)}})
								pa = types.PAData{PADataType: patype.PA_ETYPE_INFO, PADataValue: b}
							default:
								pa = types.PAData{PADataType: patype.PA_PW_SALT, PADataValue: []byte(h.salt)}
							}
							pas = append(pas, pa)
							order += []string{"I2", "I", "S"}[h.kind]
						}
						var key types.EncryptionKey
						var err error
						pan := Protect(func() { key, _, err = crypto.GetKeyFromPassword(pw, cname, realm, et, pas) })
						v.Case(fmt.Sprintf("padata/%d/%s/%s", et, desc, order), "PA-data precedence "+order)
						if pan != "" || err != nil || want != "ok "+X(key.KeyValue) {
							sig := "c08:padata:order=" + order
							if useEt != et || strings.Contains(desc, "et=false") {
								sig = "c08:padata-etype:order=" + order
							}
							v.Violate("failing-input", sig, "salt / parameters / etype selected from the PA-data hints do not follow the RFC 4120 5.2.7.5 precedence", map[string]string{"et": itoa(et), "hints": desc, "order": order, "op": op, "want": want, "go": fmt.Sprintf("%s err=%v %s", X(key.KeyValue), err, pan)})
						}
					}
				}
			}
		}
	}
	_ = utf8.RuneLen
}

func c08GenKeys(m *Model, v *Verdict, rng *RNG) {
	for _, et := range allEtypes {
		e := mustEtype(et)
		for i := 0; i < 8; i++ {
			k, err := types.GenerateEncryptionKey(e)
			v.Case(fmt.Sprintf("genkey/%d", et), fmt.Sprintf("generated key et=%d", et))
			if err != nil || len(k.KeyValue) != specKeyLen(et) {
				v.Violate("failing-input", fmt.Sprintf("c08:genkey-len:et=%d", et), fmt.Sprintf("generated key has %d bytes, the etype requires %d", len(k.KeyValue), specKeyLen(et)), map[string]string{"et": itoa(et)})
				break
			}
			pt := rng.Bytes(20)
			ct, eerr, pan := goEncrypt(et, k.KeyValue, pt, 11)
			if eerr != nil || pan != "" {
				v.Violate("failing-input", fmt.Sprintf("c08:genkey-unusable:et=%d", et), "generated key cannot encrypt", map[string]string{"et": itoa(et), "err": fmt.Sprint(eerr, pan)})
				break
			}
			got := m.Ask(fmt.Sprintf("cr.dec %d %s 11 %s", et, X(k.KeyValue), X(ct)))
			if got != "ok "+X(des3Padded(et, pt)) {
				v.Violate("failing-input", fmt.Sprintf("c08:genkey-roundtrip:et=%d", et), "message under a generated key is not decrypted by the RFC implementation", map[string]string{"et": itoa(et), "model": got})
			}
			// the size handed to the subkey generator by callers is GetKeyByteSize
			var a types.Authenticator
			a.GenerateSeqNumberAndSubKey(et, e.GetKeyByteSize())
			if len(a.SubKey.KeyValue) != specKeyLen(et) {
				v.Violate("failing-input", fmt.Sprintf("c08:subkey-len:et=%d", et), fmt.Sprintf("generated subkey has %d bytes, the etype requires %d", len(a.SubKey.KeyValue), specKeyLen(et)), map[string]string{"et": itoa(et)})
				break
			}
		}
	}
}
