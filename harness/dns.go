package harness

import (
	"context"
	"encoding/binary"
	"net"
	"strings"
	"sync"
)

// A tiny DNS server on the loopback interface for the realms whose KDCs are located through SRV records
// (dns_lookup_kdc = true): it answers SRV queries from a table that cases fill in, A queries for the target
// names k<port>.kdc.verif. with 127.0.0.1, and NXDOMAIN for everything else. The process-wide resolver is
// pointed at it for the duration of a test; names the cases do not use never reach it (the other cases use
// address literals).
type verifDNS struct {
	mu   sync.Mutex
	srv  map[string][]int // lower-case FQDN of the SRV name -> ports
	pc   net.PacketConn
	prev *net.Resolver
}

func dnsName(name string) []byte {
	var b []byte
	for _, l := range strings.Split(strings.TrimSuffix(name, "."), ".") {
		if l != "" {
			b = append(append(b, byte(len(l))), l...)
		}
	}
	return append(b, 0)
}

func startVerifDNS() (*verifDNS, error) {
	pc, err := net.ListenPacket("udp", "127.0.0.1:0")
	if err != nil {
		return nil, err
	}
	d := &verifDNS{srv: map[string][]int{}, pc: pc, prev: net.DefaultResolver}
	addr := pc.LocalAddr().String()
	net.DefaultResolver = &net.Resolver{PreferGo: true, Dial: func(ctx context.Context, network, address string) (net.Conn, error) {
		var dl net.Dialer
		return dl.DialContext(ctx, "udp", addr)
	}}
	go d.serve()
	return d, nil
}

func (d *verifDNS) close() {
	net.DefaultResolver = d.prev
	d.pc.Close()
}

func (d *verifDNS) set(name string, ports []int) {
	d.mu.Lock()
	d.srv[strings.ToLower(name)] = ports
	d.mu.Unlock()
}

func (d *verifDNS) serve() {
	buf := make([]byte, 1500)
	for {
		n, from, err := d.pc.ReadFrom(buf)
		if err != nil {
			return
		}
		q := append([]byte{}, buf[:n]...)
		if n < 12 || binary.BigEndian.Uint16(q[4:6]) != 1 {
			continue
		}
		off, ok := 12, true
		var labels []string
		for {
			if off >= n {
				ok = false
				break
			}
			l := int(q[off])
			off++
			if l == 0 {
				break
			}
			if l > 63 || off+l > n {
				ok = false
				break
			}
			labels = append(labels, string(q[off:off+l]))
			off += l
		}
		if !ok || off+4 > n {
			continue
		}
		qtype := binary.BigEndian.Uint16(q[off : off+2])
		question := q[12 : off+4]
		name := strings.ToLower(strings.Join(labels, ".")) + "."
		var answers [][]byte
		rcode := uint16(3) // NXDOMAIN
		rr := func(typ uint16, rdata []byte) []byte {
			r := dnsName(name)
			r = binary.BigEndian.AppendUint16(r, typ)
			r = binary.BigEndian.AppendUint16(r, 1)
			r = binary.BigEndian.AppendUint32(r, 0)
			r = binary.BigEndian.AppendUint16(r, uint16(len(rdata)))
			return append(r, rdata...)
		}
		d.mu.Lock()
		ports, found := d.srv[name]
		d.mu.Unlock()
		switch {
		case found && len(ports) > 0:
			rcode = 0
			if qtype == 33 {
				for _, p := range ports {
					rd := []byte{0, 0, 0, 1}
					rd = binary.BigEndian.AppendUint16(rd, uint16(p&0xffff))
					if p&0xffff == 0 {
						// "service decidedly not available" (RFC 2782): target ".", port 0; the bits above the port give
						// the record's priority
						rd[1] = byte(p >> 16)
						rd = append(rd, 0)
					} else {
						rd[1] = byte(p >> 16)
						rd = append(rd, dnsName("k"+itoa(p&0xffff)+".kdc.verif.")...)
					}
					answers = append(answers, rr(33, rd))
				}
			}
		case strings.HasSuffix(name, ".kdc.verif."):
			rcode = 0
			if qtype == 1 {
				answers = append(answers, rr(1, []byte{127, 0, 0, 1}))
			}
		}
		resp := []byte{q[0], q[1]}
		resp = binary.BigEndian.AppendUint16(resp, 0x8180|rcode)
		resp = binary.BigEndian.AppendUint16(resp, 1)
		resp = binary.BigEndian.AppendUint16(resp, uint16(len(answers)))
		resp = binary.BigEndian.AppendUint16(resp, 0)
		resp = binary.BigEndian.AppendUint16(resp, 0)
		resp = append(resp, question...)
		for _, a := range answers {
			resp = append(resp, a...)
		}
		d.pc.WriteTo(resp, from)
	}
}
