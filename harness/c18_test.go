package harness

import (
	"bytes"
	"context"
	"fmt"
	"io"
	"net"
	"net/http"
	"net/http/httptest"
	"strings"
	"sync"
	"testing"
	"time"

	"github.com/jcmturner/gokrb5/v8/client"
	"github.com/jcmturner/gokrb5/v8/config"
	"github.com/jcmturner/gokrb5/v8/credentials"
	"github.com/jcmturner/gokrb5/v8/messages"
	"github.com/jcmturner/gokrb5/v8/spnego"
	"github.com/jcmturner/gokrb5/v8/types"
)

var c18Hosts = []string{"host.test.gokrb5", "other.test.gokrb5", "noticket.test.gokrb5"}

// c18Client builds a krb5 client that holds a TGT and service tickets for the first two hosts (minted
// with the service keytab, so that an independent acceptor can open them) and cannot reach any KDC.
func c18Client(et int32) (*client.Client, error) {
	kt, _ := serviceKeytab()
	realm := "TEST.GOKRB5"
	cname := types.PrincipalName{NameType: 1, NameString: []string{"testuser1"}}
	now := time.Now().UTC().Truncate(time.Second)
	cc := new(credentials.CCache)
	cc.Version = 4
	cc.DefaultPrincipal.Realm = realm
	cc.DefaultPrincipal.PrincipalName = cname
	add := func(sname []string) error {
		sn := types.PrincipalName{NameType: 2, NameString: sname}
		fl := types.NewKrbFlags()
		// the second host's service lives in another realm than the user (a ticket obtained through a cross-realm
		// trust: the realm in the ticket's header is the service's, the client's realm is inside the sealed part)
		srealm := realm
		if sname[1] == c18Hosts[1] {
			srealm = "OTHER.REALM"
		}
		tkt, key, err := messages.NewTicket(cname, realm, sn, srealm, fl, kt, et, 1, now.Add(-time.Minute), now.Add(-time.Minute), now.Add(8*time.Hour), now.Add(24*time.Hour))
		if err != nil {
			return err
		}
		b, err := tkt.Marshal()
		if err != nil {
			return err
		}
		cr := new(credentials.Credential)
		cr.Client.Realm, cr.Client.PrincipalName = realm, cname
		cr.Server.Realm, cr.Server.PrincipalName = srealm, sn
		cr.Key = key
		cr.AuthTime, cr.StartTime, cr.EndTime, cr.RenewTill = now.Add(-time.Minute), now.Add(-time.Minute), now.Add(8*time.Hour), now.Add(24*time.Hour)
		cr.TicketFlags = fl
		cr.Ticket = b
		cc.Credentials = append(cc.Credentials, cr)
		return nil
	}
	for _, sn := range [][]string{{"krbtgt", realm}, {"HTTP", c18Hosts[0]}, {"HTTP", c18Hosts[1]}} {
		if err := add(sn); err != nil {
			return nil, err
		}
	}
	cfg, err := config.NewFromString("[libdefaults]\n default_realm = TEST.GOKRB5\n dns_lookup_kdc = false\n udp_preference_limit = 1\n[realms]\n TEST.GOKRB5 = {\n  kdc = 127.0.0.1:1\n }\n")
	if err != nil {
		return nil, err
	}
	return client.NewFromCCache(cc, cfg)
}

type c18Seen struct {
	host   string
	auth   string
	body   []byte
	method string
	unread bool
}

// c18Server: answers request i with script[i]
type c18Server struct {
	mu     sync.Mutex
	script []string
	idx    int
	seen   []c18Seen
	srv    *httptest.Server
	noRead bool // answer without reading the request body
	early  bool // challenge at once and go on reading the upload afterwards (a full-duplex HTTP/1.1 server)
}

func (s *c18Server) ServeHTTP(w http.ResponseWriter, r *http.Request) {
	s.mu.Lock()
	i := s.idx
	s.idx++
	var step string
	if i < len(s.script) {
		step = s.script[i]
	} else {
		step = "e"
	}
	s.mu.Unlock()
	if s.early && step == "c" && r.Header.Get("Authorization") == "" {
		// the challenge goes out while the upload is still arriving; the rest of the upload is read and thrown away
		rc := http.NewResponseController(w)
		rc.EnableFullDuplex()
		w.Header().Set("WWW-Authenticate", "Negotiate")
		w.WriteHeader(401)
		rc.Flush()
		s.mu.Lock()
		s.seen = append(s.seen, c18Seen{host: r.Host, auth: "", method: r.Method, unread: true})
		s.mu.Unlock()
		io.Copy(io.Discard, r.Body)
		return
	}
	var body []byte
	unread := s.noRead && r.Header.Get("Authorization") == ""
	if !unread {
		// (in noRead mode only the requests that carry a token are read: the challenge before them was sent
		// without waiting for the upload)
		body, _ = io.ReadAll(r.Body)
	}
	s.mu.Lock()
	s.seen = append(s.seen, c18Seen{host: r.Host, auth: r.Header.Get("Authorization"), body: body, method: r.Method, unread: unread})
	s.mu.Unlock()
	switch {
	case step == "c":
		w.Header().Set("WWW-Authenticate", "Negotiate")
		w.WriteHeader(401)
		w.Write([]byte("Unauthorised.\n")) // (a challenge has a body, as the library's own wrapper sends one)
	case step == "f401r":
		w.Header().Set("WWW-Authenticate", "Negotiate oQcwBaADCgEC")
		w.WriteHeader(401)
	case step == "f401b":
		w.Header().Set("WWW-Authenticate", "Basic realm=\"x\"")
		w.WriteHeader(401)
	case strings.HasPrefix(step, "f"):
		var code int
		fmt.Sscanf(step, "f%d", &code)
		w.WriteHeader(code)
		w.Write([]byte("final"))
	case strings.HasPrefix(step, "r"):
		var code, h int
		fmt.Sscanf(step, "r%d:%d", &code, &h)
		w.Header().Set("Location", fmt.Sprintf("http://%s/hop/%d", c18Hosts[h], i))
		w.WriteHeader(code)
	default: // transport failure
		if hj, ok := w.(http.Hijacker); ok {
			c, _, _ := hj.Hijack()
			c.Close()
		}
	}
}

func hostIdx(h string) int {
	h = strings.Split(h, ":")[0]
	for i, x := range c18Hosts {
		if x == h {
			return i
		}
	}
	return -1
}

// C18: the SPNEGO HTTP client authenticates once, replays the body, and terminates.
func TestC18(t *testing.T) {
	m := StartModel(t)
	defer m.Close()
	v := NewVerdict("C18", "spnego.Client.Do against a scripted HTTP server (loopback, every host name dialled to it): PRNG scripts of up to 30 responses over {401 Negotiate challenge, 401 with a reject token, 401 Basic, 200, 403, 500, redirects 301/302/303/307/308 between three hosts (two with a cached ticket, one without), connection closed}, plus the adversarial all-challenge, challenge/redirect alternation and long redirect chains; methods GET/POST/PUT with bodies of 0 B .. 1.5 MB given as *bytes.Reader or as a plain io.Reader (chunked), a server that answers without reading the body; SPN configured or derived from the host; one spnego.Client reused for several calls. Observed per call: every request the server received (host, Authorization, body bytes), the result, the elapsed count; compared with the Lean model; every Authorization token is given to the independent Lean acceptor holding only the intended service's keys. distinct = script")
	rng := NewRNG(Seed())
	_, _ = serviceKeytab()
	n := 120
	if Thorough() {
		n = 1500
	}
	kt, _ := serviceKeytab()
	// keytab tokens restricted to one service principal: acceptance then means "a ticket for that service"
	ktFor := func(host string) string {
		var es []ktEntry
		for _, e := range goKtEntries(kt) {
			if len(e.comps) == 2 && string(e.comps[0]) == "HTTP" && string(e.comps[1]) == host {
				es = append(es, e)
			}
		}
		return ktToks(es)
	}
	finals := []string{"f200", "f200", "f403", "f500", "f401r", "f401b", "f204"}
	redirs := []int{301, 302, 303, 307, 308}
	for i := 0; i < n; i++ {
		// one client (and one spnego.Client) for a few calls: the redirect count is kept between calls
		et := []int32{18, 17, 23, 20}[i%4]
		kcl, err := c18Client(et)
		if err != nil {
			t.Fatal(err)
		}
		explicit := rng.Intn(3) == 0
		spn := ""
		if explicit {
			spn = "HTTP/" + c18Hosts[0]
		}
		srv := &c18Server{}
		srv.srv = httptest.NewServer(srv)
		addr := srv.srv.Listener.Addr().String()
		tr := &http.Transport{DialContext: func(ctx context.Context, network, _ string) (net.Conn, error) {
			return (&net.Dialer{}).DialContext(ctx, network, addr)
		}, DisableKeepAlives: true} // (a reused connection that is closed makes the transport retry on its own)
		if i%3 == 2 {
			// an application that allows itself one connection per host: the challenge's connection is given back
			// before the authenticated attempt needs one
			tr.MaxConnsPerHost = 1
		}
		hc := &http.Client{Transport: tr, Timeout: 20 * time.Second}
		scl := spnego.NewClient(kcl, hc, spn)
		reds := 0
		var history []string
		calls := 1 + rng.Intn(3)
		for call := 0; call < calls; call++ {
			// the script
			var script []string
			switch k := rng.Intn(10); {
			case k == 0:
				for j := 0; j < 30; j++ {
					script = append(script, "c")
				}
			case k == 1:
				for j := 0; j < 15; j++ {
					script = append(script, "c", fmt.Sprintf("r%d:%d", redirs[rng.Intn(5)], rng.Intn(2)))
				}
			case k == 2:
				for j := 0; j < 14; j++ {
					script = append(script, fmt.Sprintf("r%d:%d", redirs[rng.Intn(5)], rng.Intn(3)))
				}
				script = append(script, "f200")
			default:
				l := rng.Intn(8)
				for j := 0; j < l; j++ {
					switch rng.Intn(5) {
					case 0, 1:
						script = append(script, "c")
					case 2, 3:
						script = append(script, fmt.Sprintf("r%d:%d", redirs[rng.Intn(5)], rng.Intn(3)))
					case 4:
						script = append(script, finals[rng.Intn(len(finals))])
					}
				}
				if rng.Intn(6) == 0 {
					script = append(script, "e")
				} else {
					script = append(script, finals[rng.Intn(len(finals))])
				}
			}
			// directed: an upload far larger than the socket buffers to a server that challenges without reading it (the
			// first upload is still under way when the authenticated attempt starts: it gets the whole body all the same)
			directed := i < 4 && call == 0
			if directed {
				script = []string{"c", "f200"}
			}
			srv.mu.Lock()
			srv.script, srv.idx, srv.seen = script, 0, nil
			srv.noRead = rng.Intn(8) == 0 || directed
			srv.early = directed && i >= 2
			srv.mu.Unlock()
			// the request
			host0 := rng.Intn(3)
			size := []int{0, 0, 17, 4000, 70000, 1500000}[rng.Intn(6)]
			if directed {
				host0, size = 0, 24<<20
			}
			method := "GET"
			var body []byte
			var req *http.Request
			plainReader := false
			if size > 0 {
				method = []string{"POST", "PUT"}[rng.Intn(2)]
				body = rng.Bytes(size)
				if (rng.Intn(3) == 0 && !directed) || (directed && i != 0) {
					plainReader = true
					req, _ = http.NewRequest(method, "http://"+c18Hosts[host0]+"/start", io.MultiReader(bytes.NewReader(body)))
				} else {
					req, _ = http.NewRequest(method, "http://"+c18Hosts[host0]+"/start", bytes.NewReader(body))
				}
			} else {
				req, _ = http.NewRequest(method, "http://"+c18Hosts[host0]+"/start", nil)
			}
			if rng.Intn(5) == 0 || (i == 4 && call == 0) {
				// the caller's own credentials of another scheme, Kerberos as the fall-back: the token takes their place
				req.Header.Set("Authorization", "Bearer "+X(rng.Bytes(12)))
			}
			var resp *http.Response
			var derr error
			done := make(chan struct{})
			go func() {
				defer close(done)
				if p := Protect(func() { resp, derr = scl.Do(req) }); p != "" {
					derr = fmt.Errorf("panic %s", p)
				}
			}()
			desc := fmt.Sprintf("script=%s host=%d spn=%v body=%d/%s plain=%v noread=%v early=%v call=%d", strings.Join(script, ","), host0, explicit, size, method, plainReader, srv.noRead, srv.early, call)
			select {
			case <-done:
			case <-time.After(60 * time.Second):
				v.Violate("failing-input", "c18:no-return", "Client.Do did not return", map[string]string{"case": desc})
				srv.srv.Close()
				return
			}
			if resp != nil {
				io.Copy(io.Discard, resp.Body)
				resp.Body.Close()
			}
			srv.mu.Lock()
			seen := append([]c18Seen{}, srv.seen...)
			srv.mu.Unlock()
			// the model: redirect methods are the http.Client's matter; hosts and responses as scripted
			var mscript []string
			for _, s := range script {
				switch {
				case s == "c" || s == "e":
					mscript = append(mscript, s)
				case s == "f401r" || s == "f401b":
					mscript = append(mscript, "f401")
				case strings.HasPrefix(s, "f"):
					mscript = append(mscript, s)
				case strings.HasPrefix(s, "r"):
					mscript = append(mscript, s)
				}
			}
			can := "0,1"
			if explicit {
				can = "0,1,2"
			}
			mo := m.Ask(fmt.Sprintf("hc.run %s %d %d 0 %s %s %s %s", List(mscript), reds, host0, B(size > 0), B(size == 0 || !plainReader), B(method == "GET"), can))
			// what Go did
			var sent []string
			bodyBad := ""
			for k, s := range seen {
				hasTok := strings.HasPrefix(s.auth, "Negotiate ")
				intact := true
				if size > 0 && !s.unread {
					// after a 301/302/303 redirect the http.Client turns the request into a GET; the captured
					// body is still attached by the SPNEGO client, so it must still be the original bytes
					intact = bytes.Equal(s.body, body)
					if !intact {
						bodyBad = fmt.Sprintf("request %d (%s) carried %d bytes, the original has %d (equal prefix %d)", k, s.method, len(s.body), len(body), commonPrefix(s.body, body))
					}
				}
				sent = append(sent, fmt.Sprintf("%d:%s:%s", hostIdx(s.host), B(hasTok), B(size > 0)))
			}
			res := ""
			switch {
			case derr != nil && strings.Contains(derr.Error(), "stopped after 10 redirects"):
				res = "err stopped-after-10-redirects"
			case derr != nil && (strings.Contains(derr.Error(), "could not acquire client credential") || strings.Contains(derr.Error(), "could not initialize context")):
				res = "err auth"
			case derr != nil:
				res = "err transport"
			default:
				res = fmt.Sprintf("resp %d", resp.StatusCode)
			}
			// expected number of redirects afterwards
			var mreds int
			if i := strings.LastIndex(mo, "reds="); i >= 0 {
				fmt.Sscanf(mo[i:], "reds=%d", &mreds)
			}
			goOut := fmt.Sprintf("%s => %s reds=%d", List(sent), res, mreds)
			v.Case(fmt.Sprintf("%x", hashStr(desc)), fmt.Sprintf("requests=%d result=%s", len(seen), strings.Fields(res)[0]))
			if i == 0 && call == 0 {
				v.Sample(desc + " :: " + goOut)
			}
			history = append(history, desc+" :: "+goOut)
			det := map[string]string{"case": desc, "go": goOut, "model": mo, "error": fmt.Sprint(derr), "earlier-calls": strings.Join(history[:len(history)-1], " || ")}
			if len(seen) > 22 {
				v.Violate("failing-input", "c18:unbounded", fmt.Sprintf("one call sent %d requests", len(seen)), det)
			} else if bodyBad != "" {
				// (a transport error is an error result, not a silently altered body)
				v.Violate("failing-input", "c18:body", "a request of the call did not carry the original body intact: "+bodyBad, det)
			} else if goOut != mo && !(srv.noRead && size >= 70000) {
				// (a server that answers a large upload without reading it makes the transport fail in
				// ways of its own: only the bound and the tokens are checked then)
				k := "correspondence"
				what := "the requests sent or the result differ from the model's"
				v.Violate(k, "c18:differs:"+fmt.Sprintf("%x", hashStr(desc)), what, det)
			}
			reds = mreds
			if goOut != mo {
				calls = call + 1 // the client's redirect count is no longer known: no further calls on it
			}
			// every token: the independent acceptor, holding only the intended service's keys, accepts it
			for k, s := range seen {
				if !strings.HasPrefix(s.auth, "Negotiate ") {
					continue
				}
				intended := c18Hosts[0]
				if !explicit {
					intended = strings.Split(s.host, ":")[0]
				}
				op := fmt.Sprintf("sp.http %d %d - 0 1 - 0 n 0 %s - %s", time.Now().UnixNano()/1000, int64(5*time.Minute/time.Microsecond), X([]byte(s.auth)), ktFor(intended))
				ans := m.Ask(op)
				v.Case("", "token -> "+strings.Fields(ans + " -")[0])
				if !strings.HasPrefix(ans, "served ") || !strings.Contains(ans, XS("testuser1")) {
					v.Violate("failing-input", "c18:token-not-accepted", "an independent acceptor holding the key of the intended service (HTTP/"+intended+") does not accept the Authorization token", map[string]string{"case": desc, "request": fmt.Sprint(k), "acceptor": ans, "header": s.auth})
					break
				}
			}
		}
		srv.srv.Close()
		kcl.Destroy()
	}
	v.ModelAsks = m.N
	v.Write(t)
}

func commonPrefix(a, b []byte) int {
	n := 0
	for n < len(a) && n < len(b) && a[n] == b[n] {
		n++
	}
	return n
}
