package harness

import (
	"encoding/binary"
	"fmt"
	"io"
	"net"
	"strings"
	"sync"
	"time"

	"github.com/jcmturner/gofork/encoding/asn1"
	"github.com/jcmturner/gokrb5/v8/crypto"
	"github.com/jcmturner/gokrb5/v8/keytab"
	"github.com/jcmturner/gokrb5/v8/messages"
	"github.com/jcmturner/gokrb5/v8/types"
)

// repCase: a KDC reply to mint, a valid one plus defects.
type repCase struct {
	tgs    bool
	et     int32  // etype of the client's key (AS) / of the TGT session key (TGS)
	secret string // password | keytab (AS)
	skew   time.Duration

	// what the "KDC" says about hints (AS, password)
	hints string // none | info2 | info2-iter | info2+pwsalt | pwsalt | info | info2-empty | info-empty

	// request side (direct calls)
	reqAddrs []types.HostAddress

	// referral scenario only: the crealm of the reply of the realm referred to (empty: the client's realm)
	secondCRealm string

	// reply defects
	outerCName  []string
	outerCRealm string
	encNonceOff int
	encSName    []string
	encSRealm   string
	encCAddr    []types.HostAddress
	authOff     time.Duration
	startOff    time.Duration
	authYears   int // authtime / starttime moved by whole years (beyond what a Duration can express)
	startYears  int
	noStart     bool
	wrongKey    bool
	usage       uint32 // 0: the right one
	flip        int
	trunc       int
	appTag26    bool // the other application tag on the encrypted part
	msgType     int
	kvno        int // keytab: key version the reply is encrypted under and says (0 = 1)
	kvnoLie     bool
	tktRealm    string
	tktSName    []string // nil: as requested; empty slice: empty
	trailing    bool
	krbError    int32 // answer with this KRB-ERROR instead
	encEtype    int32 // etype field of the EncryptedData (0 = et)
}

func baseRep(tgs bool, et int32, secret string) repCase {
	return repCase{tgs: tgs, et: et, secret: secret, skew: 5 * time.Minute, hints: "info2-iter", flip: -1, startOff: 0, authOff: 0}
}

func (c repCase) describe() string {
	d := baseRep(c.tgs, c.et, c.secret)
	var p []string
	add := func(cond bool, s string) {
		if cond {
			p = append(p, s)
		}
	}
	add(c.skew != d.skew, fmt.Sprintf("skew=%v", c.skew))
	add(c.hints != d.hints, "hints="+c.hints)
	add(len(c.reqAddrs) > 0, fmt.Sprintf("reqaddrs=%d", len(c.reqAddrs)))
	add(c.outerCName != nil, "cname="+strings.Join(c.outerCName, "/"))
	add(c.outerCRealm != "", "crealm="+c.outerCRealm)
	add(c.encNonceOff != 0, fmt.Sprintf("nonce%+d", c.encNonceOff))
	add(c.encSName != nil, "encsname="+strings.Join(c.encSName, "/"))
	add(c.encSRealm != "", "encsrealm="+c.encSRealm)
	add(len(c.encCAddr) > 0, fmt.Sprintf("caddr=%d", len(c.encCAddr)))
	add(len(c.encCAddr) > 1 && len(c.reqAddrs) > 1, "caddr-list="+addrToks(c.encCAddr))
	add(c.secondCRealm != "", "second-crealm="+c.secondCRealm)
	add(c.authOff != 0, fmt.Sprintf("auth=%v", c.authOff))
	add(c.startOff != 0, fmt.Sprintf("start=%v", c.startOff))
	add(c.authYears != 0, fmt.Sprintf("auth=%+dy", c.authYears))
	add(c.startYears != 0, fmt.Sprintf("start=%+dy", c.startYears))
	add(c.noStart, "nostart")
	add(c.wrongKey, "wrongkey")
	add(c.usage != 0, fmt.Sprintf("usage=%d", c.usage))
	add(c.flip >= 0, "flip")
	add(c.trunc > 0, "trunc")
	add(c.appTag26 != d.appTag26, "othertag")
	add(c.msgType != 0, fmt.Sprintf("msgtype=%d", c.msgType))
	add(c.kvno != 0, fmt.Sprintf("kvno=%d", c.kvno))
	add(c.kvnoLie, "kvnolie")
	add(c.tktRealm != "", "tktrealm="+c.tktRealm)
	add(c.tktSName != nil, "tktsname="+strings.Join(c.tktSName, "/"))
	add(c.trailing, "trailing")
	add(c.krbError != 0, fmt.Sprintf("krberror=%d", c.krbError))
	add(c.encEtype != 0, fmt.Sprintf("encetype=%d", c.encEtype))
	if len(p) == 0 {
		return "valid"
	}
	return strings.Join(p, ",")
}

// the request as the KDC sees it
type kdcReqInfo struct {
	cname  types.PrincipalName
	realm  string
	nonce  int
	sname  types.PrincipalName
	addrs  []types.HostAddress
	padata types.PADataSequence
	crealm string // the client's realm when it is not the realm of the request
	raw    []byte // the request as it arrived (AS: what the RFC 6806 section 11 checksum covers)
}

const clientPassword = "Pässword-1 with ünicode"

// hintsFor builds the PA-DATA hints the KDC sends with an AS-REP for a password client.
func hintsFor(kind string, et int32, realm string, cname types.PrincipalName) types.PADataSequence {
	salt := "SALT." + realm + cname.PrincipalNameString()
	info2 := func(params []byte, s string) types.PAData {
		e := types.ETypeInfo2{{EType: et, Salt: s, S2KParams: params}}
		b, _ := asn1.Marshal(e)
		return types.PAData{PADataType: 19, PADataValue: b}
	}
	info := func(s string) types.PAData {
		e := types.ETypeInfo{{EType: et, Salt: []byte(s)}}
		b, _ := asn1.Marshal(e)
		return types.PAData{PADataType: 11, PADataValue: b}
	}
	iter := []byte{0, 0, 0, 0x40}
	if et == 23 || et == 16 {
		iter = nil
	}
	switch kind {
	case "none":
		return nil
	case "info2":
		return types.PADataSequence{info2(nil, salt)}
	case "info2-iter":
		return types.PADataSequence{info2(iter, salt)}
	case "info2+pwsalt":
		return types.PADataSequence{info2(iter, salt), {PADataType: 3, PADataValue: []byte("other-salt")}}
	case "pwsalt+info2":
		return types.PADataSequence{{PADataType: 3, PADataValue: []byte("other-salt")}, info2(iter, salt)}
	case "pwsalt":
		return types.PADataSequence{{PADataType: 3, PADataValue: []byte(salt)}, info2Dummy()}
	case "info":
		return types.PADataSequence{info(salt), info2Dummy()}
	case "info2-empty":
		b, _ := asn1.Marshal(types.ETypeInfo2{})
		return types.PADataSequence{{PADataType: 19, PADataValue: b}}
	case "info-empty":
		b, _ := asn1.Marshal(types.ETypeInfo{})
		return types.PADataSequence{{PADataType: 11, PADataValue: b}}
	}
	panic("hints " + kind)
}

// an unrelated PA-DATA element, to have more than one element in the sequence
func info2Dummy() types.PAData { return types.PAData{PADataType: 136, PADataValue: []byte{}} }

var (
	cliKeytabOnce sync.Once
	cliKeytabV    *keytab.Keytab
	cliKeytabToks string
)

// mintKDCRep builds the reply bytes for a request. clientKey is the key the KDC believes the client has
// (AS) or the TGT session key (TGS). Returns the reply and the session key placed inside.
func mintKDCRep(rng *RNG, c repCase, rq kdcReqInfo, clientKey types.EncryptionKey, padata types.PADataSequence, now time.Time) ([]byte, error) {
	return mintKDCRepKey(rng, c, rq, clientKey, padata, now, nil)
}

func mintKDCRepKey(rng *RNG, c repCase, rq kdcReqInfo, clientKey types.EncryptionKey, padata types.PADataSequence, now time.Time, sessOut *types.EncryptionKey) ([]byte, error) {
	if c.krbError != 0 {
		e := messages.NewKRBError(rq.sname, rq.realm, c.krbError, "scripted error")
		if c.krbError == 25 || c.krbError == 24 {
			// a conformant PREAUTH_REQUIRED / PREAUTH_FAILED carries METHOD-DATA (RFC 4120 7.5.1)
			e.EData, _ = asn1.Marshal(hintsFor("info2-iter", c.et, rq.realm, rq.cname))
		}
		return e.Marshal()
	}
	sessKey := types.EncryptionKey{KeyType: c.et, KeyValue: randKey(rng, c.et)}
	if sessOut != nil {
		*sessOut = sessKey
	}
	fl := types.NewKrbFlags()
	types.SetFlag(&fl, 1)
	enc := messages.EncKDCRepPart{Key: sessKey, LastReqs: []messages.LastReq{{LRType: 0, LRValue: now.Truncate(time.Second)}},
		Nonce: rq.nonce + c.encNonceOff, Flags: fl, AuthTime: now.Add(c.authOff).AddDate(c.authYears, 0, 0).Truncate(time.Second),
		EndTime: now.Add(10 * time.Hour).Truncate(time.Second), RenewTill: now.Add(24 * time.Hour).Truncate(time.Second),
		SRealm: rq.realm, SName: rq.sname, CAddr: c.encCAddr}
	if !c.noStart {
		enc.StartTime = now.Add(c.startOff).AddDate(c.startYears, 0, 0).Truncate(time.Second)
	}
	if c.encSName != nil {
		enc.SName = types.PrincipalName{NameType: rq.sname.NameType, NameString: c.encSName}
		if len(c.encSName) == 1 && c.encSName[0] == "=" {
			// the requested name's components joined into one: reads the same, is another principal
			enc.SName.NameString = []string{strings.Join(rq.sname.NameString, "/")}
		}
	}
	if c.encSRealm != "" {
		enc.SRealm = c.encSRealm
	}
	if !c.tgs && rq.raw != nil && rq.padata.Contains(149) {
		// RFC 6806 section 11: the request asked for it (PA-REQ-ENC-PA-REP): the enc-pa-rep flag, and in the sealed part
		// a checksum of the request under the reply key (key usage 56) and an empty PA-FX-FAST
		if et, e := crypto.GetEtype(clientKey.KeyType); e == nil {
			if ck, e := et.GetChecksumHash(clientKey.KeyValue, rq.raw, 56); e == nil {
				if pv, e := asn1.Marshal(types.PAReqEncPARep{ChksumType: et.GetHashID(), Chksum: ck}); e == nil {
					types.SetFlag(&enc.Flags, 15)
					enc.EncPAData = types.PADataSequence{{PADataType: 149, PADataValue: pv}, {PADataType: 136, PADataValue: []byte{}}}
				}
			}
		}
	}
	eb, err := enc.Marshal() // application tag 25
	if err != nil {
		return nil, err
	}
	if c.appTag26 != c.tgs { // TGS replies normally use 26
		eb[0] = 0x7a
	}
	key := clientKey
	if c.wrongKey {
		key = types.EncryptionKey{KeyType: clientKey.KeyType, KeyValue: randKey(rng, clientKey.KeyType)}
	}
	usage := uint32(3)
	if c.tgs {
		usage = 8
	}
	if c.usage != 0 {
		usage = c.usage
	}
	kv := c.kvno
	if kv == 0 {
		kv = 1
	}
	if c.kvnoLie {
		kv = 3 - kv
	}
	ed, err := crypto.GetEncryptedData(eb, key, usage, kv)
	if err != nil {
		return nil, err
	}
	if c.tgs {
		ed.KVNO = 0
	}
	if c.encEtype != 0 {
		ed.EType = c.encEtype
	}
	if c.flip >= 0 {
		i := c.flip % (len(ed.Cipher) * 8)
		ed.Cipher = append([]byte{}, ed.Cipher...)
		ed.Cipher[i/8] ^= 1 << uint(i%8)
	}
	if c.trunc > 0 && c.trunc <= len(ed.Cipher) {
		ed.Cipher = ed.Cipher[:len(ed.Cipher)-c.trunc]
	}
	tkt := messages.Ticket{TktVNO: 5, Realm: rq.realm, SName: rq.sname, EncPart: types.EncryptedData{EType: 18, KVNO: 2, Cipher: []byte("opaque to the client")}}
	if c.tktRealm != "" {
		tkt.Realm = c.tktRealm
	}
	if c.tktSName != nil {
		tkt.SName = types.PrincipalName{NameType: rq.sname.NameType, NameString: c.tktSName}
	}
	f := messages.KDCRepFields{PVNO: 5, MsgType: 11, PAData: padata, CRealm: rq.realm, CName: rq.cname, Ticket: tkt, EncPart: ed}
	if rq.crealm != "" {
		f.CRealm = rq.crealm
	}
	if c.tgs {
		f.MsgType = 13
		f.PAData = nil
	}
	if c.msgType != 0 {
		f.MsgType = c.msgType
	}
	if c.outerCName != nil {
		f.CName = types.PrincipalName{NameType: rq.cname.NameType, NameString: c.outerCName}
	}
	if c.outerCRealm != "" {
		f.CRealm = c.outerCRealm
	}
	var b []byte
	if c.tgs {
		b, err = (&messages.TGSRep{KDCRepFields: f}).Marshal()
	} else {
		b, err = (&messages.ASRep{KDCRepFields: f}).Marshal()
	}
	if err != nil {
		return nil, err
	}
	if c.msgType != 0 && c.msgType != 11 && c.msgType != 13 {
		// keep the application tag of the reply kind that was asked for
	}
	if c.trailing {
		b = append(b, 0xca, 0xfe)
	}
	return b, nil
}

// ---- a functional loopback KDC (TCP) ----

type funcKDC struct {
	port int
	l    *net.TCPListener
	wg   sync.WaitGroup
	mu   sync.Mutex
	// handler gets the request bytes and returns the reply bytes (nil: close without answering)
	handler func(req []byte) []byte
}

// every request nonce the loopback KDCs of this process have seen (a reply answers the request whose nonce it
// carries: nonces that repeat make an earlier reply pass for a later request)
var (
	nonceMu   sync.Mutex
	nonceSeen = map[int]int{}
)

func noteNonce(req []byte) {
	var a messages.ASReq
	var tg messages.TGSReq
	n := 0
	if a.Unmarshal(req) == nil {
		if a.PAData.Contains(2) {
			return // the pre-authenticated repeat of a request keeps the request's nonce
		}
		n = a.ReqBody.Nonce
	} else if tg.Unmarshal(req) == nil {
		n = tg.ReqBody.Nonce
	} else {
		return
	}
	nonceMu.Lock()
	nonceSeen[n]++
	nonceMu.Unlock()
}

// nonceRepeats: how many requests carried a nonce that an earlier request had carried
func nonceRepeats() (repeats, total int) {
	nonceMu.Lock()
	defer nonceMu.Unlock()
	for _, k := range nonceSeen {
		total += k
		repeats += k - 1
	}
	return
}

func startFuncKDC(h func(req []byte) []byte) *funcKDC {
	port, l, u := reservePort()
	u.Close()
	k := &funcKDC{port: port, l: l, handler: h}
	k.wg.Add(1)
	go func() {
		defer k.wg.Done()
		for {
			c, err := k.l.AcceptTCP()
			if err != nil {
				return
			}
			k.wg.Add(1)
			go func(c *net.TCPConn) {
				defer k.wg.Done()
				defer c.Close()
				c.SetDeadline(time.Now().Add(8 * time.Second))
				hdr := make([]byte, 4)
				if _, err := io.ReadFull(c, hdr); err != nil {
					return
				}
				req := make([]byte, binary.BigEndian.Uint32(hdr))
				if _, err := io.ReadFull(c, req); err != nil {
					return
				}
				noteNonce(req)
				k.mu.Lock()
				rb := k.handler(req)
				k.mu.Unlock()
				if rb == nil {
					return
				}
				out := make([]byte, 4+len(rb))
				binary.BigEndian.PutUint32(out, uint32(len(rb)))
				copy(out[4:], rb)
				c.Write(out)
			}(c)
		}
	}()
	return k
}

func (k *funcKDC) close() {
	k.l.Close()
	k.wg.Wait()
}
