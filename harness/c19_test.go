package harness

import (
	"bytes"
	"encoding/binary"
	"encoding/hex"
	"fmt"
	"io"
	"log"
	"sort"
	"strings"
	"testing"
	"time"

	"github.com/jcmturner/gokrb5/v8/pac"
	"github.com/jcmturner/gokrb5/v8/test/testdata"
	"github.com/jcmturner/gokrb5/v8/types"
	"github.com/jcmturner/rpc/v2/mstypes"
)

type pacBuf struct {
	ty   uint32
	data []byte
}

// splitPAC is the harness's own reader of the PACTYPE table (independent of the code under test).
func splitPAC(b []byte) []pacBuf {
	n := binary.LittleEndian.Uint32(b[0:4])
	var out []pacBuf
	for i := 0; i < int(n); i++ {
		e := b[8+16*i:]
		ty := binary.LittleEndian.Uint32(e[0:4])
		sz := binary.LittleEndian.Uint32(e[4:8])
		off := binary.LittleEndian.Uint64(e[8:16])
		out = append(out, pacBuf{ty, append([]byte{}, b[off:off+uint64(sz)]...)})
	}
	return out
}

// buildPAC lays the buffers out at 8-aligned offsets; returns the bytes and each buffer's offset.
func buildPAC(bufs []pacBuf) ([]byte, []int) {
	hdr := 8 + 16*len(bufs)
	off := (hdr + 7) &^ 7
	offs := make([]int, len(bufs))
	total := off
	for i, bf := range bufs {
		offs[i] = total
		total += (len(bf.data) + 7) &^ 7
	}
	b := make([]byte, total)
	binary.LittleEndian.PutUint32(b[0:], uint32(len(bufs)))
	for i, bf := range bufs {
		e := b[8+16*i:]
		binary.LittleEndian.PutUint32(e[0:], bf.ty)
		binary.LittleEndian.PutUint32(e[4:], uint32(len(bf.data)))
		binary.LittleEndian.PutUint64(e[8:], uint64(offs[i]))
		copy(b[offs[i]:], bf.data)
	}
	return b, offs
}

var pacSigTypes = []uint32{4294967158, 15, 16, 19, 20}

func pacSigLen(ty uint32) int {
	switch ty {
	case 4294967158:
		return 16
	case 15, 16:
		return 12
	case 19:
		return 16
	case 20:
		return 24
	}
	return 0
}

func pacSigEtype(ty uint32) int32 {
	switch ty {
	case 4294967158:
		return 23
	case 15:
		return 17
	case 16:
		return 18
	case 19:
		return 19
	case 20:
		return 20
	}
	return 0
}

func sigBuf(ty uint32, rodc bool, rng *RNG) []byte {
	b := make([]byte, 4+pacSigLen(ty))
	binary.LittleEndian.PutUint32(b, ty)
	copy(b[4:], rng.Bytes(pacSigLen(ty)))
	if rodc {
		b = append(b, byte(rng.U64()), byte(rng.U64()))
	}
	return b
}

var discard = log.New(io.Discard, "", 0)

// goPacProcess runs Unmarshal + ProcessPACInfoBuffers and reports ok/err/panic plus the NDR verdicts
// (which KerbValidationInfo buffers the external decoder rejects) needed by the model.
func goPacProcess(data []byte, key types.EncryptionKey) (res string, p pac.PACType) {
	var err error
	if pn := Protect(func() {
		err = p.Unmarshal(data)
		if err == nil {
			err = p.ProcessPACInfoBuffers(key, discard)
		}
	}); pn != "" {
		return "panic " + pn, p
	}
	if err != nil {
		return "err", p
	}
	return "ok", p
}

func init() {
	sandboxHandlers["pac.process"] = func(a []string) string {
		if len(a) != 3 {
			return "bad-args"
		}
		var kt int32
		fmt.Sscan(a[0], &kt)
		data := UnX(a[2])
		res, _ := goPacProcess(data, types.EncryptionKey{KeyType: kt, KeyValue: UnX(a[1])})
		return strings.Fields(res)[0] + " " + kvBad(data)
	}
}

func kvBad(data []byte) string {
	var bad []string
	seen := map[string]bool{}
	func() {
		defer func() { recover() }()
		for _, bf := range splitPAC(data) {
			if bf.ty != 1 || seen[string(bf.data)] {
				continue
			}
			seen[string(bf.data)] = true
			var k pac.KerbValidationInfo
			var err error
			if pn := Protect(func() { err = k.Unmarshal(bf.data) }); pn != "" || err != nil {
				bad = append(bad, X(bf.data))
			}
		}
	}()
	return List(bad)
}

func samplePACs() map[string][]byte {
	out := map[string][]byte{}
	b, _ := hex.DecodeString(testdata.MarshaledPAC_AD_WIN2K_PAC)
	out["win2k"] = b
	for name, h := range map[string]string{"ms": testdata.MarshaledPAC_AuthorizationData_MS, "gokrb5": testdata.MarshaledPAC_AuthorizationData_GOKRB5} {
		ab, _ := hex.DecodeString(h)
		var ad types.AuthorizationData
		if err := ad.Unmarshal(ab); err == nil && len(ad) > 0 {
			d := ad[0].ADData
			if ad[0].ADType == 1 { // AD-IF-RELEVANT wrapper
				var in types.AuthorizationData
				if err := in.Unmarshal(d); err == nil && len(in) > 0 {
					d = in[0].ADData
				}
			}
			out[name] = d
		}
	}
	return out
}

// C19: a PAC is accepted only with a valid server signature and is reported faithfully.
func TestC19(t *testing.T) {
	workers := 8
	pool := StartPool(t, workers)
	defer pool.Close()
	m := pool.Get(0)
	v := NewVerdict("C19", "the sample PACs of test/testdata re-signed by the Lean issuer model under every supported signature type with PRNG keys: every single-bit flip of every byte (exhaustive), each buffer removed / duplicated, permuted buffer order, RODC identifier present/absent, wrong key, wrong declared type, corrupted table fields (count, offsets, sizes), overlapping signature buffers; Go accept/reject vs the property oracle and vs the Lean model of ProcessPACInfoBuffers; group-SID rule on PRNG validation infos and attribute comparison for the samples. distinct = (sample, sigtype, mutation kind)")
	rng := NewRNG(Seed())
	samples := samplePACs()
	names := make([]string, 0, len(samples))
	for n := range samples {
		names = append(names, n)
	}
	sort.Strings(names)
	for _, name := range names {
		orig := splitPAC(samples[name])
		for ti, sty := range pacSigTypes {
			for _, rodc := range []bool{false, true} {
				bufs := []pacBuf{}
				for _, bf := range orig {
					switch bf.ty {
					case 6:
						bufs = append(bufs, pacBuf{6, sigBuf(sty, rodc, rng)})
					case 7:
						bufs = append(bufs, pacBuf{7, sigBuf(pacSigTypes[(ti+1)%len(pacSigTypes)], false, rng)})
					default:
						bufs = append(bufs, bf)
					}
				}
				key := types.EncryptionKey{KeyType: pacSigEtype(sty), KeyValue: randKey(rng, pacSigEtype(sty))}
				exhaustive := Thorough() || (!rodc && (ti+int(Seed()))%len(pacSigTypes) == 0 && name == "win2k")
				c19Signed(pool, v, rng, name, bufs, key, sty, rodc, exhaustive)
				// the same PAC with the signature buffers newer KDCs add (16: ticket signature, 19: extended KDC
				// signature): for the server signature they are signed data like any other buffer, only 6 and 7 are zeroed
				if !rodc && (name == names[0] || ti == int(Seed())%len(pacSigTypes)) {
					extra := [][]uint32{{16}, {19}, {16, 19}}[(ti+len(name))%3]
					b2 := append([]pacBuf{}, bufs...)
					for j, ty := range extra {
						b2 = append(b2, pacBuf{ty, sigBuf(pacSigTypes[(ti+j)%len(pacSigTypes)], false, rng)})
					}
					c19Signed(pool, v, rng, fmt.Sprintf("%s+buf%v", name, extra), b2, key, sty, false, false)
				}
			}
		}
	}
	c19Groups(m, v, rng)
	c19Attrs(v, samples)
	c19TableOrder(m, v, rng, samples)
	v.ModelAsks = pool.Asked()
	v.Write(t)
}

func signPAC(m *Model, bufs []pacBuf, key types.EncryptionKey) ([]byte, []int, string) {
	data, offs := buildPAC(bufs)
	ans := m.Ask(fmt.Sprintf("pac.sign %s %s", X(key.KeyValue), X(data)))
	if !strings.HasPrefix(ans, "ok ") {
		return data, offs, ans
	}
	sig := UnX(ans[3:])
	for i, bf := range bufs {
		if bf.ty == 6 {
			copy(data[offs[i]+4:], sig)
			break
		}
	}
	return data, offs, ""
}

func c19Signed(pool *ModelPool, v *Verdict, rng *RNG, name string, bufs []pacBuf, key types.EncryptionKey, sty uint32, rodc bool, exhaustive bool) {
	m := pool.Get(0)
	data, offs, bad := signPAC(m, bufs, key)
	tag := fmt.Sprintf("%s/%d/rodc=%v", name, sty, rodc)
	if bad != "" {
		v.Violate("correspondence", "c19:model-sign", "kmodel could not sign a well-formed PAC: "+bad, map[string]string{"pac": X(data)})
		return
	}
	cmp := func(m *Model, kind string, d []byte, k types.EncryptionKey, want string) {
		sb := pool.Sandbox(m)
		ans := sb.Call(fmt.Sprintf("pac.process %d %s %s", k.KeyType, X(k.KeyValue), X(d)), 20*time.Second)
		g, kvb := ans, "-"
		if f := strings.Fields(ans); len(f) == 2 {
			g, kvb = f[0], f[1]
		}
		v.Case(tag+"/"+kind, kind)
		if strings.HasPrefix(g, "crash") || g == "timeout" {
			// resource exhaustion / hang inside the external NDR decoder: not an acceptance, so not a
			// C19 matter; it is reported under C04. Counted here for the record.
			v.Case("", "sandbox "+g)
			if want == "ok" {
				v.Violate("failing-input", "c19:"+kind+":crash", "a genuinely signed PAC crashes the process", map[string]string{"pac": X(d), "sandbox": g})
			}
			return
		}
		det := map[string]string{"pac": X(d), "key": X(k.KeyValue), "keytype": itoa(k.KeyType), "go": g, "sample": name, "orig": X(data)}
		if strings.HasPrefix(g, "panic") {
			v.Violate("failing-input", "c19:panic:"+kind, "PAC processing panicked", det)
			return
		}
		if want != "" && g != want {
			what := "a genuinely signed PAC is rejected"
			if want == "err" {
				what = "a PAC whose signed data, signature, key or declared type was changed is accepted"
			}
			v.Violate("failing-input", "c19:"+kind+":"+want, what, det)
			return
		}
		mo := m.Ask(fmt.Sprintf("pac.process %s %s %s", X(k.KeyValue), X(d), kvb))
		mc := mo
		if strings.HasPrefix(mc, "err") {
			mc = "err"
		}
		if mc != g {
			det["model"] = mo
			v.Violate("correspondence", "c19:model:"+kind, "ProcessPACInfoBuffers and its Lean model disagree", det)
		}
	}
	cmp(m, "genuine", data, key, "ok")
	if name == "win2k" && sty == 15 {
		v.Sample(fmt.Sprintf("pac.process key=%s pac=%s -> ok", X(key.KeyValue), X(data)))
	}
	// wrong key / key bit flip
	cmp(m, "wrong-key", data, types.EncryptionKey{KeyType: key.KeyType, KeyValue: randKey(rng, key.KeyType)}, "err")
	// wrong declared type: every other supported type written into the server signature buffer
	for i, bf := range bufs {
		if bf.ty != 6 {
			continue
		}
		for _, other := range append([]uint32{12, 0, 7, 17}, pacSigTypes...) {
			if other == sty {
				continue
			}
			d := append([]byte{}, data...)
			binary.LittleEndian.PutUint32(d[offs[i]:], other)
			cmp(m, "wrong-declared-type", d, key, "err")
		}
	}
	// the declared type stays, but the signature is made with the checksum of another family that has the
	// same signature length (15 <-> 16) under a key of that family: the declared type decides, so this is
	// not a valid signature
	if sty == 15 || sty == 16 {
		oet := int32(18)
		if sty == 16 {
			oet = 17
		}
		okey := types.EncryptionKey{KeyType: oet, KeyValue: randKey(rng, oet)}
		zeroed := append([]byte{}, data...)
		var at int
		for i, bf := range bufs {
			if bf.ty == 6 || bf.ty == 7 {
				for j := offs[i] + 4; j < offs[i]+4+pacSigLen(sty) && j < len(zeroed); j++ {
					zeroed[j] = 0
				}
				if bf.ty == 6 {
					at = offs[i] + 4
				}
			}
		}
		ans := m.Ask(fmt.Sprintf("cr.cksum %d %s 17 %s", oet, X(okey.KeyValue), X(zeroed)))
		if strings.HasPrefix(ans, "ok ") && at > 0 {
			d := append([]byte{}, data...)
			copy(d[at:at+12], UnX(ans[3:]))
			cmp(m, "other-family-signature-under-declared-type", d, okey, "err")
		}
	}
	// each buffer removed / duplicated; order permuted (re-signed where the PAC stays well-formed)
	for i := range bufs {
		rm := append(append([]pacBuf{}, bufs[:i]...), bufs[i+1:]...)
		d, _, _ := signPAC(m, rm, key)
		want := ""
		switch bufs[i].ty {
		case 1, 6, 7, 10:
			want = "err"
		default:
			want = "ok"
		}
		cmp(m, fmt.Sprintf("removed-type-%d", bufs[i].ty), d, key, want)
		dup := append(append([]pacBuf{}, bufs...), pacBuf{bufs[i].ty, append([]byte{}, bufs[i].data...)})
		if bufs[i].ty == 6 || bufs[i].ty == 7 {
			dup[len(dup)-1].data = sigBuf(15, false, rng) // a second, different signature buffer: the first one counts
		}
		d2, _, _ := signPAC(m, dup, key)
		cmp(m, fmt.Sprintf("duplicated-type-%d", bufs[i].ty), d2, key, "ok")
	}
	for k := 0; k < 4; k++ {
		perm := append([]pacBuf{}, bufs...)
		for i := len(perm) - 1; i > 0; i-- {
			j := rng.Intn(i + 1)
			perm[i], perm[j] = perm[j], perm[i]
		}
		d, _, _ := signPAC(m, perm, key)
		cmp(m, "permuted", d, key, "ok")
	}
	// table corruptions: count, offsets, sizes (oracle: must not panic; model must agree)
	for k := 0; k < 40; k++ {
		d := append([]byte{}, data...)
		kind := ""
		e := 8 + 16*rng.Intn(len(bufs))
		switch rng.Intn(5) {
		case 0:
			binary.LittleEndian.PutUint32(d[0:], uint32(rng.Pick(0, 1, len(bufs)-1, len(bufs)+1, 255, 1<<16, 1<<28, 1<<31, -1)))
			kind = "count"
		case 1:
			binary.LittleEndian.PutUint64(d[e+8:], uint64(rng.Pick(0, 1, 8, len(d)-1, len(d), len(d)+1, 1<<31, -1, -8)))
			kind = "offset"
		case 2:
			binary.LittleEndian.PutUint32(d[e+4:], uint32(rng.Pick(0, 1, 3, 4, 5, 15, 16, len(d), len(d)+1, 1<<31, -1)))
			kind = "size"
		case 3:
			// overlap: point the KDC signature buffer at the server signature buffer's bytes (+/- a few)
			var so, ko = -1, -1
			for i, bf := range bufs {
				if bf.ty == 6 {
					so = i
				}
				if bf.ty == 7 {
					ko = i
				}
			}
			if so >= 0 && ko >= 0 {
				binary.LittleEndian.PutUint64(d[8+16*ko+8:], uint64(offs[so]+rng.Pick(0, 2, 4, -4, 8)))
			}
			kind = "overlap"
		case 4:
			binary.LittleEndian.PutUint32(d[e:], uint32(rng.Pick(0, 1, 2, 6, 7, 10, 11, 12, 13, 14, 15, 16, 99)))
			kind = "type"
		}
		cmp(m, "table-"+kind, d, key, "")
	}
	d := data[:rng.Intn(len(data))]
	cmp(m, "truncated", d, key, "")
	if !exhaustive {
		// a PRNG sample of bit flips
		for k := 0; k < 200; k++ {
			i := rng.Intn(len(data) * 8)
			c19Flip(m, v, cmp, data, bufs, offs, key, i)
		}
		return
	}
	// every single-bit flip of every byte, spread over the model workers
	type job struct{ lo, hi int }
	done := make(chan bool)
	nw := len(pool.ms)
	total := len(data) * 8
	for w := 0; w < nw; w++ {
		go func(w int) {
			mw := pool.Get(w)
			cmpw := func(_ *Model, kind string, d []byte, k types.EncryptionKey, want string) { cmp(mw, kind, d, k, want) }
			for i := w; i < total; i += nw {
				c19Flip(mw, v, cmpw, data, bufs, offs, key, i)
			}
			done <- true
		}(w)
	}
	for w := 0; w < nw; w++ {
		<-done
	}
}

// c19Flip flips bit i. Oracle: a flip anywhere in the signed data or in the server signature must be
// rejected; flips inside the KDC signature bytes, in alignment padding or in the version / unused
// header bytes are not covered by "signed data"... they ARE part of the signed PAC bytes except the two
// zeroed signature fields, so only flips inside the KDC signature field may be accepted.
func c19Flip(m *Model, v *Verdict, cmp func(*Model, string, []byte, types.EncryptionKey, string), data []byte, bufs []pacBuf, offs []int, key types.EncryptionKey, i int) {
	d := append([]byte{}, data...)
	d[i/8] ^= 1 << uint(i%8)
	want := "err"
	for bi, bf := range bufs {
		if bf.ty == 7 {
			kty := binary.LittleEndian.Uint32(bf.data)
			if i/8 >= offs[bi]+4 && i/8 < offs[bi]+4+pacSigLen(kty) {
				want = "ok" // the KDC signature field is zeroed before the server checksum and is not verified
			}
			break
		}
	}
	cmp(m, "bitflip", d, key, want)
}

// c19TableOrder: a PAC that holds two logon-information buffers (the first entry of the buffer table counts, a
// later one of the same type is ignored), laid out so that the table order is the reverse of the order of the data:
// what is reported comes from the first table entry, wherever its octets lie.
func c19TableOrder(m *Model, v *Verdict, rng *RNG, samples map[string][]byte) {
	le32 := func(x uint32) []byte { b := make([]byte, 4); binary.LittleEndian.PutUint32(b, x); return b }
	names := make([]string, 0, len(samples))
	for n := range samples {
		names = append(names, n)
	}
	sort.Strings(names)
	for _, name := range names {
		orig := splitPAC(samples[name])
		sty := pacSigTypes[1+int(Seed())%(len(pacSigTypes)-1)]
		key := types.EncryptionKey{KeyType: pacSigEtype(sty), KeyValue: randKey(rng, pacSigEtype(sty))}
		var logon []byte
		var rest []pacBuf
		for _, bf := range orig {
			switch bf.ty {
			case 1:
				logon = bf.data
			case 6:
				rest = append(rest, pacBuf{6, sigBuf(sty, false, rng)})
			case 7:
				rest = append(rest, pacBuf{7, sigBuf(sty, false, rng)})
			default:
				rest = append(rest, bf)
			}
		}
		if logon == nil {
			continue
		}
		// the genuine user id, as the sample's own decoding gives it, and a copy of the buffer with another one
		probe, _, bad := signPAC(m, append([]pacBuf{{1, logon}}, rest...), key)
		if bad != "" {
			continue
		}
		r0, p0 := goPacProcess(probe, key)
		if r0 != "ok" || p0.KerbValidationInfo == nil {
			continue
		}
		uid := p0.KerbValidationInfo.UserID
		pat := append(le32(uid), le32(p0.KerbValidationInfo.PrimaryGroupID)...)
		at := bytes.Index(logon, pat)
		if at < 0 || bytes.Index(logon[at+1:], pat) >= 0 {
			continue
		}
		other := append([]byte{}, logon...)
		binary.LittleEndian.PutUint32(other[at:], uid+395)
		for _, reversed := range []bool{false, true} {
			// data order: [other, genuine, ...]; table order after the swap: [genuine, other, ...]
			bufs := append([]pacBuf{{1, other}, {1, logon}}, rest...)
			wantUID := uid + 395
			data, offs := buildPAC(bufs)
			if reversed {
				e0 := append([]byte{}, data[8:24]...)
				copy(data[8:24], data[24:40])
				copy(data[24:40], e0)
				wantUID = uid
			}
			ans := m.Ask(fmt.Sprintf("pac.sign %s %s", X(key.KeyValue), X(data)))
			if !strings.HasPrefix(ans, "ok ") {
				continue
			}
			for i, bf := range bufs {
				if bf.ty == 6 {
					copy(data[offs[i]+4:], UnX(ans[3:]))
					break
				}
			}
			res, p := goPacProcess(data, key)
			v.Case(fmt.Sprintf("table-order/%s/reversed=%v", name, reversed), "two logon-information buffers, table order vs data order")
			switch {
			case res != "ok" || p.KerbValidationInfo == nil:
				v.Violate("failing-input", "c19:table-order:rejected", "a correctly signed PAC with a second logon-information buffer is refused", map[string]string{"pac": X(data), "key": X(key.KeyValue), "keytype": itoa(key.KeyType), "go": res, "table-reversed": fmt.Sprint(reversed)})
			case p.KerbValidationInfo.UserID != wantUID:
				v.Violate("failing-input", "c19:table-order:attributes", "the attributes reported do not come from the first logon-information entry of the buffer table", map[string]string{"pac": X(data), "key": X(key.KeyValue), "keytype": itoa(key.KeyType), "reported-user-id": fmt.Sprint(p.KerbValidationInfo.UserID), "first-table-entry-user-id": fmt.Sprint(wantUID), "table-reversed": fmt.Sprint(reversed)})
			}
		}
	}
}

func c19Groups(m *Model, v *Verdict, rng *RNG) {
	sid := func(sub ...uint32) mstypes.RPCSID {
		return mstypes.RPCSID{Revision: 1, SubAuthorityCount: uint8(len(sub)), IdentifierAuthority: [6]byte{0, 0, 0, 0, 0, 5}, SubAuthority: sub}
	}
	tok := func(ss []string) string {
		x := make([]string, len(ss))
		for i, s := range ss {
			x[i] = XS(s)
		}
		return List(x)
	}
	for n := 0; n < 300; n++ {
		var k pac.KerbValidationInfo
		dom := sid(21, 1, 2, 3)
		k.LogonDomainID = dom
		var a, b, c []string
		for i := 0; i < rng.Intn(5); i++ {
			rid := uint32(500 + rng.Intn(4))
			k.GroupIDs = append(k.GroupIDs, mstypes.GroupMembership{RelativeID: rid})
			a = append(a, fmt.Sprintf("%s-%d", dom.String(), rid))
		}
		for i := 0; i < rng.Intn(4); i++ {
			s := sid(21, 1, 2, 3, uint32(500+rng.Intn(6)))
			if rng.Intn(3) == 0 {
				s = sid(18, uint32(rng.Intn(3)))
			}
			k.ExtraSIDs = append(k.ExtraSIDs, mstypes.KerbSidAndAttributes{SID: s})
			b = append(b, s.String())
		}
		res := sid(21, 1, 2, 3)
		if rng.Bool() {
			res = sid(21, 9, 9, 9)
		}
		k.ResourceGroupDomainSID = res
		for i := 0; i < rng.Intn(4); i++ {
			rid := uint32(500 + rng.Intn(6))
			k.ResourceGroupIDs = append(k.ResourceGroupIDs, mstypes.GroupMembership{RelativeID: rid})
			c = append(c, fmt.Sprintf("%s-%d", res.String(), rid))
		}
		// the user flags say which of the optional lists are filled in (MS-PAC 2.5: D = extra SIDs, H = resource groups)
		if len(b) > 0 {
			k.UserFlags |= 0x20
		}
		if len(c) > 0 {
			k.UserFlags |= 0x200
		}
		got := k.GetGroupMembershipSIDs()
		mo := m.Ask(fmt.Sprintf("pac.groups %s %s %s", tok(a), tok(b), tok(c)))
		v.Case(fmt.Sprintf("groups/%d/%d/%d", len(a), len(b), len(c)), "group SIDs")
		if mo != "ok "+tok(got) {
			v.Violate("correspondence", "c19:groups", "GetGroupMembershipSIDs and its Lean model disagree", map[string]string{"go": tok(got), "model": mo})
		}
		// oracle: every encoded SID is reported
		have := map[string]bool{}
		for _, s := range got {
			have[s] = true
		}
		for _, s := range append(append(append([]string{}, a...), b...), c...) {
			if !have[s] {
				v.Violate("failing-input", "c19:groups-missing", "a group SID encoded in the PAC is not reported", map[string]string{"sid": s, "go": tok(got)})
			}
		}
	}
}

// c19Attrs: every attribute the library reports for a sample must occur, in its wire encoding, inside
// the sample's KERB_VALIDATION_INFO buffer (an oracle that needs no NDR decoder): UTF-16LE strings,
// little-endian ids, (RID, attributes) pairs of the group array, the binary domain SID.
func c19Attrs(v *Verdict, samples map[string][]byte) {
	u16 := func(s string) []byte {
		var b []byte
		for _, r := range s {
			b = append(b, byte(r), byte(r>>8))
		}
		return b
	}
	le32 := func(x uint32) []byte { return []byte{byte(x), byte(x >> 8), byte(x >> 16), byte(x >> 24)} }
	for name, b := range samples {
		for _, bf := range splitPAC(b) {
			if bf.ty != 1 {
				continue
			}
			var k pac.KerbValidationInfo
			if err := k.Unmarshal(bf.data); err != nil {
				v.Violate("failing-input", "c19:attrs-decode:"+name, "sample KerbValidationInfo does not decode", nil)
				continue
			}
			check := func(what string, enc []byte) {
				v.Case("attrs/"+name+"/"+what, "attributes")
				if len(enc) > 0 && !strings.Contains(string(bf.data), string(enc)) {
					v.Violate("failing-input", "c19:attrs:"+name+":"+what, "a reported account attribute is not encoded in the PAC", map[string]string{"attr": what, "encoding": X(enc)})
				}
			}
			check("EffectiveName", u16(k.EffectiveName.Value))
			check("FullName", u16(k.FullName.Value))
			check("LogonServer", u16(k.LogonServer.Value))
			check("LogonDomainName", u16(k.LogonDomainName.Value))
			check("UserID+PrimaryGroupID", append(le32(k.UserID), le32(k.PrimaryGroupID)...))
			check("LogOnTime", append(le32(k.LogOnTime.LowDateTime), le32(k.LogOnTime.HighDateTime)...))
			for _, g := range k.GroupIDs {
				check(fmt.Sprintf("group-%d", g.RelativeID), append(le32(g.RelativeID), le32(g.Attributes)...))
			}
			var sid []byte
			sid = append(sid, k.LogonDomainID.Revision, k.LogonDomainID.SubAuthorityCount)
			sid = append(sid, k.LogonDomainID.IdentifierAuthority[:]...)
			for _, s := range k.LogonDomainID.SubAuthority {
				sid = append(sid, le32(s)...)
			}
			check("LogonDomainID", sid)
			if int(k.GroupCount) != len(k.GroupIDs) {
				v.Violate("failing-input", "c19:attrs:"+name+":groupcount", "number of reported groups differs from the encoded GroupCount", nil)
			}
			// the SIDs handed to the application are domain SID + RID for each of them
			got := k.GetGroupMembershipSIDs()
			for i, g := range k.GroupIDs {
				want := fmt.Sprintf("%s-%d", k.LogonDomainID.String(), g.RelativeID)
				if i >= len(got) || got[i] != want {
					v.Violate("failing-input", "c19:attrs:"+name+":groupsid", "group SID is not domain SID + RID", map[string]string{"want": want})
				}
			}
		}
	}
}
