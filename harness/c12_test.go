package harness

import (
	"encoding/binary"
	"fmt"
	"io"
	"net"
	"os"
	"regexp"
	"strings"
	"sync"
	"sync/atomic"
	"testing"
	"time"

	"github.com/jcmturner/gokrb5/v8/client"
	"github.com/jcmturner/gokrb5/v8/config"
	"github.com/jcmturner/gokrb5/v8/iana/nametype"
	"github.com/jcmturner/gokrb5/v8/messages"
	"github.com/jcmturner/gokrb5/v8/types"
)

// ---- scripted loopback endpoints ----

var portCounter uint32

// reservePort finds a port below the kernel's ephemeral range that is free for both TCP and UDP.
func reservePort() (int, *net.TCPListener, *net.UDPConn) {
	for tries := 0; tries < 2000; tries++ {
		n := atomic.AddUint32(&portCounter, 1)
		port := 20000 + int((uint32(os.Getpid())*7919+n*13)%12000)
		l, err := net.ListenTCP("tcp", &net.TCPAddr{IP: net.IPv4(127, 0, 0, 1), Port: port})
		if err != nil {
			continue
		}
		u, err := net.ListenUDP("udp", &net.UDPAddr{IP: net.IPv4(127, 0, 0, 1), Port: port})
		if err != nil {
			l.Close()
			continue
		}
		return port, l, u
	}
	panic("no free port")
}

var c12CloseShape int64

type scriptedKDC struct {
	idx      int
	port     int
	tcpBeh   string // a r c s e<code>
	udpBeh   string
	l        *net.TCPListener
	u        *net.UDPConn
	stop     chan struct{}
	mu       sync.Mutex
	attempts *[]string // shared log: "t<idx>" / "u<idx>" in arrival order
	logMu    *sync.Mutex
	wg       sync.WaitGroup
}

func fakeReply(beh string, idx int, tcp bool, realm string) []byte {
	tr := "udp"
	if tcp {
		tr = "tcp"
	}
	if beh == "a" {
		// an AS-REP that identifies the endpoint in its cname (so that the caller's complaint about the
		// cname tells which endpoint's bytes reached it)
		rep := messages.ASRep{KDCRepFields: messages.KDCRepFields{
			PVNO: 5, MsgType: 11, CRealm: realm,
			CName:   types.PrincipalName{NameType: 1, NameString: []string{fmt.Sprintf("ep-%d-%s", idx, tr)}},
			Ticket:  messages.Ticket{TktVNO: 5, Realm: realm, SName: types.PrincipalName{NameType: 2, NameString: []string{"krbtgt", realm}}, EncPart: types.EncryptedData{EType: 18, KVNO: 1, Cipher: []byte{1, 2, 3}}},
			EncPart: types.EncryptedData{EType: 18, KVNO: 1, Cipher: []byte{4, 5, 6}},
		}}
		b, err := rep.Marshal()
		if err != nil {
			panic(err)
		}
		return b
	}
	var code int32
	fmt.Sscanf(beh, "e%d", &code)
	e := messages.NewKRBError(types.PrincipalName{NameType: 2, NameString: []string{"krbtgt", realm}}, realm, code, fmt.Sprintf("ep-%d-%s", idx, tr))
	b, err := e.Marshal()
	if err != nil {
		panic(err)
	}
	return b
}

func (k *scriptedKDC) log(s string) {
	k.logMu.Lock()
	*k.attempts = append(*k.attempts, s)
	k.logMu.Unlock()
}

func (k *scriptedKDC) serve(realm string) {
	if k.tcpBeh == "r" {
		k.l.Close()
		k.l = nil
	} else {
		k.wg.Add(1)
		go func() {
			defer k.wg.Done()
			for {
				c, err := k.l.AcceptTCP()
				if err != nil {
					return
				}
				k.log(fmt.Sprintf("t%d", k.idx))
				k.wg.Add(1)
				go func(c *net.TCPConn) {
					defer k.wg.Done()
					defer c.Close()
					hdr := make([]byte, 4)
					c.SetDeadline(time.Now().Add(8 * time.Second))
					if _, err := io.ReadFull(c, hdr); err != nil {
						return
					}
					req := make([]byte, binary.BigEndian.Uint32(hdr))
					io.ReadFull(c, req)
					switch k.tcpBeh {
					case "c":
						// closing early comes in several shapes: before anything, inside the length prefix,
						// after announcing an empty reply, inside the announced body
						rb := fakeReply("a", k.idx, true, realm)
						switch atomic.AddInt64(&c12CloseShape, 1) % 4 {
						case 1:
							c.Write([]byte{0, 0})
						case 2:
							c.Write([]byte{0, 0, 0, 0})
						case 3:
							out := make([]byte, 4, 4+len(rb))
							binary.BigEndian.PutUint32(out, uint32(len(rb)))
							c.Write(append(out, rb[:len(rb)/2]...))
						}
						return
					case "s":
						select {
						case <-k.stop:
						case <-time.After(7 * time.Second):
						}
						return
					default:
						rb := fakeReply(k.tcpBeh, k.idx, true, realm)
						out := make([]byte, 4+len(rb))
						binary.BigEndian.PutUint32(out, uint32(len(rb)))
						copy(out[4:], rb)
						c.Write(out)
					}
				}(c)
			}
		}()
	}
	if k.udpBeh == "r" {
		k.u.Close()
		k.u = nil
	} else {
		k.wg.Add(1)
		go func() {
			defer k.wg.Done()
			buf := make([]byte, 65536)
			for {
				n, addr, err := k.u.ReadFromUDP(buf)
				if err != nil {
					return
				}
				_ = n
				k.log(fmt.Sprintf("u%d", k.idx))
				switch k.udpBeh {
				case "c":
					k.u.WriteToUDP([]byte{}, addr) // an empty datagram: "no response data"
				case "s":
				default:
					k.u.WriteToUDP(fakeReply(k.udpBeh, k.idx, false, realm), addr)
				}
			}
		}()
	}
}

func (k *scriptedKDC) close() {
	close(k.stop)
	if k.l != nil {
		k.l.Close()
	}
	if k.u != nil {
		k.u.Close()
	}
	k.wg.Wait()
}

var reKRBErr = regexp.MustCompile(`KRB Error: \((\d+)\)`)
var reEP = regexp.MustCompile(`ep-(\d+)-(tcp|udp)`)

// c12Run runs one fault assignment against the real client and returns the observed result and the
// attempts log.
var c12DNS *verifDNS
var c12DNSRealms int64

// srv == "": the KDCs are listed in the configuration. Otherwise the realm has no kdc entries and
// dns_lookup_kdc = true: its KDCs are published as SRV records for the transports named in srv ("tcp", "udp",
// "tcp+udp"); a transport without a record has no servers.
func c12Run(tcpBeh, udpBeh []string, limit int, srv string) (res string, attempts []string, reqLen int) {
	realm := "Test.GoKrb5" // realm names are case sensitive: the configured name is looked up as it is written
	var logMu sync.Mutex
	var kdcs []*scriptedKDC
	conf := fmt.Sprintf("[libdefaults]\n default_realm = %s\n dns_lookup_kdc = false\n udp_preference_limit = %d\n[realms]\n %s = {\n", realm, limit, realm)
	// "conf…" modes: the KDCs are listed in the configuration, and the list also names a host that no longer
	// resolves ("stale"), or dns_lookup_kdc is on and DNS publishes SRV records for the realm that lead nowhere
	// ("dnsdead": servers listed in the configuration are the ones that are used)
	confMode := strings.HasPrefix(srv, "conf")
	if confMode {
		realm = fmt.Sprintf("Conf%d.VERIF", atomic.AddInt64(&c12DNSRealms, 1))
		conf = fmt.Sprintf("[libdefaults]\n default_realm = %s\n dns_lookup_kdc = %v\n udp_preference_limit = %d\n[realms]\n %s = {\n", realm, strings.Contains(srv, "dnsdead"), limit, realm)
		if strings.Contains(srv, "stale") {
			conf += "  kdc = retired-kdc.nowhere.verif:88\n  kdc = also-retired.nowhere.verif\n"
		}
		if strings.Contains(srv, "dnsdead") && c12DNS != nil {
			dead, dl, du := reservePort()
			dl.Close()
			du.Close()
			c12DNS.set("_kerberos._tcp."+realm+".", []int{dead})
			c12DNS.set("_kerberos._udp."+realm+".", []int{dead})
		}
		srv = ""
	}
	if srv != "" {
		realm = fmt.Sprintf("DNS%d.VERIF", atomic.AddInt64(&c12DNSRealms, 1))
		conf = fmt.Sprintf("[libdefaults]\n default_realm = %s\n dns_lookup_kdc = true\n udp_preference_limit = %d\n[realms]\n OTHER.REALM = {\n", realm, limit)
	}
	var ports []int
	for i := range tcpBeh {
		port, l, u := reservePort()
		k := &scriptedKDC{idx: i, port: port, tcpBeh: tcpBeh[i], udpBeh: udpBeh[i], l: l, u: u, stop: make(chan struct{}), attempts: &attempts, logMu: &logMu}
		k.serve(realm)
		kdcs = append(kdcs, k)
		ports = append(ports, port)
		if srv == "" {
			conf += fmt.Sprintf("  kdc = 127.0.0.1:%d\n", port)
		}
	}
	conf += " }\n"
	if srv != "" {
		if c12DNS == nil {
			return "config-error no DNS server", nil, 0
		}
		recs := ports
		if strings.Contains(srv, "hole") {
			// a "not available" record (target ".", port 0) with a priority between the first KDC's and the others'
			// (or before the only one): the servers after it are still servers of the realm
			recs = nil
			for i, p := range ports {
				if i == len(ports)-1 {
					recs = append(recs, (2*i+1)<<16)
				}
				recs = append(recs, (2*i+2)<<16|p)
			}
		}
		for _, tr := range []string{"tcp", "udp"} {
			if strings.Contains(srv, tr) {
				c12DNS.set("_kerberos._"+tr+"."+realm+".", recs)
			}
		}
	}
	defer func() {
		for _, k := range kdcs {
			k.close()
		}
	}()
	cfg, err := config.NewFromString(conf)
	if err != nil {
		return "config-error " + err.Error(), nil, 0
	}
	cl := client.NewWithPassword("testuser1", realm, "passwordvalue", cfg, client.DisablePAFXFAST(true))
	asReq, err := messages.NewASReqForTGT(realm, cfg, types.NewPrincipalName(nametype.KRB_NT_PRINCIPAL, "testuser1"))
	if err != nil {
		return "asreq-error " + err.Error(), nil, 0
	}
	rb, _ := asReq.Marshal()
	reqLen = len(rb)
	var xerr error
	cfgBefore, _ := cfg.JSON()
	if p := Protect(func() { _, xerr = cl.ASExchange(realm, asReq, 0) }); p != "" {
		return "panic " + p, attempts, reqLen
	}
	if cfgAfter, _ := cfg.JSON(); cfgAfter != cfgBefore {
		// (the configuration belongs to the caller and may be shared: an exchange reads it)
		return "other the exchange changed the configuration it was given: before " + cut(cfgBefore, 400) + " after " + cut(cfgAfter, 400), attempts, reqLen
	}
	logMu.Lock()
	attempts = append([]string{}, attempts...)
	logMu.Unlock()
	if xerr == nil {
		return "accepted", attempts, reqLen
	}
	s := xerr.Error()
	switch {
	case strings.Contains(s, "CName in response does not match"):
		m := reEP.FindStringSubmatch(s)
		if m != nil {
			return fmt.Sprintf("ok %s %s", m[1], m[2]), attempts, reqLen
		}
		return "ok ? " + s, attempts, reqLen
	case strings.Contains(s, "Networking_Error"):
		// (the text of a communication error may quote an earlier response-too-big KRB-ERROR)
		return "commerr", attempts, reqLen
	case strings.Contains(s, "KDC_Error") && reKRBErr.MatchString(s):
		return "krberr " + reKRBErr.FindStringSubmatch(s)[1], attempts, reqLen
	case strings.Contains(s, "failed to process the AS_REP"):
		return "emptyok", attempts, reqLen
	}
	return "other " + s, attempts, reqLen
}

// C12: KDC exchange succeeds whenever some configured KDC and transport works.
func TestC12(t *testing.T) {
	m := StartModel(t)
	defer m.Close()
	v := NewVerdict("C12", "every assignment of a behaviour from {answers, refuses, closes early, silent, KRB-ERROR(6), response-too-big(52)} to each (KDC, transport) endpoint for 1 KDC (exhaustive, 36 x 3 limits); a PRNG sample for 2 and 3 KDCs (at most one silent endpoint per case in the quick tier; all 6^4 assignments for 2 KDCs in thorough); udp_preference_limit in {1, smaller than the request, larger than the request}; real loopback endpoints, real client AS exchange. Observed: result class, KDC error code, which endpoint's bytes reached the caller, attempts per endpoint. distinct = (assignment, limit)")
	rng := NewRNG(Seed())
	behs := []string{"a", "r", "c", "s", "e6", "e52"}
	type cse struct {
		tcp, udp []string
		limit    int
		srv      string
	}
	var cases []cse
	limits := []int{1, 10, 1465}
	for _, tb := range behs {
		for _, ub := range behs {
			for _, l := range limits {
				cases = append(cases, cse{tcp: []string{tb}, udp: []string{ub}, limit: l})
			}
		}
	}
	// udp_preference_limit = 0: every request is larger, TCP is tried first and UDP is still permitted
	for _, tb := range behs {
		for _, ub := range behs {
			cases = append(cases, cse{tcp: []string{tb}, udp: []string{ub}, limit: 0})
		}
	}
	cases = append(cases, cse{tcp: []string{"r", "c"}, udp: []string{"r", "a"}, limit: 0}, cse{tcp: []string{"c", "r", "r"}, udp: []string{"c", "c", "a"}, limit: 0}, cse{tcp: []string{"r", "a"}, udp: []string{"a", "r"}, limit: 0})
	countSilent := func(c cse) int {
		n := 0
		for _, b := range append(append([]string{}, c.tcp...), c.udp...) {
			if b == "s" {
				n++
			}
		}
		return n
	}
	if Thorough() {
		for a := 0; a < 6*6*6*6; a++ {
			c := cse{tcp: []string{behs[a%6], behs[a/6%6]}, udp: []string{behs[a/36%6], behs[a/216%6]}, limit: limits[a%3]}
			if countSilent(c) <= 2 {
				cases = append(cases, c)
			}
		}
	}
	n23 := 70
	if Thorough() {
		n23 = 600
	}
	for i := 0; i < n23; i++ {
		nk := 2 + rng.Intn(2)
		var c cse
		for {
			c = cse{limit: limits[rng.Intn(3)]}
			for k := 0; k < nk; k++ {
				c.tcp = append(c.tcp, behs[rng.Intn(6)])
				c.udp = append(c.udp, behs[rng.Intn(6)])
			}
			if countSilent(c) <= 1 {
				break
			}
		}
		cases = append(cases, c)
	}
	// directed: the property's positive clause — exactly one working endpoint, everything else down
	for _, l := range limits {
		for _, down := range []string{"r", "c"} {
			for pos := 0; pos < 6; pos++ {
				c := cse{limit: l}
				for k := 0; k < 3; k++ {
					c.tcp = append(c.tcp, down)
					c.udp = append(c.udp, down)
				}
				if pos < 3 {
					c.tcp[pos] = "a"
				} else {
					c.udp[pos-3] = "a"
				}
				cases = append(cases, c)
			}
		}
	}
	// realms whose KDCs are located through DNS SRV records, published for one transport only or for both
	if d, err := startVerifDNS(); err == nil {
		c12DNS = d
		defer func() { c12DNS = nil; d.close() }()
		if _, addrs, e := net.LookupSRV("kerberos", "tcp", "SELFTEST.VERIF"); e == nil || len(addrs) != 0 {
			v.Note("DNS cases: the resolver does not reach the harness's server, left out")
		} else {
			for _, srv := range []string{"tcp", "udp", "tcp+udp", "tcp+udp+hole", "conf+stale", "conf+dnsdead", "conf+stale+dnsdead"} {
				for _, l := range []int{1, 10, 1465} {
					cases = append(cases, cse{tcp: []string{"a"}, udp: []string{"a"}, limit: l, srv: srv},
						cse{tcp: []string{"r", "a"}, udp: []string{"a", "c"}, limit: l, srv: srv},
						cse{tcp: []string{"a", "e6"}, udp: []string{"r", "a"}, limit: l, srv: srv})
				}
			}
		}
	} else {
		v.Note("DNS cases: no loopback DNS server (" + err.Error() + "), left out")
	}
	var wg sync.WaitGroup
	sem := make(chan struct{}, 24)
	for _, c := range cases {
		wg.Add(1)
		sem <- struct{}{}
		go func(c cse) {
			defer wg.Done()
			defer func() { <-sem }()
			c12CaseSRV(m, v, c.tcp, c.udp, c.limit, c.srv)
		}(c)
	}
	wg.Wait()
	v.ModelAsks = m.N
	v.Write(t)
}

func c12Case(m *Model, v *Verdict, tcp, udp []string, limit int) {
	c12CaseSRV(m, v, tcp, udp, limit, "")
}

func c12CaseSRV(m *Model, v *Verdict, tcp, udp []string, limit int, srv string) {
	res, attempts, reqLen := c12Run(tcp, udp, limit, srv)
	desc := fmt.Sprintf("limit=%d tcp=%s udp=%s", limit, strings.Join(tcp, ","), strings.Join(udp, ","))
	if strings.HasPrefix(srv, "conf") {
		desc += " kdcs-listed," + srv
	} else if srv != "" {
		// a transport for which the realm publishes no SRV record has no servers: for the model and the oracle that
		// is a transport whose every endpoint refuses (nothing is contacted, the transport fails)
		desc += " kdcs-from-dns-srv=" + srv
		eff := func(beh []string, tr string) []string {
			if strings.Contains(srv, tr) {
				return beh
			}
			out := make([]string, len(beh))
			for i := range out {
				out[i] = "r"
			}
			return out
		}
		tcp, udp = eff(tcp, "tcp"), eff(udp, "udp")
	}
	v.Case(desc, fmt.Sprintf("%d KDC limit=%d -> %s", len(tcp), limit, strings.Fields(res)[0]))
	det := map[string]string{"case": desc, "go": res, "attempts": strings.Join(attempts, ","), "reqlen": itoa(reqLen)}
	// walk orders as observed (endpoints that refuse leave no trace: they are appended; their position does
	// not influence the result)
	order := func(prefix string, beh []string) []string {
		var o []string
		seen := map[string]bool{}
		for _, a := range attempts {
			if strings.HasPrefix(a, prefix) && !seen[a[1:]] {
				seen[a[1:]] = true
				o = append(o, a[1:])
			}
		}
		for i := range beh {
			if !seen[itoa(i)] && beh[i] == "r" {
				seen[itoa(i)] = true
				o = append(o, itoa(i))
			}
		}
		for i := range beh {
			if !seen[itoa(i)] {
				o = append(o, itoa(i))
			}
		}
		return o
	}
	otcp, oudp := order("t", tcp), order("u", udp)
	op := fmt.Sprintf("net.send %d %d %s %s %s %s", limit, reqLen, List(otcp), List(oudp), List(tcp), List(udp))
	mo := m.Ask(op)
	det["op"], det["model"] = op, mo
	// ---- property oracle (independent of the model)
	permittedUDP := limit != 1
	working := false
	allOthersDown := true
	for i := range tcp {
		if tcp[i] == "a" {
			working = true
		} else if tcp[i] != "r" && tcp[i] != "c" && tcp[i] != "s" {
			allOthersDown = false
		}
		if permittedUDP {
			if udp[i] == "a" {
				working = true
			} else if udp[i] != "r" && udp[i] != "c" && udp[i] != "s" {
				allOthersDown = false
			}
		}
	}
	if strings.HasPrefix(res, "panic") || strings.HasPrefix(res, "other") || res == "emptyok" || res == "accepted" {
		v.Violate("failing-input", "c12:bad-result:"+strings.Fields(res)[0]+":"+sigOf(tcp, udp, limit), "the exchange neither returned a KDC answer nor a KDC error nor a communication error", det)
		return
	}
	if working && allOthersDown && !strings.HasPrefix(res, "ok ") {
		v.Violate("failing-input", "c12:working-endpoint-not-used:"+sigOf(tcp, udp, limit), "a configured KDC answers correctly over a permitted transport and every other endpoint only refuses, closes or is silent, yet the exchange fails", det)
		return
	}
	if strings.HasPrefix(res, "ok ") {
		f := strings.Fields(res)
		var idx int
		fmt.Sscan(f[1], &idx)
		beh := tcp
		if f[2] == "udp" {
			beh = udp
		}
		if idx >= len(beh) || beh[idx] != "a" {
			v.Violate("failing-input", "c12:answer-from-nowhere", "the caller received an answer no answering endpoint sent", det)
			return
		}
	}
	// attempts bounded: each endpoint at most once per transport
	cnt := map[string]int{}
	for _, a := range attempts {
		cnt[a]++
		if cnt[a] > 1 {
			v.Violate("failing-input", "c12:endpoint-contacted-twice", "an endpoint was contacted more than once in one exchange", det)
			return
		}
	}
	// ---- correspondence with the model: result and contacted endpoints (refusing ones leave no trace)
	mf := strings.Fields(mo)
	if len(mf) < 3 {
		v.Violate("correspondence", "c12:model-bad-op", "kmodel refused a request", det)
		return
	}
	mres := strings.Join(mf[:len(mf)-2], " ")
	if mres != res {
		v.Violate("correspondence", "c12:model-result:"+sigOf(tcp, udp, limit), "sendToKDC and its Lean model disagree on the result", det)
		return
	}
	filter := func(list string, beh []string, prefix string) string {
		var o []string
		list = strings.SplitN(list, "=", 2)[1]
		if list == "-" {
			return ""
		}
		for _, x := range strings.Split(list, ",") {
			var i int
			fmt.Sscan(x, &i)
			if beh[i] != "r" {
				o = append(o, prefix+x)
			}
		}
		return strings.Join(o, ",")
	}
	wantT, wantU := filter(mf[len(mf)-2], tcp, "t"), filter(mf[len(mf)-1], udp, "u")
	var gotT, gotU []string
	for _, a := range attempts {
		if a[0] == 't' {
			gotT = append(gotT, a)
		} else {
			gotU = append(gotU, a)
		}
	}
	if strings.Join(gotT, ",") != wantT || strings.Join(gotU, ",") != wantU {
		det["want_attempts"] = wantT + " | " + wantU
		v.Violate("correspondence", "c12:model-attempts:"+sigOf(tcp, udp, limit), "sendToKDC and its Lean model disagree on which endpoints are contacted", det)
	}
	if len(tcp) == 1 && tcp[0] == "r" && udp[0] == "a" && limit == 10 {
		v.Sample(op + " -> " + mo + " | go: " + res)
	}
}

func sigOf(tcp, udp []string, limit int) string {
	return sigOfSRV(tcp, udp, limit)
}

func sigOfSRV(tcp, udp []string, limit int) string {
	lim := "lt"
	if limit == 1 {
		lim = "1"
	} else if limit == 0 {
		lim = "0"
	} else if limit > 1000 {
		lim = "gt"
	}
	return fmt.Sprintf("limit-%s:tcp=%s:udp=%s", lim, strings.Join(tcp, ""), strings.Join(udp, ""))
}
