package harness

import (
	"fmt"
	"strings"

	"github.com/jcmturner/gokrb5/v8/crypto"
	"github.com/jcmturner/gokrb5/v8/crypto/etype"
	"github.com/jcmturner/gokrb5/v8/types"
)

var allEtypes = []int32{16, 17, 18, 19, 20, 23}

// specKeyLen is the protocol key length the RFCs prescribe (not read from the code under test).
func specKeyLen(et int32) int {
	switch et {
	case 16:
		return 24
	case 17, 19, 23:
		return 16
	case 18, 20:
		return 32
	}
	return 0
}

func specConfLen(et int32) int {
	if et == 16 || et == 23 {
		return 8
	}
	return 16
}

func specMacLen(et int32) int {
	switch et {
	case 16:
		return 20
	case 17, 18:
		return 12
	case 19:
		return 16
	case 20:
		return 24
	case 23:
		return 16
	}
	return 0
}

// usageSet: every key usage the library itself uses (iana/keyusage 1..25, GSS 22..25 are included,
// kpasswd/KRB-PRIV 13, PA-FOR-USER 27?) plus the boundary usages named by the property.
var usageSet = []uint32{1, 2, 3, 4, 5, 6, 7, 8, 9, 10, 11, 12, 13, 14, 15, 16, 17, 18, 19, 20, 21, 22, 23, 24, 25, 26, 27, 41, 42, 43, 44, 45, 50, 51, 52, 53, 54, 55, 56, 127, 128, 255, 256, 1024, 1 << 31}

func rc4Alias(u uint32) uint32 {
	switch u {
	case 3, 9:
		return 8
	case 23:
		return 13
	}
	return u
}

func mustEtype(id int32) etype.EType {
	e, err := crypto.GetEtype(id)
	if err != nil {
		panic(err)
	}
	return e
}

// randKey returns a key usable with the etype: des3 keys get odd parity and avoid weak keys by
// going through the library-independent route of fixing parity here.
func randKey(r *RNG, et int32) []byte {
	k := r.Bytes(specKeyLen(et))
	if et == 16 {
		for i := range k {
			b := k[i] &^ 1
			ones := 0
			for j := 1; j < 8; j++ {
				if b&(1<<uint(j)) != 0 {
					ones++
				}
			}
			if ones%2 == 0 {
				b |= 1
			}
			k[i] = b
		}
	}
	return k
}

func goEncrypt(et int32, key, pt []byte, usage uint32) (ct []byte, err error, pan string) {
	pan = Protect(func() { _, ct, err = mustEtype(et).EncryptMessage(key, pt, usage) })
	return
}

// goDecrypt decrypts through the etype's method and through the two package-level entry points
// (crypto.DecryptMessage, crypto.DecryptEncPart), which must all give the same answer.
func goDecrypt(et int32, key, ct []byte, usage uint32) (pt []byte, err error, pan string) {
	pan = Protect(func() { pt, err = mustEtype(et).DecryptMessage(key, ct, usage) })
	if pan != "" {
		return
	}
	first := decRes(pt, err, "")
	var pt2, pt3 []byte
	var err2, err3 error
	k := types.EncryptionKey{KeyType: et, KeyValue: key}
	pan2 := Protect(func() { pt2, err2 = crypto.DecryptMessage(append([]byte{}, ct...), k, usage) })
	pan3 := Protect(func() {
		pt3, err3 = crypto.DecryptEncPart(types.EncryptedData{EType: et, KVNO: 1, Cipher: append([]byte{}, ct...)}, k, usage)
	})
	// an error comes with no plaintext at all: not a byte of what was decrypted on the way to the failure
	for i, x := range []struct {
		pt  []byte
		err error
	}{{pt, err}, {pt2, err2}, {pt3, err3}} {
		if x.err != nil && len(x.pt) > 0 {
			return nil, nil, fmt.Sprintf("DISAGREE entry point %d returns %d octets together with the error %v", i, len(x.pt), x.err)
		}
	}
	// the key's own type decides how it is used: the same octets labelled as a key of another etype (of the same
	// key size) open nothing, whatever etype the message header names
	if err == nil {
		for _, other := range allEtypes {
			if other == et || specKeyLen(other) != len(key) {
				continue
			}
			var ptx []byte
			var errx error
			ko := types.EncryptionKey{KeyType: other, KeyValue: key}
			panx := Protect(func() {
				ptx, errx = crypto.DecryptEncPart(types.EncryptedData{EType: et, KVNO: 1, Cipher: append([]byte{}, ct...)}, ko, usage)
			})
			if panx == "" && errx == nil {
				return nil, nil, fmt.Sprintf("DISAGREE a key labelled etype %d opens a message of etype %d through crypto.DecryptEncPart (%d octets)", other, et, len(ptx))
			}
		}
	}
	if r2, r3 := decRes(pt2, err2, pan2), decRes(pt3, err3, pan3); r2 != first || r3 != first {
		return nil, nil, fmt.Sprintf("DISAGREE etype method: %s, crypto.DecryptMessage: %s, crypto.DecryptEncPart: %s", cut(first, 40), cut(r2, 40), cut(r3, 40))
	}
	return
}

func decRes(pt []byte, err error, pan string) string {
	if strings.HasPrefix(pan, "DISAGREE") {
		return "entry-points-disagree"
	}
	if pan != "" {
		return "panic"
	}
	if err != nil {
		return "none"
	}
	return "ok " + X(pt)
}

func des3Padded(et int32, pt []byte) []byte {
	if et != 16 {
		return pt
	}
	total := 8 + len(pt)
	if total%8 == 0 {
		return pt
	}
	out := append([]byte{}, pt...)
	return append(out, make([]byte, 8-total%8)...)
}

func sel(i int, xs []uint32) uint32 { return xs[i%len(xs)] }

func itoa(i interface{}) string { return fmt.Sprint(i) }
