package harness

import (
	"fmt"
	"os"
	"os/exec"
	"reflect"
	"strings"
	"syscall"
	"testing"
	"time"

	"github.com/jcmturner/gofork/encoding/asn1"
	"github.com/jcmturner/gokrb5/v8/asn1tools"
	"github.com/jcmturner/gokrb5/v8/config"
	"github.com/jcmturner/gokrb5/v8/kadmin"
	"github.com/jcmturner/gokrb5/v8/messages"
	"github.com/jcmturner/gokrb5/v8/spnego"
	"github.com/jcmturner/gokrb5/v8/types"
)

// one message / structure type under test
type asn1Type struct {
	name      string // RFC type name known to kmodel
	gen       func(r *RNG) interface{}
	marshal   func(v interface{}) ([]byte, error)
	unmarshal func(b []byte) (interface{}, error) // nil = encode-only type
	render    func(v interface{}) string
	dirty     func(r *RNG, v interface{}) // "do something else to the object in between" (decrypt etc.)
}

func genTagged(proto interface{}) func(r *RNG) interface{} {
	return func(r *RNG) interface{} {
		p := reflect.New(reflect.TypeOf(proto))
		fillValue(r, p.Elem(), "", true)
		return p.Interface()
	}
}

func renderPtr(v interface{}) string { return renderVal(reflect.ValueOf(v).Elem()) }

func genTicket(r *RNG) messages.Ticket {
	var t messages.Ticket
	fillValue(r, reflect.ValueOf(&t).Elem(), "", true)
	t.DecryptedEncPart = messages.EncTicketPart{}
	return t
}

func genKDCReqBody(r *RNG) messages.KDCReqBody {
	var b messages.KDCReqBody
	fillValue(r, reflect.ValueOf(&b).Elem(), "", true)
	b.AdditionalTickets = nil
	for i := r.Intn(4); i > 0; i-- {
		b.AdditionalTickets = append(b.AdditionalTickets, genTicket(r))
	}
	return b
}

func renderKDCReq(pvno, msgType int, pa types.PADataSequence, body messages.KDCReqBody) string {
	p := "-"
	if len(pa) > 0 {
		p = renderVal(reflect.ValueOf(pa))
	}
	return fmt.Sprintf("(i%d i%d %s %s)", pvno, msgType, p, renderVal(reflect.ValueOf(body)))
}

func renderKDCRep(f messages.KDCRepFields) string {
	p := "-"
	if len(f.PAData) > 0 {
		p = renderVal(reflect.ValueOf(f.PAData))
	}
	return fmt.Sprintf("(i%d i%d %s %s %s %s %s)", f.PVNO, f.MsgType, p, renderVal(reflect.ValueOf(f.CRealm)), renderVal(reflect.ValueOf(f.CName)), renderVal(reflect.ValueOf(f.Ticket)), renderVal(reflect.ValueOf(f.EncPart)))
}

func genPAData(r *RNG) types.PADataSequence {
	var pa types.PADataSequence
	for i := r.Intn(3); i > 0; i-- {
		pa = append(pa, types.PAData{PADataType: int32(fillInt(r, 32)), PADataValue: r.Bytes(r.Intn(40))})
	}
	return pa
}

func genEncTicketPart(r *RNG) messages.EncTicketPart {
	var e messages.EncTicketPart
	fillValue(r, reflect.ValueOf(&e).Elem(), "", true)
	return e
}

func asn1Types() []asn1Type {
	return []asn1Type{
		{name: "Ticket",
			gen:       func(r *RNG) interface{} { t := genTicket(r); return &t },
			marshal:   func(v interface{}) ([]byte, error) { return v.(*messages.Ticket).Marshal() },
			unmarshal: func(b []byte) (interface{}, error) { var t messages.Ticket; err := t.Unmarshal(b); return &t, err },
			render:    renderPtr,
			dirty:     func(r *RNG, v interface{}) { v.(*messages.Ticket).DecryptedEncPart = genEncTicketPart(r) }},
		{name: "Authenticator",
			gen:       genTagged(types.Authenticator{}),
			marshal:   func(v interface{}) ([]byte, error) { return v.(*types.Authenticator).Marshal() },
			unmarshal: func(b []byte) (interface{}, error) { var t types.Authenticator; err := t.Unmarshal(b); return &t, err },
			render:    renderPtr},
		{name: "EncryptedData",
			gen:       genTagged(types.EncryptedData{}),
			marshal:   func(v interface{}) ([]byte, error) { return v.(*types.EncryptedData).Marshal() },
			unmarshal: func(b []byte) (interface{}, error) { var t types.EncryptedData; err := t.Unmarshal(b); return &t, err },
			render:    renderPtr},
		{name: "KDCReqBody",
			gen:       func(r *RNG) interface{} { b := genKDCReqBody(r); return &b },
			marshal:   func(v interface{}) ([]byte, error) { return v.(*messages.KDCReqBody).Marshal() },
			unmarshal: func(b []byte) (interface{}, error) { var t messages.KDCReqBody; err := t.Unmarshal(b); return &t, err },
			render:    renderPtr},
		{name: "ASReq",
			gen: func(r *RNG) interface{} {
				return &messages.ASReq{KDCReqFields: messages.KDCReqFields{PVNO: 5, MsgType: 10, PAData: genPAData(r), ReqBody: genKDCReqBody(r)}}
			},
			marshal:   func(v interface{}) ([]byte, error) { return v.(*messages.ASReq).Marshal() },
			unmarshal: func(b []byte) (interface{}, error) { var t messages.ASReq; err := t.Unmarshal(b); return &t, err },
			render: func(v interface{}) string {
				k := v.(*messages.ASReq)
				return renderKDCReq(k.PVNO, k.MsgType, k.PAData, k.ReqBody)
			}},
		{name: "TGSReq",
			gen: func(r *RNG) interface{} {
				return &messages.TGSReq{KDCReqFields: messages.KDCReqFields{PVNO: 5, MsgType: 12, PAData: genPAData(r), ReqBody: genKDCReqBody(r)}}
			},
			marshal:   func(v interface{}) ([]byte, error) { return v.(*messages.TGSReq).Marshal() },
			unmarshal: func(b []byte) (interface{}, error) { var t messages.TGSReq; err := t.Unmarshal(b); return &t, err },
			render: func(v interface{}) string {
				k := v.(*messages.TGSReq)
				return renderKDCReq(k.PVNO, k.MsgType, k.PAData, k.ReqBody)
			}},
		{name: "ASRep",
			gen: func(r *RNG) interface{} {
				var ed types.EncryptedData
				fillValue(r, reflect.ValueOf(&ed).Elem(), "", true)
				var cn types.PrincipalName
				fillValue(r, reflect.ValueOf(&cn).Elem(), "", true)
				return &messages.ASRep{KDCRepFields: messages.KDCRepFields{PVNO: 5, MsgType: 11, PAData: genPAData(r), CRealm: fillString(r), CName: cn, Ticket: genTicket(r), EncPart: ed}}
			},
			marshal:   func(v interface{}) ([]byte, error) { return v.(*messages.ASRep).Marshal() },
			unmarshal: func(b []byte) (interface{}, error) { var t messages.ASRep; err := t.Unmarshal(b); return &t, err },
			render:    func(v interface{}) string { return renderKDCRep(v.(*messages.ASRep).KDCRepFields) },
			dirty: func(r *RNG, v interface{}) {
				fillValue(r, reflect.ValueOf(&v.(*messages.ASRep).DecryptedEncPart).Elem(), "", true)
				v.(*messages.ASRep).Ticket.DecryptedEncPart = genEncTicketPart(r)
			}},
		{name: "TGSRep",
			gen: func(r *RNG) interface{} {
				var ed types.EncryptedData
				fillValue(r, reflect.ValueOf(&ed).Elem(), "", true)
				var cn types.PrincipalName
				fillValue(r, reflect.ValueOf(&cn).Elem(), "", true)
				return &messages.TGSRep{KDCRepFields: messages.KDCRepFields{PVNO: 5, MsgType: 13, PAData: genPAData(r), CRealm: fillString(r), CName: cn, Ticket: genTicket(r), EncPart: ed}}
			},
			marshal:   func(v interface{}) ([]byte, error) { return v.(*messages.TGSRep).Marshal() },
			unmarshal: func(b []byte) (interface{}, error) { var t messages.TGSRep; err := t.Unmarshal(b); return &t, err },
			render:    func(v interface{}) string { return renderKDCRep(v.(*messages.TGSRep).KDCRepFields) },
			dirty: func(r *RNG, v interface{}) {
				fillValue(r, reflect.ValueOf(&v.(*messages.TGSRep).DecryptedEncPart).Elem(), "", true)
			}},
		{name: "EncASRepPart",
			gen:     genTagged(messages.EncKDCRepPart{}),
			marshal: func(v interface{}) ([]byte, error) { return v.(*messages.EncKDCRepPart).Marshal() },
			unmarshal: func(b []byte) (interface{}, error) {
				var t messages.EncKDCRepPart
				err := t.Unmarshal(b)
				return &t, err
			},
			render: renderPtr},
		{name: "APReq",
			gen: func(r *RNG) interface{} {
				var a messages.APReq
				fillValue(r, reflect.ValueOf(&a).Elem(), "", true)
				a.Ticket = genTicket(r)
				a.Authenticator = types.Authenticator{}
				a.PVNO, a.MsgType = 5, 14
				return &a
			},
			marshal:   func(v interface{}) ([]byte, error) { return v.(*messages.APReq).Marshal() },
			unmarshal: func(b []byte) (interface{}, error) { var t messages.APReq; err := t.Unmarshal(b); return &t, err },
			render:    renderPtr,
			dirty: func(r *RNG, v interface{}) {
				fillValue(r, reflect.ValueOf(&v.(*messages.APReq).Authenticator).Elem(), "", true)
				v.(*messages.APReq).Ticket.DecryptedEncPart = genEncTicketPart(r)
			}},
		{name: "KRBError",
			gen: func(r *RNG) interface{} {
				k := genTagged(messages.KRBError{})(r).(*messages.KRBError)
				k.PVNO, k.MsgType = 5, 30
				return k
			},
			marshal:   func(v interface{}) ([]byte, error) { return v.(*messages.KRBError).Marshal() },
			unmarshal: func(b []byte) (interface{}, error) { var t messages.KRBError; err := t.Unmarshal(b); return &t, err },
			render:    renderPtr},
		{name: "KRBPriv",
			gen: func(r *RNG) interface{} {
				var k messages.KRBPriv
				fillValue(r, reflect.ValueOf(&k).Elem(), "", true)
				k.DecryptedEncPart = messages.EncKrbPrivPart{}
				k.PVNO, k.MsgType = 5, 21
				return &k
			},
			marshal:   func(v interface{}) ([]byte, error) { return v.(*messages.KRBPriv).Marshal() },
			unmarshal: func(b []byte) (interface{}, error) { var t messages.KRBPriv; err := t.Unmarshal(b); return &t, err },
			render:    renderPtr,
			dirty: func(r *RNG, v interface{}) {
				fillValue(r, reflect.ValueOf(&v.(*messages.KRBPriv).DecryptedEncPart).Elem(), "", true)
			}},
		{name: "ChangePasswdData",
			gen:     genTagged(kadmin.ChangePasswdData{}),
			marshal: func(v interface{}) ([]byte, error) { return v.(*kadmin.ChangePasswdData).Marshal() },
			render:  renderPtr},
		{name: "NegTokenInit",
			gen: func(r *RNG) interface{} {
				n := &spnego.NegTokenInit{}
				for i := 1 + r.Intn(3); i > 0; i-- {
					var o asn1.ObjectIdentifier
					fillValue(r, reflect.ValueOf(&o).Elem(), "", true)
					n.MechTypes = append(n.MechTypes, o)
				}
				if r.Bool() {
					n.ReqFlags = asn1.BitString{Bytes: []byte{byte(0x80 >> uint(r.Intn(7)))}, BitLength: 7}
				}
				if r.Bool() {
					n.MechTokenBytes = r.Bytes(1 + r.Intn(200))
				}
				if r.Intn(4) == 0 {
					n.MechListMIC = r.Bytes(1 + r.Intn(20))
				}
				return n
			},
			marshal: func(v interface{}) ([]byte, error) { return v.(*spnego.NegTokenInit).Marshal() },
			unmarshal: func(b []byte) (interface{}, error) {
				var t spnego.NegTokenInit
				err := t.Unmarshal(b)
				return &t, err
			},
			render: func(v interface{}) string {
				n := v.(*spnego.NegTokenInit)
				f := func(b []byte) string {
					if len(b) == 0 {
						return "-"
					}
					return X(b)
				}
				fl := "-"
				if n.ReqFlags.BitLength > 0 {
					fl = renderVal(reflect.ValueOf(n.ReqFlags))
				}
				return fmt.Sprintf("(%s %s %s %s)", renderVal(reflect.ValueOf(n.MechTypes)), fl, f(n.MechTokenBytes), f(n.MechListMIC))
			}},
		{name: "NegTokenResp",
			gen: func(r *RNG) interface{} {
				n := &spnego.NegTokenResp{NegState: asn1.Enumerated(r.Intn(4))}
				if r.Bool() {
					fillValue(r, reflect.ValueOf(&n.SupportedMech).Elem(), "", true)
				}
				if r.Bool() {
					n.ResponseToken = r.Bytes(1 + r.Intn(200))
				}
				if r.Intn(4) == 0 {
					n.MechListMIC = r.Bytes(1 + r.Intn(20))
				}
				return n
			},
			marshal: func(v interface{}) ([]byte, error) { return v.(*spnego.NegTokenResp).Marshal() },
			unmarshal: func(b []byte) (interface{}, error) {
				var t spnego.NegTokenResp
				err := t.Unmarshal(b)
				return &t, err
			},
			render: func(v interface{}) string {
				n := v.(*spnego.NegTokenResp)
				f := func(b []byte) string {
					if len(b) == 0 {
						return "-"
					}
					return X(b)
				}
				sm := "-"
				if len(n.SupportedMech) > 0 {
					sm = renderVal(reflect.ValueOf(n.SupportedMech))
				}
				return fmt.Sprintf("(i%d %s %s %s)", int(n.NegState), sm, f(n.ResponseToken), f(n.MechListMIC))
			}},
	}
}

// C13: Kerberos and SPNEGO messages survive encode/decode and match the RFC ASN.1.
func TestC13(t *testing.T) {
	m := StartModel(t)
	defer m.Close()
	v := NewVerdict("C13", "for every type in {Ticket, Authenticator, EncryptedData, AS-REQ, TGS-REQ, KDC-REQ-BODY with 0..3 additional tickets, AS-REP, TGS-REP, EncKDCRepPart, AP-REQ, KRB-ERROR, KRB-PRIV, ChangePasswdData, NegTokenInit, NegTokenResp}: PRNG field values (present/absent optionals, negative and 32/64-bit boundary integers, 0..3 name components, strings forcing 1-3 length octets, random flag bits): Go marshals -> the Lean RFC decoder returns the same field values -> the Lean RFC encoder reproduces the same bytes -> Go unmarshals to an equal value and re-marshals to the same bytes, also after the object was decrypted/modified in its Go-only fields; length-octet helpers for boundary and PRNG lengths (every n up to 2^24 in thorough); flag bit numbering; GSS/SPNEGO framing. distinct = (type, present-optional pattern)")
	rng := NewRNG(Seed())
	per := 120
	if Thorough() {
		per = 4000
	}
	for _, ty := range asn1Types() {
		for i := 0; i < per; i++ {
			c13Case(m, v, rng, ty, i)
		}
	}
	c13Lengths(m, v, rng)
	c13Flags(m, v)
	c13RealDecrypt(t, m, v, rng)
	c13Constructed(m, v)
	v.ModelAsks = m.N
	v.Write(t)
}

// c13Constructed: messages built by the library's constructors (which stamp the current time) in a process
// whose local time zone is not UTC: what they encode is read by the independent decoder (KerberosTime is
// "YYYYMMDDHHMMSSZ", RFC 4120 5.2.3) as the values the object holds.
func c13Constructed(m *Model, v *Verdict) {
	saved := time.Local
	time.Local = time.FixedZone("VERIF+0530", 5*3600+1800)
	defer func() { time.Local = saved }()
	byName := map[string]asn1Type{}
	for _, ty := range asn1Types() {
		byName[ty.name] = ty
	}
	cname := types.PrincipalName{NameType: 1, NameString: []string{"user"}}
	sname := types.PrincipalName{NameType: 2, NameString: []string{"HTTP", "host.example.com"}}
	check := func(name string, val interface{}) {
		ty, ok := byName[name]
		if !ok {
			return
		}
		text := ty.render(val)
		b, err := ty.marshal(val)
		v.Case("constructed/"+name, name+" from its constructor, local zone +05:30")
		det := map[string]string{"type": name, "value": text, "bytes": X(b)}
		if err != nil {
			v.Violate("failing-input", "c13:constructed:marshal:"+name, "Marshal of a constructed message failed: "+err.Error(), det)
			return
		}
		if dec := m.Ask(fmt.Sprintf("asn1.dec %s %s", name, X(b))); dec != "ok "+text {
			det["rfc-decoder"] = dec
			v.Violate("failing-input", "c13:constructed:rfc-decode:"+name, "an independent decoder of the RFC ASN.1 type does not read the values of a message the library constructed (local time zone not UTC)", det)
		}
		if name == "ASReq" || name == "TGSReq" {
			if sh := m.Ask(fmt.Sprintf("cl.shape %s %s", name, X(b))); sh != "ok" {
				det["rfc-shape"] = sh
				v.Violate("failing-input", "c13:constructed:shape:"+name, "a request the library constructed transmits an OPTIONAL list empty where RFC 4120 says it is left out: "+sh, det)
			}
		}
	}
	e := messages.NewKRBError(sname, "EXAMPLE.COM", 6, "text")
	check("KRBError", &e)
	if a, err := types.NewAuthenticator("EXAMPLE.COM", cname); err == nil {
		check("Authenticator", &a)
	}
	if cfg, err := config.NewFromString("[libdefaults]\n default_realm = EXAMPLE.COM\n"); err == nil {
		if r, err := messages.NewASReqForTGT("EXAMPLE.COM", cfg, cname); err == nil {
			check("ASReq", &r)
		}
	}
	// requests built under either setting of noaddresses (with it off the request lists the host's addresses, and
	// has no addresses element at all on a host that has none), and with extra_addresses
	for _, extra := range []string{" noaddresses = true\n", " noaddresses = false\n", " noaddresses = false\n extra_addresses = 10.1.2.3\n"} {
		cfg, err := config.NewFromString("[libdefaults]\n default_realm = EXAMPLE.COM\n" + extra)
		if err != nil {
			continue
		}
		if r, err := messages.NewASReqForTGT("EXAMPLE.COM", cfg, cname); err == nil {
			check("ASReq", &r)
		}
		tgt := messages.Ticket{TktVNO: 5, Realm: "EXAMPLE.COM", SName: types.PrincipalName{NameType: 2, NameString: []string{"krbtgt", "EXAMPLE.COM"}}, EncPart: types.EncryptedData{EType: 18, KVNO: 1, Cipher: []byte("tgt")}}
		if r, err := messages.NewTGSReq(cname, "EXAMPLE.COM", cfg, tgt, types.EncryptionKey{KeyType: 18, KeyValue: make([]byte, 32)}, sname, false); err == nil {
			check("TGSReq", &r)
		}
	}
	c13NoNetRequests(m, v)
	kp := messages.NewKRBPriv(messages.EncKrbPrivPart{UserData: []byte{1}, Timestamp: time.Now(), SAddress: types.HostAddress{AddrType: 2, Address: []byte{1, 2, 3, 4}}})
	_ = kp
}

// c13NoNetRequests: the requests of a host without any address of its own. The child process runs in a new, empty
// network namespace (no interface is up there) and prints each constructed request; the parent has the
// independent decoder read them. Where the kernel does not allow a new namespace the case is noted and left out.
func TestC13NoNet(t *testing.T) {
	if os.Getenv("VERIF_C13_NONET") == "" {
		t.Skip("runs as a child of TestC13")
	}
	byName := map[string]asn1Type{}
	for _, ty := range asn1Types() {
		byName[ty.name] = ty
	}
	ha, _ := types.LocalHostAddresses()
	fmt.Printf("C13NONET-ADDRS\t%d\n", len(ha))
	cname := types.PrincipalName{NameType: 1, NameString: []string{"user"}}
	sname := types.PrincipalName{NameType: 2, NameString: []string{"HTTP", "host.example.com"}}
	emit := func(name string, val interface{}) {
		ty := byName[name]
		b, err := ty.marshal(val)
		if err != nil {
			fmt.Printf("C13NONET-ERR\t%s\t%v\n", name, err)
			return
		}
		fmt.Printf("C13NONET\t%s\t%s\t%s\n", name, X(b), ty.render(val))
	}
	cfg, err := config.NewFromString("[libdefaults]\n default_realm = EXAMPLE.COM\n noaddresses = false\n")
	if err != nil {
		return
	}
	if r, err := messages.NewASReqForTGT("EXAMPLE.COM", cfg, cname); err == nil {
		emit("ASReq", &r)
	}
	tgt := messages.Ticket{TktVNO: 5, Realm: "EXAMPLE.COM", SName: types.PrincipalName{NameType: 2, NameString: []string{"krbtgt", "EXAMPLE.COM"}}, EncPart: types.EncryptedData{EType: 18, KVNO: 1, Cipher: []byte("tgt")}}
	if r, err := messages.NewTGSReq(cname, "EXAMPLE.COM", cfg, tgt, types.EncryptionKey{KeyType: 18, KeyValue: make([]byte, 32)}, sname, false); err == nil {
		emit("TGSReq", &r)
	}
}

func c13NoNetRequests(m *Model, v *Verdict) {
	cmd := exec.Command(os.Args[0], "-test.run", "^TestC13NoNet$", "-test.count=1")
	cmd.Env = append(os.Environ(), "VERIF_C13_NONET=1")
	cmd.SysProcAttr = &syscall.SysProcAttr{Cloneflags: syscall.CLONE_NEWNET}
	out, err := cmd.Output()
	if err != nil {
		v.Note("requests of a host without addresses: not run (no new network namespace here: " + cut(err.Error(), 80) + ")")
		return
	}
	n := 0
	for _, line := range strings.Split(string(out), "\n") {
		f := strings.Split(line, "\t")
		switch {
		case f[0] == "C13NONET-ADDRS" && len(f) == 2 && f[1] != "0":
			v.Note("requests of a host without addresses: the new network namespace has addresses (" + f[1] + "), not run")
			return
		case f[0] == "C13NONET-ERR" && len(f) == 3:
			v.Violate("failing-input", "c13:constructed:marshal:"+f[1], "Marshal of a request constructed on a host without addresses failed: "+f[2], nil)
		case f[0] == "C13NONET" && len(f) == 4:
			n++
			v.Case("constructed-no-addresses/"+f[1], f[1]+" from its constructor, noaddresses = false, host without addresses")
			if dec := m.Ask(fmt.Sprintf("asn1.dec %s %s", f[1], f[2])); dec != "ok "+f[3] {
				v.Violate("failing-input", "c13:constructed:rfc-decode:"+f[1], "an independent decoder of the RFC ASN.1 type does not read the values of a request the library constructed on a host without addresses (noaddresses = false)", map[string]string{"type": f[1], "value": f[3], "bytes": f[2], "rfc-decoder": dec})
			}
			if sh := m.Ask(fmt.Sprintf("cl.shape %s %s", f[1], f[2])); sh != "ok" {
				v.Violate("failing-input", "c13:constructed:shape:"+f[1], "a request the library constructed on a host without addresses (noaddresses = false) transmits an OPTIONAL list empty where RFC 4120 says it is left out: "+sh, map[string]string{"type": f[1], "value": f[3], "bytes": f[2], "rfc-shape": sh})
			}
		}
	}
	if n == 0 {
		v.Note("requests of a host without addresses: the child printed nothing")
	}
}

func optPattern(text string) string {
	// the pattern of absent components, as a cheap descriptor of which optionals are present
	n := strings.Count(text, " -") + strings.Count(text, "(-")
	return fmt.Sprint(n)
}

func c13Case(m *Model, v *Verdict, rng *RNG, ty asn1Type, idx int) {
	val := ty.gen(rng)
	text := ty.render(val)
	var b []byte
	var err error
	if p := Protect(func() { b, err = ty.marshal(val) }); p != "" || err != nil {
		v.Violate("failing-input", "c13:marshal-fails:"+ty.name, fmt.Sprintf("Marshal failed: %v %s", err, p), map[string]string{"type": ty.name, "value": text})
		return
	}
	v.Case(ty.name+"/"+optPattern(text)+"/"+fmt.Sprint(len(b) > 127, len(b) > 255, len(b) > 65535), ty.name)
	if idx == 0 {
		v.Sample(fmt.Sprintf("asn1.dec %s %s -> %s", ty.name, X(b), text))
	}
	det := map[string]string{"type": ty.name, "value": text, "bytes": X(b)}
	// 1. the independent RFC decoder reads the same field values
	dec := m.Ask(fmt.Sprintf("asn1.dec %s %s", ty.name, X(b)))
	if dec != "ok "+text {
		det["rfc-decoder"] = dec
		v.Violate("failing-input", "c13:rfc-decode:"+ty.name, "an independent decoder of the RFC ASN.1 type does not read the field values that were encoded", det)
		return
	}
	// 2. the independent RFC encoder produces the same bytes (the encoding is the canonical DER one)
	enc := m.Ask(fmt.Sprintf("asn1.enc %s %s", ty.name, text))
	if enc != "ok "+X(b) {
		det["rfc-encoder"] = enc
		v.Violate("failing-input", "c13:rfc-encode:"+ty.name, "the encoding differs from the DER encoding of the same value under the RFC type", det)
		return
	}
	// 3. decode(encode(v)) = v and re-encode is stable
	if ty.unmarshal != nil {
		var back interface{}
		if p := Protect(func() { back, err = ty.unmarshal(b) }); p != "" || err != nil {
			det["error"] = fmt.Sprint(err, p)
			v.Violate("failing-input", "c13:unmarshal-fails:"+ty.name, "the library cannot decode its own encoding", det)
			return
		}
		if t2 := ty.render(back); t2 != text {
			det["decoded"] = t2
			v.Violate("failing-input", "c13:roundtrip:"+ty.name, "decoding an encoding does not yield an equal value", det)
			return
		}
		b2, err2 := ty.marshal(back)
		if err2 != nil || string(b2) != string(b) {
			det["reencoded"] = X(b2)
			v.Violate("failing-input", "c13:reencode:"+ty.name, "re-encoding a decoded message does not reproduce the original bytes", det)
			return
		}
		// 4. ... regardless of what else was done to the object in between
		if ty.dirty != nil {
			ty.dirty(rng, back)
			b3, err3 := ty.marshal(back)
			v.Case("", ty.name+" after decrypt")
			if err3 != nil || string(b3) != string(b) {
				det["reencoded"] = X(b3)
				v.Violate("failing-input", "c13:reencode-after-decrypt:"+ty.name, "re-encoding a message after it was decrypted does not reproduce the original bytes", det)
			}
		}
	}
}

func c13Lengths(m *Model, v *Verdict, rng *RNG) {
	ns := []int{0, 1, 126, 127, 128, 129, 255, 256, 257, 65535, 65536, 65537, 1<<24 - 1, 1 << 24, 1<<24 + 1, 1<<31 - 1}
	for i := 0; i < 400; i++ {
		ns = append(ns, int(rng.U64()%uint64(1<<uint(1+rng.Intn(31)))))
	}
	if Thorough() {
		for n := 0; n <= 1<<16; n++ {
			ns = append(ns, n)
		}
		for n := 1 << 16; n <= 1<<24; n += 1 + rng.Intn(64) {
			ns = append(ns, n)
		}
	}
	for _, n := range ns {
		var g []byte
		pan := Protect(func() { g = asn1tools.MarshalLengthBytes(n) })
		mo := m.Ask(fmt.Sprintf("asn1.len %d", n))
		v.Case(fmt.Sprintf("len/%d", len(g)), "length octets")
		if pan != "" || mo != "ok "+X(g) {
			v.Violate("failing-input", fmt.Sprintf("c13:length-octets:%d", len(g)), "MarshalLengthBytes differs from the DER definite length (X.690 8.1.3)", map[string]string{"n": itoa(n), "go": X(g) + pan, "der": mo})
			continue
		}
		// and back
		buf := append([]byte{0x30}, g...)
		var back int
		pan = Protect(func() { back = asn1tools.GetLengthFromASN(buf) })
		if pan != "" || back != n {
			v.Violate("failing-input", "c13:length-decode", "GetLengthFromASN does not return the encoded length", map[string]string{"n": itoa(n), "go": itoa(back) + pan})
		}
	}
}

func c13Flags(m *Model, v *Verdict) {
	for i := 0; i < 32; i++ {
		f := types.NewKrbFlags()
		types.SetFlag(&f, i)
		v.Case(fmt.Sprintf("flag/%d", i), "flag bit")
		// RFC 4120 5.2.8: bit 0 is the most significant bit of the first octet
		want := make([]byte, 4)
		want[i/8] = 0x80 >> uint(i%8)
		ok := types.IsFlagSet(&f, i)
		others := false
		for j := 0; j < 32; j++ {
			if j != i && types.IsFlagSet(&f, j) {
				others = true
			}
		}
		if string(f.Bytes) != string(want) || !ok || others {
			v.Violate("failing-input", fmt.Sprintf("c13:flag-bit:%d", i), "flag bit numbering differs from RFC 4120 5.2.8", map[string]string{"bit": itoa(i), "bytes": X(f.Bytes), "want": X(want)})
		}
		types.UnsetFlag(&f, i)
		if string(f.Bytes) != string(make([]byte, 4)) {
			v.Violate("failing-input", fmt.Sprintf("c13:flag-unset:%d", i), "UnsetFlag does not clear exactly the bit it set", map[string]string{"bit": itoa(i)})
		}
	}
}

// c13RealDecrypt: messages with really encrypted parts (all six etypes): decoding, decrypting (once and
// twice) and re-encoding reproduces the original bytes, for the AP-REQ with its ticket and for KDC replies.
func c13RealDecrypt(t *testing.T, m *Model, v *Verdict, rng *RNG) {
	kt, _ := serviceKeytab()
	for _, et := range allEtypes {
		for k := 0; k < 3; k++ {
			c := baseCase(et)
			if k == 1 {
				// a ticket that names no key version (the newest key opens it): nothing may be written into it
				if _, newest, e := kt.GetEncryptionKey(types.PrincipalName{NameString: c.sname}, c.realm, 0, et); e == nil {
					c.kvno, c.tktKvno = newest, 0
				}
			}
			ap0, b, err := mintAPReqKey(m, rng, c, time.Now())
			if err != nil {
				v.Note("c13 real decrypt: not minted: " + err.Error())
				continue
			}
			var ap messages.APReq
			v.Case(fmt.Sprintf("real-decrypt/APReq/%d/%d", et, k), "AP-REQ really decrypted")
			det := map[string]string{"type": "APReq", "etype": itoa(et), "bytes": X(b)}
			if e := ap.Unmarshal(b); e != nil {
				v.Violate("failing-input", "c13:real-decrypt:unmarshal", "a message the library marshalled is not unmarshalled", det)
				continue
			}
			// k == 2: the key is looked up under a principal the service configured (a keytab principal override,
			// here the same name under another name type): the ticket stays as it arrived
			var ovr *types.PrincipalName
			if k == 2 {
				o := types.PrincipalName{NameType: 1, NameString: append([]string{}, c.sname...)}
				ovr = &o
			}
			steps := []func() error{
				func() error { return ap.Ticket.DecryptEncPart(kt, ovr) },
				func() error { return ap.DecryptAuthenticator(ap.Ticket.DecryptedEncPart.Key) },
				func() error { return ap.Ticket.DecryptEncPart(kt, ovr) },
				func() error { return ap.DecryptAuthenticator(ap.Ticket.DecryptedEncPart.Key) },
				func() error {
					_, e := ap.Verify(kt, 5*time.Minute, types.HostAddress{}, ovr)
					return e
				},
			}
			for i, st := range steps {
				var e error
				if p := Protect(func() { e = st() }); p != "" || e != nil {
					det["step"] = fmt.Sprint(i)
					det["error"] = fmt.Sprint(e, p)
					v.Violate("failing-input", fmt.Sprintf("c13:real-decrypt:step:%d", et), "decrypting a part of a decoded message fails (the second time: the first decryption changed the message)", det)
					break
				}
				b2, e2 := ap.Marshal()
				if e2 != nil || string(b2) != string(b) {
					det["step"] = fmt.Sprint(i)
					det["reencoded"] = X(b2)
					v.Violate("failing-input", fmt.Sprintf("c13:real-decrypt:reencode:%d", et), "re-encoding a message after a part of it was decrypted does not reproduce the original bytes", det)
					break
				}
			}
			_ = ap0
		}
		// a KDC reply
		cname := types.PrincipalName{NameType: 1, NameString: []string{c09User}}
		rc := baseRep(true, et, "session")
		sk := types.EncryptionKey{KeyType: et, KeyValue: randKey(rng, et)}
		rq := kdcReqInfo{cname: cname, realm: c09Realm, nonce: 1 + rng.Intn(1<<30), sname: types.PrincipalName{NameType: 2, NameString: []string{"HTTP", "host.test.gokrb5"}}}
		b, err := mintKDCRep(rng, rc, rq, sk, nil, time.Now())
		if err != nil {
			continue
		}
		var rep messages.TGSRep
		v.Case(fmt.Sprintf("real-decrypt/TGSRep/%d", et), "TGS-REP really decrypted")
		det := map[string]string{"type": "TGSRep", "etype": itoa(et), "bytes": X(b)}
		if e := rep.Unmarshal(b); e != nil {
			v.Violate("failing-input", "c13:real-decrypt:unmarshal", "a message the library marshalled is not unmarshalled", det)
			continue
		}
		for i := 0; i < 2; i++ {
			var e error
			if p := Protect(func() { e = rep.DecryptEncPart(sk) }); p != "" || e != nil {
				det["error"] = fmt.Sprint(e, p)
				v.Violate("failing-input", fmt.Sprintf("c13:real-decrypt:step:%d", et), "decrypting a part of a decoded message fails (the second time: the first decryption changed the message)", det)
				break
			}
			b2, e2 := rep.Marshal()
			if e2 != nil || string(b2) != string(b) {
				det["reencoded"] = X(b2)
				v.Violate("failing-input", fmt.Sprintf("c13:real-decrypt:reencode:%d", et), "re-encoding a message after a part of it was decrypted does not reproduce the original bytes", det)
				break
			}
		}
	}
}
