#!/usr/bin/env python3
"""Confirms seeded property-breaking changes and runs the checks against them.

  tools/seedeval.py import <src-dir> <ID> [prefix]  copy /tmp/seed/<ID>/m* into /verif/seeded/<ID>/ after confirming
                                               each one in a scratch worktree (compiles, tests pass, demo fails
                                               on the patched tree and passes on the clean one)
  tools/seedeval.py run <ID> [mN] [--tier t]   apply each kept patch to /repo, run ./check <ID>, undo, record

Nothing is ever committed in /repo; the scratch worktree is removed afterwards.
"""
import json, os, re, shutil, subprocess, sys, time

ROOT = os.path.dirname(os.path.dirname(os.path.abspath(__file__)))
REPO = "/repo"
ENV = dict(os.environ, GOFLAGS="-mod=mod", GOPROXY="off", GOSUMDB="off", GOTOOLCHAIN="local")


def sh(cmd, cwd=None, timeout=900):
    p = subprocess.run(cmd, shell=True, cwd=cwd, env=ENV, stdout=subprocess.PIPE, stderr=subprocess.STDOUT, text=True, errors="replace", timeout=timeout)
    return p.returncode, p.stdout


def demo_place(demo_text):
    m = re.search(r"(v8/[\w/.-]+_test\.go)", demo_text)
    return m.group(1) if m else None


def demo_run_name(demo_text):
    m = re.search(r"^func (Test\w+)\(", demo_text, re.M)
    return m.group(1) if m else None


def confirm(src, wt):
    """returns dict of confirmation facts"""
    res = {}
    patch = os.path.join(src, "patch.diff")
    demo = open(os.path.join(src, "demo_test.go")).read()
    place = demo_place(demo)
    res["demo_place"] = place
    if not place:
        res["error"] = "cannot tell where the demonstration goes"
        return res
    pkg = "./" + os.path.dirname(place)[len("v8/"):]
    tests = "|".join(re.findall(r"^func (Test\w+)\(", demo, re.M))
    sh("git checkout -- . && git clean -fdq", cwd=wt)
    # clean tree: demo passes
    open(os.path.join(wt, place), "w").write(demo)
    rc, out = sh(f"go test {pkg} -run '^({tests})$' -count=1", cwd=os.path.join(wt, "v8"))
    res["demo_passes_on_clean"] = rc == 0
    if rc != 0:
        res["clean_output"] = out[-1500:]
    os.remove(os.path.join(wt, place))
    # patched tree
    rc, out = sh(f"git apply {patch}", cwd=wt)
    res["applies"] = rc == 0
    if rc != 0:
        res["error"] = "patch does not apply: " + out[-500:]
        return res
    rc, out = sh("go build ./... && go vet ./...", cwd=os.path.join(wt, "v8"))
    res["compiles"] = rc == 0
    rc, out = sh("go test -count=1 ./...", cwd=os.path.join(wt, "v8"))
    res["tests_pass"] = rc == 0
    if rc != 0:
        res["tests_output"] = out[-1500:]
    open(os.path.join(wt, place), "w").write(demo)
    rc, out = sh(f"go test {pkg} -run '^({tests})$' -count=1", cwd=os.path.join(wt, "v8"))
    res["demo_fails_on_patched"] = rc != 0
    os.remove(os.path.join(wt, place))
    sh("git checkout -- . && git clean -fdq", cwd=wt)
    return res


def do_import(srcroot, pid, prefix=""):
    wt = f"/tmp/wt-confirm-{pid}"
    sh(f"git -C {REPO} worktree remove --force {wt}")
    rc, out = sh(f"git -C {REPO} worktree add -q --detach {wt} HEAD")
    if rc != 0:
        print(out)
        sys.exit(2)
    try:
        for m in sorted(os.listdir(os.path.join(srcroot, pid))):
            src = os.path.join(srcroot, pid, m)
            if not (os.path.isdir(src) and os.path.exists(os.path.join(src, "patch.diff"))):
                continue
            c = confirm(src, wt)
            ok = all(c.get(k) for k in ("applies", "compiles", "tests_pass", "demo_fails_on_patched", "demo_passes_on_clean"))
            print(pid, m, "CONFIRMED" if ok else "NOT-CONFIRMED", {k: v for k, v in c.items() if k.endswith("output") is False})
            if not ok:
                for k in ("clean_output", "tests_output", "error"):
                    if k in c:
                        print("   ", k, c[k][-600:])
                continue
            dst = os.path.join(ROOT, "seeded", pid, prefix + m)
            os.makedirs(dst, exist_ok=True)
            for f in ("patch.diff", "demo_test.go"):
                shutil.copy(os.path.join(src, f), os.path.join(dst, f))
            meta = json.load(open(os.path.join(src, "meta.json")))
            meta["confirmed"] = {k: c[k] for k in ("applies", "compiles", "tests_pass", "demo_fails_on_patched", "demo_passes_on_clean")}
            meta["confirmed_at_commit"] = sh(f"git -C {REPO} rev-parse --short HEAD")[1].strip()
            json.dump(meta, open(os.path.join(dst, "meta.json"), "w"), indent=1)
    finally:
        sh(f"git -C {REPO} worktree remove --force {wt}")


def do_run(pid, only=None, tier="quick", checks=None):
    base = os.path.join(ROOT, "seeded", pid)
    rc, out = sh(f"git -C {REPO} status --porcelain")
    if out.strip():
        print("/repo is not clean; refusing")
        sys.exit(2)
    for m in sorted(os.listdir(base)):
        if only and m != only:
            continue
        d = os.path.join(base, m)
        patch = os.path.join(d, "patch.diff")
        rc, out = sh(f"git -C {REPO} apply {patch}")
        if rc != 0:
            print(pid, m, "patch no longer applies:", out[-300:])
            continue
        results = {}
        try:
            for chk in (checks or [pid]):
                t0 = time.time()
                rc, out = sh(f"./check {chk} --tier {tier}", cwd=ROOT, timeout=3600)
                viol = [l for l in out.splitlines() if l.startswith("VIOLATION")]
                results[chk] = {"exit": rc, "violations": len(viol), "first": viol[:2], "wall": round(time.time() - t0, 1),
                                "tail": out.splitlines()[-1:] if out else []}
        finally:
            sh(f"git -C {REPO} checkout -- .")
        det = any(r["exit"] != 0 and r["violations"] > 0 for r in results.values())
        print(pid, m, "DETECTED" if det else "MISSED", json.dumps({k: (v["exit"], v["violations"], v["wall"]) for k, v in results.items()}))
        for k, v in results.items():
            for l in v["first"][:1]:
                print("     ", l[:260])
        meta = json.load(open(os.path.join(d, "meta.json")))
        meta.setdefault("check_results", {})[tier] = {"detected": det, "by": results}
        json.dump(meta, open(os.path.join(d, "meta.json"), "w"), indent=1)


if __name__ == "__main__":
    if sys.argv[1] == "import":
        do_import(sys.argv[2], sys.argv[3], sys.argv[4] if len(sys.argv) > 4 else "")
    elif sys.argv[1] == "run":
        args = sys.argv[2:]
        tier = "quick"
        checks = None
        if "--tier" in args:
            i = args.index("--tier")
            tier = args[i + 1]
            del args[i:i + 2]
        if "--checks" in args:
            i = args.index("--checks")
            checks = args[i + 1].split(",")
            del args[i:i + 2]
        do_run(args[0], args[1] if len(args) > 1 else None, tier, checks)
