#!/usr/bin/env python3
"""Regenerates /verif/MANIFEST.json from the table below (kept in one place so that the manifest is
always valid and the not_applicable list is always the complement of the claimed checks)."""
import json, os
ROOT = os.path.dirname(os.path.dirname(os.path.abspath(__file__)))

COMMON_NOTE = ("Trusted: Lean 4.33 kernel; axioms propext/Classical.choice/Quot.sound only (audited each run); "
               "the hand-written Lean model is tied to the Go code by the differential correspondence run "
               "(real code built from /repo's working tree vs compiled model `kmodel`) and, where stated, by facts "
               "regenerated from the source; the correspondence is testing and is bounded by its generators. ")

CRYPTO_NOTE = ("The theorems are about the RFC specification (Crypto/Spec.lean) for every `Prims` satisfying stated functional laws "
   "(block ciphers are permutations per key, RC4 is an involution per key, MAC lengths); SHA-1/2, MD4/5, HMAC, AES, DES, RC4, PBKDF2 are parameters, "
   "instantiated in kmodel by independent Lean implementations validated against FIPS/RFC vectors at start-up. 'Go = RFC for every input' is established by the "
   "two-direction correspondence run, not by proof. aescts and Go crypto are external. ")

CLAIMED = {
 "C01": dict(
   text="Lean theorems over the acceptor decision logic of service/APExchange.go + messages/APReq.go: the decision accepts exactly when every RFC 4120 3.2.3 condition holds (ticket opened by the keytab key selected by realm/kvno/etype for the service or override principal, now within [start-skew, end+skew], not INVALID, authenticator opened by the session key, same cname (type, components) and crealm, ctime within skew, address requirements, not a replay, PAC verifies when decoding is on), for all tickets, authenticators, clocks and settings; the reported identity and expiry are the ticket's; each time bound is decided exactly at the limit; a realm mismatch is always rejected; the pre-fix code is refuted by witness. Tied to Go by AP-REQs minted with the real library under a fake clock (six etypes x catalogue of 48 defects/settings x pairs x replays) and verified by service.VerifyAPREQ; verdict and reported identity compared with an independent byte-level Lean acceptor (RFC codec, RFC crypto, keytab rule, PAC rule, the proven decision logic).",
   note=CRYPTO_NOTE + "Replay detection in the acceptor is the C02 model (presented-before flag); the process-wide cache is exercised by presenting the same request twice.",
   technique="Lean 4 proof (iff over the decision logic with decidable Prop checks) + differential run of minted AP-REQs against an independent Lean acceptor under synctest fake time", design="5/C01"),
 "C02": dict(
   text="Lean theorems over a model of service/cache.go: after any presentation of (client, timestamp, service) every later presentation is flagged whatever other presentations and clean-ups happen in between, provided no clean-up ran when the timestamp was outside its window (once, once_window, by induction over histories of any length); a replay verdict always has an earlier presentation of exactly that triple as cause (exact); n concurrent atomic presentations of one authenticator under ANY lock-acquisition order accept exactly one (concurrent_once); the unrepaired four-section code is refuted by concrete schedules. Regenerated fact (go/ast): in the current source IsReplay, AddEntry and ClearOldEntries each touch the cache inside exactly one write-locked section. Tied to Go by bounded-exhaustive and long random histories under a fake clock, every schedule of 2-3 concurrent calls at the lock-acquisition yield points (cooperative scheduler), free-running parallel stress and a real-time cleaner history.",
   note="Go mutex semantics, the memory model and testing/synctest are trusted; the lock-shape extractor (go/ast walker in the harness) is trusted to see every access to entries/replayMap in cache.go; atomicity is proved from that fact, races are exhibited only by the schedule enumeration and stress.",
   technique="Lean 4 proof (invariants by induction over histories; atomic-step concurrency) + regenerated lock-shape fact + deterministic schedule enumeration via a build-tag hook", design="5/C02"),
 "C03": dict(
   text="Lean theorems over a model of spnego/http.go, spnego.go, negotiationToken.go, krb5Token.go on top of a Go-faithful model of the gofork/encoding/asn1 reflection decoder: the wrapped handler runs exactly when the request belongs to an authenticated session (with the session's identity) or its Authorization header carries an AP-REQ the acceptor accepts (with the accepted identity, and the new session stored when a manager is configured); every other request is answered 401 with a Negotiate challenge, or 500 exactly when the session store refuses the new session of an accepted request; the handler never panics; KRB5Token.Verify / NegTokenInit.Verify / NegTokenResp.Verify / AcceptSecContext say true only for (AcceptSecContext: exactly for) a token carrying an accepted AP-REQ, with status complete and that identity; the two unrepaired behaviours (KRB-ERROR token verifies, empty mechanism list panics) are refuted by witness. Tied to Go by driving the real handler (httptest, fake clock, scripted session manager) with AP-REQs minted by the real library and wrapped by an independent DER builder: every defect of a 78-entry catalogue (AP-REQ defects, mechanism OIDs and order, TOK_ID, AP-REP/KRB-ERROR/garbage bodies, tags, lax lengths, trailing bytes, header scheme and base64 variants, session states, RemoteAddr), pairs, bit flips over all wrapper bytes, replays; handler ran / identity / status / WWW-Authenticate / SessionMgr.New compared with the model; the token APIs compared on the same tokens.",
   note=CRYPTO_NOTE + "The acceptor is the C01 model; 'carries an AP-REQ' is defined by the (Go-faithful, lenient) decoder model, so leniencies of gofork/asn1 (unchecked EXPLICIT wrapper lengths, ignored trailing bytes) are part of the definition and are exercised by the bit-flip stream; gob decoding of stored session credentials and net/http are outside the model (session states are scripted).",
   technique="Lean 4 proof (iff over the handler decision logic, parser-directed specification) + differential run of the real HTTP handler against the model under synctest fake time", design="5/C03"),
 "C05": dict(
   text="Lean theorems over the RFC 3961/3962/8009/4757 specification: decrypt(encrypt(conf,pt)) = pt (des3: plus zero padding) for all six etypes and every length (CBC and ciphertext-stealing round trips by induction over blocks), ciphertext length, different confounders give different ciphertexts, rc4 message type = LE32(alias(usage)); regenerated facts (rc4 message-type bytes for 314 usages, etype parameter table) proved equal to the RFC values by kernel evaluation. The Go code is tied to this spec by interop in both directions over lengths 0..130 x usage set.",
   note=CRYPTO_NOTE, technique="Lean 4 proof (mode round trips, injectivity) + regenerated fact tables (decide) + two-direction differential interop against kmodel", design="5/C05"),
 "C06": dict(
   text="Lean theorems over the RFC decrypt: success implies the tag region equals the MAC (key derived from the presented key and usage) of exactly what is returned; inputs shorter than confounder+tag are rejected; same body with a different tag is never accepted (all flips/truncations/extensions of the tag); accepting a tampered body exhibits an HMAC collision (RFC 8009 and rc4 families); rc4 usage aliases characterised exactly. Tied to Go by exhaustive single-bit flips, all truncations, extensions, swapped blocks, other usages/keys for lengths 0..64.",
   note=CRYPTO_NOTE + "Body tampering for the SHA-1 families is covered by accept_implies_mac plus the exhaustive flip run; the collision form is proved for the SHA-2 and rc4 families only.",
   technique="Lean 4 proof (decision logic of decrypt) + exhaustive bit-flip/truncation differential run", design="5/C06"),
 "C07": dict(
   text="Lean theorems: verification is true exactly for the RFC checksum (hence no prefix, extension or bit flip), nominal lengths, acceptance for other data implies an HMAC collision; regenerated fact: GetChksumEtype over ids -1000..1000 equals the IANA table. Tied to Go by value comparison for 6 checksum types x lengths 0..200 x usages and mutation of the checksum.",
   note=CRYPTO_NOTE, technique="Lean 4 proof + regenerated IANA table (decide) + differential checksum values", design="5/C07"),
 "C08": dict(
   text="Lean theorems: PA-data hint selection equals the RFC 4120 5.2.7.5 precedence and is order independent (with the unrepaired loop refuted by witness); des3 random-to-key always yields odd parity bytes with the input's top 7 bits and never a weak key; UTF-16LE encoding injective on scalar values; s2kparams are exactly 4 big-endian octets; regenerated key/seed sizes equal the RFC sizes. String-to-key, n-fold (arithmetic definition), DR/DK, KDF-HMAC-SHA2, random-to-key values are compared with Go for the property's whole quantifier.",
   note=CRYPTO_NOTE + "n-fold: the Lean definition is arithmetic (ones'-complement sum of rotated copies) and is compared with the Go bit loop on every length 1..64 x 6 sizes; their equality is not proved.",
   technique="Lean 4 proof (finite case analysis, kernel decide over all 256 bytes / 16 weak keys, induction) + differential key values", design="5/C08"),
 "C15": dict(
   text="Lean theorem reads_spec: for format versions 1-4 (native byte order either way for v1/v2) the model of CCache.Unmarshal reads every well-formed file rendered by an independent writer (MIT ccache format: v1 without name types and with the realm counted, v3 doubled key type, v4 header with any fields incl. unknown tags, any number of credentials / components / addresses / authorization-data entries / key and ticket lengths, times and flags over 32 bits) back to exactly the written cache, by induction over the nested lists; lookup returns the first credential for a server name; the configuration filter removes exactly X-CACHECONF entries. Tied to Go by rendered files (field-by-field comparison), truncated / substituted / count-corrupted files (error paths, run in a memory-limited child), GetEntry/Contains/GetEntries, and clients built from caches holding real tickets.",
   note="Version 1/2 byte order is the host's (little endian here); encoding/binary and time.Unix are external; the client part (NewFromCCache/GetCachedTicket) is differential testing only.",
   technique="Lean 4 proof (parser/writer round trip by induction over nested lists) + differential correspondence with an independent writer", design="5/C15"),
 "C16": dict(
   text="Lean theorems over models of Realm.parseLines and ResolveRealm: the realm block parser never panics for any line sequence and nesting (the unrepaired loop is refuted by witness), rejects unpaired closing brackets and lines without '=', skips relations inside nested blocks, honours the final-value marker and the kdc port default; host-to-realm resolution returns the exact host mapping, else the mapping of the longest matching domain suffix (most specific), else nothing. Whole-file semantics (sections, comments, whitespace, key case, all boolean spellings, the four MIT duration formats, enctype names, per-realm lists, domain mappings, GetKDCs multiset, invalid files) are compared against an AST-based expectation on rendered configurations with randomised layout; realm blocks and resolution are additionally compared with the Lean models.",
   note="The file-level parser (regexp section splitting, strconv, time.ParseDuration) is not modelled at the string level: that part is differential testing against the configuration AST. Only documented syntax is rendered (no trailing comments, no '=' or '#' inside values, lower-case hosts).",
   technique="Lean 4 proof (state-machine totality, list lemmas for suffix order) + AST-expectation differential run on rendered configurations", design="5/C16"),
 "C17": dict(
   text="Lean theorems over a model of wrapToken.go/MICToken.go: Marshal equals the RFC 4121 4.2.6 layout; Unmarshal(Marshal t) = t; for ALL byte strings a successful decode implies token id, filler and direction flag are the expected ones; Verify is true exactly when the checksum equals the RFC checksum over payload||header(flags, seq, EC=RRC=0); the checksummed string determines payload, flags and sequence number, so accepting after any of them changed exhibits a checksum collision. Tied to Go by byte comparison of built tokens (independent Lean implementation) and by every bit flip / truncation / direction mismatch / changed field.",
   note=CRYPTO_NOTE, technique="Lean 4 proof (layout, decode strictness for all inputs, injectivity of the MAC input) + differential token bytes and exhaustive mutations", design="5/C17"),
 "C19": dict(
   text="Lean theorems over a model of pac_type.go/signature_data.go/client_info.go: acceptance holds exactly when the table parses, every buffer lies inside the data, the four mandatory buffers are present and decodable, the declared type is supported and the server signature equals the RFC checksum (usage 17) of the zeroed copy; the signature field never influences the zeroed copy; two inputs differing only in signature bytes are never both accepted; unsupported declared types are rejected; acceptance of the same signature for different data exhibits a checksum collision; first buffer of each kind wins; the group-SID rule is complete and sound. Tied to Go by re-signing the sample PACs with the Lean issuer model under all five types and flipping every bit, removing/duplicating/permuting buffers, corrupting table fields, overlapping signature buffers.",
   note=CRYPTO_NOTE + "NDR decoding of KERB_VALIDATION_INFO (jcmturner/rpc) is a parameter of the model (its verdict per buffer is taken from the real decoder, run in a memory-limited child because it can exhaust memory on corrupted counts: that is a C04 matter).",
   technique="Lean 4 proof (decision logic, zeroing lemmas, list induction) + exhaustive bit-flip differential run with an independent signer", design="5/C19"),
 "C09": dict(
   text="Lean theorems over the decision logic of ASRep.Verify and of TGSRep.DecryptEncPart + TGSRep.Verify + the checks of Client.TGSExchange: an AS reply is accepted exactly when it decrypts under the client's own key and nonce, cname, crealm, sname, srealm, addresses and KDC time match the outstanding request (RFC 4120 3.1.5), a TGS reply exactly when it decrypts under the TGT session key and nonce, cname, client realm, ticket realm, srealm, addresses and KDC time match (3.3.4), for every request, reply, clock and skew; a reply carrying another nonce (replayed from an earlier request), one that does not decrypt, and each single altered field are rejected; the time bound is decided exactly at the limit; a KRB-ERROR reply reaches the caller as that error and never as success; the unrepaired TGS exchange (reply crealm ignored) is refuted by witness. Tied to Go by replies minted with the real library's types and crypto for six etypes, password clients with every hint variant and keytab clients, with a 53-entry defect catalogue singly and in pairs: (1) the Verify functions called directly under a fake clock, (2) Client.Login / Client.GetServiceTicket (with and without a pre-authentication round) against a loopback KDC; verdict, session key and end time compared with an independent byte-level Lean verifier (RFC codec, string-to-key with hint selection, crypto, the proven decision logic).",
   note=CRYPTO_NOTE + "The RFC 6806 FAST-negotiation branch of ASRep.Verify is not modelled (requests are made with DisablePAFXFAST); KRB-ERROR codes with protocol semantics of their own (PREAUTH_REQUIRED/FAILED retry, WRONG_REALM referral) are exercised in conformant form only; the whole-exchange runs use the real clock and therefore only offsets away from the limits.",
   technique="Lean 4 proof (iff over the decision logic with decidable Prop checks) + differential run of minted KDC replies against an independent Lean verifier (direct calls under synctest fake time, whole exchanges against a loopback KDC)", design="5/C09"),
 "C10": dict(
   text="Lean theorems over a model of the client's bookkeeping (cache.go, session.go, client.go Login/realmLogin, TGSExchange with its referral loop, the AS retry logic, the auto-renewal timer) in which the KDC is an arbitrary table of answers: a cached ticket is handed out without asking the KDC exactly while the clock is strictly inside its validity period, outside it a renewal is attempted exactly while before renew-till; one TGS exchange sends between 1 and 7 requests whatever the KDC answers (referral bound), every one for the name asked for, and a ticket it returns is the KDC's answer to one of them; cache entries are filed under their own ticket's name, so a cache hit for an SPN is a ticket for that SPN; the auto-renewal timer fires strictly before the session ends and never with a zero wait; a TGT with more than a sixth of its life left is used without a request. Tied to Go by histories of Login / GetServiceTicket / clock steps run on the real client under a fake clock (testing/synctest) against a conformant KDC simulator for three realms (direct, configured cross-realm, one- and two-hop referrals, pre-authentication required or not with default or KDC-chosen salt, lifetimes 10 m..10 h, renewable or not, renew-till reached, auto-renewal goroutines firing, an always-refer KDC): (1) every (ticket, key) returned is checked against the issue log, the SPN and the clock, (2) the requests sent and the result of every step are compared with the model replaying the recorded answers, (3) every AS-REQ / TGS-REQ is checked byte-level by a Lean request checker (RFC codec + crypto): options, names, till/rtime from the configured lifetimes, etypes in order, nonce, PA-ENC-TIMESTAMP under the client's key (usage 1), authenticator under the session key (usage 7) naming the client's realm with the keyed checksum (usage 6) of the body.",
   note=CRYPTO_NOTE + "The model is sequential: histories are generated so that no two auto-renewal timers fall on the same instant (concurrent renewals are C11's matter); network failures are C12's; the RFC 6806 FAST negotiation is off (DisablePAFXFAST). Observed and not counted as a violation: a non-TGT ticket presented for renewal is sent with the application key usage 11, which a conformant KDC cannot open, so expired service tickets are always requested afresh; near renew-till the renewal goroutine renews at geometrically shrinking intervals.",
   technique="Lean 4 proof (induction over the referral loop for arbitrary KDC answers, cache invariants, decision logic) + history-by-history differential run of the real client under synctest fake time against a conformant KDC simulator, with a byte-level Lean request checker", design="5/C10"),
 "C12": dict(
   text="Lean theorems over a model of sendToKDC/dialSend*: if some endpoint on a permitted transport answers correctly and every other endpoint only refuses, closes early or is silent, the caller gets the answer of an answering endpoint, for every order of both (independently shuffled) KDC walks and every relation of request size to udp_preference_limit; no delivering endpoint gives a communication error; a KRB-ERROR from the first delivering endpoint is returned as that error, response-too-big over UDP falls back to TCP; every endpoint is contacted at most once per transport; the unrepaired shadowed-variable branch is refuted by witness. Tied to Go by scripted loopback endpoints (TCP and UDP on one port) and the real client AS exchange: all 36 assignments x 3 limits for one KDC, samples for 2-3 KDCs, comparing result class, error code, answering endpoint and contacted endpoints.",
   note="net, the 5 s deadlines and the OS are outside the model (silent endpoints cost real time, so they are sampled in the quick tier); endpoints that refuse leave no trace, so their position in the walk is not observed (it does not influence the result).",
   technique="Lean 4 proof (case analysis over the fallback logic, induction over the KDC walk) + differential fault enumeration on loopback", design="5/C12"),
 "C13": dict(
   text="Lean theorems: DER definite lengths round-trip for every n < 2^64; every well-formed TLV tree decodes from its encoding (mutual induction over the nested tree); the Go loop of asn1tools.MarshalLengthBytes equals the X.690 length for EVERY n and GetLengthFromASN inverts it; RFC 4120 5.2.8 flag numbering for all 32 flags and arbitrary octets; regenerated facts (go/ast over the struct declarations of the current source): the ASN.1 shape (order, context tags, OPTIONAL, universal types) of 24 Go structs equals the RFC 4120/3244/4178 modules transcribed by hand, shadow marshalling structs match up to RawValue holes, application tag numbers equal the RFC's. The typed codec (independent Lean RFC decoder/encoder) is tied to Go for 15 message types: Go marshals -> Lean decodes the same field values -> Lean re-encodes the same bytes -> Go unmarshals an equal value and re-marshals the same bytes, also after decrypting.",
   note="gofork/encoding/asn1 (reflection codec) is external; that it implements the modelled DER rules is the differential run. The typed round trip decode(encode v) = v for arbitrary typed values is NOT proved in Lean (stated as typed_roundtrip_partial for the primitive case); NegTokenResp.negState is always emitted by Go although OPTIONAL in RFC 4178 (conforming, noted).",
   technique="Lean 4 proof (DER length/TLV round trips by mutual induction, arithmetic loop invariant, kernel decide over octets) + regenerated struct-shape facts (rfl) + differential codec run against an independent RFC codec", design="5/C13"),
 "C14": dict(
   text="Lean theorems over a model of keytab.go: Unmarshal reads every file an independent writer (MIT format) renders — holes, with/without 32-bit kvno, v1/v2, both byte orders — to exactly the written entries (reads_spec); Marshal equals that writer (marshal_is_render) hence round trip for both versions (roundtrip); GetEncryptionKey is sound, complete and prefers the newest match (lookup_*). All for unbounded sizes. The model is tied to the Go code by differential runs on rendered, re-marshalled, mutated files and present/near-miss lookups.",
   note="Model written by hand (Impl follows Unmarshal incl. the discarded parsePrincipal error); v1 byte order is the host's (little endian here). External: encoding/binary.",
   technique="Lean 4 proof (parser/writer round trip by induction; lookup invariants) + differential correspondence against kmodel",
   design="5/C14"),
}

PENDING_REASON = "check not built yet in this session (planned: DESIGN.md section 5); not claimed until its theorems and correspondence run exist"

def main():
    props = [json.loads(l) for l in open(os.path.join(ROOT, "properties.jsonl"))]
    checks, na = [], []
    for p in props:
        pid = p["id"]
        if pid in CLAIMED:
            c = CLAIMED[pid]
            checks.append({
                "property_id": pid,
                "quick_cmd": f"./check {pid} --tier quick",
                "thorough_cmd": f"./check {pid} --tier thorough",
                "evidence_file": f"/verif/evidence/{pid}.json",
                "replay_cmd_template": f"./check {pid} --replay {{path}}",
                "engine": "lean4-proof+correspondence",
                "level_claimed": {"category": "proof", "text": c["text"], "design_ref": "DESIGN.md " + c["design"]},
                "level_note": COMMON_NOTE + c["note"],
                "technique": c["technique"],
            })
        else:
            na.append({"property_id": pid, "reason": NA.get(pid, PENDING_REASON)})
    m = {
        "version": 1,
        "setup_cmd": "./setup.sh",
        "hooks": {
            "guard": "verif",
            "enable": "go build/test -tags verif (the harness is always built with the tag)",
            "baseline_off_cmd": "cd /repo/v8 && go test -vet=off -count=1 ./...",
            "source_commits": HOOK_COMMITS,
            "add_only": False,
        },
        "engines": [{
            "name": "lean4-proof+correspondence", "path": "/verif/check",
            "serves_properties": sorted(CLAIMED.keys()),
            "kind_free_text": "Lean 4 theorems over hand-written executable models (lake project /verif/lean), axiom audit, and a Go differential harness (/verif/harness) that runs the real code and the compiled model driver on the same inputs",
        }],
        "checks": checks,
        "not_applicable": na,
        "notes": "Every check is `./check <id>`: rebuild harness from /repo's working tree, regenerate facts, lake build theorems + kmodel, audit axioms, run correspondence/search, write evidence. Known findings: /verif/known_findings.json.",
    }
    json.dump(m, open(os.path.join(ROOT, "MANIFEST.json"), "w"), indent=1)

NA = {}
HOOK_COMMITS = ['41dc5d5']
if __name__ == "__main__":
    main()
