#!/usr/bin/env python3
"""Regenerates /verif/MANIFEST.json from the table below (kept in one place so that the manifest is
always valid and the not_applicable list is always the complement of the claimed checks)."""
import json, os
ROOT = os.path.dirname(os.path.dirname(os.path.abspath(__file__)))

COMMON_NOTE = ("Trusted: Lean 4.33 kernel; axioms propext/Classical.choice/Quot.sound only (audited each run); "
               "the hand-written Lean model is tied to the Go code by the differential correspondence run "
               "(real code built from /repo's working tree vs compiled model `kmodel`) and, where stated, by facts "
               "regenerated from the source; the correspondence is testing and is bounded by its generators. ")

CLAIMED = {
 "C14": dict(
   text="Lean theorems over a model of keytab.go: Unmarshal reads every file an independent writer (MIT format) renders — holes, with/without 32-bit kvno, v1/v2, both byte orders — to exactly the written entries (reads_spec); Marshal equals that writer (marshal_is_render) hence round trip for both versions (roundtrip); GetEncryptionKey is sound, complete and prefers the newest match (lookup_*). All for unbounded sizes. The model is tied to the Go code by differential runs on rendered, re-marshalled, mutated files and present/near-miss lookups.",
   note="Model written by hand (Impl follows Unmarshal incl. the discarded parsePrincipal error); v1 byte order is the host's (little endian here). External: encoding/binary.",
   technique="Lean 4 proof (parser/writer round trip by induction; lookup invariants) + differential correspondence against kmodel",
   design="5/C14"),
}

PENDING_REASON = "check not built yet in this session (planned: DESIGN.md section 5); not claimed until its theorems and correspondence run exist"

def main():
    props = [json.loads(l) for l in open(os.path.join(ROOT, "properties.jsonl"))]
    checks, na = [], []
    for p in props:
        pid = p["id"]
        if pid in CLAIMED:
            c = CLAIMED[pid]
            checks.append({
                "property_id": pid,
                "quick_cmd": f"./check {pid} --tier quick",
                "thorough_cmd": f"./check {pid} --tier thorough",
                "evidence_file": f"/verif/evidence/{pid}.json",
                "replay_cmd_template": f"./check {pid} --replay {{path}}",
                "engine": "lean4-proof+correspondence",
                "level_claimed": {"category": "proof", "text": c["text"], "design_ref": "DESIGN.md " + c["design"]},
                "level_note": COMMON_NOTE + c["note"],
                "technique": c["technique"],
            })
        else:
            na.append({"property_id": pid, "reason": NA.get(pid, PENDING_REASON)})
    m = {
        "version": 1,
        "setup_cmd": "./setup.sh",
        "hooks": {
            "guard": "verif",
            "enable": "go build/test -tags verif (the harness is always built with the tag)",
            "baseline_off_cmd": "cd /repo/v8 && go test -vet=off -count=1 ./...",
            "source_commits": HOOK_COMMITS,
            "add_only": True,
        },
        "engines": [{
            "name": "lean4-proof+correspondence", "path": "/verif/check",
            "serves_properties": sorted(CLAIMED.keys()),
            "kind_free_text": "Lean 4 theorems over hand-written executable models (lake project /verif/lean), axiom audit, and a Go differential harness (/verif/harness) that runs the real code and the compiled model driver on the same inputs",
        }],
        "checks": checks,
        "not_applicable": na,
        "notes": "Every check is `./check <id>`: rebuild harness from /repo's working tree, regenerate facts, lake build theorems + kmodel, audit axioms, run correspondence/search, write evidence. Known findings: /verif/known_findings.json.",
    }
    json.dump(m, open(os.path.join(ROOT, "MANIFEST.json"), "w"), indent=1)

NA = {}
HOOK_COMMITS = []
if __name__ == "__main__":
    main()
