import Driver.Util
import Krb.Crypto.Spec
import Krb.Crypto.Concrete
import Krb.Prims.HashTest
import Krb.Prims.CipherTest
namespace Driver.Crypto
open Krb Krb.Crypto Driver

def P : Prims := concrete

def parseEt (t : String) : Option EType := do
  let n ← parseNat t
  EType.ofId n

def handle (op : String) (args : List String) : Option String :=
  match op, args with
  | "cr.selftest", [] =>
    let bad := (Krb.Prims.hashSelfTest ++ Krb.Prims.cipherSelfTest).filter (fun p => !p.2)
    let n := (Krb.Prims.hashSelfTest ++ Krb.Prims.cipherSelfTest).length
    if bad.isEmpty then some s!"ok {n}" else some ("fail " ++ ",".intercalate (bad.map (·.1.replace " " "_")))
  | "cr.enc", [et, key, usage, conf, pt] => do
    let et ← parseEt et; let key ← parseHex key; let usage ← parseNat usage
    let conf ← parseHex conf; let pt ← parseHex pt
    pure ("ok " ++ showHex (encrypt P et key usage conf pt))
  | "cr.dec", [et, key, usage, ct] => do
    let et ← parseEt et; let key ← parseHex key; let usage ← parseNat usage; let ct ← parseHex ct
    match decrypt P et key usage ct with
    | some pt => pure ("ok " ++ showHex pt)
    | none => pure "none"
  | "cr.cksum", [et, key, usage, data] => do
    let et ← parseEt et; let key ← parseHex key; let usage ← parseNat usage; let data ← parseHex data
    pure ("ok " ++ showHex (checksum P et key usage data))
  | "cr.verify", [et, key, usage, data, ck] => do
    let et ← parseEt et; let key ← parseHex key; let usage ← parseNat usage
    let data ← parseHex data; let ck ← parseHex ck
    pure (if verifyChecksum P et key usage data ck then "1" else "0")
  | "cr.cksumtype", [ct] => do
    let ct ← parseInt ct
    match ianaChksumTable.lookup ct with
    | some et => pure s!"ok {et.id}"
    | none => pure "none"
  | "cr.s2k", [et, pw, salt, chars, iter] => do
    let et ← parseEt et; let pw ← parseHex pw; let salt ← parseHex salt
    let chars ← parseList parseNat chars; let iter ← parseNat iter
    pure ("ok " ++ showHex (stringToKey P et pw salt chars iter))
  | "cr.params", [p] => do
    let p ← parseHex p
    match parseIterations p with
    | some n => pure s!"ok {n}"
    | none => pure "none"
  | "cr.nfold", [m, nbits] => do
    let m ← parseHex m; let nbits ← parseNat nbits
    pure ("ok " ++ showHex (nfold m nbits))
  | "cr.dr", [et, key, c] => do
    let et ← parseEt et; let key ← parseHex key; let c ← parseHex c
    pure ("ok " ++ showHex (DR P et key c))
  | "cr.dk", [et, key, c] => do
    let et ← parseEt et; let key ← parseHex key; let c ← parseHex c
    pure ("ok " ++ showHex (DK P et key c))
  | "cr.kdf", [et, key, label, ctx, kbits] => do
    let et ← parseEt et; let key ← parseHex key; let label ← parseHex label
    let ctx ← parseHex ctx; let kbits ← parseNat kbits
    pure ("ok " ++ showHex (kdfHmacSha2 P et key label ctx kbits))
  | "cr.r2k", [et, r] => do
    let et ← parseEt et; let r ← parseHex r
    pure ("ok " ++ showHex (randomToKey et r))
  | "cr.msgtype", [u] => do
    let u ← parseNat u
    pure ("ok " ++ showHex (rc4MsgType u))
  | "cr.profile", [et] => do
    let et ← parseEt et
    pure s!"ok key={et.keyLen} seed={et.seedLen} conf={et.confLen} mac={et.macLen} block={et.blockLen} cksum={et.cksumType}"
  | _, _ => none

end Driver.Crypto
