import Driver.Util
import Krb.Model.CCache
namespace Driver.CCache
open Krb Krb.CCache Driver

/-- princ token: nameType;realmhex;comp,comp -/
def parsePrinc (t : String) : Option Princ :=
  match t.splitOn ";" with
  | [nt, realm, comps] => do
    let nt ← parseNat nt; let realm ← parseHex realm; let comps ← parseList parseHex comps
    pure { nameType := nt, realm, comps }
  | _ => none

def showPrinc (p : Princ) : String := s!"{p.nameType};{showHex p.realm};{showList showHex p.comps}"

def parseTyped (t : String) : Option (Nat × Bytes) :=
  match t.splitOn "~" with
  | [a, b] => do let a ← parseNat a; let b ← parseHex b; pure (a, b)
  | _ => none

def showTyped (x : Nat × Bytes) : String := s!"{x.1}~{showHex x.2}"

/-- cred token: client|server|keytype|key|t1|t2|t3|t4|skey|flags|addrs|authdata|ticket|second -/
def parseCred (t : String) : Option Cred :=
  match t.splitOn "|" with
  | [cl, sv, kt, key, t1, t2, t3, t4, sk, fl, ad, au, tk, st] => do
    let client ← parsePrinc cl; let server ← parsePrinc sv
    let kt ← parseNat kt; let key ← parseHex key
    let t1 ← parseNat t1; let t2 ← parseNat t2; let t3 ← parseNat t3; let t4 ← parseNat t4
    let sk ← parseNat sk; let fl ← parseNat fl
    let ad ← parseList parseTyped ad; let au ← parseList parseTyped au
    let tk ← parseHex tk; let st ← parseHex st
    pure { client, server, keyType := kt, key, authTime := t1, startTime := t2, endTime := t3,
           renewTill := t4, isSKey := sk, flags := fl, addrs := ad, authData := au, ticket := tk, second := st }
  | _ => none

def showCred (c : Cred) : String :=
  "|".intercalate [showPrinc c.client, showPrinc c.server, toString c.keyType, showHex c.key,
    toString c.authTime, toString c.startTime, toString c.endTime, toString c.renewTill,
    toString (if c.isSKey = 0 then 0 else 1), toString c.flags, showList showTyped c.addrs, showList showTyped c.authData,
    showHex c.ticket, showHex c.second]

def showCC (c : CC) : String :=
  s!"v={c.version} hdr={showList showTyped c.header} princ={showPrinc c.princ} creds=" ++
    " ".intercalate (c.creds.map showCred)

def handle (op : String) (args : List String) : Option String :=
  match op, args with
  -- independent writer
  | "cc.render", le :: v :: hdr :: princ :: creds => do
    let le ← parseBool le; let v ← parseNat v
    let hdr ← parseList parseTyped hdr
    let princ ← parsePrinc princ
    let creds ← creds.mapM parseCred
    pure ("ok " ++ showHex (Spec.render le { version := v, header := hdr, princ, creds }))
  -- model of Unmarshal
  | "cc.parse", [le, b] => do
    let le ← parseBool le; let b ← parseHex b
    match Impl.unmarshal le b with
    | some c => pure ("ok " ++ showCC c)
    | none => pure "err"
  -- what a client built from the file holds: one line item per SPN, sorted
  | "cc.client", [le, b] => do
    let le ← parseBool le; let b ← parseHex b
    match Impl.unmarshal le b with
    | none => pure "err"
    | some c =>
      let items := (Impl.clientCache c).map (fun e =>
        s!"{showHex e.1}:{e.2.keyType}:{showHex e.2.key}:{e.2.authTime}:{e.2.startTime}:{e.2.endTime}:{e.2.renewTill}:{showHex e.2.ticket}")
      pure ("ok " ++ " ".intercalate (items.toArray.qsort (· < ·)).toList)
  | _, _ => none

end Driver.CCache
