import Driver.Util
import Krb.Model.Shared
namespace Driver.Shared
open Krb Krb.Shared Driver

def handle (op : String) (args : List String) : Option String :=
  match op, args with
  -- sh.rand k choices : the order for servers 0..k-1 under the given choices
  | "sh.rand", [k, cs] => do
    let k ← parseNat k; let cs ← parseList parseNat cs
    let l := List.range k
    let r := randServOrder l cs
    let isPerm := r.length == k && l.all (fun x => r.count x == 1)
    pure ((if isPerm then "perm " else "not-a-permutation ") ++ showList (fun n => toString n) r)
  | _, _ => none

end Driver.Shared
