import Driver.Util
import Driver.C14
import Driver.ApReq
import Krb.Model.ClientVerify
namespace Driver.KdcRep
open Krb Krb.KdcRep Krb.ClientVerify Driver

def P := Krb.Crypto.concrete

def showOpened (o : Opened) (v : Verdict) : String :=
  match v with
  | .ok =>
    match o.key with
    | some (kt, kv) => s!"ok {kt} {showHex kv} {o.endUs}"
    | none => "ok ?"
  | .reject why => s!"err {why}"

def parseSecret (t : String) : Option (List Keytab.Entry → Secret) :=
  match t.splitOn ":" with
  | ["k"] => some (fun es => .keytab es)
  | ["p", pw, chars] => do
    let pw ← parseHex pw; let chars ← parseList parseNat chars
    pure (fun _ => .password pw chars)
  | _ => none

def handle (op : String) (args : List String) : Option String :=
  match op, args with
  -- kr.as mode now skew cname realm nonce sname addrs secret reply kt…
  | "kr.as", mode :: now :: skew :: cname :: realm :: nonce :: sname :: addrs :: sec :: reply :: kt => do
    let now ← parseInt now; let skew ← parseInt skew
    let cname ← parseList parseHex cname; let realm ← parseHex realm; let nonce ← parseInt nonce
    let sname ← parseList parseHex sname; let addrs ← parseList ApReq.parseAddr addrs
    let sec ← parseSecret sec; let reply ← parseHex reply
    let kt ← kt.mapM C14.parseEntry
    let r : Req := { cname, realm, nonce, sname, addrs }
    match (if mode == "exchange" then asKrbError reply else none) with
    | some code => pure s!"krberror {code}"
    | none =>
      match openAS P (sec kt) reply with
      | none => pure "unmarshal-error"
      | some o => pure (showOpened o (asVerify skew now r o.outer o.enc))
  -- kr.tgs mode now skew clientrealm|- cname realm nonce sname addrs keytype key reply
  | "kr.tgs", [mode, now, skew, cr, cname, realm, nonce, sname, addrs, ktype, key, reply] => do
    let now ← parseInt now; let skew ← parseInt skew
    let cr ← parseOpt parseHex cr
    let cname ← parseList parseHex cname; let realm ← parseHex realm; let nonce ← parseInt nonce
    let sname ← parseList parseHex sname; let addrs ← parseList ApReq.parseAddr addrs
    let ktype ← parseInt ktype; let key ← parseHex key; let reply ← parseHex reply
    let r : Req := { cname, realm, nonce, sname, addrs }
    match (if mode == "exchange" then asKrbError reply else none) with
    | some code => pure s!"krberror {code}"
    | none =>
      match openTGS P ktype key reply with
      | none => pure "unmarshal-error"
      | some o => pure (showOpened o (tgsVerify skew now cr r o.outer o.enc))
  | _, _ => none

end Driver.KdcRep
