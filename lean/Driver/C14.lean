import Driver.Util
import Krb.Model.Keytab
namespace Driver.C14
open Krb Krb.Keytab Driver

/-- entry token: realm:comps:nameType:ts:kvno8:etype:key:kvno -/
def parseEntry (t : String) : Option Entry :=
  match t.splitOn ":" with
  | [realm, comps, nt, ts, k8, et, key, kv] => do
    let realm ← parseHex realm
    let comps ← parseList parseHex comps
    let nt ← parseNat nt
    let ts ← parseNat ts
    let k8 ← parseNat k8
    let et ← parseNat et
    let key ← parseHex key
    let kv ← parseNat kv
    pure { realm, comps, nameType := nt, ts, kvno8 := k8, etype := et, key, kvno := kv }
  | _ => none

def showEntry (e : Entry) : String :=
  ":".intercalate [showHex e.realm, showList showHex e.comps, toString e.nameType, toString e.ts,
    toString e.kvno8, toString e.etype, showHex e.key, toString e.kvno]

/-- item token: `H<n>` for a hole, `E<entry>/<kvno32|->` for an entry -/
def parseItem (t : String) : Option Spec.Item :=
  match t.toList with
  | 'H' :: r => (String.ofList r).toNat?.map Spec.Item.hole
  | 'E' :: r =>
    match (String.ofList r).splitOn "/" with
    | [e, k] => do
      let e ← parseEntry e
      let k ← parseOpt parseNat k
      pure (Spec.Item.entry e k)
    | _ => none
  | _ => none

def handle (op : String) (args : List String) : Option String :=
  match op, args with
  | "kt.render", le :: v :: items => do
    let le ← parseBool le
    let v ← parseNat v
    let items ← items.mapM parseItem
    pure ("ok " ++ showHex (Spec.render le v items))
  | "kt.expect", v :: items => do
    let v ← parseNat v
    let items ← items.mapM parseItem
    pure ("ok " ++ " ".intercalate ((Spec.entriesOf v items).map showEntry))
  | "kt.parse", [le, b] => do
    let le ← parseBool le
    let b ← parseHex b
    match Impl.unmarshal le b with
    | .ok (v, es) => pure (s!"ok {v} " ++ " ".intercalate (es.map showEntry))
    | .error e => pure ("err " ++ e)
  | "kt.marshal", le :: v :: es => do
    let le ← parseBool le
    let v ← parseNat v
    let es ← es.mapM parseEntry
    pure ("ok " ++ showHex (Impl.marshal le v es))
  | "kt.lookup", realm :: name :: kvno :: et :: es => do
    let realm ← parseHex realm
    let name ← parseList parseHex name
    let kvno ← parseNat kvno
    let et ← parseNat et
    let es ← es.mapM parseEntry
    match Impl.getKey es realm name kvno et with
    | some (k, kv) => pure s!"ok {showHex k} {kv}"
    | none => pure "none"
  | _, _ => none

end Driver.C14
