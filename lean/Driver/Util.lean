/-
  Line-protocol helpers for the compiled model driver `kmodel`.
  A request is one line of space-separated tokens: `<op> <arg> …`.  Byte strings are hex prefixed with
  `x` (`x` alone is the empty string), integers are decimal, lists are comma-separated, records are
  colon-separated.  Anything that does not parse yields `bad-op` (never a default value).
-/
import Krb.Base.Bytes
namespace Driver
open Krb

def parseHex (t : String) : Option Bytes :=
  match t.toList with
  | 'x' :: r => ofHexChars r
  | _ => none

def showHex (b : Bytes) : String := "x" ++ toHex b

def parseNat (t : String) : Option Nat := t.toNat?

def parseInt (t : String) : Option Int := t.toInt?

def parseBool (t : String) : Option Bool :=
  if t == "1" then some true else if t == "0" then some false else none

/-- comma-separated list; the single token `-` is the empty list -/
def parseList {α : Type} (f : String → Option α) (t : String) : Option (List α) :=
  if t == "-" then some [] else (t.splitOn ",").mapM f

def showList {α : Type} (f : α → String) (l : List α) : String :=
  if l.isEmpty then "-" else ",".intercalate (l.map f)

def parseOpt {α : Type} (f : String → Option α) (t : String) : Option (Option α) :=
  if t == "-" then some none else (f t).map some

end Driver
