import Driver.Util
import Krb.Asn1.Rfc4120
namespace Driver.Asn1
open Krb Krb.Asn1 Driver

/-- canonical text of a value: i<dec>, x<hex>, b<unused>:<hexbytes>, t/f, (seq …) with `-` for an absent
    component, [list …], r<hex> -/
partial def showVal : Val → String
  | .int i => s!"i{i}"
  | .bytes b => showHex b
  | .bits u b => s!"b{u}:{toHex b}"
  | .bool b => if b then "T" else "F"
  | .seq fs => "(" ++ " ".intercalate (fs.map (fun o => match o with | none => "-" | some v => showVal v)) ++ ")"
  | .list vs => "[" ++ " ".intercalate (vs.map showVal) ++ "]"
  | .raw b => "r" ++ toHex b

/-- tokens of the canonical text -/
def tokenize (s : String) : List String :=
  let cs := s.toList
  let rec go (cs : List Char) (cur : List Char) (acc : List String) : List String :=
    match cs with
    | [] => (if cur.isEmpty then acc else String.ofList cur.reverse :: acc).reverse
    | c :: r =>
      if c == '(' || c == ')' || c == '[' || c == ']' then
        go r [] (String.singleton c :: (if cur.isEmpty then acc else String.ofList cur.reverse :: acc))
      else if c == ' ' then go r [] (if cur.isEmpty then acc else String.ofList cur.reverse :: acc)
      else go r (c :: cur) acc
  go cs [] []

mutual
partial def parseVal : List String → Option (Option Val × List String)
  | [] => none
  | "-" :: r => some (none, r)
  | "(" :: r => (parseSeq r []).map (fun (fs, r') => (some (.seq fs), r'))
  | "[" :: r => (parseLst r []).map (fun (vs, r') => (some (.list vs), r'))
  | t :: r =>
    match t.toList with
    | 'i' :: d => (String.ofList d).toInt?.map (fun i => (some (.int i), r))
    | 'x' :: d => (ofHexChars d).map (fun b => (some (.bytes b), r))
    | 'r' :: d => (ofHexChars d).map (fun b => (some (.raw b), r))
    | ['T'] => some (some (.bool true), r)
    | ['F'] => some (some (.bool false), r)
    | 'b' :: d =>
      match (String.ofList d).splitOn ":" with
      | [u, h] => do let u ← u.toNat?; let b ← ofHexChars h.toList; pure (some (.bits u b), r)
      | _ => none
    | _ => none
partial def parseSeq : List String → List (Option Val) → Option (List (Option Val) × List String)
  | ")" :: r, acc => some (acc.reverse, r)
  | ts, acc => do let (v, r) ← parseVal ts; parseSeq r (v :: acc)
partial def parseLst : List String → List Val → Option (List Val × List String)
  | "]" :: r, acc => some (acc.reverse, r)
  | ts, acc => do
    let (v, r) ← parseVal ts
    match v with
    | some x => parseLst r (x :: acc)
    | none => none
end

def handle (op : String) (args : List String) : Option String :=
  match op, args with
  -- decode bytes under the RFC type with that name
  | "asn1.dec", [ty, b] => do
    let t ← Rfc.byName ty; let b ← parseHex b
    match decode t b with
    | some v => pure ("ok " ++ showVal v)
    | none => pure "none"
  -- encode a value (canonical text) under the RFC type
  | "asn1.enc", ty :: rest => do
    let t ← Rfc.byName ty
    let (v, _) ← parseVal (tokenize (" ".intercalate rest))
    let v ← v
    match encode t v with
    | some b => pure ("ok " ++ showHex b)
    | none => pure "none"
  | "asn1.len", [n] => do
    let n ← parseNat n
    pure ("ok " ++ showHex (encLen n))
  | "asn1.declen", [b] => do
    let b ← parseHex b
    match decLen b with
    | some (n, r) => pure s!"ok {n} {showHex r}"
    | none => pure "none"
  | "asn1.int", [i] => do
    let i ← parseInt i
    pure ("ok " ++ showHex (encInt i))
  | _, _ => none

end Driver.Asn1
