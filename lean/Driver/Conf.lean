import Driver.Util
import Krb.Model.Conf
namespace Driver.Conf
open Krb Krb.Conf Driver

def str (b : Bytes) : Str := (String.fromUTF8! (toBA b)).toList
def unstr (s : Str) : String := showHex (String.ofList s).toUTF8.toList

def parseKey (t : String) : Option RKey :=
  if t == "admin" then some .admin else if t == "dd" then some .defaultDomain
  else if t == "kdc" then some .kdc else if t == "kpasswd" then some .kpasswd
  else if t == "master" then some .master else if t == "other" then some .other else none

/-- line token: `b` blank, or `<e><o><c><v>:<key>:<hexval>` with four 0/1 flags -/
def parseLine (t : String) : Option Line :=
  if t == "b" then some { blank := true, hasEq := false, hasOpen := false, hasClose := false, hasV4 := false }
  else match t.splitOn ":" with
    | [flags, key, val] =>
      match flags.toList with
      | [e, o, c, v] => do
        let key ← parseKey key
        let val ← parseHex val
        pure { hasEq := e == '1', hasOpen := o == '1', hasClose := c == '1', hasV4 := v == '1', key := key, val := str val }
      | _ => none
    | _ => none

def showRealm (r : Realm) : String :=
  s!"admin={showList unstr r.admin} kdc={showList unstr r.kdc} kpasswd={showList unstr r.kpasswd} master={showList unstr r.master} dd={unstr r.defaultDomain}"

def labels (b : Bytes) : List Str := ((String.fromUTF8! (toBA b)).splitOn ".").map String.toList

/-- mapping token: `x<hexhost>=<hexrealm>` exact host, `d<hexdomain>=<hexrealm>` domain (without the dot) -/
def parseMap (t : String) : Option (Key × Str) :=
  match t.toList with
  | k :: rest =>
    match (String.ofList rest).splitOn "=" with
    | [h, r] => do
      let h ← parseHex ("x" ++ h); let r ← parseHex ("x" ++ r)
      if k == 'x' then pure (.exact (labels h), str r)
      else if k == 'd' then pure (.dom (labels h), str r) else none
    | _ => none
  | _ => none

/-- outer line token: `B` blank for the section splitter, else `<o><e><c>/<hexname>/<inner line token>` -/
def parseOLine (t : String) : Option OLine :=
  match t.splitOn "/" with
  | [flags, name, inner] =>
    match flags.toList with
    | [b, o, e, c] => do
      let name ← parseHex name
      let inner ← parseLine inner
      pure { blank := b == '1', hasOpen := o == '1', hasEq := e == '1', hasClose := c == '1', name := str name, inner := inner }
    | _ => none
  | _ => none

def handle (op : String) (args : List String) : Option String :=
  match op, args with
  | "conf.realms", g :: lines => do
    let lines ← lines.mapM parseOLine
    match parseRealms (g == "1") lines with
    | .ok (rs, unsup) =>
      pure ("ok " ++ (if unsup then "unsupported " else "") ++ " | ".intercalate (rs.map (fun (n, r) => unstr n ++ " " ++ showRealm r)))
    | .err e => pure ("err " ++ e)
    | .crash w => pure ("panic " ++ w)
  | "conf.realm", lines => do
    let lines ← lines.mapM parseLine
    match parseRealm lines with
    | .ok r => pure ("ok " ++ showRealm r)
    | .err e => pure ("err " ++ e)
    | .crash w => pure ("panic " ++ w)
  | "conf.resolve", host :: maps => do
    let host ← parseHex host
    let maps ← maps.mapM parseMap
    pure ("ok " ++ unstr (resolve maps (labels host)))
  | "conf.hms", parts => do
    let parts ← parts.mapM parseInt
    match hmsSeconds parts with
    | some n => pure ("ok " ++ toString n)
    | none => pure "err"
  | _, _ => none

end Driver.Conf
