import Driver.Util
import Driver.C14
import Driver.Crypto
import Driver.Gss
import Driver.Pac
import Driver.Replay
import Driver.Net
import Driver.Conf
import Driver.CCache
import Driver.Asn1
import Driver.ApReq
import Driver.Spnego
import Driver.KdcRep
import Driver.Client
import Driver.Shared
import Driver.HttpClient
import Driver.Total
import Driver.B64

open Driver

def dispatch (line : String) : String :=
  let toks := (line.trimAscii.toString.splitOn " ").filter (· ≠ "")
  match toks with
  | [] => "bad-op"
  | op :: args =>
    let r : Option String :=
      if op.startsWith "kt." then C14.handle op args
      else if op.startsWith "cr." then Crypto.handle op args
      else if op.startsWith "gss." then Gss.handle op args
      else if op.startsWith "pac." then Pac.handle op args
      else if op.startsWith "rc." then Replay.handle op args
      else if op.startsWith "net." then Net.handle op args
      else if op.startsWith "conf." then Conf.handle op args
      else if op.startsWith "cc." then CCache.handle op args
      else if op.startsWith "asn1." then Asn1.handle op args
      else if op.startsWith "ap." then ApReq.handle op args
      else if op.startsWith "sp." then Spnego.handle op args
      else if op.startsWith "kr." then KdcRep.handle op args
      else if op.startsWith "cl." then Client.handle op args
      else if op.startsWith "sh." then Shared.handle op args
      else if op.startsWith "hc." then HttpClient.handle op args
      else if op.startsWith "tt." then Total.handle op args
      else if op.startsWith "b64." then B64.handle op args
      else none
    match r with
    | some s => s
    | none => "bad-op"

partial def loop (hin hout : IO.FS.Stream) : IO Unit := do
  let line ← hin.getLine
  if line.isEmpty then return ()
  hout.putStrLn (dispatch line)
  hout.flush
  loop hin hout

def main : IO Unit := do
  loop (← IO.getStdin) (← IO.getStdout)
