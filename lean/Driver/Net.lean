import Driver.Util
import Krb.Model.Net
namespace Driver.Net
open Krb.Net Driver

def parseBeh (t : String) : Option Beh :=
  if t == "a" then some .answer else if t == "r" then some .refuse
  else if t == "c" then some .closeEarly else if t == "s" then some .silent
  else match t.toList with
    | 'e' :: r => (String.ofList r).toNat?.map Beh.krbError
    | _ => none

def handle (op : String) (args : List String) : Option String :=
  match op, args with
  | "net.send", [limit, reqLen, otcp, oudp, tcp, udp] => do
    let limit ← parseNat limit; let reqLen ← parseNat reqLen
    let otcp ← parseList parseNat otcp; let oudp ← parseList parseNat oudp
    let tcp ← parseList parseBeh tcp; let udp ← parseList parseBeh udp
    let o := sendToKDC limit reqLen otcp oudp (fun k => tcp.getD k .refuse) (fun k => udp.getD k .refuse)
    let r := match o.res with
      | .ok k true => s!"ok {k} tcp"
      | .ok k false => s!"ok {k} udp"
      | .krbErr c => s!"krberr {c}"
      | .commErr => "commerr"
      | .emptyOk => "emptyok"
    pure s!"{r} tcp={showList toString o.tcpTried} udp={showList toString o.udpTried}"
  | _, _ => none

end Driver.Net
