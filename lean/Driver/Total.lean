import Driver.Util
import Krb.Model.Total
namespace Driver.Total
open Krb Krb.Total Driver

def showO {α : Type} (f : α → String) : Outcome α → String
  | .ok a => "ok " ++ f a
  | .err k => "err " ++ k.replace " " "-"
  | .crash w => "crash " ++ w.replace " " "-"

def handle (op : String) (args : List String) : Option String :=
  match op, args with
  | "tt.len", [b] => do
    let b ← parseHex b
    pure (showO toString (numLenBytes b) ++ " | " ++ showO toString (lengthFromASN b))
  | "tt.reply", [b] => do
    let b ← parseHex b
    pure (showO (fun p => match p with
      | .krbError e => "krberror " ++ showHex e
      | .apRepAndPriv a p => "aprep " ++ showHex a ++ " " ++ showHex p) (replySlices b))
  | "tt.resp", [b] => do
    let b ← parseHex b
    pure (showO (fun (c, r) => s!"{c} {showHex r}") (parseResponse b))
  | "tt.upn", [n, ul, uo, dl, dO] => do
    -- the buffer is n zero bytes: only its length matters to the slicing
    let n ← n.toNat?; let ul ← ul.toNat?; let uo ← uo.toNat?; let dl ← dl.toNat?; let dO ← dO.toNat?
    pure (showO (fun (u, d) => s!"{u.length} {d.length}") (upnSlices (List.replicate n 0) ul uo dl dO))
  | "tt.ktwalk", [host, b] => do
    let b ← parseHex b
    pure (showO (fun es => s!"{es.length} " ++ " ".intercalate (es.map (fun e => toString e.length))) (ktRecords b (host == "1")))
  -- s2kparams value -> iterations run, or refused
  | "tt.iter", [p] => do
    let p ← parseNat p
    match iterationsAccepted (iterationsOfParam p) with
    | some n => pure s!"ok {n}"
    | none => pure "refused"
  | _, _ => none

end Driver.Total
