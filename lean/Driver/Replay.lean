import Driver.Util
import Krb.Model.Replay
namespace Driver.Replay
open Krb Krb.Replay Driver

def parseOp (t : String) : Option Op :=
  match t.splitOn ":" with
  | ["p", cl, ct, svc] => do
    let cl ← parseNat cl; let ct ← parseInt ct; let svc ← parseNat svc
    pure (Op.present cl ct svc)
  | ["c", now, d] => do
    let now ← parseInt now; let d ← parseInt d
    pure (Op.cleanup now d)
  | _ => none

def showRes : Option Bool → String
  | some true => "1"
  | some false => "0"
  | none => "-"

def handle (op : String) (args : List String) : Option String :=
  match op, args with
  | "rc.run", ops => do
    let ops ← ops.mapM parseOp
    pure ("ok " ++ showList showRes (run [] ops).2)
  | _, _ => none

end Driver.Replay
