import Driver.Util
import Krb.Model.Client
import Krb.Model.ReqCheck
import Driver.Crypto
namespace Driver.Client
open Krb Krb.Client Driver

def parseOptInt (t : String) : Option (Option Int) := if t == "-" then some none else (parseInt t).map some

def parseReply (t : String) : Option Reply :=
  match t.splitOn ":" with
  | ["e", c] => (parseNat c).map .error
  | ["i", id, issuer, sname, auth, start, end_, rt] => do
    let id ← parseNat id; let issuer ← parseHex issuer; let sname ← parseList parseHex sname
    let auth ← parseInt auth; let start ← parseInt start; let end_ ← parseInt end_; let rt ← parseOptInt rt
    pure (.issued { id, issuer, sname, authNs := auth, startNs := start, endNs := end_, renewTill := rt })
  | _ => none

def parseReq (t : String) : Option Req :=
  match t.splitOn ":" with
  | ["A", realm, pa] => do
    let realm ← parseHex realm; let pa ← parseBool pa
    pure { kind := .as, realm, sname := [krbtgt, realm], pa }
  | ["T", realm, sname, renew, tkt] => do
    let realm ← parseHex realm; let sname ← parseList parseHex sname; let renew ← parseBool renew; let tkt ← parseNat tkt
    pure { kind := .tgs, realm, sname, renew, tktId := tkt }
  | _ => none

/-- `req>reply` pairs separated by `/` -/
def parseReplies (t : String) : Option (List (Req × Reply)) :=
  if t == "-" then some []
  else (t.splitOn "/").mapM (fun p =>
    match p.splitOn ">" with
    | [q, r] => do let q ← parseReq q; let r ← parseReply r; pure (q, r)
    | _ => none)

def showReq (q : Req) : String :=
  match q.kind with
  | .as => s!"A {showHex q.realm} {if q.pa then 1 else 0}"
  | .tgs => s!"T {showHex q.realm} {showList showHex q.sname} {if q.renew then 1 else 0} {q.tktId}"

def showReqs (l : List Req) : String := if l.isEmpty then "-" else ", ".intercalate (l.map showReq)

/-- run one op; returns the new state and the printed outcome -/
def runOp (st : State) (t : String) : Option (State × String) :=
  match t.splitOn "|" with
  | ["P"] =>
    -- the application told the client to assume pre-authentication (a setting, made before the first request)
    pure ({ st with assumePA := true }, "- => ok left=0")
  | ["L", now, replies] => do
    let now ← parseInt now; let replies ← parseReplies replies
    let (r, ok) := login { st, replies } now
    pure (r.st, s!"{showReqs r.sent} => {if ok then "ok" else "fail"} left={r.replies.length}")
  | ["G", now, sname, resolved, replies] => do
    let now ← parseInt now; let sname ← parseList parseHex sname; let resolved ← parseHex resolved
    let replies ← parseReplies replies
    let (r, res) := getServiceTicket { st, replies } now sname resolved
    pure (r.st, s!"{showReqs r.sent} => {match res with | some t => s!"ok {t.id}" | none => "fail"} left={r.replies.length}")
  | ["S", target, replies] => do
    let target ← parseInt target; let replies ← parseReplies replies
    let r := sleep 4000 { st, replies } target
    let spin := (nextTimer r.st target).isSome
    pure (r.st, s!"{showReqs r.sent} => {if spin then "spin" else "ok"} left={r.replies.length}")
  | _ => none

def runOps : State → List String → List String → Option (List String)
  | _, [], acc => some acc.reverse
  | st, t :: ts, acc =>
    match runOp st t with
    | none => none
    | some (st', out) => runOps st' ts (out :: acc)

def parseExpect (opts cname crealm realm sname now life rlife etypes : String) : Option Krb.ReqCheck.Expect := do
  let options ← parseHex opts; let cname ← parseList parseHex cname; let crealm ← parseHex crealm
  let realm ← parseHex realm; let sname ← parseList parseHex sname; let nowUs ← parseInt now
  let lifetimeS ← parseInt life; let renewLifetimeS ← parseInt rlife; let etypes ← parseList parseInt etypes
  pure { options, cname, crealm, realm, sname, nowUs, lifetimeS, renewLifetimeS, etypes }

def showIssues (l : List String) : String := if l.isEmpty then "ok" else "; ".intercalate l

def handle (op : String) (args : List String) : Option String :=
  match op, args with
  -- cl.run clientrealm op…
  | "cl.run", realm :: ops => do
    let realm ← parseHex realm
    let outs ← runOps { clientRealm := realm } ops []
    pure (" ## ".intercalate outs)
  | "cl.checkas", [opts, cname, crealm, realm, sname, now, life, rlife, etypes, et, key, wantpa, req] => do
    let e ← parseExpect opts cname crealm realm sname now life rlife etypes
    let et ← Crypto.parseEt et; let key ← parseHex key; let wantpa ← parseBool wantpa; let req ← parseHex req
    pure (showIssues (Krb.ReqCheck.checkAS Crypto.P e et key wantpa req))
  | "cl.checktgs", [opts, cname, crealm, realm, sname, now, life, rlife, etypes, et, key, tkt, req] => do
    let e ← parseExpect opts cname crealm realm sname now life rlife etypes
    let et ← Crypto.parseEt et; let key ← parseHex key; let tkt ← parseHex tkt; let req ← parseHex req
    pure (showIssues (Krb.ReqCheck.checkTGS Crypto.P e et key tkt req))
  | "cl.shape", [kind, req] => do
    let req ← parseHex req
    pure (showIssues (Krb.ReqCheck.shape (kind == "TGSReq") req))
  | "cl.decide", [now, start, end_, rt] => do
    let now ← parseInt now; let start ← parseInt start; let end_ ← parseInt end_; let rt ← parseOptInt rt
    let d := cacheDecision now { id := 0, issuer := [], sname := [], authNs := start, startNs := start, endNs := end_, renewTill := rt }
    pure (match d with | .serve => "serve" | .renew => "renew" | .miss => "miss")
  | _, _ => none

end Driver.Client
