import Driver.Util
import Driver.C14
import Driver.Crypto
import Krb.Model.Acceptor
namespace Driver.ApReq
open Krb Krb.ApReq Krb.Acceptor Driver

def P := Krb.Crypto.concrete

def showVerdict : Verdict → String
  | .accept cn cr vu => s!"ok {showList showHex cn} {showHex cr} {vu}"
  | .reject c => s!"err {c}"

def parseAddr (t : String) : Option (Int × Bytes) :=
  match t.splitOn "~" with
  | [a, b] => do let a ← parseInt a; let b ← parseHex b; pure (a, b)
  | _ => none

def handle (op : String) (args : List String) : Option String :=
  match op, args with
  -- ap.verify now_us skew_us clientaddr|- reqhost pac override|- replay apreq kvbad kt-entries…
  | "ap.verify", now :: skew :: caddr :: reqhost :: pac :: ovr :: replay :: apreq :: kvbad :: kt => do
    let now ← parseInt now; let skew ← parseInt skew
    let caddr ← parseOpt parseAddr caddr
    let reqhost ← parseBool reqhost; let pac ← parseBool pac
    let ovr ← (if ovr == "-" then some none else (parseList parseHex (ovr.drop 1).toString).map some)
    let replay ← parseBool replay
    let apreq ← parseHex apreq
    let bad ← parseList parseHex kvbad
    let kt ← kt.mapM C14.parseEntry
    let inp : Input := { kt, settings := { skewUs := skew, clientAddr := caddr, requireHostAddr := reqhost, decodePAC := pac },
                         override := ovr, nowUs := now, replay, kvOk := fun p => !(bad.contains p) }
    pure (showVerdict (accept P inp apreq))
  | _, _ => none

end Driver.ApReq
