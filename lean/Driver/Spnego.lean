import Driver.Util
import Driver.C14
import Driver.ApReq
import Krb.Model.Spnego
namespace Driver.Spnego
open Krb Krb.ApReq Krb.Acceptor Krb.Spnego Krb.Asn1 Driver

def P := Krb.Crypto.concrete

/-- the first element of `b` (header + declared length), as Go's decoder reads a message and ignores what follows -/
def firstTLV (b : Bytes) : Bytes :=
  match GoAsn1.parseHdr b with
  | some (h, r) => b.take (b.length - r.length + h.len)
  | none => b

def msgTypeIs (t : Ty) (idx : Nat) (mt : Int) (b : Bytes) : Bool :=
  match decode t (firstTLV b) with
  | some v => ((fld v idx) >>= asInt) == some mt
  | none => false

def mkEnv (inp : Input) : Env :=
  { apReqParses := msgTypeIs Rfc.apReq 1 14
    apRepParses := msgTypeIs Rfc.apRep 1 15
    krbErrParses := msgTypeIs Rfc.krbError 1 30
    accept := fun der =>
      match accept P inp (firstTLV der) with
      | .accept cn cr vu => some { cname := cn, crealm := cr, validUntilUs := vu }
      | .reject _ => none }

def parseInput (now skew caddr reqhost pac ovr replay kvbad : String) (kt : List String) : Option Input := do
  let now ← parseInt now; let skew ← parseInt skew
  let caddr ← parseOpt ApReq.parseAddr caddr
  let reqhost ← parseBool reqhost; let pac ← parseBool pac
  let ovr ← (if ovr == "-" then some none else (parseList parseHex (ovr.drop 1).toString).map some)
  let replay ← parseBool replay
  let bad ← parseList parseHex kvbad
  let kt ← kt.mapM C14.parseEntry
  pure { kt, settings := { skewUs := skew, clientAddr := caddr, requireHostAddr := reqhost, decodePAC := pac },
         override := ovr, nowUs := now, replay, kvOk := fun p => !(bad.contains p) }

def showId (i : Identity) : String := s!"{showList showHex i.cname} {showHex i.crealm} {i.validUntilUs}"

def parseSession (t : String) : Option Session :=
  match t.splitOn ":" with
  | ["n"] => some .noManager
  | ["f"] => some .getFails
  | ["m"] => some .malformed
  | ["c", a, cn, cr, vu] => do
    let a ← parseBool a; let cn ← parseList parseHex cn; let cr ← parseHex cr; let vu ← parseInt vu
    pure (.creds a { cname := cn, crealm := cr, validUntilUs := vu })
  | _ => none

def showStatus : Status → String
  | .complete => "complete" | .continueNeeded => "continue" | .defectiveToken => "defective-token"
  | .defectiveCredential => "defective-credential" | .badMech => "bad-mech" | .failure => "failure"
  | .unavailable => "unavailable"

def showResp : Response → String
  | .served id fresh => s!"served {showId id} fresh={if fresh then 1 else 0}"
  | .unauthorized .bare => "401 bare"
  | .unauthorized .incomplete => "401 incomplete"
  | .unauthorized .reject => "401 reject"
  | .serverError => "500"
  | .crashed => "crashed"

def showV (r : Bool × Status × Option Identity) : String :=
  s!"{if r.1 then 1 else 0} {showStatus r.2.1}" ++ (match r.2.2 with | some i => " " ++ showId i | none => "")

def handle (op : String) (args : List String) : Option String :=
  match op, args with
  -- sp.http now skew caddr reqhost pac override replay session newfails header kvbad kt…
  | "sp.http", now :: skew :: caddr :: reqhost :: pac :: ovr :: replay :: sess :: nf :: hdr :: kvbad :: kt => do
    let inp ← parseInput now skew caddr reqhost pac ovr replay kvbad kt
    let sess ← parseSession sess; let nf ← parseBool nf; let hdr ← parseHex hdr
    pure (showResp (Impl.handle (mkEnv inp) Impl.k5Verify Impl.acceptSecContext
      { session := sess, authorization := hdr, newSessionFails := nf }))
  -- sp.accept now … replay token kvbad kt… : SPNEGOToken.Unmarshal + AcceptSecContext
  | "sp.accept", now :: skew :: caddr :: reqhost :: pac :: ovr :: replay :: tok :: kvbad :: kt => do
    let inp ← parseInput now skew caddr reqhost pac ovr replay kvbad kt
    let tok ← parseHex tok
    match Impl.spUnmarshal tok with
    | none => pure "unmarshal-error"
    | some st =>
      match Impl.acceptSecContext (mkEnv inp) Impl.k5Verify st with
      | .ok r => pure (showV r)
      | _ => pure "crashed"
  -- sp.verify kind token : the Verify methods on tokens that need no service settings
  | "sp.verify", [kind, tok] => do
    let tok ← parseHex tok
    let E : Env := { apReqParses := msgTypeIs Rfc.apReq 1 14, apRepParses := msgTypeIs Rfc.apRep 1 15,
                     krbErrParses := msgTypeIs Rfc.krbError 1 30, accept := fun _ => none }
    match kind with
    | "k5" => pure (match Impl.k5Unmarshal E tok with | none => "unmarshal-error" | some t => showV (Impl.k5Verify E t))
    | "sp" => pure (match Impl.spUnmarshal tok with | none => "unmarshal-error" | some t => showV (Impl.spVerify E Impl.k5Verify t))
    | "neg" => pure (match Impl.unmarshalNegToken tok with | none => "unmarshal-error" | some t => showV (Impl.spVerify E Impl.k5Verify t))
    | _ => none
  | "sp.b64", [s] => do
    let s ← parseHex s
    pure (match b64decode s with | some b => showHex b | none => "err")
  | _, _ => none

end Driver.Spnego
