import Driver.Util
import Krb.Model.HttpClient
namespace Driver.HttpClient
open Krb Krb.HttpClient Driver

def parseResp (t : String) : Option Resp :=
  match t.toList with
  | ['c'] => some .challenge
  | ['e'] => some .netError
  | 'f' :: r => (String.ofList r).toNat?.map .final
  | 'r' :: r =>
    -- r<code>:<host>
    match (String.ofList r).splitOn ":" with
    | [code, h] => do
      let code ← code.toNat?; let h ← h.toNat?
      pure (.redirect h (code == 307 || code == 308) code)
    | _ => none
  | _ => none

def showReq (q : Req) : String := s!"{q.host}:{if q.token then 1 else 0}:{if q.body then 1 else 0}"

def showResult : Result → String
  | .response c => s!"resp {c}"
  | .challengeReturned => "resp 401"
  | .error w => s!"err {w.replace " " "-"}"

def handle (op : String) (args : List String) : Option String :=
  match op, args with
  -- hc.run script reds host token body canAuthHosts
  | "hc.run", [script, reds, host, token, body, getBody, isGet, can] => do
    let script ← parseList parseResp script
    let reds ← parseNat reds; let host ← parseNat host; let token ← parseBool token; let body ← parseBool body
    let getBody ← parseBool getBody; let isGet ← parseBool isGet
    let can ← parseList parseNat can
    let o := run (fun h => can.contains h) script reds { host, token, body, getBody, isGet }
    pure s!"{showList showReq o.sent} => {showResult o.result} reds={o.redirects}"
  | _, _ => none

end Driver.HttpClient
