import Driver.Util
import Driver.Crypto
import Krb.Model.Pac
namespace Driver.Pac
open Krb Krb.Crypto Krb.Pac Driver

def P : Prims := concrete

def handle (op : String) (args : List String) : Option String :=
  match op, args with
  -- the signature an issuer computes (Spec side)
  | "pac.sign", [key, data] => do
    let key ← parseHex key; let data ← parseHex data
    match Spec.serverSignature P key data with
    | some s => pure ("ok " ++ showHex s)
    | none => pure "none"
  -- Impl: process; kvbad = list of (offset:size) regions for which the NDR decoder failed
  | "pac.process", [key, data, kvbad] => do
    let key ← parseHex key; let data ← parseHex data
    let bad ← parseList parseHex kvbad
    let kvOk := fun (p : Bytes) => !(bad.contains p)
    match process P kvOk key data with
    | .ok => pure "ok"
    | .err e => pure ("err " ++ e)
  | "pac.groups", [a, b, c] => do
    let dec := fun (t : String) => parseList (fun x => (parseHex x).map (fun b => String.fromUTF8! (toBA b))) t
    let a ← dec a; let b ← dec b; let c ← dec c
    pure ("ok " ++ showList (fun s => showHex s.toUTF8.toList) (groupSids a b c))
  | _, _ => none

end Driver.Pac
