import Driver.Util
import Krb.Model.B64
namespace Driver.B64
open Krb Krb.B64 Driver

/-- `b64.cores <hexsecret>`: the six strings a base64 rendering of any data containing the secret must show
    (three alignments, two alphabets), hex-encoded, "-" for an empty core; then the two hex renderings -/
def handle (op : String) (args : List String) : Option String :=
  match op, args with
  | "b64.cores", [s] => do
    let s ← parseHex s
    let one (url : Bool) (r : Nat) : String :=
      let e := encode url (core r s)
      if e.isEmpty then "-" else showHex (String.ofList e).toUTF8.toList
    pure ("ok " ++ " ".intercalate ([false, true].flatMap (fun u => [0, 1, 2].map (one u))) ++ " " ++
      showHex (String.ofList (hex false s)).toUTF8.toList ++ " " ++ showHex (String.ofList (hex true s)).toUTF8.toList)
  | "b64.enc", [u, s] => do
    let s ← parseHex s
    pure ("ok " ++ showHex (String.ofList (encode (u == "1") s)).toUTF8.toList)
  | _, _ => none

end Driver.B64
