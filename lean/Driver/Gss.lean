import Driver.Util
import Driver.Crypto
import Krb.Model.Gss
namespace Driver.Gss
open Krb Krb.Crypto Krb.Gss Driver

def P : Prims := concrete

def showWrap (t : Wrap) : String :=
  s!"ok flags={t.flags.toNat} ec={t.ec} rrc={t.rrc} seq={t.seq} payload={showHex t.payload} cksum={showHex t.cksum}"

def handle (op : String) (args : List String) : Option String :=
  match op, args with
  -- the RFC token an independent implementation builds from payload/flags/seq/key/usage
  | "gss.wrap", [et, key, usage, flags, seq, payload] => do
    let et ← Crypto.parseEt et; let key ← parseHex key; let usage ← parseNat usage
    let flags ← parseNat flags; let seq ← parseNat seq; let payload ← parseHex payload
    let f := UInt8.ofNat flags
    let ck := Spec.wrapCksum P et key usage f seq payload
    pure ("ok " ++ showHex (Spec.wrapToken { flags := f, ec := ck.length, rrc := 0, seq := seq, payload := payload, cksum := ck }))
  | "gss.mic", [et, key, usage, flags, seq, payload] => do
    let et ← Crypto.parseEt et; let key ← parseHex key; let usage ← parseNat usage
    let flags ← parseNat flags; let seq ← parseNat seq; let payload ← parseHex payload
    let f := UInt8.ofNat flags
    pure ("ok " ++ showHex (Spec.micToken { flags := f, seq := seq, cksum := Spec.micCksum P et key usage f seq payload }))
  -- Impl: marshal arbitrary fields
  | "gss.marshalwrap", [flags, ec, rrc, seq, payload, ck] => do
    let flags ← parseNat flags; let ec ← parseNat ec; let rrc ← parseNat rrc; let seq ← parseNat seq
    let payload ← parseHex payload; let ck ← parseHex ck
    pure ("ok " ++ showHex (Impl.marshalWrap { flags := UInt8.ofNat flags, ec, rrc, seq, payload, cksum := ck }))
  -- Impl: unmarshal + verify
  | "gss.unwrap", [b, expect, et, key, usage] => do
    let b ← parseHex b; let expect ← parseBool expect
    let et ← Crypto.parseEt et; let key ← parseHex key; let usage ← parseNat usage
    match Impl.unmarshalWrap b expect with
    | .error e => pure ("err " ++ e)
    | .ok t => pure (showWrap t ++ " verify=" ++ (if Impl.verifyWrap P et key usage t then "1" else "0"))
  | "gss.unmic", [b, expect, et, key, usage, payload] => do
    let b ← parseHex b; let expect ← parseBool expect
    let et ← Crypto.parseEt et; let key ← parseHex key; let usage ← parseNat usage
    let payload ← parseHex payload
    match Impl.unmarshalMic b expect with
    | .error e => pure ("err " ++ e)
    | .ok t => pure (s!"ok flags={t.flags.toNat} seq={t.seq} cksum={showHex t.cksum} verify=" ++
        (if Impl.verifyMic P et key usage t payload then "1" else "0"))
  | _, _ => none

end Driver.Gss
