import Krb.Base.Bytes
import Krb.Base.Outcome
import Krb.Model.Keytab
import Krb.Props.C14
