/-
  `#audit_ns Ns` lists every theorem whose name lies in namespace `Ns` together with the axioms it
  depends on, one `AUDIT <name> [axioms]` line each.  `check` parses these lines: the number of lines is
  the number of proof obligations of a property, and any axiom outside
  {propext, Classical.choice, Quot.sound} (e.g. sorryAx, Lean.ofReduceBool, a bv_decide axiom) fails it.
-/
import Lean
open Lean Elab Command

elab "#audit_ns " ns:ident : command => do
  let env ← getEnv
  let nsName := ns.getId
  let names := env.constants.fold (init := #[]) fun acc n ci =>
    match ci with
    | .thmInfo _ => if nsName.isPrefixOf n && !n.isInternal then acc.push n else acc
    | _ => acc
  let names := names.qsort (fun a b => a.toString < b.toString)
  for n in names do
    let axs ← liftCoreM <| collectAxioms n
    let axs := axs.qsort (fun a b => a.toString < b.toString)
    logInfo m!"AUDIT {n} {axs.toList}"
