/-
  The typed layer of the RFC codec round-trips: a value of a type, encoded as a TLV tree by `toTLV`, is
  read back by `ofTLV` as the same value (mutual induction over the fuel the two share).
-/
import Krb.Asn1.Schema
import Krb.Asn1.TlvProofs
namespace Krb.Asn1
open Krb

/-- an integer whose DER contents octets decode back to it (see `intOK_nonneg`) -/
def IntOK (i : Int) : Prop := decInt (encInt i) = some i

/-- context tags of a SEQUENCE's components strictly increase (RFC 4120: they do, in every type) -/
def tagsInc : List (Nat × Bool × Ty) → Prop
  | [] => True
  | [_] => True
  | (a, _, _) :: (b, o, t) :: rest => a < b ∧ tagsInc ((b, o, t) :: rest)

def tagsAbove (n : Nat) (fs : List (Nat × Bool × Ty)) : Prop := ∀ f ∈ fs, n < f.1

theorem tagsInc_above (a : Nat) (o : Bool) (t : Ty) (rest : List (Nat × Bool × Ty))
    (h : tagsInc ((a, o, t) :: rest)) : tagsAbove a rest ∧ tagsInc rest := by
  induction rest generalizing a o t with
  | nil => exact ⟨by intro f hf; simp at hf, trivial⟩
  | cons x xs ih =>
    obtain ⟨b, o', t'⟩ := x
    obtain ⟨hab, hrest⟩ := h
    obtain ⟨h1, _⟩ := ih b o' t' hrest
    refine ⟨?_, hrest⟩
    intro f hf
    simp only [List.mem_cons] at hf
    rcases hf with hf | hf
    · rw [hf]; exact hab
    · exact Nat.lt_trans hab (h1 f hf)

mutual
/-- the value is of the type (fuel as in `toTLV`) -/
def valOK : Nat → Ty → Val → Prop
  | 0, _, _ => False
  | _+1, .int, .int i => IntOK i
  | _+1, .enum, .int i => IntOK i
  | _+1, .octets, .bytes _ => True
  | _+1, .gstring, .bytes _ => True
  | _+1, .gtime, .bytes _ => True
  | _+1, .oid, .bytes _ => True
  | _+1, .bits, .bits u _ => u < 8
  | _+1, .bool, .bool _ => True
  | f+1, .seq fields, .seq vals => tagsInc fields ∧ fieldsOK f fields vals
  | f+1, .seqOf t, .list vs => listOK f t vs
  | f+1, .app _ t, v => valOK f t v
  | f+1, .ctx _ t, v => valOK f t v
  | _+1, _, _ => False
def fieldsOK : Nat → List (Nat × Bool × Ty) → List (Option Val) → Prop
  | 0, _, _ => False
  | _+1, [], [] => True
  | f+1, (_, opt, t) :: fs, v :: vs =>
    (match v with
     | none => opt = true
     | some x => valOK f t x) ∧ fieldsOK f fs vs
  | _+1, _, _ => False
def listOK : Nat → Ty → List Val → Prop
  | 0, _, _ => False
  | _+1, _, [] => True
  | f+1, t, v :: vs => valOK f t v ∧ listOK f t vs
end

/-- every child produced for a component list is a context-tagged wrapper of one of its tags -/
theorem fieldsToTLV_tags (f : Nat) (fs : List (Nat × Bool × Ty)) (vs : List (Option Val)) (cs : List TLV)
    (h : fieldsToTLV f fs vs = some cs) : ∀ c ∈ cs, ∃ fd ∈ fs, ∃ x, c = .cons (ctxTag fd.1) [x] := by
  induction f generalizing fs vs cs with
  | zero => simp [fieldsToTLV] at h
  | succ f ih =>
    cases fs with
    | nil =>
      cases vs with
      | nil => simp [fieldsToTLV] at h; subst h; intro c hc; simp at hc
      | cons v vs => simp [fieldsToTLV] at h
    | cons fd fs =>
      obtain ⟨tag, opt, t⟩ := fd
      cases vs with
      | nil => simp [fieldsToTLV] at h
      | cons v vs =>
        cases v with
        | none =>
          simp only [fieldsToTLV] at h
          split at h
          · intro c hc
            obtain ⟨fd, hfd, x, hx⟩ := ih fs vs cs h c hc
            exact ⟨fd, by simp [hfd], x, hx⟩
          · simp at h
        | some x =>
          simp only [fieldsToTLV] at h
          split at h
          · rename_i c0 rest hc0 hrest
            simp only [Option.some.injEq] at h
            subst h
            intro c hc
            simp only [List.mem_cons] at hc
            rcases hc with hc | hc
            · exact ⟨(tag, opt, t), by simp, c0, hc⟩
            · obtain ⟨fd, hfd, y, hy⟩ := ih fs vs rest hrest c hc
              exact ⟨fd, by simp [hfd], y, hy⟩
          · simp at h

theorem ctxTag_inj (a b : Nat) (h : ctxTag a = ctxTag b) : a = b := by
  simp [ctxTag] at h; exact h

mutual
/-- **typed_tlv_roundtrip.** -/
theorem ofTLV_toTLV : ∀ (f : Nat) (ty : Ty) (v : Val) (tlv : TLV),
    valOK f ty v → toTLV f ty v = some tlv → ofTLV f ty tlv = some v
  | 0, _, _, _, h, _ => by simp [valOK] at h
  | f+1, ty, v, tlv, hok, henc => by
    cases ty with
    | int =>
      cases v with
      | int i =>
        simp only [valOK] at hok
        simp only [toTLV, Option.some.injEq] at henc
        subst henc
        simp only [ofTLV, if_true]
        rw [show decInt (encInt i) = some i from hok]; rfl
      | _ => simp [valOK] at hok
    | enum =>
      cases v with
      | int i =>
        simp only [valOK] at hok
        simp only [toTLV, Option.some.injEq] at henc
        subst henc
        simp only [ofTLV, if_true]
        rw [show decInt (encInt i) = some i from hok]; rfl
      | _ => simp [valOK] at hok
    | octets =>
      cases v with
      | bytes b =>
        simp only [valOK] at hok
        simp only [toTLV, Option.some.injEq] at henc
        subst henc
        simp [ofTLV]
      | _ => simp [valOK] at hok
    | gstring =>
      cases v with
      | bytes b =>
        simp only [valOK] at hok
        simp only [toTLV, Option.some.injEq] at henc
        subst henc
        simp [ofTLV]
      | _ => simp [valOK] at hok
    | gtime =>
      cases v with
      | bytes b =>
        simp only [valOK] at hok
        simp only [toTLV, Option.some.injEq] at henc
        subst henc
        simp [ofTLV]
      | _ => simp [valOK] at hok
    | oid =>
      cases v with
      | bytes b =>
        simp only [valOK] at hok
        simp only [toTLV, Option.some.injEq] at henc
        subst henc
        simp [ofTLV]
      | _ => simp [valOK] at hok
    | bits =>
      cases v with
      | bits u b =>
        simp only [valOK] at hok
        simp only [toTLV, Option.some.injEq] at henc
        subst henc
        have hu : (UInt8.ofNat u).toNat = u := by
          simp only [UInt8.toNat_ofNat']; omega
        simp [ofTLV, hu, hok]
      | _ => simp [valOK] at hok
    | bool =>
      cases v with
      | bool b =>
        simp only [valOK] at hok
        simp only [toTLV, Option.some.injEq] at henc
        subst henc
        cases b <;> simp [ofTLV]
      | _ => simp [valOK] at hok
    | seq fields =>
      cases v with
      | seq vals =>
        simp only [valOK] at hok
        simp only [toTLV] at henc
        cases hcs : fieldsToTLV f fields vals with
        | none => rw [hcs] at henc; simp at henc
        | some cs =>
          rw [hcs] at henc
          simp only [Option.map_some, Option.some.injEq] at henc; subst henc
          simp only [ofTLV, if_true]
          rw [fieldsOfTLV_fieldsToTLV f fields vals cs hok.1 hok.2 hcs]; rfl
      | _ => simp [valOK] at hok
    | seqOf t =>
      cases v with
      | list vs =>
        simp only [valOK] at hok
        simp only [toTLV] at henc
        cases hcs : listToTLV f t vs with
        | none => rw [hcs] at henc; simp at henc
        | some cs =>
          rw [hcs] at henc
          simp only [Option.map_some, Option.some.injEq] at henc; subst henc
          simp only [ofTLV, if_true]
          rw [listOfTLV_listToTLV f t vs cs hok hcs]; rfl
      | _ => simp [valOK] at hok
    | app n t =>
      simp only [valOK] at hok
      simp only [toTLV] at henc
      cases hc : toTLV f t v with
      | none => rw [hc] at henc; simp at henc
      | some c =>
        rw [hc] at henc
        simp only [Option.map_some, Option.some.injEq] at henc; subst henc
        simp only [ofTLV, if_true]
        exact ofTLV_toTLV f t v c hok hc
    | ctx n t =>
      simp only [valOK] at hok
      simp only [toTLV] at henc
      cases hc : toTLV f t v with
      | none => rw [hc] at henc; simp at henc
      | some c =>
        rw [hc] at henc
        simp only [Option.map_some, Option.some.injEq] at henc; subst henc
        simp only [ofTLV, if_true]
        exact ofTLV_toTLV f t v c hok hc
    | any => cases v <;> simp [valOK] at hok
    | other w => cases v <;> simp [valOK] at hok

theorem fieldsOfTLV_fieldsToTLV : ∀ (f : Nat) (fs : List (Nat × Bool × Ty)) (vs : List (Option Val)) (cs : List TLV),
    tagsInc fs → fieldsOK f fs vs → fieldsToTLV f fs vs = some cs → fieldsOfTLV f fs cs = some vs
  | 0, _, _, _, _, h, _ => by simp [fieldsOK] at h
  | f+1, fs, vs, cs, hinc, hok, henc => by
    cases fs with
    | nil =>
      cases vs with
      | nil => simp [fieldsToTLV] at henc; subst henc; simp [fieldsOfTLV]
      | cons v vs => simp [fieldsOK] at hok
    | cons fd fs =>
      obtain ⟨tag, opt, t⟩ := fd
      cases vs with
      | nil => simp [fieldsOK] at hok
      | cons v vs =>
        obtain ⟨habove, hinc'⟩ := tagsInc_above tag opt t fs hinc
        simp only [fieldsOK] at hok
        obtain ⟨hv, hrest⟩ := hok
        cases v with
        | none =>
          simp only at hv
          simp only [fieldsToTLV, hv, if_true] at henc
          have ih := fieldsOfTLV_fieldsToTLV f fs vs cs hinc' hrest henc
          have htags := fieldsToTLV_tags f fs vs cs henc
          cases cs with
          | nil =>
            simp only [fieldsOfTLV, hv, if_true, ih, Option.map_some]
          | cons c rest =>
            obtain ⟨fd, hfd, x, hx⟩ := htags c (by simp)
            subst hx
            have hne : ctxTag fd.1 ≠ ctxTag tag := by
              intro hc
              have := ctxTag_inj _ _ hc
              have := habove fd hfd
              omega
            simp only [fieldsOfTLV, hne, if_false, hv, if_true, ih, Option.map_some]
        | some x =>
          simp only at hv
          simp only [fieldsToTLV] at henc
          cases hc : toTLV f t x with
          | none => simp [hc] at henc
          | some c =>
            cases hr : fieldsToTLV f fs vs with
            | none => simp [hc, hr] at henc
            | some rest =>
              simp only [hc, hr, Option.some.injEq] at henc; subst henc
              have h1 := ofTLV_toTLV f t x c hv hc
              have h2 := fieldsOfTLV_fieldsToTLV f fs vs rest hinc' hrest hr
              simp only [fieldsOfTLV, if_true, h1, h2]

theorem listOfTLV_listToTLV : ∀ (f : Nat) (t : Ty) (vs : List Val) (cs : List TLV),
    listOK f t vs → listToTLV f t vs = some cs → listOfTLV f t cs = some vs
  | 0, _, _, _, h, _ => by simp [listOK] at h
  | f+1, t, vs, cs, hok, henc => by
    cases vs with
    | nil => simp [listToTLV] at henc; subst henc; simp [listOfTLV]
    | cons v vs =>
      simp only [listOK] at hok
      simp only [listToTLV] at henc
      cases hc : toTLV f t v with
      | none => simp [hc] at henc
      | some c =>
        cases hr : listToTLV f t vs with
        | none => simp [hc, hr] at henc
        | some rest =>
          simp only [hc, hr, Option.some.injEq] at henc; subst henc
          have h1 := ofTLV_toTLV f t v c hok.1 hc
          have h2 := listOfTLV_listToTLV f t vs rest hok.2 hr
          simp only [listOfTLV, h1, h2]
end

end Krb.Asn1

namespace Krb.Asn1
open Krb

/-! ## integers -/

theorem fromBE_cons_zero (b : Bytes) : fromBE (0 :: b) = fromBE b := by
  simp [fromBE]

/-- every non-negative integer's DER contents octets decode back to it -/
theorem intOK_nonneg (n : Nat) : IntOK (n : Int) := by
  unfold IntOK encInt
  have hge : (n : Int) ≥ 0 := Int.natCast_nonneg n
  simp only [hge, if_true, Int.toNat_natCast]
  unfold natBytes
  by_cases h0 : n = 0
  · subst h0
    simp [decInt, fromBE]
  · simp only [h0, if_false]
    have hpos : 0 < n := Nat.pos_of_ne_zero h0
    have hlen := be256_pos n hpos
    have hhead := be256_head_ne_zero n hpos
    have hval := fromBE_be256 n
    cases hb : be256 n with
    | nil => rw [hb] at hlen; simp at hlen
    | cons x rest =>
      rw [hb] at hhead hval
      simp only [List.headD_cons] at hhead
      by_cases hx : x ≥ 128
      · simp only [List.headD_cons, hx, if_true]
        simp only [decInt]
        split
        · rename_i hc
          obtain ⟨_, h⟩ := hc
          simp only [List.headD_cons] at h
          rcases h with ⟨_, h⟩ | ⟨h, _⟩
          · exact absurd hx (by simpa using h)
          · simp at h
        · have : ¬ ((0 : UInt8) ≥ 128) := by decide
          simp only [this, if_false, fromBE_cons_zero, hval]
      · simp only [List.headD_cons, hx, if_false]
        simp only [decInt]
        split
        · rename_i hc
          obtain ⟨_, h⟩ := hc
          rcases h with ⟨h, _⟩ | ⟨h, _⟩
          · exact absurd h hhead
          · subst h; exact absurd (by decide : (255 : UInt8) ≥ 128) hx
        · simp only [hx, if_false, hval]

theorem encLen_length_pos (n : Nat) : 1 ≤ (encLen n).length := by
  unfold encLen; split <;> simp

/-! ## from trees to bytes -/

mutual
theorem depth_le_length (t : TLV) : depth t ≤ 2 * (encTLV t).length - 1 := by
  match t with
  | .prim tg c =>
    have := encLen_length_pos c.length
    simp only [depth, encTLV, List.length_cons, List.length_append]; omega
  | .cons tg cs =>
    have := depths_le_length cs
    have := encLen_length_pos (encTLVs cs).length
    simp only [depth, encTLV, List.length_cons, List.length_append]
    omega
theorem depths_le_length (ts : List TLV) : depths ts ≤ 2 * (encTLVs ts).length + 1 := by
  match ts with
  | [] => simp [depths, encTLVs]
  | t :: ts =>
    have h1 := depth_le_length t
    have h2 := depths_le_length ts
    have h3 : 2 ≤ (encTLV t).length := by
      cases t with
      | prim tg c => have := encLen_length_pos c.length; simp only [encTLV, List.length_cons, List.length_append]; omega
      | cons tg cs => have := encLen_length_pos (encTLVs cs).length; simp only [encTLV, List.length_cons, List.length_append]; omega
    simp only [depths, encTLVs, List.length_append]
    omega
end

theorem decOne_encTLV (t : TLV) (h : WFT t) : decOne (encTLV t) = some t := by
  unfold decOne
  have hd := depth_le_length t
  have := decTLV_encTLV t h (2 * (encTLV t).length + 2) (by omega) []
  simp only [List.append_nil] at this
  rw [this]

/-- **typed_roundtrip.** Decoding the DER encoding of a typed value gives the value back — for every
    type of the schema language (nested to any depth within the fuel the codec runs with), every value
    of that type whose integers satisfy `IntOK` (all non-negative ones do: `intOK_nonneg`) and whose
    encoding is a well-formed tree (tag numbers below 31, sizes below 2^64). -/
theorem typed_roundtrip (ty : Ty) (v : Val) (b : Bytes) (hok : valOK 64 ty v)
    (hwf : ∀ tlv, toTLV 64 ty v = some tlv → WFT tlv) (henc : encode ty v = some b) :
    decode ty b = some v := by
  unfold encode at henc
  cases ht : toTLV 64 ty v with
  | none => rw [ht] at henc; simp at henc
  | some tlv =>
    rw [ht] at henc
    simp only [Option.map_some, Option.some.injEq] at henc
    subst henc
    unfold decode
    rw [decOne_encTLV tlv (hwf tlv ht)]
    simp only [Option.bind_some]
    exact ofTLV_toTLV 64 ty v tlv hok ht

end Krb.Asn1
