/-
  Round-trip lemmas for the DER layer: base-256 digits, definite lengths (all n < 2^64), TLV trees.
-/
import Krb.Asn1.Tlv
namespace Krb.Asn1
open Krb

theorem fromBE_append (a : Bytes) (x : UInt8) : fromBE (a ++ [x]) = fromBE a * 256 + x.toNat := by
  simp [fromBE, List.foldl_append]

theorem fromBE_be256 (n : Nat) : fromBE (be256 n) = n := by
  induction n using Nat.strongRecOn with
  | _ n ih =>
    cases n with
    | zero => simp [be256, fromBE]
    | succ k =>
      rw [be256, fromBE_append, ih ((k+1)/256) (by omega)]
      have : (UInt8.ofNat ((k+1) % 256)).toNat = (k+1) % 256 := by
        simp [UInt8.toNat_ofNat']
      rw [this]; omega

theorem be256_length_le (n : Nat) (k : Nat) (h : n < 256 ^ k) : (be256 n).length ≤ k := by
  induction k generalizing n with
  | zero => simp at h; subst h; simp [be256]
  | succ k ih =>
    cases n with
    | zero => simp [be256]
    | succ m =>
      rw [be256]
      simp only [List.length_append, List.length_cons, List.length_nil]
      have : (m + 1) / 256 < 256 ^ k := by
        rw [Nat.pow_succ] at h
        exact Nat.div_lt_of_lt_mul (by omega)
      have := ih _ this
      omega

theorem be256_pos (n : Nat) (h : 0 < n) : 0 < (be256 n).length := by
  cases n with
  | zero => omega
  | succ m => rw [be256]; simp

theorem be256_head_ne_zero (n : Nat) (h : 0 < n) : (be256 n).headD 0 ≠ 0 := by
  induction n using Nat.strongRecOn with
  | _ n ih =>
    cases n with
    | zero => omega
    | succ k =>
      rw [be256]
      by_cases hq : (k + 1) / 256 = 0
      · rw [hq]
        simp only [be256, List.nil_append, List.headD_cons]
        intro e
        have hlt : k + 1 < 256 := by omega
        have : (UInt8.ofNat ((k+1) % 256)).toNat = (k+1) % 256 := by simp [UInt8.toNat_ofNat']
        rw [e] at this
        simp at this
        omega
      · have hpos : 0 < (k + 1) / 256 := by omega
        have := ih ((k+1)/256) (by omega) hpos
        have hl := be256_pos _ hpos
        cases hb : be256 ((k + 1) / 256) with
        | nil => rw [hb] at hl; simp at hl
        | cons x xs => rw [hb] at this; simpa using this

/-- **len_roundtrip.** every length below 2^64 (far beyond anything a message can hold) -/
theorem decLen_encLen (n : Nat) (h : n < 18446744073709551616) (r : Bytes) :
    decLen (encLen n ++ r) = some (n, r) := by
  unfold encLen
  by_cases hs : n < 128
  · have h0 : (UInt8.ofNat n).toNat = n := by simp [UInt8.toNat_ofNat']; omega
    simp [hs, decLen, h0]
  · simp only [hs, if_false, List.cons_append, decLen]
    have hpos : 0 < n := by omega
    have hk1 := be256_pos n hpos
    have hk8 : (be256 n).length ≤ 8 := be256_length_le n 8 (by have : (256:Nat) ^ 8 = 18446744073709551616 := by decide
                                                               omega)
    have hb : (UInt8.ofNat (128 + (be256 n).length)).toNat = 128 + (be256 n).length := by
      simp [UInt8.toNat_ofNat']; omega
    have c1 : ¬ ((UInt8.ofNat (128 + (be256 n).length)).toNat < 128) := by rw [hb]; omega
    simp only [c1, if_false, hb, Nat.add_sub_cancel_left]
    have c2 : ¬ ((be256 n).length = 0 ∨ (be256 n).length > 8) := by omega
    have c3 : ¬ ((be256 n ++ r).length < (be256 n).length) := by simp
    simp only [c2, c3, if_false, List.take_left', List.drop_left', fromBE_be256]
    have c4 : ¬ ((be256 n).headD 0 = 0) := be256_head_ne_zero n hpos
    have c4' : ¬ ((be256 n).head?.getD 0 = 0) := by simpa [List.headD_eq_head?_getD] using c4
    have c5 : ¬ (128 + (be256 n).length < 128) := by omega
    simp [c4', c5, hs]

/-! ## TLV trees -/

theorem Tag.ofByte_byte (t : Tag) (h : t.WF) : Tag.ofByte t.byte = some t := by
  obtain ⟨h1, h2⟩ := h
  cases t with
  | mk cls c num =>
    simp only at h1 h2
    have hb : (UInt8.ofNat (cls * 64 + (if c then 32 else 0) + num)).toNat
        = cls * 64 + (if c then 32 else 0) + num := by
      simp [UInt8.toNat_ofNat']; split <;> omega
    simp only [Tag.byte, Tag.ofByte, hb]
    cases c
    · simp only [Bool.false_eq_true, if_false, Nat.add_zero]
      have e1 : (cls * 64 + num) % 32 = num := by omega
      have e2 : (cls * 64 + num) / 64 = cls := by omega
      have e3 : (cls * 64 + num) / 32 % 2 = 0 := by omega
      have e4 : ¬ (num = 31) := by omega
      simp [e1, e2, e3, e4]
    · simp only [if_true]
      have e1 : (cls * 64 + 32 + num) % 32 = num := by omega
      have e2 : (cls * 64 + 32 + num) / 64 = cls := by omega
      have e3 : (cls * 64 + 32 + num) / 32 % 2 = 1 := by omega
      have e4 : ¬ (num = 31) := by omega
      simp [e1, e2, e3, e4]

mutual
/-- well-formed trees: low tag numbers, the constructed bit tells the node kind, sizes below 2^64 -/
def WFT : TLV → Prop
  | .prim t c => t.WF ∧ t.constructed = false ∧ c.length < 18446744073709551616
  | .cons t cs => t.WF ∧ t.constructed = true ∧ (encTLVs cs).length < 18446744073709551616 ∧ WFTs cs
def WFTs : List TLV → Prop
  | [] => True
  | t :: ts => WFT t ∧ WFTs ts
end

mutual
def depth : TLV → Nat
  | .prim _ _ => 1
  | .cons _ cs => 1 + depths cs
def depths : List TLV → Nat
  | [] => 1
  | t :: ts => 1 + depth t + depths ts
end

theorem encTLV_ne_nil (t : TLV) : encTLV t ≠ [] := by
  cases t <;> simp [encTLV]

mutual
/-- **tlv_roundtrip.** decoding the encoding of a well-formed tree (followed by anything) returns the
    tree and the rest -/
theorem decTLV_encTLV (t : TLV) (h : WFT t) (fuel : Nat) (hf : depth t ≤ fuel) (r : Bytes) :
    decTLV fuel (encTLV t ++ r) = some (t, r) := by
  match t, fuel with
  | .prim tg c, 0 => simp [depth] at hf
  | .cons tg cs, 0 => simp [depth] at hf
  | .prim tg c, fuel+1 =>
    simp only [WFT] at h
    obtain ⟨h1, h2, h3⟩ := h
    simp only [encTLV, List.cons_append, List.append_assoc, decTLV, Tag.ofByte_byte tg h1,
      decLen_encLen _ h3, h2]
    simp
  | .cons tg cs, fuel+1 =>
    simp only [WFT] at h
    obtain ⟨h1, h2, h3, h4⟩ := h
    have hl := decTLVs_encTLVs cs h4 fuel (by simp [depth] at hf; omega)
    simp only [encTLV, List.cons_append, List.append_assoc, decTLV, Tag.ofByte_byte tg h1,
      decLen_encLen _ h3, h2]
    simp [hl]
theorem decTLVs_encTLVs (ts : List TLV) (h : WFTs ts) (fuel : Nat) (hf : depths ts ≤ fuel) :
    decTLVs fuel (encTLVs ts) = some ts := by
  match ts, fuel with
  | [], 0 => simp [depths] at hf
  | _ :: _, 0 => simp [depths] at hf
  | [], fuel+1 => simp [encTLVs, decTLVs]
  | t :: ts, fuel+1 =>
    simp only [WFTs] at h
    simp only [depths] at hf
    have h1 := decTLV_encTLV t h.1 fuel (by omega) (encTLVs ts)
    have h2 := decTLVs_encTLVs ts h.2 fuel (by omega)
    have hne : encTLV t ++ encTLVs ts ≠ [] := by simp [encTLV_ne_nil]
    simp only [encTLVs, decTLVs]
    cases hc : encTLV t ++ encTLVs ts with
    | nil => exact absurd hc hne
    | cons x xs => simp [← hc, h1, h2]
end

end Krb.Asn1
