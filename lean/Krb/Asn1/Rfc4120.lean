/-
  The ASN.1 modules of RFC 4120 (Appendix A), RFC 6806 (encrypted-pa-data), RFC 3244 (ChangePasswdData)
  and RFC 4178 (SPNEGO), transcribed by hand as `Ty` values.  Never derived from the Go code.
-/
import Krb.Asn1.Schema
namespace Krb.Asn1.Rfc
open Krb.Asn1

def req (tag : Nat) (t : Ty) : Nat × Bool × Ty := (tag, false, t)
def opt (tag : Nat) (t : Ty) : Nat × Bool × Ty := (tag, true, t)

def principalName : Ty := .seq [req 0 .int, req 1 (.seqOf .gstring)]
def hostAddress : Ty := .seq [req 0 .int, req 1 .octets]
def hostAddresses : Ty := .seqOf hostAddress
def authorizationData : Ty := .seqOf (.seq [req 0 .int, req 1 .octets])
def paData : Ty := .seq [req 1 .int, req 2 .octets]
def encryptedData : Ty := .seq [req 0 .int, opt 1 .int, req 2 .octets]
def encryptionKey : Ty := .seq [req 0 .int, req 1 .octets]
def checksum : Ty := .seq [req 0 .int, req 1 .octets]
def transitedEncoding : Ty := .seq [req 0 .int, req 1 .octets]
def lastReq : Ty := .seqOf (.seq [req 0 .int, req 1 .gtime])

def ticket : Ty := .app 1 (.seq [req 0 .int, req 1 .gstring, req 2 principalName, req 3 encryptedData])

def encTicketPart : Ty := .app 3 (.seq [req 0 .bits, req 1 encryptionKey, req 2 .gstring,
  req 3 principalName, req 4 transitedEncoding, req 5 .gtime, opt 6 .gtime, req 7 .gtime, opt 8 .gtime,
  opt 9 hostAddresses, opt 10 authorizationData])

def kdcReqBody : Ty := .seq [req 0 .bits, opt 1 principalName, req 2 .gstring, opt 3 principalName,
  opt 4 .gtime, req 5 .gtime, opt 6 .gtime, req 7 .int, req 8 (.seqOf .int), opt 9 hostAddresses,
  opt 10 encryptedData, opt 11 (.seqOf ticket)]

def kdcReq : Ty := .seq [req 1 .int, req 2 .int, opt 3 (.seqOf paData), req 4 kdcReqBody]
def asReq : Ty := .app 10 kdcReq
def tgsReq : Ty := .app 12 kdcReq

def kdcRep : Ty := .seq [req 0 .int, req 1 .int, opt 2 (.seqOf paData), req 3 .gstring,
  req 4 principalName, req 5 ticket, req 6 encryptedData]
def asRep : Ty := .app 11 kdcRep
def tgsRep : Ty := .app 13 kdcRep

def encKDCRepPartBody : Ty := .seq [req 0 encryptionKey, req 1 lastReq, req 2 .int, opt 3 .gtime,
  req 4 .bits, req 5 .gtime, opt 6 .gtime, req 7 .gtime, opt 8 .gtime, req 9 .gstring,
  req 10 principalName, opt 11 hostAddresses, opt 12 (.seqOf paData)]
def encASRepPart : Ty := .app 25 encKDCRepPartBody
def encTGSRepPart : Ty := .app 26 encKDCRepPartBody

def apReq : Ty := .app 14 (.seq [req 0 .int, req 1 .int, req 2 .bits, req 3 ticket, req 4 encryptedData])

def authenticator : Ty := .app 2 (.seq [req 0 .int, req 1 .gstring, req 2 principalName, opt 3 checksum,
  req 4 .int, req 5 .gtime, opt 6 encryptionKey, opt 7 .int, opt 8 authorizationData])

def apRep : Ty := .app 15 (.seq [req 0 .int, req 1 .int, req 2 encryptedData])
def encAPRepPart : Ty := .app 27 (.seq [req 0 .gtime, req 1 .int, opt 2 encryptionKey, opt 3 .int])

def krbError : Ty := .app 30 (.seq [req 0 .int, req 1 .int, opt 2 .gtime, opt 3 .int, req 4 .gtime,
  req 5 .int, req 6 .int, opt 7 .gstring, opt 8 principalName, req 9 .gstring, req 10 principalName,
  opt 11 .gstring, opt 12 .octets])

def krbPriv : Ty := .app 21 (.seq [req 0 .int, req 1 .int, req 3 encryptedData])
def encKrbPrivPart : Ty := .app 28 (.seq [req 0 .octets, opt 1 .gtime, opt 2 .int, opt 3 .int,
  req 4 hostAddress, opt 5 hostAddress])

def krbSafe : Ty := .app 20 (.seq [req 0 .int, req 1 .int,
  req 2 (.seq [req 0 .octets, opt 1 .gtime, opt 2 .int, opt 3 .int, req 4 hostAddress, opt 5 hostAddress]),
  req 3 checksum])

def krbCredInfo : Ty := .seq [req 0 encryptionKey, opt 1 .gstring, opt 2 principalName, opt 3 .bits,
  opt 4 .gtime, opt 5 .gtime, opt 6 .gtime, opt 7 .gtime, opt 8 .gstring, opt 9 principalName,
  opt 10 hostAddresses]
def encKrbCredPart : Ty := .app 29 (.seq [req 0 (.seqOf krbCredInfo), opt 1 .int, opt 2 .gtime, opt 3 .int,
  opt 4 hostAddress, opt 5 hostAddress])
def krbCred : Ty := .app 22 (.seq [req 0 .int, req 1 .int, req 2 (.seqOf ticket), req 3 encryptedData])

def paEncTsEnc : Ty := .seq [req 0 .gtime, opt 1 .int]
def etypeInfoEntry : Ty := .seq [req 0 .int, opt 1 .octets]
def etypeInfo : Ty := .seqOf etypeInfoEntry
def etypeInfo2Entry : Ty := .seq [req 0 .int, opt 1 .gstring, opt 2 .octets]
def etypeInfo2 : Ty := .seqOf etypeInfo2Entry
def paDataSeq : Ty := .seqOf paData

/-- RFC 3244 -/
def changePasswdData : Ty := .seq [req 0 .octets, opt 1 principalName, opt 2 .gstring]

/-- RFC 4178 -/
def negTokenInit : Ty := .seq [req 0 (.seqOf .oid), opt 1 .bits, opt 2 .octets, opt 3 .octets]
def negTokenResp : Ty := .seq [opt 0 .enum, opt 1 .oid, opt 2 .octets, opt 3 .octets]
def negotiationTokenInit : Ty := .ctx 0 negTokenInit
def negotiationTokenResp : Ty := .ctx 1 negTokenResp

/-- name → type, for the driver and the translation-validation theorems -/
def byName (n : String) : Option Ty :=
  if n = "PrincipalName" then some principalName
  else if n = "HostAddress" then some hostAddress
  else if n = "HostAddresses" then some hostAddresses
  else if n = "AuthorizationData" then some authorizationData
  else if n = "PAData" then some paData
  else if n = "PADataSequence" then some paDataSeq
  else if n = "EncryptedData" then some encryptedData
  else if n = "EncryptionKey" then some encryptionKey
  else if n = "Checksum" then some checksum
  else if n = "Ticket" then some ticket
  else if n = "EncTicketPart" then some encTicketPart
  else if n = "KDCReqBody" then some kdcReqBody
  else if n = "ASReq" then some asReq
  else if n = "TGSReq" then some tgsReq
  else if n = "ASRep" then some asRep
  else if n = "TGSRep" then some tgsRep
  else if n = "EncASRepPart" then some encASRepPart
  else if n = "EncTGSRepPart" then some encTGSRepPart
  else if n = "APReq" then some apReq
  else if n = "Authenticator" then some authenticator
  else if n = "APRep" then some apRep
  else if n = "EncAPRepPart" then some encAPRepPart
  else if n = "KRBError" then some krbError
  else if n = "KRBPriv" then some krbPriv
  else if n = "EncKrbPrivPart" then some encKrbPrivPart
  else if n = "KRBSafe" then some krbSafe
  else if n = "PAEncTSEnc" then some paEncTsEnc
  else if n = "ETypeInfo" then some etypeInfo
  else if n = "ETypeInfo2" then some etypeInfo2
  else if n = "ChangePasswdData" then some changePasswdData
  else if n = "NegTokenInit" then some negotiationTokenInit
  else if n = "NegTokenResp" then some negotiationTokenResp
  else none

end Krb.Asn1.Rfc
