/-
  Negative integers: the minimal two's complement contents octets `encInt` writes for i < 0 are read back
  by `decInt` as i, for every i ≥ -2^127 (the widths `encInt.width` tries).  Together with `intOK_nonneg`
  this gives `IntOK` for every integer Kerberos can carry (its integers are 32 bit; the model's are wider).
-/
import Krb.Asn1.TypedProofs
namespace Krb.Asn1
open Krb

theorem foldl_be (b : Bytes) (a : Nat) :
    b.foldl (fun a x => a * 256 + x.toNat) a = a * 256 ^ b.length + fromBE b := by
  induction b generalizing a with
  | nil => simp [fromBE]
  | cons x r ih =>
    simp only [List.foldl_cons, List.length_cons, fromBE]
    rw [ih (a * 256 + x.toNat), ih (0 * 256 + x.toNat)]
    simp only [Nat.zero_mul, Nat.zero_add, Nat.pow_succ, Nat.add_mul]
    have : a * 256 * 256 ^ r.length = a * (256 ^ r.length * 256) := by
      rw [Nat.mul_assoc, Nat.mul_comm 256]
    omega

theorem fromBE_cons (x : UInt8) (r : Bytes) : fromBE (x :: r) = x.toNat * 256 ^ r.length + fromBE r := by
  have := foldl_be r (0 * 256 + x.toNat)
  simp only [Nat.zero_mul, Nat.zero_add] at this
  simpa [fromBE] using this

theorem fromBE_lt (b : Bytes) : fromBE b < 256 ^ b.length := by
  induction b with
  | nil => simp [fromBE]
  | cons x r ih =>
    rw [fromBE_cons, List.length_cons, Nat.pow_succ]
    have hx : x.toNat < 256 := x.toNat_lt
    have : x.toNat * 256 ^ r.length ≤ 255 * 256 ^ r.length := Nat.mul_le_mul_right _ (by omega)
    omega

/-- what the width search returns: the least k from the start with m ≤ 2^(8k-1), if one is in reach -/
theorem width_spec (m : Nat) (f k : Nat) (h : ∃ j, k ≤ j ∧ j < k + f ∧ m ≤ 2 ^ (8 * j - 1)) :
    k ≤ encInt.width m k f ∧ m ≤ 2 ^ (8 * encInt.width m k f - 1) ∧
      ∀ j, k ≤ j → j < encInt.width m k f → ¬ m ≤ 2 ^ (8 * j - 1) := by
  induction f generalizing k with
  | zero => obtain ⟨j, h1, h2, _⟩ := h; omega
  | succ f ih =>
    unfold encInt.width
    by_cases hk : m ≤ 2 ^ (8 * k - 1)
    · rw [if_pos hk]
      exact ⟨Nat.le_refl _, hk, fun j h1 h2 => by omega⟩
    · rw [if_neg hk]
      obtain ⟨j, h1, h2, h3⟩ := h
      have hjk : j ≠ k := fun e => hk (e ▸ h3)
      obtain ⟨a, b, c⟩ := ih (k + 1) ⟨j, by omega, by omega, h3⟩
      refine ⟨by omega, b, fun j' h1' h2' => ?_⟩
      by_cases e : j' = k
      · subst e; exact hk
      · exact c j' (by omega) h2'

theorem pow8 (k : Nat) : 2 ^ (8 * k) = 256 ^ k := by
  rw [Nat.pow_mul]

theorem pow8m1 (k : Nat) : 2 ^ (8 * (k + 1) - 1) = 128 * 256 ^ k := by
  have : 8 * (k + 1) - 1 = 8 * k + 7 := by omega
  rw [this, Nat.pow_add, pow8]; omega

/-- every negative integer down to -2^127 has contents octets that decode back to it -/
theorem intOK_neg (m : Nat) (hpos : 0 < m) (hle : m ≤ 2 ^ 127) : IntOK (-(m : Int)) := by
  unfold IntOK encInt
  have hneg : ¬ (-(m : Int) ≥ 0) := by omega
  simp only [hneg, if_false, Int.neg_neg, Int.toNat_natCast]
  obtain ⟨hk1, hkm, hmin⟩ := width_spec m 16 1 ⟨16, by omega, by omega, by simpa using hle⟩
  generalize encInt.width m 1 16 = k at hk1 hkm hmin
  obtain ⟨j, rfl⟩ : ∃ j, k = j + 1 := ⟨k - 1, by omega⟩
  rw [pow8m1] at hkm
  rw [pow8]
  have hP : 0 < 256 ^ j := Nat.pow_pos (by omega)
  have hpow : 256 ^ (j + 1) = 256 ^ j * 256 := Nat.pow_succ ..
  generalize hv : 256 ^ (j + 1) - m = v
  have hvlo : 128 * 256 ^ j ≤ v := by omega
  have hvhi : v < 256 ^ (j + 1) := by omega
  have hlen_le := be256_length_le v (j + 1) hvhi
  have hval := fromBE_be256 v
  have hlt := fromBE_lt (be256 v)
  rw [hval] at hlt
  have hlen_ge : j + 1 ≤ (be256 v).length := by
    by_cases hc : j + 1 ≤ (be256 v).length
    · exact hc
    · exfalso
      have : (be256 v).length ≤ j := by omega
      have : 256 ^ (be256 v).length ≤ 256 ^ j := Nat.pow_le_pow_right (by omega) this
      omega
  have hlen : (be256 v).length = j + 1 := by omega
  rw [hlen, Nat.sub_self, List.replicate_zero, List.nil_append]
  cases hb : be256 v with
  | nil => rw [hb] at hlen; simp at hlen
  | cons x rest =>
    rw [hb] at hlen hval
    have hrl : rest.length = j := by simpa using hlen
    rw [fromBE_cons, hrl] at hval
    have hrlt := fromBE_lt rest
    rw [hrl] at hrlt
    have hx : x.toNat ≥ 128 := by
      by_cases hc : x.toNat ≥ 128
      · exact hc
      · exfalso
        have : x.toNat * 256 ^ j ≤ 127 * 256 ^ j := Nat.mul_le_mul_right _ (by omega)
        omega
    have hx' : x ≥ 128 := by
      show (128 : UInt8) ≤ x
      rw [UInt8.le_iff_toNat_le]; exact hx
    have hnot : ¬ (rest ≠ [] ∧ ((x = 0 ∧ rest.headD 0 < 128) ∨ (x = 255 ∧ rest.headD 0 ≥ 128))) := by
      intro hc
      obtain ⟨hne, h⟩ := hc
      rcases h with ⟨h0, _⟩ | ⟨h255, hy⟩
      · subst h0; simp at hx
      · cases rest with
        | nil => exact hne rfl
        | cons y rest' =>
          simp only [List.headD_cons] at hy
          have hy' : y.toNat ≥ 128 := by
            have : (128 : UInt8) ≤ y := hy
            rw [UInt8.le_iff_toNat_le] at this; exact this
          obtain ⟨i, rfl⟩ : ∃ i, j = i + 1 := ⟨rest'.length, by simpa using hrl.symm⟩
          have hrl' : rest'.length = i := by simpa using hrl
          rw [fromBE_cons, hrl'] at hval
          subst h255
          have h255 : (255 : UInt8).toNat = 255 := rfl
          rw [h255] at hval
          have hpi : 256 ^ (i + 1) = 256 ^ i * 256 := Nat.pow_succ ..
          have : y.toNat * 256 ^ i ≥ 128 * 256 ^ i := Nat.mul_le_mul_right _ hy'
          have hm := hmin (i + 1) (by omega) (by omega)
          rw [pow8m1] at hm
          omega
    simp only [decInt]
    rw [if_neg hnot, if_pos hx']
    simp only [List.length_cons, hrl, fromBE_cons, hval, pow8]
    congr 1
    have : (v : Int) = (256 ^ (j + 1) : Nat) - (m : Int) := by omega
    omega

/-- the range of integers whose contents octets round-trip: everything from -2^127 up -/
theorem intOK_of_ge (i : Int) (h : -(2 ^ 127 : Nat) ≤ i) : IntOK i := by
  by_cases hi : 0 ≤ i
  · obtain ⟨n, rfl⟩ := Int.eq_ofNat_of_zero_le hi
    exact intOK_nonneg n
  · obtain ⟨m, hm⟩ : ∃ m : Nat, i = -(m : Int) := ⟨(-i).toNat, by omega⟩
    subst hm
    exact intOK_neg m (by omega) (by omega)

end Krb.Asn1
