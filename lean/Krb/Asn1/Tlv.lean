/-
  Generic DER (X.690) tag-length-value layer: what `gofork/encoding/asn1` reads and writes for the
  Kerberos and SPNEGO messages (low tag numbers only: no Kerberos or SPNEGO structure uses a tag ≥ 31).
  Lengths are definite and minimal (DER); the decoder rejects anything else, as Go's decoder does.
-/
import Krb.Base.Bytes
namespace Krb.Asn1
open Krb

/-- base-256 big-endian digits of n, no leading zeros ([] for 0) -/
def be256 : Nat → Bytes
  | 0 => []
  | n+1 => be256 ((n+1) / 256) ++ [UInt8.ofNat ((n+1) % 256)]
decreasing_by omega

def fromBE (b : Bytes) : Nat := b.foldl (fun a x => a * 256 + x.toNat) 0

/-- X.690 §8.1.3 / §10.1: definite length, minimal number of octets -/
def encLen (n : Nat) : Bytes :=
  if n < 128 then [UInt8.ofNat n] else
    let d := be256 n
    UInt8.ofNat (128 + d.length) :: d

/-- decode a DER length; rejects the indefinite form, non-minimal long forms and absurd sizes -/
def decLen : Bytes → Option (Nat × Bytes)
  | [] => none
  | b :: r =>
    if b.toNat < 128 then some (b.toNat, r)
    else
      let k := b.toNat - 128
      if k = 0 ∨ k > 8 then none            -- indefinite, or more length octets than Go accepts (int overflow)
      else if r.length < k then none
      else
        let d := r.take k
        let n := fromBE d
        if d.headD 0 = 0 then none           -- leading zero: not minimal
        else if n < 128 then none            -- should have used the short form
        else some (n, r.drop k)

/-- identifier octet: class (0 universal, 1 application, 2 context, 3 private), constructed bit, number -/
structure Tag where
  cls : Nat
  constructed : Bool
  num : Nat
  deriving Repr, DecidableEq, Inhabited

def Tag.byte (t : Tag) : UInt8 := UInt8.ofNat (t.cls * 64 + (if t.constructed then 32 else 0) + t.num)

def Tag.ofByte (b : UInt8) : Option Tag :=
  let n := b.toNat
  if n % 32 = 31 then none      -- high tag number form: never used by Kerberos / SPNEGO
  else some { cls := n / 64, constructed := n / 32 % 2 = 1, num := n % 32 }

def Tag.WF (t : Tag) : Prop := t.cls < 4 ∧ t.num < 31

inductive TLV where
  | prim (tag : Tag) (content : Bytes)
  | cons (tag : Tag) (children : List TLV)
  deriving Repr, Inhabited

mutual
def encTLV : TLV → Bytes
  | .prim t c => t.byte :: (encLen c.length ++ c)
  | .cons t cs => let body := encTLVs cs; t.byte :: (encLen body.length ++ body)
def encTLVs : List TLV → Bytes
  | [] => []
  | t :: ts => encTLV t ++ encTLVs ts
end

mutual
/-- one TLV from the front of the input (fuel bounds the nesting depth and the number of siblings) -/
def decTLV : Nat → Bytes → Option (TLV × Bytes)
  | 0, _ => none
  | fuel+1, b =>
    match b with
    | [] => none
    | id :: r =>
      match Tag.ofByte id with
      | none => none
      | some t =>
        match decLen r with
        | none => none
        | some (n, r') =>
          if r'.length < n then none else
          let body := r'.take n
          let rest := r'.drop n
          if t.constructed then
            match decTLVs fuel body with
            | none => none
            | some cs => some (.cons t cs, rest)
          else some (.prim t body, rest)
/-- a whole buffer as a sequence of TLVs -/
def decTLVs : Nat → Bytes → Option (List TLV)
  | 0, _ => none
  | fuel+1, b =>
    match b with
    | [] => some []
    | _ :: _ =>
      match decTLV fuel b with
      | none => none
      | some (t, r) =>
        match decTLVs fuel r with
        | none => none
        | some ts => some (t :: ts)
end

/-- exactly one TLV spanning the whole input -/
def decOne (b : Bytes) : Option TLV :=
  -- (every level of nesting costs two units of fuel and every sibling one: 2·length + 2 always suffices,
  --  see `depth_le_length`)
  match decTLV (2 * b.length + 2) b with
  | some (t, []) => some t
  | _ => none

def TLV.tag : TLV → Tag
  | .prim t _ => t
  | .cons t _ => t

end Krb.Asn1
