/-
  Schema-directed DER codec: the ASN.1 type language used by RFC 4120 / 4178 / 3244 (every SEQUENCE
  component carries an explicit context tag), a generic value type, and encoder / decoder directed by a
  type.  This is the independent "RFC decoder/encoder" that C13, C01, C03, C09, C18 use.
-/
import Krb.Asn1.Tlv
namespace Krb.Asn1
open Krb

inductive Ty where
  | int | octets | gstring | gtime | bits | oid | enum | bool
  | seq (fields : List (Nat × Bool × Ty))      -- (context tag, OPTIONAL?, type), in order
  | seqOf (elem : Ty)
  | app (n : Nat) (inner : Ty)                 -- [APPLICATION n] EXPLICIT
  | ctx (n : Nat) (inner : Ty)                 -- [n] EXPLICIT (CHOICE alternatives)
  | any                                        -- any single TLV, kept raw
  | other (what : String)                      -- a type no RFC 4120/4178 component has (translator only)
  deriving Repr, Inhabited

inductive Val where
  | int (i : Int)
  | bytes (b : Bytes)                          -- OCTET STRING / GeneralString / GeneralizedTime / OID contents
  | bits (unused : Nat) (b : Bytes)
  | bool (b : Bool)
  | seq (fields : List (Option Val))
  | list (vs : List Val)
  | raw (b : Bytes)
  deriving Repr, Inhabited

/-! ## primitive contents -/

/-- minimal two's complement, big endian (X.690 §8.3) -/
def natBytes (n : Nat) : Bytes := if n = 0 then [0] else be256 n

def encInt (i : Int) : Bytes :=
  if i ≥ 0 then
    let b := natBytes i.toNat
    if b.headD 0 ≥ 128 then 0 :: b else b
  else
    -- smallest k with -2^(8k-1) ≤ i
    let m := (-i).toNat        -- magnitude
    let rec width (k : Nat) (fuel : Nat) : Nat :=
      match fuel with
      | 0 => k
      | f+1 => if m ≤ 2 ^ (8 * k - 1) then k else width (k + 1) f
    let k := width 1 16
    let v := 2 ^ (8 * k) - m
    let b := be256 v
    List.replicate (k - b.length) 0 ++ b

def decInt (b : Bytes) : Option Int :=
  match b with
  | [] => none
  | x :: rest =>
    -- DER: no redundant leading 00 / FF octet
    if rest ≠ [] ∧ ((x = 0 ∧ rest.headD 0 < 128) ∨ (x = 255 ∧ rest.headD 0 ≥ 128)) then none
    else
      let n := fromBE b
      if x ≥ 128 then some ((n : Int) - (2 ^ (8 * b.length) : Nat)) else some n

def univ (num : Nat) (constructed : Bool := false) : Tag := { cls := 0, constructed, num }
def ctxTag (n : Nat) : Tag := { cls := 2, constructed := true, num := n }
def appTag (n : Nat) : Tag := { cls := 1, constructed := true, num := n }

/-! ## encoder: a value as a TLV tree -/

mutual
def toTLV : Nat → Ty → Val → Option TLV
  | 0, _, _ => none
  | _+1, .int, .int i => some (.prim (univ 2) (encInt i))
  | _+1, .enum, .int i => some (.prim (univ 10) (encInt i))
  | _+1, .octets, .bytes b => some (.prim (univ 4) b)
  | _+1, .gstring, .bytes b => some (.prim (univ 27) b)
  | _+1, .gtime, .bytes b => some (.prim (univ 24) b)
  | _+1, .oid, .bytes b => some (.prim (univ 6) b)
  | _+1, .bits, .bits u b => some (.prim (univ 3) (UInt8.ofNat u :: b))
  | _+1, .bool, .bool b => some (.prim (univ 1) [if b then 255 else 0])
  | f+1, .seq fields, .seq vals => (fieldsToTLV f fields vals).map (fun cs => .cons (univ 16 true) cs)
  | f+1, .seqOf t, .list vs => (listToTLV f t vs).map (fun cs => .cons (univ 16 true) cs)
  | f+1, .app n t, v => (toTLV f t v).map (fun c => .cons (appTag n) [c])
  | f+1, .ctx n t, v => (toTLV f t v).map (fun c => .cons (ctxTag n) [c])
  | _+1, .any, .raw b => decOne b
  | _+1, _, _ => none
def fieldsToTLV : Nat → List (Nat × Bool × Ty) → List (Option Val) → Option (List TLV)
  | 0, _, _ => none
  | _+1, [], [] => some []
  | f+1, (tag, opt, t) :: fs, v :: vs =>
    match v with
    | none => if opt then fieldsToTLV f fs vs else none
    | some x =>
      match toTLV f t x, fieldsToTLV f fs vs with
      | some c, some rest => some (.cons (ctxTag tag) [c] :: rest)
      | _, _ => none
  | _+1, _, _ => none
def listToTLV : Nat → Ty → List Val → Option (List TLV)
  | 0, _, _ => none
  | _+1, _, [] => some []
  | f+1, t, v :: vs =>
    match toTLV f t v, listToTLV f t vs with
    | some c, some rest => some (c :: rest)
    | _, _ => none
end

def encode (t : Ty) (v : Val) : Option Bytes := (toTLV 64 t v).map encTLV

/-! ## decoder -/

mutual
def ofTLV : Nat → Ty → TLV → Option Val
  | 0, _, _ => none
  | _+1, .int, .prim t c => if t = univ 2 then (decInt c).map .int else none
  | _+1, .enum, .prim t c => if t = univ 10 then (decInt c).map .int else none
  | _+1, .octets, .prim t c => if t = univ 4 then some (.bytes c) else none
  | _+1, .gstring, .prim t c => if t = univ 27 then some (.bytes c) else none
  | _+1, .gtime, .prim t c => if t = univ 24 then some (.bytes c) else none
  | _+1, .oid, .prim t c => if t = univ 6 then some (.bytes c) else none
  | _+1, .bits, .prim t c =>
    if t = univ 3 then
      match c with
      | u :: b => if u.toNat < 8 then some (.bits u.toNat b) else none
      | [] => none
    else none
  | _+1, .bool, .prim t c =>
    if t = univ 1 then
      match c with
      | [x] => some (.bool (x ≠ 0))
      | _ => none
    else none
  | f+1, .seq fields, .cons t cs => if t = univ 16 true then (fieldsOfTLV f fields cs).map .seq else none
  | f+1, .seqOf e, .cons t cs => if t = univ 16 true then (listOfTLV f e cs).map .list else none
  | f+1, .app n e, .cons t cs =>
    if t = appTag n then
      match cs with
      | [c] => ofTLV f e c
      | _ => none
    else none
  | f+1, .ctx n e, .cons t cs =>
    if t = ctxTag n then
      match cs with
      | [c] => ofTLV f e c
      | _ => none
    else none
  | _+1, .any, tlv => some (.raw (encTLV tlv))
  | _+1, _, _ => none
def fieldsOfTLV : Nat → List (Nat × Bool × Ty) → List TLV → Option (List (Option Val))
  | 0, _, _ => none
  | _+1, [], [] => some []
  | _+1, [], _ :: _ => none                      -- components the type does not have
  | f+1, (tag, opt, t) :: fs, cs =>
    match cs with
    | .cons ct [c] :: rest =>
      if ct = ctxTag tag then
        match ofTLV f t c, fieldsOfTLV f fs rest with
        | some v, some vs => some (some v :: vs)
        | _, _ => none
      else if opt then (fieldsOfTLV f fs cs).map (fun vs => none :: vs) else none
    | [] => if opt then (fieldsOfTLV f fs []).map (fun vs => none :: vs) else none
    | _ => none
def listOfTLV : Nat → Ty → List TLV → Option (List Val)
  | 0, _, _ => none
  | _+1, _, [] => some []
  | f+1, t, c :: cs =>
    match ofTLV f t c, listOfTLV f t cs with
    | some v, some vs => some (v :: vs)
    | _, _ => none
end

def decode (t : Ty) (b : Bytes) : Option Val := (decOne b).bind (ofTLV 64 t)

end Krb.Asn1
