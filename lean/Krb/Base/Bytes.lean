/-
  Basic byte-string vocabulary shared by every model.
  Core Lean only (no Mathlib): this file is linked into the compiled driver `kmodel`.
-/
namespace Krb

abbrev Bytes := List UInt8

def toBA (b : Bytes) : ByteArray := ⟨b.toArray⟩
def ofBA (b : ByteArray) : Bytes := b.data.toList

@[simp] theorem ofBA_toBA (b : Bytes) : ofBA (toBA b) = b := by
  simp [ofBA, toBA]

/-- lift a ByteArray primitive to lists -/
def liftBA (f : ByteArray → ByteArray) (b : Bytes) : Bytes := ofBA (f (toBA b))
def liftBA2 (f : ByteArray → ByteArray → ByteArray) (a b : Bytes) : Bytes := ofBA (f (toBA a) (toBA b))

def zeros (n : Nat) : Bytes := List.replicate n 0

@[simp] theorem zeros_length (n : Nat) : (zeros n).length = n := by simp [zeros]

/-! ## byte ↔ nat -/

theorem u8_ofNat_toNat (n : Nat) : (UInt8.ofNat n).toNat = n % 256 := by
  simp [UInt8.toNat_ofNat']

theorem u8_ofNat_toNat_lt (n : Nat) (h : n < 256) : (UInt8.ofNat n).toNat = n := by
  simp [UInt8.toNat_ofNat']; omega

/-! ## fixed-width integer codecs (big and little endian) -/

def be16 (n : Nat) : Bytes := [UInt8.ofNat (n / 256), UInt8.ofNat n]
def le16 (n : Nat) : Bytes := [UInt8.ofNat n, UInt8.ofNat (n / 256)]
def be32 (n : Nat) : Bytes :=
  [UInt8.ofNat (n / 16777216), UInt8.ofNat (n / 65536), UInt8.ofNat (n / 256), UInt8.ofNat n]
def le32 (n : Nat) : Bytes :=
  [UInt8.ofNat n, UInt8.ofNat (n / 256), UInt8.ofNat (n / 65536), UInt8.ofNat (n / 16777216)]
def be64 (n : Nat) : Bytes := be32 (n / 4294967296) ++ be32 n
def le64 (n : Nat) : Bytes := le32 n ++ le32 (n / 4294967296)

def enc16 (le : Bool) (n : Nat) : Bytes := if le then le16 n else be16 n
def enc32 (le : Bool) (n : Nat) : Bytes := if le then le32 n else be32 n

@[simp] theorem be16_length (n : Nat) : (be16 n).length = 2 := rfl
@[simp] theorem le16_length (n : Nat) : (le16 n).length = 2 := rfl
@[simp] theorem be32_length (n : Nat) : (be32 n).length = 4 := rfl
@[simp] theorem le32_length (n : Nat) : (le32 n).length = 4 := rfl
@[simp] theorem be64_length (n : Nat) : (be64 n).length = 8 := rfl
@[simp] theorem le64_length (n : Nat) : (le64 n).length = 8 := rfl
@[simp] theorem enc16_length (le : Bool) (n : Nat) : (enc16 le n).length = 2 := by
  cases le <;> rfl
@[simp] theorem enc32_length (le : Bool) (n : Nat) : (enc32 le n).length = 4 := by
  cases le <;> rfl

def dec16be : Bytes → Option (Nat × Bytes)
  | a :: b :: r => some (a.toNat * 256 + b.toNat, r)
  | _ => none
def dec16le : Bytes → Option (Nat × Bytes)
  | a :: b :: r => some (b.toNat * 256 + a.toNat, r)
  | _ => none
def dec32be : Bytes → Option (Nat × Bytes)
  | a :: b :: c :: d :: r =>
    some (a.toNat * 16777216 + b.toNat * 65536 + c.toNat * 256 + d.toNat, r)
  | _ => none
def dec32le : Bytes → Option (Nat × Bytes)
  | a :: b :: c :: d :: r =>
    some (d.toNat * 16777216 + c.toNat * 65536 + b.toNat * 256 + a.toNat, r)
  | _ => none
def dec16 (le : Bool) (b : Bytes) : Option (Nat × Bytes) := if le then dec16le b else dec16be b
def dec32 (le : Bool) (b : Bytes) : Option (Nat × Bytes) := if le then dec32le b else dec32be b

def dec64be (b : Bytes) : Option (Nat × Bytes) :=
  match dec32be b with
  | none => none
  | some (hi, r) =>
    match dec32be r with
    | none => none
    | some (lo, r') => some (hi * 4294967296 + lo, r')

theorem dec16be_be16 (n : Nat) (h : n < 65536) (r : Bytes) :
    dec16be (be16 n ++ r) = some (n, r) := by
  simp [be16, dec16be, UInt8.toNat_ofNat']; omega

theorem dec16le_le16 (n : Nat) (h : n < 65536) (r : Bytes) :
    dec16le (le16 n ++ r) = some (n, r) := by
  simp [le16, dec16le, UInt8.toNat_ofNat']; omega

theorem dec32be_be32 (n : Nat) (h : n < 4294967296) (r : Bytes) :
    dec32be (be32 n ++ r) = some (n, r) := by
  simp [be32, dec32be, UInt8.toNat_ofNat']; omega

theorem dec32le_le32 (n : Nat) (h : n < 4294967296) (r : Bytes) :
    dec32le (le32 n ++ r) = some (n, r) := by
  simp [le32, dec32le, UInt8.toNat_ofNat']; omega

theorem dec16_enc16 (le : Bool) (n : Nat) (h : n < 65536) (r : Bytes) :
    dec16 le (enc16 le n ++ r) = some (n, r) := by
  cases le <;> simp [dec16, enc16, dec16be_be16, dec16le_le16, h]

theorem dec32_enc32 (le : Bool) (n : Nat) (h : n < 4294967296) (r : Bytes) :
    dec32 le (enc32 le n ++ r) = some (n, r) := by
  cases le <;> simp [dec32, enc32, dec32be_be32, dec32le_le32, h]

theorem dec16_lt (le : Bool) (b : Bytes) (n : Nat) (r : Bytes) (h : dec16 le b = some (n, r)) :
    n < 65536 ∧ b.length = r.length + 2 := by
  cases le <;> simp only [dec16, Bool.false_eq_true, if_false, if_true] at h
  · match b, h with
    | x :: y :: r', h =>
      simp [dec16be] at h
      have := x.toNat_lt; have := y.toNat_lt
      obtain ⟨h1, h2⟩ := h
      subst h2
      simp; omega
  · match b, h with
    | x :: y :: r', h =>
      simp [dec16le] at h
      have := x.toNat_lt; have := y.toNat_lt
      obtain ⟨h1, h2⟩ := h
      subst h2
      simp; omega

theorem dec32_lt (le : Bool) (b : Bytes) (n : Nat) (r : Bytes) (h : dec32 le b = some (n, r)) :
    n < 4294967296 ∧ b.length = r.length + 4 := by
  cases le <;> simp only [dec32, Bool.false_eq_true, if_false, if_true] at h
  · match b, h with
    | x :: y :: z :: w :: r', h =>
      simp [dec32be] at h
      have := x.toNat_lt; have := y.toNat_lt; have := z.toNat_lt; have := w.toNat_lt
      obtain ⟨h1, h2⟩ := h
      subst h2
      simp; omega
  · match b, h with
    | x :: y :: z :: w :: r', h =>
      simp [dec32le] at h
      have := x.toNat_lt; have := y.toNat_lt; have := z.toNat_lt; have := w.toNat_lt
      obtain ⟨h1, h2⟩ := h
      subst h2
      simp; omega

/-- two's complement interpretation -/
def toSigned (bits : Nat) (n : Nat) : Int :=
  if n < 2 ^ (bits - 1) then (n : Int) else (n : Int) - (2 ^ bits : Nat)

def ofSigned (bits : Nat) (i : Int) : Nat :=
  (i % ((2 ^ bits : Nat) : Int)).toNat

/-! ## xor -/

def bxor (a b : Bytes) : Bytes := List.zipWith (· ^^^ ·) a b

@[simp] theorem bxor_length (a b : Bytes) : (bxor a b).length = min a.length b.length := by
  simp [bxor]

theorem u8_xor_cancel (a b : UInt8) : (a ^^^ b) ^^^ b = a := by
  rw [UInt8.xor_assoc, UInt8.xor_self, UInt8.xor_zero]

theorem bxor_cancel : ∀ (a b : Bytes), a.length = b.length → bxor (bxor a b) b = a
  | [], [], _ => rfl
  | x :: a, y :: b, h => by
    simp only [List.length_cons, Nat.add_right_cancel_iff] at h
    have := bxor_cancel a b h
    simp only [bxor, List.zipWith_cons_cons] at this ⊢
    rw [this, u8_xor_cancel]
  | [], _ :: _, h => by simp at h
  | _ :: _, [], h => by simp at h

/-! ## hex (driver only) -/

def hexDigit (n : Nat) : Char :=
  if n < 10 then Char.ofNat (48 + n) else Char.ofNat (87 + n)

def toHex (b : Bytes) : String :=
  String.ofList (b.foldr (fun x acc => hexDigit (x.toNat / 16) :: hexDigit (x.toNat % 16) :: acc) [])

def hexVal (c : Char) : Option Nat :=
  if '0' ≤ c ∧ c ≤ '9' then some (c.toNat - 48)
  else if 'a' ≤ c ∧ c ≤ 'f' then some (c.toNat - 87)
  else if 'A' ≤ c ∧ c ≤ 'F' then some (c.toNat - 55)
  else none

def ofHexChars : List Char → Option Bytes
  | [] => some []
  | a :: b :: r =>
    match hexVal a, hexVal b, ofHexChars r with
    | some x, some y, some t => some (UInt8.ofNat (x * 16 + y) :: t)
    | _, _, _ => none
  | _ => none

def ofHex (s : String) : Option Bytes := ofHexChars s.toList

end Krb
