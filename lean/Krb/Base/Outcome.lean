/-
  Panic-aware outcome monad used by the `Impl.*` transliterations of Go byte-level code.
  Go partiality (index / slice out of range, negative `make`) is explicit: the primitives below
  return `panic` exactly when the Go runtime would, so "never panics" is a theorem about the
  model and not a by-product of Lean's totality.
-/
import Krb.Base.Bytes
namespace Krb

inductive Outcome (α : Type) where
  | ok (a : α)
  | err (kind : String)
  | crash (why : String)
  deriving Repr, DecidableEq

namespace Outcome

@[inline] def bind {α β : Type} (x : Outcome α) (f : α → Outcome β) : Outcome β :=
  match x with
  | ok a => f a
  | err k => err k
  | crash w => crash w

instance : Monad Outcome where
  pure := ok
  bind := bind

def isPanic {α : Type} : Outcome α → Bool
  | crash _ => true
  | _ => false

def isOk {α : Type} : Outcome α → Bool
  | ok _ => true
  | _ => false

def NoPanic {α : Type} (x : Outcome α) : Prop := x.isPanic = false

@[simp] theorem bind_ok {α β : Type} (a : α) (f : α → Outcome β) : (ok a >>= f) = f a := rfl
@[simp] theorem bind_err {α β : Type} (k : String) (f : α → Outcome β) :
    ((err k : Outcome α) >>= f) = err k := rfl
@[simp] theorem bind_panic {α β : Type} (k : String) (f : α → Outcome β) :
    ((crash k : Outcome α) >>= f) = crash k := rfl
@[simp] theorem pure_eq {α : Type} (a : α) : (pure a : Outcome α) = ok a := rfl

theorem noPanic_bind {α β : Type} (x : Outcome α) (f : α → Outcome β)
    (hx : x.NoPanic) (hf : ∀ a, x = ok a → (f a).NoPanic) : (x >>= f).NoPanic := by
  cases x with
  | ok a => exact hf a rfl
  | err k => rfl
  | crash w => simp [NoPanic, isPanic] at hx

end Outcome

open Outcome

/-- Go `b[i]` -/
def goIdx (b : Bytes) (i : Int) : Outcome UInt8 :=
  if i < 0 then crash "index out of range (negative)"
  else match b[i.toNat]? with
    | some x => ok x
    | none => crash "index out of range"

/-- Go `b[i:j]` on a slice whose capacity equals its length -/
def goSlice (b : Bytes) (i j : Int) : Outcome Bytes :=
  if i < 0 ∨ j < 0 then crash "slice bounds out of range (negative)"
  else if j.toNat > b.length then crash "slice bounds out of range (high)"
  else if i > j then crash "slice bounds out of range (low > high)"
  else ok ((b.take j.toNat).drop i.toNat)

/-- Go `b[i:]` -/
def goSliceFrom (b : Bytes) (i : Int) : Outcome Bytes := goSlice b i b.length

/-- Go `b[:j]` -/
def goSliceTo (b : Bytes) (j : Int) : Outcome Bytes := goSlice b 0 j

/-- Go `make([]T, n)`: panics for negative n; `cap` is the allocation budget the model
    tolerates (requests above it are reported as panics of kind "alloc") -/
def goMake (n : Int) (cap : Nat) : Outcome Nat :=
  if n < 0 then crash "makeslice: len out of range"
  else if n.toNat > cap then crash "alloc: makeslice beyond budget"
  else ok n.toNat

theorem goSlice_ok (b : Bytes) (i j : Int) (h0 : 0 ≤ i) (h1 : i ≤ j) (h2 : j.toNat ≤ b.length) :
    goSlice b i j = ok ((b.take j.toNat).drop i.toNat) := by
  unfold goSlice
  have h3 : ¬ (i < 0 ∨ j < 0) := by omega
  have h4 : ¬ (j.toNat > b.length) := by omega
  have h5 : ¬ (i > j) := by omega
  simp only [h3, h4, h5, if_false]

end Krb
