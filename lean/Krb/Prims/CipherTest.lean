/-
  Known-answer self test for the cipher primitives (AES, DES, triple DES, RC4).
  `cipherSelfTest` returns one named Boolean per check; every entry must be `true`.

  Sources of the vectors: FIPS 197 appendices B and C, NIST AESAVS (GFSbox), NIST SP 800-38A
  (ECB), NIST SP 800-17 / the classic DES validation sets, RFC 6229 (RC4).  The entries marked
  "xcheck" were generated with an independent implementation (Go standard library).
-/
import Krb.Prims.Aes
import Krb.Prims.Des
import Krb.Prims.Rc4

namespace Krb.Prims

/-- Lower-case hexadecimal rendering of a byte string. -/
def chexOf (b : ByteArray) : String :=
  let digit (n : UInt8) : Char := Char.ofNat (if n < 10 then 48 + n.toNat else 87 + n.toNat)
  String.ofList (b.data.toList.flatMap fun (x : UInt8) => [digit (x >>> 4), digit (x &&& 0xf)])

/-- Parses hexadecimal (either case); characters that are not hex digits are skipped, a trailing
    odd nibble is dropped. -/
def cofHex (s : String) : ByteArray :=
  let nib (c : Char) : Option UInt8 :=
    if '0' ≤ c && c ≤ '9' then some (c.toNat - 48).toUInt8
    else if 'a' ≤ c && c ≤ 'f' then some (c.toNat - 87).toUInt8
    else if 'A' ≤ c && c ≤ 'F' then some (c.toNat - 55).toUInt8
    else none
  let rec go : List UInt8 → ByteArray → ByteArray
    | hi :: lo :: rest, acc => go rest (acc.push ((hi <<< 4) ||| lo))
    | _, acc => acc
  go (s.toList.filterMap nib) ByteArray.empty

namespace CipherTestImpl

def beq (a : ByteArray) (hex : String) : Bool := chexOf a == chexOf (cofHex hex)

/-- AES known answer: encrypt gives `ct`, decrypt gives back `pt`. -/
def aesKat (name key pt ct : String) : List (String × Bool) :=
  let k := aesExpandKey (cofHex key)
  [ (name ++ " encrypt", beq (k.encryptBlock (cofHex pt)) ct),
    (name ++ " decrypt", beq (k.decryptBlock (cofHex ct)) pt) ]

/-- DES known answer, both directions. -/
def desKat (name key pt ct : String) : List (String × Bool) :=
  [ (name ++ " encrypt", beq (desEncryptBlock (cofHex key) (cofHex pt)) ct),
    (name ++ " decrypt", beq (desDecryptBlock (cofHex key) (cofHex ct)) pt) ]

/-- Triple-DES known answer, both directions, through both the one-shot and the expanded API. -/
def des3Kat (name key pt ct : String) : List (String × Bool) :=
  let k := des3ExpandKey (cofHex key)
  [ (name ++ " encrypt", beq (des3EncryptBlock (cofHex key) (cofHex pt)) ct),
    (name ++ " decrypt", beq (des3DecryptBlock (cofHex key) (cofHex ct)) pt),
    (name ++ " encrypt (expanded key)", beq (k.encryptBlock (cofHex pt)) ct),
    (name ++ " decrypt (expanded key)", beq (k.decryptBlock (cofHex ct)) pt) ]

/-- RC4 known answer: `data` (hex) is mapped to `out` (hex), and back. -/
def rc4Kat (name : String) (key data : ByteArray) (out : String) : List (String × Bool) :=
  [ (name, beq (rc4 key data) out),
    (name ++ " inverse", chexOf (rc4 key (cofHex out)) == chexOf data) ]

def zeros (n : Nat) : ByteArray := ByteArray.mk (Array.replicate n 0)

/-- `f` applied `n` times to `b`. -/
def iter (f : ByteArray → ByteArray) : Nat → ByteArray → ByteArray
  | 0, b => b
  | n+1, b => iter f n (f b)

/-- A few 8-byte blocks for the round-trip checks. -/
def blocks8 : List String :=
  ["0000000000000000", "ffffffffffffffff", "0123456789abcdef", "8000000000000001",
   "5468652071756663", "deadbeefcafef00d", "a5a5a5a55a5a5a5a", "0000000100000000"]

def blocks16 : List String :=
  ["00000000000000000000000000000000", "ffffffffffffffffffffffffffffffff",
   "00112233445566778899aabbccddeeff", "80000000000000000000000000000001",
   "deadbeefcafef00d0123456789abcdef"]

def aesTests : List (String × Bool) :=
  [ ("AES hex helpers round trip", chexOf (cofHex "00FFa5 5A:0f") == "00ffa55a0f"),
    ("AES invSbox . sbox = id",
      (List.range 256).all fun i =>
        (aesInvSbox.get! (aesSbox.get! i).toNat).toNat == i &&
        (aesSbox.get! (aesInvSbox.get! i).toNat).toNat == i),
    ("AES round counts",
      (aesExpandKey (zeros 16)).nr == 10 && (aesExpandKey (zeros 24)).nr == 12 &&
      (aesExpandKey (zeros 32)).nr == 14 &&
      (aesExpandKey (zeros 16)).rk.size == 44 && (aesExpandKey (zeros 24)).rk.size == 52 &&
      (aesExpandKey (zeros 32)).rk.size == 60),
    -- FIPS 197 appendix A.1: last word of the AES-128 schedule, A.3: last word for AES-256
    ("AES-128 FIPS-197 A.1 key schedule w43",
      (aesExpandKey (cofHex "2b7e151628aed2a6abf7158809cf4f3c")).rk[43]! == 0xb6630ca6),
    ("AES-256 FIPS-197 A.3 key schedule w59",
      (aesExpandKey (cofHex
        "603deb1015ca71be2b73aef0857d77811f352c073b6108d72d9810a30914dff4")).rk[59]! == 0x706c631e)
  ] ++
  aesKat "AES-128 FIPS-197 C.1"
    "000102030405060708090a0b0c0d0e0f"
    "00112233445566778899aabbccddeeff" "69c4e0d86a7b0430d8cdb78070b4c55a" ++
  aesKat "AES-192 FIPS-197 C.2"
    "000102030405060708090a0b0c0d0e0f1011121314151617"
    "00112233445566778899aabbccddeeff" "dda97ca4864cdfe06eaf70a0ec0d7191" ++
  aesKat "AES-256 FIPS-197 C.3"
    "000102030405060708090a0b0c0d0e0f101112131415161718191a1b1c1d1e1f"
    "00112233445566778899aabbccddeeff" "8ea2b7ca516745bfeafc49904b496089" ++
  aesKat "AES-128 FIPS-197 B"
    "2b7e151628aed2a6abf7158809cf4f3c"
    "3243f6a8885a308d313198a2e0370734" "3925841d02dc09fbdc118597196a0b32" ++
  aesKat "AES-128 AESAVS GFSbox 0"
    "00000000000000000000000000000000"
    "f34481ec3cc627bacd5dc3fb08f273e6" "0336763e966d92595a567cc9ce537f5e" ++
  aesKat "AES-128 AESAVS GFSbox 1"
    "00000000000000000000000000000000"
    "9798c4640bad75c7c3227db910174e72" "a9a1631bf4996954ebc093957b234589" ++
  aesKat "AES-256 AESAVS GFSbox 0"
    "0000000000000000000000000000000000000000000000000000000000000000"
    "014730f80ac625fe84f026c60bfd547d" "5c9d844ed46f9885085e5d6a4f94c7d7" ++
  aesKat "AES-256 AESAVS GFSbox 1"
    "0000000000000000000000000000000000000000000000000000000000000000"
    "0b24af36193ce4665f2825d7b4749c98" "a9ff75bd7cf6613d3731c77c3b6d0c04" ++
  aesKat "AES-128 SP800-38A ECB block 1"
    "2b7e151628aed2a6abf7158809cf4f3c"
    "6bc1bee22e409f96e93d7e117393172a" "3ad77bb40d7a3660a89ecaf32466ef97" ++
  aesKat "AES-192 SP800-38A ECB block 1"
    "8e73b0f7da0e6452c810f32b809079e562f8ead2522c6b7b"
    "6bc1bee22e409f96e93d7e117393172a" "bd334f1d6e45f25ff712a214571fa5cc" ++
  aesKat "AES-256 SP800-38A ECB block 1"
    "603deb1015ca71be2b73aef0857d77811f352c073b6108d72d9810a30914dff4"
    "6bc1bee22e409f96e93d7e117393172a" "f3eed1bdb5d2a03c064b5a7e3db181f8" ++
  aesKat "AES-128 xcheck 1"
    "538c7f96b164bf1b97bb9f4bb472e89f"
    "5b1484f25209c9d9343e92ba09dd9d52" "482c44353aefd13f8b67368fcbdfef2f" ++
  aesKat "AES-128 xcheck 2"
    "fefdbe0c102887e100dacd2d885f692c"
    "b607da00a11c1c7071e796a2dc2dc25a" "141c9db1ce7056613429658ccf281ee6" ++
  aesKat "AES-192 xcheck 1"
    "dfd79b4d76429b617a0c9f9f0d3ba55b0cc0d6144c888535"
    "841acbe0709b0758083f61d375bc02b4" "4ca7ae986cae593830d2caf146955ba1" ++
  aesKat "AES-256 xcheck 1"
    "1df4f91929e18fda9e6f82e54e748e81e79e4bbd6fe34cdcba843ee8d63e8c4f"
    "fe1cebea546d8fac13dd1aac04ce2ea2" "af441404acd019d059c5b71047472e5f" ++
  aesKat "AES-256 xcheck 2"
    "6b6fed27ff8974bac0cafd9ad05692b13619e738964dfdc79e8d534373661cfd"
    "66d74fec1e1b89491ab7236e4b752162" "391981921a88fab833bbacf7363cf032" ++
  [ ("AES-128 decrypt . encrypt = id",
      let k := aesExpandKey (cofHex "8899aabbccddeeff0011223344556677")
      blocks16.all fun b => beq (k.decryptBlock (k.encryptBlock (cofHex b))) b),
    ("AES-256 decrypt . encrypt = id",
      let k := aesExpandKey
        (cofHex "8899aabbccddeeff0011223344556677fedcba98765432100123456789abcdef")
      blocks16.all fun b => beq (k.decryptBlock (k.encryptBlock (cofHex b))) b),
    ("AES-256 encrypt . decrypt = id",
      let k := aesExpandKey
        (cofHex "8899aabbccddeeff0011223344556677fedcba98765432100123456789abcdef")
      blocks16.all fun b => beq (k.encryptBlock (k.decryptBlock (cofHex b))) b),
    ("AES-256 1000-fold iterated encrypt xcheck",
      let k := aesExpandKey
        (cofHex "603deb1015ca71be2b73aef0857d77811f352c073b6108d72d9810a30914dff4")
      beq (iter k.encryptBlock 1000 (cofHex "6bc1bee22e409f96e93d7e117393172a"))
        "4806983af930852ea33f40b7a5d627d0"),
    ("AES-256 1000-fold iterated decrypt xcheck",
      let k := aesExpandKey
        (cofHex "603deb1015ca71be2b73aef0857d77811f352c073b6108d72d9810a30914dff4")
      beq (iter k.decryptBlock 1000 (cofHex "6bc1bee22e409f96e93d7e117393172a"))
        "54b5f56b4be20515d0894921d7a4e28f"),
    ("AES-128 1000-fold iterated encrypt xcheck",
      let k := aesExpandKey (cofHex "2b7e151628aed2a6abf7158809cf4f3c")
      beq (iter k.encryptBlock 1000 (cofHex "6bc1bee22e409f96e93d7e117393172a"))
        "5031397e3de28e1f60cfac8787d769e2") ]

def desTests : List (String × Bool) :=
  desKat "DES classic worked example" "133457799bbcdff1" "0123456789abcdef" "85e813540f0ab405" ++
  desKat "DES variable plaintext 1" "0101010101010101" "8000000000000000" "95f8a5e5dd31d900" ++
  desKat "DES variable plaintext 2" "0101010101010101" "4000000000000000" "dd7f121ca5015619" ++
  desKat "DES variable key 1" "8001010101010101" "0000000000000000" "95a8d72813daa94d" ++
  desKat "DES 'Now is t'" "0123456789abcdef" "4e6f772069732074" "3fa40e8a984d4815" ++
  desKat "DES all-zero" "0000000000000000" "0000000000000000" "8ca64de9c1b123a7" ++
  desKat "DES all-one" "ffffffffffffffff" "ffffffffffffffff" "7359b2163e4edc58" ++
  desKat "DES SSLeay set 1" "3000000000000000" "1000000000000001" "958e6e627a05557b" ++
  desKat "DES SSLeay set 2" "fedcba9876543210" "0123456789abcdef" "ed39d950fa74bcc4" ++
  desKat "DES SSLeay set 3" "7ca110454a1a6e57" "01a1d6d039776742" "690f5b0d9a26939b" ++
  desKat "DES xcheck 1" "877c5579cfa2c78e" "1b0bafae881b82a7" "9d3f1af5c30a5b76" ++
  desKat "DES xcheck 2" "90cf2beb42c3ca27" "328560f1aac067ce" "556daae2d4dc4e84" ++
  desKat "DES xcheck 3" "df668f874e2c9f1c" "e09ca86017e7e217" "12c637760428da77" ++
  [ ("DES parity bits ignored",
      blocks8.all fun b =>
        chexOf (desEncryptBlock (cofHex "133457799bbcdff1") (cofHex b)) ==
        chexOf (desEncryptBlock (cofHex "123456789abcdef0") (cofHex b))),
    ("DES decrypt . encrypt = id",
      blocks8.all fun b =>
        let k := cofHex "0e329232ea6d0d73"
        beq (desDecryptBlock k (desEncryptBlock k (cofHex b))) b),
    ("DES FP . IP = id",
      blocks8.all fun b =>
        let x := DesImpl.load64 (cofHex b) 0
        DesImpl.permute DesImpl.fpTbl 64 (DesImpl.permute DesImpl.ipTbl 64 x) == x) ]

def des3Tests : List (String × Bool) :=
  des3Kat "3DES EDE3 'The qufc'"
    "0123456789abcdef23456789abcdef01456789abcdef0123" "5468652071756663" "a826fd8ce53b855f" ++
  des3Kat "3DES EDE3 'k brown '"
    "0123456789abcdef23456789abcdef01456789abcdef0123" "6b2062726f776e20" "cce21c8112256fe6" ++
  des3Kat "3DES EDE3 'fox jump'"
    "0123456789abcdef23456789abcdef01456789abcdef0123" "666f78206a756d70" "68d5c05dd9b6b900" ++
  des3Kat "3DES K1=K2=K3 equals DES"
    "133457799bbcdff1133457799bbcdff1133457799bbcdff1" "0123456789abcdef" "85e813540f0ab405" ++
  des3Kat "3DES xcheck 1"
    "51108a42ed3c903caa43465a78620616978aed0ce3c6c4f3" "ae7bc3e0495b5712" "d481b19dca608158" ++
  des3Kat "3DES xcheck 2"
    "a6e8bf46d4ab2b4680402c5fb2820e885d3260f1de978283" "d4a09a36f96c2094" "02c629f7bb13229a" ++
  des3Kat "3DES xcheck 3"
    "48303ff41c1b23e11c48ed17539d685f76f2a798bc64de0e" "5db2864b2ad3c26c" "62ea4d7ab7d8b0cc" ++
  [ ("3DES K1=K2=K3 equals DES on several blocks",
      blocks8.all fun b =>
        let k := cofHex "0e329232ea6d0d73"
        chexOf (des3EncryptBlock (k ++ k ++ k) (cofHex b)) == chexOf (desEncryptBlock k (cofHex b))
        && chexOf (des3DecryptBlock (k ++ k ++ k) (cofHex b)) ==
           chexOf (desDecryptBlock k (cofHex b))),
    ("3DES = E_K3 . D_K2 . E_K1 composed from DES",
      blocks8.all fun b =>
        let k1 := cofHex "0123456789abcdef"
        let k2 := cofHex "23456789abcdef01"
        let k3 := cofHex "456789abcdef0123"
        chexOf (des3EncryptBlock (k1 ++ k2 ++ k3) (cofHex b)) ==
          chexOf (desEncryptBlock k3 (desDecryptBlock k2 (desEncryptBlock k1 (cofHex b)))) &&
        chexOf (des3DecryptBlock (k1 ++ k2 ++ k3) (cofHex b)) ==
          chexOf (desDecryptBlock k1 (desEncryptBlock k2 (desDecryptBlock k3 (cofHex b))))),
    ("3DES decrypt . encrypt = id",
      let k := des3ExpandKey (cofHex "0123456789abcdef23456789abcdef01456789abcdef0123")
      blocks8.all fun b => beq (k.decryptBlock (k.encryptBlock (cofHex b))) b),
    ("3DES encrypt . decrypt = id",
      let k := des3ExpandKey (cofHex "0123456789abcdef23456789abcdef01456789abcdef0123")
      blocks8.all fun b => beq (k.encryptBlock (k.decryptBlock (cofHex b))) b),
    ("3DES 1000-fold iterated encrypt xcheck",
      let k := des3ExpandKey (cofHex "0123456789abcdef23456789abcdef01456789abcdef0123")
      beq (iter k.encryptBlock 1000 (cofHex "5468652071756663")) "216362c2889587f9"),
    ("3DES 1000-fold iterated decrypt xcheck",
      let k := des3ExpandKey (cofHex "0123456789abcdef23456789abcdef01456789abcdef0123")
      beq (iter k.decryptBlock 1000 (cofHex "5468652071756663")) "55c35bf10c1d8631") ]

def rc4Tests : List (String × Bool) :=
  rc4Kat "RC4 RFC 6229 40-bit key, offset 0" (cofHex "0102030405") (zeros 16)
    "b2396305f03dc027ccc3524a0a1118a8" ++
  rc4Kat "RC4 RFC 6229 64-bit key, offset 0" (cofHex "0102030405060708") (zeros 16)
    "97ab8a1bf0afb96132f2f67258da15a8" ++
  rc4Kat "RC4 RFC 6229 128-bit key, offset 0" (cofHex "0102030405060708090a0b0c0d0e0f10")
    (zeros 16) "9ac7cc9a609d1ef7b2932899cde41b97" ++
  rc4Kat "RC4 RFC 6229 40-bit key 833222772a, offset 0" (cofHex "833222772a") (zeros 16)
    "80ad97bdc973df8a2e879e92a497efda" ++
  rc4Kat "RC4 RFC 6229 256-bit key, offset 0"
    (cofHex "1ada31d5cf688221c109163908ebe51debb46227c6cc8b37641910833222772a") (zeros 16)
    "dd5bcb0018e922d494759d7c395d02d3" ++
  [ ("RC4 RFC 6229 40-bit key, offset 4096",
      beq ((rc4 (cofHex "0102030405") (zeros 4112)).extract 4096 4112)
        "ff25b58995996707e51fbdf08b34d875") ] ++
  rc4Kat "RC4 'Key'/'Plaintext'" "Key".toUTF8 "Plaintext".toUTF8 "bbf316e8d940af0ad3" ++
  rc4Kat "RC4 'Wiki'/'pedia'" "Wiki".toUTF8 "pedia".toUTF8 "1021bf0420" ++
  rc4Kat "RC4 'Secret'/'Attack at dawn'" "Secret".toUTF8 "Attack at dawn".toUTF8
    "45a01f645fc35b383552544b9bf5" ++
  [ ("RC4 empty data", (rc4 "Key".toUTF8 ByteArray.empty).size == 0) ]

end CipherTestImpl

/-- Named known-answer checks for AES, DES, triple DES and RC4; all must be `true`. -/
def cipherSelfTest : List (String × Bool) :=
  CipherTestImpl.aesTests ++ CipherTestImpl.desTests ++ CipherTestImpl.des3Tests ++
  CipherTestImpl.rc4Tests

end Krb.Prims
