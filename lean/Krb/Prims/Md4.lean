/-
  MD4 (RFC 1320).  Core Lean only; hot loops are first-order tail-recursive functions
  over unboxed `UInt32` arguments.
-/
namespace Krb.Prims

/-- Chaining value of MD4 and MD5. -/
structure MdState where
  a : UInt32
  b : UInt32
  c : UInt32
  d : UInt32

namespace Md4

@[inline] def rotl (x : UInt32) (n : UInt32) : UInt32 :=
  (x <<< n) ||| (x >>> (32 - n))

/-- Little-endian 32-bit load at byte offset `i`. -/
@[inline] def le32 (b : ByteArray) (i : Nat) : UInt32 :=
  (b.get! i).toUInt32 ||| ((b.get! (i + 1)).toUInt32 <<< 8) |||
  ((b.get! (i + 2)).toUInt32 <<< 16) ||| ((b.get! (i + 3)).toUInt32 <<< 24)

/-- Little-endian 32-bit store (append). -/
@[inline] def pushLE32 (out : ByteArray) (x : UInt32) : ByteArray :=
  (((out.push x.toUInt8).push (x >>> 8).toUInt8).push (x >>> 16).toUInt8).push (x >>> 24).toUInt8

/-- Little-endian 64-bit store (append). -/
def pushLE64 (out : ByteArray) (x : UInt64) : ByteArray :=
  pushLE32 (pushLE32 out x.toUInt32) (x >>> 32).toUInt32

def pushZeros : Nat → ByteArray → ByteArray
  | 0, out => out
  | n + 1, out => pushZeros n (out.push 0)

def init : MdState :=
  ⟨0x67452301, 0xefcdab89, 0x98badcfe, 0x10325476⟩

/-- The 16 little-endian message words of a block. -/
def load (blk : ByteArray) (off i : Nat) (x : Array UInt32) : Array UInt32 :=
  if _h : i < 16 then load blk off (i + 1) (x.push (le32 blk (off + 4 * i))) else x
termination_by 16 - i

/-- Per-step left-rotation amounts (48 steps). -/
def S : Array UInt32 := #[
    3, 7, 11, 19, 3, 7, 11, 19, 3, 7, 11, 19, 3, 7, 11, 19,
    3, 5, 9, 13, 3, 5, 9, 13, 3, 5, 9, 13, 3, 5, 9, 13,
    3, 9, 11, 15, 3, 9, 11, 15, 3, 9, 11, 15, 3, 9, 11, 15]

/-- Per-step message word index (48 steps). -/
def X : Array Nat := #[
    0, 1, 2, 3, 4, 5, 6, 7, 8, 9, 10, 11, 12, 13, 14, 15,
    0, 4, 8, 12, 1, 5, 9, 13, 2, 6, 10, 14, 3, 7, 11, 15,
    0, 8, 4, 12, 2, 10, 6, 14, 1, 9, 5, 13, 3, 11, 7, 15]

def round3 (s : Array UInt32) (xi : Array Nat) (x : Array UInt32) (i : Nat) (a b c d : UInt32) :
    MdState :=
  if _h : i < 48 then
    let t := rotl (a + (b ^^^ c ^^^ d) + x[xi[i]!]! + 0x6ed9eba1) s[i]!
    round3 s xi x (i + 1) d t b c
  else ⟨a, b, c, d⟩
termination_by 48 - i

def round2 (s : Array UInt32) (xi : Array Nat) (x : Array UInt32) (i : Nat) (a b c d : UInt32) :
    MdState :=
  if _h : i < 32 then
    let t := rotl (a + ((b &&& c) ||| (b &&& d) ||| (c &&& d)) + x[xi[i]!]! + 0x5a827999) s[i]!
    round2 s xi x (i + 1) d t b c
  else round3 s xi x i a b c d
termination_by 32 - i

def round1 (s : Array UInt32) (xi : Array Nat) (x : Array UInt32) (i : Nat) (a b c d : UInt32) :
    MdState :=
  if _h : i < 16 then
    let t := rotl (a + ((b &&& c) ||| ((~~~b) &&& d)) + x[xi[i]!]!) s[i]!
    round1 s xi x (i + 1) d t b c
  else round2 s xi x i a b c d
termination_by 16 - i

/-- One application of the MD4 compression function to the 64 bytes at `blk[off..off+64)`. -/
def compress (st : MdState) (blk : ByteArray) (off : Nat) : MdState :=
  let x := load blk off 0 (Array.emptyWithCapacity 16)
  let r := round1 S X x 0 st.a st.b st.c st.d
  ⟨st.a + r.a, st.b + r.b, st.c + r.c, st.d + r.d⟩

/-- Absorb `n` consecutive 64-byte blocks starting at byte offset `off`. -/
def blocks (data : ByteArray) : (n : Nat) → (off : Nat) → MdState → MdState
  | 0, _, st => st
  | n + 1, off, st => blocks data n (off + 64) (compress st data off)

def serialize (st : MdState) : ByteArray :=
  pushLE32 (pushLE32 (pushLE32 (pushLE32 (ByteArray.emptyWithCapacity 16) st.a) st.b) st.c) st.d

/-- Finish a hash computation: `st` has already absorbed `prefixLen` bytes
    (a multiple of 64); `msg` is the rest of the message. -/
def finish (st : MdState) (prefixLen : Nat) (msg : ByteArray) : ByteArray :=
  let nFull := msg.size / 64
  let st := blocks msg nFull 0 st
  let rem := msg.size - nFull * 64
  let tail := (msg.extract (nFull * 64) msg.size).push 0x80
  let padTo := if rem + 9 ≤ 64 then 64 else 128
  let tail := pushZeros (padTo - 8 - (rem + 1)) tail
  let tail := pushLE64 tail ((prefixLen + msg.size).toUInt64 <<< 3)
  serialize (blocks tail (padTo / 64) 0 st)

end Md4

/-- MD4 digest (16 bytes). -/
def md4 (msg : ByteArray) : ByteArray :=
  Md4.finish Md4.init 0 msg

end Krb.Prims
