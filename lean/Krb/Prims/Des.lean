/-
  DES and triple-DES (EDE, three keys) block ciphers (FIPS 46-3), core Lean only.

  Blocks and keys are handled as big-endian `UInt64` values; bit 1 of FIPS 46-3 is the most
  significant bit.  All permutations are given by the standard tables of the FIPS text and are
  applied with the generic `permute`.  For speed the round function uses two families of lookup
  tables that are *computed from the standard tables* when the module is initialised:

  * `eTab`  : the E expansion of each of the four bytes of R (4 × 256 entries, 48-bit values);
  * `spBox` : S-box `i` followed by the P permutation (8 × 64 entries, 32-bit values).

  Since FP = IP⁻¹, triple DES applies IP once, runs the three 16-round cores back to back and
  applies FP once.
-/
namespace Krb.Prims

namespace DesImpl

/-- Initial permutation IP. -/
def ipTbl : ByteArray := ByteArray.mk #[
  58, 50, 42, 34, 26, 18, 10, 2,
  60, 52, 44, 36, 28, 20, 12, 4,
  62, 54, 46, 38, 30, 22, 14, 6,
  64, 56, 48, 40, 32, 24, 16, 8,
  57, 49, 41, 33, 25, 17,  9, 1,
  59, 51, 43, 35, 27, 19, 11, 3,
  61, 53, 45, 37, 29, 21, 13, 5,
  63, 55, 47, 39, 31, 23, 15, 7]

/-- Final permutation IP⁻¹. -/
def fpTbl : ByteArray := ByteArray.mk #[
  40, 8, 48, 16, 56, 24, 64, 32,
  39, 7, 47, 15, 55, 23, 63, 31,
  38, 6, 46, 14, 54, 22, 62, 30,
  37, 5, 45, 13, 53, 21, 61, 29,
  36, 4, 44, 12, 52, 20, 60, 28,
  35, 3, 43, 11, 51, 19, 59, 27,
  34, 2, 42, 10, 50, 18, 58, 26,
  33, 1, 41,  9, 49, 17, 57, 25]

/-- Expansion E (32 → 48 bits). -/
def eTbl : ByteArray := ByteArray.mk #[
  32,  1,  2,  3,  4,  5,
   4,  5,  6,  7,  8,  9,
   8,  9, 10, 11, 12, 13,
  12, 13, 14, 15, 16, 17,
  16, 17, 18, 19, 20, 21,
  20, 21, 22, 23, 24, 25,
  24, 25, 26, 27, 28, 29,
  28, 29, 30, 31, 32,  1]

/-- Permutation P (32 → 32 bits). -/
def pTbl : ByteArray := ByteArray.mk #[
  16,  7, 20, 21, 29, 12, 28, 17,
   1, 15, 23, 26,  5, 18, 31, 10,
   2,  8, 24, 14, 32, 27,  3,  9,
  19, 13, 30,  6, 22, 11,  4, 25]

/-- Permuted choice 1 (64 → 56 bits; drops the parity bits 8, 16, .., 64). -/
def pc1Tbl : ByteArray := ByteArray.mk #[
  57, 49, 41, 33, 25, 17,  9,
   1, 58, 50, 42, 34, 26, 18,
  10,  2, 59, 51, 43, 35, 27,
  19, 11,  3, 60, 52, 44, 36,
  63, 55, 47, 39, 31, 23, 15,
   7, 62, 54, 46, 38, 30, 22,
  14,  6, 61, 53, 45, 37, 29,
  21, 13,  5, 28, 20, 12,  4]

/-- Permuted choice 2 (56 → 48 bits). -/
def pc2Tbl : ByteArray := ByteArray.mk #[
  14, 17, 11, 24,  1,  5,
   3, 28, 15,  6, 21, 10,
  23, 19, 12,  4, 26,  8,
  16,  7, 27, 20, 13,  2,
  41, 52, 31, 37, 47, 55,
  30, 40, 51, 45, 33, 48,
  44, 49, 39, 56, 34, 53,
  46, 42, 50, 36, 29, 32]

/-- Left-rotation amounts of the key schedule. -/
def shiftTbl : ByteArray := ByteArray.mk #[1, 1, 2, 2, 2, 2, 2, 2, 1, 2, 2, 2, 2, 2, 2, 1]

/-- The eight S-boxes S1..S8, each as 4 rows of 16 columns (index `64*i + 16*row + col`). -/
def sTbl : ByteArray := ByteArray.mk #[
  -- S1
  14,  4, 13,  1,  2, 15, 11,  8,  3, 10,  6, 12,  5,  9,  0,  7,
   0, 15,  7,  4, 14,  2, 13,  1, 10,  6, 12, 11,  9,  5,  3,  8,
   4,  1, 14,  8, 13,  6,  2, 11, 15, 12,  9,  7,  3, 10,  5,  0,
  15, 12,  8,  2,  4,  9,  1,  7,  5, 11,  3, 14, 10,  0,  6, 13,
  -- S2
  15,  1,  8, 14,  6, 11,  3,  4,  9,  7,  2, 13, 12,  0,  5, 10,
   3, 13,  4,  7, 15,  2,  8, 14, 12,  0,  1, 10,  6,  9, 11,  5,
   0, 14,  7, 11, 10,  4, 13,  1,  5,  8, 12,  6,  9,  3,  2, 15,
  13,  8, 10,  1,  3, 15,  4,  2, 11,  6,  7, 12,  0,  5, 14,  9,
  -- S3
  10,  0,  9, 14,  6,  3, 15,  5,  1, 13, 12,  7, 11,  4,  2,  8,
  13,  7,  0,  9,  3,  4,  6, 10,  2,  8,  5, 14, 12, 11, 15,  1,
  13,  6,  4,  9,  8, 15,  3,  0, 11,  1,  2, 12,  5, 10, 14,  7,
   1, 10, 13,  0,  6,  9,  8,  7,  4, 15, 14,  3, 11,  5,  2, 12,
  -- S4
   7, 13, 14,  3,  0,  6,  9, 10,  1,  2,  8,  5, 11, 12,  4, 15,
  13,  8, 11,  5,  6, 15,  0,  3,  4,  7,  2, 12,  1, 10, 14,  9,
  10,  6,  9,  0, 12, 11,  7, 13, 15,  1,  3, 14,  5,  2,  8,  4,
   3, 15,  0,  6, 10,  1, 13,  8,  9,  4,  5, 11, 12,  7,  2, 14,
  -- S5
   2, 12,  4,  1,  7, 10, 11,  6,  8,  5,  3, 15, 13,  0, 14,  9,
  14, 11,  2, 12,  4,  7, 13,  1,  5,  0, 15, 10,  3,  9,  8,  6,
   4,  2,  1, 11, 10, 13,  7,  8, 15,  9, 12,  5,  6,  3,  0, 14,
  11,  8, 12,  7,  1, 14,  2, 13,  6, 15,  0,  9, 10,  4,  5,  3,
  -- S6
  12,  1, 10, 15,  9,  2,  6,  8,  0, 13,  3,  4, 14,  7,  5, 11,
  10, 15,  4,  2,  7, 12,  9,  5,  6,  1, 13, 14,  0, 11,  3,  8,
   9, 14, 15,  5,  2,  8, 12,  3,  7,  0,  4, 10,  1, 13, 11,  6,
   4,  3,  2, 12,  9,  5, 15, 10, 11, 14,  1,  7,  6,  0,  8, 13,
  -- S7
   4, 11,  2, 14, 15,  0,  8, 13,  3, 12,  9,  7,  5, 10,  6,  1,
  13,  0, 11,  7,  4,  9,  1, 10, 14,  3,  5, 12,  2, 15,  8,  6,
   1,  4, 11, 13, 12,  3,  7, 14, 10, 15,  6,  8,  0,  5,  9,  2,
   6, 11, 13,  8,  1,  4, 10,  7,  9,  5,  0, 15, 14,  2,  3, 12,
  -- S8
  13,  2,  8,  4,  6, 15, 11,  1, 10,  9,  3, 14,  5,  0, 12,  7,
   1, 15, 13,  8, 10,  3,  7,  4, 12,  5,  6, 11,  0, 14,  9,  2,
   7, 11,  4,  1,  9, 12, 14,  2,  0,  6, 10, 13, 15,  3,  5,  8,
   2,  1, 14,  7,  4, 10,  8, 13, 15, 12,  9,  0,  3,  5,  6, 11]

/-- Generic bit permutation/selection: output bit `n` (counted from the most significant output
    bit) is input bit `tbl[n]`, numbered 1..`inWidth` from the most significant bit of the
    `inWidth`-bit input `x` (the FIPS 46-3 convention). -/
def permute (tbl : ByteArray) (inWidth : UInt64) (x : UInt64) : UInt64 := Id.run do
  let mut out : UInt64 := 0
  for t in tbl do
    out := (out <<< 1) ||| ((x >>> (inWidth - t.toUInt64)) &&& 1)
  return out

/-- `eTab[256*b + v]` = E applied to the 32-bit word whose byte `b` (0 = most significant) is `v`
    and whose other bytes are zero.  E is linear, so E(R) is the XOR of four entries. -/
def eTab : Array UInt64 := Id.run do
  let mut t : Array UInt64 := Array.emptyWithCapacity 1024
  for b in [0:4] do
    for v in [0:256] do
      t := t.push (permute eTbl 32 (v.toUInt64 <<< (8 * (3 - b)).toUInt64))
  return t

/-- `spBox[64*i + x]` = P applied to the 32-bit word carrying `S_{i+1}(x)` in nibble `i`
    (0 = most significant).  The 6-bit S-box input `x = b1..b6` selects row `b1 b6` and
    column `b2 b3 b4 b5`. -/
def spBox : Array UInt32 := Id.run do
  let mut t : Array UInt32 := Array.emptyWithCapacity 512
  for i in [0:8] do
    for x in [0:64] do
      let row := ((x >>> 5) &&& 1) * 2 + (x &&& 1)
      let col := (x >>> 1) &&& 0xf
      let s := sTbl.get! (64 * i + 16 * row + col)
      t := t.push (permute pTbl 32 (s.toUInt64 <<< (4 * (7 - i)).toUInt64)).toUInt32
  return t

/-- The cipher function f(R, K) of FIPS 46-3, `k` being a 48-bit round key. -/
@[inline] def feistel (r : UInt32) (k : UInt64) : UInt32 :=
  let x := eTab[(r >>> 24).toNat]! ^^^
           eTab[(((r >>> 16) &&& 0xff) ||| 0x100).toNat]! ^^^
           eTab[(((r >>> 8) &&& 0xff) ||| 0x200).toNat]! ^^^
           eTab[((r &&& 0xff) ||| 0x300).toNat]! ^^^ k
  spBox[((x >>> 42) &&& 0x3f).toNat]! ^^^
  spBox[(((x >>> 36) &&& 0x3f) ||| 0x040).toNat]! ^^^
  spBox[(((x >>> 30) &&& 0x3f) ||| 0x080).toNat]! ^^^
  spBox[(((x >>> 24) &&& 0x3f) ||| 0x0c0).toNat]! ^^^
  spBox[(((x >>> 18) &&& 0x3f) ||| 0x100).toNat]! ^^^
  spBox[(((x >>> 12) &&& 0x3f) ||| 0x140).toNat]! ^^^
  spBox[(((x >>> 6) &&& 0x3f) ||| 0x180).toNat]! ^^^
  spBox[((x &&& 0x3f) ||| 0x1c0).toNat]!

/-- Rounds `i+1 .. 16` on the halves `(l, r)`; the result is the pre-output block `R16 ‖ L16`.
    With `dec` the round keys are used in reverse order. -/
def rounds (ks : Array UInt64) (dec : Bool) (i : Nat) (l r : UInt32) : UInt64 :=
  if i < 16 then
    let k := ks[if dec then 15 - i else i]!
    rounds ks dec (i + 1) r (l ^^^ feistel r k)
  else
    (r.toUInt64 <<< 32) ||| l.toUInt64
termination_by 16 - i

/-- The 16 rounds without IP and FP: maps `L0 ‖ R0` to `R16 ‖ L16`. -/
@[inline] def core (ks : Array UInt64) (dec : Bool) (x : UInt64) : UInt64 :=
  rounds ks dec 0 (x >>> 32).toUInt32 x.toUInt32

/-- Big-endian load of the 8 bytes at offset `off` (missing bytes read as zero). -/
def load64 (b : ByteArray) (off : Nat) : UInt64 := Id.run do
  let mut x : UInt64 := 0
  for i in [0:8] do
    x := (x <<< 8) ||| (b.get! (off + i)).toUInt64
  return x

def store64 (x : UInt64) : ByteArray :=
  ((((((((ByteArray.emptyWithCapacity 8).push (x >>> 56).toUInt8).push (x >>> 48).toUInt8).push
    (x >>> 40).toUInt8).push (x >>> 32).toUInt8).push (x >>> 24).toUInt8).push
    (x >>> 16).toUInt8).push (x >>> 8).toUInt8).push x.toUInt8

/-- Key schedule KS: the sixteen 48-bit round keys K1..K16 of the 64-bit key `k`. -/
def schedule (k : UInt64) : Array UInt64 := Id.run do
  let cd := permute pc1Tbl 64 k
  let mut c := (cd >>> 28) &&& 0xfffffff
  let mut d := cd &&& 0xfffffff
  let mut ks : Array UInt64 := Array.emptyWithCapacity 16
  for s in shiftTbl do
    let n := s.toUInt64
    c := ((c <<< n) ||| (c >>> (28 - n))) &&& 0xfffffff
    d := ((d <<< n) ||| (d >>> (28 - n))) &&& 0xfffffff
    ks := ks.push (permute pc2Tbl 56 ((c <<< 28) ||| d))
  return ks

end DesImpl

/-- Expanded single-DES key: the sixteen 48-bit round keys K1..K16. -/
structure DesKey where
  ks : Array UInt64

/-- DES key schedule of an 8-byte key (parity bits ignored; missing bytes read as zero). -/
def desExpandKey (key8 : ByteArray) : DesKey :=
  { ks := DesImpl.schedule (DesImpl.load64 key8 0) }

def DesKey.encryptBlock (k : DesKey) (block8 : ByteArray) : ByteArray :=
  DesImpl.store64 (DesImpl.permute DesImpl.fpTbl 64
    (DesImpl.core k.ks false (DesImpl.permute DesImpl.ipTbl 64 (DesImpl.load64 block8 0))))

def DesKey.decryptBlock (k : DesKey) (block8 : ByteArray) : ByteArray :=
  DesImpl.store64 (DesImpl.permute DesImpl.fpTbl 64
    (DesImpl.core k.ks true (DesImpl.permute DesImpl.ipTbl 64 (DesImpl.load64 block8 0))))

/-- DES encryption of one 8-byte block under an 8-byte key. -/
def desEncryptBlock (key8 block8 : ByteArray) : ByteArray :=
  (desExpandKey key8).encryptBlock block8

/-- DES decryption of one 8-byte block under an 8-byte key. -/
def desDecryptBlock (key8 block8 : ByteArray) : ByteArray :=
  (desExpandKey key8).decryptBlock block8

/-- Expanded triple-DES key (three independent single-DES schedules). -/
structure Des3Key where
  k1 : DesKey
  k2 : DesKey
  k3 : DesKey

/-- Expands a 24-byte key `K1 ‖ K2 ‖ K3`. -/
def des3ExpandKey (key24 : ByteArray) : Des3Key :=
  { k1 := { ks := DesImpl.schedule (DesImpl.load64 key24 0) }
    k2 := { ks := DesImpl.schedule (DesImpl.load64 key24 8) }
    k3 := { ks := DesImpl.schedule (DesImpl.load64 key24 16) } }

/-- `E_K3 (D_K2 (E_K1 block))`. -/
def Des3Key.encryptBlock (k : Des3Key) (block8 : ByteArray) : ByteArray :=
  let x := DesImpl.permute DesImpl.ipTbl 64 (DesImpl.load64 block8 0)
  let x := DesImpl.core k.k1.ks false x
  let x := DesImpl.core k.k2.ks true x
  let x := DesImpl.core k.k3.ks false x
  DesImpl.store64 (DesImpl.permute DesImpl.fpTbl 64 x)

/-- `D_K1 (E_K2 (D_K3 block))`. -/
def Des3Key.decryptBlock (k : Des3Key) (block8 : ByteArray) : ByteArray :=
  let x := DesImpl.permute DesImpl.ipTbl 64 (DesImpl.load64 block8 0)
  let x := DesImpl.core k.k3.ks true x
  let x := DesImpl.core k.k2.ks false x
  let x := DesImpl.core k.k1.ks true x
  DesImpl.store64 (DesImpl.permute DesImpl.fpTbl 64 x)

/-- Triple-DES EDE encryption with a 24-byte key `K1 ‖ K2 ‖ K3`. -/
def des3EncryptBlock (key24 block8 : ByteArray) : ByteArray :=
  (des3ExpandKey key24).encryptBlock block8

/-- Triple-DES EDE decryption with a 24-byte key `K1 ‖ K2 ‖ K3`. -/
def des3DecryptBlock (key24 block8 : ByteArray) : ByteArray :=
  (des3ExpandKey key24).decryptBlock block8

end Krb.Prims
