/-
  Hex encoding / decoding helpers for byte strings (test vectors, driver I/O).
-/
namespace Krb.Prims

private def hexDigit (n : UInt8) : Char :=
  if n < 10 then Char.ofNat (48 + n.toNat) else Char.ofNat (87 + n.toNat)

/-- Lower-case hex of a byte string. -/
def hexOf (b : ByteArray) : String :=
  b.foldl (fun s x => (s.push (hexDigit (x >>> 4))).push (hexDigit (x &&& 0x0f))) ""

private def hexVal (c : Char) : Option UInt8 :=
  if '0' ≤ c ∧ c ≤ '9' then some (c.toNat - 48).toUInt8
  else if 'a' ≤ c ∧ c ≤ 'f' then some (c.toNat - 87).toUInt8
  else if 'A' ≤ c ∧ c ≤ 'F' then some (c.toNat - 55).toUInt8
  else none

/-- Decode hex (either case).  Characters that are not hex digits (spaces, `:` …) are skipped;
    a dangling final nibble is dropped. -/
def ofHex (s : String) : ByteArray :=
  let (out, _) := s.foldl (init := (ByteArray.empty, (none : Option UInt8))) fun (out, hi) c =>
    match hexVal c with
    | none => (out, hi)
    | some v =>
      match hi with
      | none => (out, some v)
      | some h => (out.push ((h <<< 4) ||| v), none)
  out

end Krb.Prims
