/-
  HMAC (RFC 2104), generic over the hash function, plus keyed variants for
  SHA-1 / SHA-256 / SHA-384 / SHA-512 / MD5 that precompute the inner and outer pad states
  (so that a short message costs two compressions; used by PBKDF2).
-/
import Krb.Prims.Sha1
import Krb.Prims.Sha2
import Krb.Prims.Md4
import Krb.Prims.Md5

namespace Krb.Prims

namespace Hmac

/-- `n` bytes starting at index `i` of (`k` right-padded with zeros), each XORed with `pad`,
    appended to `out`. -/
def xorPad (k : ByteArray) (pad : UInt8) : (n : Nat) → (i : Nat) → ByteArray → ByteArray
  | 0, _, out => out
  | n + 1, i, out =>
    xorPad k pad n (i + 1) (out.push ((if i < k.size then k.get! i else 0) ^^^ pad))

/-- The `blockSize`-byte block `(K0 ‖ 0…0) ⊕ pad…pad`, where `K0` is `key`,
    or `h key` if `key` is longer than a block. -/
def keyBlock (h : ByteArray → ByteArray) (blockSize : Nat) (key : ByteArray) (pad : UInt8) :
    ByteArray :=
  let k0 := if key.size > blockSize then h key else key
  xorPad k0 pad blockSize 0 (ByteArray.emptyWithCapacity blockSize)

end Hmac

/-- HMAC per RFC 2104 for an arbitrary hash `h` with input block size `blockSize` (bytes).
    A key longer than `blockSize` is hashed first. -/
def hmac (h : ByteArray → ByteArray) (blockSize : Nat) (key msg : ByteArray) : ByteArray :=
  let ik := Hmac.keyBlock h blockSize key 0x36
  let ok := Hmac.keyBlock h blockSize key 0x5c
  h (ok ++ h (ik ++ msg))

def hmacSha1 (key msg : ByteArray) : ByteArray := hmac sha1 64 key msg
def hmacSha256 (key msg : ByteArray) : ByteArray := hmac sha256 64 key msg
def hmacSha384 (key msg : ByteArray) : ByteArray := hmac sha384 128 key msg
def hmacSha512 (key msg : ByteArray) : ByteArray := hmac sha512 128 key msg
def hmacMd5 (key msg : ByteArray) : ByteArray := hmac md5 64 key msg
def hmacMd4 (key msg : ByteArray) : ByteArray := hmac md4 64 key msg

/-! ### Keyed (precomputed pad state) variants

`hmacXInit key` absorbs the two pad blocks once; `hmacXKeyed k msg = hmacX key msg`. -/

/-- HMAC-SHA-1 key schedule: chaining values after the inner / outer pad block. -/
structure HmacSha1Key where
  inner : Sha1State
  outer : Sha1State

def hmacSha1Init (key : ByteArray) : HmacSha1Key :=
  ⟨Sha1.compress Sha1.init (Hmac.keyBlock sha1 64 key 0x36) 0,
   Sha1.compress Sha1.init (Hmac.keyBlock sha1 64 key 0x5c) 0⟩

def hmacSha1Keyed (k : HmacSha1Key) (msg : ByteArray) : ByteArray :=
  Sha1.finish k.outer 64 (Sha1.finish k.inner 64 msg)

/-- HMAC-SHA-256 key schedule. -/
structure HmacSha256Key where
  inner : Sha256State
  outer : Sha256State

def hmacSha256Init (key : ByteArray) : HmacSha256Key :=
  ⟨Sha256.compress Sha256.init (Hmac.keyBlock sha256 64 key 0x36) 0,
   Sha256.compress Sha256.init (Hmac.keyBlock sha256 64 key 0x5c) 0⟩

def hmacSha256Keyed (k : HmacSha256Key) (msg : ByteArray) : ByteArray :=
  Sha256.finish k.outer 64 (Sha256.finish k.inner 64 msg)

/-- HMAC-SHA-384 / HMAC-SHA-512 key schedule. -/
structure HmacSha512Key where
  inner : Sha512State
  outer : Sha512State

def hmacSha384Init (key : ByteArray) : HmacSha512Key :=
  ⟨Sha512.compress Sha512.init384 (Hmac.keyBlock sha384 128 key 0x36) 0,
   Sha512.compress Sha512.init384 (Hmac.keyBlock sha384 128 key 0x5c) 0⟩

def hmacSha384Keyed (k : HmacSha512Key) (msg : ByteArray) : ByteArray :=
  (Sha512.finish k.outer 128 ((Sha512.finish k.inner 128 msg).extract 0 48)).extract 0 48

def hmacSha512Init (key : ByteArray) : HmacSha512Key :=
  ⟨Sha512.compress Sha512.init512 (Hmac.keyBlock sha512 128 key 0x36) 0,
   Sha512.compress Sha512.init512 (Hmac.keyBlock sha512 128 key 0x5c) 0⟩

def hmacSha512Keyed (k : HmacSha512Key) (msg : ByteArray) : ByteArray :=
  Sha512.finish k.outer 128 (Sha512.finish k.inner 128 msg)

/-- HMAC-MD5 key schedule. -/
structure HmacMd5Key where
  inner : MdState
  outer : MdState

def hmacMd5Init (key : ByteArray) : HmacMd5Key :=
  ⟨Md5.compress Md5.init (Hmac.keyBlock md5 64 key 0x36) 0,
   Md5.compress Md5.init (Hmac.keyBlock md5 64 key 0x5c) 0⟩

def hmacMd5Keyed (k : HmacMd5Key) (msg : ByteArray) : ByteArray :=
  Md5.finish k.outer 64 (Md5.finish k.inner 64 msg)

end Krb.Prims
