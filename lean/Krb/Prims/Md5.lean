/-
  MD5 (RFC 1321).  Core Lean only; hot loops are first-order tail-recursive functions
  over unboxed `UInt32` arguments.
-/
import Krb.Prims.Md4

namespace Krb.Prims

namespace Md5

open Md4 (rotl le32 pushLE32 pushLE64 pushZeros load)

def init : MdState :=
  ⟨0x67452301, 0xefcdab89, 0x98badcfe, 0x10325476⟩

/-- `T[i] = floor (2^32 * |sin (i + 1)|)`. -/
def T : Array UInt32 := #[
    0xd76aa478, 0xe8c7b756, 0x242070db, 0xc1bdceee, 0xf57c0faf, 0x4787c62a, 0xa8304613, 0xfd469501,
    0x698098d8, 0x8b44f7af, 0xffff5bb1, 0x895cd7be, 0x6b901122, 0xfd987193, 0xa679438e, 0x49b40821,
    0xf61e2562, 0xc040b340, 0x265e5a51, 0xe9b6c7aa, 0xd62f105d, 0x02441453, 0xd8a1e681, 0xe7d3fbc8,
    0x21e1cde6, 0xc33707d6, 0xf4d50d87, 0x455a14ed, 0xa9e3e905, 0xfcefa3f8, 0x676f02d9, 0x8d2a4c8a,
    0xfffa3942, 0x8771f681, 0x6d9d6122, 0xfde5380c, 0xa4beea44, 0x4bdecfa9, 0xf6bb4b60, 0xbebfbc70,
    0x289b7ec6, 0xeaa127fa, 0xd4ef3085, 0x04881d05, 0xd9d4d039, 0xe6db99e5, 0x1fa27cf8, 0xc4ac5665,
    0xf4292244, 0x432aff97, 0xab9423a7, 0xfc93a039, 0x655b59c3, 0x8f0ccc92, 0xffeff47d, 0x85845dd1,
    0x6fa87e4f, 0xfe2ce6e0, 0xa3014314, 0x4e0811a1, 0xf7537e82, 0xbd3af235, 0x2ad7d2bb, 0xeb86d391]

/-- Per-step left-rotation amounts (64 steps). -/
def S : Array UInt32 := #[
    7, 12, 17, 22, 7, 12, 17, 22, 7, 12, 17, 22, 7, 12, 17, 22,
    5, 9, 14, 20, 5, 9, 14, 20, 5, 9, 14, 20, 5, 9, 14, 20,
    4, 11, 16, 23, 4, 11, 16, 23, 4, 11, 16, 23, 4, 11, 16, 23,
    6, 10, 15, 21, 6, 10, 15, 21, 6, 10, 15, 21, 6, 10, 15, 21]

def round4 (s t x : Array UInt32) (i : Nat) (a b c d : UInt32) : MdState :=
  if _h : i < 64 then
    let f := c ^^^ (b ||| (~~~d))
    let n := b + rotl (a + f + x[(7 * i) % 16]! + t[i]!) s[i]!
    round4 s t x (i + 1) d n b c
  else ⟨a, b, c, d⟩
termination_by 64 - i

def round3 (s t x : Array UInt32) (i : Nat) (a b c d : UInt32) : MdState :=
  if _h : i < 48 then
    let f := b ^^^ c ^^^ d
    let n := b + rotl (a + f + x[(3 * i + 5) % 16]! + t[i]!) s[i]!
    round3 s t x (i + 1) d n b c
  else round4 s t x i a b c d
termination_by 48 - i

def round2 (s t x : Array UInt32) (i : Nat) (a b c d : UInt32) : MdState :=
  if _h : i < 32 then
    let f := (b &&& d) ||| (c &&& (~~~d))
    let n := b + rotl (a + f + x[(5 * i + 1) % 16]! + t[i]!) s[i]!
    round2 s t x (i + 1) d n b c
  else round3 s t x i a b c d
termination_by 32 - i

def round1 (s t x : Array UInt32) (i : Nat) (a b c d : UInt32) : MdState :=
  if _h : i < 16 then
    let f := (b &&& c) ||| ((~~~b) &&& d)
    let n := b + rotl (a + f + x[i]! + t[i]!) s[i]!
    round1 s t x (i + 1) d n b c
  else round2 s t x i a b c d
termination_by 16 - i

/-- One application of the MD5 compression function to the 64 bytes at `blk[off..off+64)`. -/
def compress (st : MdState) (blk : ByteArray) (off : Nat) : MdState :=
  let x := load blk off 0 (Array.emptyWithCapacity 16)
  let r := round1 S T x 0 st.a st.b st.c st.d
  ⟨st.a + r.a, st.b + r.b, st.c + r.c, st.d + r.d⟩

/-- Absorb `n` consecutive 64-byte blocks starting at byte offset `off`. -/
def blocks (data : ByteArray) : (n : Nat) → (off : Nat) → MdState → MdState
  | 0, _, st => st
  | n + 1, off, st => blocks data n (off + 64) (compress st data off)

/-- Finish a hash computation: `st` has already absorbed `prefixLen` bytes
    (a multiple of 64); `msg` is the rest of the message. -/
def finish (st : MdState) (prefixLen : Nat) (msg : ByteArray) : ByteArray :=
  let nFull := msg.size / 64
  let st := blocks msg nFull 0 st
  let rem := msg.size - nFull * 64
  let tail := (msg.extract (nFull * 64) msg.size).push 0x80
  let padTo := if rem + 9 ≤ 64 then 64 else 128
  let tail := pushZeros (padTo - 8 - (rem + 1)) tail
  let tail := pushLE64 tail ((prefixLen + msg.size).toUInt64 <<< 3)
  Md4.serialize (blocks tail (padTo / 64) 0 st)

end Md5

/-- MD5 digest (16 bytes). -/
def md5 (msg : ByteArray) : ByteArray :=
  Md5.finish Md5.init 0 msg

end Krb.Prims
