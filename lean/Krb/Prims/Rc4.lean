/-
  RC4 stream cipher (KSA + PRGA), core Lean only.
  The indices `i`, `j` are `UInt8`, so the "mod 256" of the textbook description is implicit.
-/
namespace Krb.Prims

namespace Rc4Impl

/-- The identity permutation 0, 1, .., 255. -/
def identity : ByteArray := Id.run do
  let mut s := ByteArray.emptyWithCapacity 256
  for i in [0:256] do
    s := s.push i.toUInt8
  return s

/-- Key-scheduling algorithm.  (Total on the empty key as well: the key bytes then read as 0.) -/
def ksa (key : ByteArray) : ByteArray := Id.run do
  let mut s := identity
  let mut j : UInt8 := 0
  let n := key.size
  for i in [0:256] do
    let a := s.get! i
    j := j + a + key.get! (i % n)
    let b := s.get! j.toNat
    s := (s.set! i b).set! j.toNat a
  return s

/-- Pseudo-random generation algorithm, XORing the keystream into `data[idx..]`. -/
def prga (data : ByteArray) (idx : Nat) (s : ByteArray) (i j : UInt8) (out : ByteArray) :
    ByteArray :=
  if idx < data.size then
    let i := i + 1
    let a := s.get! i.toNat
    let j := j + a
    let b := s.get! j.toNat
    let s := (s.set! i.toNat b).set! j.toNat a
    let k := s.get! (a + b).toNat
    prga data (idx + 1) s i j (out.push (data.get! idx ^^^ k))
  else
    out
termination_by data.size - idx

end Rc4Impl

/-- RC4: `data` XOR the keystream generated from `key` (1..256 bytes).  Encryption and decryption
    are the same operation. -/
def rc4 (key data : ByteArray) : ByteArray :=
  Rc4Impl.prga data 0 (Rc4Impl.ksa key) 0 0 (ByteArray.emptyWithCapacity data.size)

end Krb.Prims
