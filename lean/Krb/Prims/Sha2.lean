/-
  SHA-256, SHA-512 and SHA-384 (FIPS 180-4).  Core Lean only; written for compiled speed:
  the hot loops are first-order tail-recursive functions over unboxed machine words
  and a single schedule array per block.
-/
namespace Krb.Prims

/-- Chaining value of SHA-256. -/
structure Sha256State where
  a : UInt32
  b : UInt32
  c : UInt32
  d : UInt32
  e : UInt32
  f : UInt32
  g : UInt32
  h : UInt32

/-- Chaining value of SHA-512 / SHA-384. -/
structure Sha512State where
  a : UInt64
  b : UInt64
  c : UInt64
  d : UInt64
  e : UInt64
  f : UInt64
  g : UInt64
  h : UInt64

namespace Sha256

@[inline] def rotr (x : UInt32) (n : UInt32) : UInt32 :=
  (x >>> n) ||| (x <<< (32 - n))

@[inline] def be32 (b : ByteArray) (i : Nat) : UInt32 :=
  ((b.get! i).toUInt32 <<< 24) ||| ((b.get! (i + 1)).toUInt32 <<< 16) |||
  ((b.get! (i + 2)).toUInt32 <<< 8) ||| (b.get! (i + 3)).toUInt32

@[inline] def pushBE32 (out : ByteArray) (x : UInt32) : ByteArray :=
  (((out.push (x >>> 24).toUInt8).push (x >>> 16).toUInt8).push (x >>> 8).toUInt8).push x.toUInt8

def pushBE64 (out : ByteArray) (x : UInt64) : ByteArray :=
  pushBE32 (pushBE32 out (x >>> 32).toUInt32) x.toUInt32

def pushZeros : Nat → ByteArray → ByteArray
  | 0, out => out
  | n + 1, out => pushZeros n (out.push 0)

def K : Array UInt32 := #[
    0x428a2f98, 0x71374491, 0xb5c0fbcf, 0xe9b5dba5, 0x3956c25b, 0x59f111f1, 0x923f82a4, 0xab1c5ed5,
    0xd807aa98, 0x12835b01, 0x243185be, 0x550c7dc3, 0x72be5d74, 0x80deb1fe, 0x9bdc06a7, 0xc19bf174,
    0xe49b69c1, 0xefbe4786, 0x0fc19dc6, 0x240ca1cc, 0x2de92c6f, 0x4a7484aa, 0x5cb0a9dc, 0x76f988da,
    0x983e5152, 0xa831c66d, 0xb00327c8, 0xbf597fc7, 0xc6e00bf3, 0xd5a79147, 0x06ca6351, 0x14292967,
    0x27b70a85, 0x2e1b2138, 0x4d2c6dfc, 0x53380d13, 0x650a7354, 0x766a0abb, 0x81c2c92e, 0x92722c85,
    0xa2bfe8a1, 0xa81a664b, 0xc24b8b70, 0xc76c51a3, 0xd192e819, 0xd6990624, 0xf40e3585, 0x106aa070,
    0x19a4c116, 0x1e376c08, 0x2748774c, 0x34b0bcb5, 0x391c0cb3, 0x4ed8aa4a, 0x5b9cca4f, 0x682e6ff3,
    0x748f82ee, 0x78a5636f, 0x84c87814, 0x8cc70208, 0x90befffa, 0xa4506ceb, 0xbef9a3f7, 0xc67178f2]

def init : Sha256State :=
  ⟨0x6a09e667, 0xbb67ae85, 0x3c6ef372, 0xa54ff53a, 0x510e527f, 0x9b05688c, 0x1f83d9ab, 0x5be0cd19⟩

/-- Words 0..15 of the message schedule. -/
def load (blk : ByteArray) (off i : Nat) (w : Array UInt32) : Array UInt32 :=
  if _h : i < 16 then load blk off (i + 1) (w.push (be32 blk (off + 4 * i))) else w
termination_by 16 - i

/-- Words 16..63 of the message schedule. -/
def expand (i : Nat) (w : Array UInt32) : Array UInt32 :=
  if _h : i < 64 then
    let x := w[i - 15]!
    let y := w[i - 2]!
    let s0 := rotr x 7 ^^^ rotr x 18 ^^^ (x >>> 3)
    let s1 := rotr y 17 ^^^ rotr y 19 ^^^ (y >>> 10)
    expand (i + 1) (w.push (w[i - 16]! + s0 + w[i - 7]! + s1))
  else w
termination_by 64 - i

def rounds (k w : Array UInt32) (i : Nat) (a b c d e f g h : UInt32) : Sha256State :=
  if _h : i < 64 then
    let s1 := rotr e 6 ^^^ rotr e 11 ^^^ rotr e 25
    let ch := (e &&& f) ^^^ ((~~~e) &&& g)
    let t1 := h + s1 + ch + k[i]! + w[i]!
    let s0 := rotr a 2 ^^^ rotr a 13 ^^^ rotr a 22
    let mj := (a &&& b) ^^^ (a &&& c) ^^^ (b &&& c)
    rounds k w (i + 1) (t1 + (s0 + mj)) a b c (d + t1) e f g
  else ⟨a, b, c, d, e, f, g, h⟩
termination_by 64 - i

/-- One application of the SHA-256 compression function to the 64 bytes at `blk[off..off+64)`. -/
def compress (st : Sha256State) (blk : ByteArray) (off : Nat) : Sha256State :=
  let w := expand 16 (load blk off 0 (Array.emptyWithCapacity 64))
  let r := rounds K w 0 st.a st.b st.c st.d st.e st.f st.g st.h
  ⟨st.a + r.a, st.b + r.b, st.c + r.c, st.d + r.d, st.e + r.e, st.f + r.f, st.g + r.g, st.h + r.h⟩

/-- Absorb `n` consecutive 64-byte blocks starting at byte offset `off`. -/
def blocks (data : ByteArray) : (n : Nat) → (off : Nat) → Sha256State → Sha256State
  | 0, _, st => st
  | n + 1, off, st => blocks data n (off + 64) (compress st data off)

def serialize (st : Sha256State) : ByteArray :=
  pushBE32 (pushBE32 (pushBE32 (pushBE32 (pushBE32 (pushBE32 (pushBE32 (pushBE32
    (ByteArray.emptyWithCapacity 32) st.a) st.b) st.c) st.d) st.e) st.f) st.g) st.h

/-- Finish a hash computation: `st` has already absorbed `prefixLen` bytes
    (a multiple of 64); `msg` is the rest of the message. -/
def finish (st : Sha256State) (prefixLen : Nat) (msg : ByteArray) : ByteArray :=
  let nFull := msg.size / 64
  let st := blocks msg nFull 0 st
  let rem := msg.size - nFull * 64
  let tail := (msg.extract (nFull * 64) msg.size).push 0x80
  let padTo := if rem + 9 ≤ 64 then 64 else 128
  let tail := pushZeros (padTo - 8 - (rem + 1)) tail
  let tail := pushBE64 tail ((prefixLen + msg.size).toUInt64 <<< 3)
  serialize (blocks tail (padTo / 64) 0 st)

end Sha256

namespace Sha512

@[inline] def rotr (x : UInt64) (n : UInt64) : UInt64 :=
  (x >>> n) ||| (x <<< (64 - n))

@[inline] def be64 (b : ByteArray) (i : Nat) : UInt64 :=
  ((b.get! i).toUInt64 <<< 56) ||| ((b.get! (i + 1)).toUInt64 <<< 48) |||
  ((b.get! (i + 2)).toUInt64 <<< 40) ||| ((b.get! (i + 3)).toUInt64 <<< 32) |||
  ((b.get! (i + 4)).toUInt64 <<< 24) ||| ((b.get! (i + 5)).toUInt64 <<< 16) |||
  ((b.get! (i + 6)).toUInt64 <<< 8) ||| (b.get! (i + 7)).toUInt64

def pushBE64 (out : ByteArray) (x : UInt64) : ByteArray :=
  Sha256.pushBE64 out x

def K : Array UInt64 := #[
    0x428a2f98d728ae22, 0x7137449123ef65cd, 0xb5c0fbcfec4d3b2f, 0xe9b5dba58189dbbc,
    0x3956c25bf348b538, 0x59f111f1b605d019, 0x923f82a4af194f9b, 0xab1c5ed5da6d8118,
    0xd807aa98a3030242, 0x12835b0145706fbe, 0x243185be4ee4b28c, 0x550c7dc3d5ffb4e2,
    0x72be5d74f27b896f, 0x80deb1fe3b1696b1, 0x9bdc06a725c71235, 0xc19bf174cf692694,
    0xe49b69c19ef14ad2, 0xefbe4786384f25e3, 0x0fc19dc68b8cd5b5, 0x240ca1cc77ac9c65,
    0x2de92c6f592b0275, 0x4a7484aa6ea6e483, 0x5cb0a9dcbd41fbd4, 0x76f988da831153b5,
    0x983e5152ee66dfab, 0xa831c66d2db43210, 0xb00327c898fb213f, 0xbf597fc7beef0ee4,
    0xc6e00bf33da88fc2, 0xd5a79147930aa725, 0x06ca6351e003826f, 0x142929670a0e6e70,
    0x27b70a8546d22ffc, 0x2e1b21385c26c926, 0x4d2c6dfc5ac42aed, 0x53380d139d95b3df,
    0x650a73548baf63de, 0x766a0abb3c77b2a8, 0x81c2c92e47edaee6, 0x92722c851482353b,
    0xa2bfe8a14cf10364, 0xa81a664bbc423001, 0xc24b8b70d0f89791, 0xc76c51a30654be30,
    0xd192e819d6ef5218, 0xd69906245565a910, 0xf40e35855771202a, 0x106aa07032bbd1b8,
    0x19a4c116b8d2d0c8, 0x1e376c085141ab53, 0x2748774cdf8eeb99, 0x34b0bcb5e19b48a8,
    0x391c0cb3c5c95a63, 0x4ed8aa4ae3418acb, 0x5b9cca4f7763e373, 0x682e6ff3d6b2b8a3,
    0x748f82ee5defb2fc, 0x78a5636f43172f60, 0x84c87814a1f0ab72, 0x8cc702081a6439ec,
    0x90befffa23631e28, 0xa4506cebde82bde9, 0xbef9a3f7b2c67915, 0xc67178f2e372532b,
    0xca273eceea26619c, 0xd186b8c721c0c207, 0xeada7dd6cde0eb1e, 0xf57d4f7fee6ed178,
    0x06f067aa72176fba, 0x0a637dc5a2c898a6, 0x113f9804bef90dae, 0x1b710b35131c471b,
    0x28db77f523047d84, 0x32caab7b40c72493, 0x3c9ebe0a15c9bebc, 0x431d67c49c100d4c,
    0x4cc5d4becb3e42b6, 0x597f299cfc657e2a, 0x5fcb6fab3ad6faec, 0x6c44198c4a475817]

def init512 : Sha512State :=
  ⟨0x6a09e667f3bcc908, 0xbb67ae8584caa73b, 0x3c6ef372fe94f82b, 0xa54ff53a5f1d36f1,
   0x510e527fade682d1, 0x9b05688c2b3e6c1f, 0x1f83d9abfb41bd6b, 0x5be0cd19137e2179⟩

def init384 : Sha512State :=
  ⟨0xcbbb9d5dc1059ed8, 0x629a292a367cd507, 0x9159015a3070dd17, 0x152fecd8f70e5939,
   0x67332667ffc00b31, 0x8eb44a8768581511, 0xdb0c2e0d64f98fa7, 0x47b5481dbefa4fa4⟩

/-- Words 0..15 of the message schedule. -/
def load (blk : ByteArray) (off i : Nat) (w : Array UInt64) : Array UInt64 :=
  if _h : i < 16 then load blk off (i + 1) (w.push (be64 blk (off + 8 * i))) else w
termination_by 16 - i

/-- Words 16..79 of the message schedule. -/
def expand (i : Nat) (w : Array UInt64) : Array UInt64 :=
  if _h : i < 80 then
    let x := w[i - 15]!
    let y := w[i - 2]!
    let s0 := rotr x 1 ^^^ rotr x 8 ^^^ (x >>> 7)
    let s1 := rotr y 19 ^^^ rotr y 61 ^^^ (y >>> 6)
    expand (i + 1) (w.push (w[i - 16]! + s0 + w[i - 7]! + s1))
  else w
termination_by 80 - i

def rounds (k w : Array UInt64) (i : Nat) (a b c d e f g h : UInt64) : Sha512State :=
  if _h : i < 80 then
    let s1 := rotr e 14 ^^^ rotr e 18 ^^^ rotr e 41
    let ch := (e &&& f) ^^^ ((~~~e) &&& g)
    let t1 := h + s1 + ch + k[i]! + w[i]!
    let s0 := rotr a 28 ^^^ rotr a 34 ^^^ rotr a 39
    let mj := (a &&& b) ^^^ (a &&& c) ^^^ (b &&& c)
    rounds k w (i + 1) (t1 + (s0 + mj)) a b c (d + t1) e f g
  else ⟨a, b, c, d, e, f, g, h⟩
termination_by 80 - i

/-- One application of the SHA-512 compression function to the 128 bytes at `blk[off..off+128)`. -/
def compress (st : Sha512State) (blk : ByteArray) (off : Nat) : Sha512State :=
  let w := expand 16 (load blk off 0 (Array.emptyWithCapacity 80))
  let r := rounds K w 0 st.a st.b st.c st.d st.e st.f st.g st.h
  ⟨st.a + r.a, st.b + r.b, st.c + r.c, st.d + r.d, st.e + r.e, st.f + r.f, st.g + r.g, st.h + r.h⟩

/-- Absorb `n` consecutive 128-byte blocks starting at byte offset `off`. -/
def blocks (data : ByteArray) : (n : Nat) → (off : Nat) → Sha512State → Sha512State
  | 0, _, st => st
  | n + 1, off, st => blocks data n (off + 128) (compress st data off)

/-- All 64 bytes of the chaining value, big-endian. -/
def serialize (st : Sha512State) : ByteArray :=
  pushBE64 (pushBE64 (pushBE64 (pushBE64 (pushBE64 (pushBE64 (pushBE64 (pushBE64
    (ByteArray.emptyWithCapacity 64) st.a) st.b) st.c) st.d) st.e) st.f) st.g) st.h

/-- Finish a hash computation: `st` has already absorbed `prefixLen` bytes
    (a multiple of 128); `msg` is the rest of the message.  Returns the full 64-byte state. -/
def finish (st : Sha512State) (prefixLen : Nat) (msg : ByteArray) : ByteArray :=
  let nFull := msg.size / 128
  let st := blocks msg nFull 0 st
  let rem := msg.size - nFull * 128
  let tail := (msg.extract (nFull * 128) msg.size).push 0x80
  let padTo := if rem + 17 ≤ 128 then 128 else 256
  let tail := Sha256.pushZeros (padTo - 16 - (rem + 1)) tail
  let bits : Nat := (prefixLen + msg.size) * 8
  let tail := pushBE64 (pushBE64 tail (bits >>> 64).toUInt64) bits.toUInt64
  serialize (blocks tail (padTo / 128) 0 st)

end Sha512

/-- SHA-256 digest (32 bytes). -/
def sha256 (msg : ByteArray) : ByteArray :=
  Sha256.finish Sha256.init 0 msg

/-- SHA-512 digest (64 bytes). -/
def sha512 (msg : ByteArray) : ByteArray :=
  Sha512.finish Sha512.init512 0 msg

/-- SHA-384 digest (48 bytes): SHA-512 core with the SHA-384 IV, truncated. -/
def sha384 (msg : ByteArray) : ByteArray :=
  (Sha512.finish Sha512.init384 0 msg).extract 0 48

end Krb.Prims
