/-
  SHA-1 (FIPS 180-4).  Core Lean only; written for compiled speed:
  the hot loops are first-order tail-recursive functions over unboxed `UInt32`
  arguments and a single 80-word schedule array per block.
-/
namespace Krb.Prims

/-- Chaining value of SHA-1. -/
structure Sha1State where
  a : UInt32
  b : UInt32
  c : UInt32
  d : UInt32
  e : UInt32

namespace Sha1

@[inline] def rotl (x : UInt32) (n : UInt32) : UInt32 :=
  (x <<< n) ||| (x >>> (32 - n))

/-- Big-endian 32-bit load at byte offset `i`. -/
@[inline] def be32 (b : ByteArray) (i : Nat) : UInt32 :=
  ((b.get! i).toUInt32 <<< 24) ||| ((b.get! (i + 1)).toUInt32 <<< 16) |||
  ((b.get! (i + 2)).toUInt32 <<< 8) ||| (b.get! (i + 3)).toUInt32

/-- Big-endian 32-bit store (append). -/
@[inline] def pushBE32 (out : ByteArray) (x : UInt32) : ByteArray :=
  (((out.push (x >>> 24).toUInt8).push (x >>> 16).toUInt8).push (x >>> 8).toUInt8).push x.toUInt8

/-- Big-endian 64-bit store (append). -/
def pushBE64 (out : ByteArray) (x : UInt64) : ByteArray :=
  pushBE32 (pushBE32 out (x >>> 32).toUInt32) x.toUInt32

def pushZeros : Nat → ByteArray → ByteArray
  | 0, out => out
  | n + 1, out => pushZeros n (out.push 0)

def init : Sha1State :=
  ⟨0x67452301, 0xEFCDAB89, 0x98BADCFE, 0x10325476, 0xC3D2E1F0⟩

/-- Words 0..15 of the message schedule. -/
def load (blk : ByteArray) (off i : Nat) (w : Array UInt32) : Array UInt32 :=
  if _h : i < 16 then load blk off (i + 1) (w.push (be32 blk (off + 4 * i))) else w
termination_by 16 - i

/-- Words 16..79 of the message schedule. -/
def expand (i : Nat) (w : Array UInt32) : Array UInt32 :=
  if _h : i < 80 then
    expand (i + 1) (w.push (rotl (w[i - 3]! ^^^ w[i - 8]! ^^^ w[i - 14]! ^^^ w[i - 16]!) 1))
  else w
termination_by 80 - i

def rounds4 (w : Array UInt32) (i : Nat) (a b c d e : UInt32) : Sha1State :=
  if _h : i < 80 then
    let t := rotl a 5 + (b ^^^ c ^^^ d) + e + 0xCA62C1D6 + w[i]!
    rounds4 w (i + 1) t a (rotl b 30) c d
  else ⟨a, b, c, d, e⟩
termination_by 80 - i

def rounds3 (w : Array UInt32) (i : Nat) (a b c d e : UInt32) : Sha1State :=
  if _h : i < 60 then
    let t := rotl a 5 + ((b &&& c) ||| (b &&& d) ||| (c &&& d)) + e + 0x8F1BBCDC + w[i]!
    rounds3 w (i + 1) t a (rotl b 30) c d
  else rounds4 w i a b c d e
termination_by 60 - i

def rounds2 (w : Array UInt32) (i : Nat) (a b c d e : UInt32) : Sha1State :=
  if _h : i < 40 then
    let t := rotl a 5 + (b ^^^ c ^^^ d) + e + 0x6ED9EBA1 + w[i]!
    rounds2 w (i + 1) t a (rotl b 30) c d
  else rounds3 w i a b c d e
termination_by 40 - i

def rounds1 (w : Array UInt32) (i : Nat) (a b c d e : UInt32) : Sha1State :=
  if _h : i < 20 then
    let t := rotl a 5 + ((b &&& c) ||| ((~~~b) &&& d)) + e + 0x5A827999 + w[i]!
    rounds1 w (i + 1) t a (rotl b 30) c d
  else rounds2 w i a b c d e
termination_by 20 - i

/-- One application of the SHA-1 compression function to the 64 bytes at `blk[off..off+64)`. -/
def compress (st : Sha1State) (blk : ByteArray) (off : Nat) : Sha1State :=
  let w := expand 16 (load blk off 0 (Array.emptyWithCapacity 80))
  let r := rounds1 w 0 st.a st.b st.c st.d st.e
  ⟨st.a + r.a, st.b + r.b, st.c + r.c, st.d + r.d, st.e + r.e⟩

/-- Absorb `n` consecutive 64-byte blocks starting at byte offset `off`. -/
def blocks (data : ByteArray) : (n : Nat) → (off : Nat) → Sha1State → Sha1State
  | 0, _, st => st
  | n + 1, off, st => blocks data n (off + 64) (compress st data off)

def serialize (st : Sha1State) : ByteArray :=
  pushBE32 (pushBE32 (pushBE32 (pushBE32 (pushBE32 (ByteArray.emptyWithCapacity 20)
    st.a) st.b) st.c) st.d) st.e

/-- Finish a hash computation: `st` has already absorbed `prefixLen` bytes
    (a multiple of 64); `msg` is the rest of the message. -/
def finish (st : Sha1State) (prefixLen : Nat) (msg : ByteArray) : ByteArray :=
  let nFull := msg.size / 64
  let st := blocks msg nFull 0 st
  let rem := msg.size - nFull * 64
  let tail := (msg.extract (nFull * 64) msg.size).push 0x80
  let padTo := if rem + 9 ≤ 64 then 64 else 128
  let tail := pushZeros (padTo - 8 - (rem + 1)) tail
  let tail := pushBE64 tail ((prefixLen + msg.size).toUInt64 <<< 3)
  serialize (blocks tail (padTo / 64) 0 st)

end Sha1

/-- SHA-1 digest (20 bytes). -/
def sha1 (msg : ByteArray) : ByteArray :=
  Sha1.finish Sha1.init 0 msg

end Krb.Prims
