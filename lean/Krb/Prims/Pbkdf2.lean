/-
  PBKDF2 (RFC 8018 §5.2), generic over the PRF, plus HMAC-SHA-1 / -256 / -384 / -512 instances
  that use the precomputed-pad HMAC (two compressions per iteration).
-/
import Krb.Prims.Hmac

namespace Krb.Prims

namespace Pbkdf2

/-- `t[j] := t[j] ⊕ u[j]` for `i ≤ j < n`. -/
def xorFrom (u : ByteArray) (n i : Nat) (t : ByteArray) : ByteArray :=
  if _h : i < n then xorFrom u n (i + 1) (t.set! i (t.get! i ^^^ u.get! i)) else t
termination_by n - i

/-- `t ⊕ u` on the common prefix (`t` keeps its length). -/
@[inline] def xorInto (u t : ByteArray) : ByteArray :=
  xorFrom u (min t.size u.size) 0 t

/-- `n` further PRF iterations: `u ← f u; t ← t ⊕ u`. -/
def iterate (f : ByteArray → ByteArray) : (n : Nat) → (u t : ByteArray) → ByteArray
  | 0, _, t => t
  | n + 1, u, t =>
    let u' := f u
    iterate f n u' (xorInto u' t)

/-- `INT (i)`: four-octet big-endian block index appended to `out`. -/
def pushIndex (out : ByteArray) (i : UInt32) : ByteArray :=
  (((out.push (i >>> 24).toUInt8).push (i >>> 16).toUInt8).push (i >>> 8).toUInt8).push i.toUInt8

/-- Blocks `T_i ‖ T_{i+1} ‖ …` (`n` of them) appended to `out`. -/
def blocks (f : ByteArray → ByteArray) (salt : ByteArray) (iterations : Nat) :
    (n : Nat) → (i : UInt32) → (out : ByteArray) → ByteArray
  | 0, _, out => out
  | n + 1, i, out =>
    let u1 := f (pushIndex salt i)
    let t := iterate f (iterations - 1) u1 u1
    blocks f salt iterations n (i + 1) (out ++ t)

/-- PBKDF2 with the PRF already keyed by the password: `f = PRF (P, ·)`. -/
def core (f : ByteArray → ByteArray) (hLen : Nat) (salt : ByteArray) (iterations dkLen : Nat) :
    ByteArray :=
  let l := (dkLen + hLen - 1) / hLen
  (blocks f salt iterations l 1 (ByteArray.emptyWithCapacity (l * hLen))).extract 0 dkLen

end Pbkdf2

/-- PBKDF2 per RFC 8018 §5.2.  `prf key msg` is the pseudo-random function with output length
    `hLen` bytes; the result has `dkLen` bytes.  `iterations = 0` behaves like `1`
    (as in Go's `x/crypto/pbkdf2`); `hLen = 0` yields the empty string.  The
    "derived key too long" check (`dkLen > (2^32 - 1) * hLen`) is not performed. -/
def pbkdf2 (prf : ByteArray → ByteArray → ByteArray) (hLen : Nat) (password salt : ByteArray)
    (iterations : Nat) (dkLen : Nat) : ByteArray :=
  Pbkdf2.core (prf password) hLen salt iterations dkLen

def pbkdf2HmacSha1 (password salt : ByteArray) (iterations dkLen : Nat) : ByteArray :=
  let k := hmacSha1Init password
  Pbkdf2.core (hmacSha1Keyed k) 20 salt iterations dkLen

def pbkdf2HmacSha256 (password salt : ByteArray) (iterations dkLen : Nat) : ByteArray :=
  let k := hmacSha256Init password
  Pbkdf2.core (hmacSha256Keyed k) 32 salt iterations dkLen

def pbkdf2HmacSha384 (password salt : ByteArray) (iterations dkLen : Nat) : ByteArray :=
  let k := hmacSha384Init password
  Pbkdf2.core (hmacSha384Keyed k) 48 salt iterations dkLen

def pbkdf2HmacSha512 (password salt : ByteArray) (iterations dkLen : Nat) : ByteArray :=
  let k := hmacSha512Init password
  Pbkdf2.core (hmacSha512Keyed k) 64 salt iterations dkLen

end Krb.Prims
