/-
  Known-answer tests for the hash / MAC / KDF primitives.
  Every entry compares the hex of a computed value with a published test vector
  (FIPS 180-4 examples, RFC 1320, RFC 1321, RFC 2202, RFC 4231, RFC 6070, and the widely
  published PBKDF2-HMAC-SHA256 "password"/"salt" vectors).  Entries tagged `(x-check)` have no
  published vector: they compare the precomputed-pad fast path with the generic RFC
  construction, or with a value obtained from OpenSSL.
-/
import Krb.Prims.Hex
import Krb.Prims.Sha1
import Krb.Prims.Sha2
import Krb.Prims.Md4
import Krb.Prims.Md5
import Krb.Prims.Hmac
import Krb.Prims.Pbkdf2

namespace Krb.Prims

namespace HashTest

def str (s : String) : ByteArray := s.toUTF8

/-- `n` copies of the byte `b`. -/
def rep (n : Nat) (b : UInt8) : ByteArray :=
  n.fold (fun _ _ acc => acc.push b) (ByteArray.emptyWithCapacity n)

def check (name : String) (got : ByteArray) (expectHex : String) : String × Bool :=
  (name, hexOf got == expectHex)

def same (name : String) (a b : ByteArray) : String × Bool :=
  (name, a.data == b.data && a.size > 0)

def m448 : ByteArray := str "abcdbcdecdefdefgefghfghighijhijkijkljklmklmnlmnomnopnopq"
def m896 : ByteArray := str <|
  "abcdefghbcdefghicdefghijdefghijkefghijklfghijklmghijklmnhijklmno" ++
  "ijklmnopjklmnopqklmnopqrlmnopqrsmnopqrstnopqrstu"

def shaTests : List (String × Bool) := [
  check "sha1 empty" (sha1 (str "")) "da39a3ee5e6b4b0d3255bfef95601890afd80709",
  check "sha1 abc" (sha1 (str "abc")) "a9993e364706816aba3e25717850c26c9cd0d89d",
  check "sha1 448-bit" (sha1 m448) "84983e441c3bd26ebaae4aa1f95129e5e54670f1",
  check "sha1 896-bit" (sha1 m896) "a49b2446a02c645bf419f995b67091253a04a259",
  check "sha1 million-a" (sha1 (rep 1000000 0x61)) "34aa973cd4c4daa4f61eeb2bdbad27316534016f",
  check "sha256 empty" (sha256 (str ""))
    "e3b0c44298fc1c149afbf4c8996fb92427ae41e4649b934ca495991b7852b855",
  check "sha256 abc" (sha256 (str "abc"))
    "ba7816bf8f01cfea414140de5dae2223b00361a396177a9cb410ff61f20015ad",
  check "sha256 448-bit" (sha256 m448)
    "248d6a61d20638b8e5c026930c3e6039a33ce45964ff2167f6ecedd419db06c1",
  check "sha256 896-bit" (sha256 m896)
    "cf5b16a778af8380036ce59e7b0492370b249b11e8f07a51afac45037afee9d1",
  check "sha256 million-a" (sha256 (rep 1000000 0x61))
    "cdc76e5c9914fb9281a1c7e284d73e67f1809a48a497200e046d39ccc7112cd0",
  check "sha384 empty" (sha384 (str ""))
    ("38b060a751ac96384cd9327eb1b1e36a21fdb71114be07434c0cc7bf63f6e1da" ++
     "274edebfe76f65fbd51ad2f14898b95b"),
  check "sha384 abc" (sha384 (str "abc"))
    ("cb00753f45a35e8bb5a03d699ac65007272c32ab0eded1631a8b605a43ff5bed" ++
     "8086072ba1e7cc2358baeca134c825a7"),
  check "sha384 448-bit" (sha384 m448)
    ("3391fdddfc8dc7393707a65b1b4709397cf8b1d162af05abfe8f450de5f36bc6" ++
     "b0455a8520bc4e6f5fe95b1fe3c8452b"),
  check "sha384 896-bit" (sha384 m896)
    ("09330c33f71147e83d192fc782cd1b4753111b173b3b05d22fa08086e3b0f712" ++
     "fcc7c71a557e2db966c3e9fa91746039"),
  check "sha512 empty" (sha512 (str ""))
    ("cf83e1357eefb8bdf1542850d66d8007d620e4050b5715dc83f4a921d36ce9ce" ++
     "47d0d13c5d85f2b0ff8318d2877eec2f63b931bd47417a81a538327af927da3e"),
  check "sha512 abc" (sha512 (str "abc"))
    ("ddaf35a193617abacc417349ae20413112e6fa4e89a97ea20a9eeee64b55d39a" ++
     "2192992a274fc1a836ba3c23a3feebbd454d4423643ce80e2a9ac94fa54ca49f"),
  check "sha512 448-bit" (sha512 m448)
    ("204a8fc6dda82f0a0ced7beb8e08a41657c16ef468b228a8279be331a703c335" ++
     "96fd15c13b1b07f9aa1d3bea57789ca031ad85c7a71dd70354ec631238ca3445"),
  check "sha512 896-bit" (sha512 m896)
    ("8e959b75dae313da8cf4f72814fc143f8f7779c6eb9f7fa17299aeadb6889018" ++
     "501d289e4900f7e4331b99dec4b5433ac7d329eeb6dd26545e96e55b874be909")]

def alphaNum : String := "ABCDEFGHIJKLMNOPQRSTUVWXYZabcdefghijklmnopqrstuvwxyz0123456789"
def digits80 : String :=
  "12345678901234567890123456789012345678901234567890123456789012345678901234567890"

/-- RFC 1320 §A.5 and RFC 1321 §A.5 test suites. -/
def mdTests : List (String × Bool) := [
  check "md4 empty" (md4 (str "")) "31d6cfe0d16ae931b73c59d7e0c089c0",
  check "md4 a" (md4 (str "a")) "bde52cb31de33e46245e05fbdbd6fb24",
  check "md4 abc" (md4 (str "abc")) "a448017aaf21d8525fc10ae87aa6729d",
  check "md4 message-digest" (md4 (str "message digest")) "d9130a8164549fe818874806e1c7014b",
  check "md4 a-z" (md4 (str "abcdefghijklmnopqrstuvwxyz")) "d79e1c308aa5bbcdeea8ed63df412da9",
  check "md4 A-Za-z0-9" (md4 (str alphaNum)) "043f8582f241db351ce627e153e7f0e4",
  check "md4 80-digits" (md4 (str digits80)) "e33b4ddc9c38f2199c3e7b164fcc0536",
  check "md5 empty" (md5 (str "")) "d41d8cd98f00b204e9800998ecf8427e",
  check "md5 a" (md5 (str "a")) "0cc175b9c0f1b6a831c399e269772661",
  check "md5 abc" (md5 (str "abc")) "900150983cd24fb0d6963f7d28e17f72",
  check "md5 message-digest" (md5 (str "message digest")) "f96b697d7cb7938d525a2f31aaf161d0",
  check "md5 a-z" (md5 (str "abcdefghijklmnopqrstuvwxyz")) "c3fcd3d76192e4007dfb496cca67e13b",
  check "md5 A-Za-z0-9" (md5 (str alphaNum)) "d174ab98d277d9f5a5611c2c9f419d9f",
  check "md5 80-digits" (md5 (str digits80)) "57edf4a22be3c955ac49da2e2107b67a"]

def key25 : ByteArray := ofHex "0102030405060708090a0b0c0d0e0f10111213141516171819"
def jefe : ByteArray := str "Jefe"
def jefeMsg : ByteArray := str "what do ya want for nothing?"
def hiThere : ByteArray := str "Hi There"
def msg2202_6 : ByteArray := str "Test Using Larger Than Block-Size Key - Hash Key First"
def msg2202_7 : ByteArray :=
  str "Test Using Larger Than Block-Size Key and Larger Than One Block-Size Data"
def msg4231_7 : ByteArray := str <|
  "This is a test using a larger than block-size key and a larger than block-size data. " ++
  "The key needs to be hashed before being used by the HMAC algorithm."

/-- RFC 2202 cases 1-4, 6, 7 for HMAC-MD5 and HMAC-SHA-1. -/
def hmac2202Tests : List (String × Bool) := [
  check "hmac-md5 rfc2202-1" (hmacMd5 (rep 16 0x0b) hiThere) "9294727a3638bb1c13f48ef8158bfc9d",
  check "hmac-md5 rfc2202-2" (hmacMd5 jefe jefeMsg) "750c783e6ab0b503eaa86e310a5db738",
  check "hmac-md5 rfc2202-3" (hmacMd5 (rep 16 0xaa) (rep 50 0xdd))
    "56be34521d144c88dbb8c733f0e8b3f6",
  check "hmac-md5 rfc2202-4" (hmacMd5 key25 (rep 50 0xcd)) "697eaf0aca3a3aea3a75164746ffaa79",
  check "hmac-md5 rfc2202-6" (hmacMd5 (rep 80 0xaa) msg2202_6)
    "6b1ab7fe4bd7bf8f0b62e6ce61b9d0cd",
  check "hmac-md5 rfc2202-7" (hmacMd5 (rep 80 0xaa) msg2202_7)
    "6f630fad67cda0ee1fb1f562db3aa53e",
  check "hmac-sha1 rfc2202-1" (hmacSha1 (rep 20 0x0b) hiThere)
    "b617318655057264e28bc0b6fb378c8ef146be00",
  check "hmac-sha1 rfc2202-2" (hmacSha1 jefe jefeMsg)
    "effcdf6ae5eb2fa2d27416d5f184df9c259a7c79",
  check "hmac-sha1 rfc2202-3" (hmacSha1 (rep 20 0xaa) (rep 50 0xdd))
    "125d7342b9ac11cd91a39af48aa17b4f63f175d3",
  check "hmac-sha1 rfc2202-4" (hmacSha1 key25 (rep 50 0xcd))
    "4c9007f4026250c6bc8414f9bf50c86c2d7235da",
  check "hmac-sha1 rfc2202-6" (hmacSha1 (rep 80 0xaa) msg2202_6)
    "aa4ae5e15272d00e95705637ce8a3b55ed402112",
  check "hmac-sha1 rfc2202-7" (hmacSha1 (rep 80 0xaa) msg2202_7)
    "e8e99d0f45237d786d6bbaa7965c7808bbff1a91"]

/-- RFC 4231 cases 1-4, 6, 7 for HMAC-SHA-256 and HMAC-SHA-384. -/
def hmac4231Tests : List (String × Bool) := [
  check "hmac-sha256 rfc4231-1" (hmacSha256 (rep 20 0x0b) hiThere)
    "b0344c61d8db38535ca8afceaf0bf12b881dc200c9833da726e9376c2e32cff7",
  check "hmac-sha256 rfc4231-2" (hmacSha256 jefe jefeMsg)
    "5bdcc146bf60754e6a042426089575c75a003f089d2739839dec58b964ec3843",
  check "hmac-sha256 rfc4231-3" (hmacSha256 (rep 20 0xaa) (rep 50 0xdd))
    "773ea91e36800e46854db8ebd09181a72959098b3ef8c122d9635514ced565fe",
  check "hmac-sha256 rfc4231-4" (hmacSha256 key25 (rep 50 0xcd))
    "82558a389a443c0ea4cc819899f2083a85f0faa3e578f8077a2e3ff46729665b",
  check "hmac-sha256 rfc4231-6" (hmacSha256 (rep 131 0xaa) msg2202_6)
    "60e431591ee0b67f0d8a26aacbf5b77f8e0bc6213728c5140546040f0ee37f54",
  check "hmac-sha256 rfc4231-7" (hmacSha256 (rep 131 0xaa) msg4231_7)
    "9b09ffa71b942fcb27635fbcd5b0e944bfdc63644f0713938a7f51535c3a35e2",
  check "hmac-sha384 rfc4231-1" (hmacSha384 (rep 20 0x0b) hiThere)
    ("afd03944d84895626b0825f4ab46907f15f9dadbe4101ec682aa034c7cebc59c" ++
     "faea9ea9076ede7f4af152e8b2fa9cb6"),
  check "hmac-sha384 rfc4231-2" (hmacSha384 jefe jefeMsg)
    ("af45d2e376484031617f78d2b58a6b1b9c7ef464f5a01b47e42ec3736322445e" ++
     "8e2240ca5e69e2c78b3239ecfab21649"),
  check "hmac-sha384 rfc4231-3" (hmacSha384 (rep 20 0xaa) (rep 50 0xdd))
    ("88062608d3e6ad8a0aa2ace014c8a86f0aa635d947ac9febe83ef4e55966144b" ++
     "2a5ab39dc13814b94e3ab6e101a34f27"),
  check "hmac-sha384 rfc4231-4" (hmacSha384 key25 (rep 50 0xcd))
    ("3e8a69b7783c25851933ab6290af6ca77a9981480850009cc5577c6e1f573b4e" ++
     "6801dd23c4a7d679ccf8a386c674cffb"),
  check "hmac-sha384 rfc4231-6" (hmacSha384 (rep 131 0xaa) msg2202_6)
    ("4ece084485813e9088d2c63a041bc5b44f9ef1012a2b588f3cd11f05033ac4c6" ++
     "0c2ef6ab4030fe8296248df163f44952"),
  check "hmac-sha384 rfc4231-7" (hmacSha384 (rep 131 0xaa) msg4231_7)
    ("6617178e941f020d351e2f254e8fd32c602420feb0b8fb9adccebb82461e99c5" ++
     "a678cc31e799176d3860e6110c46523e"),
  check "hmac-sha512 rfc4231-1" (hmacSha512 (rep 20 0x0b) hiThere)
    ("87aa7cdea5ef619d4ff0b4241a1d6cb02379f4e2ce4ec2787ad0b30545e17cde" ++
     "daa833b7d6b8a702038b274eaea3f4e4be9d914eeb61f1702e696c203a126854"),
  check "hmac-sha512 rfc4231-2" (hmacSha512 jefe jefeMsg)
    ("164b7a7bfcf819e2e395fbe73b56e0a387bd64222e831fd610270cd7ea250554" ++
     "9758bf75c05a994a6d034f65f8f0e6fdcaeab1a34d4a6b4b636e070a38bce737")]

/-- The precomputed-pad HMAC agrees with the generic construction (short, block-sized,
    and longer-than-block keys; empty and multi-block messages). -/
def hmacKeyedTests : List (String × Bool) :=
  let keys := [rep 0 0, jefe, rep 64 0x11, rep 65 0x22, rep 128 0x33, rep 131 0xaa]
  let msgs := [rep 0 0, hiThere, rep 55 0x61, rep 56 0x62, rep 64 0x63, msg4231_7]
  let all (f : ByteArray → ByteArray → Bool) : Bool := keys.all fun k => msgs.all fun m => f k m
  [("hmac-sha1 keyed = generic (x-check)",
      all fun k m => (hmacSha1Keyed (hmacSha1Init k) m).data == (hmacSha1 k m).data),
   ("hmac-sha256 keyed = generic (x-check)",
      all fun k m => (hmacSha256Keyed (hmacSha256Init k) m).data == (hmacSha256 k m).data),
   ("hmac-sha384 keyed = generic (x-check)",
      all fun k m => (hmacSha384Keyed (hmacSha384Init k) m).data == (hmacSha384 k m).data),
   ("hmac-sha512 keyed = generic (x-check)",
      all fun k m => (hmacSha512Keyed (hmacSha512Init k) m).data == (hmacSha512 k m).data),
   ("hmac-md5 keyed = generic (x-check)",
      all fun k m => (hmacMd5Keyed (hmacMd5Init k) m).data == (hmacMd5 k m).data)]

def pw : ByteArray := str "password"
def salt : ByteArray := str "salt"
def pwLong : ByteArray := str "passwordPASSWORDpassword"
def saltLong : ByteArray := str "saltSALTsaltSALTsaltSALTsaltSALTsalt"

/-- RFC 6070 (PBKDF2-HMAC-SHA1) and the usual PBKDF2-HMAC-SHA256 vectors. -/
def pbkdf2Tests : List (String × Bool) := [
  check "pbkdf2-sha1 rfc6070 c=1" (pbkdf2HmacSha1 pw salt 1 20)
    "0c60c80f961f0e71f3a9b524af6012062fe037a6",
  check "pbkdf2-sha1 rfc6070 c=2" (pbkdf2HmacSha1 pw salt 2 20)
    "ea6c014dc72d6f8ccd1ed92ace1d41f0d8de8957",
  check "pbkdf2-sha1 rfc6070 c=4096" (pbkdf2HmacSha1 pw salt 4096 20)
    "4b007901b765489abead49d926f721d065a429c1",
  check "pbkdf2-sha1 rfc6070 c=4096 dkLen=25" (pbkdf2HmacSha1 pwLong saltLong 4096 25)
    "3d2eec4fe41c849b80c8d83662c0e44a8b291a964cf2f07038",
  check "pbkdf2-sha1 rfc6070 c=4096 dkLen=16 (NUL bytes)"
    (pbkdf2HmacSha1 (ofHex "7061737300776f7264") (ofHex "7361006c74") 4096 16)
    "56fa6aa75548099dcc37d7f03425e0c3",
  check "pbkdf2-sha1 generic rfc6070 c=2" (pbkdf2 hmacSha1 20 pw salt 2 20)
    "ea6c014dc72d6f8ccd1ed92ace1d41f0d8de8957",
  check "pbkdf2-sha1 generic rfc6070 c=4096 dkLen=25" (pbkdf2 hmacSha1 20 pwLong saltLong 4096 25)
    "3d2eec4fe41c849b80c8d83662c0e44a8b291a964cf2f07038",
  check "pbkdf2-sha256 c=1" (pbkdf2HmacSha256 pw salt 1 32)
    "120fb6cffcf8b32c43e7225256c4f837a86548c92ccc35480805987cb70be17b",
  check "pbkdf2-sha256 c=2" (pbkdf2HmacSha256 pw salt 2 32)
    "ae4d0c95af6b46d32d0adff928f06dd02a303f8ef3c251dfd6e2d85a95474c43",
  check "pbkdf2-sha256 c=4096" (pbkdf2HmacSha256 pw salt 4096 32)
    "c5e478d59288c841aa530db6845c4c8d962893a001ce4e11a4963873aa98134a",
  check "pbkdf2-sha256 c=4096 dkLen=40" (pbkdf2HmacSha256 pwLong saltLong 4096 40)
    "348c89dbcbd32b2f32d814b8116e84cf2b17347ebc1800181c4e2a1fb8dd53e1c635518c7dac47e9",
  check "pbkdf2-sha256 generic c=2" (pbkdf2 hmacSha256 32 pw salt 2 32)
    "ae4d0c95af6b46d32d0adff928f06dd02a303f8ef3c251dfd6e2d85a95474c43",
  check "pbkdf2-sha384 c=4096 dkLen=48 (x-check OpenSSL)" (pbkdf2HmacSha384 pw salt 4096 48)
    ("559726be38db125bc85ed7895f6e3cf574c7a01c080c3447db1e8a76764deb3c" ++
     "307b94853fbe424f6488c5f4f1289626"),
  check "pbkdf2-sha512 c=1" (pbkdf2HmacSha512 pw salt 1 64)
    ("867f70cf1ade02cff3752599a3a53dc4af34c7a669815ae5d513554e1c8cf252" ++
     "c02d470a285a0501bad999bfe943c08f050235d7d68b1da55e63f73b60a57fce"),
  same "pbkdf2-sha384 fast = generic c=3 dkLen=100 (x-check)"
    (pbkdf2HmacSha384 pwLong saltLong 3 100) (pbkdf2 hmacSha384 48 pwLong saltLong 3 100),
  same "pbkdf2-sha512 fast = generic c=3 dkLen=100 (x-check)"
    (pbkdf2HmacSha512 pwLong saltLong 3 100) (pbkdf2 hmacSha512 64 pwLong saltLong 3 100)]

end HashTest

open HashTest in
/-- Named known-answer tests; every entry must be `true`. -/
def hashSelfTest : List (String × Bool) :=
  shaTests ++ mdTests ++ hmac2202Tests ++ hmac4231Tests ++ hmacKeyedTests ++ pbkdf2Tests

end Krb.Prims
