/-
  C16 — krb5.conf: the per-realm block parser (`Realm.parseLines`), the final-value marker, and
  host-to-realm resolution (`Config.ResolveRealm`), v8/config/krb5conf.go.

  A realm line is abstracted to the features the Go code inspects (after comment stripping and
  trimming): whether it contains '=', '{', '}', "v4_", and — when it has an '=' — its lower-cased key
  and trimmed value.  The harness extracts the same features from the raw text it feeds to Go.
-/
import Krb.Base.Outcome
namespace Krb.Conf
open Krb

/-- the relations of a realm the parser knows -/
inductive RKey where
  | admin | defaultDomain | kdc | kpasswd | master | other
  deriving Repr, DecidableEq

abbrev Str := List Char

structure Line where
  blank : Bool := false       -- empty after stripping the comment
  hasEq : Bool
  hasOpen : Bool
  hasClose : Bool
  hasV4 : Bool
  key : RKey := .other
  val : Str := []
  deriving Repr, DecidableEq

structure Realm where
  admin : List Str := []
  kdc : List Str := []
  kpasswd : List Str := []
  master : List Str := []
  defaultDomain : Str := []
  deriving Repr, DecidableEq

structure St where
  r : Realm := {}
  adminFinal : Bool := false
  kdcFinal : Bool := false
  kpasswdFinal : Bool := false
  masterFinal : Bool := false
  ignore : Bool := false
  depth : Nat := 0
  unsupported : Bool := false     -- an UnsupportedDirective (v4) was seen
  deriving Repr, DecidableEq

def endsStar (v : Str) : Bool := v.getLast? == some '*'

/-- `appendUntilFinal` -/
def appendUntilFinal (l : List Str) (v : Str) (final : Bool) : List Str × Bool :=
  if final then (l, true)
  else if endsStar v then (l ++ [v.dropLast], true)
  else (l ++ [v], false)

/-- Go `strings.TrimSpace` on the right (the left side is already trimmed) -/
def trimRight (v : Str) : Str := (v.reverse.dropWhile (fun c => c == ' ' || c == '\t')).reverse

/-- the kdc value gets the default port when it names none -/
def kdcValue (v : Str) : Str :=
  if v.contains ':' then v
  else if endsStar v then trimRight v.dropLast ++ ":88*".toList
  else trimRight v ++ ":88".toList

def assign (s : St) (key : RKey) (v : Str) : St :=
  match key with
  | .admin =>
    let (l, f) := appendUntilFinal s.r.admin v s.adminFinal
    { s with r := { s.r with admin := l }, adminFinal := f }
  | .defaultDomain => { s with r := { s.r with defaultDomain := v } }
  | .kdc =>
    let (l, f) := appendUntilFinal s.r.kdc (kdcValue v) s.kdcFinal
    { s with r := { s.r with kdc := l }, kdcFinal := f }
  | .kpasswd =>
    let (l, f) := appendUntilFinal s.r.kpasswd v s.kpasswdFinal
    { s with r := { s.r with kpasswd := l }, kpasswdFinal := f }
  | .master =>
    let (l, f) := appendUntilFinal s.r.master v s.masterFinal
    { s with r := { s.r with master := l }, masterFinal := f }
  | .other => s

/-- one iteration of the loop in `Realm.parseLines`, after the two fixes (a closing bracket line is
    skipped; relations inside a nested block are skipped).  `crash` marks a Go panic. -/
def stepCore (s : St) (ln : Line) : Except String St :=
  if s.ignore && decide (s.depth > 0) && !ln.hasOpen && !ln.hasClose then .ok s
  else if ln.blank then .ok s
  else if !ln.hasEq && !ln.hasClose then .error "invalid-line"
  else
    let s1 : St := if ln.hasV4 then { s with ignore := true, unsupported := true } else s
    let d1 := if ln.hasOpen then s1.depth + 1 else s1.depth
    if ln.hasOpen && s1.ignore then .ok { s1 with depth := d1 }
    else if ln.hasClose then
      if d1 = 0 then .error "unpaired"
      else
        let d2 := d1 - 1
        if s1.ignore then
          if d2 < 1 then .ok { s1 with depth := 0, ignore := false } else .ok { s1 with depth := d2 }
        else if !ln.hasEq then .ok { s1 with depth := d2 }
        else if d2 > 0 then .ok { s1 with depth := d2 }
        else .ok (assign { s1 with depth := d2 } ln.key ln.val)
    else if !ln.hasEq then .ok { s1 with depth := d1 }
    else if d1 > 0 then .ok { s1 with depth := d1 }
    else .ok (assign { s1 with depth := d1 } ln.key ln.val)

/-- every index expression in the repaired loop is guarded, so the iteration has no panic outcome: it
    is an `Except` computation embedded in `Outcome` -/
def step (s : St) (ln : Line) : Outcome St :=
  match stepCore s ln with
  | .ok s' => .ok s'
  | .error e => .err e

/-- the unrepaired iteration: after the bracket bookkeeping `p[1]` is indexed unconditionally -/
def step_v0 (s : St) (ln : Line) : Outcome St :=
  if s.ignore && decide (s.depth > 0) && !ln.hasOpen && !ln.hasClose then .ok s
  else if ln.blank then .ok s
  else if !ln.hasEq && !ln.hasClose then .err "invalid-line"
  else
    let s1 : St := if ln.hasV4 then { s with ignore := true, unsupported := true } else s
    let d1 := if ln.hasOpen then s1.depth + 1 else s1.depth
    if ln.hasOpen && s1.ignore then .ok { s1 with depth := d1 }
    else if ln.hasClose then
      if d1 = 0 then .err "unpaired"
      else
        let d2 := d1 - 1
        if s1.ignore then
          if d2 < 1 then .ok { s1 with depth := 0, ignore := false } else .ok { s1 with depth := d2 }
        else if !ln.hasEq then .crash "index out of range [1] with length 1"
        else .ok (assign { s1 with depth := d2 } ln.key ln.val)
    else if !ln.hasEq then .crash "index out of range [1] with length 1"
    else .ok (assign { s1 with depth := d1 } ln.key ln.val)

def run (stp : St → Line → Outcome St) : St → List Line → Outcome St
  | s, [] => .ok s
  | s, l :: ls =>
    match stp s l with
    | .ok s' => run stp s' ls
    | .err e => .err e
    | .crash w => .crash w

/-- kpasswd servers default to the admin servers on port 464 -/
def finish (s : St) : Realm :=
  if s.r.kpasswd.isEmpty then
    { s.r with kpasswd := s.r.admin.map (fun a => a.takeWhile (· != ':') ++ ":464".toList) }
  else s.r

def parseRealm (lines : List Line) : Outcome Realm :=
  match run step {} lines with
  | .ok s => .ok (finish s)
  | .err e => .err e
  | .crash w => .crash w

/-! ## the [realms] section: splitting it into realm blocks (`parseRealms`) -/

/-- a line of the [realms] section as the outer loop sees it (comment stripped, trimmed): the features it
    tests, the text before the first '=' (the realm name when the line opens a block), and the same raw
    line as the block parser will see it -/
structure OLine where
  blank : Bool := false
  hasOpen : Bool
  hasEq : Bool
  hasClose : Bool
  name : Str := []
  inner : Line
  deriving Repr, DecidableEq

/-- Go `lines[i:j]` for a slice of lines (capacity = length) -/
def sliceLines (l : List OLine) (i j : Nat) : Outcome (List OLine) :=
  if j > l.length then .crash "slice bounds out of range (high)"
  else if i > j then .crash "slice bounds out of range (low > high)"
  else .ok ((l.take j).drop i)

structure OSt where
  c : Nat := 0
  start : Nat := 0
  name : Str := []
  realms : List (Str × Realm) := []
  unsupported : Bool := false
  deriving Repr, DecidableEq

/-- one realm block handed to the block parser: an UnsupportedDirective is remembered and the realm kept,
    any other error ends the parse -/
def closeBlock (s : OSt) (block : List OLine) : Outcome OSt :=
  match run step {} (block.map (·.inner)) with
  | .ok st => .ok { s with realms := s.realms ++ [(s.name, finish st)], unsupported := s.unsupported || st.unsupported }
  | .err e => .err e
  | .crash w => .crash w

/-- one iteration of the loop of `parseRealms` at line index `i`; `guarded` = the repaired code, which
    takes the lines of the block only when the block spans more than one line -/
def outerStep (guarded : Bool) (all : List OLine) (s : OSt) (i : Nat) (l : OLine) : Outcome OSt :=
  if l.blank then .ok s
  else
    let opened : Outcome OSt :=
      if l.hasOpen then
        if !l.hasEq then .err "invalid-line"
        else if s.c + 1 = 1 then .ok { s with c := s.c + 1, start := i, name := l.name }
        else .ok { s with c := s.c + 1 }
      else .ok s
    match opened with
    | .err e => .err e
    | .crash w => .crash w
    | .ok s1 =>
      if l.hasClose then
        if s1.c < 1 then .err "not-started"
        else
          let s2 := { s1 with c := s1.c - 1 }
          if s2.c = 0 then
            let block : Outcome (List OLine) :=
              if guarded && !(decide (i > s2.start)) then .ok [] else sliceLines all (s2.start + 1) i
            match block with
            | .ok b => closeBlock s2 b
            | .err e => .err e
            | .crash w => .crash w
          else .ok s2
      else .ok s1

def outerLoop (guarded : Bool) (all : List OLine) : OSt → Nat → List OLine → Outcome OSt
  | s, _, [] => .ok s
  | s, i, l :: ls =>
    match outerStep guarded all s i l with
    | .ok s' => outerLoop guarded all s' (i + 1) ls
    | .err e => .err e
    | .crash w => .crash w

/-- `parseRealms`: the realms of the section in order, and whether an unsupported (v4) directive was met -/
def parseRealms (guarded : Bool) (lines : List OLine) : Outcome (List (Str × Realm) × Bool) :=
  match outerLoop guarded lines {} 0 lines with
  | .ok s => if s.c ≠ 0 then .err "unpaired" else .ok (s.realms, s.unsupported)
  | .err e => .err e
  | .crash w => .crash w

/-! ## host-to-realm resolution -/

/-- a host name is its list of labels (`a.b.c` = ["a","b","c"]); the mapping keys are hosts
    (`exact`) or domains with a leading dot (`dom`, the labels after the dot) -/
inductive Key where
  | exact (labels : List Str)
  | dom (labels : List Str)
  deriving Repr, DecidableEq

abbrev Mapping := List (Key × Str)

def lookup (m : Mapping) (k : Key) : Option Str := (m.find? (fun p => p.1 = k)).map (·.2)

/-- proper suffixes from longest to shortest: for [a,b,c] → [b,c], [c] -/
def properSuffixes : List Str → List (List Str)
  | [] => []
  | _ :: rest => if rest.isEmpty then [] else rest :: properSuffixes rest

/-- `ResolveRealm`: the exact host first, then ".suffix" for successively shorter suffixes -/
def resolve (m : Mapping) (host : List Str) : Str :=
  match lookup m (.exact host) with
  | some r => r
  | none =>
    match (properSuffixes host).findSome? (fun s => lookup m (.dom s)) with
    | some r => r
    | none => []

/-! ### durations: the `h:m[:s]` form of `parseDuration` (reached when the text is neither a Go duration
    nor a plain number of seconds and holds a ':') -/

/-- `strconv.ParseInt(n, 10, 16)` accepts exactly the 16-bit signed range -/
def int16Ok (p : Int) : Bool := decide (-32768 ≤ p) && decide (p ≤ 32767)

/-- seconds denoted by the parts of `h:m[:s]`; `none` is the "invalid time duration value" error
    (the arity test comes before the parts are read, as in the Go code) -/
def hmsSeconds (parts : List Int) : Option Int :=
  if parts.length < 2 || parts.length > 3 then none
  else if parts.all int16Ok then
    match parts with
    | [h, m] => some (h * 3600 + m * 60)
    | [h, m, s] => some (h * 3600 + m * 60 + s)
    | _ => none
  else none

end Krb.Conf
