/-
  C17 — GSS-API per-message tokens (RFC 4121 §4.2.6), v8/gssapi/wrapToken.go and MICToken.go.
  `Spec.*` is the RFC layout and checksum definition; `Impl.*` follows the Go Marshal/Unmarshal/Verify.
-/
import Krb.Crypto.Spec
namespace Krb.Gss
open Krb Krb.Crypto

structure Wrap where
  flags : UInt8
  ec : Nat
  rrc : Nat
  seq : Nat
  payload : Bytes
  cksum : Bytes
  deriving Repr, DecidableEq

structure Mic where
  flags : UInt8
  seq : Nat
  cksum : Bytes
  deriving Repr, DecidableEq

namespace Spec

/-- RFC 4121 §4.2.6.2: TOK_ID 05 04, Flags, Filler FF, EC, RRC, SND_SEQ (all big endian) -/
def wrapHeader (flags : UInt8) (ec rrc seq : Nat) : Bytes :=
  [0x05, 0x04, flags, 0xFF] ++ be16 ec ++ be16 rrc ++ be64 seq

/-- RFC 4121 §4.2.6.1: TOK_ID 04 04, Flags, five filler octets FF, SND_SEQ -/
def micHeader (flags : UInt8) (seq : Nat) : Bytes :=
  [0x04, 0x04, flags, 0xFF, 0xFF, 0xFF, 0xFF, 0xFF] ++ be64 seq

/-- a Wrap token without confidentiality: header ‖ plaintext ‖ checksum -/
def wrapToken (t : Wrap) : Bytes := wrapHeader t.flags t.ec t.rrc t.seq ++ t.payload ++ t.cksum

def micToken (t : Mic) : Bytes := micHeader t.flags t.seq ++ t.cksum

/-- the checksum is computed over plaintext ‖ header with EC and RRC zeroed (§4.2.4) -/
def wrapCksumInput (flags : UInt8) (seq : Nat) (payload : Bytes) : Bytes :=
  payload ++ wrapHeader flags 0 0 seq

def micCksumInput (flags : UInt8) (seq : Nat) (payload : Bytes) : Bytes :=
  payload ++ micHeader flags seq

def wrapCksum (P : Prims) (et : EType) (key : Bytes) (usage : Nat) (flags : UInt8) (seq : Nat)
    (payload : Bytes) : Bytes :=
  checksum P et key usage (wrapCksumInput flags seq payload)

def micCksum (P : Prims) (et : EType) (key : Bytes) (usage : Nat) (flags : UInt8) (seq : Nat)
    (payload : Bytes) : Bytes :=
  checksum P et key usage (micCksumInput flags seq payload)

end Spec

namespace Impl

/-- `WrapToken.Marshal`: a buffer of 16 + len(payload) + EC bytes; `copy` truncates or zero-fills the
    checksum to EC bytes -/
def marshalWrap (t : Wrap) : Bytes :=
  Spec.wrapHeader t.flags t.ec t.rrc t.seq ++ t.payload ++ (t.cksum ++ zeros (t.ec - t.cksum.length)).take t.ec

def marshalMic (t : Mic) : Bytes := Spec.micHeader t.flags t.seq ++ t.cksum

def be64val (s0 s1 s2 s3 s4 s5 s6 s7 : UInt8) : Nat :=
  ((((((s0.toNat * 256 + s1.toNat) * 256 + s2.toNat) * 256 + s3.toNat) * 256 + s4.toNat) * 256 +
    s5.toNat) * 256 + s6.toNat) * 256 + s7.toNat

/-- `WrapToken.Unmarshal(b, expectFromAcceptor)`: the 16 header octets, then payload ‖ checksum -/
def unmarshalWrap (b : Bytes) (expectAcceptor : Bool) : Except String Wrap :=
  match b with
  | t0 :: t1 :: flags :: fill :: e0 :: e1 :: r0 :: r1 :: s0 :: s1 :: s2 :: s3 :: s4 :: s5 :: s6 :: s7 :: rest =>
    if t0 ≠ 0x05 ∨ t1 ≠ 0x04 then .error "tokid"
    else
      let fromAcc := flags &&& 1 == 1
      if fromAcc && !expectAcceptor then .error "direction"
      else if !fromAcc && expectAcceptor then .error "direction"
      else if fill ≠ 0xFF then .error "filler"
      else
        let ec := e0.toNat * 256 + e1.toNat
        if ec > rest.length then .error "eclen"
        else .ok { flags := flags, ec := ec, rrc := r0.toNat * 256 + r1.toNat,
                   seq := be64val s0 s1 s2 s3 s4 s5 s6 s7,
                   payload := rest.take (rest.length - ec), cksum := rest.drop (rest.length - ec) }
  | _ => .error "short"

/-- `MICToken.Unmarshal` -/
def unmarshalMic (b : Bytes) (expectAcceptor : Bool) : Except String Mic :=
  match b with
  | t0 :: t1 :: flags :: f0 :: f1 :: f2 :: f3 :: f4 :: s0 :: s1 :: s2 :: s3 :: s4 :: s5 :: s6 :: s7 :: rest =>
    if t0 ≠ 0x04 ∨ t1 ≠ 0x04 then .error "tokid"
    else
      let fromAcc := flags &&& 1 != 0
      if fromAcc && !expectAcceptor then .error "direction"
      else if !fromAcc && expectAcceptor then .error "direction"
      else if f0 ≠ 0xFF ∨ f1 ≠ 0xFF ∨ f2 ≠ 0xFF ∨ f3 ≠ 0xFF ∨ f4 ≠ 0xFF then .error "filler"
      else .ok { flags := flags, seq := be64val s0 s1 s2 s3 s4 s5 s6 s7, cksum := rest }
  | _ => .error "short"

/-- `WrapToken.Verify` / `MICToken.Verify` (constant-time compare ≡ equality) -/
def verifyWrap (P : Prims) (et : EType) (key : Bytes) (usage : Nat) (t : Wrap) : Bool :=
  t.cksum == Spec.wrapCksum P et key usage t.flags t.seq t.payload

def verifyMic (P : Prims) (et : EType) (key : Bytes) (usage : Nat) (t : Mic) (payload : Bytes) : Bool :=
  t.cksum == Spec.micCksum P et key usage t.flags t.seq payload

end Impl
end Krb.Gss
