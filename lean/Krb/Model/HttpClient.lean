/-
  C18 — `spnego.Client.Do` (v8/spnego/http.go): the request/response loop of the SPNEGO HTTP client
  against a scripted server.  Hosts are numbers; a response is what the server (and Go's http.Client
  underneath, which turns a followed redirect into an error carrying the next request) does to the
  request just sent.
-/
import Krb.Base.Bytes
namespace Krb.HttpClient
open Krb

inductive Resp where
  | challenge                       -- 401 with WWW-Authenticate: Negotiate (exactly)
  | final (code : Nat)              -- any response the client hands back as it is
  | redirect (host : Nat) (keep : Bool) (code : Nat)
      -- a 3xx to `host`: `keep` = 307/308 (method and body kept), otherwise 301/302/303 (anything but
      -- GET/HEAD becomes a GET without body)
  | netError                        -- the transport fails
  deriving Repr, DecidableEq

structure Req where
  host : Nat
  token : Bool                      -- carries Authorization: Negotiate <token>
  body : Bool                       -- carries the (captured) body of the original request
  getBody : Bool := true            -- http.Request.GetBody is set (the http.Client can rewind the body itself)
  isGet : Bool := false             -- method GET or HEAD
  deriving Repr, DecidableEq

inductive Result where
  | response (code : Nat)
  | challengeReturned               -- the 401 Negotiate answer to a request that carried a token
  | error (what : String)
  deriving Repr, DecidableEq

structure Out where
  sent : List Req
  result : Result
  redirects : Nat                   -- len(c.reqs) afterwards (it is never reset)
  deriving Repr, DecidableEq

/-- what Go's http.Client does with a redirect answer to `rq`: `none` = it does not follow it (307/308 with
    a body it cannot rewind) and hands the 3xx response back; otherwise the next request, to which the
    SPNEGO client attaches the captured body again whenever the request it sent had one -/
def redirectTarget (rq : Req) (h : Nat) (keep : Bool) : Option Req :=
  if keep then
    if rq.body ∧ ¬ rq.getBody then none
    else some { host := h, token := false, body := rq.body, getBody := rq.getBody, isGet := rq.isGet }
  else if rq.isGet then some { host := h, token := false, body := rq.body, getBody := false, isGet := true }
  else some { host := h, token := false, body := rq.body, getBody := false, isGet := true }

/-- `Client.Do`; `canAuth host`: SetSPNEGOHeader succeeds (a ticket for the host's service is available);
    a script that runs out is a transport failure -/
def run (canAuth : Nat → Bool) : List Resp → Nat → Req → Out
  | [], reds, rq => { sent := [rq], result := .error "transport", redirects := reds }
  | .netError :: _, reds, rq => { sent := [rq], result := .error "transport", redirects := reds }
  | .final c :: _, reds, rq => { sent := [rq], result := .response c, redirects := reds }
  | .redirect h keep code :: rest, reds, rq =>
    match redirectTarget rq h keep with
    | none => { sent := [rq], result := .response code, redirects := reds }
    | some target =>
      if reds + 1 ≥ 10 then { sent := [rq], result := .error "stopped after 10 redirects", redirects := reds + 1 }
      else
        -- the Authorization header is dropped, the captured body is attached again
        let o := run canAuth rest (reds + 1) target
        { o with sent := rq :: o.sent }
  | .challenge :: rest, reds, rq =>
    if rq.token then { sent := [rq], result := .challengeReturned, redirects := reds }
    else if canAuth rq.host then
      let o := run canAuth rest reds { rq with token := true }
      { o with sent := rq :: o.sent }
    else { sent := [rq], result := .error "auth", redirects := reds }

/-- before the repair: every challenge is answered with a new token -/
def run_v0 (canAuth : Nat → Bool) : List Resp → Nat → Req → Out
  | [], reds, rq => { sent := [rq], result := .error "transport", redirects := reds }
  | .netError :: _, reds, rq => { sent := [rq], result := .error "transport", redirects := reds }
  | .final c :: _, reds, rq => { sent := [rq], result := .response c, redirects := reds }
  | .redirect h keep code :: rest, reds, rq =>
    match redirectTarget rq h keep with
    | none => { sent := [rq], result := .response code, redirects := reds }
    | some target =>
      if reds + 1 ≥ 10 then { sent := [rq], result := .error "stopped after 10 redirects", redirects := reds + 1 }
      else
        let o := run_v0 canAuth rest (reds + 1) target
        { o with sent := rq :: o.sent }
  | .challenge :: rest, reds, rq =>
    if canAuth rq.host then
      let o := run_v0 canAuth rest reds { rq with token := true }
      { o with sent := rq :: o.sent }
    else { sent := [rq], result := .error "auth", redirects := reds }

end Krb.HttpClient
