/-
  C14 — keytab file format (v8/keytab/keytab.go).

  `Impl.*`  follows the Go code: `Keytab.Unmarshal` (including the fact that the error returned by
            `parsePrincipal` is discarded by its caller), `Keytab.Marshal`, `GetEncryptionKey`.
  `Spec.*`  is an independent writer/reader written from the MIT keytab format document
            (https://web.mit.edu/kerberos/krb5-devel/doc/formats/keytab_file_format.html).

  Integers are kept as unsigned bit patterns (`Nat` below 2^16 / 2^32); the harness canonicalises the
  Go values the same way.  Version 1 files use native byte order: the model takes the byte order as a
  parameter `le` (the harness passes the host's order, little endian on amd64).
-/
import Krb.Base.Bytes
namespace Krb.Keytab

open Krb

structure Entry where
  realm : Bytes
  comps : List Bytes
  nameType : Nat      -- uint32 bit pattern (absent in version 1 files: 0)
  ts : Nat            -- uint32 bit pattern of the Unix time
  kvno8 : Nat
  etype : Nat         -- uint16 bit pattern of the key type
  key : Bytes
  kvno : Nat          -- uint32
  deriving Repr, DecidableEq, Inhabited

/-! ## Readers on the remaining input (the Go code keeps an index `p`; `p ≤ len` always holds,
    so "remaining bytes" is the same information). -/

/-- Go `readBytes(b, p, s)` with `s` already known to be non-negative -/
def takeN (n : Nat) (b : Bytes) : Option (Bytes × Bytes) :=
  if n ≤ b.length then some (b.take n, b.drop n) else none

/-- a 16-bit length that Go reads as a *signed* int16: negative values are an error in `readBytes` -/
def counted (le : Bool) (b : Bytes) : Option (Bytes × Bytes) :=
  match dec16 le b with
  | none => none
  | some (n, r) => if n < 32768 then takeN n r else none

def dec8 : Bytes → Option (Nat × Bytes)
  | a :: r => some (a.toNat, r)
  | [] => none

namespace Impl

/-- principal under construction -/
structure Princ where
  realm : Bytes := []
  comps : List Bytes := []
  nameType : Nat := 0
  deriving Repr, DecidableEq

/-- the component loop of `parsePrincipal`; stops at the first error and keeps what it has -/
def parseComps (le : Bool) : Nat → Bytes → List Bytes → (List Bytes × Bytes × Bool)
  | 0, b, acc => (acc, b, true)
  | n+1, b, acc =>
    match dec16 le b with
    | none => (acc, b, false)
    | some (l, r) =>
      if l < 32768 then
        match takeN l r with
        | none => (acc, r, false)        -- the int16 was consumed, the bytes were not
        | some (c, r') => parseComps le n r' (acc ++ [c])
      else (acc, r, false)

/-- `parsePrincipal`: returns the principal as far as it got and the remaining input.
    The Go caller ignores the error, so no error is returned here either. -/
def parsePrincipal (le : Bool) (v : Nat) (b : Bytes) : Princ × Bytes :=
  match dec16 le b with
  | none => ({}, b)
  | some (nc0, r1) =>
    -- signed int16, minus one for version 1
    let nc : Int := toSigned 16 nc0 - (if v = 1 then 1 else 0)
    match dec16 le r1 with
    | none => ({}, r1)
    | some (lr, r2) =>
      if lr < 32768 then
        match takeN lr r2 with
        | none => ({}, r2)
        | some (realm, r3) =>
          let (comps, r4, okc) := parseComps le nc.toNat r3 []
          if okc then
            if v ≠ 1 then
              match dec32 le r4 with
              | none => ({ realm := realm, comps := comps }, r4)
              | some (nt, r5) => ({ realm := realm, comps := comps, nameType := nt }, r5)
            else ({ realm := realm, comps := comps }, r4)
          else ({ realm := realm, comps := comps }, r4)
      else ({}, r2)

/-- one entry body (the bytes after its 32-bit length) -/
def parseEntry (le : Bool) (v : Nat) (eb : Bytes) : Except String Entry :=
  let (p, r) := parsePrincipal le v eb
  match dec32 le r with
  | none => .error "short"
  | some (ts, r) =>
  match dec8 r with
  | none => .error "short"
  | some (k8, r) =>
  match dec16 le r with
  | none => .error "short"
  | some (kt, r) =>
  match counted le r with
  | none => .error "short"
  | some (key, r) =>
    let kv : Nat :=
      if r.length ≥ 4 then
        match dec32 le r with
        | some (x, _) => x
        | none => 0
      else 0
    .ok { realm := p.realm, comps := p.comps, nameType := p.nameType, ts := ts, kvno8 := k8,
          etype := kt, key := key, kvno := if kv = 0 then k8 else kv }

/-- the record loop of `Unmarshal`, entered with the input that follows the previous record:
    read a length word (stop quietly when fewer than 4 bytes remain), then a hole or an entry.
    (The very first length word is read by `unmarshal`, which turns a short read into an error.) -/
def loop (le : Bool) (v : Nat) : Nat → Bytes → List Entry → Except String (List Entry)
  | 0, _, acc => .ok acc
  | fuel+1, b, acc =>
    match dec32 le b with
    | none => .ok acc
    | some (l, rest) =>
      if l = 0 then .ok acc
      else if l ≥ 2147483648 then
        -- negative: a hole of (2^32 - l) bytes
        let h := 4294967296 - l
        if h ≤ rest.length then loop le v fuel (rest.drop h) acc else .ok acc
      else
        if l > rest.length then .error "entry-overrun"
        else
          match parseEntry le v (rest.take l) with
          | .error e => .error e
          | .ok e => loop le v fuel (rest.drop l) (acc ++ [e])

/-- `Keytab.Unmarshal` on a fresh keytab: version and entries -/
def unmarshal (le : Bool) (b : Bytes) : Except String (Nat × List Entry) :=
  match b with
  | f :: v :: rest =>
    if f ≠ 5 then .error "first-byte"
    else if v ≠ 1 ∧ v ≠ 2 then .error "version"
    else
      let le' := v = 1 && le
      if rest.length = 0 then .ok (v.toNat, [])   -- header only: an empty keytab (after the fix)
      else if rest.length < 4 then .error "short"
      else
        match loop le' v.toNat (rest.length) rest [] with
        | .error e => .error e
        | .ok es => .ok (v.toNat, es)
  | _ => .error "short"

/-! ### Marshal -/

def marshalString (le : Bool) (s : Bytes) : Bytes := enc16 le s.length ++ s

def marshalEntry (le : Bool) (v : Nat) (e : Entry) : Bytes :=
  let nc := e.comps.length + (if v = 1 then 1 else 0)
  let body :=
    enc16 le nc ++ marshalString le e.realm ++
    (e.comps.map (marshalString le)).flatten ++
    (if v ≠ 1 then enc32 le e.nameType else []) ++
    enc32 le e.ts ++ [UInt8.ofNat e.kvno8] ++ enc16 le e.etype ++ enc16 le e.key.length ++ e.key ++
    enc32 le e.kvno
  enc32 le body.length ++ body

def marshal (le : Bool) (v : Nat) (es : List Entry) : Bytes :=
  let le' := v = 1 && le
  [5, UInt8.ofNat v] ++ (es.map (marshalEntry le' v)).flatten

/-! ### Lookup (`GetEncryptionKey`) -/

def isMatch (e : Entry) (realm : Bytes) (name : List Bytes) (kvno : Nat) (etype : Nat) : Bool :=
  e.realm == realm && e.comps == name && e.etype == etype && (e.kvno == kvno % 4294967296 || kvno == 0)

/-- the scan: keeps the first entry with the strictly greatest timestamp among the isMatch.
    Timestamps are compared as signed 32-bit Unix times (Go: `time.Unix(int64(int32))`). -/
def scan (realm : Bytes) (name : List Bytes) (kvno : Nat) (etype : Nat) :
    List Entry → Option Entry → Option Entry
  | [], best => best
  | e :: es, best =>
    if isMatch e realm name kvno etype then
      match best with
      | none => scan realm name kvno etype es (some e)
      | some b =>
        if toSigned 32 e.ts > toSigned 32 b.ts then scan realm name kvno etype es (some e)
        else scan realm name kvno etype es best
    else scan realm name kvno etype es best

def getKey (es : List Entry) (realm : Bytes) (name : List Bytes) (kvno : Nat) (etype : Nat) :
    Option (Bytes × Nat) :=
  match scan realm name kvno etype es none with
  | none => none
  | some e => if e.key.length < 1 then none else some (e.key, e.kvno)

end Impl

/-! ## Independent writer (MIT format document) -/
namespace Spec

/-- what a file consists of after the two header bytes -/
inductive Item where
  | hole (n : Nat)                         -- a deleted entry: negative length, n bytes of filler
  | entry (e : Entry) (kvno32 : Option Nat) -- an entry, with or without the trailing 32-bit kvno
  deriving Repr

def counted (le : Bool) (s : Bytes) : Bytes := enc16 le s.length ++ s

def kvnoTail (le : Bool) : Option Nat → Bytes
  | some k => enc32 le k
  | none => []

def renderEntryBody (le : Bool) (v : Nat) (e : Entry) (kvno32 : Option Nat) : Bytes :=
  enc16 le (if v = 1 then e.comps.length + 1 else e.comps.length) ++
  counted le e.realm ++
  (e.comps.map (counted le)).flatten ++
  (if v = 1 then [] else enc32 le e.nameType) ++
  enc32 le e.ts ++
  [UInt8.ofNat e.kvno8] ++
  enc16 le e.etype ++
  counted le e.key ++
  kvnoTail le kvno32

def renderItem (le : Bool) (v : Nat) : Item → Bytes
  | .hole n => enc32 le (4294967296 - n) ++ zeros n
  | .entry e k =>
    let body := renderEntryBody le v e k
    enc32 le body.length ++ body

def render (le : Bool) (v : Nat) (items : List Item) : Bytes :=
  let le' := v = 1 && le
  [5, UInt8.ofNat v] ++ (items.map (renderItem le' v)).flatten

/-- the key version an entry ends up with: the 32-bit field wins when present and non-zero -/
def effKvno (e : Entry) : Option Nat → Nat
  | some k => if k = 0 then e.kvno8 else k
  | none => e.kvno8

/-- the entries a reader must report for a rendered file -/
def entriesOf (v : Nat) : List Item → List Entry
  | [] => []
  | .hole _ :: r => entriesOf v r
  | .entry e k :: r =>
    { e with kvno := effKvno e k, nameType := if v = 1 then 0 else e.nameType } :: entriesOf v r

/-- declarative lookup: the candidates and the choice among them -/
def candidates (es : List Entry) (realm : Bytes) (name : List Bytes) (kvno : Nat) (etype : Nat) :
    List Entry :=
  es.filter (fun e => e.realm == realm && e.comps == name && e.etype == etype &&
    (kvno == 0 || e.kvno == kvno))

end Spec

end Krb.Keytab
