/-
  C13 — the hand-written ASN.1 glue of gokrb5: `asn1tools.MarshalLengthBytes` / `GetLengthFromASN`
  (v8/asn1tools/tools.go) and the flag helpers `SetFlag` / `UnsetFlag` / `IsFlagSet`
  (v8/types/KerberosFlags.go), transliterated.
-/
import Krb.Asn1.Tlv
namespace Krb.Asn1Glue
open Krb Krb.Asn1

/-- the `for` loop of `MarshalLengthBytes`: state (l, p, b) -/
def lenLoop : Nat → Nat → Nat → Bytes → Bytes
  | 0, _, _, b => b
  | fuel+1, l, p, b =>
    let b' := UInt8.ofNat ((l % (p * 256)) / p) :: b
    let p' := p * 256
    let l' := l - l % p'
    if l' = 0 then b' else lenLoop fuel l' p' b'

/-- `MarshalLengthBytes(l)` (the Go loop runs at most 126 times) -/
def marshalLengthBytes (l : Nat) : Bytes :=
  if l ≤ 127 then [UInt8.ofNat l]
  else
    let b := lenLoop 126 l 1 []
    UInt8.ofNat (128 + b.length) :: b

/-- `GetLengthFromASN(b)`: `b` starts with the identifier octet -/
def getLengthFromASN (b : Bytes) : Option Nat :=
  match b with
  | _ :: l :: rest =>
    if l.toNat ≤ 127 then some l.toNat
    else if rest.length < l.toNat - 128 then none
    else some (fromBE (rest.take (l.toNat - 128)))
  | _ => none

/-! ## flags: a KerberosFlags value is four octets -/

def bitMask (i : Nat) : UInt8 := UInt8.ofNat (2 ^ (7 - i % 8))

def setFlag (f : Bytes) (i : Nat) : Bytes := f.set (i / 8) ((f.getD (i / 8) 0) ||| bitMask i)
def unsetFlag (f : Bytes) (i : Nat) : Bytes := f.set (i / 8) ((f.getD (i / 8) 0) &&& ~~~ bitMask i)
def isFlagSet (f : Bytes) (i : Nat) : Bool := (f.getD (i / 8) 0) &&& bitMask i != 0

end Krb.Asn1Glue
