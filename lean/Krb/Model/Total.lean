/-
  C04 — the hand-written byte slicing of the library's decoders, transliterated with Go's partial
  operations made explicit (`goIdx`, `goSlice` crash exactly where the Go runtime panics), as the code is
  now and (`…_v0`) as it was before the repairs:
    asn1tools.GetLengthFromASN / GetNumberBytesInLengthHeader, messages.unmarshalTicketsSequence's header
    skip, kadmin.Reply.Unmarshal + parseResponse, the length guards of DecryptMessage (rfc3962 / rfc3961 /
    rfc8009 / rfc4757), the TCP reply reader of client/network.go, string-to-key iteration counts.
-/
import Krb.Base.Outcome
namespace Krb.Total
open Krb Krb.Outcome

def be16At (b : Bytes) (i : Int) : Outcome Nat := do
  let s ← goSlice b i (i + 2)
  pure (s.foldl (fun a x => a * 256 + x.toNat) 0)

/-! ## asn1tools -/

/-- `GetNumberBytesInLengthHeader` -/
def numLenBytes (b : Bytes) : Outcome Nat :=
  if b.length < 2 then ok 0
  else do
    let b1 ← goIdx b 1
    if b1.toNat ≤ 127 then pure 1 else pure (1 + b1.toNat - 128)

def numLenBytes_v0 (b : Bytes) : Outcome Nat := do
  let b1 ← goIdx b 1
  if b1.toNat ≤ 127 then pure 1 else pure (1 + b1.toNat - 128)

/-- `GetLengthFromASN` -/
def lengthFromASN (b : Bytes) : Outcome Nat :=
  if b.length < 2 then ok 0
  else do
    let b1 ← goIdx b 1
    if b1.toNat ≤ 127 then pure b1.toNat
    else if 2 + (b1.toNat : Int) - 128 > b.length then pure 0
    else do
      let lb ← goSlice b 2 (2 + (b1.toNat : Int) - 128)
      pure (lb.foldl (fun a x => a * 256 + x.toNat) 0)

def lengthFromASN_v0 (b : Bytes) : Outcome Nat := do
  let b1 ← goIdx b 1
  if b1.toNat ≤ 127 then pure b1.toNat
  else do
    let lb ← goSlice b 2 (2 + (b1.toNat : Int) - 128)
    pure (lb.foldl (fun a x => a * 256 + x.toNat) 0)

/-! ## kadmin.Reply.Unmarshal -/

inductive ReplyParts where
  | krbError (der : Bytes)
  | apRepAndPriv (apRep priv : Bytes)
  deriving Repr, DecidableEq

/-- the slicing of `Reply.Unmarshal` (the DER decoders it hands the slices to are the asn1 package's) -/
def replySlices (b : Bytes) : Outcome ReplyParts :=
  if b.length < 6 then err "too short"
  else do
    let msgLen ← be16At b 0
    let version ← be16At b 2
    if version ≠ 1 then err "version"
    else do
      let apLen ← be16At b 4
      if msgLen > b.length ∨ 6 + apLen > msgLen then err "lengths"
      else if apLen ≠ 0 then do
        let ap ← goSlice b 6 (6 + (apLen : Int))
        let pr ← goSlice b (6 + (apLen : Int)) msgLen
        pure (.apRepAndPriv ap pr)
      else do
        let e ← goSlice b 6 msgLen
        pure (.krbError e)

def replySlices_v0 (b : Bytes) : Outcome ReplyParts := do
  let msgLen ← be16At b 0
  let version ← be16At b 2
  if version ≠ 1 then err "version"
  else do
    let apLen ← be16At b 4
    if apLen ≠ 0 then do
      let ap ← goSlice b 6 (6 + (apLen : Int))
      let pr ← goSlice b (6 + (apLen : Int)) msgLen
      pure (.apRepAndPriv ap pr)
    else do
      let e ← goSlice b 6 msgLen
      pure (.krbError e)

/-- `parseResponse`: result code and text -/
def parseResponse (b : Bytes) : Outcome (Nat × Bytes) :=
  if b.length < 2 then ok (2, [])
  else do
    let c ← be16At b 0
    let rest ← goSliceFrom b 2
    pure (c, rest)

def parseResponse_v0 (b : Bytes) : Outcome (Nat × Bytes) := do
  let c ← be16At b 0
  let rest ← goSliceFrom b 2
  pure (c, rest)

/-! ## DecryptMessage: the split into body and tag -/

/-- rfc3962 / rfc3961 / rfc8009 `DecryptMessage`: integrity tag of `macLen` bytes at the end, at least a
    confounder in front (after the repair ac9b43b) -/
def splitTag (ct : Bytes) (confLen macLen : Nat) : Outcome (Bytes × Bytes) :=
  if ct.length < confLen + macLen then err "too short"
  else do
    let body ← goSliceTo ct ((ct.length : Int) - macLen)
    let tag ← goSliceFrom ct ((ct.length : Int) - macLen)
    pure (body, tag)

def splitTag_v0 (ct : Bytes) (macLen : Nat) : Outcome (Bytes × Bytes) := do
  let body ← goSliceTo ct ((ct.length : Int) - macLen)
  let tag ← goSliceFrom ct ((ct.length : Int) - macLen)
  pure (body, tag)

/-! ## the TCP reply of a KDC -/

/-- `dialSendTCP` reads the 4-byte length the peer announces and then copies that many bytes
    (`io.CopyN` into a growing buffer, after the repair fba7114): what it allocates is bounded by what
    actually arrives, not by the announcement -/
def tcpReplyAlloc (announced arrived : Nat) : Nat := min announced arrived

/-- before: `make([]byte, announced)` -/
def tcpReplyAlloc_v0 (announced _arrived : Nat) : Nat := announced

/-! ## string-to-key iteration count -/

def maxIterations : Nat := 0x1000000

/-- iterations the client is willing to run for a count taken from (unauthenticated) KDC hints -/
def iterationsAccepted (n : Nat) : Option Nat := if n > maxIterations then none else some n

/-! ## pac.UPNDNSInfo.Unmarshal: the two fields sliced out of the buffer -/

/-- the slicing after the header: lengths and offsets are 16-bit values from the buffer; the bound check
    is done on ints, and (after the repair) so is the arithmetic of the slice expressions -/
def upnSlices (b : Bytes) (upnLen upnOff dnsLen dnsOff : Nat) : Outcome (Bytes × Bytes) :=
  if upnOff + upnLen > b.length ∨ dnsOff + dnsLen > b.length then err "outside"
  else do
    let u ← goSlice b upnOff ((upnOff : Int) + upnLen)
    let d ← goSlice b dnsOff ((dnsOff : Int) + dnsLen)
    pure (u, d)

/-- before the repair the end of each slice was computed in uint16 arithmetic -/
def upnSlices_v0 (b : Bytes) (upnLen upnOff dnsLen dnsOff : Nat) : Outcome (Bytes × Bytes) :=
  if upnOff + upnLen > b.length ∨ dnsOff + dnsLen > b.length then err "outside"
  else do
    let u ← goSlice b upnOff (((upnOff + upnLen) % 65536 : Nat) : Int)
    let d ← goSlice b dnsOff (((dnsOff + dnsLen) % 65536 : Nat) : Int)
    pure (u, d)

end Krb.Total
