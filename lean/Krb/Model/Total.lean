/-
  C04 — the hand-written byte slicing of the library's decoders, transliterated with Go's partial
  operations made explicit (`goIdx`, `goSlice` crash exactly where the Go runtime panics), as the code is
  now and (`…_v0`) as it was before the repairs:
    asn1tools.GetLengthFromASN / GetNumberBytesInLengthHeader, messages.unmarshalTicketsSequence's header
    skip, kadmin.Reply.Unmarshal + parseResponse, the length guards of DecryptMessage (rfc3962 / rfc3961 /
    rfc8009 / rfc4757), the TCP reply reader of client/network.go, string-to-key iteration counts.
-/
import Krb.Base.Outcome
namespace Krb.Total
open Krb Krb.Outcome

def be16At (b : Bytes) (i : Int) : Outcome Nat := do
  let s ← goSlice b i (i + 2)
  pure (s.foldl (fun a x => a * 256 + x.toNat) 0)

/-! ## asn1tools -/

/-- `GetNumberBytesInLengthHeader` -/
def numLenBytes (b : Bytes) : Outcome Nat :=
  if b.length < 2 then ok 0
  else do
    let b1 ← goIdx b 1
    if b1.toNat ≤ 127 then pure 1 else pure (1 + b1.toNat - 128)

def numLenBytes_v0 (b : Bytes) : Outcome Nat := do
  let b1 ← goIdx b 1
  if b1.toNat ≤ 127 then pure 1 else pure (1 + b1.toNat - 128)

/-- `GetLengthFromASN` -/
def lengthFromASN (b : Bytes) : Outcome Nat :=
  if b.length < 2 then ok 0
  else do
    let b1 ← goIdx b 1
    if b1.toNat ≤ 127 then pure b1.toNat
    else if 2 + (b1.toNat : Int) - 128 > b.length then pure 0
    else do
      let lb ← goSlice b 2 (2 + (b1.toNat : Int) - 128)
      pure (lb.foldl (fun a x => a * 256 + x.toNat) 0)

def lengthFromASN_v0 (b : Bytes) : Outcome Nat := do
  let b1 ← goIdx b 1
  if b1.toNat ≤ 127 then pure b1.toNat
  else do
    let lb ← goSlice b 2 (2 + (b1.toNat : Int) - 128)
    pure (lb.foldl (fun a x => a * 256 + x.toNat) 0)

/-! ## kadmin.Reply.Unmarshal -/

inductive ReplyParts where
  | krbError (der : Bytes)
  | apRepAndPriv (apRep priv : Bytes)
  deriving Repr, DecidableEq

/-- the slicing of `Reply.Unmarshal` (the DER decoders it hands the slices to are the asn1 package's) -/
def replySlices (b : Bytes) : Outcome ReplyParts :=
  if b.length < 6 then err "too short"
  else do
    let msgLen ← be16At b 0
    let version ← be16At b 2
    if version ≠ 1 then err "version"
    else do
      let apLen ← be16At b 4
      if msgLen > b.length ∨ 6 + apLen > msgLen then err "lengths"
      else if apLen ≠ 0 then do
        let ap ← goSlice b 6 (6 + (apLen : Int))
        let pr ← goSlice b (6 + (apLen : Int)) msgLen
        pure (.apRepAndPriv ap pr)
      else do
        let e ← goSlice b 6 msgLen
        pure (.krbError e)

def replySlices_v0 (b : Bytes) : Outcome ReplyParts := do
  let msgLen ← be16At b 0
  let version ← be16At b 2
  if version ≠ 1 then err "version"
  else do
    let apLen ← be16At b 4
    if apLen ≠ 0 then do
      let ap ← goSlice b 6 (6 + (apLen : Int))
      let pr ← goSlice b (6 + (apLen : Int)) msgLen
      pure (.apRepAndPriv ap pr)
    else do
      let e ← goSlice b 6 msgLen
      pure (.krbError e)

/-- `parseResponse`: result code and text -/
def parseResponse (b : Bytes) : Outcome (Nat × Bytes) :=
  if b.length < 2 then ok (2, [])
  else do
    let c ← be16At b 0
    let rest ← goSliceFrom b 2
    pure (c, rest)

def parseResponse_v0 (b : Bytes) : Outcome (Nat × Bytes) := do
  let c ← be16At b 0
  let rest ← goSliceFrom b 2
  pure (c, rest)

/-! ## DecryptMessage: the split into body and tag -/

/-- rfc3962 / rfc3961 / rfc8009 `DecryptMessage`: integrity tag of `macLen` bytes at the end, at least a
    confounder in front (after the repair ac9b43b) -/
def splitTag (ct : Bytes) (confLen macLen : Nat) : Outcome (Bytes × Bytes) :=
  if ct.length < confLen + macLen then err "too short"
  else do
    let body ← goSliceTo ct ((ct.length : Int) - macLen)
    let tag ← goSliceFrom ct ((ct.length : Int) - macLen)
    pure (body, tag)

def splitTag_v0 (ct : Bytes) (macLen : Nat) : Outcome (Bytes × Bytes) := do
  let body ← goSliceTo ct ((ct.length : Int) - macLen)
  let tag ← goSliceFrom ct ((ct.length : Int) - macLen)
  pure (body, tag)

/-! ## the TCP reply of a KDC -/

/-- `dialSendTCP` reads the 4-byte length the peer announces and then copies that many bytes
    (`io.CopyN` into a growing buffer, after the repair fba7114): what it allocates is bounded by what
    actually arrives, not by the announcement -/
def tcpReplyAlloc (announced arrived : Nat) : Nat := min announced arrived

/-- before: `make([]byte, announced)` -/
def tcpReplyAlloc_v0 (announced _arrived : Nat) : Nat := announced

/-! ## string-to-key iteration count -/

def maxIterations : Nat := 0x1000000

/-- iterations the client is willing to run for a count taken from (unauthenticated) KDC hints -/
def iterationsAccepted (n : Nat) : Option Nat := if n > maxIterations then none else some n

/-- the number of iterations a 32-bit s2kparams value stands for (RFC 3962 §4, which RFC 8009 §4 refers to):
    four zero octets mean 2^32 iterations -/
def iterationsOfParam (p : Nat) : Nat := if p = 0 then 4294967296 else p

/-- before the repair: the value was taken as it is, and PBKDF2 run with a count of zero yields the
    one-iteration key -/
def iterationsOfParam_v0 (p : Nat) : Nat := p

/-! ## pac.UPNDNSInfo.Unmarshal: the two fields sliced out of the buffer -/

/-- the slicing after the header: lengths and offsets are 16-bit values from the buffer; the bound check
    is done on ints, and (after the repair) so is the arithmetic of the slice expressions -/
def upnSlices (b : Bytes) (upnLen upnOff dnsLen dnsOff : Nat) : Outcome (Bytes × Bytes) :=
  if upnOff + upnLen > b.length ∨ dnsOff + dnsLen > b.length then err "outside"
  else do
    let u ← goSlice b upnOff ((upnOff : Int) + upnLen)
    let d ← goSlice b dnsOff ((dnsOff : Int) + dnsLen)
    pure (u, d)

/-- before the repair the end of each slice was computed in uint16 arithmetic -/
def upnSlices_v0 (b : Bytes) (upnLen upnOff dnsLen dnsOff : Nat) : Outcome (Bytes × Bytes) :=
  if upnOff + upnLen > b.length ∨ dnsOff + dnsLen > b.length then err "outside"
  else do
    let u ← goSlice b upnOff (((upnOff + upnLen) % 65536 : Nat) : Int)
    let d ← goSlice b dnsOff (((dnsOff + dnsLen) % 65536 : Nat) : Int)
    pure (u, d)

/-! ## keytab.Keytab.Unmarshal: the walk over the records of the file -/

/-- a 32-bit signed integer from four octets in the byte order of the file's format version -/
def i32 (le : Bool) (s : Bytes) : Int :=
  let u : Nat := (if le then s.reverse else s).foldl (fun a x => a * 256 + x.toNat) 0
  if u ≥ 2147483648 then (u : Int) - 4294967296 else u

/-- `readInt32(b, &n, …)`: both bounds are checked before the slice expression -/
def readI32 (b : Bytes) (n : Int) (le : Bool) : Outcome (Int × Int) :=
  if n < 0 then err "negative"
  else if n + 4 > b.length then err "short"
  else do
    let s ← goSlice b n (n + 4)
    pure (i32 le s, n + 4)

/-- Go's `l * -1` on an int32: the least value is its own negation -/
def neg32 (l : Int) : Int := if l = -2147483648 then -2147483648 else -l

/-- the record walk from position `n` with the record length `l` just read: the byte ranges of the
    entries in file order. A negative length is a hole that is skipped; the fields of an entry are read
    from its own slice by readers that check every bound (readInt8/16/32, readBytes). Fuel: one unit
    per record; every record moves `n` forward by at least 4, so `b.length` units are always enough. -/
def walk (b : Bytes) (le : Bool) : Nat → Int → Int → Outcome (List Bytes)
  | 0, _, _ => ok []
  | f+1, n, l =>
    if l = 0 then ok []
    else
      let step : Outcome (Int × List Bytes) :=
        if l < 0 then ok (n + neg32 l, [])
        else if n < 0 then err "negative"
        else if n + l > b.length then err "short"
        else do
          let eb ← goSlice b n (n + l)
          pure (n + l, [eb])
      step >>= fun (n', es) =>
        -- `if n < 0 || n > len(b) || len(b[n:]) < 4 { break }`: b[n:] is only evaluated when 0 ≤ n ≤ len(b)
        if n' < 0 ∨ n' > b.length then ok es
        else
          goSliceFrom b n' >>= fun tail =>
            if tail.length < 4 then ok es
            else
              readI32 b n' le >>= fun (l', n'') =>
                walk b le f n'' l' >>= fun rest => ok (es ++ rest)

/-- `Keytab.Unmarshal` up to the entries' own fields -/
def ktRecords (b : Bytes) (littleEndianHost : Bool) : Outcome (List Bytes) :=
  if b.length < 2 then err "short"
  else do
    let b0 ← goIdx b 0
    if b0 ≠ 5 then err "first-byte"
    else do
      let ver ← goIdx b 1
      if ver ≠ 1 ∧ ver ≠ 2 then err "version"
      else if b.length = 2 then ok []
      else
        let le : Bool := ver == 1 && littleEndianHost
        readI32 b 2 le >>= fun (l, n) => walk b le b.length n l

end Krb.Total
