/-
  C11 — state shared by goroutines: the service-ticket cache and the TGT sessions of a client (each
  guarded by one lock, every method one critical section), and the order in which configured servers are
  tried (`config.randServOrder`).
-/
import Krb.Base.Bytes
namespace Krb.Shared
open Krb

/-! ## server order -/

/-- remove the element at index i by swapping it with the last one and truncating (order of the rest
    changes, as in the Go code) -/
def swapRemove (l : List Nat) (i : Nat) : List Nat :=
  match l.getLast? with
  | none => []
  | some last => (l.set i last).dropLast

/-- `randServOrder` on a copy of the configured list, the random choices given: at each step the choice
    is reduced modulo the number of servers left -/
def randServOrder : List Nat → List Nat → List Nat
  | [], _ => []
  | x :: xs, [] => x :: xs                                   -- (no more choices: keep the order; never reached)
  | x :: xs, c :: cs =>
    let l := x :: xs
    let i := c % l.length
    l.getD i x :: randServOrder (swapRemove l i) cs
termination_by l _ => l.length
decreasing_by
  simp only [swapRemove, List.getLast?_cons_cons, List.length_cons]
  cases h : (x :: xs).getLast? with
  | none => simp
  | some last => simp [List.length_dropLast, List.length_set]

/-! ## the ticket cache under concurrency -/

/-- what the KDC issued together -/
structure Pair where
  ticket : Nat
  key : Nat
  deriving Repr, DecidableEq

/-- one atomic step of some goroutine on the shared cache -/
inductive Step where
  | add (spn : Nat) (p : Pair)          -- Cache.addEntry: one critical section stores ticket and key
  | clear                               -- Cache.clear
  | remove (spn : Nat)
  deriving Repr, DecidableEq

abbrev Cache := List (Nat × Pair)

def step (c : Cache) : Step → Cache
  | .add spn p => (spn, p) :: c.filter (·.1 ≠ spn)
  | .clear => []
  | .remove spn => c.filter (·.1 ≠ spn)

def get (c : Cache) (spn : Nat) : Option Pair := (c.find? (·.1 = spn)).map (·.2)

/-- any interleaving of the goroutines is a sequence of atomic steps -/
def run (c : Cache) (steps : List Step) : Cache := steps.foldl step c

/-! the unguarded variant: ticket and key written in two steps (witness model) -/
inductive Step0 where
  | setTicket (spn : Nat) (t : Nat)
  | setKey (spn : Nat) (k : Nat)
  deriving Repr, DecidableEq

def step0 (c : Cache) : Step0 → Cache
  | .setTicket spn t => (spn, { ticket := t, key := ((c.find? (·.1 = spn)).map (·.2.key)).getD 0 }) :: c.filter (·.1 ≠ spn)
  | .setKey spn k => (spn, { ticket := ((c.find? (·.1 = spn)).map (·.2.ticket)).getD 0, key := k }) :: c.filter (·.1 ≠ spn)

end Krb.Shared
