/-
  Independent byte-level acceptor: from the raw AP-REQ bytes, a keytab and the service settings to the
  verdict, using only the RFC codec (`Asn1.Rfc`), the RFC crypto (`Crypto.decrypt`), the keytab lookup
  rule, the PAC rules and the decision logic `ApReq.verifyCore`.  This is the "independent acceptor
  holding the service key" of C01 / C03 / C18.
-/
import Krb.Asn1.Rfc4120
import Krb.Crypto.Spec
import Krb.Model.Keytab
import Krb.Model.Pac
import Krb.Model.ApReq
namespace Krb.Acceptor
open Krb Krb.Asn1 Krb.Crypto Krb.ApReq

/-! ## small helpers on decoded values -/

def fld (v : Val) (i : Nat) : Option Val :=
  match v with
  | .seq fs => (fs.getD i none)
  | _ => none

def asInt : Val → Option Int | .int i => some i | _ => none
def asBytes : Val → Option Bytes | .bytes b => some b | _ => none
def asList : Val → Option (List Val) | .list l => some l | _ => none

/-- days from civil date (proleptic Gregorian) to 1970-01-01 -/
def daysFromCivil (y m d : Int) : Int :=
  let y' := if m ≤ 2 then y - 1 else y
  let era := (if y' ≥ 0 then y' else y' - 399) / 400
  let yoe := y' - era * 400
  let mp := (m + 9) % 12
  let doy := (153 * mp + 2) / 5 + d - 1
  let doe := yoe * 365 + yoe / 4 - yoe / 100 + doy
  era * 146097 + doe - 719468

def digit (c : UInt8) : Option Int := if 48 ≤ c.toNat ∧ c.toNat ≤ 57 then some (c.toNat - 48) else none

def num (b : Bytes) : Option Int := b.foldlM (fun a c => (digit c).map (fun d => a * 10 + d)) 0

/-- KerberosTime "YYYYMMDDHHMMSSZ" → seconds since the epoch -/
def parseTime (b : Bytes) : Option Int :=
  if b.length = 15 ∧ b.getD 14 0 = 90 then do
    let y ← num (b.take 4); let mo ← num ((b.drop 4).take 2); let d ← num ((b.drop 6).take 2)
    let h ← num ((b.drop 8).take 2); let mi ← num ((b.drop 10).take 2); let s ← num ((b.drop 12).take 2)
    pure (daysFromCivil y mo d * 86400 + h * 3600 + mi * 60 + s)
  else none

def decodePName (v : Val) : Option PName := do
  let nt ← (fld v 0) >>= asInt
  let l ← (fld v 1) >>= asList
  let comps ← l.mapM asBytes
  pure { nameType := nt, comps := comps }

/-- the first TLV of `b` decoded under `t`; trailing bytes are ignored (des3 padding, as Go does) -/
def decodePrefix (t : Ty) (b : Bytes) : Option Val :=
  match decTLV (b.length + 1) b with
  | some (tlv, _) => ofTLV 64 t tlv
  | none => none

structure TicketOpen where
  part : EncTicketPart
  authData : List (Int × Bytes)
  deriving Repr

def typedEntry (v : Val) : Option (Int × Bytes) := do
  let t ← (fld v 0) >>= asInt
  let d ← (fld v 1) >>= asBytes
  pure (t, d)

/-- bit 7 (INVALID) of a KerberosFlags bit string; a bit beyond a short string is unset -/
def invalidFlag (v : Val) : Bool :=
  match v with
  | .bits _ (b0 :: _) => b0 &&& 1 != 0
  | _ => false

def decodeEncTicketPart (v : Val) : Option TicketOpen := do
  let key ← fld v 1
  let kt ← (fld key 0) >>= asInt
  let kv ← (fld key 1) >>= asBytes
  let crealm ← (fld v 2) >>= asBytes
  let cname ← (fld v 3) >>= decodePName
  let startUs ← (match fld v 6 with
    | none => some none
    | some sv => (asBytes sv >>= parseTime).map (fun s => some (s * 1000000)))
  let endS ← (fld v 7) >>= asBytes >>= parseTime
  let caddr ← (match fld v 9 with
    | none => some []
    | some av => asList av >>= (fun l => l.mapM typedEntry))
  let ad ← (match fld v 10 with
    | none => some []
    | some av => asList av >>= (fun l => l.mapM typedEntry))
  let flags ← fld v 0
  pure { part := { invalid := invalidFlag flags, keyType := kt, key := kv, crealm, cname,
                   startUs, endUs := endS * 1000000, caddr }, authData := ad }

/-- `Ticket.GetPACType`: the PAC inside the first AD-IF-RELEVANT whose first element is AD-WIN2K-PAC -/
def findPAC : List (Int × Bytes) → Option Bytes
  | [] => none
  | (ty, d) :: rest =>
    if ty = 1 then
      match decodePrefix Rfc.authorizationData d with
      | some (.list (first :: _)) =>
        match typedEntry first with
        | some (128, pac) => some pac
        | _ => findPAC rest
      | _ => findPAC rest
    else findPAC rest

def etypeOf (i : Int) : Option EType := if i < 0 then none else EType.ofId i.toNat

structure Input where
  kt : List Keytab.Entry
  settings : Settings
  override : Option (List Bytes)
  nowUs : Int
  replay : Bool
  kvOk : Bytes → Bool

/-- the whole acceptor -/
def accept (P : Prims) (inp : Input) (apreq : Bytes) : Verdict :=
  match decode Rfc.apReq apreq with
  | none => .reject "decode"
  | some v =>
    match (fld v 1) >>= asInt, fld v 3, fld v 4 with
    | some mt, some tkt, some eauth =>
      if mt ≠ 14 then .reject "msgtype" else
      match (fld tkt 1) >>= asBytes, (fld tkt 2) >>= decodePName, fld tkt 3 with
      | some realm, some sname, some enc =>
        match (fld enc 0) >>= asInt, (fld enc 2) >>= asBytes with
        | some et, some cipher =>
          let kvno : Int := ((fld enc 1) >>= asInt).getD 0
          let name := inp.override.getD sname.comps
          -- key selection: sname (or override), ticket realm, kvno, etype
          let key : Option Bytes :=
            if et < 0 ∨ kvno < 0 then none
            else (Keytab.Impl.getKey inp.kt realm name kvno.toNat et.toNat).map (·.1)
          let opened : Option TicketOpen :=
            match key, etypeOf et with
            | some k, some e =>
              (decrypt P e k 2 cipher) >>= (decodePrefix Rfc.encTicketPart) >>= decodeEncTicketPart
            | _, _ => none
          match opened with
          | none => verifyCore inp.settings inp.nowUs none none inp.replay
          | some t =>
            -- PAC: verified with the same long-term key
            let pacStatus : Option Bool :=
              match findPAC t.authData, key with
              | some pacBytes, some k => some (Pac.process P inp.kvOk k pacBytes == .ok)
              | _, _ => none
            let usage : Nat := if sname.comps.head? = some "krbtgt".toUTF8.toList then 7 else 11
            let auth : Option Authenticator :=
              match (fld eauth 0) >>= asInt, (fld eauth 2) >>= asBytes, etypeOf t.part.keyType with
              | some aet, some ac, some ke =>
                -- Go decrypts with the etype of the session key, whatever the EncryptedData says
                let _ := aet
                match (decrypt P ke t.part.key usage ac) >>= (decodePrefix Rfc.authenticator) with
                | none => none
                | some av =>
                  match (fld av 1) >>= asBytes, (fld av 2) >>= decodePName, (fld av 4) >>= asInt,
                        (fld av 5) >>= asBytes >>= parseTime with
                  | some cr, some cn, some cusec, some ct =>
                    some { crealm := cr, cname := cn, ctimeUs := ct * 1000000 + cusec }
                  | _, _, _, _ => none
              | _, _, _ => none
            verifyCore inp.settings inp.nowUs (some { t.part with pac := pacStatus }) auth inp.replay
        | _, _ => .reject "decode"
      | _, _, _ => .reject "decode"
    | _, _, _ => .reject "decode"

end Krb.Acceptor
