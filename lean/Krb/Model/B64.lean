/-
  C20 — renderings of byte strings in which a secret can show: base64 (RFC 4648, both alphabets) and
  hexadecimal, and the part of a secret that its base64 rendering shows whatever surrounds it (`core`).
  The harness searches every output for `encode (core r s)`, r = 0, 1, 2, as computed by these definitions.
-/
namespace Krb.B64

abbrev Bytes := List UInt8

def alphabet (url : Bool) : List Char :=
  "ABCDEFGHIJKLMNOPQRSTUVWXYZabcdefghijklmnopqrstuvwxyz0123456789".toList ++ (if url then ['-', '_'] else ['+', '/'])

def sym (url : Bool) (n : Nat) : Char := (alphabet url).getD (n % 64) 'A'

def enc3 (url : Bool) (a b c : UInt8) : List Char :=
  let n := a.toNat * 65536 + b.toNat * 256 + c.toNat
  [sym url (n / 262144), sym url (n / 4096), sym url (n / 64), sym url n]

/-- base64 (RFC 4648) with padding; `url` selects the URL-safe alphabet -/
def encode (url : Bool) : Bytes → List Char
  | a :: b :: c :: rest => enc3 url a b c ++ encode url rest
  | [a, b] => (enc3 url a b 0).take 3 ++ ['=']
  | [a] => (enc3 url a 0 0).take 2 ++ ['=', '=']
  | [] => []

/-- the part of a secret that is encoded on its own when the secret starts at an offset ≡ r (mod 3) of the
    encoded data: skip to the next group boundary, keep whole groups -/
def core (r : Nat) (s : Bytes) : Bytes :=
  let k := (3 - r % 3) % 3
  let t := s.drop k
  t.take (3 * (t.length / 3))

def hexDigit (upper : Bool) (n : Nat) : Char :=
  (if upper then "0123456789ABCDEF".toList else "0123456789abcdef".toList).getD (n % 16) '0'

def hex (upper : Bool) (b : Bytes) : List Char := b.flatMap (fun x => [hexDigit upper (x.toNat / 16), hexDigit upper x.toNat])

end Krb.B64
