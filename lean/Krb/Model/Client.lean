/-
  C10 — the client's ticket bookkeeping: v8/client/cache.go (GetCachedTicket, renewTicket, addEntry),
  v8/client/session.go (addSession, ensureValidSession, refreshSession, renewTGT, the auto-renewal
  timer), v8/client/client.go (Login, realmLogin), v8/client/TGSExchange.go (TGSExchange with its
  referral loop, GetServiceTicket) and the retry logic of v8/client/ASExchange.go.

  The KDC is the environment: every request the client sends is answered by the next element of a
  list of replies (what a KDC answered in a recorded run, or anything at all in the theorems).  The model
  emits the requests it sends, so a recorded run can be compared request by request.  Times are integer
  nanoseconds (Go's time.Duration arithmetic); an absent renew-till is Go's zero time.
-/
import Krb.Base.Bytes
namespace Krb.Client
open Krb

abbrev Name := List Bytes

structure Tkt where
  id : Nat
  issuer : Bytes              -- Ticket.Realm
  sname : Name
  authNs : Int
  startNs : Int
  endNs : Int
  renewTill : Option Int
  deriving Repr, DecidableEq

inductive Reply where
  | issued (t : Tkt)
  | error (code : Nat)
  deriving Repr, DecidableEq

inductive ReqKind where | as | tgs
  deriving Repr, DecidableEq

structure Req where
  kind : ReqKind
  realm : Bytes               -- the realm whose KDC is contacted
  sname : Name
  renew : Bool := false
  pa : Bool := false          -- AS: carries PA-ENC-TIMESTAMP
  tktId : Nat := 0            -- TGS: the ticket presented
  deriving Repr, DecidableEq

structure Sess where
  realm : Bytes
  authNs : Int
  endNs : Int
  renewTill : Option Int
  tgt : Tkt
  timerAt : Option Int        -- when the auto-renewal goroutine of this session wakes up next
  deriving Repr, DecidableEq

structure State where
  clientRealm : Bytes
  sessions : List Sess := []
  cache : List (Bytes × Tkt) := []        -- keyed by strings.Join(sname, "/")
  assumePA : Bool := false
  deriving Repr, DecidableEq

/-- the running computation: state, requests sent so far (latest last), replies not yet consumed -/
structure Run where
  st : State
  sent : List Req := []
  replies : List (Req × Reply)     -- what the KDC answers to which request (first match is consumed)
  deriving Repr

/-- "krbtgt" -/
def krbtgt : Bytes := [107, 114, 98, 116, 103, 116]

def lower (b : Bytes) : Bytes := b.map (fun c => if 65 ≤ c.toNat ∧ c.toNat ≤ 90 then c + 32 else c)

/-- PrincipalNameString -/
def spnOf (n : Name) : Bytes := (n.intersperse [47]).flatten

def before? (now : Int) (t : Option Int) : Bool := match t with | some x => decide (now < x) | none => false

def getSess (s : State) (realm : Bytes) : Option Sess := s.sessions.find? (·.realm = realm)

def putSess (s : State) (x : Sess) : State :=
  { s with sessions := x :: s.sessions.filter (·.realm ≠ x.realm) }

def cacheGet (s : State) (k : Bytes) : Option Tkt := (s.cache.find? (·.1 = k)).map (·.2)

def cachePut (s : State) (t : Tkt) : State :=
  let k := spnOf t.sname
  { s with cache := (k, t) :: s.cache.filter (·.1 ≠ k) }

/-- the auto-renewal goroutine's wait: w = (end - now) * 5 / 6 (Go's truncating division); it ends when
    w ≤ 0, that is when end - now ≤ 1 ns -/
def timerFor (now endNs : Int) : Option Int :=
  if endNs - now ≤ 1 then none else some (now + (endNs - now) * 5 / 6)

/-- `addSession`: only for a TGT; replaces the session of the realm named in the TGT and starts its timer -/
def addSession (s : State) (now : Int) (t : Tkt) : State :=
  match t.sname with
  | [] => s
  | first :: _ =>
    if lower first ≠ krbtgt then s
    else
      let realm := t.sname.getLast?.getD []
      putSess s { realm, authNs := t.authNs, endNs := t.endNs, renewTill := t.renewTill, tgt := t,
                  timerAt := timerFor now t.endNs }

def takeReply (q : Req) : List (Req × Reply) → Option (Reply × List (Req × Reply))
  | [] => none
  | (q', x) :: rest =>
    if q' = q then some (x, rest)
    else (takeReply q rest).map (fun (y, r) => (y, (q', x) :: r))

/-- send one request, take the KDC's answer to it -/
def send (r : Run) (q : Req) : Run × Option Reply :=
  match takeReply q r.replies with
  | none => ({ r with sent := r.sent ++ [q] }, none)
  | some (x, rest) => ({ r with sent := r.sent ++ [q], replies := rest }, some x)

/-- `ASExchange` for the client's own realm: one retry with pre-authentication on
    KDC_ERR_PREAUTH_REQUIRED (25) / KDC_ERR_PREAUTH_FAILED (24) -/
def asExchange (r : Run) : Run × Option Tkt :=
  let realm := r.st.clientRealm
  let q : Req := { kind := .as, realm, sname := [krbtgt, realm], pa := r.st.assumePA }
  match send r q with
  | (r1, some (.issued t)) => (r1, some t)
  | (r1, some (.error code)) =>
    if code = 25 ∨ code = 24 then
      let r2 := { r1 with st := { r1.st with assumePA := true } }
      match send r2 { q with pa := true } with
      | (r3, some (.issued t)) => (r3, some t)
      | (r3, _) => (r3, none)
    else (r1, none)
  | (r1, none) => (r1, none)

/-- `Login` -/
def login (r : Run) (now : Int) : Run × Bool :=
  match asExchange r with
  | (r1, some t) => ({ r1 with st := addSession r1.st now t }, true)
  | (r1, none) => (r1, false)

/-- `TGSExchange`: `fuel` = referrals still allowed + 1 (7 at the top: `referral > 5` is refused) -/
def tgsExchange : Nat → Run → Int → Name → Bytes → Tkt → Bool → Run × Option Tkt
  | 0, r, _, _, _, _, _ => (r, none)
  | fuel+1, r, now, sname, kdcRealm, tgt, renewal =>
    match send r { kind := .tgs, realm := kdcRealm, sname, renew := renewal, tktId := tgt.id } with
    | (r1, some (.issued t)) =>
      match t.sname with
      | [] => (r1, none)                                   -- empty SName: refused (after the repair)
      | first :: _ =>
        if first = krbtgt ∧ t.sname ≠ sname then
          -- a referral: remember the TGT, go on to the realm it is for
          if fuel = 0 then (r1, none)
          else
            let r2 := { r1 with st := addSession r1.st now t }
            tgsExchange fuel r2 now sname (t.sname.getLast?.getD []) t renewal
        else ({ r1 with st := cachePut r1.st t }, some t)
    | (r1, _) => (r1, none)

def referralFuel : Nat := 7

mutual
/-- `realmLogin` (fuel: nesting of session set-up; two levels are all the code can reach) -/
def realmLogin : Nat → Run → Int → Bytes → Run × Bool
  | 0, r, _, _ => (r, false)
  | fuel+1, r, now, realm =>
    if realm = r.st.clientRealm then login r now
    else
      -- make sure there is a TGT of the client's own realm
      let (r1, ok1) :=
        match getSess r.st r.st.clientRealm with
        | some own => if now > own.endNs then login r now else (r, true)
        | none => login r now
      if ¬ ok1 then (r1, false)
      else
        match ensureValidSession fuel r1 now r1.st.clientRealm with
        | (r2, false) => (r2, false)
        | (r2, true) =>
          match getSess r2.st r2.st.clientRealm with
          | none => (r2, false)
          | some own =>
            match tgsExchange referralFuel r2 now [krbtgt, realm] r2.st.clientRealm own.tgt false with
            | (r3, some t) => ({ r3 with st := addSession r3.st now t }, true)
            | (r3, none) => (r3, false)
/-- `refreshSession`: (renewal?, ok?) -/
def refreshSession : Nat → Run → Int → Sess → Run × Bool × Bool
  | 0, r, _, _ => (r, false, false)
  | fuel+1, r, now, s =>
    if before? now s.renewTill then
      -- renewTGT: at the KDC of the realm that issued the TGT
      match tgsExchange referralFuel r now [krbtgt, s.realm] s.tgt.issuer s.tgt true with
      | (r1, some t) =>
        -- s.update: same session object, same timer
        let s' : Sess := { s with authNs := t.authNs, endNs := t.endNs, renewTill := t.renewTill, tgt := t }
        ({ r1 with st := { r1.st with sessions := r1.st.sessions.map (fun x => if x.realm = s.realm then { s' with timerAt := x.timerAt } else x) } }, true, true)
      | (r1, none) => (r1, true, false)
    else
      let (r1, ok) := realmLogin fuel r now s.realm
      (r1, false, ok)
/-- `ensureValidSession` -/
def ensureValidSession : Nat → Run → Int → Bytes → Run × Bool
  | 0, r, _, _ => (r, false)
  | fuel+1, r, now, realm =>
    match getSess r.st realm with
    | some s =>
      let d := (s.endNs - s.authNs) / 6
      if s.endNs - now > d then (r, true)
      else
        let (r1, _, ok) := refreshSession fuel r now s
        (r1, ok)
    | none => realmLogin fuel r now realm
end

def setupFuel : Nat := 8

inductive CacheDecision where
  | serve | renew | miss
  deriving Repr, DecidableEq

/-- the decision of `GetCachedTicket` on an entry -/
def cacheDecision (now : Int) (e : Tkt) : CacheDecision :=
  if e.startNs < now ∧ now < e.endNs then .serve
  else if before? now e.renewTill then .renew
  else .miss

/-- `GetCachedTicket` -/
def getCached (r : Run) (now : Int) (spn : Bytes) : Run × Option Tkt :=
  match cacheGet r.st spn with
  | none => (r, none)
  | some e =>
    match cacheDecision now e with
    | .serve => (r, some e)
    | .miss => (r, none)
    | .renew =>
      -- renewTicket: the ticket itself is presented, to the realm that issued it
      match tgsExchange referralFuel r now e.sname e.issuer e true with
      | (r1, some _) => (r1, cacheGet r1.st (spnOf e.sname))
      | (r1, none) => (r1, none)

/-- `GetServiceTicket(spn)`; `realm` is what `Config.ResolveRealm` says for the SPN's host ("" unknown) -/
def getServiceTicket (r : Run) (now : Int) (sname : Name) (resolved : Bytes) : Run × Option Tkt :=
  match getCached r now (spnOf sname) with
  | (r1, some t) => (r1, some t)
  | (r1, none) =>
    let realm := if resolved = [] then r1.st.clientRealm else resolved
    match ensureValidSession setupFuel r1 now realm with
    | (r2, false) => (r2, none)
    | (r2, true) =>
      match getSess r2.st realm with
      | none => (r2, none)
      | some s => tgsExchange referralFuel r2 now sname realm s.tgt false

/-- one wake-up of the auto-renewal goroutine of the session for `realm` at time `at` -/
def fireTimer (r : Run) (at_ : Int) (realm : Bytes) : Run :=
  match getSess r.st realm with
  | none => r
  | some s =>
    let (r1, renewal, ok) := refreshSession setupFuel r at_ s
    if ¬ renewal ∧ ok then
      -- a new login replaced the session (with its own timer); this goroutine ends
      r1
    else
      -- loop: wait again, on the (possibly updated) end time of the same session
      match getSess r1.st realm with
      | none => r1
      | some s1 =>
        { r1 with st := { r1.st with sessions := r1.st.sessions.map (fun x => if x.realm = realm then { x with timerAt := timerFor at_ s1.endNs } else x) } }

/-- the earliest timer at or before `target` (ties: the session listed first) -/
def nextTimer (s : State) (target : Int) : Option (Int × Bytes) :=
  s.sessions.foldl (fun acc x =>
    match x.timerAt with
    | none => acc
    | some t =>
      if t > target then acc
      else match acc with
        | none => some (t, x.realm)
        | some (t0, _) => if t < t0 then some (t, x.realm) else acc) none

/-- the clock moves from `now` to `now + d`: timers fire in order -/
def sleep : Nat → Run → Int → Run
  | 0, r, _ => r
  | fuel+1, r, target =>
    match nextTimer r.st target with
    | none => r
    | some (t, realm) => sleep fuel (fireTimer r t realm) target

end Krb.Client
