/-
  A model of the reflection decoder `gofork/encoding/asn1` as the code is written (not of DER as the
  standard is written): `parseTagAndLength`, `parseBase128Int`, `parseField` with its explicit-tag
  unwrapping, OPTIONAL skipping, RawValue handling, struct and SEQUENCE OF handling, for the Go types
  that the SPNEGO and KRB5 mechanism-token wrappers use.  Where the Go decoder is more lenient than
  DER the model is lenient in the same way:
    * the length of an EXPLICIT wrapper is never compared with anything,
    * bytes after the last field of a struct are ignored,
    * `rest` returned by Unmarshal starts after the parsed element, wherever the wrapper said it ends.
  Errors are `none` (the callers only distinguish error / no error).
-/
import Krb.Base.Bytes
namespace Krb.GoAsn1
open Krb

structure Hdr where
  cls : Nat
  compound : Bool
  tag : Nat
  len : Nat
  deriving Repr, DecidableEq

/-- `parseBase128Int`: at most four septets -/
def parseBase128 : Bytes → Nat → Nat → Option (Nat × Bytes)
  | [], _, _ => none
  | x :: rest, shifted, acc =>
    if shifted = 4 then none
    else
      let acc' := acc * 128 + (x &&& 0x7f).toNat
      if x &&& 0x80 = 0 then some (acc', rest) else parseBase128 rest (shifted + 1) acc'

/-- the length octets of the long form -/
def parseLenBytes : Nat → Bytes → Nat → Option (Nat × Bytes)
  | 0, b, acc => some (acc, b)
  | _+1, [], _ => none
  | n+1, x :: rest, acc =>
    if acc ≥ 2 ^ 23 then none
    else
      let a := acc * 256 + x.toNat
      if a = 0 then none else parseLenBytes n rest a

/-- `parseTagAndLength` -/
def parseHdr : Bytes → Option (Hdr × Bytes)
  | [] => none
  | b :: r =>
    let cls := b.toNat / 64
    let compound := b &&& 0x20 = 0x20
    let low := (b &&& 0x1f).toNat
    let tagged : Option (Nat × Bytes) :=
      if low = 0x1f then
        match parseBase128 r 0 0 with
        | some (t, r') => if t < 0x1f then none else some (t, r')
        | none => none
      else some (low, r)
    match tagged with
    | none => none
    | some (_, []) => none
    | some (tag, l :: r2) =>
      if l &&& 0x80 = 0 then some ({ cls, compound, tag, len := (l &&& 0x7f).toNat }, r2)
      else
        let k := (l &&& 0x7f).toNat
        if k = 0 then none
        else
          match parseLenBytes k r2 0 with
          | none => none
          | some (len, r3) => if len < 0x80 then none else some ({ cls, compound, tag, len }, r3)

/-- the Go destination types used by the wrappers -/
inductive GTy where
  | oid | bits | octets | enum | raw
  | struct (fields : List ((Bool × Bool × Bool × Option Nat) × GTy))   -- (optional, explicit, application, tag)
  | sliceOf (elem : GTy)
  deriving Repr, Inhabited

abbrev Params := Bool × Bool × Bool × Option Nat
def Params.optional (p : Params) := p.1
def Params.explicit (p : Params) := p.2.1
def Params.application (p : Params) := p.2.2.1
def Params.tag (p : Params) := p.2.2.2
def noParams : Params := (false, false, false, none)

inductive GVal where
  | oid (arcs : List Nat)
  | bits (padding : Nat) (b : Bytes)
  | bytes (b : Bytes)
  | int (i : Int)
  | raw (cls : Nat) (tag : Nat) (compound : Bool) (content : Bytes)
  | struct (fs : List GVal)
  | list (vs : List GVal)
  | absent
  deriving Repr, Inhabited

/-- `parseObjectIdentifier` -/
def parseOIDrest : Nat → Bytes → Option (List Nat)
  | 0, _ => none
  | _+1, [] => some []
  | f+1, b =>
    match parseBase128 b 0 0 with
    | none => none
    | some (v, r) => (parseOIDrest f r).map (v :: ·)

def parseOID (b : Bytes) : Option (List Nat) :=
  match b with
  | [] => none
  | _ =>
    match parseBase128 b 0 0 with
    | none => none
    | some (v, r) =>
      let first := if v < 80 then [v / 40, v % 40] else [2, v - 80]
      (parseOIDrest (r.length + 1) r).map (first ++ ·)

/-- `parseBitString` -/
def parseBits (b : Bytes) : Option (Nat × Bytes) :=
  match b with
  | [] => none
  | p :: rest =>
    let pad := p.toNat
    if pad > 7 ∨ (rest = [] ∧ pad > 0) ∨ ((b.getLast?.getD 0).toNat % (2 ^ pad) ≠ 0) then none
    else some (pad, rest)

/-- `parseInt32` (with `checkInteger`) -/
def parseInt32 (b : Bytes) : Option Int :=
  match b with
  | [] => none
  | [x] => some (if x ≥ 128 then (x.toNat : Int) - 256 else x.toNat)
  | x :: y :: _ =>
    if (x = 0 ∧ y &&& 0x80 = 0) ∨ (x = 0xff ∧ y &&& 0x80 = 0x80) then none
    else if b.length > 8 then none
    else
      let n : Nat := b.foldl (fun a c => a * 256 + c.toNat) 0
      let v : Int := if x ≥ 128 then (n : Int) - (2 ^ (8 * b.length) : Nat) else n
      if v < -2147483648 ∨ v > 2147483647 then none else some v

/-- universal tag and compound flag of a Go type (`getUniversalType`) -/
def univOf : GTy → Nat × Bool
  | .oid => (6, false) | .bits => (3, false) | .octets => (4, false) | .enum => (10, false)
  | .raw => (0, false) | .struct _ => (16, true) | .sliceOf _ => (16, true)

mutual
/-- `parseField(v, bytes, offset, params)` on the slice `bytes[offset:]`; returns the value and
    `bytes[newOffset:]` -/
def parseField : Nat → GTy → Params → Bytes → Option (GVal × Bytes)
  | 0, _, _, _ => none
  | fuel+1, ty, p, b =>
    if b = [] then (if p.optional then some (.absent, b) else none)
    else
    match ty with
    | .raw =>
      match parseHdr b with
      | none => none
      | some (t, r) => if t.len > r.length then none else some (.raw t.cls t.tag t.compound (r.take t.len), r.drop t.len)
    | _ =>
      match parseHdr b with
      | none => none
      | some (t0, r0) =>
        -- explicit unwrapping
        let unwrapped : Option (Option (Hdr × Bytes)) :=    -- none: error; some none: absent (optional)
          if p.explicit then
            let expCls := if p.application then 1 else 2
            if r0 = [] then none
            else if t0.cls = expCls ∧ some t0.tag = p.tag ∧ (t0.len = 0 ∨ t0.compound) then
              if t0.len > 0 then (parseHdr r0).map some else none
            else if p.optional then some none else none
          else some (some (t0, r0))
        match unwrapped with
        | none => none
        | some none => some (.absent, b)
        | some (some (t, r)) =>
          let (ut, uc) := univOf ty
          let expCls := if ¬ p.explicit ∧ p.tag.isSome then (if p.application then 1 else 2) else 0
          let expTag := if ¬ p.explicit ∧ p.tag.isSome then p.tag.getD 0 else ut
          if t.cls ≠ expCls ∨ t.tag ≠ expTag ∨ t.compound ≠ uc then
            (if p.optional then some (.absent, b) else none)
          else if t.len > r.length then none
          else
            let inner := r.take t.len
            let rest := r.drop t.len
            match ty with
            | .oid => (parseOID inner).map (fun a => (.oid a, rest))
            | .bits => (parseBits inner).map (fun (pd, bs) => (.bits pd bs, rest))
            | .octets => some (.bytes inner, rest)
            | .enum => (parseInt32 inner).map (fun i => (.int i, rest))
            | .struct fs => (parseFields fuel fs inner).map (fun vs => (.struct vs, rest))
            | .sliceOf e => (parseSeqOf fuel e inner).map (fun vs => (.list vs, rest))
            | .raw => none
def parseFields : Nat → List (Params × GTy) → Bytes → Option (List GVal)
  | 0, _, _ => none
  | _+1, [], _ => some []                -- trailing bytes of the SEQUENCE are ignored
  | fuel+1, (p, ty) :: fs, b =>
    match parseField fuel ty p b with
    | none => none
    | some (v, r) => (parseFields fuel fs r).map (v :: ·)
/-- `parseSequenceOf`: every element must carry exactly the element type's universal tag -/
def parseSeqOf : Nat → GTy → Bytes → Option (List GVal)
  | 0, _, _ => none
  | _+1, _, [] => some []
  | fuel+1, e, b =>
    match parseHdr b with
    | none => none
    | some (t, r) =>
      let (ut, uc) := univOf e
      if t.cls ≠ 0 ∨ t.compound ≠ uc ∨ t.tag ≠ ut then none
      else if t.len > r.length then none
      else
        match parseField fuel e noParams b with
        | none => none
        | some (v, r') => (parseSeqOf fuel e r').map (v :: ·)
end

/-- `asn1.UnmarshalWithParams(b, &v, params)`: the value and `rest` -/
def unmarshal (ty : GTy) (p : Params) (b : Bytes) : Option (GVal × Bytes) := parseField (b.length + 8) ty p b

end Krb.GoAsn1
