/-
  Independent byte-level verifier of KDC replies (C09, C10): from the raw reply, the outstanding
  request and the client's secret to the verdict, using only the RFC codec (`Asn1.Rfc`), the RFC
  string-to-key and crypto (`Crypto`), the hint selection rule (`S2K`), the keytab rule and the decision
  logic `KdcRep.asVerify` / `tgsVerify`.
-/
import Krb.Asn1.Rfc4120
import Krb.Crypto.Spec
import Krb.Model.Keytab
import Krb.Model.S2K
import Krb.Model.KdcRep
import Krb.Model.Acceptor
namespace Krb.ClientVerify
open Krb Krb.Asn1 Krb.Crypto Krb.KdcRep Krb.Acceptor

inductive Secret where
  | password (pw : Bytes) (chars : List Nat)
  | keytab (es : List Keytab.Entry)

/-- a reply, as far as the client gets with it -/
structure Opened where
  outer : Outer
  enc : Option Enc
  /-- session key and end time of the opened encrypted part (what the client goes on to use) -/
  key : Option (Int × Bytes) := none
  endUs : Int := 0
  deriving Repr

def pname (v : Val) : Option (List Bytes) := (decodePName v).map (·.comps)

def decodeEnc (v : Val) : Option (Enc × (Int × Bytes) × Int) := do
  let key ← fld v 0
  let kt ← (fld key 0) >>= asInt
  let kv ← (fld key 1) >>= asBytes
  let nonce ← (fld v 2) >>= asInt
  let auth ← (fld v 5) >>= asBytes >>= parseTime
  let start ← (match fld v 6 with
    | none => some none
    | some sv => (asBytes sv >>= parseTime).map (fun s => some (s * 1000000)))
  let endS ← (fld v 7) >>= asBytes >>= parseTime
  let srealm ← (fld v 9) >>= asBytes
  let sname ← (fld v 10) >>= pname
  let caddr ← (match fld v 11 with
    | none => some []
    | some av => asList av >>= (fun l => l.mapM typedEntry))
  pure ({ nonce, sname, srealm, caddr, authUs := auth * 1000000, startUs := start }, (kt, kv), endS * 1000000)

/-- EncASRepPart or EncTGSRepPart: either application tag is accepted for either reply (RFC 4120 5.4.2) -/
def decodeEncPart (b : Bytes) : Option Val :=
  match decodePrefix Rfc.encASRepPart b with
  | some v => some v
  | none => decodePrefix Rfc.encTGSRepPart b

/-- PA-DATA hints of the reply → (etype of the first entry when it names one, hint) -/
def hintOf (pa : Int × Bytes) : Option (Option Int × S2K.Hint) :=
  if pa.1 = 3 then some (none, { kind := .pwSalt, salt := pa.2, params := none })
  else if pa.1 = 11 then
    match decodePrefix Rfc.etypeInfo pa.2 with
    | some (.list (e :: _)) =>
      some ((fld e 0) >>= asInt, { kind := .info, salt := ((fld e 1) >>= asBytes).getD [], params := none,
                                   etype := (fld e 0) >>= asInt })
    | _ => none
  else if pa.1 = 19 then
    match decodePrefix Rfc.etypeInfo2 pa.2 with
    | some (.list (e :: _)) =>
      some ((fld e 0) >>= asInt, { kind := .info2, salt := ((fld e 1) >>= asBytes).getD [],
                                   params := (match (fld e 2) >>= asBytes with
                                              | some p => if p.length = 4 then some p else none
                                              | none => none),
                                   etype := (fld e 0) >>= asInt })
    | _ => none
  else none

def isHint (pa : Int × Bytes) : Bool := pa.1 = 3 ∨ pa.1 = 11 ∨ pa.1 = 19

/-- `crypto.GetKeyFromPassword` for the etype of the reply's encrypted part -/
def passwordKey (P : Prims) (pw : Bytes) (chars : List Nat) (cname : List Bytes) (realm : Bytes) (et : EType)
    (padata : List (Int × Bytes)) : Option Bytes :=
  let hs := padata.filter isHint
  match hs.mapM hintOf with
  | none => none                                  -- a hint that does not decode (or is empty): error
  | some hints =>
    let sel := S2K.Impl.select (hints.map (·.2))
    -- the hint that takes precedence naming another etype makes Go derive the key with that etype's
    -- string-to-key: not a reply this client can open (hints of lower precedence do not matter)
    if (match sel.etype with | some e => decide (e ≠ (et.id : Int)) | none => false) then none
    else
      let salt := if sel.salt = [] then realm ++ cname.flatten else sel.salt
      let iters : Option Nat :=
        match sel.params with
        | some p => parseIterations p
        | none => some (defaultIterations et)
      iters.map (fun n => stringToKey P et pw salt chars n)

def kdcRepFields (v : Val) : Option (List (Int × Bytes) × Outer × Int × Int × Bytes) := do
  let padata ← (match fld v 2 with
    | none => some []
    | some l => asList l >>= (fun l => l.mapM (fun e => do
        let t ← (fld e 0) >>= asInt; let d ← (fld e 1) >>= asBytes; pure (t, d))))
  let crealm ← (fld v 3) >>= asBytes
  let cname ← (fld v 4) >>= pname
  let tkt ← fld v 5
  let trealm ← (fld tkt 1) >>= asBytes
  let tsname ← (fld tkt 2) >>= pname
  let enc ← fld v 6
  let et ← (fld enc 0) >>= asInt
  let kvno : Int := ((fld enc 1) >>= asInt).getD 0
  let cipher ← (fld enc 2) >>= asBytes
  pure (padata, { cname, crealm, tktRealm := trealm, tktSName := tsname }, et, kvno, cipher)

/-- open an AS-REP with the client's long-term secret -/
def openAS (P : Prims) (sec : Secret) (reply : Bytes) : Option Opened :=
  match decodePrefix Rfc.asRep reply with
  | none => none
  | some v =>
    match (fld v 1) >>= asInt, kdcRepFields v with
    | some 11, some (padata, outer, et, kvno, cipher) =>
      let key : Option Bytes :=
        match etypeOf et with
        | none => none
        | some e =>
          match sec with
          | .password pw chars => passwordKey P pw chars outer.cname outer.crealm e padata
          | .keytab es =>
            if kvno < 0 then none
            else (Keytab.Impl.getKey es outer.crealm outer.cname kvno.toNat et.toNat).map (·.1)
      let opened := do
        let k ← key
        let e ← etypeOf et
        let pt ← decrypt P e k 3 cipher
        let ev ← decodeEncPart pt
        decodeEnc ev
      some (match opened with
        | some (enc, sk, endUs) => { outer, enc := some enc, key := some sk, endUs }
        | none => { outer, enc := none })
    | _, _ => none

/-- open a TGS-REP with the TGT session key (usage 8) -/
def openTGS (P : Prims) (sessKeyType : Int) (sessKey : Bytes) (reply : Bytes) : Option Opened :=
  match decodePrefix Rfc.tgsRep reply with
  | none => none
  | some v =>
    match (fld v 1) >>= asInt, kdcRepFields v with
    | some 13, some (_, outer, _, _, cipher) =>
      -- Go decrypts with the etype of the key it holds, whatever the EncryptedData says
      let opened := do
        let e ← etypeOf sessKeyType
        let pt ← decrypt P e sessKey 8 cipher
        let ev ← decodeEncPart pt
        decodeEnc ev
      some (match opened with
        | some (enc, sk, endUs) => { outer, enc := some enc, key := some sk, endUs }
        | none => { outer, enc := none })
    | _, _ => none

/-- KRBError.Unmarshal: the error code when the reply is a KRB-ERROR -/
def asKrbError (reply : Bytes) : Option Int :=
  match decodePrefix Rfc.krbError reply with
  | none => none
  | some v => if (fld v 1) >>= asInt = some 30 then (fld v 6) >>= asInt else none

end Krb.ClientVerify
