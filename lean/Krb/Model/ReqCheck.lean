/-
  C10 — what a well-formed AS-REQ / TGS-REQ of this client looks like (RFC 4120 5.4.1, 5.2.7.2, 5.5.1,
  7.5.1) given the configuration, the clock and the keys: a checker over the raw request bytes using the
  RFC codec and the RFC crypto, returning the list of deviations.
-/
import Krb.Asn1.Rfc4120
import Krb.Crypto.Spec
import Krb.Model.Acceptor
namespace Krb.ReqCheck
open Krb Krb.Asn1 Krb.Crypto Krb.Acceptor

structure Expect where
  options : Bytes                  -- the 4 octets of KDCOptions
  cname : List Bytes
  crealm : Bytes                   -- the client's realm
  realm : Bytes                    -- the realm field of the request body
  sname : List Bytes
  nowUs : Int
  lifetimeS : Int
  renewLifetimeS : Int             -- 0: no rtime
  etypes : List Int

/-- a KDC-REQ whose body is kept raw (the TGS authenticator checksum covers its DER) -/
def kdcReqRawBody : Ty := .seq [Rfc.req 1 .int, Rfc.req 2 .int, Rfc.opt 3 (.seqOf Rfc.paData), Rfc.req 4 .any]

def check (c : Bool) (msg : String) : List String := if c then [] else [msg]

def timeIs (v : Option Val) (s : Int) : Bool := (v >>= asBytes >>= parseTime) == some s

def floorSec (us : Int) : Int := us / 1000000

def checkBody (e : Expect) (b : Val) : List String :=
  check (match fld b 0 with | some (.bits 0 o) => o == e.options | _ => false) "kdc-options are not the configured ones" ++
  check (((fld b 1) >>= decodePName).map (·.comps) == some e.cname) "cname" ++
  check (((fld b 2) >>= asBytes) == some e.realm) "realm" ++
  check (((fld b 3) >>= decodePName).map (·.comps) == some e.sname) "sname" ++
  check ((fld b 4).isNone) "from present" ++
  check (timeIs (fld b 5) (floorSec e.nowUs + e.lifetimeS)) "till is not now + ticket_lifetime" ++
  check (if e.renewLifetimeS = 0 then (fld b 6).isNone else timeIs (fld b 6) (floorSec e.nowUs + e.renewLifetimeS))
    "rtime is not now + renew_lifetime" ++
  check (match (fld b 7) >>= asInt with | some n => 0 ≤ n ∧ n < 2147483648 | none => false) "nonce out of range" ++
  check (((fld b 8) >>= asList >>= (fun l => l.mapM asInt)) == some e.etypes) "etypes are not the configured ones, in order" ++
  check ((fld b 9).isNone) "addresses present although noaddresses is set"

/-- lists that RFC 4120 does not allow to be transmitted empty (5.4.1 padata "NOT empty"; 5.2.5 HostAddresses
    "always used as an OPTIONAL field and should not be empty"; an empty etype list or ticket list asks for
    nothing), in a KDC-REQ of either kind (`tgs` selects the application tag) -/
def shape (tgs : Bool) (req : Bytes) : List String :=
  match decode (if tgs then Rfc.tgsReq else Rfc.asReq) req with
  | none => ["KDC-REQ does not decode"]
  | some v =>
    let body := (fld v 3).getD (.seq [])
    check (match fld v 2 with | some (.list []) => false | _ => true)
      "padata is present but empty (RFC 4120 5.4.1: NOT empty)" ++
    check (match fld body 8 with | some (.list []) => false | _ => true) "etype list is empty" ++
    check (match fld body 9 with | some (.list []) => false | _ => true)
      "addresses are present but empty (RFC 4120 5.2.5: OPTIONAL, not empty)" ++
    check (match fld body 11 with | some (.list []) => false | _ => true) "additional-tickets are present but empty"

def paList (v : Val) : List (Int × Bytes) :=
  match fld v 2 with
  | some (.list l) => l.filterMap (fun x => do
      let t ← (fld x 0) >>= asInt; let d ← (fld x 1) >>= asBytes; pure (t, d))
  | _ => []

/-- AS-REQ: `key` = the client's long-term key (for the pre-authentication timestamp), `wantPA` whether
    the request is expected to carry PA-ENC-TIMESTAMP -/
def checkAS (P : Prims) (e : Expect) (et : EType) (key : Bytes) (wantPA : Bool) (req : Bytes) : List String :=
  match decode Rfc.asReq req with
  | none => ["AS-REQ does not decode"]
  | some v =>
    let pas := paList v
    let body := (fld v 3).getD (.seq [])
    check (((fld v 0) >>= asInt) == some 5) "pvno" ++
    check (((fld v 1) >>= asInt) == some 10) "msg-type" ++
    check (match fld v 2 with | some (.list []) => false | _ => true)
      "padata is present but empty (RFC 4120 5.4.1: NOT empty)" ++
    checkBody e body ++
    (match pas.find? (·.1 = 2) with
     | none => check (¬ wantPA) "PA-ENC-TIMESTAMP missing"
     | some (_, d) =>
       check wantPA "unexpected PA-ENC-TIMESTAMP" ++
       (match decode Rfc.encryptedData d with
        | none => ["PA-ENC-TIMESTAMP is not EncryptedData"]
        | some ed =>
          match (fld ed 2) >>= asBytes with
          | none => ["PA-ENC-TIMESTAMP has no cipher"]
          | some cipher =>
            check (((fld ed 0) >>= asInt) == some (et.id : Int)) "PA-ENC-TIMESTAMP etype" ++
            (match (decrypt P et key 1 cipher) >>= (decodePrefix Rfc.paEncTsEnc) with
             | none => ["PA-ENC-TIMESTAMP does not decrypt under the client's key with key usage 1"]
             | some ts =>
               check (timeIs (fld ts 0) (floorSec e.nowUs)) "patimestamp is not the current time" ++
               -- (the clock is only known to the second here: AS requests carry no other timestamp)
               check (match (fld ts 1) >>= asInt with | some u => 0 ≤ u ∧ u < 1000000 | none => true) "pausec out of range")))

/-- TGS-REQ: `key` = the session key of the ticket presented, `tktCipher` the opaque part of that ticket -/
def checkTGS (P : Prims) (e : Expect) (et : EType) (key : Bytes) (tktCipher : Bytes) (req : Bytes) : List String :=
  match decode Rfc.tgsReq req, decode (.app 12 kdcReqRawBody) req with
  | some v, some vr =>
    let body := (fld v 3).getD (.seq [])
    let rawBody : Bytes := match fld vr 3 with | some (.raw b) => b | _ => []
    check (((fld v 0) >>= asInt) == some 5) "pvno" ++
    check (((fld v 1) >>= asInt) == some 12) "msg-type" ++
    checkBody e body ++
    (match (paList v).find? (·.1 = 1) with
     | none => ["PA-TGS-REQ missing"]
     | some (_, d) =>
       match decode Rfc.apReq d with
       | none => ["PA-TGS-REQ is not an AP-REQ"]
       | some ap =>
         check (((fld ap 0) >>= asInt) == some 5 ∧ ((fld ap 1) >>= asInt) == some 14) "AP-REQ header" ++
         check ((((fld ap 3) >>= (fun t => fld t 3)) >>= (fun ed => fld ed 2) >>= asBytes) == some tktCipher)
           "the ticket in the AP-REQ is not the one the KDC issued" ++
         (match ((fld ap 4) >>= (fun ed => fld ed 2)) >>= asBytes with
          | none => ["no authenticator"]
          | some ac =>
            match (decrypt P et key 7 ac) >>= (decodePrefix Rfc.authenticator) with
            | none => ["the authenticator does not decrypt under the ticket's session key with key usage 7"]
            | some au =>
              check (((fld au 0) >>= asInt) == some 5) "authenticator-vno" ++
              check (((fld au 1) >>= asBytes) == some e.crealm) "authenticator crealm is not the client's realm" ++
              check (((fld au 2) >>= decodePName).map (·.comps) == some e.cname) "authenticator cname" ++
              check (timeIs (fld au 5) (floorSec e.nowUs)) "ctime is not the current time" ++
              check (((fld au 4) >>= asInt) == some (e.nowUs % 1000000)) "cusec" ++
              (match fld au 3 with
               | none => ["authenticator has no checksum"]
               | some ck =>
                 check (((fld ck 0) >>= asInt) == some et.cksumType) "checksum type is not the session key's" ++
                 check (((fld ck 1) >>= asBytes) == some (checksum P et key 6 rawBody))
                   "checksum is not the keyed checksum (usage 6) of the request body")))
  | _, _ => ["TGS-REQ does not decode"]

end Krb.ReqCheck
