/-
  C12 — KDC selection and transport fallback (v8/client/network.go: sendToKDC, sendKDCTCP/UDP,
  dialSendTCP/UDP, checkForKRBError).

  An endpoint is a (KDC index, transport) pair with a scripted behaviour.  `order` is the order in which
  the (shuffled) KDC list is walked for one transport; the TCP and UDP walks are shuffled
  independently.
-/
import Krb.Base.Bytes
namespace Krb.Net

/-- what an endpoint does with a request -/
inductive Beh where
  | answer                 -- a well-formed KDC reply (AS-REP / TGS-REP)
  | refuse                 -- connection refused / port unreachable
  | closeEarly             -- accepts, then closes without (enough of) a reply
  | silent                 -- never answers: the 5 s deadline expires
  | krbError (code : Nat)  -- answers with a KRB-ERROR; 52 = KRB_ERR_RESPONSE_TOO_BIG
  deriving Repr, DecidableEq

def tooBig : Nat := 52

/-- what the caller of `sendToKDC` gets -/
inductive Res where
  | ok (kdc : Nat) (tcp : Bool)   -- the reply bytes of that endpoint
  | krbErr (code : Nat)           -- a messages.KRBError carrying the KDC's code
  | commErr                       -- a communication error
  | emptyOk                       -- nil error with empty bytes (only the unrepaired code produces it)
  deriving Repr, DecidableEq

/-- an endpoint that delivers bytes ends the walk; the others make it move on -/
def replies : Beh → Bool
  | .answer => true
  | .krbError _ => true
  | _ => false

/-- `dialSendTCP` / `dialSendUDP`: walk the KDCs in order, stop at the first that delivers bytes.
    Returns that KDC (if any) and the list of KDCs contacted. -/
def dial (beh : Nat → Beh) : List Nat → Option Nat × List Nat
  | [] => (none, [])
  | k :: rest =>
    if replies (beh k) then (some k, [k])
    else
      let (r, tried) := dial beh rest
      (r, k :: tried)

/-- `sendKDCTCP` / `sendKDCUDP`: dial, then `checkForKRBError` -/
inductive One where
  | bytes (kdc : Nat)
  | krbErr (code : Nat)
  | fail
  deriving Repr, DecidableEq

def sendOne (beh : Nat → Beh) (order : List Nat) : One × List Nat :=
  match dial beh order with
  | (none, tried) => (.fail, tried)
  | (some k, tried) =>
    match beh k with
    | .krbError c => (.krbErr c, tried)
    | _ => (.bytes k, tried)

structure Out where
  res : Res
  tcpTried : List Nat
  udpTried : List Nat
  deriving Repr, DecidableEq

/-- `sendToKDC` after the fix -/
def sendToKDC (limit reqLen : Nat) (otcp oudp : List Nat) (tcp udp : Nat → Beh) : Out :=
  if limit = 1 then
    match sendOne tcp otcp with
    | (.bytes k, t) => { res := .ok k true, tcpTried := t, udpTried := [] }
    | (.krbErr c, t) => { res := .krbErr c, tcpTried := t, udpTried := [] }
    | (.fail, t) => { res := .commErr, tcpTried := t, udpTried := [] }
  else if reqLen ≤ limit then
    match sendOne udp oudp with
    | (.bytes k, u) => { res := .ok k false, tcpTried := [], udpTried := u }
    | (.krbErr c, u) =>
      if c ≠ tooBig then { res := .krbErr c, tcpTried := [], udpTried := u }
      else
        match sendOne tcp otcp with
        | (.bytes k, t) => { res := .ok k true, tcpTried := t, udpTried := u }
        | (.krbErr c', t) => { res := .krbErr c', tcpTried := t, udpTried := u }
        | (.fail, t) => { res := .commErr, tcpTried := t, udpTried := u }
    | (.fail, u) =>
      match sendOne tcp otcp with
      | (.bytes k, t) => { res := .ok k true, tcpTried := t, udpTried := u }
      | (.krbErr c', t) => { res := .krbErr c', tcpTried := t, udpTried := u }
      | (.fail, t) => { res := .commErr, tcpTried := t, udpTried := u }
  else
    match sendOne tcp otcp with
    | (.bytes k, t) => { res := .ok k true, tcpTried := t, udpTried := [] }
    | (.krbErr c, t) => { res := .krbErr c, tcpTried := t, udpTried := [] }
    | (.fail, t) =>
      match sendOne udp oudp with
      | (.bytes k, u) => { res := .ok k false, tcpTried := t, udpTried := u }
      | (.krbErr c, u) => { res := .krbErr c, tcpTried := t, udpTried := u }
      | (.fail, u) => { res := .commErr, tcpTried := t, udpTried := u }

/-- the unrepaired third branch: the UDP result was assigned to a shadowed variable -/
def sendToKDC_v0 (limit reqLen : Nat) (otcp oudp : List Nat) (tcp udp : Nat → Beh) : Out :=
  if limit ≠ 1 ∧ ¬ reqLen ≤ limit then
    match sendOne tcp otcp with
    | (.fail, t) =>
      match sendOne udp oudp with
      | (.bytes _, u) => { res := .emptyOk, tcpTried := t, udpTried := u }
      | (.krbErr c, u) => { res := .krbErr c, tcpTried := t, udpTried := u }
      | (.fail, u) => { res := .commErr, tcpTried := t, udpTried := u }
    | _ => sendToKDC limit reqLen otcp oudp tcp udp
  else sendToKDC limit reqLen otcp oudp tcp udp

end Krb.Net
