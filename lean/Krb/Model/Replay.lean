/-
  C02 — the service replay cache (v8/service/cache.go).

  Sequential model: `present` is `Cache.IsReplay` (one write-locked check-and-addSvc after the fix),
  `cleanup` is `Cache.ClearOldEntries`.  A client is an opaque key (the unambiguous rendering of client
  name and realm), a service an opaque key, times are integer microseconds.

  Concurrent model: threads are lists of atomic blocks over the shared cache; `IsReplay_v0` is the
  unrepaired four-section version (look-up under two read locks, second look-up, addSvc).
-/
import Krb.Base.Bytes
namespace Krb.Replay

structure Entry where
  client : Nat
  ctime : Int
  services : List Nat
  deriving Repr, DecidableEq

abbrev Cache := List Entry

/-- does the cache hold this (client, ctime, service)? -/
def holds (c : Cache) (cl : Nat) (ct : Int) (svc : Nat) : Bool :=
  c.any (fun e => decide (e.client = cl ∧ e.ctime = ct ∧ svc ∈ e.services))

/-- add the service to the entry for (client, ctime), creating the entry when there is none -/
def addSvc : Cache → Nat → Int → Nat → Cache
  | [], cl, ct, svc => [{ client := cl, ctime := ct, services := [svc] }]
  | e :: rest, cl, ct, svc =>
    if e.client = cl ∧ e.ctime = ct then { e with services := e.services ++ [svc] } :: rest
    else e :: addSvc rest cl ct svc

/-- `IsReplay(sname, authenticator)`: true = replay -/
def present (c : Cache) (cl : Nat) (ct : Int) (svc : Nat) : Cache × Bool :=
  if holds c cl ct svc then (c, true) else (addSvc c cl ct svc, false)

/-- `ClearOldEntries(d)` at time `now`: entries whose client time is older than d are dropped -/
def cleanup (c : Cache) (now d : Int) : Cache := c.filter (fun e => decide (¬ (now - e.ctime > d)))

inductive Op where
  | present (cl : Nat) (ct : Int) (svc : Nat)
  | cleanup (now d : Int)
  deriving Repr, DecidableEq

/-- one operation; the result of a presentation is `some replay?` -/
def step (c : Cache) : Op → Cache × Option Bool
  | .present cl ct svc => let (c', r) := present c cl ct svc; (c', some r)
  | .cleanup now d => (cleanup c now d, none)

def run (c : Cache) : List Op → Cache × List (Option Bool)
  | [] => (c, [])
  | op :: ops =>
    let (c', r) := step c op
    let (c'', rs) := run c' ops
    (c'', r :: rs)

/-! ## The unrepaired code as four atomic blocks per call (witness model) -/
namespace V0

/-- v0 cache: one service per (client, ctime) -/
structure Entry0 where
  client : Nat
  ctime : Int
  svc : Nat
  deriving Repr, DecidableEq

abbrev Cache0 := List Entry0

/-- per-thread progress of one `IsReplay_v0(cl, ct, svc)` call -/
inductive Pc where
  | lookup      -- getClientEntry: the two read-locked sections (merged: the map reference is shared)
  | add         -- AddEntry: write-locked addSvc
  | done (replay : Bool)
  deriving Repr, DecidableEq

structure Thread where
  cl : Nat
  ct : Int
  svc : Nat
  pc : Pc := .lookup
  deriving Repr, DecidableEq

def find (c : Cache0) (cl : Nat) (ct : Int) : Option Entry0 := c.find? (fun e => e.client == cl && e.ctime == ct)

/-- run the next atomic block of thread `t` -/
def stepThread (c : Cache0) (t : Thread) : Cache0 × Thread :=
  match t.pc with
  | .lookup =>
    match find c t.cl t.ct with
    | some e => if e.svc == t.svc then (c, { t with pc := .done true }) else (c, { t with pc := .add })
    | none => (c, { t with pc := .add })
  | .add =>
    -- overwrite or create the single entry for (client, ctime)
    ((c.filter (fun e => !(e.client == t.cl && e.ctime == t.ct))) ++ [{ client := t.cl, ctime := t.ct, svc := t.svc }],
     { t with pc := .done false })
  | .done r => (c, { t with pc := .done r })

def runSchedule (c : Cache0) (ts : List Thread) : List Nat → Cache0 × List Thread
  | [] => (c, ts)
  | i :: sched =>
    match ts[i]? with
    | none => runSchedule c ts sched
    | some t =>
      let (c', t') := stepThread c t
      runSchedule c' (ts.set i t') sched

end V0

/-! ## Atomic operations under an arbitrary schedule (the repaired code) -/

/-- thread i performs the single atomic operation `ops[i]`; a schedule is the order in which the
    threads get the lock.  Running the schedule is running the operations in that order. -/
def runAtomic (c : Cache) (ops : List Op) (order : List Nat) : Cache × List (Option Bool) :=
  run c (order.filterMap (fun i => ops[i]?))

end Krb.Replay
