/-
  C09 — client-side verification of KDC replies (v8/messages/KDCRep.go `ASRep.Verify`,
  `TGSRep.Verify`, v8/client/ASExchange.go, v8/client/TGSExchange.go).

  `asVerify` / `tgsVerify` are the decision logic on the *opened* reply: the outer (plaintext) fields and
  what decrypting + decoding the encrypted part under the client's key yielded (`none`: it did not
  decrypt or decode).  The byte-level verifier `ClientVerify.lean` produces these from raw bytes with the
  RFC codec, the RFC string-to-key and the RFC crypto.  Times are integer microseconds.
-/
import Krb.Base.Bytes
namespace Krb.KdcRep
open Krb

abbrev Addr := Int × Bytes

/-- the outstanding request -/
structure Req where
  cname : List Bytes
  realm : Bytes
  nonce : Int
  sname : List Bytes
  addrs : List Addr
  deriving Repr, DecidableEq

/-- the plaintext part of a KDC-REP -/
structure Outer where
  cname : List Bytes
  crealm : Bytes
  tktRealm : Bytes
  tktSName : List Bytes
  deriving Repr, DecidableEq

/-- EncKDCRepPart -/
structure Enc where
  nonce : Int
  sname : List Bytes
  srealm : Bytes
  caddr : List Addr
  authUs : Int
  startUs : Option Int
  deriving Repr, DecidableEq

/-- `types.HostAddressesEqual(h, a)`: same length and every requested address is listed -/
def AddrsEqual (h a : List Addr) : Prop := h.length = a.length ∧ ∀ e ∈ a, e ∈ h
instance (h a : List Addr) : Decidable (AddrsEqual h a) := by unfold AddrsEqual; infer_instance

/-- every address of the reply was asked for -/
def AddrsSubset (h a : List Addr) : Prop := ∀ e ∈ h, e ∈ a
instance (h a : List Addr) : Decidable (AddrsSubset h a) := by unfold AddrsSubset; infer_instance

def Within (skewUs nowUs tUs : Int) : Prop := nowUs - tUs ≤ skewUs ∧ tUs - nowUs ≤ skewUs
instance (s n t : Int) : Decidable (Within s n t) := by unfold Within; infer_instance

inductive Verdict where
  | ok
  | reject (why : String)
  deriving Repr, DecidableEq

/-- `ASRep.Verify` (without the RFC 6806 FAST negotiation branch, which only applies when the request
    carried PA-REQ-ENC-PA-REP) -/
def asVerify (skewUs nowUs : Int) (r : Req) (o : Outer) (enc : Option Enc) : Verdict :=
  if o.cname ≠ r.cname then .reject "cname"
  else if o.crealm ≠ r.realm then .reject "crealm"
  else
    match enc with
    | none => .reject "decrypt"
    | some e =>
      if e.nonce ≠ r.nonce then .reject "nonce"
      else if e.sname ≠ r.sname then .reject "sname"
      else if e.srealm ≠ r.realm then .reject "srealm"
      else if r.addrs ≠ [] ∧ ¬ AddrsEqual e.caddr r.addrs then .reject "addresses"
      else if ¬ Within skewUs nowUs e.authUs then .reject "skew"
      else .ok

/-- the start time (or, failing that, the authentication time) is within the skew; an absent start
    time is Go's zero time, which never is -/
def TgsTimeOk (skewUs nowUs : Int) (e : Enc) : Prop :=
  (match e.startUs with | some s => Within skewUs nowUs s | none => False) ∨ Within skewUs nowUs e.authUs
instance (s n : Int) (e : Enc) : Decidable (TgsTimeOk s n e) := by
  unfold TgsTimeOk; cases e.startUs <;> infer_instance

/-- `TGSRep.DecryptEncPart` + `TGSRep.Verify` + the checks of `Client.TGSExchange`
    (`clientRealm = none`: `TGSRep.Verify` alone) -/
def tgsVerify (skewUs nowUs : Int) (clientRealm : Option Bytes) (r : Req) (o : Outer) (enc : Option Enc) : Verdict :=
  match enc with
  | none => .reject "decrypt"
  | some e =>
    if o.cname ≠ r.cname then .reject "cname"
    else if o.tktRealm ≠ r.realm then .reject "ticket-realm"
    else if e.nonce ≠ r.nonce then .reject "nonce"
    else if e.srealm ≠ r.realm then .reject "srealm"
    else if ¬ AddrsSubset e.caddr r.addrs then .reject "addresses"
    else if ¬ TgsTimeOk skewUs nowUs e then .reject "skew"
    else
      match clientRealm with
      | none => .ok
      | some cr =>
        if o.crealm ≠ cr then .reject "crealm"
        else if o.tktSName = [] then .reject "empty-sname"
        else .ok

/-- before the repair the exchange did not look at the reply's crealm -/
def tgsVerify_v0 (skewUs nowUs : Int) (r : Req) (o : Outer) (enc : Option Enc) : Verdict :=
  tgsVerify skewUs nowUs none r o enc

namespace Spec

/-- RFC 4120 §3.1.5, as worded by the property -/
def ValidAS (skewUs nowUs : Int) (r : Req) (o : Outer) (enc : Option Enc) : Prop :=
  ∃ e, enc = some e ∧                                   -- decrypts under the client's own key
    e.nonce = r.nonce ∧                                  -- answers this request
    o.cname = r.cname ∧ o.crealm = r.realm ∧             -- for this client
    e.sname = r.sname ∧ e.srealm = r.realm ∧             -- for the requested server
    (r.addrs ≠ [] → AddrsEqual e.caddr r.addrs) ∧        -- addresses
    Within skewUs nowUs e.authUs                         -- KDC time

/-- RFC 4120 §3.3.4 -/
def ValidTGS (skewUs nowUs : Int) (clientRealm : Bytes) (r : Req) (o : Outer) (enc : Option Enc) : Prop :=
  ∃ e, enc = some e ∧                                   -- decrypts under the TGT session key
    e.nonce = r.nonce ∧
    o.cname = r.cname ∧ o.crealm = clientRealm ∧
    o.tktRealm = r.realm ∧ e.srealm = r.realm ∧ o.tktSName ≠ [] ∧
    AddrsSubset e.caddr r.addrs ∧
    TgsTimeOk skewUs nowUs e

end Spec

/-! ## what reaches the caller -/

inductive Outcome' where
  | success
  | krbError (code : Int)          -- the KDC's error, with its code
  | failure                        -- any other error
  deriving Repr, DecidableEq

/-- `sendToKDC` + `checkForKRBError` + Unmarshal + Verify: `asKrbError` is what `KRBError.Unmarshal`
    makes of the reply, `parsed` what `ASRep.Unmarshal` / `TGSRep.Unmarshal` does -/
def exchange (asKrbError : Option Int) (parsed : Option Verdict) : Outcome' :=
  match asKrbError with
  | some code => .krbError code
  | none =>
    match parsed with
    | some .ok => .success
    | _ => .failure

end Krb.KdcRep
