/-
  C01 — service-side AP-REQ verification (v8/messages/APReq.go `Verify`, v8/messages/Ticket.go `Valid`,
  v8/service/APExchange.go `VerifyAPREQ`).

  `verifyCore` is the decision logic on the *opened* request: what key selection + decryption + decoding
  of the ticket and of the authenticator yielded (the byte-level acceptor `Acceptor.lean` produces these
  from raw bytes with the RFC codec and the RFC crypto).  `Spec.Valid` is RFC 4120 §3.2.3 as the property
  words it.  Times are integer microseconds.
-/
import Krb.Base.Bytes
namespace Krb.ApReq
open Krb

structure PName where
  nameType : Int := 0
  comps : List Bytes := []
  deriving Repr, DecidableEq

structure EncTicketPart where
  invalid : Bool                    -- the INVALID flag (bit 7)
  keyType : Int
  key : Bytes
  crealm : Bytes
  cname : PName
  startUs : Option Int              -- starttime, when present
  endUs : Int
  caddr : List (Int × Bytes)
  pac : Option Bool := none         -- none: no PAC in the ticket; some ok: PAC present, verification result
  deriving Repr, DecidableEq

structure Authenticator where
  crealm : Bytes
  cname : PName
  ctimeUs : Int                     -- ctime + cusec
  deriving Repr, DecidableEq

structure Settings where
  skewUs : Int
  clientAddr : Option (Int × Bytes) := none
  requireHostAddr : Bool := false
  decodePAC : Bool := true
  deriving Repr, DecidableEq

inductive Verdict where
  | accept (cname : List Bytes) (crealm : Bytes) (validUntilUs : Int)
  | reject (code : String)
  deriving Repr, DecidableEq

/-- `PrincipalName.Equal`: the name type is not significant (RFC 4120 §6.2) -/
def NameEq (a b : PName) : Prop := a.comps = b.comps
instance (a b : PName) : Decidable (NameEq a b) := by unfold NameEq; infer_instance

/-- the ticket is not post-dated beyond the skew (a ticket without starttime starts at authtime) -/
def StartOk (s : Settings) (nowUs : Int) (t : EncTicketPart) : Prop :=
  match t.startUs with
  | some st => st - nowUs ≤ s.skewUs
  | none => True
instance (s : Settings) (nowUs : Int) (t : EncTicketPart) : Decidable (StartOk s nowUs t) := by
  unfold StartOk; cases t.startUs <;> infer_instance

/-- a ticket that lists addresses is only good for a configured client address among them -/
def AddrOk (s : Settings) (t : EncTicketPart) : Prop :=
  t.caddr = [] ∨ (match s.clientAddr with | some ca => ca ∈ t.caddr | none => False)
instance (s : Settings) (t : EncTicketPart) : Decidable (AddrOk s t) := by
  unfold AddrOk; cases s.clientAddr <;> infer_instance

/-- the order of checks of `APReq.Verify` followed by `VerifyAPREQ` (after the repair: crealm compared,
    identity taken from the ticket).
    `tkt = none`: no key in the keytab for (sname-or-override, realm, kvno, etype), or the ticket does
    not decrypt/decode under it.  `auth = none`: the authenticator does not decrypt under the ticket's
    session key with the AP-REQ key usage, or does not decode. -/
def verifyCore (s : Settings) (nowUs : Int) (tkt : Option EncTicketPart) (auth : Option Authenticator)
    (replay : Bool) : Verdict :=
  match tkt with
  | none => .reject "ticket"
  | some t =>
    if ¬ StartOk s nowUs t ∨ t.invalid = true then .reject "nyv"
    else if nowUs - t.endUs > s.skewUs then .reject "expired"
    else if ¬ AddrOk s t then .reject "badaddr"
    else
      match auth with
      | none => .reject "integrity"
      | some a =>
        if ¬ NameEq a.cname t.cname then .reject "badmatch"
        else if a.crealm ≠ t.crealm then .reject "badmatch"
        else if nowUs - a.ctimeUs > s.skewUs ∨ a.ctimeUs - nowUs > s.skewUs then .reject "skew"
        else if s.requireHostAddr = true ∧ t.caddr = [] then .reject "badaddr"
        else if replay = true then .reject "repeat"
        else if s.decodePAC = true ∧ t.pac = some false then .reject "pac"
        else .accept t.cname.comps t.crealm t.endUs

/-- the unrepaired logic: the realm of the authenticator is neither compared nor ignored — it is
    what the application is told -/
def verifyCore_v0 (s : Settings) (nowUs : Int) (tkt : Option EncTicketPart) (auth : Option Authenticator)
    (replay : Bool) : Verdict :=
  match verifyCore s nowUs tkt (auth.map (fun a => { a with crealm := (tkt.map (·.crealm)).getD [] })) replay, auth with
  | .accept cn _ vu, some a => .accept cn a.crealm vu
  | v, _ => v

namespace Spec

/-- RFC 4120 §3.2.3, as worded by the property -/
def Valid (s : Settings) (nowUs : Int) (tkt : Option EncTicketPart) (auth : Option Authenticator)
    (replay : Bool) : Prop :=
  ∃ t a, tkt = some t ∧ auth = some a ∧
    -- the current time lies inside the ticket's validity extended by the skew, and it is not INVALID
    StartOk s nowUs t ∧ t.invalid = false ∧ nowUs - t.endUs ≤ s.skewUs ∧
    -- the authenticator names the same client principal and realm and is timestamped within the skew
    a.cname.comps = t.cname.comps ∧ a.crealm = t.crealm ∧
    nowUs - a.ctimeUs ≤ s.skewUs ∧ a.ctimeUs - nowUs ≤ s.skewUs ∧
    -- every configured address requirement is met
    AddrOk s t ∧ (s.requireHostAddr = true → t.caddr ≠ []) ∧
    -- neither a replay nor a PAC that fails verification while PAC decoding is enabled
    replay = false ∧ ¬ (s.decodePAC = true ∧ t.pac = some false)

end Spec

end Krb.ApReq
