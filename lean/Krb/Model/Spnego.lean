/-
  Model of the SPNEGO acceptor side: spnego/http.go (SPNEGOKRB5Authenticate and its helpers),
  spnego/spnego.go (SPNEGOToken.Unmarshal / Verify, SPNEGO.AcceptSecContext),
  spnego/negotiationToken.go (UnmarshalNegToken, NegTokenInit.Verify, NegTokenResp.Verify) and
  spnego/krb5Token.go (KRB5Token.Unmarshal / Verify).

  `Impl` follows the Go control flow statement by statement over the Go-faithful decoder `GoAsn1`.
  `Spec` says what it means for an Authorization header to carry an accepted AP-REQ.  The AP-REQ
  acceptor itself (C01) and the Kerberos message decoders are parameters (`Env`).
-/
import Krb.Model.GoAsn1
import Krb.Base.Outcome
namespace Krb.Spnego
open Krb Krb.GoAsn1

def oidSPNEGO : List Nat := [1, 3, 6, 1, 5, 5, 2]
def oidKRB5 : List Nat := [1, 2, 840, 113554, 1, 2, 2]
def oidMSLegacy : List Nat := [1, 2, 840, 48018, 1, 2, 2]

/-- what the application is told about the caller -/
structure Identity where
  cname : List Bytes
  crealm : Bytes
  validUntilUs : Int
  deriving Repr, DecidableEq

/-- the parts of the world the SPNEGO layer calls into -/
structure Env where
  /-- `messages.APReq.Unmarshal` succeeds -/
  apReqParses : Bytes → Bool
  apRepParses : Bytes → Bool
  krbErrParses : Bytes → Bool
  /-- `service.VerifyAPREQ` on the parsed request (settings, clock, keytab, replay cache fixed) -/
  accept : Bytes → Option Identity

inductive Status where
  | complete | continueNeeded | defectiveToken | defectiveCredential | badMech | failure | unavailable
  deriving Repr, DecidableEq

/-! ## base64.StdEncoding.DecodeString -/

def b64val (c : UInt8) : Option Nat :=
  let n := c.toNat
  if 65 ≤ n ∧ n ≤ 90 then some (n - 65)
  else if 97 ≤ n ∧ n ≤ 122 then some (n - 97 + 26)
  else if 48 ≤ n ∧ n ≤ 57 then some (n - 48 + 52)
  else if n = 43 then some 62
  else if n = 47 then some 63
  else none

def b64quanta : Nat → Bytes → Option Bytes
  | 0, _ => none
  | _+1, [] => some []
  | fuel+1, a :: b :: c :: d :: rest =>
    match b64val a, b64val b with
    | some x, some y =>
      if c = 61 then       -- '='
        if d = 61 ∧ rest = [] then some [UInt8.ofNat ((x * 64 + y) / 16)] else none
      else
        match b64val c with
        | none => none
        | some z =>
          if d = 61 then
            if rest = [] then
              let v := (x * 64 + y) * 64 + z
              some [UInt8.ofNat (v / 1024), UInt8.ofNat (v / 4 % 256)]
            else none
          else
            match b64val d with
            | none => none
            | some w =>
              let v := ((x * 64 + y) * 64 + z) * 64 + w
              (b64quanta fuel rest).map (fun t => UInt8.ofNat (v / 65536) :: UInt8.ofNat (v / 256 % 256) :: UInt8.ofNat (v % 256) :: t)
    | _, _ => none
  | _+1, _ => none

/-- padded standard alphabet; CR and LF are skipped wherever they are (as Go does) -/
def b64decode (s : Bytes) : Option Bytes :=
  let t := s.filter (fun c => c ≠ 10 ∧ c ≠ 13)
  b64quanta (t.length + 1) t

/-! ## tokens -/

inductive K5Body where
  | apReq (der : Bytes) | apRep | krbError | unknown
  deriving Repr, DecidableEq

structure K5Tok where
  oid : List Nat
  body : K5Body
  deriving Repr, DecidableEq

structure NegInit where
  mechTypes : List (List Nat)
  mechToken : Option Bytes        -- none: Go's nil slice
  deriving Repr, DecidableEq

structure NegResp where
  supportedMech : List Nat
  responseToken : Option Bytes
  deriving Repr, DecidableEq

/-- SPNEGOToken after Unmarshal: exactly one of Init / Resp is set -/
inductive SpToken where
  | init (t : NegInit) | resp (t : NegResp)
  deriving Repr, DecidableEq

def appExplicit0 : Params := (false, true, true, some 0)
def expl (opt : Bool) (n : Nat) : Params := (opt, true, false, some n)

def tyNegInit : GTy := .struct [(expl false 0, .sliceOf .oid), (expl true 1, .bits), (expl true 2, .octets), (expl true 3, .octets)]
def tyNegResp : GTy := .struct [(expl false 0, .enum), (expl true 1, .oid), (expl true 2, .octets), (expl true 3, .octets)]

def optBytes : GVal → Option Bytes
  | .bytes b => some b
  | _ => none

namespace Impl

/-- `KRB5Token.Unmarshal` -/
def k5Unmarshal (E : Env) (b : Bytes) : Option K5Tok :=
  match unmarshal .oid appExplicit0 b with
  | some (.oid oid, r) =>
    if oid ≠ oidKRB5 then none
    else if r.length < 2 then none
    else
      let tokID := r.take 2
      let msg := r.drop 2
      if tokID = [1, 0] then (if E.apReqParses msg then some { oid, body := .apReq msg } else none)
      else if tokID = [2, 0] then (if E.apRepParses msg then some { oid, body := .apRep } else none)
      else if tokID = [3, 0] then (if E.krbErrParses msg then some { oid, body := .krbError } else none)
      else some { oid, body := .unknown }
  | _ => none

/-- `KRB5Token.Verify` -/
def k5Verify (E : Env) (t : K5Tok) : Bool × Status × Option Identity :=
  match t.body with
  | .apReq der =>
    match E.accept der with
    | some id => (true, .complete, some id)
    | none => (false, .defectiveToken, none)
  | .apRep => (false, .failure, none)
  | .krbError => (false, .unavailable, none)
  | .unknown => (false, .defectiveToken, none)

/-- the code before the repair: a KRB-ERROR token "verified" -/
def k5Verify_v0 (E : Env) (t : K5Tok) : Bool × Status × Option Identity :=
  match t.body with
  | .krbError => (true, .unavailable, none)
  | _ => k5Verify E t

/-- `UnmarshalNegToken` -/
def unmarshalNegToken (b : Bytes) : Option SpToken :=
  match unmarshal .raw noParams b with
  | some (.raw _ tag _ content, _) =>
    if tag = 0 then
      match unmarshal tyNegInit noParams content with
      | some (.struct [.list mts, _, tok, _], _) =>
        some (.init { mechTypes := mts.filterMap (fun v => match v with | .oid a => some a | _ => none),
                      mechToken := optBytes tok })
      | _ => none
    else if tag = 1 then
      match unmarshal tyNegResp noParams content with
      | some (.struct [_, mech, tok, _], _) =>
        some (.resp { supportedMech := (match mech with | .oid a => a | _ => []), responseToken := optBytes tok })
      | _ => none
    else none
  | _ => none

/-- `SPNEGOToken.Unmarshal` -/
def spUnmarshal (b : Bytes) : Option SpToken :=
  match b with
  | [] => none
  | x :: _ =>
    if x ≠ 161 then
      match unmarshal .oid appExplicit0 b with
      | some (.oid oid, r) => if oid ≠ oidSPNEGO then none else unmarshalNegToken r
      | _ => none
    else unmarshalNegToken b

def isKrbMech (o : List Nat) : Bool := o = oidKRB5 ∨ o = oidMSLegacy

/-- `NegTokenInit.Verify` -/
def initVerify (E : Env) (kv : Env → K5Tok → Bool × Status × Option Identity) (n : NegInit) :
    Bool × Status × Option Identity :=
  if n.mechTypes.any isKrbMech then
    match n.mechToken with
    | none => (false, .continueNeeded, none)
    | some tb =>
      match k5Unmarshal E tb with
      | none => (false, .defectiveToken, none)
      | some mt => kv E mt
  else (false, .badMech, none)

/-- `NegTokenResp.Verify` -/
def respVerify (E : Env) (kv : Env → K5Tok → Bool × Status × Option Identity) (n : NegResp) :
    Bool × Status × Option Identity :=
  if isKrbMech n.supportedMech then
    match n.responseToken with
    | none => (false, .continueNeeded, none)
    | some tb =>
      match k5Unmarshal E tb with
      | none => (false, .defectiveToken, none)
      | some mt => kv E mt
  else (false, .badMech, none)

/-- `SPNEGOToken.Verify` -/
def spVerify (E : Env) (kv : Env → K5Tok → Bool × Status × Option Identity) : SpToken → Bool × Status × Option Identity
  | .init n => initVerify E kv n
  | .resp n => respVerify E kv n

/-- `SPNEGO.AcceptSecContext` -/
def acceptSecContext (E : Env) (kv : Env → K5Tok → Bool × Status × Option Identity) (t : SpToken) :
    Outcome (Bool × Status × Option Identity) :=
  match t with
  | .init n =>
    match n.mechTypes with
    | [] => .ok (false, .badMech, none)
    | o :: _ => if isKrbMech o then .ok (spVerify E kv t) else .ok (false, .defectiveToken, none)
  | .resp n => if isKrbMech n.supportedMech then .ok (spVerify E kv t) else .ok (false, .defectiveToken, none)

/-- before the repair: `MechTypes[0]` on an empty list -/
def acceptSecContext_v0 (E : Env) (kv : Env → K5Tok → Bool × Status × Option Identity) (t : SpToken) :
    Outcome (Bool × Status × Option Identity) :=
  match t with
  | .init { mechTypes := [], .. } => .crash "index out of range [0] with length 0"
  | _ => acceptSecContext E kv t

end Impl

/-! ## the HTTP wrapper -/

/-- what `SessionMgr.Get` + `Credentials.Unmarshal` yield for the request -/
inductive Session where
  | noManager
  | getFails                 -- Get returns an error, nil or an empty value
  | malformed                -- the stored value does not decode
  | creds (authenticated : Bool) (id : Identity)
  deriving Repr, DecidableEq

inductive Challenge where
  | bare            -- "Negotiate"
  | incomplete      -- NegTokenResp accept-incomplete, KRB5
  | reject          -- NegTokenResp reject
  deriving Repr, DecidableEq

inductive Response where
  /-- the wrapped handler ran with this identity; `fresh` = authenticated by this request (the
      accept-completed header is set, a session was created when a manager is configured) -/
  | served (id : Identity) (fresh : Bool)
  | unauthorized (c : Challenge)
  | serverError
  | crashed
  deriving Repr, DecidableEq

structure Request where
  session : Session
  authorization : Bytes           -- the value of the Authorization header ("" when absent)
  newSessionFails : Bool          -- what SessionMgr.New will answer

/-- `getSessionCredentials` + `id.Authenticated()`: the identity of an established session -/
def sessionIdentity : Session → Option Identity
  | .creds true id => some id
  | _ => none

namespace Impl

/-- `strings.SplitN(h, " ", 2)` → (scheme, rest) when there is a space -/
def splitSpace : Bytes → Option (Bytes × Bytes)
  | [] => none
  | c :: rest =>
    if c = 32 then some ([], rest)
    else (splitSpace rest).map (fun (a, b) => (c :: a, b))

def negotiate : Bytes := "Negotiate".toUTF8.toList

/-- `getAuthorizationNegotiationHeaderAsSPNEGOToken`: the token or the 401 it answered with -/
def headerToken (E : Env) (h : Bytes) : Except Challenge SpToken :=
  match splitSpace h with
  | none => .error .bare
  | some (scheme, v) =>
    if scheme ≠ negotiate then .error .bare
    else
      match b64decode v with
      | none => .error .incomplete
      | some b =>
        match spUnmarshal b with
        | some st => .ok st
        | none =>
          match k5Unmarshal E b with
          | none => .error .incomplete
          | some k5 => .ok (.init { mechTypes := [k5.oid], mechToken := some b })

/-- the handler returned by `SPNEGOKRB5Authenticate` -/
def handle (E : Env) (kv : Env → K5Tok → Bool × Status × Option Identity)
    (acc : Env → (Env → K5Tok → Bool × Status × Option Identity) → SpToken → Outcome (Bool × Status × Option Identity))
    (r : Request) : Response :=
  match sessionIdentity r.session with
  | some id => .served id false
  | none =>
    match headerToken E r.authorization with
    | .error c => .unauthorized c
    | .ok st =>
      match acc E kv st with
      | .crash _ => .crashed
      | .err _ => .crashed
      | .ok (authed, status, id) =>
        if status ≠ .complete ∧ status ≠ .continueNeeded then .unauthorized .reject
        else if status = .continueNeeded then .unauthorized .incomplete
        else if authed then
          match id with
          | none => .crashed              -- the type assertion on a nil context value
          | some id =>
            if r.session ≠ .noManager ∧ r.newSessionFails then .serverError
            else .served id true
        else .unauthorized .reject

end Impl

/-! ## specification -/

namespace Spec

/-- the AP-REQ a KRB5 mechanism token carries (RFC 4121 4.1: [APPLICATION 0] { thisMech, TOK_ID 01 00, AP-REQ }) -/
def k5APReq (E : Env) (b : Bytes) : Option Bytes :=
  match Impl.k5Unmarshal E b with
  | some { body := .apReq der, .. } => some der
  | _ => none

/-- the AP-REQ a negotiation token puts forward for the Kerberos mechanism -/
def tokenAPReq (E : Env) : SpToken → Option Bytes
  | .init n =>
    match n.mechTypes with
    | [] => none
    | o :: _ => if Impl.isKrbMech o then n.mechToken.bind (k5APReq E) else none
  | .resp n =>
    if Impl.isKrbMech n.supportedMech then n.responseToken.bind (k5APReq E) else none

/-- the AP-REQ an Authorization header value carries: "Negotiate " + base64 of an SPNEGO token, or of a
    bare KRB5 mechanism token -/
def headerAPReq (E : Env) (h : Bytes) : Option Bytes :=
  match Impl.splitSpace h with
  | none => none
  | some (scheme, v) =>
    if scheme ≠ Impl.negotiate then none
    else
      match b64decode v with
      | none => none
      | some b =>
        match Impl.spUnmarshal b with
        | some st => tokenAPReq E st
        | none => k5APReq E b

end Spec
end Krb.Spnego
