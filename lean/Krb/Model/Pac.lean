/-
  C19 — MS-PAC buffer table, signature zeroing and server-signature verification
  (v8/pac/pac_type.go, signature_data.go, client_info.go) and the group-SID rule
  (kerb_validation_info.go).  NDR decoding of KERB_VALIDATION_INFO (jcmturner/rpc) is external: its
  success on the selected buffer is a parameter `kvOk`.
-/
import Krb.Crypto.Spec
namespace Krb.Pac
open Krb Krb.Crypto

structure InfoBuf where
  ulType : Nat
  size : Nat
  offset : Nat
  deriving Repr, DecidableEq

def dec64le (b : Bytes) : Option (Nat × Bytes) :=
  match dec32le b with
  | none => none
  | some (lo, r) =>
    match dec32le r with
    | none => none
    | some (hi, r') => some (hi * 4294967296 + lo, r')

/-- the buffer table entries -/
def parseBufs : Nat → Bytes → Option (List InfoBuf)
  | 0, _ => some []
  | n+1, b =>
    match dec32le b with
    | none => none
    | some (ty, r1) =>
      match dec32le r1 with
      | none => none
      | some (sz, r2) =>
        match dec64le r2 with
        | none => none
        | some (off, r3) =>
          match parseBufs n r3 with
          | none => none
          | some rest => some ({ ulType := ty, size := sz, offset := off } :: rest)

/-- `PACType.Unmarshal`: cBuffers, version, then cBuffers table entries.  (After the fix the count is
    checked against the input length first, so the table allocation is bounded by the input.) -/
def parseTable (b : Bytes) : Option (List InfoBuf) :=
  match dec32le b with
  | none => none
  | some (n, r) =>
    match dec32le r with
    | none => none
    | some (_ver, r') =>
      if n * 16 + 8 > b.length then none else parseBufs n r'

/-- signature length by declared type (`SignatureData.Unmarshal`); unknown types have length 0 -/
def sigLen (ty : Nat) : Nat :=
  if ty = 4294967158 then 16       -- KERB_CHECKSUM_HMAC_MD5 (−138 as uint32)
  else if ty = 15 then 12 else if ty = 16 then 12 else if ty = 19 then 16 else if ty = 20 then 24 else 0

/-- the checksum family of a declared signature type (`crypto.GetChksumEtype(int32(type))`) -/
def sigEtype (ty : Nat) : Option EType :=
  if ty = 4294967158 then some .rc4
  else if ty = 12 then some .des3 else if ty = 15 then some .aes128 else if ty = 16 then some .aes256
  else if ty = 19 then some .aes128sha2 else if ty = 20 then some .aes256sha2 else none

/-- the bytes of a buffer, when it lies inside the data -/
def bufBytes (data : Bytes) (bf : InfoBuf) : Option Bytes :=
  if bf.offset + bf.size ≤ data.length then some ((data.drop bf.offset).take bf.size) else none

/-- overwrite `n` bytes at `off` with zeros (positions beyond the end are left alone) -/
def zeroAt (data : Bytes) (off n : Nat) : Bytes :=
  data.take off ++ zeros (min n (data.length - off)) ++ data.drop (off + n)

/-- Go `copy(dst[off:off+len(q)], q)` for an in-range region -/
def overlay (dst : Bytes) (off : Nat) (q : Bytes) : Bytes :=
  dst.take off ++ q ++ dst.drop (off + q.length)

/-- what the signature cases of the loop do to ZeroSigData: the buffer's bytes (taken from the
    original data) with the signature field zeroed are copied over the buffer's region -/
def zeroSigRegion (zero : Bytes) (bf : InfoBuf) (p : Bytes) (c : Nat) : Bytes :=
  overlay zero bf.offset (zeroAt p 4 c)

/-- `SignatureData.Unmarshal` succeeds iff the buffer holds the type and the signature -/
structure Sig where
  ty : Nat
  sig : Bytes
  deriving Repr, DecidableEq

def parseSig (p : Bytes) : Option Sig :=
  match dec32le p with
  | none => none
  | some (ty, r) => if sigLen ty ≤ r.length then some { ty := ty, sig := r.take (sigLen ty) } else none

/-- `ClientInfo.Unmarshal`: FILETIME (8), name length (2), then that many bytes of UTF-16 -/
def clientInfoOk (p : Bytes) : Bool :=
  match p with
  | _ :: _ :: _ :: _ :: _ :: _ :: _ :: _ :: l0 :: l1 :: rest =>
    let n := l1.toNat * 256 + l0.toNat
    decide (n / 2 * 2 ≤ rest.length)
  | _ => false

/-- state of the `for _, buf := range pac.Buffers` loop -/
structure St where
  zero : Bytes                 -- ZeroSigData
  kv : Bool := false           -- KerbValidationInfo set
  server : Option Sig := none
  kdc : Option Sig := none
  client : Bool := false
  deriving Repr, DecidableEq

inductive Res where
  | ok
  | err (kind : String)
  deriving Repr, DecidableEq

/-- one loop iteration; `kvOk p` = the external NDR decoder accepts the buffer bytes `p` -/
def step (kvOk : Bytes → Bool) (data : Bytes) (s : St) (bf : InfoBuf) : Except String St :=
  match bufBytes data bf with
  | none => .error "buffer-range"
  | some p =>
    if bf.ulType = 1 then
      if s.kv then .ok s else if kvOk p then .ok { s with kv := true } else .error "kvinfo"
    else if bf.ulType = 6 then
      if s.server.isSome then .ok s
      else match parseSig p with
        | none => .error "serversig"
        | some g => .ok { s with server := some g, zero := zeroSigRegion s.zero bf p (sigLen g.ty) }
    else if bf.ulType = 7 then
      if s.kdc.isSome then .ok s
      else match parseSig p with
        | none => .error "kdcsig"
        | some g => .ok { s with kdc := some g, zero := zeroSigRegion s.zero bf p (sigLen g.ty) }
    else if bf.ulType = 10 then
      if s.client then .ok s else if clientInfoOk p then .ok { s with client := true } else .error "clientinfo"
    else .ok s      -- other buffer types: decode failures are logged and ignored

def loop (kvOk : Bytes → Bool) (data : Bytes) : St → List InfoBuf → Except String St
  | s, [] => .ok s
  | s, bf :: rest =>
    match step kvOk data s bf with
    | .error e => .error e
    | .ok s' => loop kvOk data s' rest

/-- `PACType.verify` -/
def verify (P : Prims) (key : Bytes) (s : St) : Res :=
  if !s.kv then .err "no-kvinfo"
  else match s.server with
    | none => .err "no-serversig"
    | some g =>
      if s.kdc.isNone then .err "no-kdcsig"
      else if !s.client then .err "no-clientinfo"
      else match sigEtype g.ty with
        | none => .err "sigtype"
        | some et => if verifyChecksum P et key 17 s.zero g.sig then .ok else .err "signature"

/-- `Unmarshal` + `ProcessPACInfoBuffers` -/
def process (P : Prims) (kvOk : Bytes → Bool) (key : Bytes) (data : Bytes) : Res :=
  match parseTable data with
  | none => .err "table"
  | some bufs =>
    match loop kvOk data { zero := data } bufs with
    | .error e => .err e
    | .ok s => verify P key s

/-! ## Specification side: what a signer does (MS-PAC §2.8) -/
namespace Spec

/-- the first buffer of a given type -/
def firstOf (ty : Nat) (bufs : List InfoBuf) : Option InfoBuf := bufs.find? (·.ulType = ty)

/-- the data with the signature fields of the server and KDC signature buffers zeroed -/
def zeroBoth (data : Bytes) (bufs : List InfoBuf) : Option Bytes := do
  let sb ← firstOf 6 bufs
  let kb ← firstOf 7 bufs
  let sp ← bufBytes data sb
  let kp ← bufBytes data kb
  let sg ← parseSig sp
  let kg ← parseSig kp
  pure (zeroAt (zeroAt data (sb.offset + 4) (sigLen sg.ty)) (kb.offset + 4) (sigLen kg.ty))

/-- the server signature an issuer computes for `data` under `key` -/
def serverSignature (P : Prims) (key : Bytes) (data : Bytes) : Option Bytes := do
  let bufs ← parseTable data
  let sb ← firstOf 6 bufs
  let sp ← bufBytes data sb
  let sg ← parseSig sp
  let et ← sigEtype sg.ty
  let z ← zeroBoth data bufs
  pure (checksum P et key 17 z)

end Spec

/-! ## group SIDs (`KerbValidationInfo.GetGroupMembershipSIDs`); SIDs are opaque strings here -/

def addIfNew (g : List String) (s : String) : List String := if g.contains s then g else g ++ [s]

def groupSids (domainRidSids extraSids resourceSids : List String) : List String :=
  (extraSids ++ resourceSids).foldl addIfNew domainRidSids

end Krb.Pac
