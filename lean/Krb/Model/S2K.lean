/-
  C08 — selection of salt / string-to-key parameters from the KDC's PA-data hints
  (`crypto.GetKeyFromPassword`), and the UTF-16 decoding used to state the rc4 string-to-key law.
-/
import Krb.Crypto.Spec
namespace Krb.S2K
open Krb

inductive HintKind where
  | pwSalt | info | info2
  deriving Repr, DecidableEq

/-- the PA-data type numbers (iana/patype): PA-PW-SALT 3, PA-ETYPE-INFO 11, PA-ETYPE-INFO2 19 -/
def HintKind.id : HintKind → Nat
  | .pwSalt => 3 | .info => 11 | .info2 => 19

structure Hint where
  kind : HintKind
  salt : Bytes              -- empty: the entry carries no salt (the default salt applies)
  params : Option Bytes     -- only PA-ETYPE-INFO2 carries s2kparams (used when 4 octets long)
  etype : Option Int := none  -- the etype the first entry names (PA-PW-SALT names none)
  deriving Repr, DecidableEq

structure Sel where
  paID : Nat := 0
  salt : Bytes := []
  params : Option Bytes := none
  etype : Option Int := none  -- none: the etype that was asked for
  deriving Repr, DecidableEq

namespace Impl

/-- one iteration of the `for _, pa := range pas` loop (after the fixes: `paID` is recorded, and the etype
    named by the hint is remembered unconditionally and resolved after the loop) -/
def step (s : Sel) (h : Hint) : Sel :=
  if s.paID > h.kind.id then s
  else
    { paID := h.kind.id, salt := h.salt,
      params := if h.kind = .info2 then (match h.params with | some p => some p | none => s.params)
                else s.params,
      etype := if h.kind = .pwSalt then s.etype else h.etype }

def select (hs : List Hint) : Sel := hs.foldl step {}

/-- the loop as it was before the first fix: `paID` is never assigned -/
def step_v0 (s : Sel) (h : Hint) : Sel :=
  { paID := 0, salt := h.salt,
    params := if h.kind = .info2 then (match h.params with | some p => some p | none => s.params)
              else s.params }

def select_v0 (hs : List Hint) : Sel := hs.foldl step_v0 {}

/-- the loop before the second fix: the etype in use was switched only when a hint named an etype other
    than the one asked for, so a hint naming the asked-for etype did not undo an earlier switch -/
def step_v1 (req : Int) (s : Sel) (h : Hint) : Sel :=
  if s.paID > h.kind.id then s
  else
    { paID := h.kind.id, salt := h.salt,
      params := if h.kind = .info2 then (match h.params with | some p => some p | none => s.params)
                else s.params,
      etype := match h.kind, h.etype with
               | .pwSalt, _ => s.etype
               | _, some e => if e ≠ req then some e else s.etype
               | _, none => s.etype }

def select_v1 (req : Int) (hs : List Hint) : Sel := hs.foldl (step_v1 req) {}

end Impl

namespace Spec

/-- RFC 4120 §5.2.7.5: "The preferred ordering of the hint pre-authentication data that affect client
    key selection is: ETYPE-INFO2, followed by ETYPE-INFO, followed by PW-SALT." -/
def select (hs : List Hint) : Sel :=
  match hs.find? (·.kind = .info2), hs.find? (·.kind = .info), hs.find? (·.kind = .pwSalt) with
  | some h, _, _ => { paID := 19, salt := h.salt, params := h.params, etype := h.etype }
  | none, some h, _ => { paID := 11, salt := h.salt, params := none, etype := h.etype }
  | none, none, some h => { paID := 3, salt := h.salt, params := none, etype := none }
  | none, none, none => {}

end Spec

/-- at most one hint of each kind -/
def NoDupKinds (hs : List Hint) : Prop := (hs.map (·.kind)).Nodup

/-! ## UTF-16LE decoding (to state the rc4 string-to-key law) -/

def takeU16 : Bytes → Option (Nat × Bytes)
  | a :: b :: r => some (b.toNat * 256 + a.toNat, r)
  | _ => none

/-- one code point per unit of fuel -/
def decode16 : Nat → Bytes → Option (List Nat)
  | 0, b => if b.isEmpty then some [] else none
  | f+1, b =>
    if b.isEmpty then some [] else
    match takeU16 b with
    | none => none
    | some (u, rest) =>
      if 0xD800 ≤ u ∧ u < 0xDC00 then
        match takeU16 rest with
        | none => none
        | some (l, rest') =>
          if 0xDC00 ≤ l ∧ l < 0xE000 then
            (decode16 f rest').map (fun t => (0x10000 + (u - 0xD800) * 1024 + (l - 0xDC00)) :: t)
          else none
      else if 0xDC00 ≤ u ∧ u < 0xE000 then none
      else (decode16 f rest).map (fun t => u :: t)

def decodeUtf16le (b : Bytes) : Option (List Nat) := decode16 b.length b

def Scalar (c : Nat) : Prop := c < 0xD800 ∨ (0xE000 ≤ c ∧ c < 0x110000)

end Krb.S2K
