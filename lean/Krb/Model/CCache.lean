/-
  C15 — credential cache files, format versions 1-4 (v8/credentials/ccache.go).

  `Impl.*` follows `CCache.Unmarshal` and its readers (after the repair that makes every reader check
  its bounds, accepts unknown header tags and reads the ticket flags in the file's byte order).
  `Spec.*` is an independent writer from the MIT ccache file format document.
  Integers are unsigned bit patterns; version 1/2 files use native byte order (parameter `le`).
-/
import Krb.Base.Bytes
namespace Krb.CCache
open Krb

structure Princ where
  nameType : Nat := 0
  realm : Bytes := []
  comps : List Bytes := []
  deriving Repr, DecidableEq

structure Cred where
  client : Princ
  server : Princ
  keyType : Nat
  key : Bytes
  authTime : Nat
  startTime : Nat
  endTime : Nat
  renewTill : Nat
  isSKey : Nat            -- the octet as stored
  flags : Nat             -- 32-bit ticket flags
  addrs : List (Nat × Bytes)
  authData : List (Nat × Bytes)
  ticket : Bytes
  second : Bytes
  deriving Repr, DecidableEq

structure CC where
  version : Nat
  header : List (Nat × Bytes) := []      -- (tag, value), version 4 only
  princ : Princ
  creds : List Cred
  deriving Repr, DecidableEq

/-! ## readers on the remaining input -/

def takeN (n : Nat) (b : Bytes) : Option (Bytes × Bytes) :=
  if n ≤ b.length then some (b.take n, b.drop n) else none

/-- a 32-bit length (Go: int32, negative is out of range) followed by that many bytes -/
def rdData (le : Bool) (b : Bytes) : Option (Bytes × Bytes) :=
  match dec32 le b with
  | none => none
  | some (n, r) => if n < 2147483648 then takeN n r else none

/-- `n` items -/
def rdList {α : Type} (item : Bytes → Option (α × Bytes)) : Nat → Bytes → Option (List α × Bytes)
  | 0, b => some ([], b)
  | n+1, b =>
    match item b with
    | none => none
    | some (x, r) =>
      match rdList item n r with
      | none => none
      | some (xs, r') => some (x :: xs, r')

def rd8 : Bytes → Option (Nat × Bytes)
  | a :: r => some (a.toNat, r)
  | [] => none

namespace Impl

/-- `parsePrincipal` -/
def rdPrinc (le : Bool) (v : Nat) (b : Bytes) : Option (Princ × Bytes) :=
  let nt : Option (Nat × Bytes) := if v ≠ 1 then dec32 le b else some (0, b)
  match nt with
  | none => none
  | some (nameType, r1) =>
    match dec32 le r1 with
    | none => none
    | some (nc0, r2) =>
      -- signed int32, minus one for version 1
      let nc : Int := toSigned 32 nc0 - (if v = 1 then 1 else 0)
      match rdData le r2 with
      | none => none
      | some (realm, r3) =>
        if nc < 0 then none
        else if nc.toNat > r3.length then none  -- count cannot exceed the remaining bytes (alloc guard)
        else
          match rdList (rdData le) nc.toNat r3 with
          | none => none
          | some (comps, r4) => some ({ nameType := nameType, realm := realm, comps := comps }, r4)

/-- `readAddress` / `readAuthDataEntry`: 16-bit type, counted data -/
def rdTyped (le : Bool) (b : Bytes) : Option ((Nat × Bytes) × Bytes) :=
  match dec16 le b with
  | none => none
  | some (t, r) =>
    match rdData le r with
    | none => none
    | some (d, r') => some ((t, d), r')

/-- a 32-bit count followed by that many typed entries -/
def rdTypedList (le : Bool) (b : Bytes) : Option (List (Nat × Bytes) × Bytes) :=
  match dec32 le b with
  | none => none
  | some (n, r) =>
    if n ≥ 2147483648 then none
    else if n > r.length then none
    else rdList (rdTyped le) n r

/-- the key type is stored twice in version 3 files; the second copy is the one kept -/
def rdKeyType (le : Bool) (v : Nat) (b : Bytes) : Option (Nat × Bytes) :=
  match dec16 le b with
  | none => none
  | some (kt, r) => if v = 3 then dec16 le r else some (kt, r)

/-- `parseCredential` -/
def rdCred (le : Bool) (v : Nat) (b : Bytes) : Option (Cred × Bytes) := do
  let (client, b) ← rdPrinc le v b
  let (server, b) ← rdPrinc le v b
  let (kt, b) ← rdKeyType le v b
  let (key, b) ← rdData le b
  let (t1, b) ← dec32 le b
  let (t2, b) ← dec32 le b
  let (t3, b) ← dec32 le b
  let (t4, b) ← dec32 le b
  let (sk, b) ← rd8 b
  let (fl, b) ← dec32 le b
  let (addrs, b) ← rdTypedList le b
  let (ad, b) ← rdTypedList le b
  let (tk, b) ← rdData le b
  let (st, b) ← rdData le b
  pure ({ client, server, keyType := kt, key, authTime := t1, startTime := t2, endTime := t3,
          renewTill := t4, isSKey := sk, flags := fl, addrs, authData := ad, ticket := tk, second := st }, b)

/-- the credential loop `for p < len(b)` -/
def rdCreds (le : Bool) (v : Nat) : Nat → Bytes → Option (List Cred)
  | 0, b => if b.isEmpty then some [] else none
  | fuel+1, b =>
    if b.isEmpty then some []
    else match rdCred le v b with
      | none => none
      | some (c, r) => (rdCreds le v fuel r).map (fun cs => c :: cs)

/-- header fields: `for *p <= int(h.length)`; `pos` is the Go index `*p` (4 when the loop starts).
    A field with tag 1 (KDC time offset) must be 8 bytes long; other tags are kept as they are. -/
def rdHeader (hlen : Nat) : Nat → Nat → Bytes → Option (List (Nat × Bytes) × Bytes)
  | 0, _, b => some ([], b)
  | fuel+1, pos, b =>
    if pos ≤ hlen then
      match dec16be b with
      | none => none
      | some (tag, r1) =>
        match dec16be r1 with
        | none => none
        | some (len, r2) =>
          match takeN len r2 with
          | none => none
          | some (val, r3) =>
            if tag = 1 ∧ len ≠ 8 then none
            else (rdHeader hlen fuel (pos + 4 + len) r3).map (fun (fs, r) => ((tag, val) :: fs, r))
    else some ([], b)

/-- `CCache.Unmarshal` -/
def unmarshal (le : Bool) (b : Bytes) : Option CC :=
  match b with
  | f :: v :: rest =>
    if f ≠ 5 then none
    else if v.toNat < 1 ∨ v.toNat > 4 then none
    else
      let le' := (v.toNat = 1 ∨ v.toNat = 2) && le
      let hdr : Option (List (Nat × Bytes) × Bytes) :=
        if v.toNat = 4 then
          match dec16be rest with
          | none => none
          | some (hlen, r) => rdHeader hlen (hlen + 1) 4 r   -- every field advances the index by ≥ 4
        else some ([], rest)
      match hdr with
      | none => none
      | some (fields, r1) =>
        match rdPrinc le' v.toNat r1 with
        | none => none
        | some (p, r2) =>
          match rdCreds le' v.toNat r2.length r2 with
          | none => none
          | some cs => some { version := v.toNat, header := fields, princ := p, creds := cs }
  | _ => none

/-! ### lookups -/

def nameEq (a b : Princ) : Bool := a.comps == b.comps   -- PrincipalName.Equal ignores the name type

/-- `GetEntry`: the first credential whose server name equals the one asked for -/
def getEntry (c : CC) (name : List Bytes) : Option Cred := c.creds.find? (fun cr => cr.server.comps == name)

def isConf (cr : Cred) : Bool := (cr.server.realm.take 11) == "X-CACHECONF".toUTF8.toList

/-- `GetEntries`: configuration entries are left out -/
def getEntries (c : CC) : List Cred := c.creds.filter (fun cr => !isConf cr)

/-! ### the client built from a cache -/

/-- the key of the client's ticket cache: the server name's components joined by '/' -/
def spnOf (cr : Cred) : Bytes := [47].intercalate cr.server.comps

/-- `Cache.addEntry`: one entry per SPN, a later one replaces an earlier one -/
def cachePut (m : List (Bytes × Cred)) (cr : Cred) : List (Bytes × Cred) :=
  (spnOf cr, cr) :: m.filter (fun e => !(e.1 == spnOf cr))

def cacheLookup (m : List (Bytes × Cred)) (k : Bytes) : Option Cred := (m.find? (fun e => e.1 == k)).map (·.2)

/-- `client.NewFromCCache`: every credential that is not a configuration entry goes into the client's ticket
    cache with its own key, times and ticket, in file order -/
def clientCache (c : CC) : List (Bytes × Cred) := (getEntries c).foldl cachePut []

end Impl

/-! ## Independent writer (MIT ccache format) -/
namespace Spec

def data (le : Bool) (d : Bytes) : Bytes := enc32 le d.length ++ d

def princ (le : Bool) (v : Nat) (p : Princ) : Bytes :=
  (if v = 1 then [] else enc32 le p.nameType) ++
  enc32 le (if v = 1 then p.comps.length + 1 else p.comps.length) ++
  data le p.realm ++ (p.comps.map (data le)).flatten

def typed (le : Bool) (x : Nat × Bytes) : Bytes := enc16 le x.1 ++ data le x.2

def typedList (le : Bool) (l : List (Nat × Bytes)) : Bytes := enc32 le l.length ++ (l.map (typed le)).flatten

def keyType (le : Bool) (v : Nat) (kt : Nat) : Bytes :=
  enc16 le kt ++ (if v = 3 then enc16 le kt else [])

def cred (le : Bool) (v : Nat) (c : Cred) : Bytes :=
  princ le v c.client ++ princ le v c.server ++
  keyType le v c.keyType ++
  data le c.key ++
  enc32 le c.authTime ++ enc32 le c.startTime ++ enc32 le c.endTime ++ enc32 le c.renewTill ++
  [UInt8.ofNat c.isSKey] ++ enc32 le c.flags ++
  typedList le c.addrs ++ typedList le c.authData ++ data le c.ticket ++ data le c.second

def headerField (f : Nat × Bytes) : Bytes := be16 f.1 ++ be16 f.2.length ++ f.2

def header (fields : List (Nat × Bytes)) : Bytes :=
  let body := (fields.map headerField).flatten
  be16 body.length ++ body

def render (le : Bool) (c : CC) : Bytes :=
  let le' := (c.version = 1 ∨ c.version = 2) && le
  [5, UInt8.ofNat c.version] ++ (if c.version = 4 then header c.header else []) ++
  princ le' c.version c.princ ++ (c.creds.map (cred le' c.version)).flatten

end Spec
end Krb.CCache
