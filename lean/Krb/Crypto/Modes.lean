/-
  Block-cipher modes used by the Kerberos profiles, over an abstract block function:
  CBC (RFC 3961 des3: zero IV, input a multiple of the block size) and CBC with ciphertext
  stealing as RFC 3962 §5 defines it (last two blocks always swapped, output truncated to the
  input length).  Structured (list-of-blocks) versions carry the proofs; the flat versions used by
  the specification are defined through them.
-/
import Krb.Base.Bytes
namespace Krb.Crypto
open Krb

/-- `n` chunks of `bs` bytes from the front of `b` -/
def chunk (bs : Nat) : Nat → Bytes → List Bytes
  | 0, _ => []
  | n+1, b => b.take bs :: chunk bs n (b.drop bs)

def cbcEnc (E : Bytes → Bytes) (iv : Bytes) : List Bytes → List Bytes
  | [] => []
  | p :: ps => let c := E (bxor p iv); c :: cbcEnc E c ps

def cbcDec (D : Bytes → Bytes) (iv : Bytes) : List Bytes → List Bytes
  | [] => []
  | c :: cs => bxor (D c) iv :: cbcDec D c cs

/-- CBC over a flat input whose length is a multiple of `bs` -/
def cbcEncFlat (E : Bytes → Bytes) (bs : Nat) (iv : Bytes) (b : Bytes) : Bytes :=
  (cbcEnc E iv (chunk bs (b.length / bs) b)).flatten

def cbcDecFlat (D : Bytes → Bytes) (bs : Nat) (iv : Bytes) (b : Bytes) : Bytes :=
  (cbcDec D iv (chunk bs (b.length / bs) b)).flatten

/-- chaining value after the blocks `ps` -/
def chain (E : Bytes → Bytes) (iv : Bytes) : List Bytes → Bytes
  | [] => iv
  | p :: ps => chain E (E (bxor p iv)) ps

def lastOr (iv : Bytes) : List Bytes → Bytes
  | [] => iv
  | [c] => c
  | _ :: cs => lastOr iv cs

def pad16 (b : Bytes) : Bytes := b ++ zeros (16 - b.length)

structure CtsOut where
  front : List Bytes   -- C1 .. C(n-2)
  cn : Bytes           -- the full last cipher block (transmitted second to last)
  stub : Bytes         -- the first d bytes of C(n-1) (transmitted last)

/-- RFC 3962 CTS on structured input: `front` full blocks, `pen` the last full block but one,
    `last` the final 1..16 bytes -/
def ctsEncS (E : Bytes → Bytes) (iv : Bytes) (front : List Bytes) (pen last : Bytes) : CtsOut :=
  let civ := chain E iv front
  let cprev := E (bxor pen civ)
  let cn := E (bxor (pad16 last) cprev)
  { front := cbcEnc E iv front, cn := cn, stub := cprev.take last.length }

def ctsDecS (D : Bytes → Bytes) (iv : Bytes) (o : CtsOut) : List Bytes × Bytes × Bytes :=
  let d := o.stub.length
  let dn := D o.cn
  let cprev := o.stub ++ dn.drop d
  let last := (bxor dn cprev).take d
  let civ := lastOr iv o.front
  let pen := bxor (D cprev) civ
  (cbcDec D iv o.front, pen, last)

/-- number of leading full blocks that are *not* among the last two -/
def ctsFront (len : Nat) : Nat := (len - 17) / 16

/-- AES-CTS encryption of a flat plaintext (RFC 3962): at most one block → plain CBC of the padded
    block; otherwise steal from the last block but one -/
def ctsEnc (E : Bytes → Bytes) (iv : Bytes) (pt : Bytes) : Bytes :=
  if pt.length ≤ 16 then E (bxor (pad16 pt) iv)
  else
    let m := ctsFront pt.length
    let o := ctsEncS E iv (chunk 16 m pt) ((pt.drop (16 * m)).take 16) (pt.drop (16 * m + 16))
    o.front.flatten ++ o.cn ++ o.stub

/-- AES-CTS decryption; `none` when the input is shorter than one block -/
def ctsDec (D : Bytes → Bytes) (iv : Bytes) (ct : Bytes) : Option Bytes :=
  if ct.length < 16 then none
  else if ct.length = 16 then some (bxor (D ct) iv)
  else
    let m := ctsFront ct.length
    let (f, p, l) := ctsDecS D iv
      { front := chunk 16 m ct, cn := (ct.drop (16 * m)).take 16, stub := ct.drop (16 * m + 16) }
    some (f.flatten ++ p ++ l)

end Krb.Crypto
