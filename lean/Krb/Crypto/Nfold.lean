/-
  RFC 3961 §5.1 n-fold, written arithmetically (independent of the bit-by-bit Go loop):
  the input is a k-bit number; the lcm(n,k)-bit string made of successive copies, each rotated right
  by 13 bits more than the one before, is cut into n-bit numbers which are added in ones'-complement
  arithmetic (end-around carry).
-/
import Krb.Base.Bytes
namespace Krb.Crypto
open Krb

def beNat (b : Bytes) : Nat := b.foldl (fun a x => a * 256 + x.toNat) 0

/-- big-endian bytes of `v`, exactly `n` bytes -/
def natBE : Nat → Nat → Bytes
  | 0, _ => []
  | n+1, v => natBE n (v / 256) ++ [UInt8.ofNat v]

@[simp] theorem natBE_length (n v : Nat) : (natBE n v).length = n := by
  induction n generalizing v with
  | zero => rfl
  | succ n ih => simp [natBE, ih]

/-- rotate the k-bit number `m` right by `r` bits -/
def rotr (k m r : Nat) : Nat :=
  let s := r % k
  ((m >>> s) ||| (m <<< (k - s))) % 2 ^ k

/-- end-around-carry reduction to n bits -/
def foldCarry (n : Nat) : Nat → Nat → Nat
  | 0, s => s
  | f+1, s => if s < 2 ^ n then s else foldCarry n f (s % 2 ^ n + s / 2 ^ n)

def nfold (m : Bytes) (nbits : Nat) : Bytes :=
  let k := m.length * 8
  if k = 0 ∨ nbits = 0 then zeros (nbits / 8) else
  let l := Nat.lcm nbits k
  let copies := l / k
  let mv := beNat m
  -- the lcm-bit string: copy i (rotated by 13 i) is more significant than copy i+1
  let big := (List.range copies).foldl (fun acc i => acc * 2 ^ k + rotr k mv (13 * i)) 0
  let parts := l / nbits
  let sum := (List.range parts).foldl (fun acc j => acc + (big >>> (nbits * (parts - 1 - j))) % 2 ^ nbits) 0
  natBE (nbits / 8) (foldCarry nbits 64 sum)

end Krb.Crypto
