/-
  Cryptographic primitives as a *parameter* of the Kerberos crypto specification.

  The hash functions, block ciphers, RC4 and PBKDF2 are not gokrb5 code (Go stdlib / x/crypto); the
  theorems quantify over any `Prims` satisfying the laws in `Prims.Lawful`, which are the standard
  functional facts about these primitives (a block cipher is a permutation per key, RC4 is an XOR
  stream, MACs have their nominal length).  `Krb.Crypto.concrete` (file Concrete.lean) instantiates the
  record with independent Lean implementations so that the compiled driver can compute real values.
-/
import Krb.Base.Bytes
namespace Krb.Crypto
open Krb

structure Prims where
  sha1 : Bytes → Bytes
  sha256 : Bytes → Bytes
  sha384 : Bytes → Bytes
  md4 : Bytes → Bytes
  md5 : Bytes → Bytes
  hmacSha1 : Bytes → Bytes → Bytes          -- key, message
  hmacSha256 : Bytes → Bytes → Bytes
  hmacSha384 : Bytes → Bytes → Bytes
  hmacMd5 : Bytes → Bytes → Bytes
  aesE : Bytes → Bytes → Bytes              -- key (16/32 bytes), one 16-byte block
  aesD : Bytes → Bytes → Bytes
  des3E : Bytes → Bytes → Bytes             -- key (24 bytes), one 8-byte block
  des3D : Bytes → Bytes → Bytes
  rc4 : Bytes → Bytes → Bytes               -- key, data
  pbkdf2Sha1 : Bytes → Bytes → Nat → Nat → Bytes    -- password, salt, iterations, dkLen
  pbkdf2Sha256 : Bytes → Bytes → Nat → Nat → Bytes
  pbkdf2Sha384 : Bytes → Bytes → Nat → Nat → Bytes

structure Prims.Lawful (P : Prims) : Prop where
  aesDE : ∀ k b, b.length = 16 → P.aesD k (P.aesE k b) = b
  aesE_len : ∀ k b, b.length = 16 → (P.aesE k b).length = 16
  aesD_len : ∀ k b, b.length = 16 → (P.aesD k b).length = 16
  des3DE : ∀ k b, b.length = 8 → P.des3D k (P.des3E k b) = b
  des3E_len : ∀ k b, b.length = 8 → (P.des3E k b).length = 8
  des3D_len : ∀ k b, b.length = 8 → (P.des3D k b).length = 8
  rc4_invol : ∀ k d, P.rc4 k (P.rc4 k d) = d
  rc4_len : ∀ k d, (P.rc4 k d).length = d.length
  hmacSha1_len : ∀ k m, (P.hmacSha1 k m).length = 20
  hmacSha256_len : ∀ k m, (P.hmacSha256 k m).length = 32
  hmacSha384_len : ∀ k m, (P.hmacSha384 k m).length = 48
  hmacMd5_len : ∀ k m, (P.hmacMd5 k m).length = 16

end Krb.Crypto
