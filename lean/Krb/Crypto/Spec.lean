/-
  The Kerberos cryptosystem *specification*, written from RFC 3961 (simplified profile, des3),
  RFC 3962 (aes-cts-hmac-sha1-96), RFC 8009 (aes-cts-hmac-sha2) and RFC 4757 (rc4-hmac), never from
  the Go code.  Parametric in `Prims`.  This is the "independent implementation" of C05–C08, C17, C19.
-/
import Krb.Crypto.Prims
import Krb.Crypto.Modes
import Krb.Crypto.Nfold
namespace Krb.Crypto
open Krb

inductive EType where
  | des3 | aes128 | aes256 | aes128sha2 | aes256sha2 | rc4
  deriving Repr, DecidableEq, Inhabited

namespace EType

def id : EType → Nat
  | des3 => 16 | aes128 => 17 | aes256 => 18 | aes128sha2 => 19 | aes256sha2 => 20 | rc4 => 23

def ofId : Nat → Option EType
  | 16 => some des3 | 17 => some aes128 | 18 => some aes256 | 19 => some aes128sha2
  | 20 => some aes256sha2 | 23 => some rc4 | _ => none

/-- protocol key length in bytes -/
def keyLen : EType → Nat
  | des3 => 24 | aes128 => 16 | aes256 => 32 | aes128sha2 => 16 | aes256sha2 => 32 | rc4 => 16

/-- key-generation seed length in bytes (RFC 3961 "key-generation seed length") -/
def seedLen : EType → Nat
  | des3 => 21 | aes128 => 16 | aes256 => 32 | aes128sha2 => 16 | aes256sha2 => 32 | rc4 => 16

def confLen : EType → Nat
  | des3 => 8 | rc4 => 8 | _ => 16

/-- length in bytes of the (truncated) HMAC appended to / prefixed on a ciphertext, and of a checksum -/
def macLen : EType → Nat
  | des3 => 20 | aes128 => 12 | aes256 => 12 | aes128sha2 => 16 | aes256sha2 => 24 | rc4 => 16

/-- cipher block size in bytes -/
def blockLen : EType → Nat
  | des3 => 8 | rc4 => 1 | _ => 16

/-- IANA checksum type assigned to the etype's mandatory checksum (signed: rc4 is −138) -/
def cksumType : EType → Int
  | des3 => 12 | aes128 => 15 | aes256 => 16 | aes128sha2 => 19 | aes256sha2 => 20 | rc4 => -138

end EType

/-- the IANA registry rows gokrb5 supports: checksum type ↦ encryption family -/
def ianaChksumTable : List (Int × EType) :=
  [(12, .des3), (15, .aes128), (16, .aes256), (19, .aes128sha2), (20, .aes256sha2), (-138, .rc4)]

variable (P : Prims)

/-! ## RFC 3961 key derivation (des3, aes-sha1) -/

/-- one-block encryption under the raw protocol key with zero IV (what DR iterates) -/
def rawE (et : EType) (key : Bytes) (block : Bytes) : Bytes :=
  match et with
  | .des3 => P.des3E key block
  | _ => P.aesE key block

/-- DES key bytes from 7 bytes of randomness: top 7 bits of each byte plus odd parity; the eighth
    byte collects the low bits (RFC 3961 §6.3.1) -/
def parityByte (b : UInt8) : UInt8 :=
  let v := b.toNat / 2   -- the 7 payload bits
  let ones := (List.range 7).foldl (fun a i => a + (v >>> i) % 2) 0
  UInt8.ofNat (v * 2 + (if ones % 2 = 0 then 1 else 0))

def stretch56 (r : Bytes) : Bytes :=
  let first := r.map (fun b => parityByte (UInt8.ofNat (b.toNat / 2 * 2)))
  -- eighth byte: bit 7 (msb) = lsb of r[6], …, bit 1 = lsb of r[0]
  let low := (List.range 7).foldl (fun a i => a + ((r.getD i 0).toNat % 2) * 2 ^ (i + 1)) 0
  first ++ [parityByte (UInt8.ofNat low)]

def desWeakKeys : List Bytes :=
  [[0x01,0x01,0x01,0x01,0x01,0x01,0x01,0x01], [0xFE,0xFE,0xFE,0xFE,0xFE,0xFE,0xFE,0xFE],
   [0xE0,0xE0,0xE0,0xE0,0xF1,0xF1,0xF1,0xF1], [0x1F,0x1F,0x1F,0x1F,0x0E,0x0E,0x0E,0x0E],
   [0x01,0x1F,0x01,0x1F,0x01,0x0E,0x01,0x0E], [0x1F,0x01,0x1F,0x01,0x0E,0x01,0x0E,0x01],
   [0x01,0xE0,0x01,0xE0,0x01,0xF1,0x01,0xF1], [0xE0,0x01,0xE0,0x01,0xF1,0x01,0xF1,0x01],
   [0x01,0xFE,0x01,0xFE,0x01,0xFE,0x01,0xFE], [0xFE,0x01,0xFE,0x01,0xFE,0x01,0xFE,0x01],
   [0x1F,0xE0,0x1F,0xE0,0x0E,0xF1,0x0E,0xF1], [0xE0,0x1F,0xE0,0x1F,0xF1,0x0E,0xF1,0x0E],
   [0x1F,0xFE,0x1F,0xFE,0x0E,0xFE,0x0E,0xFE], [0xFE,0x1F,0xFE,0x1F,0xFE,0x0E,0xFE,0x0E],
   [0xE0,0xFE,0xE0,0xFE,0xF1,0xFE,0xF1,0xFE], [0xFE,0xE0,0xFE,0xE0,0xFE,0xF1,0xFE,0xF1]]

def fixWeak (k : Bytes) : Bytes :=
  if desWeakKeys.contains k then
    match k with
    | [a, b, c, d, e, f, g, h] => [a, b, c, d, e, f, g, h ^^^ 0xF0]
    | _ => k
  else k

def des3RandomToKey (r : Bytes) : Bytes :=
  fixWeak (stretch56 (r.take 7)) ++ fixWeak (stretch56 ((r.drop 7).take 7)) ++
    fixWeak (stretch56 ((r.drop 14).take 7))

def randomToKey (et : EType) (r : Bytes) : Bytes :=
  match et with
  | .des3 => des3RandomToKey r
  | _ => r

/-- DR: iterate the raw block encryption on n-fold(constant) until `seedLen` bytes are produced -/
def drLoop (et : EType) (key : Bytes) : Nat → Bytes → Bytes → Bytes
  | 0, _, acc => acc
  | f+1, k, acc =>
    if acc.length ≥ et.seedLen then acc
    else
      let k' := rawE P et key k
      drLoop et key f k' (acc ++ k')

def DR (et : EType) (key const : Bytes) : Bytes :=
  let k1 := rawE P et key (nfold const (et.blockLen * 8))
  (drLoop P et key 8 k1 k1).take et.seedLen

def DK (et : EType) (key const : Bytes) : Bytes := randomToKey et (DR P et key const)

/-! ## RFC 8009 key derivation -/

def hmacOf (et : EType) (key msg : Bytes) : Bytes :=
  match et with
  | .des3 | .aes128 | .aes256 => P.hmacSha1 key msg
  | .aes128sha2 => P.hmacSha256 key msg
  | .aes256sha2 => P.hmacSha384 key msg
  | .rc4 => P.hmacMd5 key msg

/-- KDF-HMAC-SHA2(key, label, [context], k) (RFC 8009 §3); `kbits` is the output size in bits -/
def kdfHmacSha2 (et : EType) (key label context : Bytes) (kbits : Nat) : Bytes :=
  (hmacOf P et key (be32 1 ++ label ++ [0] ++ context ++ be32 kbits)).take (kbits / 8)

/-- usage constants -/
def usageConst (usage : Nat) (o : UInt8) : Bytes := be32 usage ++ [o]

inductive KeyKind | Kc | Ke | Ki deriving DecidableEq
def KeyKind.octet : KeyKind → UInt8 | .Kc => 0x99 | .Ke => 0xAA | .Ki => 0x55

/-- the usage-specific keys for each profile.  RFC 8009 §5: Ke has the protocol key's size, Kc and
    Ki have the size of the truncated HMAC (128 / 192 bits). -/
def deriveKey (et : EType) (key : Bytes) (usage : Nat) (kind : KeyKind) : Bytes :=
  match et with
  | .des3 | .aes128 | .aes256 => DK P et key (usageConst usage kind.octet)
  | .aes128sha2 => kdfHmacSha2 P et key (usageConst usage kind.octet) [] 128
  | .aes256sha2 =>
    kdfHmacSha2 P et key (usageConst usage kind.octet) [] (if kind = .Ke then 256 else 192)
  | .rc4 => key

/-! ## RFC 4757 -/

/-- the key-usage alias table of RFC 4757 (as used by MIT, the JDK and gokrb5): 3 ↦ 8, 9 ↦ 8, 23 ↦ 13 -/
def rc4Alias (usage : Nat) : Nat :=
  if usage = 3 then 8 else if usage = 9 then 8 else if usage = 23 then 13 else usage

/-- T: the message type as a 32-bit little-endian integer -/
def rc4MsgType (usage : Nat) : Bytes := le32 (rc4Alias usage)

/-! ## encryption and decryption -/

def zeroPadTo (bs : Nat) (b : Bytes) : Bytes :=
  if b.length % bs = 0 then b else b ++ zeros (bs - b.length % bs)

/-- `encrypt et key usage conf pt`: the confounder is an explicit argument (the real code draws it
    from crypto/rand) -/
def encrypt (et : EType) (key : Bytes) (usage : Nat) (conf pt : Bytes) : Bytes :=
  match et with
  | .des3 =>
    let ke := deriveKey P et key usage .Ke
    let ki := deriveKey P et key usage .Ki
    let plain := zeroPadTo 8 (conf ++ pt)
    cbcEncFlat (P.des3E ke) 8 (zeros 8) plain ++ P.hmacSha1 ki plain
  | .aes128 | .aes256 =>
    let ke := deriveKey P et key usage .Ke
    let ki := deriveKey P et key usage .Ki
    let plain := conf ++ pt
    ctsEnc (P.aesE ke) (zeros 16) plain ++ (P.hmacSha1 ki plain).take 12
  | .aes128sha2 | .aes256sha2 =>
    let ke := deriveKey P et key usage .Ke
    let ki := deriveKey P et key usage .Ki
    let c := ctsEnc (P.aesE ke) (zeros 16) (conf ++ pt)
    c ++ (hmacOf P et ki (zeros 16 ++ c)).take et.macLen
  | .rc4 =>
    let k1 := P.hmacMd5 key (rc4MsgType usage)
    let plain := conf ++ pt
    let cksum := P.hmacMd5 k1 plain
    let k3 := P.hmacMd5 k1 cksum
    cksum ++ P.rc4 k3 plain

/-- `decryptRaw et key usage ct`: the whole decrypted stream (confounder ‖ plaintext ‖ padding)
    when the integrity check succeeds, `none` otherwise -/
def decryptRaw (et : EType) (key : Bytes) (usage : Nat) (ct : Bytes) : Option Bytes :=
  match et with
  | .des3 =>
    if ct.length < 20 + 8 then none else
    let body := ct.take (ct.length - 20)
    let tag := ct.drop (ct.length - 20)
    if body.length % 8 ≠ 0 then none else
    let ke := deriveKey P et key usage .Ke
    let ki := deriveKey P et key usage .Ki
    let plain := cbcDecFlat (P.des3D ke) 8 (zeros 8) body
    if tag = P.hmacSha1 ki plain then some plain else none
  | .aes128 | .aes256 =>
    if ct.length < 12 + 16 then none else
    let body := ct.take (ct.length - 12)
    let tag := ct.drop (ct.length - 12)
    let ke := deriveKey P et key usage .Ke
    let ki := deriveKey P et key usage .Ki
    match ctsDec (P.aesD ke) (zeros 16) body with
    | none => none
    | some plain => if tag = (P.hmacSha1 ki plain).take 12 then some plain else none
  | .aes128sha2 | .aes256sha2 =>
    if ct.length < et.macLen + 16 then none else
    let body := ct.take (ct.length - et.macLen)
    let tag := ct.drop (ct.length - et.macLen)
    let ke := deriveKey P et key usage .Ke
    let ki := deriveKey P et key usage .Ki
    if tag = (hmacOf P et ki (zeros 16 ++ body)).take et.macLen then
      ctsDec (P.aesD ke) (zeros 16) body
    else none
  | .rc4 =>
    if ct.length < 16 + 8 then none else
    let cksum := ct.take 16
    let body := ct.drop 16
    let k1 := P.hmacMd5 key (rc4MsgType usage)
    let k3 := P.hmacMd5 k1 cksum
    let plain := P.rc4 k3 body
    if cksum = P.hmacMd5 k1 plain then some plain else none

/-- `decrypt et key usage ct`: the plaintext (confounder removed; des3: including the zero padding)
    or `none` -/
def decrypt (et : EType) (key : Bytes) (usage : Nat) (ct : Bytes) : Option Bytes :=
  (decryptRaw P et key usage ct).map (fun plain => plain.drop et.confLen)

/-! ## checksums -/

def checksum (et : EType) (key : Bytes) (usage : Nat) (data : Bytes) : Bytes :=
  match et with
  | .rc4 =>
    let ksign := P.hmacMd5 key ([115,105,103,110,97,116,117,114,101,107,101,121] ++ [0]) -- "signaturekey\0"
    P.hmacMd5 ksign (P.md5 (rc4MsgType usage ++ data))
  | _ => (hmacOf P et (deriveKey P et key usage .Kc) data).take et.macLen

def verifyChecksum (et : EType) (key : Bytes) (usage : Nat) (data cksum : Bytes) : Bool :=
  cksum == checksum P et key usage data

/-! ## string-to-key -/

/-- UTF-16LE of a list of Unicode scalar values (surrogate pairs above the BMP) -/
def utf16le : List Nat → Bytes
  | [] => []
  | c :: cs =>
    (if c < 0x10000 then le16 c
     else
       let v := c - 0x10000
       le16 (0xD800 + v / 1024) ++ le16 (0xDC00 + v % 1024)) ++ utf16le cs

def kerberosConst : Bytes := [107, 101, 114, 98, 101, 114, 111, 115]   -- "kerberos"

def etypeName : EType → Bytes
  | .aes128sha2 => "aes128-cts-hmac-sha256-128".toUTF8.toList
  | .aes256sha2 => "aes256-cts-hmac-sha384-192".toUTF8.toList
  | _ => []

/-- `password` and `salt` are the UTF-8 bytes; `chars` the scalar values of the password (rc4 only) -/
def stringToKey (et : EType) (password salt : Bytes) (chars : List Nat) (iterations : Nat) : Bytes :=
  match et with
  | .des3 =>
    let tkey := des3RandomToKey (nfold (password ++ salt) 168)
    DK P et tkey kerberosConst
  | .aes128 | .aes256 =>
    let tkey := P.pbkdf2Sha1 password salt iterations et.keyLen
    DK P et tkey kerberosConst
  | .aes128sha2 =>
    let saltp := etypeName et ++ [0] ++ salt
    let tkey := P.pbkdf2Sha256 password saltp iterations 16
    kdfHmacSha2 P et tkey kerberosConst [] 128
  | .aes256sha2 =>
    let saltp := etypeName et ++ [0] ++ salt
    let tkey := P.pbkdf2Sha384 password saltp iterations 32
    kdfHmacSha2 P et tkey kerberosConst [] 256
  | .rc4 => P.md4 (utf16le chars)

/-- default iteration counts (RFC 3962 §4: 4096; RFC 8009 §4: 32768) -/
def defaultIterations : EType → Nat
  | .aes128 | .aes256 => 4096
  | .aes128sha2 | .aes256sha2 => 32768
  | _ => 0

/-- s2kparams: 4 octets, big endian (RFC 3962 §4) -/
def parseIterations (params : Bytes) : Option Nat :=
  match dec32be params with
  | some (n, []) => some n
  | _ => none

end Krb.Crypto
