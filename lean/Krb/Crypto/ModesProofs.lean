/-
  Round-trip lemmas for CBC and CBC-CTS over an abstract block function with the single law
  `D (E b) = b` on blocks of the right size.
-/
import Krb.Crypto.Modes
namespace Krb.Crypto
open Krb

theorem bxor_take (n : Nat) (a b : Bytes) : (bxor a b).take n = bxor (a.take n) (b.take n) := by
  simp [bxor, List.take_zipWith]

theorem bxor_drop (n : Nat) (a b : Bytes) : (bxor a b).drop n = bxor (a.drop n) (b.drop n) := by
  simp [bxor, List.drop_zipWith]

theorem bxor_zeros_left : ∀ (b : Bytes), bxor (zeros b.length) b = b
  | [] => rfl
  | x :: b => by
    have := bxor_zeros_left b
    simp only [bxor, zeros, List.length_cons, List.replicate_succ, List.zipWith_cons_cons] at this ⊢
    rw [this]; simp

theorem bxor_zeros_right (b : Bytes) (n : Nat) (h : n = b.length) : bxor b (zeros n) = b := by
  subst h
  induction b with
  | nil => rfl
  | cons x b ih =>
    simp only [bxor, zeros, List.length_cons, List.replicate_succ, List.zipWith_cons_cons] at ih ⊢
    rw [ih]; simp

/-- a block function pair that is lawful on `bs`-byte blocks -/
structure BlockLaw (bs : Nat) (E D : Bytes → Bytes) : Prop where
  DE : ∀ b, b.length = bs → D (E b) = b
  lenE : ∀ b, b.length = bs → (E b).length = bs

def AllLen (bs : Nat) (l : List Bytes) : Prop := ∀ b ∈ l, b.length = bs

theorem cbc_roundtrip {bs : Nat} {E D : Bytes → Bytes} (L : BlockLaw bs E D)
    (iv : Bytes) (hiv : iv.length = bs) (ps : List Bytes) (h : AllLen bs ps) :
    cbcDec D iv (cbcEnc E iv ps) = ps := by
  induction ps generalizing iv with
  | nil => rfl
  | cons p ps ih =>
    have hp : p.length = bs := h p (by simp)
    have hx : (bxor p iv).length = bs := by simp [hp, hiv]
    simp only [cbcEnc, cbcDec]
    rw [L.DE _ hx, bxor_cancel p iv (by omega),
      ih (E (bxor p iv)) (L.lenE _ hx) (fun b hb => h b (by simp [hb]))]

theorem cbcEnc_allLen {bs : Nat} {E D : Bytes → Bytes} (L : BlockLaw bs E D)
    (iv : Bytes) (hiv : iv.length = bs) (ps : List Bytes) (h : AllLen bs ps) :
    AllLen bs (cbcEnc E iv ps) ∧ (cbcEnc E iv ps).length = ps.length := by
  induction ps generalizing iv with
  | nil => simp [cbcEnc, AllLen]
  | cons p ps ih =>
    have hp : p.length = bs := h p (by simp)
    have hx : (bxor p iv).length = bs := by simp [hp, hiv]
    have := ih (E (bxor p iv)) (L.lenE _ hx) (fun b hb => h b (by simp [hb]))
    simp only [cbcEnc, List.length_cons]
    refine ⟨?_, by omega⟩
    intro b hb
    simp only [List.mem_cons] at hb
    cases hb with
    | inl h' => rw [h']; exact L.lenE _ hx
    | inr h' => exact this.1 b h'

/-! ### chunking -/

theorem chunk_flatten (bs : Nat) (l : List Bytes) (h : AllLen bs l) (r : Bytes) :
    chunk bs l.length (l.flatten ++ r) = l := by
  induction l with
  | nil => rfl
  | cons b l ih =>
    have hb : b.length = bs := h b (by simp)
    simp only [List.length_cons, chunk, List.flatten_cons, List.append_assoc]
    rw [List.take_left' hb, List.drop_left' hb, ih (fun b' h' => h b' (by simp [h']))]

theorem flatten_length_allLen (bs : Nat) (l : List Bytes) (h : AllLen bs l) :
    l.flatten.length = bs * l.length := by
  induction l with
  | nil => simp
  | cons b l ih =>
    have hb : b.length = bs := h b (by simp)
    simp only [List.flatten_cons, List.length_append, List.length_cons, hb,
      ih (fun b' h' => h b' (by simp [h']))]
    rw [Nat.mul_add]; omega

theorem chunk_allLen (bs n : Nat) (b : Bytes) (h : bs * n ≤ b.length) :
    AllLen bs (chunk bs n b) ∧ (chunk bs n b).length = n ∧
      (chunk bs n b).flatten = b.take (bs * n) := by
  induction n generalizing b with
  | zero => simp [chunk, AllLen]
  | succ n ih =>
    have h1 : bs ≤ b.length := by
      have : bs * (n + 1) = bs * n + bs := by rw [Nat.mul_add]; omega
      omega
    have h2 : bs * n ≤ (b.drop bs).length := by
      have : bs * (n + 1) = bs * n + bs := by rw [Nat.mul_add]; omega
      simp; omega
    obtain ⟨i1, i2, i3⟩ := ih (b.drop bs) h2
    simp only [chunk]
    refine ⟨?_, by simp [i2], ?_⟩
    · intro x hx
      simp only [List.mem_cons] at hx
      cases hx with
      | inl h' => rw [h']; simp; omega
      | inr h' => exact i1 x h'
    · simp only [List.flatten_cons, i3]
      have : bs * (n + 1) = bs + bs * n := by rw [Nat.mul_add]; omega
      rw [this, List.take_add]

theorem cbcFlat_roundtrip {bs : Nat} {E D : Bytes → Bytes} (L : BlockLaw bs E D) (hbs : 0 < bs)
    (iv : Bytes) (hiv : iv.length = bs) (b : Bytes) (hb : b.length % bs = 0) :
    cbcDecFlat D bs iv (cbcEncFlat E bs iv b) = b ∧ (cbcEncFlat E bs iv b).length = b.length := by
  have hmul : bs * (b.length / bs) = b.length := by
    have := Nat.div_add_mod b.length bs
    omega
  obtain ⟨c1, c2, c3⟩ := chunk_allLen bs (b.length / bs) b (by omega)
  obtain ⟨e1, e2⟩ := cbcEnc_allLen L iv hiv _ c1
  have hlen : (cbcEncFlat E bs iv b).length = b.length := by
    unfold cbcEncFlat
    rw [flatten_length_allLen bs _ e1, e2, c2, hmul]
  refine ⟨?_, hlen⟩
  unfold cbcDecFlat
  rw [hlen]
  unfold cbcEncFlat
  have := chunk_flatten bs (cbcEnc E iv (chunk bs (b.length / bs) b)) e1 []
  simp only [List.append_nil, e2, c2] at this
  rw [this, cbc_roundtrip L iv hiv _ c1, c3, hmul, List.take_length]

/-! ### ciphertext stealing -/

theorem chain_len {E D : Bytes → Bytes} (L : BlockLaw 16 E D) (iv : Bytes) (hiv : iv.length = 16)
    (ps : List Bytes) (h : AllLen 16 ps) : (chain E iv ps).length = 16 := by
  induction ps generalizing iv with
  | nil => simpa [chain]
  | cons p ps ih =>
    have hp : p.length = 16 := h p (by simp)
    exact ih _ (L.lenE _ (by simp [hp, hiv])) (fun b hb => h b (by simp [hb]))

theorem lastOr_irrel (iv iv' : Bytes) (c : Bytes) (cs : List Bytes) :
    lastOr iv (c :: cs) = lastOr iv' (c :: cs) := by
  induction cs generalizing c with
  | nil => rfl
  | cons d ds ih => simp only [lastOr]; exact ih d

theorem lastOr_cbcEnc (E : Bytes → Bytes) (iv : Bytes) (ps : List Bytes) :
    lastOr iv (cbcEnc E iv ps) = chain E iv ps := by
  induction ps generalizing iv with
  | nil => rfl
  | cons p ps ih =>
    cases ps with
    | nil => simp [cbcEnc, lastOr, chain]
    | cons q qs =>
      have := ih (E (bxor p iv))
      simp only [cbcEnc, chain] at this ⊢
      simp only [lastOr]
      rw [lastOr_irrel iv (E (bxor p iv))]
      exact this

theorem ctsS_roundtrip {E D : Bytes → Bytes} (L : BlockLaw 16 E D) (iv : Bytes) (hiv : iv.length = 16)
    (front : List Bytes) (hf : AllLen 16 front) (pen last : Bytes) (hpen : pen.length = 16)
    (hl1 : 1 ≤ last.length) (hl2 : last.length ≤ 16) :
    ctsDecS D iv (ctsEncS E iv front pen last) = (front, pen, last) := by
  have hciv := chain_len L iv hiv front hf
  have hx : (bxor pen (chain E iv front)).length = 16 := by simp [hpen, hciv]
  have hcprev : (E (bxor pen (chain E iv front))).length = 16 := L.lenE _ hx
  have hpad : (pad16 last).length = 16 := by simp [pad16]; omega
  have hy : (bxor (pad16 last) (E (bxor pen (chain E iv front)))).length = 16 := by
    simp [hpad, hcprev]
  simp only [ctsEncS, ctsDecS]
  have hstub : ((E (bxor pen (chain E iv front))).take last.length).length = last.length := by
    simp [hcprev]; omega
  rw [hstub, L.DE _ hy]
  have hrec : (E (bxor pen (chain E iv front))).take last.length
      ++ (bxor (pad16 last) (E (bxor pen (chain E iv front)))).drop last.length
      = E (bxor pen (chain E iv front)) := by
    rw [bxor_drop]
    have : (pad16 last).drop last.length = zeros (16 - last.length) := by simp [pad16]
    rw [this]
    have hl : ((E (bxor pen (chain E iv front))).drop last.length).length = 16 - last.length := by
      simp [hcprev]
    rw [← hl, bxor_zeros_left, List.take_append_drop]
  rw [hrec, bxor_cancel _ _ (by omega), L.DE _ hx, lastOr_cbcEnc, bxor_cancel _ _ (by omega),
    cbc_roundtrip L iv hiv front hf]
  simp [pad16]

/-- **flat CTS round trip** for every plaintext of at least 16 bytes (the Kerberos profiles always
    prepend a 16-byte confounder) -/
theorem cts_roundtrip {E D : Bytes → Bytes} (L : BlockLaw 16 E D) (iv : Bytes) (hiv : iv.length = 16)
    (pt : Bytes) (hpt : 16 ≤ pt.length) :
    ctsDec D iv (ctsEnc E iv pt) = some pt ∧ (ctsEnc E iv pt).length = pt.length := by
  by_cases h16 : pt.length = 16
  · -- exactly one block: plain CBC
    have hpad : pad16 pt = pt := by simp [pad16, h16, zeros]
    have hx : (bxor pt iv).length = 16 := by simp [h16, hiv]
    have hE : (E (bxor pt iv)).length = 16 := L.lenE _ hx
    unfold ctsEnc ctsDec
    simp only [h16, Nat.le_refl, if_true, hpad, hE, Nat.lt_irrefl, if_false]
    rw [L.DE _ hx, bxor_cancel _ _ (by omega)]
    simp
  · have hgt : ¬ (pt.length ≤ 16) := by omega
    obtain ⟨m, hmdef⟩ : ∃ m, m = ctsFront pt.length := ⟨_, rfl⟩
    have hm : 16 * m + 17 ≤ pt.length ∧ pt.length ≤ 16 * m + 32 := by
      rw [hmdef]; unfold ctsFront; omega
    obtain ⟨c1, c2, c3⟩ := chunk_allLen 16 m pt (by omega)
    have hpen : ((pt.drop (16 * m)).take 16).length = 16 := by simp; omega
    have hlast1 : 1 ≤ (pt.drop (16 * m + 16)).length := by simp; omega
    have hlast2 : (pt.drop (16 * m + 16)).length ≤ 16 := by simp; omega
    have hrt := ctsS_roundtrip L iv hiv (chunk 16 m pt) c1 _ _ hpen hlast1 hlast2
    -- shape of the output
    obtain ⟨e1, e2⟩ := cbcEnc_allLen L iv hiv _ c1
    have hciv := chain_len L iv hiv (chunk 16 m pt) c1
    have hx : (bxor ((pt.drop (16 * m)).take 16) (chain E iv (chunk 16 m pt))).length = 16 := by
      simp only [bxor_length, hpen, hciv]; omega
    have hcprev := L.lenE _ hx
    have hpad : (pad16 (pt.drop (16 * m + 16))).length = 16 := by simp [pad16]; omega
    have hcn : (E (bxor (pad16 (pt.drop (16 * m + 16)))
        (E (bxor ((pt.drop (16 * m)).take 16) (chain E iv (chunk 16 m pt)))))).length = 16 :=
      L.lenE _ (by simp only [bxor_length, hpad, hcprev]; omega)
    have hfl : (cbcEnc E iv (chunk 16 m pt)).flatten.length = 16 * m := by
      rw [flatten_length_allLen 16 _ e1, e2, c2]
    have hstub : ((E (bxor ((pt.drop (16 * m)).take 16) (chain E iv (chunk 16 m pt)))).take
        (pt.drop (16 * m + 16)).length).length = pt.length - (16 * m + 16) := by
      simp [hcprev]; omega
    have hlen : (ctsEnc E iv pt).length = pt.length := by
      unfold ctsEnc
      simp only [hgt, if_false, ctsEncS, List.length_append, ← hmdef]
      rw [hfl, hcn, hstub]; omega
    refine ⟨?_, hlen⟩
    unfold ctsDec
    have hlt : ¬ (pt.length < 16) := by omega
    simp only [hlen, hlt, h16, if_false, ← hmdef]
    -- splitting the ciphertext recovers the structured output
    have hct : ctsEnc E iv pt =
        (cbcEnc E iv (chunk 16 m pt)).flatten ++
        ((ctsEncS E iv (chunk 16 m pt) ((pt.drop (16 * m)).take 16) (pt.drop (16 * m + 16))).cn ++
         (ctsEncS E iv (chunk 16 m pt) ((pt.drop (16 * m)).take 16) (pt.drop (16 * m + 16))).stub) := by
      unfold ctsEnc
      simp only [hgt, if_false, List.append_assoc, ← hmdef]
      rfl
    have hchunk : chunk 16 m (ctsEnc E iv pt) = cbcEnc E iv (chunk 16 m pt) := by
      rw [hct]
      have := chunk_flatten 16 (cbcEnc E iv (chunk 16 m pt)) e1
        ((ctsEncS E iv (chunk 16 m pt) ((pt.drop (16 * m)).take 16) (pt.drop (16 * m + 16))).cn ++
         (ctsEncS E iv (chunk 16 m pt) ((pt.drop (16 * m)).take 16) (pt.drop (16 * m + 16))).stub)
      rw [e2, c2] at this
      exact this
    have hcnEq : ((ctsEnc E iv pt).drop (16 * m)).take 16 =
        (ctsEncS E iv (chunk 16 m pt) ((pt.drop (16 * m)).take 16) (pt.drop (16 * m + 16))).cn := by
      have hcn' : (ctsEncS E iv (chunk 16 m pt) ((pt.drop (16 * m)).take 16)
            (pt.drop (16 * m + 16))).cn.length = 16 := hcn
      rw [hct, List.drop_left' hfl, List.take_left' hcn']
    have hstubEq : (ctsEnc E iv pt).drop (16 * m + 16) =
        (ctsEncS E iv (chunk 16 m pt) ((pt.drop (16 * m)).take 16) (pt.drop (16 * m + 16))).stub := by
      rw [hct, ← List.append_assoc]
      have : ((cbcEnc E iv (chunk 16 m pt)).flatten ++
          (ctsEncS E iv (chunk 16 m pt) ((pt.drop (16 * m)).take 16)
            (pt.drop (16 * m + 16))).cn).length = 16 * m + 16 := by
        rw [List.length_append, hfl]
        have : (ctsEncS E iv (chunk 16 m pt) ((pt.drop (16 * m)).take 16)
            (pt.drop (16 * m + 16))).cn.length = 16 := hcn
        rw [this]
      rw [List.drop_left' this]
    rw [hchunk, hcnEq, hstubEq]
    have heta : (CtsOut.mk (cbcEnc E iv (chunk 16 m pt))
        (ctsEncS E iv (chunk 16 m pt) ((pt.drop (16 * m)).take 16) (pt.drop (16 * m + 16))).cn
        (ctsEncS E iv (chunk 16 m pt) ((pt.drop (16 * m)).take 16) (pt.drop (16 * m + 16))).stub)
        = ctsEncS E iv (chunk 16 m pt) ((pt.drop (16 * m)).take 16) (pt.drop (16 * m + 16)) := rfl
    rw [heta]
    rw [hrt]
    simp only [c3]
    -- reassemble: take (16 m) ++ (drop (16 m)).take 16 ++ drop (16 m + 16)
    have h1 : (pt.drop (16 * m)).take 16 ++ pt.drop (16 * m + 16) = pt.drop (16 * m) := by
      have : pt.drop (16 * m + 16) = (pt.drop (16 * m)).drop 16 := by
        rw [List.drop_drop]
      rw [this, List.take_append_drop]
    rw [List.append_assoc, h1, List.take_append_drop]

end Krb.Crypto
