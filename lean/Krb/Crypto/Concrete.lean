/- Concrete instance of `Prims` from the independent Lean implementations (driver only). -/
import Krb.Crypto.Prims
import Krb.Prims.Sha1
import Krb.Prims.Sha2
import Krb.Prims.Md4
import Krb.Prims.Md5
import Krb.Prims.Hmac
import Krb.Prims.Pbkdf2
import Krb.Prims.Aes
import Krb.Prims.Des
import Krb.Prims.Rc4
namespace Krb.Crypto
open Krb Krb.Prims

def concrete : Prims where
  sha1 := liftBA sha1
  sha256 := liftBA sha256
  sha384 := liftBA sha384
  md4 := liftBA md4
  md5 := liftBA md5
  hmacSha1 := liftBA2 Krb.Prims.hmacSha1
  hmacSha256 := liftBA2 Krb.Prims.hmacSha256
  hmacSha384 := liftBA2 Krb.Prims.hmacSha384
  hmacMd5 := liftBA2 Krb.Prims.hmacMd5
  aesE := fun k b => ofBA ((aesExpandKey (toBA k)).encryptBlock (toBA b))
  aesD := fun k b => ofBA ((aesExpandKey (toBA k)).decryptBlock (toBA b))
  des3E := fun k b => ofBA (des3EncryptBlock (toBA k) (toBA b))
  des3D := fun k b => ofBA (des3DecryptBlock (toBA k) (toBA b))
  rc4 := liftBA2 Krb.Prims.rc4
  pbkdf2Sha1 := fun p s i n => ofBA (pbkdf2HmacSha1 (toBA p) (toBA s) i n)
  pbkdf2Sha256 := fun p s i n => ofBA (pbkdf2HmacSha256 (toBA p) (toBA s) i n)
  pbkdf2Sha384 := fun p s i n => ofBA (pbkdf2HmacSha384 (toBA p) (toBA s) i n)

end Krb.Crypto
