/-
  C11 — a client and its configuration can be shared by goroutines safely.

  What a proof can carry here: (1) the server order is a permutation of the configured list for every
  sequence of random choices, computed on a copy; (2) with every cache method one critical section, any
  interleaving of goroutines is a sequence of atomic steps, under which every (ticket, key) pair in the
  cache was issued together — and the unguarded two-step write is refuted by witness; (3) regenerated
  facts: in the source as it is now every method of the shared structures touches the guarded fields only
  while holding the lock.  Data races and deadlocks of the real runtime are the race-detector workload's
  matter (see the evidence): a theorem about the model cannot exhibit them.
-/
import Krb.Model.Shared
import Krb.Gen.ClientShape
namespace Krb.C11
open Krb Krb.Shared

/-! ### server order -/

theorem getLast_dropLast_perm (xs : List Nat) (last : Nat) (h : xs.getLast? = some last) :
    (last :: xs.dropLast).Perm xs := by
  have hne : xs ≠ [] := by intro hc; subst hc; simp at h
  have hl : xs.getLast hne = last := by
    have := List.getLast?_eq_some_getLast hne
    rw [h] at this
    exact (Option.some.inj this).symm
  have := List.dropLast_concat_getLast hne
  rw [hl] at this
  calc (last :: xs.dropLast).Perm (xs.dropLast ++ [last]) := (List.perm_append_singleton last xs.dropLast).symm
    _ = xs := this

/-- taking out the server at index i (swap with the last, truncate) and putting it in front is a
    permutation of the list -/
theorem swapRemove_perm (l : List Nat) (i : Nat) (d : Nat) (h : i < l.length) :
    (l.getD i d :: swapRemove l i).Perm l := by
  induction l generalizing i with
  | nil => simp at h
  | cons x xs ih =>
    cases xs with
    | nil =>
      have : i = 0 := by simpa using h
      subst this
      simp [swapRemove]
    | cons y ys =>
      have hl : (x :: y :: ys).getLast? = (y :: ys).getLast? := by simp [List.getLast?_cons_cons]
      obtain ⟨last, hlast⟩ : ∃ last, (y :: ys).getLast? = some last := by
        cases hg : (y :: ys).getLast? with
        | none => simp at hg
        | some v => exact ⟨v, rfl⟩
      cases i with
      | zero =>
        simp only [swapRemove, hl, hlast, List.set_cons_zero, List.getD_cons_zero]
        rw [List.dropLast_cons_of_ne_nil (by simp)]
        exact (getLast_dropLast_perm (y :: ys) last hlast).cons x
      | succ j =>
        have hj : j < (y :: ys).length := by simpa using h
        have ih' := ih j hj
        simp only [swapRemove, hl, hlast, List.set_cons_succ, List.getD_cons_succ] at ih' ⊢
        rw [List.dropLast_cons_of_ne_nil (by
          intro hcon
          have := congrArg List.length hcon
          simp at this)]
        exact (List.Perm.swap x _ _).trans (ih'.cons x)

/-- **randServ_perm.** Whatever the random choices, the order in which servers are tried is a
    permutation of the configured list (nothing dropped, nothing duplicated, nothing invented). -/
theorem randServ_perm (l : List Nat) (cs : List Nat) (h : l.length ≤ cs.length) :
    (randServOrder l cs).Perm l := by
  induction cs generalizing l with
  | nil =>
    have : l = [] := by cases l <;> simp_all
    subst this
    simp [randServOrder]
  | cons c cs ih =>
    cases l with
    | nil => simp [randServOrder]
    | cons x xs =>
      rw [randServOrder]
      have hi : c % (x :: xs).length < (x :: xs).length := Nat.mod_lt _ (by simp)
      generalize c % (x :: xs).length = i at hi ⊢
      have hp := (swapRemove_perm (x :: xs) i x hi).length_eq
      have hlen : (swapRemove (x :: xs) i).length ≤ cs.length := by
        simp only [List.length_cons] at hp h
        omega
      exact ((ih _ hlen).cons _).trans (swapRemove_perm (x :: xs) i x hi)

/-! ### the shared cache -/

def Issued (steps : List Step) (spn : Nat) (p : Pair) : Prop := Step.add spn p ∈ steps

theorem step_inv (c : Cache) (s : Step) (seen : List Step)
    (h : ∀ e ∈ c, Issued seen e.1 e.2) : ∀ e ∈ step c s, Issued (seen ++ [s]) e.1 e.2 := by
  intro e he
  unfold Issued
  cases s with
  | add spn p =>
    simp only [step, List.mem_cons, List.mem_filter] at he
    rcases he with he | he
    · subst he; simp
    · have := h e he.1; unfold Issued at this; simp [this]
  | clear => simp [step] at he
  | remove spn =>
    simp only [step, List.mem_filter] at he
    have := h e he.1; unfold Issued at this; simp [this]

theorem run_inv (c : Cache) (steps seen : List Step) (h : ∀ e ∈ c, Issued seen e.1 e.2) :
    ∀ e ∈ run c steps, Issued (seen ++ steps) e.1 e.2 := by
  induction steps generalizing c seen with
  | nil => simpa [run] using h
  | cons s rest ih =>
    have := ih (step c s) (seen ++ [s]) (step_inv c s seen h)
    simpa [run, List.append_assoc] using this

/-- **pairs_issued_together.** Under every interleaving of goroutines adding, removing and clearing
    entries, whatever the cache hands out for an SPN is a (ticket, key) pair that was stored together
    for that SPN. -/
theorem pairs_issued_together (steps : List Step) (spn : Nat) (p : Pair) (h : Shared.get (run [] steps) spn = some p) :
    Issued steps spn p := by
  unfold Shared.get at h
  cases hf : (run [] steps).find? (·.1 = spn) with
  | none => simp [hf] at h
  | some e =>
    simp only [hf, Option.map_some, Option.some.injEq] at h
    have hm := List.mem_of_find?_eq_some hf
    have hk := List.find?_some hf
    simp only [decide_eq_true_eq] at hk
    have := run_inv [] steps [] (by simp) e hm
    simp only [List.nil_append] at this
    rw [← h, ← hk]; exact this

/-- two goroutines storing (ticket 1, key 1) and (ticket 2, key 2) for the same SPN field by field can
    leave (ticket 2, key 1): a pair that was never issued together -/
theorem torn_write_counterexample :
    ([Step0.setTicket 7 1, .setTicket 7 2, .setKey 7 2, .setKey 7 1].foldl step0 []) = [(7, { ticket := 2, key := 1 })] := by
  decide

/-! ### (T) the lock discipline of the current source -/

/-- **lock_facts.** In the source as it is now the methods of the service-ticket cache, of the session
    table, of a session and of the client settings touch the guarded fields only while holding the
    lock; the only unguarded access in the auto-renewal goroutine is the read of its own cancel channel
    (assigned before the goroutine starts). -/
theorem lock_facts :
    (["Cache.addEntry", "Cache.getEntry", "Cache.clear", "Cache.RemoveEntry", "Cache.JSON",
      "sessions.update", "sessions.get", "sessions.destroy", "sessions.JSON",
      "session.update", "session.destroy", "session.valid", "session.tgtDetails", "session.timeDetails",
      "Client.addSession", "Client.enableAutoSessionRenewal", "Client.ensureValidSession", "Client.refreshSession",
      "Settings.AssumePreAuthentication", "Settings.setAssumePreAuthentication", "Settings.negotiatedPreAuthEType",
      "Settings.setNegotiatedPreAuthEType", "Settings.negotiatedPreAuthHints", "Settings.JSON"].all
        (fun n => match Gen.clientShape n with | some (_, _, 0) => true | _ => false)) = true ∧
    Gen.clientShape "Client.enableAutoSessionRenewal.go0" = some (2, 0, 1) ∧
    Gen.clientShape "Cache.addEntry" = some (1, 1, 0) ∧ Gen.clientShape "Cache.getEntry" = some (1, 0, 0) := by
  decide

/-! non-vacuity -/
example : randServOrder [10, 20, 30, 40] [2, 5, 1, 0] = [30, 40, 20, 10] := by simp [randServOrder, swapRemove]
example : Shared.get (run [] [.add 7 ⟨1, 1⟩, .add 8 ⟨3, 3⟩, .add 7 ⟨2, 2⟩, .remove 8]) 7 = some ⟨2, 2⟩ := by decide

end Krb.C11
