/-
  C05 — Message encryption interoperates with the RFC definitions for all six etypes.

  The theorems are about the RFC specification `Krb.Crypto.encrypt/decrypt` (file Crypto/Spec.lean),
  for every `Prims` that satisfies the functional laws `Prims.Lawful`.  That the Go code equals this
  specification on every input is established by the correspondence run (both directions), not here.

    * `roundtrip_raw`, `roundtrip` : decrypt ∘ encrypt = id for every key, usage, confounder and
                                      plaintext of every length (all block-boundary / stealing cases)
    * `encrypt_length`             : ciphertext length as a function of the plaintext length
    * `fresh`                      : different confounders give different ciphertexts
    * `usage_bytes`, `msgType_facts`: rc4 message type = LE32 of the aliased usage, and the bytes the
                                      Go function produces (regenerated fact table) are exactly these
    * `profile_facts`              : the parameters the Go etypes report equal the RFC profile table
-/
import Krb.Crypto.Spec
import Krb.Crypto.ModesProofs
import Krb.Gen.CryptoFacts
namespace Krb.C05

open Krb Krb.Crypto

variable {P : Prims}

theorem aesLaw (hP : P.Lawful) (k : Bytes) : BlockLaw 16 (P.aesE k) (P.aesD k) :=
  ⟨hP.aesDE k, hP.aesE_len k⟩

theorem des3Law (hP : P.Lawful) (k : Bytes) : BlockLaw 8 (P.des3E k) (P.des3D k) :=
  ⟨hP.des3DE k, hP.des3E_len k⟩

theorem zeroPadTo_mod (b : Bytes) : (zeroPadTo 8 b).length % 8 = 0 := by
  unfold zeroPadTo
  split
  · assumption
  · simp; omega

theorem zeroPadTo_ge (b : Bytes) : b.length ≤ (zeroPadTo 8 b).length := by
  unfold zeroPadTo
  split <;> simp

/-- the stream that is encrypted: confounder ‖ plaintext (‖ zero padding for des3) -/
def plainStream (et : EType) (conf pt : Bytes) : Bytes :=
  match et with
  | .des3 => zeroPadTo 8 (conf ++ pt)
  | _ => conf ++ pt

theorem take_append_len (a b : Bytes) (n : Nat) (h : n = a.length) : (a ++ b).take n = a := by
  subst h; simp

theorem drop_append_len (a b : Bytes) (n : Nat) (h : n = a.length) : (a ++ b).drop n = b := by
  subst h; simp

/-- **C05 roundtrip (raw).** For every etype, key, usage, confounder of the etype's confounder length
    and plaintext of any length, decrypting the encryption returns confounder ‖ plaintext (‖ padding). -/
theorem roundtrip_raw (hP : P.Lawful) (et : EType) (key : Bytes) (usage : Nat) (conf pt : Bytes)
    (hc : conf.length = et.confLen) :
    decryptRaw P et key usage (encrypt P et key usage conf pt) = some (plainStream et conf pt) := by
  cases et with
  | des3 =>
    simp only [EType.confLen] at hc
    have hmod := zeroPadTo_mod (conf ++ pt)
    have hge := zeroPadTo_ge (conf ++ pt)
    have hlen8 : 8 ≤ (zeroPadTo 8 (conf ++ pt)).length := by simp at hge; omega
    obtain ⟨r1, r2⟩ := cbcFlat_roundtrip (des3Law hP (deriveKey P .des3 key usage .Ke)) (by omega)
      (zeros 8) (by simp) (zeroPadTo 8 (conf ++ pt)) hmod
    have hmac := hP.hmacSha1_len (deriveKey P .des3 key usage .Ki) (zeroPadTo 8 (conf ++ pt))
    simp only [encrypt, decryptRaw, plainStream]
    have hl : (cbcEncFlat (P.des3E (deriveKey P .des3 key usage .Ke)) 8 (zeros 8)
        (zeroPadTo 8 (conf ++ pt)) ++
        P.hmacSha1 (deriveKey P .des3 key usage .Ki) (zeroPadTo 8 (conf ++ pt))).length
        = (zeroPadTo 8 (conf ++ pt)).length + 20 := by
      rw [List.length_append, r2, hmac]
    simp only [hl]
    have h1 : ¬ ((zeroPadTo 8 (conf ++ pt)).length + 20 < 20 + 8) := by omega
    simp only [h1, if_false, Nat.add_sub_cancel]
    rw [take_append_len _ _ _ r2.symm, drop_append_len _ _ _ r2.symm]
    have h2 : ¬ ((cbcEncFlat (P.des3E (deriveKey P .des3 key usage .Ke)) 8 (zeros 8)
        (zeroPadTo 8 (conf ++ pt))).length % 8 ≠ 0) := by rw [r2]; omega
    simp only [h2, if_false, r1, if_true]
  | aes128 =>
    simp only [EType.confLen] at hc
    have hlen : 16 ≤ (conf ++ pt).length := by simp; omega
    obtain ⟨r1, r2⟩ := cts_roundtrip (aesLaw hP (deriveKey P .aes128 key usage .Ke)) (zeros 16)
      (by simp) (conf ++ pt) hlen
    have hmac := hP.hmacSha1_len (deriveKey P .aes128 key usage .Ki) (conf ++ pt)
    have htag : ((P.hmacSha1 (deriveKey P .aes128 key usage .Ki) (conf ++ pt)).take 12).length = 12 := by
      simp [hmac]
    simp only [encrypt, decryptRaw, plainStream]
    have hl : (ctsEnc (P.aesE (deriveKey P .aes128 key usage .Ke)) (zeros 16) (conf ++ pt) ++
        (P.hmacSha1 (deriveKey P .aes128 key usage .Ki) (conf ++ pt)).take 12).length
        = (conf ++ pt).length + 12 := by
      rw [List.length_append, r2, htag]
    simp only [hl]
    have h1 : ¬ ((conf ++ pt).length + 12 < 12 + 16) := by omega
    simp only [h1, if_false, Nat.add_sub_cancel]
    rw [take_append_len _ _ _ r2.symm, drop_append_len _ _ _ r2.symm, r1]
    simp
  | aes256 =>
    simp only [EType.confLen] at hc
    have hlen : 16 ≤ (conf ++ pt).length := by simp; omega
    obtain ⟨r1, r2⟩ := cts_roundtrip (aesLaw hP (deriveKey P .aes256 key usage .Ke)) (zeros 16)
      (by simp) (conf ++ pt) hlen
    have hmac := hP.hmacSha1_len (deriveKey P .aes256 key usage .Ki) (conf ++ pt)
    have htag : ((P.hmacSha1 (deriveKey P .aes256 key usage .Ki) (conf ++ pt)).take 12).length = 12 := by
      simp [hmac]
    simp only [encrypt, decryptRaw, plainStream]
    have hl : (ctsEnc (P.aesE (deriveKey P .aes256 key usage .Ke)) (zeros 16) (conf ++ pt) ++
        (P.hmacSha1 (deriveKey P .aes256 key usage .Ki) (conf ++ pt)).take 12).length
        = (conf ++ pt).length + 12 := by
      rw [List.length_append, r2, htag]
    simp only [hl]
    have h1 : ¬ ((conf ++ pt).length + 12 < 12 + 16) := by omega
    simp only [h1, if_false, Nat.add_sub_cancel]
    rw [take_append_len _ _ _ r2.symm, drop_append_len _ _ _ r2.symm, r1]
    simp
  | aes128sha2 =>
    simp only [EType.confLen] at hc
    have hlen : 16 ≤ (conf ++ pt).length := by simp; omega
    obtain ⟨r1, r2⟩ := cts_roundtrip (aesLaw hP (deriveKey P .aes128sha2 key usage .Ke)) (zeros 16)
      (by simp) (conf ++ pt) hlen
    have hmac := hP.hmacSha256_len (deriveKey P .aes128sha2 key usage .Ki)
      (zeros 16 ++ ctsEnc (P.aesE (deriveKey P .aes128sha2 key usage .Ke)) (zeros 16) (conf ++ pt))
    simp only [encrypt, decryptRaw, plainStream, EType.macLen, hmacOf]
    have htag : ((P.hmacSha256 (deriveKey P .aes128sha2 key usage .Ki)
        (zeros 16 ++ ctsEnc (P.aesE (deriveKey P .aes128sha2 key usage .Ke)) (zeros 16)
          (conf ++ pt))).take 16).length = 16 := by simp [hmac]
    have hl : (ctsEnc (P.aesE (deriveKey P .aes128sha2 key usage .Ke)) (zeros 16) (conf ++ pt) ++
        (P.hmacSha256 (deriveKey P .aes128sha2 key usage .Ki)
          (zeros 16 ++ ctsEnc (P.aesE (deriveKey P .aes128sha2 key usage .Ke)) (zeros 16)
            (conf ++ pt))).take 16).length = (conf ++ pt).length + 16 := by
      rw [List.length_append, r2, htag]
    simp only [hl]
    have h1 : ¬ ((conf ++ pt).length + 16 < 16 + 16) := by omega
    simp only [h1, if_false, Nat.add_sub_cancel]
    rw [take_append_len _ _ _ r2.symm, drop_append_len _ _ _ r2.symm, r1]
    simp
  | aes256sha2 =>
    simp only [EType.confLen] at hc
    have hlen : 16 ≤ (conf ++ pt).length := by simp; omega
    obtain ⟨r1, r2⟩ := cts_roundtrip (aesLaw hP (deriveKey P .aes256sha2 key usage .Ke)) (zeros 16)
      (by simp) (conf ++ pt) hlen
    have hmac := hP.hmacSha384_len (deriveKey P .aes256sha2 key usage .Ki)
      (zeros 16 ++ ctsEnc (P.aesE (deriveKey P .aes256sha2 key usage .Ke)) (zeros 16) (conf ++ pt))
    simp only [encrypt, decryptRaw, plainStream, EType.macLen, hmacOf]
    have htag : ((P.hmacSha384 (deriveKey P .aes256sha2 key usage .Ki)
        (zeros 16 ++ ctsEnc (P.aesE (deriveKey P .aes256sha2 key usage .Ke)) (zeros 16)
          (conf ++ pt))).take 24).length = 24 := by simp [hmac]
    have hl : (ctsEnc (P.aesE (deriveKey P .aes256sha2 key usage .Ke)) (zeros 16) (conf ++ pt) ++
        (P.hmacSha384 (deriveKey P .aes256sha2 key usage .Ki)
          (zeros 16 ++ ctsEnc (P.aesE (deriveKey P .aes256sha2 key usage .Ke)) (zeros 16)
            (conf ++ pt))).take 24).length = (conf ++ pt).length + 24 := by
      rw [List.length_append, r2, htag]
    simp only [hl]
    have h1 : ¬ ((conf ++ pt).length + 24 < 24 + 16) := by omega
    simp only [h1, if_false, Nat.add_sub_cancel]
    rw [take_append_len _ _ _ r2.symm, drop_append_len _ _ _ r2.symm, r1]
    simp
  | rc4 =>
    simp only [EType.confLen] at hc
    simp only [encrypt, decryptRaw, plainStream]
    have hck := hP.hmacMd5_len (P.hmacMd5 key (rc4MsgType usage)) (conf ++ pt)
    have hl : (P.hmacMd5 (P.hmacMd5 key (rc4MsgType usage)) (conf ++ pt) ++
        P.rc4 (P.hmacMd5 (P.hmacMd5 key (rc4MsgType usage))
          (P.hmacMd5 (P.hmacMd5 key (rc4MsgType usage)) (conf ++ pt))) (conf ++ pt)).length
        = 16 + (conf ++ pt).length := by
      rw [List.length_append, hck, hP.rc4_len]
    simp only [hl]
    have h1 : ¬ (16 + (conf ++ pt).length < 16 + 8) := by simp; omega
    simp only [h1, if_false]
    simp only [take_append_len _ _ _ hck.symm, drop_append_len _ _ _ hck.symm, hP.rc4_invol,
      if_true]

/-- what the caller gets back: the plaintext, followed for des3 by the zero padding RFC 3961 adds -/
def padded (et : EType) (conf pt : Bytes) : Bytes := (plainStream et conf pt).drop et.confLen

/-- **C05 roundtrip.** -/
theorem roundtrip (hP : P.Lawful) (et : EType) (key : Bytes) (usage : Nat) (conf pt : Bytes)
    (hc : conf.length = et.confLen) :
    decrypt P et key usage (encrypt P et key usage conf pt) = some (padded et conf pt) := by
  unfold decrypt
  rw [roundtrip_raw hP et key usage conf pt hc]
  rfl

/-- apart from des3 the result is exactly the plaintext -/
theorem padded_eq (et : EType) (conf pt : Bytes) (hc : conf.length = et.confLen) (h : et ≠ .des3) :
    padded et conf pt = pt := by
  cases et <;> simp_all [padded, plainStream]

/-- for des3 the result is the plaintext followed only by zero bytes (fewer than 8) -/
theorem padded_des3 (conf pt : Bytes) (hc : conf.length = 8) :
    ∃ n, n < 8 ∧ padded .des3 conf pt = pt ++ zeros n := by
  unfold padded plainStream zeroPadTo
  simp only [EType.confLen]
  split
  · exact ⟨0, by omega, by simp [← hc, zeros]⟩
  · refine ⟨8 - (conf ++ pt).length % 8, by omega, ?_⟩
    rw [List.append_assoc, drop_append_len _ _ _ hc.symm]

/-- **C05 fresh.** Two encryptions of the same plaintext under different confounders differ. -/
theorem fresh (hP : P.Lawful) (et : EType) (key : Bytes) (usage : Nat) (conf conf' pt : Bytes)
    (hc : conf.length = et.confLen) (hc' : conf'.length = et.confLen) (hne : conf ≠ conf') :
    encrypt P et key usage conf pt ≠ encrypt P et key usage conf' pt := by
  intro heq
  have h1 := roundtrip_raw hP et key usage conf pt hc
  have h2 := roundtrip_raw hP et key usage conf' pt hc'
  rw [heq, h2] at h1
  simp only [Option.some.injEq] at h1
  -- the first confLen bytes of the stream are the confounder
  have ht : ∀ c : Bytes, c.length = et.confLen → (plainStream et c pt).take et.confLen = c := by
    intro c hcl
    cases et <;> simp only [plainStream, zeroPadTo] <;> try (rw [take_append_len _ _ _ hcl.symm])
    split
    · rw [take_append_len _ _ _ hcl.symm]
    · rw [List.append_assoc, take_append_len _ _ _ hcl.symm]
  have := congrArg (fun s => s.take et.confLen) h1
  simp only [ht conf hc, ht conf' hc'] at this
  exact hne this.symm

/-- **C05 length.** -/
theorem encrypt_length (hP : P.Lawful) (et : EType) (key : Bytes) (usage : Nat) (conf pt : Bytes)
    (hc : conf.length = et.confLen) :
    (encrypt P et key usage conf pt).length = (plainStream et conf pt).length + et.macLen := by
  cases et with
  | des3 =>
    have hmod := zeroPadTo_mod (conf ++ pt)
    obtain ⟨_, r2⟩ := cbcFlat_roundtrip (des3Law hP (deriveKey P .des3 key usage .Ke)) (by omega)
      (zeros 8) (by simp) (zeroPadTo 8 (conf ++ pt)) hmod
    simp only [encrypt, plainStream, EType.macLen, List.length_append, r2, hP.hmacSha1_len]
  | aes128 =>
    simp only [EType.confLen] at hc
    obtain ⟨_, r2⟩ := cts_roundtrip (aesLaw hP (deriveKey P .aes128 key usage .Ke)) (zeros 16)
      (by simp) (conf ++ pt) (by simp; omega)
    simp only [encrypt, plainStream, EType.macLen, List.length_append, r2, List.length_take,
      hP.hmacSha1_len]
    omega
  | aes256 =>
    simp only [EType.confLen] at hc
    obtain ⟨_, r2⟩ := cts_roundtrip (aesLaw hP (deriveKey P .aes256 key usage .Ke)) (zeros 16)
      (by simp) (conf ++ pt) (by simp; omega)
    simp only [encrypt, plainStream, EType.macLen, List.length_append, r2, List.length_take,
      hP.hmacSha1_len]
    omega
  | aes128sha2 =>
    simp only [EType.confLen] at hc
    obtain ⟨_, r2⟩ := cts_roundtrip (aesLaw hP (deriveKey P .aes128sha2 key usage .Ke)) (zeros 16)
      (by simp) (conf ++ pt) (by simp; omega)
    simp only [encrypt, plainStream, EType.macLen, List.length_append, r2, List.length_take, hmacOf,
      hP.hmacSha256_len]
    omega
  | aes256sha2 =>
    simp only [EType.confLen] at hc
    obtain ⟨_, r2⟩ := cts_roundtrip (aesLaw hP (deriveKey P .aes256sha2 key usage .Ke)) (zeros 16)
      (by simp) (conf ++ pt) (by simp; omega)
    simp only [encrypt, plainStream, EType.macLen, List.length_append, r2, List.length_take, hmacOf,
      hP.hmacSha384_len]
    omega
  | rc4 =>
    simp only [encrypt, plainStream, EType.macLen, List.length_append, hP.hmacMd5_len, hP.rc4_len]
    omega

/-! ## rc4 message type -/

/-- **C05 usage_bytes.** T is the aliased usage as a 32-bit little-endian integer (RFC 4757 §3). -/
theorem usage_bytes (u : Nat) : rc4MsgType u = le32 (rc4Alias u) := rfl

/-- the pre-fix Go encoding (`binary.PutUvarint` into a 4-byte buffer), kept as a witness model -/
def msgType_v0 (u : Nat) : Bytes :=
  let v := rc4Alias u
  if v < 128 then [UInt8.ofNat v, 0, 0, 0]
  else if v < 16384 then [UInt8.ofNat (v % 128 + 128), UInt8.ofNat (v / 128), 0, 0]
  else [UInt8.ofNat (v % 128 + 128), UInt8.ofNat (v / 128 % 128 + 128), UInt8.ofNat (v / 16384), 0]

/-- the unrepaired encoding disagreed with the RFC from usage 128 on (defect fixed in /repo) -/
theorem msgType_v0_counterexample : msgType_v0 128 ≠ rc4MsgType 128 := by decide

/-- **T-tie.** every row of the regenerated table (usages 0..300 and boundaries up to 2^32−1, produced
    by running `rfc4757.UsageToMSMsgType` of the current tree) equals the RFC value -/
theorem msgType_facts : ∀ p ∈ Gen.rc4MsgTypes, p.2 = rc4MsgType p.1 := by decide +kernel

/-- the profile parameters as the RFCs give them, in the order of the generated table:
    (id, key bytes, conf bytes, mac bytes, checksum type) -/
def rfcProfile (et : EType) : Nat × Nat × Nat × Nat × Int :=
  (et.id, et.keyLen, et.confLen, et.macLen, et.cksumType)

/-- **T-tie.** what the Go etypes report (regenerated) equals the RFC profile table, and exactly the
    six etypes are supported -/
theorem profile_facts :
    Gen.etypeProfile.map (fun (id, key, _seed, conf, mac, _cb, _mb, ck) => (id, key, conf, mac, ck))
      = [EType.des3, .aes128, .aes256, .aes128sha2, .aes256sha2, .rc4].map rfcProfile := by decide

/-! ## non-vacuity -/

/-- the laws are satisfiable: a toy instance (identity ciphers, constant-length MACs) -/
def toy : Prims where
  sha1 := fun _ => zeros 20
  sha256 := fun _ => zeros 32
  sha384 := fun _ => zeros 48
  md4 := fun _ => zeros 16
  md5 := fun _ => zeros 16
  hmacSha1 := fun _ _ => zeros 20
  hmacSha256 := fun _ _ => zeros 32
  hmacSha384 := fun _ _ => zeros 48
  hmacMd5 := fun _ _ => zeros 16
  aesE := fun _ b => b
  aesD := fun _ b => b
  des3E := fun _ b => b
  des3D := fun _ b => b
  rc4 := fun _ d => d
  pbkdf2Sha1 := fun _ _ _ n => zeros n
  pbkdf2Sha256 := fun _ _ _ n => zeros n
  pbkdf2Sha384 := fun _ _ _ n => zeros n

theorem toy_lawful : toy.Lawful := by
  constructor <;> intros <;> simp_all [toy]

example : decrypt toy .aes256 [1] 3 (encrypt toy .aes256 [1] 3 (zeros 16) [1, 2, 3])
    = some [1, 2, 3] := by
  rw [roundtrip toy_lawful _ _ _ _ _ (by simp [EType.confLen]), padded_eq _ _ _ (by simp [EType.confLen]) (by decide)]

end Krb.C05
