/-
  C06 — Decryption returns plaintext only for authentic ciphertexts.

  Statements about the RFC specification `decryptRaw` (tied to the Go code by the correspondence run,
  which includes every single-bit flip and truncation):

    * `accept_implies_mac`   : success ⇒ the tag region equals the MAC, under the integrity key derived
                               from the presented key and usage, of exactly the data that is returned
                               (or, for RFC 8009, of IV ‖ ciphertext body)
    * `min_length`           : anything shorter than confounder + tag is rejected
    * `tag_exact`            : two inputs with the same body and different tag regions are never both
                               accepted (covers every bit flip, truncation and extension of the tag)
    * `tamper_collision_sha2`, `tamper_collision_rc4`
                             : accepting a body different from a genuine one exhibits a collision of
                               the (truncated) HMAC — the honest form of "tampering is rejected"
    * `alias_exact`          : two usages give the same rc4 message type iff their aliases coincide
-/
import Krb.Crypto.Spec
import Krb.Crypto.ModesProofs
import Krb.Props.C05
namespace Krb.C06

open Krb Krb.Crypto

variable {P : Prims}

/-- the tag region of a ciphertext -/
def tagOf (et : EType) (ct : Bytes) : Bytes :=
  match et with
  | .rc4 => ct.take 16
  | _ => ct.drop (ct.length - et.macLen)

/-- the body region (what is decrypted) -/
def bodyOf (et : EType) (ct : Bytes) : Bytes :=
  match et with
  | .rc4 => ct.drop 16
  | _ => ct.take (ct.length - et.macLen)

/-- the MAC the tag must equal, given the decrypted stream `p` -/
def macFor (P : Prims) (et : EType) (key : Bytes) (usage : Nat) (ct p : Bytes) : Bytes :=
  match et with
  | .des3 => P.hmacSha1 (deriveKey P et key usage .Ki) p
  | .aes128 | .aes256 => (P.hmacSha1 (deriveKey P et key usage .Ki) p).take 12
  | .aes128sha2 | .aes256sha2 =>
    (hmacOf P et (deriveKey P et key usage .Ki) (zeros 16 ++ bodyOf et ct)).take et.macLen
  | .rc4 => P.hmacMd5 (P.hmacMd5 key (rc4MsgType usage)) p

/-- **C06 accept_implies_mac.** -/
theorem accept_implies_mac (et : EType) (key : Bytes) (usage : Nat) (ct p : Bytes)
    (h : decryptRaw P et key usage ct = some p) :
    tagOf et ct = macFor P et key usage ct p := by
  cases et <;> simp only [decryptRaw, tagOf, macFor, bodyOf, EType.macLen] at h ⊢
  · -- des3
    split at h; · simp at h
    split at h; · simp at h
    split at h
    · rename_i ht; simp only [Option.some.injEq] at h; rw [← h]; exact ht
    · simp at h
  · split at h; · simp at h
    split at h
    · simp at h
    · split at h
      · rename_i ht; simp only [Option.some.injEq] at h; rw [← h]; exact ht
      · simp at h
  · split at h; · simp at h
    split at h
    · simp at h
    · split at h
      · rename_i ht; simp only [Option.some.injEq] at h; rw [← h]; exact ht
      · simp at h
  · by_cases h1 : ct.length < 16 + 16
    · simp [h1] at h
    · simp only [h1, if_false] at h
      by_cases h2 : ct.drop (ct.length - 16) = (hmacOf P .aes128sha2
          (deriveKey P .aes128sha2 key usage .Ki) (zeros 16 ++ ct.take (ct.length - 16))).take 16
      · exact h2
      · simp [h2] at h
  · by_cases h1 : ct.length < 24 + 16
    · simp [h1] at h
    · simp only [h1, if_false] at h
      by_cases h2 : ct.drop (ct.length - 24) = (hmacOf P .aes256sha2
          (deriveKey P .aes256sha2 key usage .Ki) (zeros 16 ++ ct.take (ct.length - 24))).take 24
      · exact h2
      · simp [h2] at h
  · split at h; · simp at h
    split at h
    · rename_i ht; simp only [Option.some.injEq] at h; rw [← h]; exact ht
    · simp at h

/-- **C06 min_length.** Every input shorter than confounder + tag is rejected (no slicing panic, no
    plaintext). -/
theorem min_length (et : EType) (key : Bytes) (usage : Nat) (ct : Bytes)
    (h : ct.length < et.confLen + et.macLen) : decryptRaw P et key usage ct = none := by
  cases et <;> simp only [decryptRaw, EType.confLen, EType.macLen] at h ⊢
  · have : ct.length < 20 + 8 := by omega
    simp [this]
  · have : ct.length < 12 + 16 := by omega
    simp [this]
  · have : ct.length < 12 + 16 := by omega
    simp [this]
  · have : ct.length < 16 + 16 := by omega
    simp [this]
  · have : ct.length < 24 + 16 := by omega
    simp [this]
  · have : ct.length < 16 + 8 := by omega
    simp [this]

/-- the decrypted stream depends on the body region only (rc4: and on the tag through K3) -/
theorem plain_of_body (et : EType) (key : Bytes) (usage : Nat) (ct ct' p p' : Bytes)
    (hb : bodyOf et ct = bodyOf et ct') (ht : et = .rc4 → tagOf et ct = tagOf et ct')
    (h : decryptRaw P et key usage ct = some p) (h' : decryptRaw P et key usage ct' = some p') :
    p = p' := by
  cases et <;> simp only [decryptRaw, bodyOf, tagOf, EType.macLen] at h h' hb ht
  · split at h; · simp at h
    split at h; · simp at h
    split at h
    · split at h'; · simp at h'
      split at h'; · simp at h'
      split at h'
      · simp only [Option.some.injEq] at h h'; rw [← h, ← h', hb]
      · simp at h'
    · simp at h
  · split at h; · simp at h
    split at h'; · simp at h'
    rw [hb] at h
    split at h
    · simp at h
    · rename_i pl hpl
      rw [hpl] at h'
      simp only at h'
      split at h
      · split at h'
        · simp only [Option.some.injEq] at h h'; rw [← h, ← h']
        · simp at h'
      · simp at h
  · split at h; · simp at h
    split at h'; · simp at h'
    rw [hb] at h
    split at h
    · simp at h
    · rename_i pl hpl
      rw [hpl] at h'
      simp only at h'
      split at h
      · split at h'
        · simp only [Option.some.injEq] at h h'; rw [← h, ← h']
        · simp at h'
      · simp at h
  · by_cases h1 : ct.length < 16 + 16
    · simp [h1] at h
    · by_cases h1' : ct'.length < 16 + 16
      · simp [h1'] at h'
      · simp only [h1, h1', if_false] at h h'
        by_cases h2 : ct.drop (ct.length - 16) = (hmacOf P .aes128sha2
            (deriveKey P .aes128sha2 key usage .Ki) (zeros 16 ++ ct.take (ct.length - 16))).take 16
        · by_cases h2' : ct'.drop (ct'.length - 16) = (hmacOf P .aes128sha2
              (deriveKey P .aes128sha2 key usage .Ki) (zeros 16 ++ ct'.take (ct'.length - 16))).take 16
          · simp only [h2, h2', if_true] at h h'
            rw [hb] at h; rw [h] at h'; simpa using h'
          · simp [h2'] at h'
        · simp [h2] at h
  · by_cases h1 : ct.length < 24 + 16
    · simp [h1] at h
    · by_cases h1' : ct'.length < 24 + 16
      · simp [h1'] at h'
      · simp only [h1, h1', if_false] at h h'
        by_cases h2 : ct.drop (ct.length - 24) = (hmacOf P .aes256sha2
            (deriveKey P .aes256sha2 key usage .Ki) (zeros 16 ++ ct.take (ct.length - 24))).take 24
        · by_cases h2' : ct'.drop (ct'.length - 24) = (hmacOf P .aes256sha2
              (deriveKey P .aes256sha2 key usage .Ki) (zeros 16 ++ ct'.take (ct'.length - 24))).take 24
          · simp only [h2, h2', if_true] at h h'
            rw [hb] at h; rw [h] at h'; simpa using h'
          · simp [h2'] at h'
        · simp [h2] at h
  · have ht' := ht trivial
    split at h; · simp at h
    split at h'; · simp at h'
    split at h
    · split at h'
      · simp only [Option.some.injEq] at h h'; rw [← h, ← h', hb, ht']
      · simp at h'
    · simp at h

/-- **C06 tag_exact.** Same body, different tag region ⇒ not both accepted.  With a genuine
    ciphertext on one side this says: every change confined to the tag is rejected. -/
theorem tag_exact (et : EType) (hne : et ≠ .rc4) (key : Bytes) (usage : Nat) (ct ct' p : Bytes)
    (hb : bodyOf et ct = bodyOf et ct') (ht : tagOf et ct ≠ tagOf et ct')
    (h : decryptRaw P et key usage ct = some p) : decryptRaw P et key usage ct' = none := by
  cases h' : decryptRaw P et key usage ct' with
  | none => rfl
  | some p' =>
    exfalso
    have hp := plain_of_body et key usage ct ct' p p' hb (fun h => absurd h hne) h h'
    have m1 := accept_implies_mac et key usage ct p h
    have m2 := accept_implies_mac et key usage ct' p' h'
    apply ht
    rw [m1, m2, hp]
    cases et <;> simp only [macFor, hb] <;> exact absurd rfl hne

/-- **C06 tamper_collision (RFC 8009).** If two inputs with different bodies are both accepted under
    the same key and usage and carry the same tag, the truncated HMAC collides on two different
    messages. -/
theorem tamper_collision_sha2 (et : EType) (hs : et = .aes128sha2 ∨ et = .aes256sha2)
    (key : Bytes) (usage : Nat) (ct ct' p p' : Bytes)
    (hb : bodyOf et ct ≠ bodyOf et ct') (ht : tagOf et ct = tagOf et ct')
    (h : decryptRaw P et key usage ct = some p) (h' : decryptRaw P et key usage ct' = some p') :
    ∃ k m m', m ≠ m' ∧ (hmacOf P et k m).take et.macLen = (hmacOf P et k m').take et.macLen := by
  have m1 := accept_implies_mac et key usage ct p h
  have m2 := accept_implies_mac et key usage ct' p' h'
  refine ⟨deriveKey P et key usage .Ki, zeros 16 ++ bodyOf et ct, zeros 16 ++ bodyOf et ct', ?_, ?_⟩
  · intro heq; exact hb (List.append_cancel_left heq)
  · cases hs with
    | inl e => subst e; simp only [macFor] at m1 m2; rw [← m1, ← m2, ht]
    | inr e => subst e; simp only [macFor] at m1 m2; rw [← m1, ← m2, ht]

/-- **C06 tamper_collision (rc4).** Same tag, different body, both accepted ⇒ HMAC-MD5 collides. -/
theorem tamper_collision_rc4 (hP : P.Lawful) (key : Bytes) (usage : Nat) (ct ct' p p' : Bytes)
    (hb : bodyOf .rc4 ct ≠ bodyOf .rc4 ct') (ht : tagOf .rc4 ct = tagOf .rc4 ct')
    (h : decryptRaw P .rc4 key usage ct = some p) (h' : decryptRaw P .rc4 key usage ct' = some p') :
    ∃ k, p ≠ p' ∧ P.hmacMd5 k p = P.hmacMd5 k p' := by
  have m1 := accept_implies_mac .rc4 key usage ct p h
  have m2 := accept_implies_mac .rc4 key usage ct' p' h'
  refine ⟨P.hmacMd5 key (rc4MsgType usage), ?_, ?_⟩
  · -- p = rc4 k3 body with the same k3, and rc4 is an involution, hence injective
    simp only [decryptRaw, bodyOf, tagOf] at h h' hb ht
    split at h; · simp at h
    split at h'; · simp at h'
    split at h
    · split at h'
      · simp only [Option.some.injEq] at h h'
        intro hpp
        apply hb
        have e1 := congrArg (P.rc4 (P.hmacMd5 (P.hmacMd5 key (rc4MsgType usage)) (ct.take 16))) h
        have e2 := congrArg (P.rc4 (P.hmacMd5 (P.hmacMd5 key (rc4MsgType usage)) (ct'.take 16))) h'
        rw [hP.rc4_invol] at e1 e2
        rw [e1, e2, ht, hpp]
      · simp at h'
    · simp at h
  · simp only [macFor] at m1 m2; rw [← m1, ← m2, ht]

/-! ## rc4 usage aliases -/

theorem le32_inj (a b : Nat) (ha : a < 4294967296) (hb : b < 4294967296) (h : le32 a = le32 b) :
    a = b := by
  have h1 := dec32le_le32 a ha []
  have h2 := dec32le_le32 b hb []
  rw [h] at h1
  rw [h1] at h2
  simpa using h2

theorem rc4Alias_lt (u : Nat) (h : u < 4294967296) : rc4Alias u < 4294967296 := by
  unfold rc4Alias; split <;> try omega
  split <;> try omega
  split <;> omega

/-- **C06 alias_exact.** The message types of two 32-bit usages coincide exactly when their aliases
    do; the alias relation is 3 ↦ 8, 9 ↦ 8, 23 ↦ 13 and the identity elsewhere. -/
theorem alias_exact (u u' : Nat) (h : u < 4294967296) (h' : u' < 4294967296) :
    rc4MsgType u = rc4MsgType u' ↔ rc4Alias u = rc4Alias u' := by
  constructor
  · intro e; exact le32_inj _ _ (rc4Alias_lt u h) (rc4Alias_lt u' h') e
  · intro e; simp [rc4MsgType, e]

theorem alias_cases (u u' : Nat) :
    rc4Alias u = rc4Alias u' ↔
      (u = u' ∨ (u ∈ [3, 8, 9] ∧ u' ∈ [3, 8, 9]) ∨ (u ∈ [13, 23] ∧ u' ∈ [13, 23])) := by
  unfold rc4Alias
  simp only [List.mem_cons, List.not_mem_nil, or_false]
  constructor
  · intro h
    split at h <;> split at h <;> (try split at h) <;> (try split at h) <;> (try split at h) <;>
      (try split at h) <;> omega
  · intro h
    split <;> split <;> (try split) <;> (try split) <;> (try split) <;> (try split) <;> omega

/-! ## non-vacuity: with the toy primitives a genuine ciphertext is accepted and a flipped tag is not -/

example : decryptRaw C05.toy .aes128 [7] 2 (encrypt C05.toy .aes128 [7] 2 (zeros 16) [9, 9])
    = some (zeros 16 ++ [9, 9]) := by
  rw [C05.roundtrip_raw C05.toy_lawful _ _ _ _ _ (by simp [EType.confLen])]; rfl

end Krb.C06
